import PewDriver.Util
import PewModel.FastParse
open Lean
namespace PewDriver.C17
open PewDriver Pew.FastParse

def parseItem (j : Json) : R Item := do
  let t ← getStr j "t"
  match t with
  | "cv" => pure (.cv (← getStr j "acc") (← fld j "value" >>= asOpt asStr))
  | "ref" => pure (.ref (← getStr j "ref"))
  | "user" => pure .misc
  | "misc" => pure .misc
  | _ => throw s!"bad item kind {t}"

def items (j : Json) (k : String) : R (List Item) := getList parseItem j k

def parseSpec (j : Json) : R Spec := do
  pure { items := ← items j "items", scanlist := ← items j "scanlist",
         scans := ← getList (asList parseItem) j "scans",
         arrays := ← getList (fun a => do pure ({ items := ← items a "items" } : Arr)) j "arrays",
         tail := ← items j "tail" }

def sects (j : Json) (k : String) : R (List Sect) :=
  getList (fun s => do pure ({ items := ← items s "items" } : Sect)) j k

def parseDoc (j : Json) : R Doc := do
  pure { decl := ← getBool j "decl", pre := ← sects j "pre", mid1 := ← sects j "mid1",
         mid2 := ← sects j "mid2", post := ← sects j "post",
         settingsFirst := ← getBool j "settings_first",
         groups := ← getList (fun g => do pure ({ id := ← getStr g "id", items := ← items g "items" } : Group)) j "groups",
         settings := ← getList (fun s => do pure ({ items := ← items s "items" } : Settings)) j "settings",
         spectra := ← getList parseSpec j "spectra" }

def jPGroup (g : PGroup) : Json :=
  jObj [("id", jStr g.id), ("dtype", jStr g.dtype), ("external", jBool g.external)]

def jModel (m : Model) : Json :=
  jObj [("size", jOpt (fun (p : String × String) => jList jStr [p.1, p.2]) m.scan.size),
        ("pixel", jList jStr [m.scan.pixel.1, m.scan.pixel.2]),
        ("mz", jPGroup m.mz), ("inten", jPGroup m.inten),
        ("spectra", jList (fun (s : SpecInfo) =>
          jObj [("x", jStr s.x), ("y", jStr s.y), ("tic", jOpt jStr s.tic),
                ("arrays", jList (fun (a : String × String × String) => jList jStr [a.1, a.2.1, a.2.2]) s.arrays)]) m.spectra)]

def errName : Err → String
  | .eof => "eof" | .keyError => "KeyError" | .typeError => "TypeError" | .valueError => "ValueError"
  | .indexError => "IndexError" | .aborted => "UserWarning"

def jResult : Except Err Model → Json
  | .ok m => jObj [("ok", jModel m)]
  | .error e => jObj [("raises", jStr (errName e))]

def handle (op : String) (req : Json) : R Json := do
  match op with
  | "c17.parse" =>
    let d ← fld req "doc" >>= parseDoc
    let lens ← getList asNat req "lens"
    let cname ← getStr req "cls"
    let cls ← match cname with
      | "any" => pure clsAny
      | "word" => pure clsWord
      | _ => throw s!"bad class {cname}"
    -- index of the callback invocation that returns False (null: the callback always returns True)
    let abortAt ← fld req "abort_call" >>= asOpt asNat
    let lines := render cls d
    if lines.length ≠ lens.length then throw s!"{lines.length} lines rendered, {lens.length} lengths given"
    let ls := lines.zip lens
    let free := run (fun _ => true) ls
    let cb : Nat → Bool := match abortAt with
      | none => fun _ => true
      | some k => match free.calls[k]? with
        | some p => fun q => q != p
        | none => fun _ => true
    let s := run cb ls
    pure (jObj [("fast", jResult (fastParse cb ls)), ("calls", jList jNat s.calls),
                ("fast_free", jResult (fastParse (fun _ => true) ls)), ("calls_free", jList jNat free.calls),
                ("xml", jOpt jModel (xmlView d)),
                ("layout", jBool (decide (Layout cls d))), ("nlines", jNat lines.length)])
  | _ => throw s!"unknown op {op}"

end PewDriver.C17
