import PewDriver.Util
import PewModel.FastParse
import Std.Data.HashMap
open Lean
namespace PewDriver.C17
open PewDriver Pew.FastParse

def parseItem (j : Json) : R Item := do
  let t ← getStr j "t"
  match t with
  | "cv" => pure (.cv (← getStr j "acc") (← fld j "value" >>= asOpt asStr))
  | "ref" => pure (.ref (← getStr j "ref"))
  | "user" => pure .misc
  | "misc" => pure .misc
  | _ => throw s!"bad item kind {t}"

def items (j : Json) (k : String) : R (List Item) := getList parseItem j k

def parseSpec (j : Json) : R Spec := do
  pure { items := ← items j "items", scanlist := ← items j "scanlist",
         scans := ← getList (asList parseItem) j "scans",
         arrays := ← getList (fun a => do pure ({ items := ← items a "items" } : Arr)) j "arrays",
         tail := ← items j "tail" }

def sects (j : Json) (k : String) : R (List Sect) :=
  getList (fun s => do pure ({ items := ← items s "items" } : Sect)) j k

def parseDoc (j : Json) : R Doc := do
  pure { decl := ← getBool j "decl", pre := ← sects j "pre", mid1 := ← sects j "mid1",
         mid2 := ← sects j "mid2", post := ← sects j "post",
         settingsFirst := ← getBool j "settings_first",
         groups := ← getList (fun g => do pure ({ id := ← getStr g "id", items := ← items g "items" } : Group)) j "groups",
         settings := ← getList (fun s => do pure ({ items := ← items s "items" } : Settings)) j "settings",
         spectra := ← getList parseSpec j "spectra" }

def jPGroup (g : PGroup) : Json :=
  jObj [("id", jStr g.id), ("dtype", jStr g.dtype), ("external", jBool g.external)]

def jModel (m : Model) : Json :=
  jObj [("size", jOpt (fun (p : String × String) => jList jStr [p.1, p.2]) m.scan.size),
        ("pixel", jList jStr [m.scan.pixel.1, m.scan.pixel.2]),
        ("mz", jPGroup m.mz), ("inten", jPGroup m.inten),
        ("spectra", jList (fun (s : SpecInfo) =>
          jObj [("x", jStr s.x), ("y", jStr s.y), ("tic", jOpt jStr s.tic),
                ("arrays", jList (fun (a : String × String × String) => jList jStr [a.1, a.2.1, a.2.2]) s.arrays)]) m.spectra)]

def errName : Err → String
  | .eof => "eof" | .keyError => "KeyError" | .typeError => "TypeError" | .valueError => "ValueError"
  | .indexError => "IndexError" | .aborted => "UserWarning"

def jResult : Except Err Model → Json
  | .ok m => jObj [("ok", jModel m)]
  | .error e => jObj [("raises", jStr (errName e))]

/-! the conversions of `Bin`: `int()`, `float()` and `get_binary_data` are the model's (`pyNat`, `pyFloat`,
C05's `readValues` on the bytes of the `.ibd` the harness wrote, sent as hex) -/

def hexVal (c : Char) : R Nat :=
  if '0' ≤ c ∧ c ≤ '9' then pure (c.toNat - 48)
  else if 'a' ≤ c ∧ c ≤ 'f' then pure (c.toNat - 87)
  else throw s!"bad hex digit {c}"

def hexBytes (s : String) : R (List UInt8) := do
  let cs := s.toList.toArray
  if cs.size % 2 ≠ 0 then throw "odd number of hex digits"
  let mut out : Array UInt8 := Array.mkEmpty (cs.size / 2)
  for i in [0:cs.size / 2] do
    let x ← hexVal cs[2 * i]!
    let y ← hexVal cs[2 * i + 1]!
    out := out.push (UInt8.ofNat (16 * x + y))
  pure out.toList

/-- `binOfBytes ibd` with the reads of the models at hand computed once (`readOf` is evaluated for every array of
every spectrum of `ms` and remembered under the arguments it depends on; anything else falls through to `readOf`) -/
abbrev ReadKey := String × String × String × String        -- group id, declared type, offset text, length text

def readKey (g : PGroup) (s : SpecInfo) : Option ReadKey :=
  (arrayOf s g.id).map (fun (o, l) => (g.id, g.dtype, o, l))

def readTable (ibd : List UInt8) (ms : List Model) : Std.HashMap ReadKey (Option (List Rat)) :=
  ms.foldl (fun t m => m.spectra.foldl (fun t s => [m.mz, m.inten].foldl (fun t g =>
    match readKey g s with
    | some k => if t.contains k then t else t.insert k (readOf ibd g s)
    | none => t) t) t) {}

def readMemo (ibd : List UInt8) (tbl : Std.HashMap ReadKey (Option (List Rat))) (g : PGroup) (s : SpecInfo) : Option (List Rat) :=
  match (readKey g s).bind (fun k => tbl.get? k) with
  | some r => r
  | none => readOf ibd g s

def binMemo (ibd : List UInt8) (tbl : Std.HashMap ReadKey (Option (List Rat))) : Bin :=
  { binOfBytes ibd with read := fun g s => (readMemo ibd tbl g s).getD [] }

/-- `convertible` with the remembered reads -/
def convertibleMemo (ibd : List UInt8) (tbl : Std.HashMap ReadKey (Option (List Rat))) (m : Model) : Bool :=
  (match m.scan.size with
    | some (x, y) => (pyNat x).isSome && (pyNat y).isSome
    | none => true) &&
  m.spectra.all (fun s =>
    (pyNat s.x).isSome && (pyNat s.y).isSome &&
    (match s.tic with | some t => (pyFloat t).isSome | none => true) &&
    (readMemo ibd tbl m.mz s).isSome && (readMemo ibd tbl m.inten s).isSome)

/-- every text the extraction converts is one the model converts (`convertible`), every spectrum has both
arrays with strictly increasing (possibly empty) m/z axes of the intensities' length, 1-based positions inside the
image: the class on which `Pew.Imzml`'s placement and window sums are the NumPy ones -/
def imagesHyp (ibd : List UInt8) (tbl : Std.HashMap ReadKey (Option (List Rat))) (m : Model) : Bool :=
  let B := binMemo ibd tbl
  let size := imageSizeOf B m
  convertibleMemo ibd tbl m &&
  m.spectra.all (fun s =>
    (let t := toSpectrum B m s
     Pew.Imzml.incrB t.mz && t.mz.length == t.it.length &&
     decide (1 ≤ t.x) && decide (1 ≤ t.y) && decide (t.x ≤ size.1) && decide (t.y ≤ size.2)))

def jImages (B : Bin) (m : Model) (masses : List Rat) (w : Pew.Imzml.Width) : Json :=
  let size := imageSizeOf B m
  jObj [("size", jList jNat [size.1, size.2]),
        ("tic", jList (jList (jOpt jRat)) (ticImageOf B m)),
        ("mass", jList (jList (jOpt (jList jRat))) (massImageOf B m masses w))]

/-- the images of a model with one binary, `null` when the exact comparison does not apply -/
def imagesOf (ibd : List UInt8) (tbl : Std.HashMap ReadKey (Option (List Rat))) (masses : List Rat) (w : Pew.Imzml.Width)
    (m : Model) : Json :=
  if imagesHyp ibd tbl m then jImages (binMemo ibd tbl) m masses w else Json.null

structure BinReq where
  ibd : List UInt8
  masses : List Rat
  width : Rat

def parseBin (b : Json) : R BinReq := do
  pure { ibd := ← (getStr b "ibd" >>= hexBytes), masses := ← getList asRat b "masses", width := ← getRat b "width_mz" }

/-! the object a callback hands back -/

def parsePyVal (j : Json) : R PyVal := do
  let t ← getStr j "t"
  match t with
  | "bool" => pure (.bool (← getBool j "v"))
  | "npbool" => pure (.npBool (← getBool j "v"))
  | "int" => pure (.int (← getInt j "v"))
  | "none" => pure .none
  | "other" => pure (.other (← getBool j "v"))
  | _ => throw s!"bad callback value kind {t}"

/-- a callback that hands back `value` at invocation `at` and `dflt` at every other one -/
structure CbReq where
  dflt : PyVal
  idx : Option Nat
  value : PyVal

def parseCb (j : Json) : R CbReq := do
  pure { dflt := ← fld j "default" >>= parsePyVal, idx := ← fld j "at" >>= asOpt asNat, value := ← fld j "value" >>= parsePyVal }

/-- the objects handed back at invocations `0 … n-1` -/
def CbReq.vals (c : CbReq) (n : Nat) : List PyVal :=
  (List.range n).map (fun j => if c.idx == some j then c.value else c.dflt)

/-- the callback as a function of the file position: invocation `j` happens at `positions[j]` -/
def CbReq.fn (c : CbReq) (positions : List Nat) : Nat → PyVal :=
  match c.idx.bind (fun k => positions[k]?) with
  | some p => fun q => if q == p then c.value else c.dflt
  | none => fun _ => c.dflt

def jOutcome : Option Nat → Json := jOpt jNat

structure DocReq where
  cls : String → Bool
  d : Doc
  lens : List Nat
  ls : List (Line × Nat)        -- the rendered document
  tls : List (Line × Nat)       -- the tokenised text of the file (= `ls` when the harness sent no text)
  tokensOk : Bool               -- the two agree up to `Line.norm`

def parseDocReq (req : Json) : R DocReq := do
  let d ← fld req "doc" >>= parseDoc
  let lens ← getList asNat req "lens"
  let cname ← getStr req "cls"
  let cls ← match cname with
    | "any" => pure clsAny
    | "word" => pure clsWord
    | _ => throw s!"bad class {cname}"
  let lines := render cls d
  if lines.length ≠ lens.length then throw s!"{lines.length} lines rendered, {lens.length} lengths given"
  -- the text of the file, line by line (null: not sent), classified by the code's string tests
  let texts ← fld req "texts" >>= asOpt (asList asStr)
  let clsC := if cname == "any" then clsAnyC else clsWordC
  let (toks, ok) ← match texts with
    | none => pure (lines, true)
    | some ts =>
      if ts.length ≠ lines.length then throw s!"{lines.length} lines rendered, {ts.length} text lines given"
      match tokeniseAll clsC ts with
      | none => throw "a text line is outside the domain of `tokenise`"
      | some toks => pure (toks, toks.map Line.norm == lines.map Line.norm)
  pure { cls := cls, d := d, lens := lens, ls := lines.zip lens, tls := toks.zip lens, tokensOk := ok }

/-- one import through the fast parser with a callback: result, positions handed over, the outcomes the
property allows and the mechanism's -/
def jCallbackRun (q : DocReq) (free : St) (c : CbReq) : Json :=
  let f := c.fn free.calls
  let s := run (cbOf f) q.ls
  let vals := c.vals free.calls.length
  jObj [("fast", jResult (fastParse (cbOf f) q.ls)), ("calls", jList jNat s.calls),
        ("ok_outcomes", jList jOutcome (okOutcomes vals)), ("mech_outcome", jOutcome (firstFalsy vals))]

def parseEdit (j : Json) : R Edit := do
  let k ← getStr j "k"
  let pair (j : Json) : R (String × String) := do
    match ← asList asStr j with
    | [a, b] => pure (a, b)
    | _ => throw "expected a pair of strings"
  let triple (j : Json) : R (String × String × String) := do
    match ← asList asStr j with
    | [a, b, c] => pure (a, b, c)
    | _ => throw "expected a triple of strings"
  let group (j : Json) : R PGroup := do
    pure { id := ← getStr j "id", dtype := ← getStr j "dtype", external := ← getBool j "external" }
  match k with
  | "setSize" => pure (.setSize (← fld j "size" >>= asOpt pair))
  | "setPixel" => pure (.setPixel (← fld j "pixel" >>= pair))
  | "dropSpectrum" => pure (.dropSpectrum (← getNat j "i"))
  | "clearSpectra" => pure .clearSpectra
  | "addSpectrum" =>
    let sp ← fld j "spec"
    pure (.addSpectrum { x := ← getStr sp "x", y := ← getStr sp "y", tic := ← fld sp "tic" >>= asOpt asStr,
                         arrays := ← getList triple sp "arrays" })
  | "setTic" => pure (.setTic (← getNat j "i") (← fld j "tic" >>= asOpt asStr))
  | "setPos" => pure (.setPos (← getNat j "i") (← getStr j "x") (← getStr j "y"))
  | "setArrays" => pure (.setArrays (← getNat j "i") (← getList triple j "arrays"))
  | "setMz" => pure (.setMz (← fld j "group" >>= group))
  | "setInten" => pure (.setInten (← fld j "group" >>= group))
  | "setBin" => pure (.setBin (← getNat j "bin"))
  | _ => throw s!"bad edit kind {k}"

def handle (op : String) (req : Json) : R Json := do
  match op with
  | "c17.parse" =>
    let q ← parseDocReq req
    let cls := q.cls
    let d := q.d
    -- the mechanism runs on the tokenised text of the file (`tokens_agree_modulo_inert_lines`: the same as on `q.ls`)
    let q := { q with ls := q.tls }
    let free := run (fun _ => true) q.ls
    -- the progress callback: which object it hands back at which invocation
    let c ← fld req "cb" >>= parseCb
    -- specification of the callback positions: the formula over the line lengths
    -- (`callPositionsFast` = `callPositions`, `callLinesFast` = the list of `callLine k`: theorems `callPositionsFast_eq`,
    -- `callLinesFast_eq`)
    let positions := callPositionsFast cls d q.lens
    let xd := xmlDoc d
    let xml := xmlView xd
    let fastFree := fastParse (fun _ => true) q.ls
    -- the images of both models, when the harness sent the binary
    let bin ← fld req "bin"
    let images ← match bin with
      | .null => pure Json.null
      | b => do
        let br ← parseBin b
        let tbl := readTable br.ibd (xml.toList ++ fastFree.toOption.toList)
        let one (m : Option Model) : Json := match m with
          | some m => imagesOf br.ibd tbl br.masses (.mz br.width) m
          | none => Json.null
        pure (jObj [("xml", one xml), ("fast", one fastFree.toOption)])
    pure (jObj [("callback", jCallbackRun q free c),
                ("fast_free", jResult fastFree), ("calls_free", jList jNat free.calls),
                ("xml", jOpt jModel xml),
                ("call_positions", jList jNat positions),
                ("call_lines", jList jNat (callLinesFast cls d)),
                ("layout", jBool (decide (Layout cls d))),
                ("text_ok", jBool (decide (TextOk d))),
                ("layout_core_decoded", jBool (decide (LayoutCore cls xd))),
                ("images", images),
                ("tokens_ok", jBool q.tokensOk),
                ("nlines", jNat q.ls.length)])
  | "c17.history" =>
    -- several imports of one document in one process (`runOps`), each with its own binary and callback,
    -- with caller edits of the returned objects in between
    let q ← parseDocReq req
    let q := { q with ls := q.tls }
    let bins ← getList (asOpt parseBin) req "bins"
    let free := run (fun _ => true) q.ls
    let positions := callPositionsFast q.cls q.d q.lens
    let opsJ ← fld req "ops" >>= asArr
    let mut ops : List Op := []
    let mut cbs : List (Option CbReq) := []        -- per import
    for o in opsJ do
      match ← getStr o "op" with
      | "import" =>
        let b ← getNat o "bin"
        if b ≥ bins.length then throw s!"binary {b} not given"
        match ← getStr o "parser" with
        | "xml" => ops := ops ++ [.imp { parser := .xml, bin := b }]; cbs := cbs ++ [none]
        | "fast" =>
          let c ← fld o "cb" >>= asOpt parseCb
          ops := ops ++ [.imp { parser := .fast (c.map (fun c => cbOf (c.fn free.calls))), bin := b }]
          cbs := cbs ++ [c]
        | p => throw s!"bad parser {p}"
      | "edit" => ops := ops ++ [.edit (← getNat o "obj") (← fld o "edit" >>= parseEdit)]
      | k => throw s!"bad op {k}"
    let sess := runOps q.d q.ls ops
    let xml := xmlView (xmlDoc q.d)
    let models := xml.toList ++ sess.results.filterMap (fun r => match r with | .ok o => some o.model | _ => none)
    let tbls := bins.map (fun b => match b with
      | some br => readTable br.ibd models
      | none => {})
    let imgs (o : Obj) : Json := match bins[o.bin]?, tbls[o.bin]? with
      | some (some br), some tbl => imagesOf br.ibd tbl br.masses (.mz br.width) o.model
      | _, _ => Json.null
    let jRes : Result → Json
      | .ok o => jObj [("ok", jModel o.model), ("bin", jNat o.bin), ("images", imgs o)]
      | .fastErr e => jObj [("raises", jStr (errName e))]
      | .xmlErr => jObj [("raises", jStr "xml")]
    -- specification: every import gives the XML parser's model of the document with the binary of that import
    let specs := (importsOf ops).map (fun i => match xml with
      | some m => jRes (.ok { model := m, bin := i.bin })
      | none => Json.null)
    let cbInfo := cbs.map (fun c => match c with
      | some c =>
        let f := c.fn free.calls
        let vals := c.vals free.calls.length
        jObj [("calls", jList jNat (run (cbOf f) q.ls).calls),
              ("ok_outcomes", jList jOutcome (okOutcomes vals)), ("mech_outcome", jOutcome (firstFalsy vals))]
      | none => Json.null)
    pure (jObj [("results", jList jRes sess.results), ("spec", Json.arr specs.toArray),
                ("callbacks", Json.arr cbInfo.toArray), ("call_positions", jList jNat positions),
                ("heap", jList (fun (o : Obj) => jObj [("model", jModel o.model), ("bin", jNat o.bin)]) sess.heap),
                ("tokens_ok", jBool q.tokensOk),
                ("layout", jBool (decide (Layout q.cls q.d)))])
  | _ => throw s!"unknown op {op}"

end PewDriver.C17
