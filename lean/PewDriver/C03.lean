import PewDriver.Util
import PewModel.Thermo
import Std.Data.HashMap
import Std.Data.HashSet
open Lean
namespace PewDriver.C03
open PewDriver Pew.Thermo

def jV : V → Json := jOpt jRat

def jImg (r : Option (Img V)) : Json :=
  match r with
  | none => jObj [("raises", jStr "error")]
  | some img => jObj [("names", jList jStr img.names), ("planes", jList (jList (jList jV)) img.planes)]

def jPVal (v : Pew.CsvDir.PVal) : Json := jObj [("val", jV v.val), ("margin", jV v.margin)]

def jParams (p : Option Params) : Json :=
  match p with
  | none => jObj [("raises", jStr "error")]
  | some p => jObj [("times", jList (jList jV) p.times), ("scantime", jPVal p.scantime)]

def jFmt : Fmt → Json
  | .rows => jStr "rows" | .columns => jStr "columns" | .unknown => jStr "unknown"

def jLoad : LoadResult → Json
  | .unknownFormat => jObj [("raises", jStr "error")]
  | .readError => jObj [("raises", jStr "error")]
  | .ok img p => jObj [("image", jImg (some img)),
                       ("params", match p with | none => jObj [] | some q => jParams (some q))]

def jTable (t : Table) : Json := jList (jList jStr) t

def parseTokens (j : Json) : R (Array (Array (Array (Array String)))) := do
  let l ← asList (asList (asList (asList asStr))) j
  pure (l.map (fun a => (a.map (fun b => (b.map (·.toArray)).toArray)).toArray)).toArray

def parseTable (req : Json) : R (Std.HashMap String V) := do
  let tbl ← getList (fun j => do
    let a ← asArr j
    match a with
    | [k, v] => do pure ((← asStr k), (← asOpt asRat v))
    | _ => throw "bad parse table entry") req "parse"
  pure (Std.HashMap.ofList tbl)

def optDelim (req : Json) : R (Option Char) := do
  let j ← fld req "delimiter"
  match j with
  | .null => pure none
  | _ => do
    let d ← asStr j
    match d.toList with
    | [c] => pure (some c)
    | _ => throw "delimiter must be one character"


def getChar (req : Json) (k : String) : R Char := do
  let d ← getStr req k
  match d.toList with
  | [c] => pure c
  | _ => throw s!"{k} must be one character"

/-- an acquisition from its JSON description; every token must be in the table of `float()` -/
def parseAcq (hm : Std.HashMap String V) (req : Json) : R Acq := do
  let samples ← getList asStr req "samples"
  let nscans ← getNat req "nscans"
  let elements ← getList asStr req "elements"
  let channels ← getList asStr req "channels"
  let toks ← fld req "tokens" >>= parseTokens
  let value : Nat → Nat → Nat → Nat → String := fun i s e c =>
    ((((toks[i]?).bind (·[s]?)).bind (·[e]?)).bind (·[c]?)).getD ""
  for i in List.range samples.length do
    for s in List.range nscans do
      for e in List.range elements.length do
        for c in List.range channels.length do
          let t := value i s e c
          if !(hm.contains t) || !(hm.contains (fixDec true t)) then throw s!"token {t} not in the parse table"
  pure { samples := samples, nscans := nscans, elements := elements, channels := channels, value := value }

def jLoadOut : LoadOut → Json
  | .raises => jObj [("raises", jStr "error")]
  | .data img => jObj [("image", jImg (some img))]
  | .full img p => jObj [("image", jImg (some img)),
                         ("params", match p with | none => jObj [] | some q => jParams (some q))]

def jOut : Out → Json
  | .fmt f => jFmt f
  | .load r => jLoadOut r
  | .img r => jImg r
  | .params r => jParams r
  | .noFile => jObj [("raises", jStr "no-file")]

def optDelimOf (req : Json) (k : String) : R (Option Char) := do
  let j ← fld req k
  match j with
  | .null => pure none
  | _ => do
    let d ← asStr j
    match d.toList with
    | [c] => pure (some c)
    | _ => throw "delimiter must be one character"

def parseCall (j : Json) : R Call := do
  let fn ← getStr j "fn"
  match fn with
  | "sniff" => pure .sniff
  | "load" => pure (.load (← getBool j "use_analog") (← getBool j "full"))
  | "data" => pure (.data (← getBool j "rows") (← optDelimOf j "delimiter") (← getBool j "comma") (← getBool j "use_analog"))
  | "params" => pure (.params (← getBool j "rows") (← optDelimOf j "delimiter") (← getBool j "comma"))
  | _ => throw s!"unknown call {fn}"

def parseContent (hm : Std.HashMap String V) (j : Json) : R Content := do
  let kind ← getStr j "kind"
  match kind with
  | "other" => pure (.other (← getList asStr j "lines"))
  | "rows" => pure (.rows (← getChar j "delimiter") (← getBool j "comma") (← parseAcq hm j))
  | "cols" => pure (.cols (← getChar j "delimiter") (← getBool j "comma") (← parseAcq hm j))
  | _ => throw s!"unknown content {kind}"

/-- every string the external conversions can be asked about for this table -/
def candidates (t : Table) : List String :=
  let raw := t.flatten
  let g := fun b => (t.map (fun r => gfSplit (r.map (fixDec b)))).flatten
  let all := raw ++ raw.map (trunc 16) ++ g false ++ g true
  let (_, out) := all.foldl (fun (acc : Std.HashSet String × List String) s =>
    if acc.1.contains s then acc else (acc.1.insert s, s :: acc.2)) (({} : Std.HashSet String), [])
  out.reverse

def handle (op : String) (req : Json) : R Json := do
  match op with
  | "c03.acq" =>
    let samples ← getList asStr req "samples"
    let nscans ← getNat req "nscans"
    let elements ← getList asStr req "elements"
    let channels ← getList asStr req "channels"
    let toks ← fld req "tokens" >>= parseTokens
    let comma ← getBool req "comma"
    let delim ← (do let d ← getStr req "delimiter"
                    match d.toList with
                    | [c] => pure c
                    | _ => throw "delimiter must be one character" : R Char)
    let hm ← parseTable req
    let value : Nat → Nat → Nat → Nat → String := fun i s e c =>
      ((((toks[i]?).bind (·[s]?)).bind (·[e]?)).bind (·[c]?)).getD ""
    let acq : Acq := { samples := samples, nscans := nscans, elements := elements, channels := channels, value := value }
    -- every token the readers can meet must be in the table of float()
    for i in List.range samples.length do
      for s in List.range nscans do
        for e in List.range elements.length do
          for c in List.range channels.length do
            let t := value i s e c
            if !(hm.contains t) || !(hm.contains (fixDec true t)) then throw s!"token {t} not in the parse table"
    let x : Ext V := { parse := fun t => ((hm.get? t).getD none), readInt := fun t => t.toInt? }
    let explicit ← getBool req "explicit_delimiter"
    let tc0 := renderCols toString acq
    let tr0 := renderRows toString acq
    -- the text of the two files; the readers get its lines split again (at the delimiter passed on, or at the first
    -- character of the file), unless a line is too long for the structurally recursive splitter of the model
    let xc := renderText delim tc0
    let xr := renderText delim tr0
    let short := (xc ++ xr).all (fun l => l.length < 20000)
    let resplit := fun (lines : List String) (t0 : Table) => (do
      if !short then pure t0 else
      match tableOf (if explicit then some delim else none) lines with
      | some t => pure t
      | none => throw "an export without a first character" : R Table)
    let tc ← resplit xc tc0
    let tr ← resplit xr tr0
    let ldText := fun (lines : List String) (t0 : Table) (ua : Bool) =>
      if short then loadText x lines ua else load x delim t0 ua
    let ldData := fun (lines : List String) (t0 : Table) (ua : Bool) =>
      if short then loadCall x lines ua false else loadData x delim t0 ua
    let chanRes := channels.zipIdx.map (fun (ch, ci) =>
      jObj [("channel", jStr ch),
            ("rows", jImg (readRows x comma ch tr)),
            ("cols", jImg (readCols x comma ch tc)),
            ("spec", jImg (some (specImg x comma acq ci)))])
    let missing ← getList asStr req "missing"
    let missRes := missing.map (fun ch =>
      jObj [("channel", jStr ch), ("rows", jImg (readRows x comma ch tr)), ("cols", jImg (readCols x comma ch tc))])
    let timeIdx := channels.findIdx (· == "Time")
    -- the specification of the parameters: from the acquisition (the ground truth), never from a reader
    let specPar : Json := if timeIdx < channels.length
      then jParams (some (specParams x comma acq timeIdx)) else Json.null
    pure (jObj [("table_cols", jTable tc), ("table_rows", jTable tr),
                ("text_cols", jList jStr xc), ("text_rows", jList jStr xr), ("resplit", jBool short),
                ("channels", Json.arr chanRes.toArray), ("missing", Json.arr missRes.toArray),
                ("params_rows", jParams (readParams x true comma tr)),
                ("params_cols", jParams (readParams x false comma tc)),
                ("spec_params", specPar),
                ("sniff_rows", jFmt (sniffText xr)), ("sniff_cols", jFmt (sniffText xc)),
                ("spec_sniff_rows", jFmt .rows), ("spec_sniff_cols", jFmt .columns),
                ("other_rows", jBool (otherFile tr)), ("other_cols", jBool (otherFile tc)),
                ("load_rows", jLoad (ldText xr tr0 false)), ("load_cols", jLoad (ldText xc tc0 false)),
                ("load_rows_analog", jLoad (ldText xr tr0 true)), ("load_cols_analog", jLoad (ldText xc tc0 true)),
                ("loaddata_rows", jLoadOut (ldData xr tr0 false)), ("loaddata_cols", jLoadOut (ldData xc tc0 false)),
                ("loaddata_rows_analog", jLoadOut (ldData xr tr0 true)), ("loaddata_cols_analog", jLoadOut (ldData xc tc0 true))])
  | "c03.sniff" =>
    -- `lines`: the lines of the decoded text; the sniffer looks for a substring of the whole line
    let lines ← getList asStr req "lines"
    let t : Table := lines.map (fun l => [l])
    pure (jObj [("model", jFmt (sniff t)), ("other", jBool (otherFile t)), ("spec", jFmt specSniffOther)])
  | "c03.fields" =>
    let lines ← getList asStr req "lines"
    let delim ← optDelim req
    -- the explicit readers split at `delimiter`, `load` at the first character of the file
    let c1 := match tableOf delim lines with | none => [] | some t => candidates t
    let c2 := match tableOf none lines with | none => [] | some t => candidates t
    pure (jObj [("fields", jList jStr (c1 ++ c2).eraseDups)])
  | "c03.text" =>
    -- a decoded text given as its lines (terminators kept); `delimiter` as passed to the explicit readers
    let lines ← getList asStr req "lines"
    let delim ← optDelim req
    let comma ← getBool req "comma"
    let hm ← parseTable req
    let ints ← getList (fun j => do
      let a ← asArr j
      match a with
      | [k, v] => do pure ((← asStr k), (← asOpt asInt v))
      | _ => throw "bad int table entry") req "ints"
    let hi : Std.HashMap String (Option Int) := Std.HashMap.ofList ints
    let x : Ext V := { parse := fun t => ((hm.get? t).getD none), readInt := fun t => ((hi.get? t).getD none) }
    let sn := jFmt (sniffText lines)
    let ld := fun ua => jLoad (loadText x lines ua)
    match tableOf delim lines with
    | none =>
      -- `delimiter = line[0]` of an empty first line: every explicit reader raises
      let e := jImg (none : Option (Img V))
      pure (jObj [("rows.data.Counter", e), ("rows.data.Analog", e), ("cols.data.Counter", e), ("cols.data.Analog", e),
                  ("rows.params", jParams none), ("cols.params", jParams none),
                  ("format", sn), ("load.Counter", ld false), ("load.Analog", ld true)])
    | some t =>
      for f in candidates t do
        if !(hm.contains f) || !(hi.contains f) then throw s!"field {f} not in the conversion tables"
      -- `load` splits at the first character of the file whatever was passed to the explicit readers
      match tableOf none lines with
      | none => pure ()
      | some t' =>
        for f in candidates t' do
          if !(hm.contains f) || !(hi.contains f) then throw s!"field {f} not in the conversion tables"
      pure (jObj [("rows.data.Counter", jImg (readRows x comma "Counter" t)), ("rows.data.Analog", jImg (readRows x comma "Analog" t)),
                  ("cols.data.Counter", jImg (readCols x comma "Counter" t)), ("cols.data.Analog", jImg (readCols x comma "Analog" t)),
                  ("rows.params", jParams (readParams x true comma t)), ("cols.params", jParams (readParams x false comma t)),
                  ("format", sn), ("load.Counter", ld false), ("load.Analog", ld true)])
  | "c03.decode" =>
    -- the characters of a file (its bytes decoded as plain UTF-8, byte order mark and carriage returns still there)
    -- -> the lines the text layer hands out (`open(path, "r", encoding="utf-8-sig")`)
    let chars ← getStr req "chars"
    pure (jObj [("lines", jList jStr (decodeLines chars.toList))])
  | "c03.history" =>
    -- a history of exports written to a few paths and of calls on them: the model reads the text the path holds at
    -- the time of the call, the specification judges the call by what was last exported to the path
    let hm ← parseTable req
    let x : Ext V := { parse := fun t => ((hm.get? t).getD none), readInt := fun t => t.toInt? }
    let contents ← getList (parseContent hm) req "contents"
    let evs ← getList (fun j => do
      let p ← getNat j "path"
      match fldOpt j "call" with
      | some c => pure (SEvent.call p (← parseCall c))
      | none =>
        let i ← getNat j "write"
        match contents[i]? with
        | some c => pure (SEvent.write p (← getNat j "mtime") c)
        | none => throw "content index out of range") req "events"
    for c in contents do
      match c with
      | .other ls => if !(otherFile (ls.map fun l => [l])) then throw "an 'other' content mentions MainRuns on line 1 or 3"
      | _ => pure ()
    let model := runHistory x (fun _ => none) (evs.map (SEvent.event toString))
    let spec := specHistory x (fun _ => none) evs
    if model.length != spec.length then throw "history: model and specification differ in length"
    pure (jObj [("texts", jList (jList jStr) (contents.map (Content.text toString))),
                ("results", jList (fun (p : Out × Option Out) => jObj [("model", jOut p.1), ("spec", jOpt jOut p.2)]) (model.zip spec))])
  | _ => throw s!"unknown op {op}"

end PewDriver.C03
