import PewDriver.Util
import PewModel.Thermo
import Std.Data.HashMap
open Lean
namespace PewDriver.C03
open PewDriver Pew.Thermo

def jV : V → Json := jOpt jRat

def jImg (r : Option (Img V)) : Json :=
  match r with
  | none => jObj [("raises", jStr "error")]
  | some img => jObj [("names", jList jStr img.names), ("planes", jList (jList (jList jV)) img.planes)]

def jPVal (v : Pew.CsvDir.PVal) : Json := jObj [("val", jV v.val), ("margin", jV v.margin)]

def jParams (p : Option Params) : Json :=
  match p with
  | none => jObj [("raises", jStr "error")]
  | some p => jObj [("times", jList (jList jV) p.times), ("scantime", jPVal p.scantime)]

def jFmt : Fmt → Json
  | .rows => jStr "rows" | .columns => jStr "columns" | .unknown => jStr "unknown"

def jLoad : LoadResult → Json
  | .unknownFormat => jObj [("raises", jStr "error")]
  | .readError => jObj [("raises", jStr "error")]
  | .ok img p => jObj [("image", jImg (some img)),
                       ("params", match p with | none => jObj [] | some q => jParams (some q))]

def jTable (t : Table) : Json := jList (jList jStr) t

def parseTokens (j : Json) : R (Array (Array (Array (Array String)))) := do
  let l ← asList (asList (asList (asList asStr))) j
  pure (l.map (fun a => (a.map (fun b => (b.map (·.toArray)).toArray)).toArray)).toArray

def handle (op : String) (req : Json) : R Json := do
  match op with
  | "c03.acq" =>
    let samples ← getList asStr req "samples"
    let nscans ← getNat req "nscans"
    let elements ← getList asStr req "elements"
    let channels ← getList asStr req "channels"
    let toks ← fld req "tokens" >>= parseTokens
    let comma ← getBool req "comma"
    let delim ← (do let d ← getStr req "delimiter"
                    match d.toList with
                    | [c] => pure c
                    | _ => throw "delimiter must be one character" : R Char)
    let tbl ← getList (fun j => do
      let a ← asArr j
      match a with
      | [k, v] => do pure ((← asStr k), (← asOpt asRat v))
      | _ => throw "bad parse table entry") req "parse"
    let value : Nat → Nat → Nat → Nat → String := fun i s e c =>
      ((((toks[i]?).bind (·[s]?)).bind (·[e]?)).bind (·[c]?)).getD ""
    let acq : Acq := { samples := samples, nscans := nscans, elements := elements, channels := channels, value := value }
    let hm : Std.HashMap String V := Std.HashMap.ofList tbl
    -- every token the readers can meet must be in the table of float()
    for i in List.range samples.length do
      for s in List.range nscans do
        for e in List.range elements.length do
          for c in List.range channels.length do
            let t := value i s e c
            if !(hm.contains t) || !(hm.contains (fixDec true t)) then throw s!"token {t} not in the parse table"
    let x : Ext V := { parse := fun t => ((hm.get? t).getD none), readNat := fun t => t.toNat? }
    let tc := renderCols toString acq
    let tr := renderRows toString acq
    let chanRes := channels.zipIdx.map (fun (ch, ci) =>
      jObj [("channel", jStr ch),
            ("rows", jImg (readRows x comma ch tr)),
            ("cols", jImg (readCols x comma ch tc)),
            ("spec", jImg (some (specImg x comma acq ci)))])
    let missing ← getList asStr req "missing"
    let missRes := missing.map (fun ch =>
      jObj [("channel", jStr ch), ("rows", jImg (readRows x comma ch tr)), ("cols", jImg (readCols x comma ch tc))])
    let timeIdx := channels.findIdx (· == "Time")
    let specScan : Json := if timeIdx < channels.length
      then jPVal (Pew.CsvDir.npRound 4 (specScantime x comma acq timeIdx)) else Json.null
    pure (jObj [("table_cols", jTable tc), ("table_rows", jTable tr),
                ("channels", Json.arr chanRes.toArray), ("missing", Json.arr missRes.toArray),
                ("params_rows", jParams (readParams x true comma tr)),
                ("params_cols", jParams (readParams x false comma tc)),
                ("spec_scantime", specScan),
                ("sniff_rows", jFmt (sniff tr)), ("sniff_cols", jFmt (sniff tc)),
                ("load_rows", jLoad (load x delim tr false)), ("load_cols", jLoad (load x delim tc false)),
                ("load_rows_analog", jLoad (load x delim tr true)), ("load_cols_analog", jLoad (load x delim tc true))])
  | "c03.sniff" =>
    let lines ← getList asStr req "lines"
    pure (jObj [("model", jFmt (sniff (lines.map (fun l => [l]))))])
  | _ => throw s!"unknown op {op}"

end PewDriver.C03
