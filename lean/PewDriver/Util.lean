import Lean.Data.Json
/-! JSON helpers shared by the per-property driver handlers.  No field is ever defaulted:
a missing or ill-typed field is an error and makes the check exit 2. -/
open Lean

namespace PewDriver

abbrev R := Except String

def fld (j : Json) (k : String) : R Json := j.getObjVal? k
def fldOpt (j : Json) (k : String) : Option Json := (j.getObjVal? k).toOption

def asInt (j : Json) : R Int :=
  match j with
  | .num n => if n.exponent = 0 then pure n.mantissa else
      -- allow 1e3 style? never produced by the harness
      throw s!"non-integer number {j.compress}"
  | .str s => match s.toInt? with
      | some i => pure i
      | none => throw s!"bad integer string {s}"
  | _ => throw s!"expected integer, got {j.compress}"

def asNat (j : Json) : R Nat := do
  let i ← asInt j
  if i < 0 then throw s!"expected natural, got {i}" else pure i.toNat

def asStr (j : Json) : R String :=
  match j with
  | .str s => pure s
  | _ => throw s!"expected string, got {j.compress}"

def asBool (j : Json) : R Bool :=
  match j with
  | .bool b => pure b
  | _ => throw s!"expected bool, got {j.compress}"

def asArr (j : Json) : R (List Json) :=
  match j with
  | .arr a => pure a.toList
  | _ => throw s!"expected array, got {j.compress}"

def asList {α} (f : Json → R α) (j : Json) : R (List α) := do
  (← asArr j).mapM f

/-- exact rationals travel as `[num, den]` (either may be a decimal string for big values) or a bare integer -/
def asRat (j : Json) : R Rat :=
  match j with
  | .arr #[n, d] => do
      let n ← asInt n; let d ← asNat d
      if d = 0 then throw "zero denominator" else pure (mkRat n d)
  | _ => do let i ← asInt j; pure (i : Rat)

/-- `null` ↦ none (used for NaN) -/
def asOpt {α} (f : Json → R α) (j : Json) : R (Option α) :=
  match j with
  | .null => pure none
  | _ => some <$> f j

def getInt (j : Json) (k : String) : R Int := fld j k >>= asInt
def getNat (j : Json) (k : String) : R Nat := fld j k >>= asNat
def getStr (j : Json) (k : String) : R String := fld j k >>= asStr
def getBool (j : Json) (k : String) : R Bool := fld j k >>= asBool
def getRat (j : Json) (k : String) : R Rat := fld j k >>= asRat
def getList {α} (f : Json → R α) (j : Json) (k : String) : R (List α) := fld j k >>= asList f

def jInt (i : Int) : Json := .num ⟨i, 0⟩
def jNat (n : Nat) : Json := .num ⟨n, 0⟩
def jStr (s : String) : Json := .str s
def jBool (b : Bool) : Json := .bool b
def jList {α} (f : α → Json) (l : List α) : Json := .arr (l.map f).toArray
def jRat (q : Rat) : Json := .arr #[.str (toString q.num), .str (toString q.den)]
def jOpt {α} (f : α → Json) : Option α → Json
  | none => .null
  | some a => f a
def jObj (kvs : List (String × Json)) : Json := Json.mkObj kvs

end PewDriver
