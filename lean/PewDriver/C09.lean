import PewDriver.Util
import PewModel.Srr
open Lean
namespace PewDriver.C09
open PewDriver Pew Pew.Srr

def parsePairs (j : Json) (k : String) : R (List (Nat × Nat)) :=
  getList (fun p => do
      match (← asList asNat p) with
      | [o, d] => pure (o, d)
      | _ => throw "offset pair expected") j k

/-- the constructor arguments of `SRRConfig` (exact values of the floats) -/
def parseSrrCfg (j : Json) : R SrrConfig := do
  pure (SrrConfig.make (← getRat j "spotsize") (← getRat j "speed") (← getRat j "scantime")
    (← getRat j "warmup") (← parsePairs j "pairs"))

/-- a layer: `rows × cols` pixels, each a tuple of element tokens -/
def parseLayer (j : Json) : R (Arr2 (List Int)) := do
  let rows ← getNat j "rows"
  let cols ← getNat j "cols"
  let data ← getList (asList asInt) j "data"
  if data.length ≠ rows * cols then throw "layer data/shape mismatch"
  let arr := data.toArray
  pure { rows := rows, cols := cols, get := fun r c => (arr[r * cols + c]?).getD [] }

def jArr3 (a : Arr3 (List Int)) : Json :=
  jObj [("shape", jList jNat [a.rows, a.cols, a.depth]),
        ("data", jList (fun r => jList (fun c => jList (fun i => jList jInt (a.get r c i)) (List.range a.depth))
                  (List.range a.cols)) (List.range a.rows))]

def jArr2 {α} (f : α → Json) (a : Arr2 α) : Json :=
  jObj [("shape", jList jNat [a.rows, a.cols]),
        ("data", jList (fun r => jList (fun c => f (a.get r c)) (List.range a.cols)) (List.range a.rows))]

def project (e : Nat) (l : Arr2 (List Int)) : Arr2 Rat :=
  { rows := l.rows, cols := l.cols, get := fun r c => (((l.get r c).getD e 0 : Int) : Rat) }

def jCfg (c : SrrConfig) : Json :=
  jObj [("spotsize", jRat c.spotsize), ("speed", jRat c.speed), ("scantime", jRat c.scantime),
        ("warmup_samples", jInt c.warmup), ("warmup_seconds", jRat c.warmupSeconds),
        ("size", jNat c.size), ("offs", jList jNat c.offs),
        ("subpixel_offsets", jList (fun (p : Nat × Nat) => jList jNat [p.1, p.2]) c.subpixelOffsets)]

/-- distance of the warm-up quotient from the nearest rounding tie -/
def warmupTieMargin (seconds scantime : Rat) : Rat :=
  let x := seconds / scantime
  let r := x - (x.floor : Rat)
  if r < 1 / 2 then 1 / 2 - r else r - 1 / 2

/-- the statement of theorem `offsets_setter_exact`, evaluated on the rows `[stored, size]` a configuration
reports for the offsets `pairs` it was given: one row per offset, one common sub-pixel size `≥ 1`, every
denominator divides it and `stored / size = offset / denominator` exactly -/
def setterExact (pairs : List (Nat × Nat)) (rows : List (Int × Int)) : Bool :=
  decide (rows.length = pairs.length) &&
  rows.all (fun r => decide (r.2 = (rows.headD (0, 1)).2)) &&
  (List.zip pairs rows).all (fun (p, r) =>
    decide (1 ≤ r.2) && decide (r.2 % (p.2 : Int) = 0) && decide (r.1 * (p.2 : Int) = (p.1 : Int) * r.2))

def parseRows (j : Json) : R (List (Int × Int)) :=
  asList (fun p => do
      match (← asList asInt p) with
      | [o, d] => pure (o, d)
      | _ => throw "row [stored, size] expected") j

/-- one assignment of an offset list through the `subpixel_offsets` setter: the state the model's exact
setter produces, its array round trip, and the specification evaluated on the reported rows -/
def setterReply (spotsize speed scantime seconds m : Rat) (entry : Json) : R Json := do
  let pairs ← parsePairs entry "pairs"
  let c := SrrConfig.make spotsize speed scantime seconds pairs
  let hyp := !pairs.isEmpty && pairs.all (fun p => decide (1 ≤ p.2))
  let exact ← (match (← fld entry "observed") with
    | .null => (pure none : R (Option Bool))
    | o => do pure (some (setterExact pairs (← parseRows o))))
  pure (jObj [
    ("config", jCfg c), ("spp", jNat (subpixelsPerPixel c.size m)), ("hyp", jBool hyp),
    ("roundtrip_model", jCfg (SrrConfig.fromArray c.toArray)),
    ("spp_roundtrip", jNat (subpixelsPerPixel (SrrConfig.fromArray c.toArray).size m)),
    ("spec_fractions", jList (fun (p : Nat × Nat) => jRat ((p.1 : Rat) / (p.2 : Rat))) pairs),
    ("observed_exact", jOpt jBool exact)])

def handle (op : String) (req : Json) : R Json := do
  match op with
  | "c09.srr" =>
    let c ← fld req "cfg" >>= parseSrrCfg
    let m ← getRat req "mag"
    let nel ← getNat req "nel"
    let layers ← getList parseLayer req "layers"
    let z : List Int := List.replicate nel 0
    let mag := magInt m
    let p := subpixelsPerPixel c.size m
    let seconds ← fld req "cfg" >>= (getRat · "warmup")
    let valid := validForData c m layers
    let model := match krisskross z c m layers with
      | some a => jArr3 a
      | none => jObj [("raises", jStr "ValueError")]
    let (l0, l1) := match layers[0]?, layers[1]? with
      | some d0, some d1 => (d0.rows, d1.rows)
      | _, _ => (0, 0)
    -- the specification is evaluated for the configuration as the implementation reports it
    -- (public getters: warm-up, offsets, sub-pixels per pixel); `null` = use the model's own values
    let obs ← fld req "observed"
    let (wi, soffs, sp) ← (match obs with
      | .null => (pure (c.warmup, c.offs, p) : R (Int × List Nat × Nat))
      | o => do pure (← getInt o "w", ← getList asNat o "offs", ← getNat o "p"))
    let w := wi.toNat
    let rr := reconRows l0 mag sp soffs
    let rc := reconCols l1 mag sp soffs
    let n := layers.length
    let idx : List (Nat × Nat × Nat) :=
      (List.range rr).flatMap (fun r => (List.range rc).flatMap (fun cc => (List.range n).map (fun i => (r, cc, i))))
    let inrange := decide (0 ≤ wi) && !soffs.isEmpty && idx.all (fun (r, cc, i) => voxelInRange l0 l1 mag sp w soffs layers r cc i)
    let specArr : Arr3 (List Int) :=
      { rows := rr, cols := rc, depth := n, get := fun r cc i => voxel z l0 l1 mag sp w soffs layers r cc i }
    let flatModel := (List.range nel).map (fun e =>
      match getFlat c m (layers.map (project e)) with
      | some a => jArr2 jRat a
      | none => jObj [("raises", jStr "ValueError")])
    let flatSpecs := (List.range nel).map (fun e =>
      jArr2 jRat ({ rows := rr, cols := rc,
                    get := fun r cc => flatSpec l0 l1 mag sp w soffs (layers.map (project e)) r cc } : Arr2 Rat))
    let layerReads := (List.range n).map (fun i =>
      match getLayer layers i with
      | some a => jArr2 (jList jInt) a
      | none => Json.null)
    let layerSpecs := (List.range n).map (fun i =>
      match layers[i]? with
      | some l =>
        if i % 2 = 0 then jArr2 (jList jInt) l
        else jArr2 (jList jInt) ({ rows := l.cols, cols := l.rows, get := fun r cc => l.get cc r } : Arr2 (List Int))
      | none => Json.null)
    pure (jObj [
      ("config", jCfg c), ("spp", jNat p), ("mag", jNat mag), ("mag_axis", jNat (magAxis m)),
      ("warmup_margin", jRat (warmupTieMargin seconds c.scantime)),
      ("valid", jOpt jBool valid),
      ("model", model), ("spec", jArr3 specArr), ("spec_inrange", jBool inrange),
      ("flat_model", Json.arr flatModel.toArray), ("flat_spec", Json.arr flatSpecs.toArray),
      ("layer_model", Json.arr layerReads.toArray), ("layer_spec", Json.arr layerSpecs.toArray),
      ("roundtrip_model", jCfg (SrrConfig.fromArray c.toArray)), ("roundtrip_spec", jCfg c)])
  | "c09.config" =>
    -- the configuration alone (no stack): `sets` is a history of offset lists assigned one after the other
    let cj ← fld req "cfg"
    let spotsize ← getRat cj "spotsize"
    let speed ← getRat cj "speed"
    let scantime ← getRat cj "scantime"
    let seconds ← getRat cj "warmup"
    let m ← getRat req "mag"
    let sets ← getList (setterReply spotsize speed scantime seconds m) req "sets"
    pure (jObj [("sets", Json.arr sets.toArray), ("mag", jNat (magInt m)),
                ("warmup_margin", jRat (warmupTieMargin seconds scantime))])
  | _ => throw s!"unknown op {op}"

end PewDriver.C09
