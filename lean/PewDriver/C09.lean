import PewDriver.Util
import PewModel.Srr
open Lean
namespace PewDriver.C09
open PewDriver Pew Pew.Srr

def parsePairs (j : Json) (k : String) : R (List (Nat × Nat)) :=
  getList (fun p => do
      match (← asList asNat p) with
      | [o, d] => pure (o, d)
      | _ => throw "offset pair expected") j k

/-- a configuration as it was made and changed: the constructor arguments of `SRRConfig` (exact values of the
floats) and then the changes of that object (`ops`), folded through the model's setters.  Besides the state, the
`(seconds, scantime)` pair of the last warm-up assignment is kept (the specification of the warm-up in samples). -/
structure CfgHist where
  cfg : SrrConfig
  seconds : Rat
  scantime : Rat

def parseOp (j : Json) : R CfgOp := do
  match (← getStr j "op") with
  | "warmup" => pure (.warmup (← getRat j "seconds"))
  | "offsets" => pure (.offsets (← parsePairs j "pairs"))
  | "equal" => pure (.equalOffsets (← getNat j "width"))
  | "params" => pure (.params (← getRat j "spotsize") (← getRat j "speed") (← getRat j "scantime"))
  | "new" => pure (.replace (← getRat j "spotsize") (← getRat j "speed") (← getRat j "scantime") (← getRat j "warmup")
                    (← parsePairs j "pairs"))
  | o => throw s!"unknown config op {o}"

def CfgHist.step (h : CfgHist) (op : CfgOp) : CfgHist :=
  let c := h.cfg.apply op
  match op with
  | .warmup s => { cfg := c, seconds := s, scantime := h.cfg.scantime }
  | .replace _ _ t w _ => { cfg := c, seconds := w, scantime := t }
  | _ => { h with cfg := c }

def parseSrrHist (j : Json) : R CfgHist := do
  let scantime ← getRat j "scantime"
  let seconds ← getRat j "warmup"
  let c := SrrConfig.make (← getRat j "spotsize") (← getRat j "speed") scantime seconds (← parsePairs j "pairs")
  let ops ← getList parseOp j "ops"
  pure (ops.foldl CfgHist.step { cfg := c, seconds := seconds, scantime := scantime })

def parseSrrCfg (j : Json) : R SrrConfig := do pure (← parseSrrHist j).cfg

/-- a layer: `rows × cols` pixels, each a tuple of element tokens -/
def parseLayer (j : Json) : R (Arr2 (List Int)) := do
  let rows ← getNat j "rows"
  let cols ← getNat j "cols"
  let data ← getList (asList asInt) j "data"
  if data.length ≠ rows * cols then throw "layer data/shape mismatch"
  let arr := data.toArray
  pure { rows := rows, cols := cols, get := fun r c => (arr[r * cols + c]?).getD [] }

/-- one element's data for a layer: `rows × cols` integers -/
def parseLayer1 (j : Json) : R (Arr2 Int) := do
  let rows ← getNat j "rows"
  let cols ← getNat j "cols"
  let data ← getList asInt j "data"
  if data.length ≠ rows * cols then throw "layer data/shape mismatch"
  let arr := data.toArray
  pure { rows := rows, cols := cols, get := fun r c => (arr[r * cols + c]?).getD 0 }

def parseStrPair (j : Json) : R (String × String) := do
  match (← asList asStr j) with
  | [a, b] => pure (a, b)
  | _ => throw "pair of strings expected"

def parseNatPair (j : Json) : R (Nat × Nat) := do
  match (← asList asNat j) with
  | [a, b] => pure (a, b)
  | _ => throw "pair of naturals expected"

/-- a change of the stack an `SRRLaser` object holds (`Pew.Srr.StackOp`) -/
def parseStackOp (j : Json) : R StackOp := do
  match (← getStr j "op") with
  | "rename" => pure (.rename (← getList parseStrPair j "map"))
  | "remove" => pure (.remove (← getList asStr j "names"))
  | "add" => pure (.add (← getStr j "name") (← getStr j "dtype") (← getList parseLayer1 j "data"))
  | "set_data" => pure (.setData { fields := ← getList parseStrPair j "fields", layers := ← getList parseLayer j "layers" })
  | "append" => pure (.append (← fld j "layer" >>= parseLayer))
  | "pop" => pure .pop
  | "add_to" => pure (.addTo (← getNat j "layer") (← getList parseNatPair j "cells") (← getInt j "delta"))
  | o => throw s!"unknown stack op {o}"

/-- what was done to the object since it was built, as far as stack and calibrations go: a change of the stack
(`StackOp`; `SRRLaser.rename / remove / add` also change `self.calibration`, see `calAfter`) or an assignment of
`laser.calibration` -/
inductive ObjEvent
  | stack (op : StackOp)
  | setCal (cal : List (String × Calib))
  /-- `laser.calibration[name] = Calibration(...)` -/
  | setCalItem (name : String) (k : Calib)

def parseCal (j : Json) : R (String × Calib) := do
  match (← asArr j) with
  | [n, b, g] => pure (← asStr n, { intercept := ← asRat b, gradient := ← asRat g })
  | _ => throw "calibration [name, intercept, gradient] expected"

def parseEvent (j : Json) : R ObjEvent := do
  match (← getStr j "op") with
  | "set_cal" => pure (.setCal (← getList parseCal j "cal"))
  | "cal_item" => pure (.setCalItem (← getStr j "name") { intercept := ← getRat j "intercept", gradient := ← getRat j "gradient" })
  | _ => pure (.stack (← parseStackOp j))

def stackOps (evs : List ObjEvent) : List StackOp :=
  evs.filterMap (fun e => match e with | .stack op => some op | _ => none)

/-- `self.calibration` after the events -/
def calNow (cal0 : List (String × Calib)) (evs : List ObjEvent) : List (String × Calib) :=
  evs.foldl (fun cal e => match e with
    | .stack op => calAfter { intercept := 0, gradient := 1 } cal op
    | .setCal c => c
    | .setCalItem n k => cal.filter (fun nk => nk.1 != n) ++ [(n, k)]) cal0

def parseGetArgs (j : Json) : R GetArgs := do
  pure { element := ← fld j "element" >>= asOpt asStr, calibrate := ← getBool j "calibrate", flat := ← getBool j "flat",
         layer := ← fld j "layer" >>= asOpt asNat }

/-- the value a field holds for a token: `token * fscale` for float fields (dtype kind `f`), the token itself otherwise -/
def fieldScale (fscale : Rat) (dt : String) : Rat := if (dt.toList.getD 1 ' ') == 'f' then fscale else 1

def meanRat (l : List Rat) : Rat := l.sum / (l.length : Rat)

def jOut (o : GetOut (List Rat)) : Json :=
  match o with
  | .img a => jObj [("shape", jList jNat [a.rows, a.cols]),
      ("data", jList (fun r => jList (fun c => jList jRat (a.get r c)) (List.range a.cols)) (List.range a.rows))]
  | .stack a => jObj [("shape", jList jNat [a.rows, a.cols, a.depth]),
      ("data", jList (fun r => jList (fun c => jList (fun i => jList jRat (a.get r c i)) (List.range a.depth))
                (List.range a.cols)) (List.range a.rows))]

def sameArr2 (a b : Arr2 (List Rat)) : Bool :=
  a.rows == b.rows && a.cols == b.cols &&
    (List.range a.rows).all (fun r => (List.range a.cols).all (fun c => a.get r c == b.get r c))

def sameOut (x y : GetOut (List Rat)) : Bool :=
  match x, y with
  | .img a, .img b => sameArr2 a b
  | .stack a, .stack b =>
    a.rows == b.rows && a.cols == b.cols && a.depth == b.depth &&
      (List.range a.rows).all (fun r => (List.range a.cols).all (fun c => (List.range a.depth).all (fun i =>
        a.get r c i == b.get r c i)))
  | _, _ => false

/-- the calls of `get` listed in `reads`, made one after the other on ONE object holding `layers` (values, not tokens):
what the mechanism `Laser.get` returns for each (`null`: it raises), whether each is `getSpec` of the layers the object
was loaded with, and whether the store is what it was after all of them -/
def readsReply (layers : List (Arr2 (List Rat))) (names : List String) (cal : List (String × Calib)) (c : SrrConfig)
    (reads : List GetArgs) : List (String × Json) :=
  let calf : List (String × (Rat → Rat)) := cal.map (fun nk => (nk.1, nk.2.apply))
  let o0 : Laser Rat := Laser.load layers names calf c
  let (o, outs, agree) := reads.foldl (fun (acc : Laser Rat × Array Json × Bool) a =>
      let spec := getSpec (0 : Rat) meanRat layers names calf c a
      match acc.1.get (0 : Rat) meanRat a with
      | some (o', out) => (o', acc.2.1.push (jOut out), acc.2.2 && (match spec with | some s => sameOut out s | none => false))
      | none => (acc.1, acc.2.1.push Json.null, acc.2.2 && spec.isNone)) (o0, #[], true)
  let after := o.store.layers
  let unchanged := after.length == layers.length &&
    (List.zip after layers).all (fun (x, y) => sameArr2 x y)
  [("reads_model", Json.arr outs), ("reads_are_spec", jBool agree), ("store_unchanged_by_reads", jBool unchanged),
   ("cal", jList (fun (nk : String × Calib) => Json.arr #[jStr nk.1, jRat nk.2.intercept, jRat nk.2.gradient]) cal)]

def jFields (fs : List (String × String)) : Json := jList (fun (f : String × String) => jList jStr [f.1, f.2]) fs

/-- a layer as the harness sends it: shape and the pixels row by row, `n` values per pixel -/
def jLayer (n : Nat) (l : Arr2 (List Int)) : Json :=
  jObj [("rows", jNat l.rows), ("cols", jNat l.cols),
        ("data", jList (fun k => jList (fun e => jInt ((l.get (k / l.cols) (k % l.cols)).getD e 0)) (List.range n))
                   (List.range (l.rows * l.cols)))]

def jArr3 (a : Arr3 (List Int)) : Json :=
  jObj [("shape", jList jNat [a.rows, a.cols, a.depth]),
        ("data", jList (fun r => jList (fun c => jList (fun i => jList jInt (a.get r c i)) (List.range a.depth))
                  (List.range a.cols)) (List.range a.rows))]

def jArr2 {α} (f : α → Json) (a : Arr2 α) : Json :=
  jObj [("shape", jList jNat [a.rows, a.cols]),
        ("data", jList (fun r => jList (fun c => f (a.get r c)) (List.range a.cols)) (List.range a.rows))]

def project (e : Nat) (l : Arr2 (List Int)) : Arr2 Rat :=
  { rows := l.rows, cols := l.cols, get := fun r c => (((l.get r c).getD e 0 : Int) : Rat) }

/-- is the float magnification an integer `≥ 1` ("integer magnification", DESIGN 6a) -/
def intMag (m : Rat) : Bool := decide (1 ≤ m) && decide (m = ((magInt m : Nat) : Rat))

def jCfg (c : SrrConfig) : Json :=
  let m := c.magnification
  jObj [("spotsize", jRat c.spotsize), ("speed", jRat c.speed), ("scantime", jRat c.scantime),
        ("warmup_samples", jInt c.warmup), ("warmup_seconds", jRat c.warmupSeconds),
        ("size", jNat c.size), ("offs", jList jNat c.offs),
        ("subpixel_offsets", jList (fun (p : Nat × Nat) => jList jNat [p.1, p.2]) c.subpixelOffsets),
        ("magnification", jRat m), ("magnification_exact", jRat c.magnificationExact),
        ("mag", jNat (magInt m)), ("mag_axis", jNat (magAxis m)), ("integer_mag", jBool (intMag m)),
        ("spp", jNat (subpixelsPerPixel c.size m))]

/-- the hypothesis of theorem `warmup_setter_determined`, decided on the inputs: the quotient is a float64 itself, or
farther from every rounding tie than the float rounding error -/
def warmupDetermined (seconds scantime : Rat) : Bool :=
  let x := seconds / scantime
  let n : Rat := (warmupSpec seconds scantime : Int)
  let e := (if x < 0 then -x else x) / 2 ^ 53
  decide (fl x = x) || (decide (n - 1 / 2 < x - e) && decide (x + e < n + 1 / 2))

def jWarm (h : CfgHist) : List (String × Json) :=
  [("warmup_spec", jInt (warmupSpec h.seconds h.scantime)),
   ("warmup_determined", jBool (warmupDetermined h.seconds h.scantime))]

/-- the statement of theorem `offsets_setter_exact`, evaluated on the rows `[stored, size]` a configuration
reports for the offsets `pairs` it was given: one row per offset, one common sub-pixel size `≥ 1`, every
denominator divides it and `stored / size = offset / denominator` exactly -/
def setterExact (pairs : List (Nat × Nat)) (rows : List (Int × Int)) : Bool :=
  decide (rows.length = pairs.length) &&
  rows.all (fun r => decide (r.2 = (rows.headD (0, 1)).2)) &&
  (List.zip pairs rows).all (fun (p, r) =>
    decide (1 ≤ r.2) && decide (r.2 % (p.2 : Int) = 0) && decide (r.1 * (p.2 : Int) = (p.1 : Int) * r.2))

def parseRows (j : Json) : R (List (Int × Int)) :=
  asList (fun p => do
      match (← asList asInt p) with
      | [o, d] => pure (o, d)
      | _ => throw "row [stored, size] expected") j

/-! ### structured arrays -/

def parseFVal (j : Json) : R FVal := do
  match fldOpt j "num", fldOpt j "table" with
  | some v, _ => pure (.num (← asRat v))
  | _, some t => pure (.table (← parseRows t))
  | _, _ => throw "field value: num or table expected"

def parseRec (j : Json) : R RecArr := do
  let names ← getList asStr j "names"
  let dim ← fld j "dim" >>= asOpt asNat
  let recs ← getList (asList parseFVal) j "recs"
  if recs.any (fun r => r.length ≠ names.length) then throw "record/dtype length mismatch"
  pure { names := names, dim := dim, recs := recs }

def jFVal : FVal → Json
  | .num v => jObj [("num", jRat v)]
  | .table rows => jObj [("table", jList (fun (p : Int × Int) => jList jInt [p.1, p.2]) rows)]

def jRec (a : RecArr) : Json :=
  jObj [("names", jList jStr a.names), ("dim", jOpt jNat a.dim), ("recs", jList (jList jFVal) a.recs)]

def jErr : ArrErr → Json
  | .valueError => jObj [("raises", jStr "ValueError")]
  | .typeError => jObj [("raises", jStr "TypeError")]
  | .indexError => jObj [("raises", jStr "IndexError")]
  | .unmodelled => jObj [("unmodelled", jBool true)]

def jFromRec (r : Except ArrErr SrrConfig) : Json :=
  match r with
  | .ok c => jCfg c
  | .error e => jErr e

/-- the array form of `c` as the model builds it, and `SRRConfig.from_array` of the arrays `given` (real arrays of
any configuration class, encoded by the harness) as the model reads them -/
def recReply (c : SrrConfig) (given : List RecArr) : List (String × Json) :=
  [("array_model", jRec c.toRec),
   ("roundtrip_model", jFromRec (SrrConfig.fromRec c.toRec)),
   ("from_arrays", jList (fun a => jFromRec (SrrConfig.fromRec a)) given)]

/-- one assignment of an offset list through the `subpixel_offsets` setter: the state the model's exact
setter produces, its array round trip, and the specification evaluated on the reported rows -/
def setterReply (c0 : SrrConfig) (entry : Json) : R (SrrConfig × Json) := do
  let pairs ← parsePairs entry "pairs"
  let c := c0.setOffsets pairs
  let hyp := !pairs.isEmpty && pairs.all (fun p => decide (1 ≤ p.2))
  let exact ← (match (← fld entry "observed") with
    | .null => (pure none : R (Option Bool))
    | o => do pure (some (setterExact pairs (← parseRows o))))
  let given ← (match (← fld entry "array") with
    | .null => (pure [] : R (List RecArr))
    | a => do pure [← parseRec a])
  pure (c, jObj ([
    ("config", jCfg c), ("hyp", jBool hyp),
    ("spec_fractions", jList (fun (p : Nat × Nat) => jRat ((p.1 : Rat) / (p.2 : Rat))) pairs),
    ("observed_exact", jOpt jBool exact)] ++ recReply c given))

def handle (op : String) (req : Json) : R Json := do
  match op with
  | "c09.srr" =>
    -- everything is computed from the INPUTS of the constructor / setters: `cfg` (+ `ops`), the stack
    let h ← fld req "cfg" >>= parseSrrHist
    let c := h.cfg
    let m := c.magnification
    -- the stack the object holds now: the one it was built with, then the changes made to it
    let stack0 : Stack := { fields := ← getList parseStrPair req "fields", layers := ← getList parseLayer req "layers" }
    let evs ← getList parseEvent req "stack_ops"
    let sops := stackOps evs
    let given ← getList parseRec req "arrays"
    let cal0 ← getList parseCal req "cal0"
    let fscale ← getRat req "fscale"
    let reads ← getList parseGetArgs req "reads"
    let some stack := stack0.applyAll sops | pure (jObj [("stack_ok", jBool false)])
    let nel := stack.fields.length
    let layers := stack.layers
    let z : List Int := List.replicate nel 0
    let mag := magInt m
    let p := subpixelsPerPixel c.size m
    let valid := validForData c m layers
    let model := match krisskross z c m layers with
      | some a => jArr3 a
      | none => jObj [("raises", jStr "ValueError")]
    let (l0, s0, l1, s1) := match layers[0]?, layers[1]? with
      | some d0, some d1 => (d0.rows, d0.cols, d1.rows, d1.cols)
      | _, _ => (0, 0, 0, 0)
    let crossed := decide (2 ≤ layers.length) &&
      (List.range layers.length).all (fun i => match layers[i]? with
        | some l => decide (l.rows = if i % 2 = 0 then l0 else l1) && decide (l.cols = if i % 2 = 0 then s0 else s1)
        | none => false)
    -- the lines of a crossed stack (lengths may differ within a layer kind: `Ragged`)
    let linesCrossed := decide (2 ≤ layers.length) &&
      (List.range layers.length).all (fun i => match layers[i]? with
        | some l => decide (l.rows = if i % 2 = 0 then l0 else l1)
        | none => false)
    -- the specification: warm-up = the exact quotient rounded half-even, offsets and sub-pixels per pixel as the
    -- setters' specification gives them (`offsets_setter_exact`), the float magnification's integer
    let wi := warmupSpec h.seconds h.scantime
    let w := wi.toNat
    let vspec := validSpec wi mag l0 s0 l1 s1
    -- every layer holds the warm-up and the samples read from it (the second half of `Ragged`)
    let allLong := decide (0 ≤ wi) && (List.range layers.length).all (fun i => match layers[i]? with
        | some l => decide (w + (if i % 2 = 0 then l1 else l0) * mag ≤ l.cols)
        | none => false)
    let rr := reconRows l0 mag p c.offs
    let rc := reconCols l1 mag p c.offs
    let n := layers.length
    let idx : List (Nat × Nat × Nat) :=
      (List.range rr).flatMap (fun r => (List.range rc).flatMap (fun cc => (List.range n).map (fun i => (r, cc, i))))
    let inrange := decide (0 ≤ wi) && !c.offs.isEmpty && idx.all (fun (r, cc, i) => voxelInRange l0 l1 mag p w c.offs layers r cc i)
    let specArr : Arr3 (List Int) :=
      { rows := rr, cols := rc, depth := n, get := fun r cc i => voxel z l0 l1 mag p w c.offs layers r cc i }
    let flatModel := (List.range nel).map (fun e =>
      match srrGet 0 meanDepth c m (layers.map (project e)) none true with
      | some (.img a) => jArr2 jRat a
      | _ => jObj [("raises", jStr "ValueError")])
    let flatSpecs := (List.range nel).map (fun e =>
      jArr2 jRat ({ rows := rr, cols := rc,
                    get := fun r cc => flatSpec l0 l1 mag p w c.offs (layers.map (project e)) r cc } : Arr2 Rat))
    -- single-layer reads through `srrGet`, with and without `flat`
    let noMean : Arr3 (List Int) → Arr2 (List Int) := fun a => { rows := a.rows, cols := a.cols, get := fun _ _ => [] }
    let layerRead := fun (flat : Bool) => (List.range n).map (fun i =>
      match srrGet z noMean c m layers (some i) flat with
      | some (.img a) => jArr2 (jList jInt) a
      | _ => Json.null)
    let layerSpecs := (List.range n).map (fun i =>
      match layers[i]? with
      | some l => jArr2 (jList jInt) (layerSpec l i)
      | none => Json.null)
    pure (jObj ([
      ("stack_ok", jBool true), ("fields", jFields stack.fields), ("stack", jList (jLayer nel) layers),
      ("config", jCfg c), ("crossed", jBool crossed), ("lines_crossed", jBool linesCrossed), ("all_long_enough", jBool allLong),
      ("valid", jOpt jBool valid), ("valid_spec", jBool vspec),
      ("model", model), ("spec", jArr3 specArr), ("spec_inrange", jBool inrange),
      ("flat_model", Json.arr flatModel.toArray), ("flat_spec", Json.arr flatSpecs.toArray),
      ("layer_model", Json.arr (layerRead false).toArray), ("layer_model_flat", Json.arr (layerRead true).toArray),
      ("layer_spec", Json.arr layerSpecs.toArray)] ++ jWarm h ++ recReply c given
      ++ readsReply (layers.map (Arr2.map (fun px => List.zipWith (fun (v : Int) (f : String × String) => (v : Rat) * fieldScale fscale f.2) px stack.fields)))
           stack.names (calNow cal0 evs) c reads))
  | "c09.valid" =>
    -- `check_config_valid(config)` for configurations OTHER than the one the object holds: each `cfg` (constructor inputs +
    -- changes) against the layer shapes alone
    let shapes ← getList parseNatPair req "shapes"
    let layers : List (Arr2 Unit) := shapes.map (fun rc => { rows := rc.1, cols := rc.2, get := fun _ _ => () })
    let cfgs ← fld req "cfgs" >>= asArr
    let mut out : Array Json := #[]
    for cj in cfgs do
      let h ← parseSrrHist cj
      let c := h.cfg
      let m := c.magnification
      let (l0, s0, l1, s1) := match layers[0]?, layers[1]? with
        | some d0, some d1 => (d0.rows, d0.cols, d1.rows, d1.cols)
        | _, _ => (0, 0, 0, 0)
      out := out.push (jObj ([("valid", jOpt jBool (validForData c m layers)),
        ("valid_spec", jBool (validSpec (warmupSpec h.seconds h.scantime) (magInt m) l0 s0 l1 s1)),
        ("integer_mag", jBool (intMag m)), ("mag", jNat (magInt m))] ++ jWarm h))
    pure (jObj [("configs", Json.arr out)])
  | "c09.stack" =>
    -- the changes alone: fields and layer shapes after every prefix of `stack_ops` (`null` from the first change on
    -- that is outside the model: pewlib raises or leaves the object half changed)
    let stack0 : Stack := { fields := ← getList parseStrPair req "fields", layers := ← getList parseLayer req "layers" }
    let sops := stackOps (← getList parseEvent req "stack_ops")
    let mut cur : Option Stack := some stack0
    let mut out : Array Json := #[]
    for op in sops do
      cur := cur.bind (fun s => s.apply op)
      out := out.push (match cur with
        | some s => jObj [("fields", jFields s.fields),
                          ("shapes", jList (fun (l : Arr2 (List Int)) => jList jNat [l.rows, l.cols]) s.layers)]
        | none => Json.null)
    pure (jObj [("ok", jBool cur.isSome), ("states", Json.arr out)])
  | "c09.config" =>
    -- the configuration alone (no stack): `sets` is a history of offset lists assigned one after the other
    let h ← fld req "cfg" >>= parseSrrHist
    let sets ← fld req "sets" >>= asArr
    let mut c := h.cfg
    let mut out : Array Json := #[]
    for entry in sets do
      let (c', j) ← setterReply c entry
      c := c'
      out := out.push j
    pure (jObj ([("sets", Json.arr out), ("start", jCfg h.cfg)] ++ jWarm h))
  | _ => throw s!"unknown op {op}"

end PewDriver.C09
