import PewDriver.Util
import PewModel.Overlap
open Lean
namespace PewDriver.C11
open PewDriver Pew.Overlap

def flatIndex : List Nat → List Int → Option Nat
  | [], [] => some 0
  | s :: ss, i :: is =>
    if 0 ≤ i ∧ i < (s : Int) then
      (flatIndex ss is).map (fun r => i.toNat * ss.foldl (· * ·) 1 + r)
    else none
  | _, _ => none

def mkGet (shape : List Nat) (data : Array V) : Idx → V := fun idx =>
  match flatIndex shape idx with
  | some k => (data[k]?).join
  | none => none

def parseMode (s : String) : R Mode :=
  match s with
  | "replace" => pure .replace
  | "mean" => pure .mean
  | "sum" => pure .sum
  | _ => throw s!"bad mode {s}"

def parseArr (j : Json) : R Arr := do
  let off ← getList asInt j "off"
  let shape ← getList asNat j "shape"
  let data ← getList (asOpt asRat) j "data"
  if data.length ≠ shape.foldl (· * ·) 1 then throw "data/shape mismatch"
  pure { off := off, shape := shape, get := mkGet shape data.toArray }

def parseSArr (j : Json) : R SArr := do
  let off ← getList asInt j "off"
  let shape ← getList asNat j "shape"
  let fs ← getList (fun f => do
    let nm ← getStr f "name"
    let data ← getList (asOpt asRat) f "data"
    if data.length ≠ shape.foldl (· * ·) 1 then throw "data/shape mismatch"
    pure (nm, mkGet shape data.toArray)) j "fields"
  pure { off := off, shape := shape, fields := fs }

def parseDT (s : String) : R DT :=
  match s with
  | "f8" => pure .f8
  | "f4" => pure .f4
  | "i8" => pure .i8
  | "b1" => pure .b1
  | _ => throw s!"bad dtype {s}"

def dtName : DT → String
  | .f8 => "f8"
  | .f4 => "f4"
  | .i8 => "i8"
  | .b1 => "b1"

def parseDArr (j : Json) : R DArr := do
  let off ← getList asInt j "off"
  let shape ← getList asNat j "shape"
  let fs ← getList (fun f => do
    let nm ← getStr f "name"
    let dt ← getStr f "dtype" >>= parseDT
    if dt == .b1 then throw "boolean fields are not modelled in the structured variant"
    let data ← getList (asOpt asRat) f "data"
    if data.length ≠ shape.foldl (· * ·) 1 then throw "data/shape mismatch"
    -- an integer field holds integers (no NaN)
    if dt == .i8 && data.any (fun v => match v with | none => true | some x => x.den != 1) then
      throw "non-integer value in an integer field"
    pure (nm, dt, mkGet shape data.toArray)) j "fields"
  pure { off := off, shape := shape, fields := fs }

def jV : V → Json := jOpt jRat

/-- extended values: `null` NaN, `"inf"`, `"-inf"`, else an exact rational -/
def asEV (j : Json) : R EV :=
  match j with
  | .null => pure .nan
  | .str "inf" => pure .pinf
  | .str "-inf" => pure .ninf
  | _ => EV.fin <$> asRat j

def jEV : EV → Json
  | .nan => .null
  | .pinf => jStr "inf"
  | .ninf => jStr "-inf"
  | .fin x => jRat x

/-- a pixel of a canvas of dtype `cdt`: inside an integer canvas `nan` is the undefined content -/
def jPx (cdt : DT) (v : EV) : Json :=
  if cdt == .i8 && v.isNan then jStr "undef" else jEV v

def mkGetE (shape : List Nat) (data : Array EV) : Idx → EV := fun idx =>
  match flatIndex shape idx with
  | some k => (data[k]?).getD .nan
  | none => .nan

def parseArrE (j : Json) : R ArrE := do
  let off ← getList asInt j "off"
  let shape ← getList asNat j "shape"
  let dt ← getStr j "dtype" >>= parseDT
  let data ← getList asEV j "data"
  if data.length ≠ shape.foldl (· * ·) 1 then throw "data/shape mismatch"
  -- an integer image holds finite integers, a boolean image 0 / 1
  if dt == .i8 && data.any (fun v => !v.intVal) then throw "non-integer value in an integer image"
  if dt == .b1 && data.any (fun v => !(v == .fin 0 || v == .fin 1)) then throw "value other than 0 / 1 in a boolean image"
  pure { off := off, shape := shape, dt := dt, get := mkGetE shape data.toArray }

/-- `none`: NaN cast to an integer (platform dependent, not compared) -/
def jCast : Option V → Json
  | none => jStr "undef"
  | some v => jV v

def handle (op : String) (req : Json) : R Json := do
  match op with
  | "c11.overlap" =>
    let m ← getStr req "mode" >>= parseMode
    let fill ← fld req "fill" >>= asOpt asRat
    let ndim ← getNat req "ndim"
    let arrs ← getList parseArr req "arrays"
    let (sh, mv) := overlap false m fill ndim arrs
    let (_, sv) := overlap true m fill ndim arrs
    pure (jObj [("shape", jList jInt sh), ("model", jList jV mv), ("spec", jList jV sv)])
  | "c11.overlapD" =>
    -- plain merge with image dtypes and extended values: exception class, or dtype, shape, the mechanism's pixels
    -- (`model`), the demanded values as the canvas holds them (`spec` = `specD`), the demanded values themselves
    -- (`exact` = `specE`) and, per pixel, whether the hypothesis of theorem `pixel_specD` holds (`hyp`)
    let m ← getStr req "mode" >>= parseMode
    let fill ← fld req "fill" >>= asEV
    let ndim ← getNat req "ndim"
    let arrs ← getList parseArrE req "arrays"
    if arrs.isEmpty then throw "empty list of images"
    match overlapD false m fill ndim arrs, overlapD true m fill ndim arrs with
    | .ok (cdt, sh, mv), .ok (_, _, sv) =>
      let n := normaliseE ndim arrs
      let idx := allIdx (sh.map Int.toNat)
      pure (jObj [("dtype", jStr (dtName cdt)), ("shape", jList jInt sh), ("model", jList (jPx cdt) mv),
                  ("spec", jList (jPx cdt) sv), ("exact", jList jEV (idx.map (specE m fill n))),
                  ("hyp", jList jBool (idx.map (hypD cdt m n)))])
    | .error e, .error e' => pure (jObj [("raises", jStr e), ("specRaises", jStr e'), ("dtype", jStr (dtName (canvasOf arrs)))])
    | _, _ => throw "model and specification disagree on raising"
  | "c11.structured" =>
    let m ← getStr req "mode" >>= parseMode
    let fill ← fld req "fill" >>= asOpt asRat
    let ndim ← getNat req "ndim"
    let arrs ← getList parseSArr req "arrays"
    let enc := fun (r : List (String × (List Int × List V))) =>
      jList (fun (x : String × (List Int × List V)) =>
        jObj [("name", jStr x.1), ("shape", jList jInt x.2.1), ("data", jList jV x.2.2)]) r
    pure (jObj [("model", enc (overlapStructured false m fill ndim arrs)),
                ("spec", enc (overlapStructuredSpec m fill ndim arrs))])
  | "c11.structuredD" =>
    -- structured merge with field dtypes: an exception class or the fields; for all-float64 inputs also the
    -- plain specification `overlapStructuredSpec` (right-hand side of `structured_whole`)
    let m ← getStr req "mode" >>= parseMode
    let fill ← fld req "fill" >>= asOpt asRat
    let ndim ← getNat req "ndim"
    let arrs ← getList parseDArr req "arrays"
    let enc := fun (r : Except String (List (String × DT × (List Int × List (Option V))))) =>
      match r with
      | .error cls => jObj [("raises", jStr cls)]
      | .ok fs => jObj [("fields", jList (fun (x : String × DT × (List Int × List (Option V))) =>
          jObj [("name", jStr x.1), ("dtype", jStr (dtName x.2.1)), ("shape", jList jInt x.2.2.1),
                ("data", jList jCast x.2.2.2)]) fs)]
    let allF8 := arrs.all (fun a => a.fields.all (fun f => f.2.1 == .f8))
    let plain : Json :=
      if allF8 then
        jList (fun (x : String × (List Int × List V)) =>
          jObj [("name", jStr x.1), ("dtype", jStr "f8"), ("shape", jList jInt x.2.1), ("data", jList jV x.2.2)])
          (overlapStructuredSpec m fill ndim (arrs.map DArr.toS))
      else Json.null
    pure (jObj [("model", enc (overlapStructuredD false m fill ndim arrs)),
                ("spec", enc (overlapStructuredD true m fill ndim arrs)),
                ("plainSpec", plain)])
  | _ => throw s!"unknown op {op}"

end PewDriver.C11
