import PewDriver.Util
import PewModel.Export
open Lean
namespace PewDriver.C16
open PewDriver Pew.Export

/-- values are bit tokens (integers); the opaque printer/parser pair of the model is
instantiated with the decimal string of the token -/
def fmtTok (t : Int) : Str := (toString t).toList
def parseTok (s : Str) : Option Int := (String.ofList s).toInt?

def chunk {α} (c : Nat) : Nat → List α → List (List α)
  | 0, _ => []
  | r + 1, l => l.take c :: chunk c r (l.drop c)

def jLoaded : Option (List Nat × List Int) → Json
  | none => jObj [("raises", jBool true)]
  | some (sh, d) => jObj [("shape", jList jNat sh), ("data", jList jInt d)]

def getImg (req : Json) : R (Nat × Nat × List (List Int)) := do
  let r ← getNat req "rows"
  let c ← getNat req "cols"
  let data ← getList asInt req "data"
  if data.length ≠ r * c then throw "data/shape mismatch"
  if r = 0 ∨ c = 0 then throw "empty image"
  pure (r, c, chunk c r data)

def asChar (j : Json) : R Char := do
  let s ← asStr j
  match s.toList with
  | [c] => pure c
  | _ => throw s!"expected one character, got {s}"

def jWord : Word Int → Json
  | .len n => jNat n
  | .val t => jInt t

def handle (op : String) (req : Json) : R Json := do
  match op with
  | "c16.text" =>
    let (r, c, img) ← getImg req
    let header ← fld req "header" >>= asOpt asStr
    let file := saveText fmtTok (header.map String.toList) img
    pure (jObj [("model", jLoaded (loadText parseTok 2 file)),
                ("spec", jLoaded (some ([r, c], img.flatten)))])
  | "c16.delims" =>
    let (r, c, img) ← getImg req
    let seps ← getList (asList asChar) req "seps"
    if seps.length ≠ r then throw "one separator list per row"
    if seps.any (fun ss => ss.length + 1 ≠ c) then throw "separators/columns mismatch"
    if seps.any (fun ss => ss.any (fun ch => ch ≠ ',' ∧ ch ≠ ';' ∧ ch ≠ '\t')) then throw "bad separator"
    let file := saveWith fmtTok seps img
    pure (jObj [("model", jLoaded (loadText parseTok 2 file)),
                ("spec", jLoaded (some ([r, c], img.flatten)))])
  | "c16.vtk" =>
    let n0 ← getNat req "n0"
    let n1 ← getNat req "n1"
    let n2 ← getNat req "n2"
    let fields ← getList (fun f => do
      let nm ← getStr f "name"
      let data ← getList asInt f "data"
      if data.length ≠ n0 * n1 * n2 then throw "data/shape mismatch"
      let arr := data.toArray
      let v : Vol Int := { n0 := n0, n1 := n1, n2 := n2, get := fun i j k => arr.getD ((i * n1 + j) * n2 + k) 0 }
      pure (nm, v)) req "fields"
    let mblocks := fields.map (fun f => vtkBlock f.2)
    let sblocks := fields.map (fun f => vtkBlockSpec f.2)
    let moffs := offsetsFrom 0 (mblocks.map List.length)
    let soffs := offsetsFrom 0 (fields.map (fun _ => n1 * n0 * n2))
    let arrays := fun (names : List String) (offs : List Nat) (blocks : List (List Int)) =>
      jList (fun (x : String × Nat × List Int) =>
        jObj [("name", jStr x.1), ("offset", jNat x.2.1), ("nbytes", jNat (x.2.2.length * 8)),
              ("values", jList jInt x.2.2)]) (List.zip names (List.zip offs blocks))
    let shaped := match fields with
      | [] => [n1, n0, n2]
      | f :: _ => let w := swap01 (flip0 f.2); [w.n0, w.n1, w.n2]
    let mnames := fields.map (fun f => String.ofList (unescape (escapeMech f.1.toList)))
    let snames := fields.map (fun f => f.1)
    pure (jObj [
      ("model", jObj [("extent", jList jNat shaped), ("arrays", arrays mnames moffs mblocks),
                      ("appended", jList jWord (appended mblocks)),
                      ("escaped", jList jStr (fields.map fun f => String.ofList (escapeMech f.1.toList)))]),
      ("spec", jObj [("extent", jList jNat [n1, n0, n2]), ("arrays", arrays snames soffs sblocks),
                     ("appended", jList jWord (appended sblocks)),
                     ("escaped", jList jStr (fields.map fun f => String.ofList (escapeSpec f.1.toList)))])])
  | _ => throw s!"unknown op {op}"

end PewDriver.C16
