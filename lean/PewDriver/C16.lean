import PewDriver.Util
import PewModel.Export
open Lean
namespace PewDriver.C16
open PewDriver Pew.Export

/-- number tokens stay opaque on the Lean side: the printer is the identity on the token strings
the harness hands over (`'%.18g' % x`, `repr(x)`, …); conversion to floats is done by the harness
with Python's `float` -/
def tokFmt (t : String) : Str := t.toList

def chunk {α} (c : Nat) : Nat → List α → List (List α)
  | 0, _ => []
  | r + 1, l => l.take c :: chunk c r (l.drop c)

def jFields : Option (List Nat × List Str) → Json
  | none => jObj [("raises", jBool true)]
  | some (sh, d) => jObj [("shape", jList jNat sh), ("fields", jList (fun f => jStr (String.ofList f)) d)]

/-- what the loader model makes of a file: the field table, the warning flag -/
def jLoad (file : Str) : Json :=
  jObj [("loaded", jFields (loadFields 2 file)), ("warns", jBool (loadWarns file))]

def getImg (req : Json) : R (Nat × Nat × List (List String)) := do
  let r ← getNat req "rows"
  let c ← getNat req "cols"
  let toks ← getList asStr req "tokens"
  if toks.length ≠ r * c then throw "tokens/shape mismatch"
  if r = 0 ∨ c = 0 then throw "empty image"
  pure (r, c, chunk c r toks)

def asChar (j : Json) : R Char := do
  let s ← asStr j
  match s.toList with
  | [c] => pure c
  | _ => throw s!"expected one character, got {s}"

/-- the hypothesis `Clean.chars`/`Clean.nonempty` of the theorems, decided for the tokens of a case -/
def tokenClean (t : String) : Bool :=
  !t.isEmpty && t.toList.all fun c => c ≠ ',' && c ≠ ';' && c ≠ '\t' && c ≠ '\n' && c ≠ '\r' && c ≠ '#' && c ≠ ' '

def asEol (j : Json) : R Eol := do
  match (← asStr j) with
  | "\n" => pure .lf
  | "\r\n" => pure .crlf
  | "\r" => pure .cr
  | "" => pure .eof
  | s => throw s!"bad line terminator {s.quote}"

def asFLine (j : Json) : R (FLine String) := do
  let cells ← getList (fun c => do
    pure ((← getNat c "before"), (← getStr c "token"), (← getNat c "after"))) j "cells"
  pure { indent := ← getNat j "indent", cells := cells, seps := ← getList asChar j "seps",
         comment := (← fld j "comment" >>= asOpt asStr).map String.toList, eol := ← fld j "eol" >>= asEol }

def jWord : Word Int → Json
  | .len n => jNat n
  | .val t => jInt t

/-- a source of a session file: `saved` (tokens as Python printed them with '%.18g', header), `delimited`
(tokens, one list of separators per row), `other` (any text) -/
def asSrc (j : Json) : R (Src String) := do
  match (← getStr j "kind") with
  | "saved" =>
    let (_, _, img) ← getImg j
    pure (.saved (← getStr j "header").toList img)
  | "delimited" =>
    let (_, _, img) ← getImg j
    pure (.delimited (← getList (asList asChar) j "seps") img)
  | "other" => pure (.other (← getStr j "text").toList)
  | k => throw s!"unknown source kind {k}"

def srcImg : Src String → List (List String)
  | .saved _ img => img
  | .delimited _ img => img
  | .other _ => []

def jReply : Reply String → Json
  | .done => jObj [("done", jBool true)]
  | .missing => jObj [("missing", jBool true)]
  | .raised => jObj [("loaded", jObj [("raises", jBool true)])]
  | .loaded l => jObj [("loaded", jObj [("shape", jList jNat l.shape), ("fields", jList jStr l.data)]),
                       ("name", jOpt (fun n => jStr (String.ofList n)) l.field)]

/-- the image the property demands for the load at position `i`, when it says so and the hypotheses of
`session_loads` hold for the file's source (`Src.ok`, clean tokens) -/
def expectedAt (cs : List (Call String)) (i : Nat) : Json :=
  match cs[i]? with
  | some (.load p d _) =>
    match lastPut p (cs.take i) with
    | some s =>
      match s.image? d with
      | some img =>
        if s.ok && (srcImg s).all (·.all tokenClean) then
          jObj [("shape", jList jNat [img.length, (img.headD []).length]), ("fields", jList jStr img.flatten)]
        else .null
      | none => .null
    | none => .null
  | _ => .null

/-- the 8 bytes of a float64 given as its bit pattern (a signed 64-bit token), lowest first -/
def tokBytes (t : Int) : List Nat := le64 (t % 18446744073709551616).toNat

/-- the bit-pattern token of 8 bytes, lowest first -/
def bytesTok (g : List Nat) : Int :=
  let n := ofLe64 g
  if n < 9223372036854775808 then (n : Int) else (n : Int) - 18446744073709551616

def hexDigit (d : Nat) : Char := if d < 10 then Char.ofNat (48 + d) else Char.ofNat (87 + d)

def hexOf (bs : List Nat) : String := String.ofList (bs.flatMap fun b => [hexDigit (b / 16), hexDigit (b % 16)])

def hexVal (c : Char) : R Nat :=
  if 48 ≤ c.toNat ∧ c.toNat ≤ 57 then pure (c.toNat - 48)
  else if 97 ≤ c.toNat ∧ c.toNat ≤ 102 then pure (c.toNat - 87)
  else throw s!"bad hex digit {c}"

def unhex : List Char → R (List Nat)
  | [] => pure []
  | [_] => throw "odd number of hex digits"
  | a :: b :: r => do
    let x ← hexVal a
    let y ← hexVal b
    pure ((x * 16 + y) :: (← unhex r))

def handle (op : String) (req : Json) : R Json := do
  match op with
  | "c16.session" =>
    -- several save / load calls in one process.  `steps`: puts (with the abstract source and `real`, the characters
    -- found in the file afterwards) and loads (path, delimiter or null, name or null)
    let steps ← getList (fun j => do
      match (← getStr j "op") with
      | "put" =>
        let src ← fld j "src" >>= asSrc
        pure ((Call.put (← getNat j "path") src : Call String), some (← getStr j "real").toList)
      | "load" =>
        pure ((Call.load (← getNat j "path") (← fld j "delimiter" >>= asOpt asChar)
                ((← fld j "name" >>= asOpt asStr).map String.toList) : Call String), none)
      | o => throw s!"unknown step {o}") req "steps"
    let cs := steps.map (·.1)
    -- the same calls with every file holding the characters really found in it
    let csReal := steps.map fun (c, real) => match c, real with
      | .put p _, some t => Call.put p (.other t)
      | c, _ => c
    let spec := sessionSpec tokFmt String.ofList cs
    let mech := runSession tokFmt String.ofList [] cs
    let real := runSession tokFmt String.ofList [] csReal
    let rendered := cs.map fun c => match c with
      | .put _ s => jStr (String.ofList (s.text tokFmt))
      | .load _ _ _ => .null
    pure (jObj [("spec", jList jReply spec), ("mech", jList jReply mech), ("real", jList jReply real),
                ("rendered", .arr rendered.toArray),
                ("expected", .arr ((List.range cs.length).map (expectedAt cs)).toArray)])
  | "c16.text" =>
    -- `file`: the characters pewlib's `save` wrote; `tokens`: the values printed with '%.18g' by Python
    let (r, c, img) ← getImg req
    let header ← getStr req "header"
    let file := (← getStr req "file").toList
    let rendered := saveText tokFmt header.toList img
    pure (jObj [("rendered", jStr (String.ofList rendered)),
                ("clean", jBool (img.all (·.all tokenClean) && !header.toList.contains '\r')),
                ("real", jLoad file),                       -- the loader model on the real file
                ("model", jLoad rendered),                  -- the loader model on the model's own rendering
                ("spec", jFields (some ([r, c], (img.map (·.map tokFmt)).flatten)))])
  | "c16.delims" =>
    let (r, c, img) ← getImg req
    let seps ← getList (asList asChar) req "seps"
    let file := (← getStr req "file").toList
    if seps.length ≠ r then throw "one separator list per row"
    if seps.any (fun ss => ss.length + 1 ≠ c) then throw "separators/columns mismatch"
    if seps.any (fun ss => ss.any (fun ch => ch ≠ ',' ∧ ch ≠ ';' ∧ ch ≠ '\t')) then throw "bad separator"
    let rendered := saveWith tokFmt seps img
    pure (jObj [("rendered", jStr (String.ofList rendered)),
                ("clean", jBool (img.all (·.all tokenClean))),
                ("real", jLoad file), ("comma", jStr (String.ofList (normalise file))), ("real_comma", jLoad (normalise file)),
                ("model", jLoad rendered),
                ("spec", jFields (some ([r, c], (img.map (·.map tokFmt)).flatten)))])
  | "c16.foreign" =>
    -- a file of the class "delimiter variant of an image", described line by line
    let lines ← getList asFLine req "lines"
    let file := (← getStr req "file").toList
    let rendered := foreignFile tokFmt lines
    let img := foreignImage lines
    let cols := match img with | [] => 0 | row :: _ => row.length
    let inClass := foreignOk tokFmt lines && img.all (·.all tokenClean) && !img.isEmpty
      && img.all (fun row => row.length == cols)
    pure (jObj [("rendered", jStr (String.ofList rendered)), ("in_class", jBool inClass),
                ("real", jLoad file), ("comma", jStr (String.ofList (normalise file))), ("real_comma", jLoad (normalise file)),
                ("model", jLoad rendered),
                ("spec", jFields (some ([img.length, cols], (img.map (·.map tokFmt)).flatten)))])
  | "c16.rawtext" =>
    -- any text at all: what the loader model does with it, and the same text with `;`/tab replaced
    let file := (← getStr req "file").toList
    pure (jObj [("real", jLoad file), ("comma", jStr (String.ofList (normalise file))), ("real_comma", jLoad (normalise file))])
  | "c16.vtk" =>
    -- `endian`: sys.byteorder's name; `spacing`: str(spacing[i]) as Python prints them; `head`: the header text
    -- of the real file up to and including the marker `_`
    let n0 ← getNat req "n0"
    let n1 ← getNat req "n1"
    let n2 ← getNat req "n2"
    let endian := (← getStr req "endian").toList
    let sp ← getList asStr req "spacing"
    let spacing ← match sp with
      | [a, b, c] => pure (a.toList, b.toList, c.toList)
      | _ => throw "three spacing tokens expected"
    let realHead := (← getStr req "head").toList
    let fields ← getList (fun f => do
      let nm ← getStr f "name"
      let data ← getList asInt f "data"
      if data.length ≠ n0 * n1 * n2 then throw "data/shape mismatch"
      let arr := data.toArray
      pure ({ name := nm.toList, get := fun i j k => arr.getD ((i * n1 + j) * n2 + k) 0 } : Field Int)) req "fields"
    let img : Image Int := { n0 := n0, n1 := n1, n2 := n2, fields := fields }
    let jS := fun (x : Str) => jStr (String.ofList x)
    let jMeta := fun (m : VtkMeta) => jObj [
      ("file_type", jS m.fileType), ("version", jS m.version), ("byte_order", jS m.byteOrder),
      ("header_type", jS m.headerType), ("whole", jList jNat m.whole), ("piece", jList jNat m.piece),
      ("origin", jList jS m.origin), ("spacing", jList jS m.spacing), ("scalars", jS m.scalars),
      ("encoding", jS m.encoding),
      ("arrays", jList (fun (a : ArrayMeta) => jObj [("name", jS a.name), ("type", jS a.type), ("format", jS a.format),
                                                      ("offset", jNat a.offset)]) m.arrays)]
    let jBlock := fun (b : Option (Nat × List Int)) => match b with
      | some (n, vs) => jObj [("nbytes", jNat n), ("values", jList jInt vs)]
      | none => jObj [("unreadable", jBool true)]
    let specMeta := vtkMetaSpec endian spacing img
    let specBlocks := fields.map fun f => vtkBlockSpec (img.vol f)
    let specSide := jObj [("meta", jMeta specMeta),
      ("blocks", jList (fun (b : List Int) => jBlock (some (b.length * 8, b))) specBlocks),
      ("appended", jList jWord (appended specBlocks))]
    let okB := headOkB endian spacing (fields.map (·.name))
    let little := endian == endianName true
    -- the Lean reader on the real header text (null: the text is outside the subset the reader handles)
    let realParsed := if inReaderSubset realHead then vtkParse realHead else none
    let realMeta := jOpt jMeta realParsed
    -- ... and on the real appended bytes (`body`: hex, or null when the harness does not send them): the block
    -- found at every offset the real header declares
    let realBody ← fld req "body" >>= asOpt (fun j => do unhex (← asStr j).toList)
    let realBlocks := match realParsed, realBody with
      | some m, some bytes => jList (fun (a : ArrayMeta) =>
          jBlock ((readBlockBytes little bytes a.offset).map fun (n, gs) => (n, gs.map bytesTok))) m.arrays
      | _, _ => .null
    match vtkRender endian spacing img with
    | none =>
      pure (jObj [("rendered", .null), ("model", jObj [("raises", jBool true)]), ("spec", specSide),
                  ("head_ok", jBool okB), ("real_meta", realMeta), ("real_blocks", realBlocks)])
    | some file =>
      -- the bytes of the appended section as the model writes them (every word in the machine's byte order)
      let bytes := bodyBytes little tokBytes file.body
      let modelSide := match vtkParse file.head with
        | none => jObj [("unreadable", jBool true)]
        | some m => jObj [("meta", jMeta m),
            ("blocks", jList (fun (a : ArrayMeta) => jBlock (readBlock file.body a.offset)) m.arrays),
            -- the byte-level reader on the model's own bytes: equal to `blocks` by theorem `vtk_bytes_read_back`
            ("byte_blocks", jList (fun (a : ArrayMeta) =>
              jBlock ((readBlockBytes little bytes a.offset).map fun (n, gs) => (n, gs.map bytesTok))) m.arrays),
            ("appended", jList jWord file.body)]
      pure (jObj [
        ("rendered", jObj [("head", jS file.head), ("words", jList jWord file.body), ("body_hex", jStr (hexOf bytes)),
                           ("tail", jS file.tail)]),
        ("model", modelSide), ("spec", specSide), ("head_ok", jBool okB), ("real_meta", realMeta),
        ("real_blocks", realBlocks)])
  | _ => throw s!"unknown op {op}"

end PewDriver.C16
