import PewDriver.Util
import PewModel.Otsu
open Lean
namespace PewDriver.C15
open PewDriver Pew.Otsu

def absR (q : Rat) : Rat := if q < 0 then -q else q

/-- first index of the maximum by a plain left-to-right scan (independent of `argmaxFirst`) -/
def bruteBest (l : List Rat) : Nat × Rat :=
  match l with
  | [] => (0, 0)
  | a :: r =>
    let (_, bi, bv) := r.foldl (fun (acc : Nat × Nat × Rat) v =>
      let (k, bi, bv) := acc
      if bv < v then (k + 1, k, v) else (k + 1, bi, bv)) (1, 0, a)
    (bi, bv)

/-- is the index estimate within one of the bin the edges prescribe -/
def estNear (k e : Nat) : Bool := e == k || e == k + 1 || e + 1 == k

def handle (op : String) (req : Json) : R Json := do
  match op with
  | "c15.hist" =>
    let hist ← getList asNat req "hist"
    let edges ← getList asRat req "edges"
    if edges.length ≠ hist.length + 1 then throw "edges/hist length mismatch"
    if hist.length < 2 then throw "need at least two bins"
    let cs := centres edges
    -- the code's criterion: formed from the centres rescaled by 2^-exponent
    let scs := scaledCentres edges
    let mechN := critListN hist scs
    let idx := argmaxN mechN
    let mechU := critListN hist cs
    let guard := decide (1 ≤ hist.getD 0 0) && decide (1 ≤ hist.getD (hist.length - 1) 0)
    let spec := specCritList hist cs
    let (bi, _) := bruteBest spec
    -- what travels back is in units of 2^exponent (criterion: 4^exponent): numbers of ordinary size whatever the
    -- scale of the data; `specCritList_scale`: this is the specification on the rescaled centres
    let unit := pow2 (-(scaleExp edges))
    let specU := spec.map (unit ^ 2 * ·)
    let bv := specU.getD bi 0
    -- exact difference of the class means at the best cut (for the rounding allowance)
    let h : List Rat := hist.map (fun (k : Nat) => (k : Rat))
    let hc := List.zipWith (· * ·) h scs
    let du := sumR (hc.take (bi + 1)) / sumR (h.take (bi + 1)) - sumR (hc.drop (bi + 1)) / sumR (h.drop (bi + 1))
    let nanAt := mechN.findIdx (·.isNone)
    pure (jObj [
      ("index", jNat idx),
      ("threshold", jRat (otsuHistS hist edges)),
      ("scale_exp", jInt (scaleExp edges)),
      ("unscaled_index", jNat (argmaxN mechU)),
      ("unscaled_threshold", jRat (otsuHistN hist edges)),
      ("scaled_centres_below_one", jBool (scs.all (fun c => decide (absQ c < 1)))),
      ("centres", jList jRat cs),
      ("guard", jBool guard),
      ("first_nan", if nanAt < mechN.length then jNat nanAt else Json.null),
      ("nan_count", jNat (mechN.filter (·.isNone)).length),
      ("class_start", jList jNat ((List.range (hist.length - 1)).map (classStart hist))),
      ("spec_crit", jList jRat specU),
      ("spec_units_agree", jBool (specU == specCritList hist scs)),
      ("outer_scaled", jRat (unit * outerMag edges)),
      ("spec_best_index", jNat bi),
      ("spec_best", jRat bv),
      ("spec_best_du", jRat du),
      ("mech_is_spec", jBool (mechU == spec.map some && mechN == (specCritList hist scs).map some)),
      ("mech_zero_div_is_spec", jBool (critList hist cs == spec)),
      ("model_index_is_best", jBool (specU.getD idx 0 == bv))])
  | "c15.data" =>
    -- every value twice: the bit pattern of the double (what the Float model computes with) and its exact value
    -- (null = NaN), so that `f64ToRat` itself is checked against the harness's exact conversion
    let bits ← getList asNat req "bits"
    let data ← getList (asOpt asRat) req "data"
    let n ← getNat req "bins"
    -- run lengths (optional): value `i` stands for `counts[i]` equal elements.  The model is evaluated on the distinct
    -- values (minimum, maximum, edges and the bin of a value do not depend on how often it occurs) and the counts of
    -- the bins are weighted by the run lengths
    let counts ← match fldOpt req "counts" with
      | some j => some <$> asList asNat j
      | none => pure none
    if n < 2 then throw "need at least two bins"
    if bits.length ≠ data.length then throw "bits/data length mismatch"
    if let some cs := counts then
      if cs.length ≠ bits.length ∨ cs.any (· == 0) then throw "bad run lengths"
    let fs := bits.map (fun b => Float.ofBits (UInt64.ofNat b))
    for (f, d) in fs.zip data do
      match d with
      | none => if !f.isNaN then throw "bits/data mismatch: NaN expected"
      | some q => if !f.isFinite || f64ToRat f ≠ q then throw s!"f64ToRat disagrees with the exact value sent: {q}"
    let mirror (gs : List Float) : Json := match npHistogram gs n with
      | .error msg => jObj [("raises", jStr msg)]
      | .ok r =>
        let er := r.edges.map f64ToRat
        let kept := gs.map f64ToRat   -- the range was finite: no NaN, every value is kept
        let ks := kept.map (binByEdges er)
        let fcmp := (gs.zip ks).all (fun (x, k) =>
          (decide (x < r.edges.getD k 0) == decide (f64ToRat x < er.getD k 0)) &&
          (decide (x ≥ r.edges.getD (k + 1) 0) == decide (f64ToRat x ≥ er.getD (k + 1) 0)))
        let hist := match counts with
          | none => r.hist
          | some cs =>   -- only reached with no NaN in the data: `gs` is the whole array, runs align with the bins
            (List.range n).map (fun k => ((r.bins.zip cs).filter (fun p => p.1 == k)).foldl (fun a p => a + p.2) 0)
        jObj [("hist", jList jNat hist),
              ("edges", jList jRat er),
              ("edge_bits", jList (fun (e : Float) => jNat e.toBits.toNat) r.edges),
              ("est_within_one", jBool ((List.zipWith estNear ks r.ests).all id)),
              ("est_exact", jNat ((List.zipWith (fun k e => k == (if e = n then e - 1 else e)) ks r.ests).count true)),
              ("hist_is_by_edges", jBool (r.hist == histogramE er kept)),
              ("edges_increasing", jBool ((List.zipWith (fun a b => decide (a < b)) er er.tail).all id)),
              ("first_edge_is_min", jBool (er.getD 0 0 == minL kept)),
              ("last_edge_is_max", jBool (er.getD n 0 == maxL kept)),
              ("float_compare_is_exact_compare", jBool fcmp),
              ("threshold", jRat (otsuHistS hist er))]
    -- `x[~np.isnan(x)]` on the doubles, then the histogram; and the histogram of the array as given
    let np := mirror (maskSelect fs (fs.map (fun f => !f.isNaN)))
    let npRaw := if fs.any (·.isNaN) then mirror fs else Json.null
    -- the exact layer (uniform rational edges, NaN = none)
    let xs := data.filterMap id
    if counts.isSome ∧ fs.any (·.isNaN) then throw "run lengths with NaN are not supported"
    let exact : Json :=
      if xs.isEmpty || counts.isSome then Json.null else
      let (hist, edges) := histogram xs n
      jObj [("hist", jList jNat hist), ("edges", jList jRat edges),
            ("distinct", jBool (minL xs != maxL xs))]
    pure (jObj [
      ("np", np),
      ("np_raw", npRaw),
      ("exact", exact),
      ("otsu_remove_nan", if counts.isSome then Json.null else jOpt jRat (otsuArr true data n)),
      ("otsu_keep_nan", if counts.isSome then Json.null else jOpt jRat (otsuArr false data n))])
  | _ => throw s!"unknown op {op}"

end PewDriver.C15
