import PewDriver.Util
import PewModel.Otsu
open Lean
namespace PewDriver.C15
open PewDriver Pew.Otsu

def absR (q : Rat) : Rat := if q < 0 then -q else q

/-- first index of the maximum by a plain left-to-right scan (independent of `argmaxFirst`) -/
def bruteBest (l : List Rat) : Nat × Rat :=
  match l with
  | [] => (0, 0)
  | a :: r =>
    let (_, bi, bv) := r.foldl (fun (acc : Nat × Nat × Rat) v =>
      let (k, bi, bv) := acc
      if bv < v then (k + 1, k, v) else (k + 1, bi, bv)) (1, 0, a)
    (bi, bv)

/-- is the index estimate within one of the bin the edges prescribe -/
def estNear (k e : Nat) : Bool := e == k || e == k + 1 || e + 1 == k

/-! the criterion in binary64, with Lean's `Float` (the hardware operations): the program of `critListR` -/

def cumsumF : List Float → List Float
  | [] => []
  | a :: l =>
    let rec go (acc : Float) : List Float → List Float
      | [] => []
      | b :: r => (acc + b) :: go (acc + b) r
    a :: go a l

def critListF (hist : List Nat) (cs : List Float) : List Float :=
  let h : List Float := hist.map Float.ofNat
  let w1n := (cumsum (hist.map (fun (k : Nat) => (k : Rat)))).map (fun q => q.num.toNat)
  let w2n := ((cumsum (hist.map (fun (k : Nat) => (k : Rat))).reverse).reverse).map (fun q => q.num.toNat)
  let w1 := w1n.map Float.ofNat
  let w2 := w2n.map Float.ofNat
  let hc := List.zipWith (· * ·) h cs
  let u1 := List.zipWith (· / ·) (cumsumF hc) w1
  let u2 := (List.zipWith (· / ·) (cumsumF hc.reverse) w2.reverse).reverse
  let ww := (List.zipWith (· * ·) w1n w2n.tail).map Float.ofNat
  let du := List.zipWith (· - ·) u1 u2.tail
  List.zipWith (fun a d => a * (d * d)) ww du

/-- `np.argmax` on doubles: the first NaN if there is one, else the first maximum -/
def argmaxF (l : List Float) : Nat :=
  match l.findIdx? (·.isNaN) with
  | some i => i
  | none =>
    match l with
    | [] => 0
    | a :: r =>
      let (_, bi, _) := r.foldl (fun (acc : Nat × Nat × Float) v =>
        let (k, bi, bv) := acc
        if bv < v then (k + 1, k, v) else (k + 1, bi, bv)) (1, 0, a)
      bi

def U53 : Rat := 1 / ((2 ^ 53 : Nat) : Rat)
def ETA : Rat := 1 / ((2 ^ 1075 : Nat) : Rat)

/-- round up to a multiple of 2^-120 (for reporting only) -/
def upTo (q : Rat) : Rat := ((q * ((2 ^ 120 : Nat) : Rat)).ceil : Rat) / ((2 ^ 120 : Nat) : Rat)

def handle (op : String) (req : Json) : R Json := do
  match op with
  | "c15.hist" =>
    let hist ← getList asNat req "hist"
    let edges ← getList asRat req "edges"
    if edges.length ≠ hist.length + 1 then throw "edges/hist length mismatch"
    if hist.length < 2 then throw "need at least two bins"
    let cs := centres edges
    -- the code's criterion: formed from the centres rescaled by 2^-exponent
    let scs := scaledCentres edges
    let mechN := critListN hist scs
    let idx := argmaxN mechN
    let mechU := critListN hist cs
    let guard := decide (1 ≤ hist.getD 0 0) && decide (1 ≤ hist.getD (hist.length - 1) 0)
    let spec := specCritList hist cs
    let (bi, _) := bruteBest spec
    -- what travels back is in units of 2^exponent (criterion: 4^exponent): numbers of ordinary size whatever the
    -- scale of the data; `specCritList_scale`: this is the specification on the rescaled centres
    let unit := pow2 (-(scaleExp edges))
    let specU := spec.map (unit ^ 2 * ·)
    let bv := specU.getD bi 0
    -- exact difference of the class means at the best cut (for the rounding allowance)
    let h : List Rat := hist.map (fun (k : Nat) => (k : Rat))
    let hc := List.zipWith (· * ·) h scs
    let du := sumR (hc.take (bi + 1)) / sumR (h.take (bi + 1)) - sumR (hc.drop (bi + 1)) / sumR (h.drop (bi + 1))
    let nanAt := mechN.findIdx (·.isNone)
    -- the float criterion (binary64, hardware operations) and its proved budget (`float_criterion_within_budget`)
    let flt ← match fldOpt req "edge_bits" with
      | none => pure Json.null
      | some j => do
        let bits ← asList asNat j
        let slack ← getRat req "slack"
        let efs := bits.map (fun b => Float.ofBits (UInt64.ofNat b))
        if efs.map f64ToRat ≠ edges then throw "edge_bits/edges mismatch"
        let centresF := List.zipWith (fun a b => (a + b) / 2.0) efs.tail efs
        let scsF := centresF.map (fun c => c.scaleB (-(scaleExp edges)))
        let critF := critListF hist scsF
        let idxF := argmaxF critF
        let bnd := critListB U53 ETA hist (scaledCentresB U53 ETA edges)
        let eb := (bnd.getD bi (0, 0)).2
        let within := (List.zipWith (fun (f : Float) (p : Rat × EB) =>
          f.isFinite && decide (absQ (f64ToRat f - p.1) ≤ p.2.2)) critF (specU.zip bnd)).all id
        let nearB := (List.range specU.length).filter (fun j =>
          decide (bv ≤ specU.getD j 0 + slack * ((bnd.getD j (0, 0)).2 + eb)))
        pure (jObj [
          ("index", jNat idxF),
          ("threshold_bits", jNat (centresF.getD idxF 0).toBits.toNat),
          ("crit_bits", jList (fun (f : Float) => jNat f.toBits.toNat) critF),
          ("all_finite", jBool (critF.all (·.isFinite))),
          ("within_budget", jBool within),
          ("budget_exact_is_spec", jBool (bnd.map Prod.fst == specU)),
          ("scaled_centres_exact", jBool (scsF.map f64ToRat == List.zipWith (fun (f : Float) (_ : Rat) =>
              pow2 (-(scaleExp edges)) * f64ToRat f) centresF scs)),
          ("budget_rel_best", jRat (upTo (if bv = 0 then 0 else eb / bv))),
          ("budget_rel_max", jRat (upTo (if bv = 0 then 0 else (bnd.foldl (fun m p => max m p.2) 0) / bv))),
          ("near_budget", jList jNat nearB)])
    pure (jObj [
      ("float", flt),
      ("index", jNat idx),
      ("threshold", jRat (otsuHistS hist edges)),
      ("scale_exp", jInt (scaleExp edges)),
      ("unscaled_index", jNat (argmaxN mechU)),
      ("unscaled_threshold", jRat (otsuHistN hist edges)),
      ("scaled_centres_below_one", jBool (scs.all (fun c => decide (absQ c < 1)))),
      ("centres", jList jRat cs),
      ("guard", jBool guard),
      ("first_nan", if nanAt < mechN.length then jNat nanAt else Json.null),
      ("nan_count", jNat (mechN.filter (·.isNone)).length),
      ("class_start", jList jNat ((List.range (hist.length - 1)).map (classStart hist))),
      ("spec_crit", jList jRat specU),
      ("spec_units_agree", jBool ((List.range (hist.length - 1)).all (fun i =>
        i % 37 != 0 || specU.getD i 0 == specCrit hist scs i))),
      ("outer_scaled", jRat (unit * outerMag edges)),
      ("spec_best_index", jNat bi),
      ("spec_best", jRat bv),
      ("spec_best_du", jRat du),
      ("mech_is_spec", jBool (mechU == spec.map some && mechN == specU.map some)),
      ("mech_zero_div_is_spec", jBool (critList hist cs == spec)),
      ("model_index_is_best", jBool (specU.getD idx 0 == bv))])
  | "c15.data" =>
    -- every value twice: the bit pattern of the double (what the Float model computes with) and its exact value
    -- (null = NaN), so that `f64ToRat` itself is checked against the harness's exact conversion
    let bits ← getList asNat req "bits"
    let data ← getList (asOpt asRat) req "data"
    let n ← getNat req "bins"
    -- run lengths (optional): value `i` stands for `counts[i]` equal elements.  The model is evaluated on the distinct
    -- values (minimum, maximum, edges and the bin of a value do not depend on how often it occurs) and the counts of
    -- the bins are weighted by the run lengths
    let counts ← match fldOpt req "counts" with
      | some j => some <$> asList asNat j
      | none => pure none
    if n < 2 then throw "need at least two bins"
    if bits.length ≠ data.length then throw "bits/data length mismatch"
    if let some cs := counts then
      if cs.length ≠ bits.length ∨ cs.any (· == 0) then throw "bad run lengths"
    let fs := bits.map (fun b => Float.ofBits (UInt64.ofNat b))
    for (f, d) in fs.zip data do
      match d with
      | none => if !f.isNaN then throw "bits/data mismatch: NaN expected"
      | some q => if !f.isFinite || f64ToRat f ≠ q then throw s!"f64ToRat disagrees with the exact value sent: {q}"
    let mirror (gs : List Float) : Json := match npHistogram gs n with
      | .error msg => jObj [("raises", jStr msg)]
      | .ok r =>
        let er := r.edges.map f64ToRat
        let kept := gs.map f64ToRat   -- the range was finite: no NaN, every value is kept
        let ks := kept.map (binByEdges er)
        let fcmp := (gs.zip ks).all (fun (x, k) =>
          (decide (x < r.edges.getD k 0) == decide (f64ToRat x < er.getD k 0)) &&
          (decide (x ≥ r.edges.getD (k + 1) 0) == decide (f64ToRat x ≥ er.getD (k + 1) 0)))
        let hist := match counts with
          | none => r.hist
          | some cs =>   -- only reached with no NaN in the data: `gs` is the whole array, runs align with the bins
            (List.range n).map (fun k => ((r.bins.zip cs).filter (fun p => p.1 == k)).foldl (fun a p => a + p.2) 0)
        jObj [("hist", jList jNat hist),
              ("edges", jList jRat er),
              ("edge_bits", jList (fun (e : Float) => jNat e.toBits.toNat) r.edges),
              ("est_within_one", jBool ((List.zipWith estNear ks r.ests).all id)),
              ("est_exact", jNat ((List.zipWith (fun k e => k == (if e = n then e - 1 else e)) ks r.ests).count true)),
              ("hist_is_by_edges", jBool (r.hist == histogramE er kept)),
              ("edges_increasing", jBool ((List.zipWith (fun a b => decide (a < b)) er er.tail).all id)),
              ("first_edge_is_min", jBool (er.getD 0 0 == minL kept)),
              ("last_edge_is_max", jBool (er.getD n 0 == maxL kept)),
              ("float_compare_is_exact_compare", jBool fcmp),
              ("threshold", jRat (otsuHistS hist er))]
    -- `x[~np.isnan(x)]` on the doubles, then the histogram; and the histogram of the array as given
    let np := mirror (maskSelect fs (fs.map (fun f => !f.isNaN)))
    let npRaw := if fs.any (·.isNaN) then mirror fs else Json.null
    -- the exact layer (uniform rational edges, NaN = none)
    let xs := data.filterMap id
    if counts.isSome ∧ fs.any (·.isNaN) then throw "run lengths with NaN are not supported"
    let exact : Json :=
      if xs.isEmpty || counts.isSome then Json.null else
      let (hist, edges) := histogram xs n
      jObj [("hist", jList jNat hist), ("edges", jList jRat edges),
            ("distinct", jBool (minL xs != maxL xs))]
    pure (jObj [
      ("np", np),
      ("np_raw", npRaw),
      ("exact", exact),
      ("otsu_remove_nan", if counts.isSome then Json.null else jOpt jRat (otsuArr true data n)),
      ("otsu_keep_nan", if counts.isSome then Json.null else jOpt jRat (otsuArr false data n))])
  | _ => throw s!"unknown op {op}"

end PewDriver.C15
