import PewDriver.Util
import PewModel.Otsu
open Lean
namespace PewDriver.C15
open PewDriver Pew.Otsu

def absR (q : Rat) : Rat := if q < 0 then -q else q

/-- first index of the maximum by a plain left-to-right scan (independent of `argmaxFirst`) -/
def bruteBest (l : List Rat) : Nat × Rat :=
  match l with
  | [] => (0, 0)
  | a :: r =>
    let (_, bi, bv) := r.foldl (fun (acc : Nat × Nat × Rat) v =>
      let (k, bi, bv) := acc
      if bv < v then (k + 1, k, v) else (k + 1, bi, bv)) (1, 0, a)
    (bi, bv)

def handle (op : String) (req : Json) : R Json := do
  match op with
  | "c15.hist" =>
    let hist ← getList asNat req "hist"
    let edges ← getList asRat req "edges"
    if edges.length ≠ hist.length + 1 then throw "edges/hist length mismatch"
    if hist.length < 2 then throw "need at least two bins"
    let cs := centres edges
    let mech := critList hist cs
    let idx := argmaxFirst mech
    let spec := specCritList hist cs
    let (bi, bv) := bruteBest spec
    -- exact difference of the class means at the best cut (for the rounding allowance)
    let h : List Rat := hist.map (fun (k : Nat) => (k : Rat))
    let hc := List.zipWith (· * ·) h cs
    let du := sumR (hc.take (bi + 1)) / sumR (h.take (bi + 1)) - sumR (hc.drop (bi + 1)) / sumR (h.drop (bi + 1))
    pure (jObj [
      ("index", jNat idx),
      ("threshold", jRat (otsuHist hist edges)),
      ("centres", jList jRat cs),
      ("spec_crit", jList jRat spec),
      ("spec_best_index", jNat bi),
      ("spec_best", jRat bv),
      ("spec_best_du", jRat du),
      ("mech_is_spec", jBool (mech == spec)),
      ("model_index_is_best", jBool (spec.getD idx 0 == bv))])
  | "c15.data" =>
    let data ← getList (asOpt asRat) req "data"
    let n ← getNat req "bins"
    let npEdges ← getList asRat req "np_edges"
    if n < 2 then throw "need at least two bins"
    let xs := data.filterMap id
    if xs.isEmpty then throw "no finite data"
    let (hist, edges) := histogram xs n
    let (lo, hi) := histRange xs
    -- distance of every value to the nearest exact bin edge, in units of the bin width
    let pos := xs.map (fun x => (x - lo) / (hi - lo) * (n : Rat))
    let margins := pos.map (fun p => absR (p - ((p + 1 / 2).floor : Rat)))
    let minMargin := (margins.filter (fun d => d ≠ 0)).foldl min 1
    -- a value exactly on an interior exact edge is binned like NumPy only if NumPy's edge is that value
    let onEdgeOk := pos.all (fun p =>
      if p = (p.floor : Rat) then
        let k := p.floor.toNat
        k == 0 || k == n || (npEdges.getD k 0 == edges.getD k 0)
      else true)
    pure (jObj [
      ("hist", jList jNat hist),
      ("edges", jList jRat edges),
      ("lo", jRat lo), ("hi", jRat hi),
      ("distinct", jBool (minL xs != maxL xs)),
      ("threshold", jRat (otsuRemoveNan data n)),
      ("min_margin", jRat minMargin),
      ("on_edge_ok", jBool onEdgeOk)])
  | _ => throw s!"unknown op {op}"

end PewDriver.C15
