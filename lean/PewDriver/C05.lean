import PewDriver.Util
import PewModel.Imzml
open Lean
namespace PewDriver.C05
open PewDriver Pew.Imzml

/-! The harness sends the bytes of the `.ibd` file it wrote (hex) and, per `<spectrum>`, what it wrote
into the imzML: position, TIC text value (as an exact rational) and offset / encoded length of the
two arrays.  Everything else (reading and decoding the arrays, the dict, the images) is the model. -/

def hexVal (c : Char) : R Nat :=
  if '0' ≤ c ∧ c ≤ '9' then pure (c.toNat - '0'.toNat)
  else if 'a' ≤ c ∧ c ≤ 'f' then pure (c.toNat - 'a'.toNat + 10)
  else throw s!"bad hex digit {c}"

def hexBytes : List Char → R (List UInt8)
  | [] => pure []
  | [_] => throw "odd number of hex digits"
  | a :: b :: r => do
    let x ← hexVal a
    let y ← hexVal b
    let rest ← hexBytes r
    pure (UInt8.ofNat (16 * x + y) :: rest)

def parseDType (s : String) : R DType :=
  match s with
  | "u1" => pure .u8
  | "u2" => pure .u16
  | "u4" => pure .u32
  | "u8" => pure .u64
  | "f4" => pure .f32
  | "f8" => pure .f64
  | _ => throw s!"bad dtype {s}"

def parseOrder (s : String) : R ByteOrder :=
  match s with
  | "little" => pure .little
  | "big" => pure .big
  | _ => throw s!"bad byte order {s}"

def offLen (j : Json) : R (Nat × Nat) := do
  match (← asList asNat j) with
  | [a, b] => pure (a, b)
  | _ => throw "array reference must be [offset, length]"

/-- one `<spectrum>`: the arrays are read from the bytes by the model; a read that raises or yields a
non-finite value is an error of the harness (the generator never writes one) -/
def parseSpectrum (ibd : List UInt8) (mzdt itdt : DType) (j : Json) : R (Spectrum × List Nat × List Nat) := do
  let x ← getInt j "x"
  let y ← getInt j "y"
  let tic ← fld j "tic" >>= asOpt asRat
  let (mo, ml) ← fld j "mz" >>= offLen
  let (io, il) ← fld j "it" >>= offLen
  match getBinaryData .little ibd mo ml mzdt, getBinaryData .little ibd io il itdt with
  | some mb, some ib =>
    match mb.mapM (valueOf mzdt), ib.mapM (valueOf itdt) with
    | some mz, some it => pure ({ x := x, y := y, tic := tic, mz := mz, it := it }, mb, ib)
    | _, _ => throw "non-finite value in a generated array"
  | _, _ => throw "generated array does not fit the file"

structure File where
  size : Option (Int × Int)
  specs : List Spectrum
  bits : List (List Nat × List Nat)

def parseFile (req : Json) : R File := do
  let sizeJ ← fld req "size"
  let size ← asOpt (fun j => do
    match (← asList asInt j) with
    | [a, b] => pure (a, b)
    | _ => throw "size must be [X, Y]") sizeJ
  let hex ← getStr req "ibd"
  let ibd ← hexBytes hex.toList
  let mzdt ← getStr req "mzdt" >>= parseDType
  let itdt ← getStr req "itdt" >>= parseDType
  let sp ← getList (parseSpectrum ibd mzdt itdt) req "spectra"
  pure { size := size, specs := sp.map (·.1), bits := sp.map (·.2) }

def parseWidth (j : Json) : R Width := do
  let k ← getStr j "kind"
  let v ← getRat j "value"
  match k with
  | "ppm" => pure (.ppm v)
  | "mz" => pure (.mz v)
  | _ => throw s!"bad width kind {k}"

def jTable {β} (f : β → Json) (t : List (List (Option β))) : Json :=
  jList (jList (jOpt f)) t

def jVec : List Rat → Json := jList jRat

/-- the result of an image method: `null` when it raises, else shape `(Y, X)` and the pixels -/
def jImage {β} (f : β → Json) (r : Option ((Nat × Nat) × Canvas β)) : Json :=
  match r with
  | none => .null
  | some (shape, img) => jObj [("shape", jList jNat [shape.1, shape.2]), ("table", jTable f (tabulate shape img))]

/-- specification of the mass range: it must bound every recorded m/z; reported as the extreme
recorded values (over ALL elements, not only first/last) -/
def allMz (specs : List Spectrum) : List Rat := specs.flatMap (·.mz)

def minR : List Rat → Option Rat
  | [] => none
  | x :: xs => some (xs.foldl (fun a b => if b < a then b else a) x)

def maxR : List Rat → Option Rat
  | [] => none
  | x :: xs => some (xs.foldl (fun a b => if a < b then b else a) x)

/-- the shape the property speaks of: the stated size, else the largest recorded position -/
def specShape (f : File) : Option (Nat × Nat) := (imageSize f.size f.specs).bind shapeOf

/-- hypotheses of the theorems, decided: every position recorded once, 1-based and inside the image;
strictly increasing non-empty axes, equal lengths -/
def hyp (f : File) : Bool :=
  match specShape f with
  | none => false
  | some shape =>
    inDomainB shape f.specs && distinctB f.specs &&
    f.specs.all (fun s => incrB s.mz && s.mz.length == s.it.length && !s.mz.isEmpty)

def specTable {β} (f : File) (g : Spectrum → β) : Option (List (List (Option β))) :=
  (specShape f).map (fun shape => tabulate shape (fun r c => (specAt f.specs r c).map g))

/-- the returned bin edges are acceptable for the specification: strictly increasing by exactly `w`,
starting at or below the lowest and ending (with the last bin `[b, b + w)`) above the highest m/z -/
def stepsBy (w : Rat) : List Rat → Bool
  | [] => true
  | [_] => true
  | a :: b :: r => decide (b - a = w) && stepsBy w (b :: r)

def binsCover (bins : List Rat) (w : Rat) (specs : List Spectrum) : Bool :=
  decide (0 < w) && stepsBy w bins &&
  match bins.head?, bins.getLast?, minR (allMz specs), maxR (allMz specs) with
  | some b0, some bl, some lo, some hi => decide (b0 ≤ lo) && decide (hi < bl + w)
  | _, _, _, _ => false

/-- pixels that two or more dict values are written to (positions 0 and X, …): which value stays depends
on the order of the loop, which the property does not fix; the harness compares only their NaN-ness -/
def aliased (size : Option (Int × Int)) (d : List Spectrum) : Option (List (List (Option Bool))) :=
  ((imageSize size d).bind shapeOf).map (fun shape =>
    tabulate shape (fun r c =>
      some (decide (2 ≤ (d.filter (fun s => pyIndex shape.1 (s.y - 1) == some r && pyIndex shape.2 (s.x - 1) == some c)).length))))

def jSpecRef (s : Spectrum) : Json :=
  jObj [("x", jInt s.x), ("y", jInt s.y), ("mz", jVec s.mz), ("it", jVec s.it)]

def handle (op : String) (req : Json) : R Json := do
  match op with
  | "c05.image" =>
    let f ← parseFile req
    let masses ← getList asRat req "masses"
    let width ← fld req "width" >>= parseWidth
    let d := spectraDict f.specs
    let wins := windows masses width
    let mr := massRange d
    pure (jObj [("arrays", jList (fun (b : List Nat × List Nat) => jObj [("mz", jList jNat b.1), ("it", jList jNat b.2)]) f.bits),
                ("values", jList jSpecRef f.specs),
                ("dict", jList jSpecRef d),
                ("extract_model", jImage jVec (extractImage f.size d masses width)),
                ("extract_spec", jOpt (jTable jVec) (specTable f (fun s => specSpectrum s.mz s.it wins))),
                ("tic_model", jImage jRat (ticImage f.size d)),
                ("tic_spec", jOpt (jTable jRat) (specTable f (fun s => match s.tic with | some t => t | none => s.it.sum))),
                ("range_model", jOpt (fun (p : Option Rat × Option Rat) => jList (jOpt jRat) [p.1, p.2]) mr),
                ("range_spec", jList (jOpt jRat) [minR (allMz f.specs), maxR (allMz f.specs)]),
                ("aliased", jOpt (jTable jBool) (aliased f.size d)),
                ("edges", jList jRat (flatten wins)),
                ("hyp", jBool (hyp f))])
  | "c05.extract" =>
    -- one more `extract_masses` call on the same file (histories, other argument types): the light
    -- version of `c05.image`
    let f ← parseFile req
    let masses ← getList asRat req "masses"
    let width ← fld req "width" >>= parseWidth
    let d := spectraDict f.specs
    let wins := windows masses width
    pure (jObj [("extract_model", jImage jVec (extractImage f.size d masses width)),
                ("extract_spec", jOpt (jTable jVec) (specTable f (fun s => specSpectrum s.mz s.it wins))),
                ("edges", jList jRat (flatten wins)),
                ("hyp", jBool (hyp f))])
  | "c05.bins" =>
    let f ← parseFile req
    let w ← getRat req "w"
    -- the edges returned by the implementation (null when it raised): the specification is
    -- evaluated on them; the mechanism model computes its own
    let implBins ← fld req "impl_bins" >>= asOpt (asList asRat)
    let d := spectraDict f.specs
    let mbins := binEdges d w
    let sbins := implBins.getD (mbins.getD [])
    let model := match binImage f.size d w with
      | none => Json.null
      | some (bins, shape, img) =>
        jObj [("bins", jVec bins), ("shape", jList jNat [shape.1, shape.2]), ("table", jTable jVec (tabulate shape img))]
    pure (jObj [("model", model),
                ("spec", jOpt (jTable jVec) (specTable f (fun s => binSpec s.mz s.it sbins w))),
                ("dense", jOpt (jTable jBool) (specTable f (fun s => dense s.mz sbins))),
                ("cover", jBool (binsCover sbins w f.specs)),
                ("hyp", jBool (hyp f))])
  | "c05.read" =>
    let hex ← getStr req "ibd"
    let ibd ← hexBytes hex.toList
    let dt ← getStr req "dtype" >>= parseDType
    let bo ← getStr req "order" >>= parseOrder
    let off ← getNat req "off"
    let len ← getNat req "len"
    let bits := getBinaryData bo ibd off len dt
    pure (jObj [("bits", jOpt (jList jNat) bits),
                ("values", jOpt (jList (fun b => jOpt jRat (valueOf dt b))) bits),
                ("pointwise", jOpt (jList jNat)
                  (bits.map (fun a => (List.range a.length).map
                    (fun i => bitsOf bo ((ibd.drop (off + i * dt.width)).take dt.width)))))])
  | _ => throw s!"unknown op {op}"

end PewDriver.C05
