import PewDriver.Util
import PewModel.Imzml
open Lean
namespace PewDriver.C05
open PewDriver Pew.Imzml

def parseSpectrum (j : Json) : R Spectrum := do
  let x ← getNat j "x"
  let y ← getNat j "y"
  let tic ← fld j "tic" >>= asOpt asRat
  let mz ← getList asRat j "mz"
  let it ← getList asRat j "it"
  pure { x := x, y := y, tic := tic, mz := mz, it := it }

def parseWidth (j : Json) : R Width := do
  let k ← getStr j "kind"
  let v ← getRat j "value"
  match k with
  | "ppm" => pure (.ppm v)
  | "mz" => pure (.mz v)
  | _ => throw s!"bad width kind {k}"

def jTable {β} (f : β → Json) (t : List (List (Option β))) : Json :=
  jList (jList (jOpt f)) t

def jVec : List Rat → Json := jList jRat

/-- specification of the mass range: it must bound every recorded m/z; reported as the extreme
recorded values (over ALL elements, not only first/last) -/
def allMz (specs : List Spectrum) : List Rat := specs.flatMap (·.mz)

def minR : List Rat → Option Rat
  | [] => none
  | x :: xs => some (xs.foldl (fun a b => if b < a then b else a) x)

def maxR : List Rat → Option Rat
  | [] => none
  | x :: xs => some (xs.foldl (fun a b => if a < b then b else a) x)

/-- hypotheses of the theorems, decided: strictly increasing non-empty axes, equal lengths,
1-based positions inside the image -/
def hyp (size : Nat × Nat) (specs : List Spectrum) : Bool :=
  specs.all (fun s => incrB s.mz && s.mz.length == s.it.length && !s.mz.isEmpty
    && decide (1 ≤ s.x) && decide (1 ≤ s.y) && decide (s.x ≤ size.1) && decide (s.y ≤ size.2))

/-- the returned bin edges are acceptable for the specification: strictly increasing by exactly `w`,
starting at or below the lowest and ending (with the last bin `[b, b + w)`) above the highest m/z -/
def stepsBy (w : Rat) : List Rat → Bool
  | [] => true
  | [_] => true
  | a :: b :: r => decide (b - a = w) && stepsBy w (b :: r)

def binsCover (bins : List Rat) (w : Rat) (specs : List Spectrum) : Bool :=
  decide (0 < w) && stepsBy w bins &&
  match bins.head?, bins.getLast?, minR (allMz specs), maxR (allMz specs) with
  | some b0, some bl, some lo, some hi => decide (b0 ≤ lo) && decide (hi < bl + w)
  | _, _, _, _ => false

def handle (op : String) (req : Json) : R Json := do
  match op with
  | "c05.image" =>
    let sizeJ ← fld req "size"
    let size ← asOpt (fun j => do
      match (← asList asNat j) with
      | [a, b] => pure (a, b)
      | _ => throw "size must be [X, Y]") sizeJ
    let specs ← getList parseSpectrum req "spectra"
    let masses ← getList asRat req "masses"
    let width ← fld req "width" >>= parseWidth
    let sz := imageSize size specs
    let ext := tabulate sz (extractImage specs masses width)
    let extS := tabulate sz (specImage (fun s => specSpectrum s.mz s.it (windows masses width)) specs)
    let tic := tabulate sz (ticImage specs)
    let ticS := tabulate sz (specImage (fun s => match s.tic with | some t => t | none => s.it.sum) specs)
    let mr := massRange specs
    let edges := flatten (windows masses width)
    pure (jObj [("size", jList jNat [sz.1, sz.2]),
                ("extract_model", jTable jVec ext), ("extract_spec", jTable jVec extS),
                ("tic_model", jTable jRat tic), ("tic_spec", jTable jRat ticS),
                ("range_model", jList (jOpt jRat) [mr.1, mr.2]),
                ("range_spec", jList (jOpt jRat) [minR (allMz specs), maxR (allMz specs)]),
                ("edges", jList jRat edges),
                ("hyp", jBool (hyp sz specs))])
  | "c05.bins" =>
    let sizeJ ← fld req "size"
    let size ← asOpt (fun j => do
      match (← asList asNat j) with
      | [a, b] => pure (a, b)
      | _ => throw "size must be [X, Y]") sizeJ
    let specs ← getList parseSpectrum req "spectra"
    let w ← getRat req "w"
    -- the edges returned by the implementation (null when it raised): the specification is
    -- evaluated on them; the mechanism model computes its own
    let implBins ← fld req "impl_bins" >>= asOpt (asList asRat)
    let sz := imageSize size specs
    let mr := massRange specs
    let mbins := match mr with
      | (some lo, some hi) => arange lo (hi + w) w
      | _ => []
    let sbins := implBins.getD mbins
    let model := tabulate sz (binImage specs mbins)
    let spec := tabulate sz (specImage (fun s => binSpec s.mz s.it sbins w) specs)
    let dns := tabulate sz (specImage (fun s => dense s.mz sbins) specs)
    let tot := tabulate sz (specImage (fun s => s.it.sum) specs)
    pure (jObj [("size", jList jNat [sz.1, sz.2]),
                ("bins_model", jVec mbins), ("model", jTable jVec model),
                ("spec", jTable jVec spec), ("dense", jTable jBool dns), ("total", jTable jRat tot),
                ("cover", jBool (binsCover sbins w specs)),
                ("hyp", jBool (hyp sz specs))])
  | _ => throw s!"unknown op {op}"

end PewDriver.C05
