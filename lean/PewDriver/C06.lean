import PewDriver.Util
import PewModel.Calib
open Lean
namespace PewDriver.C06
open PewDriver Pew.Calib

def jV : V → Json := jOpt jRat

def parseRow (j : Json) : R Row := do
  match ← asList (asOpt asRat) j with
  | [x, y, cw] => pure { x := x, y := y, cw := cw }
  | _ => throw "row must be [x, y, cw]"

/-- Python `None` ↦ null, NaN ↦ "nan" -/
def jRsq : Option V → Json
  | none => .null
  | some none => jStr "nan"
  | some (some q) => jRat q

def jFit (f : Fit) : Json :=
  jObj [("gradient", jRat f.gradient), ("intercept", jRat f.intercept), ("rsq", jRsq f.rsq),
        ("err2", jOpt jRat f.err2)]

def parseWeighting (j : Json) : R Weighting := do
  let name ← getStr j "weighting"
  let hasCustom ← getBool j "custom"
  match parseBuiltin name with
  | some b => pure (Weighting.builtin b)
  | none => if hasCustom then pure Weighting.custom else throw s!"unsupported weighting {name}"

/-- one operation of a session.  A refit whose points allow a fit (two usable rows) stores a line computed in
floating point by polyfit: the line observed on the object is adopted (`observed`; the fit itself is judged by
"c06.fit"), in the model's terms an `assign` right after the `refit`.  With fewer than two usable rows the
model's own state - the identity - stands. -/
def sessionStep (st : Fit) (j : Json) : R (List Step × Json) := do
  match ← getStr j "op" with
  | "assign" =>
    let g ← getRat j "g"
    let c ← getRat j "c"
    pure ([.assign g c], jObj [("op", jStr "assign")])
  | "refit" =>
    let wt ← parseWeighting j
    let rows ← getList parseRow j "rows"
    if wt == .custom && (usableRows rows).any (fun r => r.cw.isNone) then
      throw "NaN custom weight on a usable row (outside the property)"
    let fitted := !rows.isEmpty && (usableRows rows).length ≥ 2
    let obs ← (fld j "observed") >>= asOpt (asList asRat)
    let extra : List Step ← match fitted, obs with
      | true, some [g, c] => pure [Step.assign g c]
      | true, some _ => throw "observed must be [g, c]"
      | _, _ => pure []     -- no usable observed line: the exact fit stands and `adopted` is false
    pure (.refit wt rows :: extra,
      jObj [("op", jStr "refit"), ("fitted", jBool fitted), ("adopted", jBool !extra.isEmpty)])
  | "calibrate" =>
    let resp ← getList (asOpt asRat) j "responses"
    let g := st.gradient
    let c := st.intercept
    -- "concentrations": the array the responses were built from (binary64 data), or null: the data array holds
    -- the responses in its own dtype and the specification is the formula on them (`specCalibrate`)
    match ← (fld j "concentrations") >>= asOpt (asList (asOpt asRat)) with
    | some conc =>
      pure ([.calibrate resp], jObj [("op", jStr "calibrate"), ("spec", jList jV conc),
        ("on_line", jBool (decide (conc.map (fun x => calibrate g c (x.map (fun q => g * q + c))) = conc)))])
    | none =>
      let spec := resp.map (specCalibrate g c)
      pure ([.calibrate resp], jObj [("op", jStr "calibrate"), ("spec", jList jV spec),
        ("on_line", jBool ((List.zip resp spec).all (fun p => onLine g c p.1 p.2)))])
  | o => throw s!"unknown session step {o}"

def handle (op : String) (req : Json) : R Json := do
  match op with
  | "c06.fit" =>
    let rows ← getList parseRow req "rows"
    let wt ← parseWeighting req
    if wt == .custom && (usableRows rows).any (fun r => r.cw.isNone) then
      throw "NaN custom weight on a usable row (outside the property)"
    let fit := updateLinreg wt rows
    -- specification: evaluated on the NaN-free table alone (`specPts`: entry-by-entry weights, no mask, no
    -- replacement pass; the harness sends the NaN-free table itself for the value it judges against): textbook
    -- centred form, squared weighted correlation, residual variance with raw sums (`fit_is_specification`)
    let clean := rows.filter (fun r => r.x.isSome && r.y.isSome)
    let l := specPts wt clean
    let fitted := clean.length ≥ 2
    let spec : Json :=
      if fitted then
        jObj [("gradient", jRat (specGradient l)), ("intercept", jRat (specIntercept l)),
              ("rsq", jRat (specRsq l)), ("err2", jRat (specErr2 l))]
      else jFit identityFit
    -- the `weights` attribute, entry by entry (independent of `weightsFromWeighting`)
    let col : List V := match wt with
      | .builtin b => rows.map (fun r => if b.onY then r.y else r.x)
      | .custom => []
    let specW : List V := match wt with
      | .builtin b => specWeights col b.kind
      | .custom => rows.map (·.cw)
    pure (jObj [
      ("weights", jList jV (weights wt rows)),
      ("spec_weights", jList jV specW),
      -- the clause "a zero concentration never produces an infinite or NaN weight" is demanded under the
      -- quantifier's precondition - two usable rows with distinct concentrations - where (for the x-based
      -- weightings by `two_levels_hasNonzero`, for the y-based ones because responses are positive) some entry
      -- of the column the weights are derived from is finite and not zero (`weights_finite_of_nonzero`)
      ("weights_finite_required", jBool (match wt with
        | .builtin _ =>
          let us := usableRows rows
          us.any (fun p => us.any (fun q => decide (p.x ≠ q.x))) && hasNonzero col
        | .custom => false)),
      ("spec_weights_finite", jBool (finiteAtFinite col specW)),
      ("fit_weights", jList jRat ((fitPts wt rows).map (·.w))),
      ("mech_pts_are_spec_pts", jBool (fitPts wt rows == l)),
      ("usable", jNat (usableRows rows).length),
      ("fitted", jBool fitted),
      ("model", jFit fit),
      ("spec", spec),
      ("hyp", jBool (fitted && fitHyp l)),
      -- conditioning figures (exact): D/(Sw·Swxx), Dy/(Sw·Swyy), Swxx/Sw
      ("rho", jRat (D l / (Sw l * Swxx l))),
      ("rho_y", jRat (Dy l / (Sw l * Swyy l))),
      ("xr2", jRat (Swxx l / Sw l)),
      -- 1 − 1/n_eff: relative size of np.cov's normalisation factor Σw − Σw²/Σw
      ("cov_margin", jRat ((Sw l ^ 2 - Sww l) / Sw l ^ 2)),
      ("dy_pos", jBool (decide (0 < Dy l)))])
  | "c06.calibrate" =>
    let g ← getRat req "gradient"
    let c ← getRat req "intercept"
    let resp ← getList (asOpt asRat) req "responses"
    let conc ← getList (asOpt asRat) req "concentrations"
    -- model: the code's arithmetic on the responses actually passed;
    -- spec: the concentrations themselves (`calibrate_inverts`: the mechanism on the exact points of the line
    -- returns them); `on_line` is that theorem evaluated on this case
    pure (jObj [
      ("model", jList jV (resp.map (calibrate g c))),
      ("spec", jList jV conc),
      ("on_line", jBool (decide (conc.map (fun x => calibrate g c (x.map (fun q => g * q + c))) = conc)))])
  | "c06.calibrate_data" =>
    -- an array of responses as the data array holds them (every element the exact rational its dtype denotes:
    -- integer counts, binary32, binary64): model = the code's arithmetic, spec = the pure formula (r − c)/g
    -- (`calibrate_is_formula`), `on_line` = every specified value is the concentration at which its response lies
    -- on the line (`calibrate_eq_iff_on_line` / `onLine_calibrate` evaluated on this case)
    let g ← getRat req "gradient"
    let c ← getRat req "intercept"
    let resp ← getList (asOpt asRat) req "responses"
    let spec := resp.map (specCalibrate g c)
    pure (jObj [
      ("model", jList jV (resp.map (calibrate g c))),
      ("spec", jList jV spec),
      ("identity", jBool (decide (g = 1 ∧ c = 0))),
      ("on_line", jBool ((List.zip resp spec).all (fun p => onLine g c p.1 p.2)))])
  | "c06.session" =>
    -- several operations on one object (`Pew.Calib.Step`, `run`, `finalState`): the object starts with the line
    -- given to the constructor; reported per step: the line the object holds after it, and for a calibrate step
    -- the array `run` returns for it
    let g0 ← getRat req "gradient"
    let c0 ← getRat req "intercept"
    let init : Fit := { identityFit with gradient := g0, intercept := c0 }
    let mut steps : List Step := []
    let mut infos : List (Json × Fit × Bool) := []
    for j in ← getList pure req "steps" do
      let st := finalState init steps
      let (ss, info) ← sessionStep st j
      steps := steps ++ ss
      infos := infos ++ [(info, finalState init steps, ss matches [.calibrate _])]
    let outs := run init steps
    if outs.length ≠ (infos.filter (·.2.2)).length then throw "session: outputs and calibrate steps differ in number"
    let mut k := 0
    let mut res : List Json := []
    for (info, st, isCal) in infos do
      let line := [("gradient", jRat st.gradient), ("intercept", jRat st.intercept),
                   ("identity", jBool (decide (st.gradient = 1 ∧ st.intercept = 0)))]
      if isCal then
        res := res ++ [info.mergeObj (jObj (("model", jList jV (outs.getD k [])) :: line))]
        k := k + 1
      else
        res := res ++ [info.mergeObj (jObj line)]
    pure (jObj [("steps", Json.arr res.toArray)])
  | _ => throw s!"unknown op {op}"

end PewDriver.C06
