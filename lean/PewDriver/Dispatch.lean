import PewDriver.Util
import PewDriver.C01
import PewDriver.C02
import PewDriver.C03
import PewDriver.C04
import PewDriver.C05
import PewDriver.C06
import PewDriver.C07
import PewDriver.C08
import PewDriver.C09
import PewDriver.C10
import PewDriver.C11
import PewDriver.C12
import PewDriver.C13
import PewDriver.C14
import PewDriver.C15
import PewDriver.C16
import PewDriver.C17
import PewDriver.C18
import PewDriver.C19
import PewDriver.C20
open Lean
namespace PewDriver

/-- op names are `cNN.<name>`; each property module exports `handle : String → Json → R Json`. -/
def dispatch (op : String) (req : Json) : R Json :=
  match (op.take 3).toString with
  | "c01" => C01.handle op req
  | "c02" => C02.handle op req
  | "c03" => C03.handle op req
  | "c04" => C04.handle op req
  | "c05" => C05.handle op req
  | "c06" => C06.handle op req
  | "c07" => C07.handle op req
  | "c08" => C08.handle op req
  | "c09" => C09.handle op req
  | "c10" => C10.handle op req
  | "c11" => C11.handle op req
  | "c12" => C12.handle op req
  | "c13" => C13.handle op req
  | "c14" => C14.handle op req
  | "c15" => C15.handle op req
  | "c16" => C16.handle op req
  | "c17" => C17.handle op req
  | "c18" => C18.handle op req
  | "c19" => C19.handle op req
  | "c20" => C20.handle op req
  | "pin" => pure (jObj [("pong", jBool true)])
  | _ => throw s!"unknown op {op}"

def handleLine (line : String) : String :=
  match Json.parse line with
  | .error e => (jObj [("error", jStr s!"parse: {e}")]).compress
  | .ok req =>
    let idj := (req.getObjVal? "id").toOption.getD Json.null
    match req.getObjVal? "op" >>= asStr with
    | .error e => (jObj [("id", idj), ("error", jStr e)]).compress
    | .ok op =>
      match dispatch op req with
      | .ok r => (r.setObjVal! "id" idj).compress
      | .error e => (jObj [("id", idj), ("error", jStr e)]).compress

end PewDriver
