import PewDriver.Util
import PewModel.Sync
open Lean
namespace PewDriver.C08
open PewDriver Pew.Sync

def parseDir (s : String) : R Dir :=
  match s with
  | "lr" => pure .lr
  | "rl" => pure .rl
  | "tb" => pure .tb
  | "bt" => pure .bt
  | _ => throw s!"bad direction {s}"

def parseLine (j : Json) : R LineSpec := do
  pure { gap := ← getNat j "gap", gapSamples := ← getNat j "gap_samples", moves := ← getNat j "moves" }

def parsePattern (j : Json) : R Pattern := do
  pure { seq := ← getInt j "seq", dir := ← getStr j "dir" >>= parseDir, serp := ← getBool j "serp",
         X := ← getInt j "X", Y := ← getInt j "Y", sxu := ← getNat j "sxu", syu := ← getNat j "syu",
         circular := ← getBool j "circular", npix := ← getNat j "npix", dwell := ← getNat j "dwell",
         lines := ← getList parseLine j "lines" }

def parseAcq (j : Json) : R Acq := do
  pure { patterns := ← getList parsePattern j "patterns", phase := ← getRat j "phase",
         tailGap := ← getNat j "tail_gap", tailSamples := ← getNat j "tail_samples",
         skip := ← getNat j "skip", take := ← getNat j "take", t0 := ← getRat j "t0" }

def parseRow (j : Json) : R Row := do
  pure { time := ← getInt j "time", seq := ← getInt j "seq", x := ← getInt j "x", y := ← getInt j "y",
         on := ← getBool j "on", spot := ← getStr j "spot" }

def jRow (r : Row) : Json :=
  jObj [("time", jInt r.time), ("seq", jInt r.seq), ("x", jInt r.x), ("y", jInt r.y),
        ("on", jBool r.on), ("spot", jStr r.spot)]

def jImg (img : List (List (Option Nat))) : Json := jList (jList (jOpt jNat)) img

def jResult (r : Except String Result) : Json :=
  match r with
  | .error e => jObj [("raises", jStr e)]
  | .ok r => jObj [("shape", jList jNat [r.height, r.width]), ("pixels", jImg r.pixels),
                   ("origin", jList jInt [r.origin.1, r.origin.2]), ("spot", jList jRat r.spot)]

def parseSel (req : Json) : R (Option (List Int)) := do
  let s ← fld req "sel"
  match s with
  | .null => pure none
  | .arr _ => some <$> asList asInt s
  | _ => (fun i => some [i]) <$> asInt s

def handle (op : String) (req : Json) : R Json := do
  match op with
  | "c08.case" =>
    -- render the acquisition (specification), write the log as text, run the mechanism on the text and the signal
    let a ← fld req "acq" >>= parseAcq
    let sel ← parseSel req
    let squeeze ← getBool req "squeeze"
    -- one list per element of the signal: the indices of the samples that are NaN in that element
    let nan ← getList (asList asNat) req "nan"
    let masks : List (Nat → Bool) := nan.map (fun l => fun k => l.contains k)
    let isnan := allNan masks
    -- ms from 1970-01-01 00:00 to laser clock 0
    let base ← getInt req "base"
    match render a sel with
    | none => pure (jObj [("rendered", jBool false)])
    | some rd =>
      let textOk := textHyp base rd.rows
      -- the one part of `textHyp` that is a limit of the reader, not of the instrument: 32 characters of spot size (U32 since 134845c)
      let spotOk := rd.rows.all (fun r => decide (r.spot.toList.length ≤ 32))
      let truthOk := truthHyp a sel
      let hyp := truthOk && textOk
      -- how the caller holds the signal (array shape) and describes its clock (stamps / interval)
      let shape ← getList asNat req "shape"
      let clock ← getStr req "clock"
      let interval := a.interval rd.times
      let shapeOk := dataSize shape == rd.times.length
      let clk ← match clock, interval with
        | "stamps", _ => pure (Clock.stamps rd.times)
        | "interval", some dt => pure (Clock.interval dt)
        | "interval", none => pure (Clock.stamps rd.times)   -- not a uniformly sampled signal: reported, not compared
        | c, _ => throw s!"bad clock {c}"
      let lines := renderLog base (withExtras false rd.rows)
      let model := syncText lines sel shape clk rd.delay isnan squeeze
      let box := truthBox a sel
      let full := truthImage a sel box.1 box.2
      let specImg := if squeeze then (squeezeSpec isnan box.2 full, (keptCols isnan box.2 full).length) else (full, box.2)
      let o := truthOrigin a sel
      let spot : List Rat := match (selectedPatterns a sel).head? with
        | some p => [(p.sxu : Rat) / 10000, (p.syu : Rat) / 10000]
        | none => []
      pure (jObj [("rendered", jBool true), ("hyp", jBool hyp), ("truth_ok", jBool truthOk), ("text_ok", jBool textOk), ("spot_ok", jBool spotOk),
        ("interval", jOpt jRat interval), ("shape_ok", jBool shapeOk),
        ("rows", jList jRow rd.rows), ("lines", jList (fun l => jStr (String.ofList l)) lines),
        ("times", jList jRat rd.times), ("delay", jRat rd.delay),
        ("model", jResult model),
        ("spec", jObj [("shape", jList jNat [specImg.1.length, specImg.2]), ("pixels", jImg specImg.1),
                       ("origin", jList jInt [o.1, o.2]), ("spot", jList jRat spot)])])
  | "c08.rows" =>
    -- the log rows of an acquisition alone (the harness places the date of the run relative to them)
    let a ← fld req "acq" >>= parseAcq
    let sel ← parseSel req
    match render a sel with
    | none => pure (jObj [("rendered", jBool false)])
    | some rd => pure (jObj [("rendered", jBool true), ("rows", jList jRow rd.rows)])
  | "c08.sync" =>
    -- the mechanism alone on an explicit log and signal
    let rows ← getList parseRow req "rows"
    let sel ← parseSel req
    -- the clock: `times` = list of stamps, or `interval` = seconds per sample; `shape` = data.shape
    let shape ← getList asNat req "shape"
    let clk ← match (← fld req "interval") with
      | .null => Clock.stamps <$> getList asRat req "times"
      | j => Clock.interval <$> asRat j
    let delay ← getRat req "delay"
    let squeeze ← getBool req "squeeze"
    let nan ← getList (asList asNat) req "nan"
    let isnan := allNan (nan.map (fun l => fun k => l.contains k))
    pure (jObj [("model", jResult (syncClock rows sel shape clk delay isnan squeeze))])
  | "c08.parse" =>
    -- the reader alone on explicit data lines: the rows it returns (null = a line that cannot be read)
    let lines ← getList asStr req "lines"
    pure (jObj [("rows", jOpt (jList jRow) (parseLog (lines.map String.toList)))])
  | "c08.stamp" =>
    let t ← getNat req "t"
    pure (jObj [("text", jStr (String.ofList (fmtStamp t))), ("back", jOpt jNat (parseStamp (fmtStamp t)))])
  | "c08.pix" =>
    let q ← getRat req "q"
    pure (jObj [("round6trunc", jInt (pixIdx q)), ("trunc", jInt (pixIdxTrunc q))])
  | _ => throw s!"unknown op {op}"

end PewDriver.C08
