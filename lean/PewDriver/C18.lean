import PewDriver.Util
import PewModel.Convolve
open Lean
namespace PewDriver.C18
open PewDriver Pew.Convolve

def jRats (l : List Rat) : Json := jList jRat l

/-- a rational square root good to 30 significant digits (`⌊√(n·d·10⁶⁰)⌋ / (d·10³⁰)` for `q = n/d > 0`, 0 for
`q ≤ 0`): the value the driver gives the opaque `sqrt` parameter of `erfinvWith` -/
def sqrtQ (q : Rat) : Rat :=
  if q ≤ 0 then 0
  else
    let n := q.num.toNat
    let d := q.den
    ((Nat.sqrt (n * d * 10 ^ 60) : Nat) : Rat) / ((d * 10 ^ 30 : Nat) : Rat)

/-- `erfinvWith` over `Rat` with π and the value of `log1p(-x·x)` supplied by the caller and `sqrtQ` for sqrt -/
def erfinvRat (pi l x : Rat) : Rat :=
  erfinvWith (K := Rat) ⟨id, pi, fun _ => l, sqrtQ⟩ x

def handle (op : String) (req : Json) : R Json := do
  match op with
  | "c18.convolve" =>
    let x ← getList asRat req "x"
    let psf ← getList asRat req "psf"
    if psf.isEmpty || x.isEmpty then throw "empty input"
    let m := psf.length
    let n := x.length
    let out := convolvePad x psf
    -- specification: length, ordinary convolution away from the edges, constants reproduced
    let shiftC := m - 1 - m / 2
    let interior := (List.range n).filter (fun k => decide (m / 2 ≤ k) && decide (k + shiftC < n))
    let const : Option Rat :=
      match x with
      | c :: rest => if rest.all (· == c) && psf.sum == 1 then some c else none
      | [] => none
    -- the modes handed straight to numpy (n ≥ m): full, valid, same (= full[(m-1)/2 ..][:n])
    let full := fullConv x psf
    pure (jObj [("model", jRats out),
                ("full", jRats full), ("valid", jRats (convValid x psf)),
                ("same", jRats ((full.drop ((m - 1) / 2)).take (max n m))),
                ("spec", jObj [("length", jNat n),
                               ("interior", jList (fun k => jList id [jNat k, jRat (fullConvAt x psf (k + shiftC))]) interior),
                               ("constant", jOpt jRat const)])])
  | "c18.deconv" =>
    let x ← getList asRat req "x"
    let psf ← getList asRat req "psf"
    if psf.isEmpty || x.isEmpty then throw "empty input"
    let c := fullConv x psf
    -- specification (deconvolve_fullConv): the leading n − 2 samples of the signal
    pure (jObj [("c", jRats c), ("model", jRats (deconvolve c psf)), ("model_same", jRats (deconvolveSame c psf)),
                ("terminates", jBool (quotientTerminates c psf)),
                ("spec", jRats (x.take (x.length - 2)))])
  | "c18.deconv_raw" =>
    -- any input array, a full convolution or not (inputs no longer than the kernel included)
    let c ← getList asRat req "c"
    let psf ← getList asRat req "psf"
    if psf.isEmpty || c.isEmpty then throw "empty input"
    pure (jObj [("model", jRats (deconvolve c psf)), ("model_same", jRats (deconvolveSame c psf)),
                ("terminates", jBool (quotientTerminates c psf)),
                ("r", jNat (nextPow2 (max c.length psf.length)))])
  | "c18.erfinv" =>
    let xs ← getList asRat req "xs"
    let ls ← getList asRat req "ls"
    let pi ← getRat req "pi"
    if xs.length != ls.length then throw "xs and ls differ in length"
    let vals := (xs.zip ls).map (fun (x, l) => erfinvRat pi l x)
    let negs := (xs.zip ls).map (fun (x, l) => erfinvRat pi l (-x))
    pure (jObj [("model", jRats vals), ("model_neg", jRats negs)])
  | "c18.erf" =>
    let xs ← getList asRat req "xs"
    pure (jObj [("model", jRats (xs.map erfApprox))])
  | "c18.gamma" =>
    let xs ← getList asRat req "xs"
    pure (jObj [("model", jRats (xs.map gammaApprox))])
  | "c18.axis" =>
    let kind ← getStr req "kind"
    let size ← getNat req "size"
    let scale ← getRat req "scale"
    let shift ← getRat req "shift"
    let ax ← match kind with
      | "sym" => pure (axisSym size scale shift)
      | "pos" => pure (axisPos size scale shift)
      | "unit" => pure (axisUnit size scale shift)
      | _ => throw s!"bad axis kind {kind}"
    pure (jObj [("x", jRats ax)])
  | "c18.triangular" =>
    let size ← getNat req "size"
    let a ← getRat req "a"
    let b ← getRat req "b"
    let scale ← getRat req "scale"
    let shift ← getRat req "shift"
    let rows := triangular size a b scale shift
    -- decidable hypotheses of `triangular_spec`
    let inside := (axisSym size scale shift).any (fun v => decide (a < v) && decide (v < b))
    pure (jObj [("x", jRats (rows.map Prod.fst)), ("y", jRats (rows.map Prod.snd)),
                ("hyp", jBool (decide (a < b) && inside))])
  | _ => throw s!"unknown op {op}"

end PewDriver.C18
