import PewDriver.Util
import PewModel.Convolve
open Lean
namespace PewDriver.C18
open PewDriver Pew.Convolve

def jRats (l : List Rat) : Json := jList jRat l

/-- a rational square root good to 30 significant digits (`⌊√(n·d·10⁶⁰)⌋ / (d·10³⁰)` for `q = n/d > 0`, 0 for
`q ≤ 0`): the value the driver gives the opaque `sqrt` parameter of `erfinvWith` -/
def sqrtQ (q : Rat) : Rat :=
  if q ≤ 0 then 0
  else
    let n := q.num.toNat
    let d := q.den
    ((Nat.sqrt (n * d * 10 ^ 60) : Nat) : Rat) / ((d * 10 ^ 30 : Nat) : Rat)

/-! ## 40-digit values for the opaque functions of `Special` (driver only: what the parameters are given when a
kernel generator is evaluated; partial values `none` = overflow / outside the domain of the function) -/

def SC : Nat := 10 ^ 45
def toFx (q : Rat) : Int := (q * (SC : Rat)).floor
def ofFx (i : Int) : Rat := (i : Rat) / (SC : Rat)

def ln2Q : Rat :=
  ((693147180559945309417232121458176568075500134360255254120680009493393621969694715605863326996418687 : Nat) : Rat)
    / ((10 ^ 99 : Nat) : Rat)

def s2piQ : Rat :=
  ((2506628274631000502415765284811045253006986740609938316629923576342293654607841974946595838378057266 : Nat) : Rat)
    / ((10 ^ 99 : Nat) : Rat)

/-- Taylor series of `exp` on `[0, ln 2)`, fixed point -/
def expSmall (r : Rat) : Rat :=
  let rf := toFx r
  let (_, s) := (List.range 70).foldl
    (fun (ts : Int × Int) (i : Nat) =>
      let t := ts.1 * rf / ((SC : Int) * ((i : Int) + 1))
      (t, ts.2 + t)) ((SC : Int), (SC : Int))
  ofFx s

/-- `exp q = 2^k · exp r`, `r = q − k ln 2 ∈ [0, ln 2)`; below −3000 the value is 0 (a double is 0 below −745.2),
above 3000 it overflows -/
def expQ (q : Rat) : Option Rat :=
  if q > 3000 then none
  else if q < -3000 then some 0
  else
    let k : Int := (q / ln2Q).floor
    let e := expSmall (q - (k : Rat) * ln2Q)
    some (if k ≥ 0 then e * (2 : Rat) ^ k.toNat else e / (2 : Rat) ^ (-k).toNat)

/-- `log x = k ln 2 + 2 artanh((m − 1)/(m + 1))`, `x = 2^k m`, `m ∈ [3/4, 3/2)` -/
def logQ (x : Rat) : Option Rat :=
  if x ≤ 0 then none
  else
    let k0 : Int := (Nat.log2 x.num.toNat : Int) - (Nat.log2 x.den : Int)
    let scale (k : Int) : Rat := if k ≥ 0 then x / (2 : Rat) ^ k.toNat else x * (2 : Rat) ^ (-k).toNat
    let m0 := scale k0
    let k : Int := if m0 ≥ 3 / 2 then k0 + 1 else if m0 < 3 / 4 then k0 - 1 else k0
    let m := scale k
    let z := toFx ((m - 1) / (m + 1))
    let z2 := z * z / (SC : Int)
    let (_, s) := (List.range 45).foldl
      (fun (ps : Int × Int) (i : Nat) => (ps.1 * z2 / (SC : Int), ps.2 + ps.1 / (2 * (i : Int) + 1))) (z, 0)
    some ((k : Rat) * ln2Q + 2 * ofFx s)

/-- `x ** y` -/
def rpowQ (x y : Rat) : Option Rat :=
  if x > 0 then (logQ x).bind (fun l => expQ (y * l))
  else if x == 0 then (if y == 0 then some 1 else if y > 0 then some 0 else none)
  else none

/-- the driver's number type for the eight transcendental densities: `none` = outside the domain of a function /
overflow, `some q` with `q` a dyadic rational carrying a 256-bit mantissa.  EVERY operation is rounded to 256
bits (`rnd`): the values stay dyadic, so that sums over a thousand axis points do not accumulate a common
denominator of tens of thousands of digits.  (The opaque functions are good to 40 digits; 256 bits = 77 digits.) -/
abbrev XR := Option Rat

/-- round towards −∞ to a 256-bit mantissa: `⌊q · 2^(256 − e)⌋ / 2^(256 − e)`, `e ≈ log₂ |q|` -/
def rnd (q : Rat) : Rat :=
  if q.num == 0 then 0
  else
    let e : Int := (Nat.log2 q.num.natAbs : Int) - (Nat.log2 q.den : Int)
    let k : Int := 256 - e
    if k ≥ 0 then
      let p : Nat := 2 ^ k.toNat
      ((q * (p : Rat)).floor : Rat) / (p : Rat)
    else
      let p : Nat := 2 ^ (-k).toNat
      (((q / (p : Rat)).floor : Int) : Rat) * (p : Rat)

instance : Add XR := ⟨fun a b => a.bind fun x => b.map fun y => rnd (x + y)⟩
instance : Sub XR := ⟨fun a b => a.bind fun x => b.map fun y => rnd (x - y)⟩
instance : Mul XR := ⟨fun a b => a.bind fun x => b.map fun y => rnd (x * y)⟩
instance : Neg XR := ⟨fun a => a.map fun x => -x⟩
instance : Zero XR := ⟨some 0⟩
instance : Div XR := ⟨fun a b => a.bind fun x => b.bind fun y => if y == 0 then none else some (rnd (x / y))⟩

def specialQ : Special XR where
  ofRat := fun q => some (rnd q)
  exp := fun t => (t.bind expQ).map rnd
  log := fun t => (t.bind logQ).map rnd
  rpow := fun a b => (a.bind fun x => b.bind fun y => rpowQ x y).map rnd
  abs := fun t => t.map absR
  s2pi := some (rnd s2piQ)

/-- `erfinvWith` over `Rat` with π and the value of `log1p(-x·x)` supplied by the caller and `sqrtQ` for sqrt -/
def erfinvRat (pi l x : Rat) : Rat :=
  erfinvWith (K := Rat) ⟨id, pi, fun _ => l, sqrtQ⟩ x

/-- a generator by name: axis kind, density, factors of the density (both as modelled, the opaque functions at 40
digits), the location that is subtracted from `x` (0 if none) and whether the density goes through `log x − mu` -/
structure Gen where
  /-- the generator itself (`beta`, `exponential`, … of `PewModel/Convolve.lean`: the subject of `*_isKernel`) -/
  rows : Nat → Rat → Rat → List (Rat × XR)
  kind : AxisKind
  pdf : Rat → XR
  factors : Rat → List XR
  /-- other intermediate values of the coded expression (operands of a quotient that forms one factor: `σ·√(2π)`,
  `2·b·x`, `βᵅ`, `Γ(α)·Γ(β)`, …): each must stay a finite non-zero double for the factor to be what the model says -/
  aux : Rat → List XR
  loc : Rat
  logk : Bool

def genOf (name : String) (args : List Rat) : R Gen := do
  let a0 := args.getD 0 0
  let a1 := args.getD 1 0
  let need (k : Nat) : R Unit := if args.length == k then pure () else throw s!"{name}: {k} parameters expected"
  match name with
  | "beta" => do need 2; pure ⟨fun n sc sh => beta specialQ n a0 a1 sc sh, .unit, betaPdf specialQ a0 a1, betaFactors specialQ a0 a1,
      fun _ => [some (gammaApprox a0), some (gammaApprox a1), some (gammaApprox a0 * gammaApprox a1), some (gammaApprox (a0 + a1)),
                some (gammaApprox a0 * gammaApprox a1 / gammaApprox (a0 + a1))], 0, false⟩
  | "exponential" => do need 1; pure ⟨fun n sc sh => exponential specialQ n a0 sc sh, .pos, exponentialPdf specialQ a0, exponentialFactors specialQ a0, fun _ => [], 0, false⟩
  | "inversegamma" => do need 2; pure ⟨fun n sc sh => inversegamma specialQ n a0 a1 sc sh, .pos, inversegammaPdf specialQ a0 a1, inversegammaFactors specialQ a0 a1,
      fun _ => [specialQ.rpow (some a1) (some a0), some (gammaApprox a0)], 0, false⟩
  | "laplace" => do need 2; pure ⟨fun n sc sh => laplace specialQ n a0 a1 sc sh, .sym, laplacePdf specialQ a0 a1, laplaceFactors specialQ a0 a1, fun _ => [some (2 * a0)], a1, false⟩
  | "loglaplace" => do need 2; pure ⟨fun n sc sh => loglaplace specialQ n a0 a1 sc sh, .pos, loglaplacePdf specialQ a0 a1, loglaplaceFactors specialQ a0 a1, fun x => [some (2 * a0), some (2 * a0 * x)], a1, true⟩
  | "lognormal" => do need 2; pure ⟨fun n sc sh => lognormal specialQ n a0 a1 sc sh, .pos, lognormalPdf specialQ a0 a1, lognormalFactors specialQ a0 a1, fun x => [some (x * a0), some (x * a0 * s2piQ)], a1, true⟩
  | "normal" => do need 2; pure ⟨fun n sc sh => normal specialQ n a0 a1 sc sh, .sym, normalPdf specialQ a0 a1, normalFactors specialQ a0 a1, fun _ => [some (a0 * s2piQ)], a1, false⟩
  | "super_gaussian" => do
      need 3
      let p := args.getD 2 0
      if p.den != 1 || p < 0 then throw "super_gaussian: integer power expected"
      pure ⟨fun n sc sh => superGaussian specialQ n a0 a1 p.num.toNat sc sh, .sym, superGaussianPdf specialQ a0 a1 p.num.toNat, superGaussianFactors specialQ a0 a1 p.num.toNat,
            fun _ => [some (a0 * s2piQ)], a1, false⟩
  | _ => throw s!"unknown generator {name}"

def allSome (l : List XR) : Option (List Rat) := l.mapM id

/-- how far the point at which a double-precision evaluation really samples the density may lie from the exact
axis point `x`: the rounding of `linspace` and of `x − loc` (`2⁻⁴⁰` of the largest magnitude involved, 4000 ulp)
and, for the densities that go through `log x − mu`, the rounding of that difference expressed as a relative
change of `x` -/
def tailDelta (g : Gen) (axis : List Rat) (x : Rat) : Rat :=
  let big := axis.foldl (fun m v => max m (absR v)) 0 + absR g.loc
  big / 2 ^ 40 + (if g.logk then absR x * (1 + absR g.loc) / 2 ^ 36 else 0)

/-- THE DECISION "the float sum of the densities is positive and finite" (specification side, nothing of the
implementation is looked at): `robust` = at the axis point of largest modelled density, and at that point moved
by `± tailDelta`, every product of a sub-collection of the factors lies in `[8·2⁻¹⁰⁷⁴, 2¹⁰⁰⁰]`
(`robustFactors`, `robustFactors_spec`); `overflow` = at some axis point a factor leaves the domain of its
function, a sub-product exceeds `2¹⁰⁰⁰` (an `inf` may appear, and `inf · 0 = nan`) or an operand inside a factor
(`aux`) leaves `[2⁻¹⁰⁰⁰, 2¹⁰⁰⁰]`. -/
def tailDecision (g : Gen) (axis : List Rat) : Json :=
  let dens := axis.map g.pdf
  let best : Option (Rat × Rat) := (axis.zip dens).foldl
    (fun acc (x, d) => match d, acc with
      | some v, some (_, bv) => if bv < v then some (x, v) else acc
      | some v, none => some (x, v)
      | none, _ => acc) none
  let facs := axis.map (fun x => allSome (g.factors x))
  let auxBad (x : Rat) : Bool := (g.aux x).any (fun v => match v with
    | none => true
    | some q => decide (tailHi < absR q) || decide (absR q < 1 / tailHi))
  let overflow := facs.any (fun f => match f with | none => true | some fs => overflowFactors fs) || axis.any auxBad
  let robustAt (x : Rat) : Bool := match allSome (g.factors x) with
    | none => false
    | some fs => robustFactors fs
  let (robust, delta) : Bool × Rat := match best with
    | none => (false, 0)
    | some (x, _) =>
      let d := tailDelta g axis x
      -- the end points of `linspace` are exact, no sampled point lies outside them
      let lo := axis.foldl min x
      let hi := axis.foldl max x
      (robustAt x && robustAt (max lo (x - d)) && robustAt (min hi (x + d)), d)
  let dsum : Option Rat := (allSome dens).map List.sum
  -- how much an absolute error of one subnormal step in an intermediate product may be magnified by the factors
  -- above 1 that are multiplied in afterwards (for the tolerance of the weight-by-weight comparison only)
  let amp : Rat := facs.foldl (fun m f => match f with
    | none => m
    | some fs => max m (fs.foldl (fun p v => p * max 1 v) 1)) 1
  jObj [("robust", jBool robust), ("overflow", jBool overflow), ("delta", jRat delta),
        ("dsum", jOpt jRat dsum), ("amp", jRat amp), ("dmax", jOpt jRat (best.map Prod.snd)),
        ("best_x", jOpt jRat (best.map Prod.fst))]

def handle (op : String) (req : Json) : R Json := do
  match op with
  | "c18.convolve" =>
    let x ← getList asRat req "x"
    let psf ← getList asRat req "psf"
    if psf.isEmpty || x.isEmpty then throw "empty input"
    let m := psf.length
    let n := x.length
    let out := convolvePad x psf
    -- specification: length, ordinary convolution away from the edges, constants reproduced
    let shiftC := m - 1 - m / 2
    let interior := (List.range n).filter (fun k => decide (m / 2 ≤ k) && decide (k + shiftC < n))
    let const : Option Rat :=
      match x with
      | c :: rest => if rest.all (· == c) && psf.sum == 1 then some c else none
      | [] => none
    -- the modes handed straight to numpy: full, valid, same (= full[(min n m - 1)/2 ..][: max n m]; numpy swaps the
    -- arguments when the kernel is the longer one)
    let full := fullConv x psf
    pure (jObj [("model", jRats out),
                ("full", jRats full), ("valid", jRats (convValid x psf)),
                ("same", jRats ((full.drop ((min n m - 1) / 2)).take (max n m))),
                ("entries", jRats (padConvSpec x psf)),
                ("spec", jObj [("length", jNat n),
                               ("interior", jList (fun k => jList id [jNat k, jRat (fullConvAt x psf (k + shiftC))]) interior),
                               ("constant", jOpt jRat const)])])
  | "c18.deconv" =>
    let x ← getList asRat req "x"
    let psf ← getList asRat req "psf"
    if psf.isEmpty || x.isEmpty then throw "empty input"
    let c := fullConv x psf
    -- specification (deconvolve_fullConv): the leading n − 2 samples of the signal
    pure (jObj [("c", jRats c), ("model", jRats (deconvolve c psf)), ("model_same", jRats (deconvolveSame c psf)),
                ("terminates", jBool (quotientTerminates c psf)),
                ("spec", jRats (x.take (x.length - 2)))])
  | "c18.deconv_raw" =>
    -- any input array, a full convolution or not (inputs no longer than the kernel included)
    let c ← getList asRat req "c"
    let psf ← getList asRat req "psf"
    if psf.isEmpty || c.isEmpty then throw "empty input"
    pure (jObj [("model", jRats (deconvolve c psf)), ("model_same", jRats (deconvolveSame c psf)),
                ("terminates", jBool (quotientTerminates c psf)),
                ("r", jNat (nextPow2 (max c.length psf.length)))])
  | "c18.erfinv" =>
    let xs ← getList asRat req "xs"
    let ls ← getList asRat req "ls"
    let pi ← getRat req "pi"
    if xs.length != ls.length then throw "xs and ls differ in length"
    let vals := (xs.zip ls).map (fun (x, l) => erfinvRat pi l x)
    let negs := (xs.zip ls).map (fun (x, l) => erfinvRat pi l (-x))
    pure (jObj [("model", jRats vals), ("model_neg", jRats negs)])
  | "c18.erf" =>
    let xs ← getList asRat req "xs"
    pure (jObj [("model", jRats (xs.map erfApprox))])
  | "c18.gamma" =>
    let xs ← getList asRat req "xs"
    pure (jObj [("model", jRats (xs.map gammaApprox))])
  | "c18.gamma_int" =>
    -- integer arguments n ≥ 1 (whatever type carries them): the approximation as coded and the specification
    -- Γ(n) = (n − 1)! (`gammaApprox_nat`: the two agree exactly)
    let ns ← getList asNat req "ns"
    if ns.any (· == 0) then throw "gamma_int: arguments must be positive integers"
    pure (jObj [("model", jRats (ns.map (fun n => gammaApprox ((n : Nat) : Rat)))),
                ("spec", jList jNat (ns.map (fun n => fact (n - 1))))])
  | "c18.axis" =>
    let kind ← getStr req "kind"
    let size ← getNat req "size"
    let scale ← getRat req "scale"
    let shift ← getRat req "shift"
    let ax ← match kind with
      | "sym" => pure (axisSym size scale shift)
      | "pos" => pure (axisPos size scale shift)
      | "unit" => pure (axisUnit size scale shift)
      | _ => throw s!"bad axis kind {kind}"
    pure (jObj [("x", jRats ax)])
  | "c18.triangular" =>
    let size ← getNat req "size"
    let a ← getRat req "a"
    let b ← getRat req "b"
    let scale ← getRat req "scale"
    let shift ← getRat req "shift"
    let rows := triangular size a b scale shift
    -- decidable hypotheses of `triangular_spec`
    let inside := (axisSym size scale shift).any (fun v => decide (a < v) && decide (v < b))
    pure (jObj [("x", jRats (rows.map Prod.fst)), ("y", jRats (rows.map Prod.snd)),
                ("hyp", jBool (decide (a < b) && inside))])
  | "c18.kernel" =>
    -- a generator as modelled, the opaque functions at 40 digits; y = null when a value left the functions' domain;
    -- tail = the decision whether a double-precision evaluation of the densities has a positive finite sum
    let name ← getStr req "name"
    let size ← getNat req "size"
    let args ← getList asRat req "args"
    let scale ← getRat req "scale"
    let shift ← getRat req "shift"
    let g ← genOf name args
    let rows : List (Rat × XR) := g.rows size scale shift
    let ys := rows.map Prod.snd
    let y : Option (List Rat) := if ys.all Option.isSome then some (ys.map (·.getD 0)) else none
    pure (jObj [("x", jRats (rows.map Prod.fst)), ("y", jOpt jRats y),
                ("tail", tailDecision g (axisOf g.kind size scale shift))])
  | _ => throw s!"unknown op {op}"

end PewDriver.C18
