import PewDriver.Util
import PewModel.Convolve
open Lean
namespace PewDriver.C18
open PewDriver Pew.Convolve

def jRats (l : List Rat) : Json := jList jRat l

def handle (op : String) (req : Json) : R Json := do
  match op with
  | "c18.convolve" =>
    let x ← getList asRat req "x"
    let psf ← getList asRat req "psf"
    if psf.isEmpty || x.isEmpty then throw "empty input"
    let m := psf.length
    let n := x.length
    let out := convolvePad x psf
    -- specification: length, ordinary convolution away from the edges, constants reproduced
    let shiftC := m - 1 - m / 2
    let interior := (List.range n).filter (fun k => decide (m / 2 ≤ k) && decide (k + shiftC < n))
    let const : Option Rat :=
      match x with
      | c :: rest => if rest.all (· == c) && psf.sum == 1 then some c else none
      | [] => none
    -- the modes handed straight to numpy (n ≥ m): full, valid, same (= full[(m-1)/2 ..][:n])
    let full := fullConv x psf
    pure (jObj [("model", jRats out),
                ("full", jRats full), ("valid", jRats (convValid x psf)),
                ("same", jRats ((full.drop ((m - 1) / 2)).take (max n m))),
                ("spec", jObj [("length", jNat n),
                               ("interior", jList (fun k => jList id [jNat k, jRat (fullConvAt x psf (k + shiftC))]) interior),
                               ("constant", jOpt jRat const)])])
  | "c18.deconv" =>
    let x ← getList asRat req "x"
    let psf ← getList asRat req "psf"
    if psf.isEmpty || x.isEmpty then throw "empty input"
    let c := fullConv x psf
    pure (jObj [("c", jRats c), ("model", jRats (deconvolve c psf)), ("model_same", jRats (deconvolveSame c psf)),
                ("spec", jRats (x.take (c.length - psf.length - 1)))])
  | "c18.erf" =>
    let xs ← getList asRat req "xs"
    pure (jObj [("model", jRats (xs.map erfApprox))])
  | "c18.gamma" =>
    let xs ← getList asRat req "xs"
    pure (jObj [("model", jRats (xs.map gammaApprox))])
  | "c18.axis" =>
    let kind ← getStr req "kind"
    let size ← getNat req "size"
    let scale ← getRat req "scale"
    let shift ← getRat req "shift"
    let ax ← match kind with
      | "sym" => pure (axisSym size scale shift)
      | "pos" => pure (axisPos size scale shift)
      | "unit" => pure (axisUnit size scale shift)
      | _ => throw s!"bad axis kind {kind}"
    pure (jObj [("x", jRats ax)])
  | "c18.triangular" =>
    let size ← getNat req "size"
    let a ← getRat req "a"
    let b ← getRat req "b"
    let scale ← getRat req "scale"
    let shift ← getRat req "shift"
    let (x, y) := triangular size a b scale shift
    pure (jObj [("x", jRats x), ("y", jRats y)])
  | _ => throw s!"unknown op {op}"

end PewDriver.C18
