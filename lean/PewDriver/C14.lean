import PewDriver.Util
import PewModel.Colocal
import PewModel.ColocalNd
open Lean
namespace PewDriver.C14
open PewDriver Pew.Colocal

def mkImg (n0 n1 : Nat) (data : Array Rat) : Img Rat :=
  { n0 := n0, n1 := n1, get := fun i j => if i < n0 ∧ j < n1 then data.getD (i * n1 + j) 0 else 0 }

def mkMask (n0 n1 : Nat) (data : Array Bool) : Nat → Nat → Bool :=
  fun i j => if i < n0 ∧ j < n1 then data.getD (i * n1 + j) false else false

def mkNd (shape : List Nat) (data : Array Rat) : NdImg Rat :=
  { shape := shape, get := fun c => if ltAll c shape then data.getD (ravel shape c) 0 else 0 }

def mkMaskNd (shape : List Nat) (data : Array Bool) : List Nat → Bool :=
  fun c => if ltAll c shape then data.getD (ravel shape c) false else false

def flatNd (a : NdImg Rat) : List Rat := (coords a.shape).map a.get

def flat (a : Img Rat) : List Rat := (pixels a.n0 a.n1).map (fun q => a.get q.1 q.2)

/-- smallest non-zero |deviation from the mean| (for the float margin of the ICQ signs) -/
def minDev (x : List Rat) : Option Rat :=
  let m := mean x
  (x.filterMap (fun v => let d := if v - m < 0 then m - v else v - m
                         if d = 0 then none else some d)).foldl
    (fun acc d => match acc with | none => some d | some a => some (min a d)) none


/-- a large image travels as a formula: `{"lin": [a, c, m]}` is the row-major array with `a * p + c` at flat position
`p` (`m = 0`) or `(a * p) % m + c` (`m > 0`: repeated values); `{"vals": [...]}` is the plain list -/
def bigData (j : Json) (n : Nat) : R (Array Rat) := do
  match j.getObjVal? "lin" with
  | .ok l =>
    match ← asList asInt l with
    | [a, c, m] =>
      if a < 0 ∨ m < 0 then throw "lin: negative a or m"
      let a := a.toNat
      let m := m.toNat
      pure ((Array.range n).map (fun p => (((if m = 0 then a * p else (a * p) % m : Nat) : Int) + c : Int)))
    | _ => throw "lin: expected [a, c, m]"
  | .error _ =>
    let v ← getList asRat j "vals"
    if v.length ≠ n then throw "vals/shape mismatch"
    pure v.toArray

/-- run lengths, alternating, starting with `false` -/
def expandRuns (runs : List Nat) : Array Bool := Id.run do
  let mut out : Array Bool := #[]
  let mut v := false
  for r in runs do
    out := out ++ Array.replicate r v
    v := !v
  return out

/-- `[[start, count], ...]`: runs of consecutive integers -/
def expandArange (runs : List (List Nat)) : List Nat :=
  runs.flatMap (fun r => match r with
    | [s, c] => (List.range c).map (· + s)
    | _ => [])

def maskedArr (a : Array Rat) (m : Array Bool) : List Rat :=
  (List.range a.size).filterMap (fun p => if m.getD p false then some (a.getD p 0) else none)

/-- the numbers behind one Pearson coefficient, each computed once -/
structure PStats where
  n : Nat
  cov : Rat
  vx : Rat
  vy : Rat
  mxy : Rat
  mx : Rat
  my : Rat

/-- the integer values of a list of rationals that are all integers (checked by casting back) -/
def intsOf (l : List Rat) : Option (List Int) :=
  let is := l.map (·.num)
  if is.map (fun (i : Int) => (i : Rat)) == l then some is else none

/-- `cov`, `var` (as `cov x x`, theorem `var_fast`) and the three means; through integer sums when both lists are
integer-valued (theorem `cov_int`: the same numbers) -/
def pstats (xs ys : List Rat) : PStats :=
  match intsOf xs, intsOf ys with
  | some xi, some yi =>
    let mx := meanI xi
    let my := meanI yi
    let mxy := meanI (List.zipWith (· * ·) xi yi)
    { n := xs.length, cov := mxy - mx * my, vx := meanI (List.zipWith (· * ·) xi xi) - mx * mx,
      vy := meanI (List.zipWith (· * ·) yi yi) - my * my, mxy := mxy, mx := mx, my := my }
  | _, _ =>
    let mx := mean xs
    let my := mean ys
    let mxy := mean (mulL xs ys)
    { n := xs.length, cov := mxy - mx * my, vx := mean (mulL xs xs) - mx * mx, vy := mean (mulL ys ys) - my * my,
      mxy := mxy, mx := mx, my := my }

def statsJson (s : PStats) : Json :=
  jObj [("n", jNat s.n), ("cov", jRat s.cov), ("var_x", jRat s.vx), ("var_y", jRat s.vy),
        ("mean_xy", jRat s.mxy), ("mean_x", jRat s.mx), ("mean_y", jRat s.my)]

def handle (op : String) (req : Json) : R Json := do
  match op with
  | "c14.coeff" =>
    let x ← getList asRat req "x"
    let y ← getList asRat req "y"
    if x.length ≠ y.length then throw "x/y length mismatch"
    let tx ← fld req "tx" >>= asOpt asRat
    let ty ← fld req "ty" >>= asOpt asRat
    let (m1, m2) := manders x y tx ty
    pure (jObj [
      ("cov", jRat (cov x y)), ("cov_yx", jRat (cov y x)), ("cov_centred", jRat (covCentred x y)),
      ("var_x", jRat (var x)), ("var_y", jRat (var y)),
      ("mean_xy", jRat (mean (mulL x y))), ("mean_x", jRat (mean x)), ("mean_y", jRat (mean y)),
      ("r_sq", jRat (pearsonSq x y)), ("r_sign", jInt (pearsonSign x y)),
      ("icq", jRat (icq x y)), ("icq_spec", jRat (icqSpec x y)),
      ("min_dev_x", jOpt jRat (minDev x)), ("min_dev_y", jOpt jRat (minDev y)),
      ("m1", jRat m1), ("m2", jRat m2),
      ("m1_spec", jRat (mandersSpec1 x y (ty.getD (minOf y)))),
      ("m2_spec", jRat (mandersSpec1 y x (tx.getD (minOf x)))),
      ("sum_x", jRat x.sum), ("sum_y", jRat y.sum)])
  | "c14.shuffle" =>
    let n0 ← getNat req "n0"
    let n1 ← getNat req "n1"
    let xd ← getList asRat req "x"
    let md ← getList asBool req "mask"
    let b0 ← getNat req "b0"
    let b1 ← getNat req "b1"
    let padMode ← getBool req "pad"
    let part ← getBool req "partial"
    let nidx ← fld req "nidx" >>= asOpt (asList asNat)
    let outd ← fld req "out" >>= asOpt (asList asRat)
    let cC ← getBool req "c_contig"
    let fC ← getBool req "f_contig"
    if xd.length ≠ n0 * n1 ∨ md.length ≠ n0 * n1 then throw "data/shape mismatch"
    if b0 = 0 ∨ b1 = 0 then throw "zero block"
    let x := mkImg n0 n1 xd.toArray
    let mask := mkMask n0 n1 md.toArray
    let idx := shuffleIdx x mask b0 b1 padMode part
    let aliases := layoutAliases padMode cC fC
    -- the call as the code does it (the mask is copied before the in-place trim)
    let call := nidx.map (fun s => shuffleCall true aliases x mask b0 b1 padMode part s)
    let maskFlat (m : Nat → Nat → Bool) : List Bool := (pixels n0 n1).map (fun q => m q.1 q.2)
    let spec ← match outd with
      | none => pure Json.null
      | some od =>
        if od.length ≠ n0 * n1 then throw "out/shape mismatch"
        let out := mkImg n0 n1 od.toArray
        let applies := conservedApplies x b0 b1 padMode
        pure (jObj [("outside_fixed", jBool (specOutside x out mask b0 b1 padMode part)),
                    ("blocks_from_input", jBool (specBlocks x out mask b0 b1 padMode part)),
                    ("conserved_applies", jBool applies),
                    ("conserved", jBool (!applies || specConserved x out)),
                    ("blocks_permuted", jBool (!applies || specBlockMultiset x out mask b0 b1 padMode part))])
    pure (jObj [("idx", jList jNat idx), ("aliases", jBool aliases),
                ("model", jOpt (jList jRat) (call.map (fun c => flat c.ret))),
                ("x_after", jOpt (jList jRat) (call.map (fun c => flat c.xAfter))),
                ("mask_after", jList jBool (maskFlat (shuffleCall true aliases x mask b0 b1 padMode part idx).maskAfter)),
                ("spec", spec)])
  | "c14.shuffle_nd" =>
    let shape ← getList asNat req "shape"
    let block ← getList asNat req "block"
    let xd ← getList asRat req "x"
    let md ← getList asBool req "mask"
    let padMode ← getBool req "pad"
    let part ← getBool req "partial"
    let nidx ← fld req "nidx" >>= asOpt (asList asNat)
    let outd ← fld req "out" >>= asOpt (asList asRat)
    let cC ← getBool req "c_contig"
    let fC ← getBool req "f_contig"
    if block.length ≠ shape.length then throw "block/shape rank mismatch"
    if xd.length ≠ prodL shape ∨ md.length ≠ prodL shape then throw "data/shape mismatch"
    if block.any (· == 0) then throw "zero block"
    let x := mkNd shape xd.toArray
    let mask := mkMaskNd shape md.toArray
    let idx := shuffleIdxNd x mask block padMode part
    let aliases := layoutAliases padMode cC fC
    let call := nidx.map (fun s => shuffleCallNd true aliases x mask block padMode part s)
    let maskFlat (m : List Nat → Bool) : List Bool := (coords shape).map m
    let spec ← match outd with
      | none => pure Json.null
      | some od =>
        if od.length ≠ prodL shape then throw "out/shape mismatch"
        let out := mkNd shape od.toArray
        let applies := conservedAppliesNd x block padMode
        pure (jObj [("outside_fixed", jBool (specOutsideNd x out mask block padMode part)),
                    ("blocks_from_input", jBool (specBlocksNd x out mask block padMode part)),
                    ("conserved_applies", jBool applies),
                    ("conserved", jBool (!applies || specConservedNd x out))])
    pure (jObj [("idx", jList jNat idx), ("aliases", jBool aliases),
                ("model", jOpt (jList jRat) (call.map (fun c => flatNd c.ret))),
                ("x_after", jOpt (jList jRat) (call.map (fun c => flatNd c.xAfter))),
                ("mask_after", jList jBool (maskFlat (shuffleCallNd true aliases x mask block padMode part idx).maskAfter)),
                ("spec", spec)])
  | "c14.shuffle_big" =>
    -- a 2-D shuffle of any size: the specification relations in their quasi-linear forms (theorems
    -- spec_outside_fast, spec_blocks_fast: the same Booleans as specOutside / specBlocks), the certificate
    -- specApplied for the recorded permutation (theorem applied_determines_output), optionally the reference forms
    let n0 ← getNat req "n0"
    let n1 ← getNat req "n1"
    let b0 ← getNat req "b0"
    let b1 ← getNat req "b1"
    let padMode ← getBool req "pad"
    let part ← getBool req "partial"
    let cC ← getBool req "c_contig"
    let fC ← getBool req "f_contig"
    let withRef ← getBool req "reference"
    if b0 = 0 ∨ b1 = 0 then throw "zero block"
    let xd ← fld req "x" >>= (bigData · (n0 * n1))
    let md := expandRuns (← getList asNat req "mask_runs")
    if md.size ≠ n0 * n1 then throw "mask_runs/shape mismatch"
    let nidx ← fld req "nidx" >>= asOpt (asList asNat)
    let argRuns ← fld req "arg_runs" >>= asOpt (asList (asList asNat))
    let outj ← fld req "out"
    let otherj ← fld req "other"
    let x := mkImg n0 n1 xd
    let mask := mkMask n0 n1 md
    let idx := shuffleIdx x mask b0 b1 padMode part
    let aliases := layoutAliases padMode cC fC
    let other ← match otherj with
      | .null => pure none
      | j => some <$> bigData j (n0 * n1)
    let ref ← match ← fld req "ref" with
      | .null => pure none
      | j => some <$> bigData j (n0 * n1)
    let mut fields : List (String × Json) := [("n_selected", jNat idx.length), ("aliases", jBool aliases),
      ("arg_is_idx", jOpt jBool (argRuns.map (fun r => expandArange r == idx))),
      ("nidx_is_perm", jOpt jBool (nidx.map (fun s => isPermOfSorted s idx))),
      ("nidx_is_idx", jOpt jBool (nidx.map (fun s => s == idx)))]
    match outj with
    | .null =>
      fields := fields ++ [("spec", Json.null), ("applied", Json.null)]
      match other, ref with
      | some o, some rf => fields := fields ++ [("stats_ref", statsJson (pstats (maskedArr o md) (maskedArr rf md)))]
      | _, _ => pure ()
    | j =>
      let od ← bigData j (n0 * n1)
      let out := mkImg n0 n1 od
      let applies := conservedApplies x b0 b1 padMode
      let outside := specOutsideFast x out mask b0 b1 padMode part
      let blocks := specBlocksFast x out mask b0 b1 padMode part
      fields := fields ++ [("spec", jObj [("outside_fixed", jBool outside), ("blocks_from_input", jBool blocks),
                                          ("conserved_applies", jBool applies),
                                          ("conserved", jBool (!applies || specConserved x out))]),
        -- the recorded permutation applied (a block view that does not alias the array loses the assignment)
        ("applied", jOpt jBool (nidx.map (fun s =>
            outside && specApplied x out mask b0 b1 padMode part (if aliases then s else idx))))]
      if withRef then
        fields := fields ++ [("reference", jObj [("outside_fixed", jBool (specOutside x out mask b0 b1 padMode part)),
                                                 ("blocks_from_input", jBool (specBlocks x out mask b0 b1 padMode part))])]
      -- Pearson's r of a second image against this result (and against a reference image), over the mask given:
      -- what `pearsonr_probablity` computes per round; `rGt` decides `r_out > r_ref` exactly
      match other, ref with
      | some o, some rf =>
        let xs := maskedArr o md
        let ys := maskedArr rf md
        let yo := maskedArr od md
        let sr := pstats xs ys
        let so := pstats xs yo
        fields := fields ++ [("stats_ref", statsJson sr), ("stats_out", statsJson so),
          ("out_gt_ref", jBool (rGt so.cov (so.vx * so.vy) sr.cov (sr.vx * sr.vy))),
          ("out_same_as_ref", jBool (yo == ys))]
      | _, _ => pure ()
    pure (jObj fields)
  | "c14.prob_domain" =>
    let shape ← getList asNat req "shape"
    let n ← getNat req "n"
    pure (jObj [("raises", jBool (probRaises shape n))])
  | "c14.prob" =>
    let n0 ← getNat req "n0"
    let n1 ← getNat req "n1"
    let xd ← getList asRat req "x"
    let yd ← getList asRat req "y"
    let md ← getList asBool req "mask"
    let b ← getNat req "block"
    let part ← getBool req "partial"
    let yC ← getBool req "y_c_contig"
    let yF ← getBool req "y_f_contig"
    let sigmas ← getList (asList asNat) req "sigmas"
    if xd.length ≠ n0 * n1 ∨ yd.length ≠ n0 * n1 ∨ md.length ≠ n0 * n1 then throw "data/shape mismatch"
    if b = 0 then throw "zero block"
    let x := mkImg n0 n1 xd.toArray
    let y := mkImg n0 n1 yd.toArray
    let mask := mkMask n0 n1 md.toArray
    let xs := masked x mask
    let ys := masked y mask
    -- the run as the code does it: mask copied inside every call, `shuffled = y.copy()`
    let run := probRun true true yC yF y mask b part sigmas
    let steps := probStepsOf x y run
    let maskFlat (m : Nat → Nat → Bool) : List Bool := (pixels n0 n1).map (fun q => m q.1 q.2)
    pure (jObj [("idx", jList jNat (shuffleIdx y mask b b false part)),
                ("n_masked", jNat xs.length),
                ("cov", jRat (cov xs ys)), ("var_x", jRat (var xs)), ("var_y", jRat (var ys)),
                ("mean_xy", jRat (mean (mulL xs ys))), ("mean_x", jRat (mean xs)), ("mean_y", jRat (mean ys)),
                ("steps", jList (fun (s : ProbStep) =>
                    jObj [("n", jNat s.n), ("cov", jRat s.cov), ("var_x", jRat s.vx), ("var_y", jRat s.vy),
                          ("gt", jBool s.gt), ("same", jBool s.same)]) steps),
                ("mask_unchanged", jBool (maskFlat run.final.mask == maskFlat mask)),
                ("y_unchanged", jBool (flat run.final.yMem.caller == flat y)),
                ("p", jOpt jRat (probability (steps.map (·.gt))))])
  | _ => throw s!"unknown op {op}"

end PewDriver.C14
