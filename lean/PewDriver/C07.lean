import PewDriver.Util
import PewModel.LaserEdit
open Lean
namespace PewDriver.C07
open PewDriver Pew.LaserEdit

def asPair {α β : Type} (f : Json → R α) (g : Json → R β) (j : Json) : R (α × β) :=
  match j with
  | .arr #[a, b] => do pure (← f a, ← g b)
  | _ => throw s!"expected pair, got {j.compress}"

def parseLayer (j : Json) : R Layer := do
  let shape ← getList asNat j "shape"
  let fields ← getList (asPair asStr asNat) j "fields"
  pure { shape := shape, fields := fields }

def parseOp (j : Json) : R Op := do
  match ← getStr j "op" with
  | "add" => pure (.add (← getStr j "name") (← getList (asPair (asList asNat) asNat) j "data") (← getNat j "cal"))
  | "remove" => pure (.remove (← getList asStr j "names"))
  | "rename" => pure (.rename (← getList (asPair asStr asStr) j "map"))
  | "get" =>
    pure (.get (← getNat j "layer") (← fld j "target" >>= asOpt asStr) (← getBool j "calibrate"))
  | "caller_edit" => pure .callerEdit
  | o => throw s!"bad op {o}"

structure Rd where
  layer : Nat
  target : Option String
  calibrate : Bool

def parseRd (j : Json) : R Rd := do
  pure { layer := ← getNat j "layer", target := ← fld j "target" >>= asOpt asStr,
         calibrate := ← getBool j "calibrate" }

def jReadOut (r : Option ReadOut) : Json :=
  jOpt (jList (fun (e : String × Nat × Option Nat) => Json.arr #[jStr e.1, jNat e.2.1, jOpt jNat e.2.2])) r

def prod (l : List Nat) : Nat := l.foldl (· * ·) 1

def obsModel (s : State) (rds : List Rd) : Json :=
  jObj [("elements", jList jStr s.elements),
        ("cal", jList (fun (e : String × Nat) => Json.arr #[jStr e.1, jNat e.2]) s.cal),
        ("shape", jList jNat s.shape),
        ("cfg", jNat s.cfg),
        ("layers", jList (fun (l : Layer) =>
            jList (fun (e : String × Nat) => Json.arr #[jStr e.1, jNat e.2]) l.fields) s.layers),
        ("sizes", jList (fun (l : Layer) => jNat (prod l.shape)) s.layers),
        ("reads", jList (fun (r : Rd) => jReadOut (read s r.layer r.target r.calibrate)) rds)]

def obsSpec (a : Spec) (rds : List Rd) : Json :=
  jObj [("elements", jList jStr (keys a.map)),
        ("map", jList (fun (e : String × Entry) =>
            Json.arr #[jStr e.1, jList jNat e.2.1, jNat e.2.2]) a.map),
        ("shape", jList jNat a.shape),
        ("cfg", jNat a.cfg),
        ("sizes", jList (fun (sh : List Nat) => jNat (prod sh)) a.shapes),
        ("reads", jList (fun (r : Rd) => jReadOut (a.read r.layer r.target r.calibrate)) rds)]

/-- observations of the mechanism after 0, 1, … ops (`none` from the first failing op on) -/
def traceModel : Option State → List Op → List (Option State)
  | s, [] => [s]
  | s, op :: ops => s :: traceModel (s.bind (step · op)) ops

def traceSpec : Option Spec → List Op → List (Option Spec)
  | a, [] => [a]
  | a, op :: ops => a :: traceSpec (a.bind (Spec.step · op)) ops

def runOne (req : Json) : R Json := do
  let srr ← getBool req "srr"
  let layers ← getList parseLayer req "layers"
  let given ← fld req "given" >>= asOpt (asList (asPair asStr asNat))
  let cfg ← getNat req "cfg"
  let rt ← getBool req "roundtrip"
  let ops ← getList parseOp req "ops"
  let rds ← getList parseRd req "reads"
  let lastOnly ← getBool req "last_only"
  -- mechanism: the constructor, then (optionally) save/load, then the operations
  let s0 : Option State :=
    if srr then constructSRR layers given cfg
    else match layers with
      | [l] => some (constructLaser l given cfg)
      | _ => none
  let s1 := if rt then s0.bind roundTrip else s0
  -- specification: the dictionary of the constructor arguments (save/load is the identity)
  let a0 : Option Spec :=
    if (srr && layers.length > 1) || (!srr && layers.length == 1) then
      some (Spec.construct srr layers given cfg)
    else none
  let tm := traceModel s1 ops
  let ts := traceSpec a0 ops
  let pick := fun {α} (l : List α) => if lastOnly then l.drop (l.length - 1) else l
  let enc := fun (p : Option State × Option Spec) =>
    jObj [("model", jOpt (obsModel · rds) p.1), ("spec", jOpt (obsSpec · rds) p.2),
          ("inv", jBool (match p.1 with | some s => decide (Inv s) | none => false)),
          ("abs_eq", jBool (match p.1, p.2 with | some s, some a => decide (abs s = a) | _, _ => false))]
  pure (jObj [("steps", jList enc (pick (tm.zip ts)))])

/-! ## object level -/

def jErr : Err → Json
  | .assertion => jStr "AssertionError"
  | .value => jStr "ValueError"
  | .key => jStr "KeyError"
  | .index => jStr "IndexError"

/-- what the caller holds: its arrays (their cells, column by column), its Calibration objects, dicts and configs -/
structure Caller where
  arrs : List (List Nat) := []
  cals : List Nat := []
  dicts : List Nat := []
  cfgs : List Nat := []

structure Sim where
  w : World
  c : Caller
  errs : List (Option Err) := []
  /-- the content-level operation of every step (`absOp` with the memory at the time of the call) -/
  cops : List Op := []
  /-- per step: the object-level call, seen through `view`, is the content-level call (`hstep_view`) -/
  sim : List Bool := []
  /-- per step: the content-level state is the same before and after -/
  unchanged : List Bool := []

def nth (l : List Nat) (i : Nat) : R Nat :=
  match l[i]? with
  | some x => pure x
  | none => throw s!"caller object index {i} out of range"

/-- one step of a case: the caller creates whatever it passes, then calls -/
def simStep (s : Sim) (j : Json) : R Sim := do
  let w := s.w
  let fin := fun (w1 : World) (op : HOp) (c : Caller) =>
    let r := hstep w1 op
    ({ w := r.state, c := c, errs := s.errs ++ [r.err], cops := s.cops ++ [absOp w1.heap op],
       sim := s.sim ++ [decide (r.map view = stepE (view w1) (absOp w1.heap op))],
       unchanged := s.unchanged ++ [decide (view r.state = view w)] } : Sim)
  match ← getStr j "op" with
  | "add" =>
    let name ← getStr j "name"
    let datas ← getList (asPair (asList asNat) asNat) j "data"
    -- the caller's new arrays (one column each)
    let (xs, h, arrs) := datas.foldl (fun (acc : List ArrIn × Heap × List (List Nat)) d =>
      let r := acc.2.1.allocCells [d.2]
      (acc.1 ++ [(d.1, r.1.headD 0)], r.2, acc.2.2 ++ [r.1])) ([], w.heap, [])
    let calJ ← fld j "cal"
    let (cal, h, cals) ← match calJ with
      | .null => pure (none, h, ([] : List Nat))
      | _ =>
        match fldOpt calJ "obj" with
        | some o => do let k ← nth s.c.cals (← asNat o); pure (some k, h, [])
        | none => do
          let r := h.allocCal (← getNat calJ "new")
          pure (some r.1, r.2, [r.1])
    let w1 : World := { w with heap := h }
    pure (fin w1 (.add name xs cal) { s.c with arrs := s.c.arrs ++ arrs, cals := s.c.cals ++ cals })
  | "remove" => pure (fin w (.remove (← getList asStr j "names")) s.c)
  | "rename" => pure (fin w (.rename (← getList (asPair asStr asStr) j "map")) s.c)
  | "get" =>
    pure (fin w (.get (← getNat j "layer") (← fld j "target" >>= asOpt asStr) (← getBool j "calibrate")) s.c)
  | "edit_cal" => pure (fin w (.setCal (← nth s.c.cals (← getNat j "obj")) (← getNat j "content")) s.c)
  | "edit_cfg" => pure (fin w (.setCfg (← nth s.c.cfgs (← getNat j "obj")) (← getNat j "content")) s.c)
  | "set_offsets" => pure (fin w (.setOffsets (← nth s.c.cfgs (← getNat j "obj")) (← getNat j "content")) s.c)
  | "write_offsets" =>
    let k ← nth s.c.cfgs (← getNat j "obj")
    match (w.heap.cfgOf k).offs with
    | some o => pure (fin w (.writeOffsets o (← getNat j "content")) s.c)
    | none => throw "write_offsets on a config without offsets"
  | "edit_dict" =>
    let k ← nth s.c.dicts (← getNat j "obj")
    let ents ← getList (asPair asStr asNat) j "entries"
    let d ← ents.mapM (fun e => do pure (e.1, ← nth s.c.cals e.2))
    pure (fin w (.setDict k d) s.c)
  | "write_arr" =>
    let cells ← match s.c.arrs[← getNat j "arr"]? with
      | some c => pure c
      | none => throw "caller array index out of range"
    let i ← nth cells (← getNat j "col")
    pure (fin w (.writeCell i (← getNat j "content")) s.c)
  | "write_result" =>
    -- `r = laser.get(..); r[...] = v`: the read, then an in-place write into every column of what it returned
    let v ← getNat j "content"
    let layer ← getNat j "layer"
    let target ← fld j "target" >>= asOpt asStr
    let cal ← getBool j "calibrate"
    let fin2 := fun (w2 : World) (e : Option Err) =>
      ({ s with w := w2, errs := s.errs ++ [e], cops := s.cops ++ [.callerEdit], sim := s.sim ++ [true],
                unchanged := s.unchanged ++ [decide (view w2 = view w)] } : Sim)
    match hGet w layer target cal with
    | .error e => pure (fin2 w (some e))
    | .ok (r, h) =>
      let w1 : World := { w with heap := h }
      pure (fin2 (r.cells.foldl (fun (acc : World) e => (hstep acc (.writeCell e.2 v)).state) w1) none)
  | o => throw s!"bad op {o}"

def jIdList (l : List (String × Nat)) : Json := jList (fun (e : String × Nat) => Json.arr #[jStr e.1, jNat e.2]) l

def jRead (w : World) (r : Rd) : Json :=
  match hGet w r.layer r.target r.calibrate with
  | .error e => jObj [("raises", jErr e)]
  | .ok (res, h) =>
    jObj [("items", jReadOut (some res.items)), ("cells", jIdList res.cells),
          -- reads never write to existing objects and leave the laser as it is
          ("pure", jBool (decide (view { w with heap := h } = view w) &&
                          decide (h.cells.take w.heap.cells.length = w.heap.cells) &&
                          decide (h.cals = w.heap.cals) && decide (h.cfgs = w.heap.cfgs) &&
                          decide (h.offs = w.heap.offs) && decide (h.dicts = w.heap.dicts)))]

/-- the content-level run of the same history (`absOp` with the memory at the time of each call) -/
def contentTrace (s0 : State) : List (Op) → List (State × Option Err)
  | [] => []
  | op :: ops => let r := stepE s0 op; (r.state, r.err) :: contentTrace r.state ops

def runHeap (req : Json) : R Json := do
  let srr ← getBool req "srr"
  let layersJ ← getList pure req "layers"
  let calObjs ← getList asNat req "cal_objs"
  let givenJ ← fld req "given" >>= asOpt (asList (asPair asStr asNat))
  let cfgJ ← fld req "cfg" >>= asOpt asNat
  let offsTok ← getNat req "offs"
  let rt ← getBool req "roundtrip"
  let opsJ ← getList pure req "ops"
  let rds ← getList parseRd req "reads"
  -- the caller's objects
  let h0 : Heap := { cells := [], cals := [], cfgs := [], offs := [], dicts := [] }
  let mut h := h0
  let mut data : List Arr := []
  let mut arrs : List (List Nat) := []
  for lj in layersJ do
    let shape ← getList asNat lj "shape"
    let fields ← getList (asPair asStr asNat) lj "fields"
    let r := h.allocCells (fields.map (·.2))
    h := r.2
    data := data ++ [({ shape := shape, fields := List.zip (fields.map (·.1)) r.1 } : Arr)]
    arrs := arrs ++ [r.1]
  let mut cals : List Nat := []
  for c in calObjs do
    let r := h.allocCal c
    h := r.2
    cals := cals ++ [r.1]
  let mut given : Option Nat := none
  match givenJ with
  | none => pure ()
  | some g =>
    let d ← g.mapM (fun e => do pure (e.1, ← nth cals e.2))
    let r := h.allocDict d
    h := r.2
    given := some r.1
  let mut config : Option Nat := none
  match cfgJ with
  | none => pure ()
  | some c =>
    if srr then
      let o := h.allocOffs offsTok
      let r := o.2.allocCfg ⟨c, some o.1⟩
      h := r.2
      config := some r.1
    else
      let r := h.allocCfg ⟨c, none⟩
      h := r.2
      config := some r.1
  let w0 ← match hConstruct h srr data given config with
    | some w' => pure w'
    | none => throw "the constructor raises"
  let mut caller : Caller := { arrs := arrs, cals := cals, dicts := given.toList, cfgs := config.toList }
  let mut w := w0
  if rt then
    -- the saved laser lives on at the caller's side
    caller := { caller with cals := caller.cals ++ (w0.heap.dict w0.laser.cal).map (·.2),
                            dicts := caller.dicts ++ [w0.laser.cal], cfgs := caller.cfgs ++ [w0.laser.cfg] }
    w ← match hRoundTrip w0 with
      | some w' => pure w'
      | none => throw "load raises"
  let foreign : Foreign := { cals := caller.cals, dicts := caller.dicts, cfgs := caller.cfgs }
  let start := w
  let mut sim : Sim := { w := w, c := caller }
  for oj in opsJ do
    sim ← simStep sim oj
  let wf := sim.w
  let s := view wf
  -- the constructor (and the loader) seen through `view` are the content-level constructors
  let givenV := given.map (fun g => viewDict h (h.dict g))
  let cfgV := (config.map (fun k => (h.cfgOf k).scal)).getD 0
  let ls := data.map (viewLayer h)
  let c0 : Option State :=
    if srr then constructSRR ls givenV cfgV
    else match ls with
      | [l] => some (constructLaser l givenV cfgV)
      | _ => none
  let c1 := if rt then c0.bind roundTrip else c0
  -- the dictionary of the property: the constructor arguments, then the calls (only while they succeed)
  let a := (Spec.construct srr ls givenV cfgV).run sim.cops
  pure (jObj [
    ("model", obsModel s []),
    ("spec", jOpt (obsSpec · rds) a),
    ("errs", jList (jOpt jErr) sim.errs),
    ("sim", jList jBool sim.sim),
    ("unchanged", jList jBool sim.unchanged),
    ("construct_ok", jBool (decide (c1 = some (view start)))),
    ("inv_start", jBool (decide (Inv (view start)))),
    ("given_ok", jBool (decide (GivenOK ls givenV))),
    ("inv", jBool (decide (Inv s))),
    ("valid", jBool (decide (Valid wf))),
    ("sep_start", jBool (decide (Sep foreign start))),
    ("sep", jBool (decide (Sep foreign wf))),
    ("cal_ids", jIdList (wf.heap.dict wf.laser.cal)),
    ("dict_id", jNat wf.laser.cal), ("cfg_id", jNat wf.laser.cfg),
    ("cfg_offs", jOpt jNat (wf.heap.cfgOf wf.laser.cfg).offs),
    ("cfg_offs_content", jOpt jNat (cfgOffsets wf)),
    ("caller_cals", jList jNat sim.c.cals), ("caller_dicts", jList jNat sim.c.dicts),
    ("caller_cfgs", jList jNat sim.c.cfgs),
    ("caller_cfg_offs", jList (fun k => jOpt jNat (wf.heap.cfgOf k).offs) sim.c.cfgs),
    ("caller_arrs", jList (jList jNat) sim.c.arrs),
    ("layer_cells", jList (fun (a : Arr) => jIdList a.fields) wf.laser.data),
    ("reads", jList (jRead wf) rds)])

/-! ## several lasers -/

/-- what the caller holds in a multi-laser case -/
structure MCaller where
  /-- structured arrays (layers) -/
  arrObjs : List Arr := []
  /-- every array the caller made, column by column (the structured ones first, then the arrays handed to `add`) -/
  arrs : List (List Nat) := []
  lists : List Nat := []
  cals : List Nat := []
  dicts : List Nat := []
  cfgs : List Nat := []

structure MSim where
  m : MWorld
  c : MCaller
  /-- per laser: the plain dictionary of the property (`none` once one of its calls has failed in the dictionary) -/
  specs : List (Option Spec) := []
  errs : List (Option Err) := []
  /-- per step, what the theorems `multi_call` / `multi_construct` / `multi_load` / `multi_history_view` say, evaluated -/
  frame : List Bool := []

def nthArr (l : List Arr) (i : Nat) : R Arr :=
  match l[i]? with
  | some x => pure x
  | none => throw s!"caller array index {i} out of range"

def viewsOf (m : MWorld) : List (Option State) := (List.range m.lasers.length).map (mview m)

def dropAt {α : Type} (l : List α) (i : Nat) : List α := l.take i ++ l.drop (i + 1)

/-- the caller's list objects hold what they held -/
def listsKept (c : MCaller) (a b : MWorld) : Bool := c.lists.all (fun k => decide (b.listOf k = a.listOf k))

def mSimStep (s : MSim) (j : Json) : R MSim := do
  let m := s.m
  match ← getStr j "op" with
  | "construct" =>
    let srr ← getBool j "srr"
    let data : DataRef ← match fldOpt j "list" with
      | some k => do pure (DataRef.list (← nth s.c.lists (← asNat k)))
      | none => do pure (DataRef.own [← nthArr s.c.arrObjs (← getNat j "arr")])
    let given ← match ← fld j "given" with
      | .null => pure none
      | g => do pure (some (← nth s.c.dicts (← asNat g)))
    let config ← match ← fld j "cfg" with
      | .null => pure none
      | g => do pure (some (← nth s.c.cfgs (← asNat g)))
    let r := mstep m (.construct srr data given config)
    let ls := (data.layers m).map (viewLayer m.heap)
    let givenV := given.map (fun g => viewDict m.heap (m.heap.dict g))
    let cfgV := (config.map (fun k => (m.heap.cfgOf k).scal)).getD 0
    let ok := match r with
      | .ok m' =>
        decide (m'.lasers.length = m.lasers.length + 1) &&
        decide (mview m' m.lasers.length = some (mkState srr ls givenV cfgV)) &&
        decide ((viewsOf m').take m.lasers.length = viewsOf m) && listsKept s.c m m' && decide (MValid m')
      | .fail _ m' => decide (m' = m)
    let sp := match r with
      | .ok _ => [some (Spec.construct srr ls givenV cfgV)]
      | .fail _ _ => []
    pure { s with m := r.state, specs := s.specs ++ sp, errs := s.errs ++ [r.err], frame := s.frame ++ [ok] }
  | "load" =>
    let i ← getNat j "laser"
    let r := mstep m (.load i)
    let ok := match r, mview m i with
      | .ok m', some v =>
        decide (m'.lasers.length = m.lasers.length + 1) &&
        decide (mview m' m.lasers.length = roundTrip v) &&
        decide ((viewsOf m').take m.lasers.length = viewsOf m) && listsKept s.c m m' && decide (MValid m')
      | .ok _, none => false
      | .fail _ m', _ => decide (m' = m)
    let sp := match r with
      | .ok _ => [(s.specs[i]?).getD none]
      | .fail _ _ => []
    pure { s with m := r.state, specs := s.specs ++ sp, errs := s.errs ++ [r.err], frame := s.frame ++ [ok] }
  | "call" =>
    let i ← getNat j "laser"
    let cj ← fld j "call"
    let o ← match m.lasers[i]? with
      | some o => pure o
      | none => throw s!"laser index {i} out of range"
    let fin := fun (m1 : MWorld) (op : HOp) (c : MCaller) =>
      let r := mstep m1 (.call i op)
      let cop := absOp m1.heap op
      let own := decide (r.map (fun m' => mview m' i) = (stepE (view (m1.world o)) cop).map some)
      let others := decide (dropAt (viewsOf r.state) i = dropAt (viewsOf m) i)
      let sp := s.specs.mapIdx (fun k a => if k = i then a.bind (Spec.step · cop) else a)
      ({ m := r.state, c := c, specs := sp, errs := s.errs ++ [r.err],
         frame := s.frame ++ [own && others && listsKept c m r.state && decide (MValid r.state)] } : MSim)
    match ← getStr cj "op" with
    | "add" =>
      let name ← getStr cj "name"
      let datas ← getList (asPair (asList asNat) asNat) cj "data"
      let (xs, h, arrs) := datas.foldl (fun (acc : List ArrIn × Heap × List (List Nat)) d =>
        let r := acc.2.1.allocCells [d.2]
        (acc.1 ++ [(d.1, r.1.headD 0)], r.2, acc.2.2 ++ [r.1])) ([], m.heap, [])
      let calJ ← fld cj "cal"
      let (cal, h, cals) ← match calJ with
        | .null => pure (none, h, ([] : List Nat))
        | _ =>
          match fldOpt calJ "obj" with
          | some ob => do let k ← nth s.c.cals (← asNat ob); pure (some k, h, [])
          | none => do
            let r := h.allocCal (← getNat calJ "new")
            pure (some r.1, r.2, [r.1])
      let m1 : MWorld := { m with heap := h }
      pure (fin m1 (.add name xs cal) { s.c with arrs := s.c.arrs ++ arrs, cals := s.c.cals ++ cals })
    | "remove" => pure (fin m (.remove (← getList asStr cj "names")) s.c)
    | "rename" => pure (fin m (.rename (← getList (asPair asStr asStr) cj "map")) s.c)
    | "get" =>
      pure (fin m (.get (← getNat cj "layer") (← fld cj "target" >>= asOpt asStr) (← getBool cj "calibrate")) s.c)
    | o => throw s!"bad call {o}"
  | "set_list" =>
    let k ← nth s.c.lists (← getNat j "list")
    let ents ← getList asNat j "entries"
    let l ← ents.mapM (nthArr s.c.arrObjs)
    let r := mstep m (.setList k l)
    -- no laser keeps its layers in a list of the caller's: every view is what it was
    pure { s with m := r.state, errs := s.errs ++ [r.err],
                  frame := s.frame ++ [decide (viewsOf r.state = viewsOf m) && decide (MValid r.state)] }
  | e =>
    let op : HOp ← match e with
      | "edit_cal" => pure (HOp.setCal (← nth s.c.cals (← getNat j "obj")) (← getNat j "content"))
      | "edit_cfg" => pure (HOp.setCfg (← nth s.c.cfgs (← getNat j "obj")) (← getNat j "content"))
      | "set_offsets" => pure (HOp.setOffsets (← nth s.c.cfgs (← getNat j "obj")) (← getNat j "content"))
      | "edit_dict" =>
        let k ← nth s.c.dicts (← getNat j "obj")
        let ents ← getList (asPair asStr asNat) j "entries"
        let d ← ents.mapM (fun e => do pure (e.1, ← nth s.c.cals e.2))
        pure (HOp.setDict k d)
      | o => throw s!"bad op {o}"
    let r := mstep m (.edit op)
    pure { s with m := r.state, errs := s.errs ++ [r.err],
                  frame := s.frame ++ [decide (viewsOf r.state = viewsOf m) && decide (MValid r.state)] }

def runMulti (req : Json) : R Json := do
  let arrsJ ← getList pure req "arrays"
  let listsJ ← getList (asList asNat) req "lists"
  let calObjs ← getList asNat req "cal_objs"
  let dictsJ ← getList (asList (asPair asStr asNat)) req "dicts"
  let cfgsJ ← getList pure req "cfgs"
  let stepsJ ← getList pure req "steps"
  let rdsJ ← getList (asList parseRd) req "reads"
  let mut h : Heap := { cells := [], cals := [], cfgs := [], offs := [], dicts := [] }
  let mut c : MCaller := {}
  for aj in arrsJ do
    let shape ← getList asNat aj "shape"
    let fields ← getList (asPair asStr asNat) aj "fields"
    let r := h.allocCells (fields.map (·.2))
    h := r.2
    c := { c with arrObjs := c.arrObjs ++ [({ shape := shape, fields := List.zip (fields.map (·.1)) r.1 } : Arr)],
                  arrs := c.arrs ++ [r.1] }
  let mut lists : List (List Arr) := []
  for lj in listsJ do
    let l ← lj.mapM (nthArr c.arrObjs)
    c := { c with lists := c.lists ++ [lists.length] }
    lists := lists ++ [l]
  for x in calObjs do
    let r := h.allocCal x
    h := r.2
    c := { c with cals := c.cals ++ [r.1] }
  for dj in dictsJ do
    let d ← dj.mapM (fun e => do pure (e.1, ← nth c.cals e.2))
    let r := h.allocDict d
    h := r.2
    c := { c with dicts := c.dicts ++ [r.1] }
  for cj in cfgsJ do
    let t ← getNat cj "scal"
    if ← getBool cj "srr" then
      let o := h.allocOffs 0
      let r := o.2.allocCfg ⟨t, some o.1⟩
      h := r.2
      c := { c with cfgs := c.cfgs ++ [r.1] }
    else
      let r := h.allocCfg ⟨t, none⟩
      h := r.2
      c := { c with cfgs := c.cfgs ++ [r.1] }
  let foreign : Foreign := { cals := c.cals, dicts := c.dicts, cfgs := c.cfgs }
  let mut sim : MSim := { m := { heap := h, lists := lists, lasers := [] }, c := c }
  for sj in stepsJ do
    sim ← mSimStep sim sj
  let m := sim.m
  let lasers := (List.range m.lasers.length).filterMap (fun i => (m.lasers[i]?).map (fun o => (i, o)))
  let enc := fun (p : Nat × MObj) =>
    let w := m.world p.2
    let s := view w
    let rds := (rdsJ[p.1]?).getD []
    let a := (sim.specs[p.1]?).getD none
    jObj [("model", obsModel s []), ("spec", jOpt (obsSpec · rds) a), ("srr", jBool p.2.srr),
          ("inv", jBool (decide (Inv s))), ("valid", jBool (decide (Valid w))),
          ("abs_eq", jBool (match a with | some x => decide (abs s = x) | none => false)),
          ("sep", jBool (decide (Sep foreign w))),
          ("cal_ids", jIdList (w.heap.dict w.laser.cal)), ("dict_id", jNat w.laser.cal), ("cfg_id", jNat w.laser.cfg),
          ("list_id", match p.2.data with | .list k => jNat k | .own _ => Json.null),
          ("cfg_offs", jOpt jNat (w.heap.cfgOf w.laser.cfg).offs), ("cfg_offs_content", jOpt jNat (cfgOffsets w)),
          ("layer_cells", jList (fun (a : Arr) => jIdList a.fields) w.laser.data),
          ("reads", jList (jRead w) rds)]
  let entryIdx := fun (a : Arr) => match sim.c.arrObjs.findIdx? (· == a) with
    | some i => Json.num i
    | none => Json.num (-1 : Int)
  pure (jObj [
    ("lasers", jList enc lasers),
    ("errs", jList (jOpt jErr) sim.errs),
    ("frame", jList jBool sim.frame),
    ("mvalid", jBool (decide (MValid m))),
    ("msep", jBool (decide (MSep foreign sim.c.lists m))),
    ("caller_cals", jList jNat sim.c.cals), ("caller_dicts", jList jNat sim.c.dicts),
    ("caller_cfgs", jList jNat sim.c.cfgs), ("caller_lists", jList jNat sim.c.lists),
    ("caller_cfg_offs", jList (fun k => jOpt jNat (m.heap.cfgOf k).offs) sim.c.cfgs),
    ("caller_arrs", jList (jList jNat) sim.c.arrs),
    ("caller_list_entries", jList (fun k => jList entryIdx (m.listOf k)) sim.c.lists)])

def handle (op : String) (req : Json) : R Json := do
  match op with
  | "c07.run" => runOne req
  | "c07.heap" =>
    let runs ← getList pure req "runs"
    let outs ← runs.mapM runHeap
    pure (jObj [("runs", Json.arr outs.toArray)])
  | "c07.multi" =>
    let runs ← getList pure req "runs"
    let outs ← runs.mapM runMulti
    pure (jObj [("runs", Json.arr outs.toArray)])
  | "c07.batch" =>
    let runs ← getList pure req "runs"
    let outs ← runs.mapM runOne
    pure (jObj [("runs", Json.arr outs.toArray)])
  | _ => throw s!"unknown op {op}"

end PewDriver.C07
