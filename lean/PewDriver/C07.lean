import PewDriver.Util
import PewModel.LaserEdit
open Lean
namespace PewDriver.C07
open PewDriver Pew.LaserEdit

def asPair {α β : Type} (f : Json → R α) (g : Json → R β) (j : Json) : R (α × β) :=
  match j with
  | .arr #[a, b] => do pure (← f a, ← g b)
  | _ => throw s!"expected pair, got {j.compress}"

def parseLayer (j : Json) : R Layer := do
  let shape ← getList asNat j "shape"
  let fields ← getList (asPair asStr asNat) j "fields"
  pure { shape := shape, fields := fields }

def parseOp (j : Json) : R Op := do
  match ← getStr j "op" with
  | "add" => pure (.add (← getStr j "name") (← getList asNat j "data") (← getNat j "cal"))
  | "remove" => pure (.remove (← getList asStr j "names"))
  | "rename" => pure (.rename (← getList (asPair asStr asStr) j "map"))
  | "get" =>
    pure (.get (← getNat j "layer") (← fld j "target" >>= asOpt asStr) (← getBool j "calibrate"))
  | "caller_edit" => pure .callerEdit
  | o => throw s!"bad op {o}"

structure Rd where
  layer : Nat
  target : Option String
  calibrate : Bool

def parseRd (j : Json) : R Rd := do
  pure { layer := ← getNat j "layer", target := ← fld j "target" >>= asOpt asStr,
         calibrate := ← getBool j "calibrate" }

def jReadOut (r : Option ReadOut) : Json :=
  jOpt (jList (fun (e : String × Nat × Option Nat) => Json.arr #[jStr e.1, jNat e.2.1, jOpt jNat e.2.2])) r

def prod (l : List Nat) : Nat := l.foldl (· * ·) 1

def obsModel (s : State) (rds : List Rd) : Json :=
  jObj [("elements", jList jStr s.elements),
        ("cal", jList (fun (e : String × Nat) => Json.arr #[jStr e.1, jNat e.2]) s.cal),
        ("shape", jList jNat s.shape),
        ("cfg", jNat s.cfg),
        ("layers", jList (fun (l : Layer) =>
            jList (fun (e : String × Nat) => Json.arr #[jStr e.1, jNat e.2]) l.fields) s.layers),
        ("sizes", jList (fun (l : Layer) => jNat (prod l.shape)) s.layers),
        ("reads", jList (fun (r : Rd) => jReadOut (read s r.layer r.target r.calibrate)) rds)]

def obsSpec (a : Spec) (rds : List Rd) : Json :=
  jObj [("elements", jList jStr (keys a.map)),
        ("map", jList (fun (e : String × Entry) =>
            Json.arr #[jStr e.1, jList jNat e.2.1, jNat e.2.2]) a.map),
        ("shape", jList jNat a.shape),
        ("cfg", jNat a.cfg),
        ("sizes", jList (fun (sh : List Nat) => jNat (prod sh)) a.shapes),
        ("reads", jList (fun (r : Rd) => jReadOut (a.read r.layer r.target r.calibrate)) rds)]

/-- observations of the mechanism after 0, 1, … ops (`none` from the first failing op on) -/
def traceModel : Option State → List Op → List (Option State)
  | s, [] => [s]
  | s, op :: ops => s :: traceModel (s.bind (step · op)) ops

def traceSpec : Option Spec → List Op → List (Option Spec)
  | a, [] => [a]
  | a, op :: ops => a :: traceSpec (a.bind (Spec.step · op)) ops

def runOne (req : Json) : R Json := do
  let srr ← getBool req "srr"
  let layers ← getList parseLayer req "layers"
  let given ← fld req "given" >>= asOpt (asList (asPair asStr asNat))
  let cfg ← getNat req "cfg"
  let rt ← getBool req "roundtrip"
  let ops ← getList parseOp req "ops"
  let rds ← getList parseRd req "reads"
  let lastOnly ← getBool req "last_only"
  -- mechanism: the constructor, then (optionally) save/load, then the operations
  let s0 : Option State :=
    if srr then constructSRR layers given cfg
    else match layers with
      | [l] => some (constructLaser l given cfg)
      | _ => none
  let s1 := if rt then s0.bind roundTrip else s0
  -- specification: the dictionary of the constructor arguments (save/load is the identity)
  let a0 : Option Spec :=
    if (srr && layers.length > 1) || (!srr && layers.length == 1) then
      some (Spec.construct srr layers given cfg)
    else none
  let tm := traceModel s1 ops
  let ts := traceSpec a0 ops
  let pick := fun {α} (l : List α) => if lastOnly then l.drop (l.length - 1) else l
  let enc := fun (p : Option State × Option Spec) =>
    jObj [("model", jOpt (obsModel · rds) p.1), ("spec", jOpt (obsSpec · rds) p.2),
          ("inv", jBool (match p.1 with | some s => decide (Inv s) | none => false)),
          ("abs_eq", jBool (match p.1, p.2 with | some s, some a => decide (abs s = a) | _, _ => false))]
  pure (jObj [("steps", jList enc (pick (tm.zip ts)))])

def handle (op : String) (req : Json) : R Json := do
  match op with
  | "c07.run" => runOne req
  | "c07.batch" =>
    let runs ← getList pure req "runs"
    let outs ← runs.mapM runOne
    pure (jObj [("runs", Json.arr outs.toArray)])
  | _ => throw s!"unknown op {op}"

end PewDriver.C07
