import PewDriver.Util
import PewModel.Cli
open Lean
namespace PewDriver.C20
open PewDriver Pew.Cli

def mkGrid (h w : Nat) (data : Array Tok) : Grid Tok :=
  { h := h, w := w, get := fun i j => data.getD (i * w + j) 0 }

def parsePath (j : Json) : R Path := do
  pure { dir := ← getStr j "dir", stem := ← getStr j "stem", suffix := ← getStr j "suffix" }

def parseCfg (j : Json) : R Cfg := do
  match ← asArr j with
  | [k, a, b, c] =>
    if (← asStr k) != "raster" then throw "config: raster expected"
    pure (.raster (← asInt a) (← asInt b) (← asInt c))
  | [k, x, y] =>
    if (← asStr k) != "spot" then throw "config: spot expected"
    pure (.spot (← asInt x) (← asInt y))
  | _ => throw "config: [\"raster\", s, v, t] or [\"spot\", x, y] expected"

def parseSpot (j : Json) : R Spot := do
  match j with
  | .arr #[x, y] => pure (.two (← asInt x) (← asInt y))
  | _ => pure (.one (← asInt j))

def parseParams (j : Json) : R Params := do
  match ← asArr j with
  | [a, b, c] => pure { spotsize := ← asOpt parseSpot a, speed := ← asOpt asInt b, scantime := ← asOpt asInt c }
  | _ => throw "params: three optional entries expected"

def jCfg : Cfg → Json
  | .raster a b c => .arr #[jStr "raster", jInt a, jInt b, jInt c]
  | .spot x y => .arr #[jStr "spot", jInt x, jInt y]

/-- per element: name and row-major tokens -/
def parseFields (h w : Nat) (j : Json) : R (List (String × Array Tok)) := do
  let fs ← asList (fun f => do
    let nm ← getStr f "name"
    let data ← getList asInt f "data"
    if data.length ≠ h * w then throw s!"field {nm}: data/shape mismatch"
    pure (nm, data.toArray)) j
  pure fs

def pxOf (w : Nat) (fs : List (String × Array Tok)) : Nat → Nat → Px := fun i j n =>
  match fs.lookup n with
  | some a => a.getD (i * w + j) 0
  | none => 0

structure InputX where
  input : Input
  /-- the library filter applied to every field of this input (only for the filter command) -/
  filtered : Option (List (String × Array Tok))

def parseInput (defaults : Tok × Tok × Tok) (j : Json) : R InputX := do
  let path ← fld j "path" >>= parsePath
  let present ← getBool j "exists"
  let h ← getNat j "h"
  let w ← getNat j "w"
  let fs ← fld j "fields" >>= parseFields h w
  -- `load`: an .npz carries its own config, every other format gets Config() + loader parameters
  let config ← match ← (fld j "config" >>= asOpt parseCfg) with
    | some c => pure c
    | none => do
      let p ← fld j "params" >>= parseParams
      pure (configOf defaults.1 defaults.2.1 defaults.2.2 p)
  let filtered ← fld j "filtered" >>= asOpt (parseFields h w)
  pure { input := { path := path, present := present,
                    laser := { elements := fs.map (·.1), data := { h := h, w := w, get := pxOf w fs }, config := config } },
         filtered := filtered }

def parseOrient (s : String) : R Orient :=
  match s with
  | "vertical" => pure .vertical
  | "horizontal" => pure .horizontal
  | _ => throw s!"bad orientation {s}"

def jPath (p : Path) : Json := jStr p.full

def jGrid (g : Grid Tok) : Json :=
  jList (fun i => jList (fun j => jInt (g.get i j)) (List.range g.w)) (List.range g.h)

def jFile (f : File) : Json :=
  match f.content with
  | .npz l =>
    jObj [("path", jPath f.path), ("kind", jStr "npz"), ("elements", jList jStr l.elements),
          ("shape", jList jNat [l.data.h, l.data.w]),
          ("data", jList (fun e => jGrid (l.field e)) l.elements),
          ("config", jCfg l.config)]
  | .csv g =>
    jObj [("path", jPath f.path), ("kind", jStr "csv"), ("shape", jList jNat [g.h, g.w]), ("data", jGrid g)]
  | .vtk => jObj [("path", jPath f.path), ("kind", jStr "vtk")]

def jResult (r : Result) : Json :=
  jObj [("status", jStr (if r.status = .ok then "ok" else "error")), ("files", jList jFile r.files)]

def handle (op : String) (req : Json) : R Json := do
  match op with
  | "c20.run" =>
    let defaults ← match ← getList asInt req "defaults" with
      | [a, b, c] => pure (a, b, c)
      | _ => throw "defaults: three tokens expected"
    let xs ← getList (parseInput defaults) req "inputs"
    let format ← getStr req "format"
    let output ← fld req "output" >>= asOpt parsePath
    let outIsDir ← getBool req "output_is_dir"
    let isDir : Path → Bool := fun p => outIsDir && (some p == output)
    let cmdName ← getStr req "cmd"
    let cmd : Cmd ← match cmdName with
      | "convert" => do
        let cfg ← fld req "config" >>= asOpt parseCfg
        let els ← fld req "elements" >>= asOpt (asList asStr)
        pure (Cmd.convert cfg els)
      | "filter" => do
        let sel ← fld req "elements" >>= asOpt (asList asStr)
        let tables := xs.toArray.map (·.filtered)
        let f : Nat → String → Grid Tok → Grid Tok := fun k n g =>
          match tables[k]? with
          | some (some t) =>
            match t.lookup n with
            | some a => mkGrid g.h g.w a
            | none => g
          | _ => g
        pure (Cmd.filter f sel)
      | "stack" => do
        let o ← getStr req "orientation" >>= parseOrient
        let pad ← getInt req "pad"
        pure (Cmd.stack o pad)
      | _ => throw s!"bad cmd {cmdName}"
    let a : Args := { cmd := cmd, inputs := xs.map (·.input), format := format, output := output, isDir := isDir }
    pure (jObj [("model", jResult (run a)), ("spec", jResult (specRun a))])
  | _ => throw s!"unknown op {op}"

end PewDriver.C20
