import PewDriver.Util
import PewModel.Cli
open Lean
namespace PewDriver.C20
open PewDriver Pew.Cli

def mkGrid (h w : Nat) (data : Array Tok) : Grid Tok :=
  { h := h, w := w, get := fun i j => data.getD (i * w + j) 0 }

def parsePath (j : Json) : R Path := do
  pure { dir := ← getStr j "dir", stem := ← getStr j "stem", suffix := ← getStr j "suffix" }

def parseCfg (j : Json) : R Cfg := do
  match ← asList asInt j with
  | [a, b, c] => pure { spotsize := a, speed := b, scantime := c }
  | _ => throw "config: three tokens expected"

def parseParams (j : Json) : R Params := do
  match ← asList (asOpt asInt) j with
  | [a, b, c] => pure { spotsize := a, speed := b, scantime := c }
  | _ => throw "params: three optional tokens expected"

/-- per element: name and row-major tokens -/
def parseFields (h w : Nat) (j : Json) : R (List (String × Array Tok)) := do
  let fs ← asList (fun f => do
    let nm ← getStr f "name"
    let data ← getList asInt f "data"
    if data.length ≠ h * w then throw s!"field {nm}: data/shape mismatch"
    pure (nm, data.toArray)) j
  pure fs

def pxOf (w : Nat) (fs : List (String × Array Tok)) : Nat → Nat → Px := fun i j n =>
  match fs.lookup n with
  | some a => a.getD (i * w + j) 0
  | none => 0

structure InputX where
  input : Input
  /-- the library filter applied to every field of this input (only for the filter command) -/
  filtered : Option (List (String × Array Tok))

def parseInput (defaults : Cfg) (j : Json) : R InputX := do
  let path ← fld j "path" >>= parsePath
  let present ← getBool j "exists"
  let h ← getNat j "h"
  let w ← getNat j "w"
  let fs ← fld j "fields" >>= parseFields h w
  -- `load`: an .npz carries its own config, every other format gets Config() + loader parameters
  let config ← match ← (fld j "config" >>= asOpt parseCfg) with
    | some c => pure c
    | none => do
      let p ← fld j "params" >>= parseParams
      pure (configOf defaults p)
  let filtered ← fld j "filtered" >>= asOpt (parseFields h w)
  pure { input := { path := path, present := present,
                    laser := { elements := fs.map (·.1), data := { h := h, w := w, get := pxOf w fs }, config := config } },
         filtered := filtered }

def parseOrient (s : String) : R Orient :=
  match s with
  | "vertical" => pure .vertical
  | "horizontal" => pure .horizontal
  | _ => throw s!"bad orientation {s}"

def jPath (p : Path) : Json := jStr p.full

def jGrid (g : Grid Tok) : Json :=
  jList (fun i => jList (fun j => jInt (g.get i j)) (List.range g.w)) (List.range g.h)

def jFile (f : File) : Json :=
  match f.content with
  | .npz l =>
    jObj [("path", jPath f.path), ("kind", jStr "npz"), ("elements", jList jStr l.elements),
          ("shape", jList jNat [l.data.h, l.data.w]),
          ("data", jList (fun e => jGrid (l.field e)) l.elements),
          ("config", jList jInt [l.config.spotsize, l.config.speed, l.config.scantime])]
  | .csv g =>
    jObj [("path", jPath f.path), ("kind", jStr "csv"), ("shape", jList jNat [g.h, g.w]), ("data", jGrid g)]
  | .vtk => jObj [("path", jPath f.path), ("kind", jStr "vtk")]

def jResult (r : Result) : Json :=
  jObj [("status", jStr (if r.status = .ok then "ok" else "error")), ("files", jList jFile r.files)]

def handle (op : String) (req : Json) : R Json := do
  match op with
  | "c20.run" =>
    let defaults ← fld req "defaults" >>= parseCfg
    let xs ← getList (parseInput defaults) req "inputs"
    let format ← getStr req "format"
    let output ← fld req "output" >>= asOpt parsePath
    let outIsDir ← getBool req "output_is_dir"
    let isDir : Path → Bool := fun p => outIsDir && (some p == output)
    let cmdName ← getStr req "cmd"
    let cmd : Cmd ← match cmdName with
      | "convert" => do
        let cfg ← fld req "config" >>= asOpt parseCfg
        let els ← fld req "elements" >>= asOpt (asList asStr)
        pure (Cmd.convert cfg els)
      | "filter" => do
        let sel ← fld req "elements" >>= asOpt (asList asStr)
        let tables := xs.toArray.map (·.filtered)
        let f : Nat → String → Grid Tok → Grid Tok := fun k n g =>
          match tables[k]? with
          | some (some t) =>
            match t.lookup n with
            | some a => mkGrid g.h g.w a
            | none => g
          | _ => g
        pure (Cmd.filter f sel)
      | "stack" => do
        let o ← getStr req "orientation" >>= parseOrient
        let pad ← getInt req "pad"
        pure (Cmd.stack o pad)
      | _ => throw s!"bad cmd {cmdName}"
    let a : Args := { cmd := cmd, inputs := xs.map (·.input), format := format, output := output, isDir := isDir }
    pure (jObj [("model", jResult (run a)), ("spec", jResult (specRun a))])
  | "c20.stack" =>
    -- bare stacking of single-field grids, also with the pre-802513a padding
    let o ← getStr req "orientation" >>= parseOrient
    let pad ← getInt req "pad"
    let gs ← getList (fun g => do
      let h ← getNat g "h"
      let w ← getNat g "w"
      let data ← getList asInt g "data"
      if data.length ≠ h * w then throw "data/shape mismatch"
      pure (mkGrid h w data.toArray)) req "grids"
    let enc : Option (Grid Tok) → Json := fun r =>
      match r with
      | some g => jObj [("shape", jList jNat [g.h, g.w]), ("data", jGrid g)]
      | none => Json.null
    pure (jObj [("model", enc (stack o pad gs)), ("old", enc (stackOld o pad gs)),
                ("spec", enc (if gs.isEmpty then none else some (stackSpec o pad gs)))])
  | _ => throw s!"unknown op {op}"

end PewDriver.C20
