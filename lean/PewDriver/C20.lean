import PewDriver.Util
import PewModel.Cli
import Std.Data.HashMap
open Lean
namespace PewDriver.C20
open PewDriver Pew.Cli

def mkGrid (h w : Nat) (data : Array Tok) : Grid Tok :=
  { h := h, w := w, get := fun i j => data.getD (i * w + j) 0 }

def parsePath (j : Json) : R Path := do
  pure { dir := ← getStr j "dir", stem := ← getStr j "stem", suffix := ← getStr j "suffix" }

def parseCfg (j : Json) : R Cfg := do
  match ← asArr j with
  | [k, a, b, c] =>
    if (← asStr k) != "raster" then throw "config: raster expected"
    pure (.raster (← asInt a) (← asInt b) (← asInt c))
  | [k, x, y] =>
    if (← asStr k) != "spot" then throw "config: spot expected"
    pure (.spot (← asInt x) (← asInt y))
  | _ => throw "config: [\"raster\", s, v, t] or [\"spot\", x, y] expected"

def parseSpot (j : Json) : R Spot := do
  match j with
  | .arr #[x, y] => pure (.two (← asInt x) (← asInt y))
  | _ => pure (.one (← asInt j))

def parseParams (j : Json) : R Params := do
  match ← asArr j with
  | [a, b, c] => pure { spotsize := ← asOpt parseSpot a, speed := ← asOpt asInt b, scantime := ← asOpt asInt c }
  | _ => throw "params: three optional entries expected"

def jCfg : Cfg → Json
  | .raster a b c => .arr #[jStr "raster", jInt a, jInt b, jInt c]
  | .spot x y => .arr #[jStr "spot", jInt x, jInt y]

/-- per element: name and row-major tokens -/
def parseFields (h w : Nat) (j : Json) : R (List (String × Array Tok)) := do
  let fs ← asList (fun f => do
    let nm ← getStr f "name"
    let data ← getList asInt f "data"
    if data.length ≠ h * w then throw s!"field {nm}: data/shape mismatch"
    pure (nm, data.toArray)) j
  pure fs

def pxOf (w : Nat) (fs : List (String × Array Tok)) : Nat → Nat → Px := fun i j n =>
  match fs.lookup n with
  | some a => a.getD (i * w + j) 0
  | none => 0

def calibOf (names : List String) (cs : List Tok) : String → Tok := fun n =>
  match (names.zip cs).lookup n with
  | some c => c
  | none => 0

/-- the storage types of the fields a call returned (float64 for every name it does not list) -/
def typesOf (names : List String) (ts : List String) : String → DType := fun n =>
  match (names.zip ts).lookup n with
  | some t => t
  | none => "<f8"

/-- one library call the harness made for a path: which, how it ended, and what it returned -/
def parseLoader (j : Json) : R Loader := do
  match ← getStr j "loader" with
  | "agilent" => pure (.agilent (← getList asStr j "methods"))
  | "perkinelmer" => pure .perkinelmer
  | "csv" => pure .csvdir
  | "npz" => pure .npz
  | "thermo" => pure .thermo
  | "textimage" => pure .textimage
  | x => throw s!"bad loader {x}"

def jLoader : Loader → Json
  | .agilent ms => jObj [("loader", jStr "agilent"), ("methods", jList jStr ms)]
  | .perkinelmer => jObj [("loader", jStr "perkinelmer")]
  | .csvdir => jObj [("loader", jStr "csv")]
  | .npz => jObj [("loader", jStr "npz")]
  | .thermo => jObj [("loader", jStr "thermo")]
  | .textimage => jObj [("loader", jStr "textimage")]

def parseOutcomeWith {α} (j : Json) (ok : R α) : R (Outcome α) := do
  match ← getStr j "outcome" with
  | "ok" => pure (.ok (← ok))
  | "ValueError" => pure .valueError
  | "other" => pure .otherError
  | x => throw s!"bad outcome {x}"

structure CallX where
  loader : Loader
  loaded : Outcome Loaded
  laser : Outcome Laser      -- for `io.npz.load`: the image with its stored configuration and calibrations
  types : String → DType     -- storage type of every field of the array the call returned

def parseCall (j : Json) : R CallX := do
  let ld ← parseLoader j
  let body : R (Nat × Nat × List (String × Array Tok)) := do
    let h ← getNat j "h"
    let w ← getNat j "w"
    let fs ← fld j "fields" >>= parseFields h w
    pure (h, w, fs)
  let loaded ← parseOutcomeWith j (do
    let (h, w, fs) ← body
    let p ← match ld with
      | .npz => pure { spotsize := none, speed := none, scantime := none }
      | _ => fld j "params" >>= parseParams
    pure ({ elements := fs.map (·.1), data := { h := h, w := w, get := pxOf w fs }, params := p } : Loaded))
  let laser ← match ld with
    | .npz => parseOutcomeWith j (do
        let (h, w, fs) ← body
        let c ← fld j "config" >>= parseCfg
        let cal ← getList asInt j "calib"
        if cal.length ≠ fs.length then throw "calib: one token per field expected"
        pure ({ elements := fs.map (·.1), data := { h := h, w := w, get := pxOf w fs }, config := c,
                calib := calibOf (fs.map (·.1)) cal } : Laser))
    | _ => pure .otherError
  let types ← match fldOpt j "outcome" with
    | some (.str "ok") => do
      let (_, _, fs) ← body
      let ts ← getList asStr j "dtypes"
      if ts.length ≠ fs.length then throw "dtypes: one name per field expected"
      pure (typesOf (fs.map (·.1)) ts)
    | _ => pure (fun _ => "<f8")
  pure { loader := ld, loaded := loaded, laser := laser, types := types }

/-- the facts about a path (no library loader has been called yet when `calls` is empty), and the
storage types of the array each call returned -/
def parseSourceX (j : Json) : R (Source × (Loader → String → DType)) := do
  let path ← fld j "path" >>= parsePath
  let sniff ← fld j "sniff" >>= fun sj => parseOutcomeWith sj (getStr sj "format")
  let calls ← getList parseCall j "calls"
  -- a loader the harness was not asked to call: a distinguished failure, visible as a crash
  let call : Loader → Outcome Loaded := fun ld =>
    match calls.find? (fun c => c.loader == ld) with
    | some c => c.loaded
    | none => .otherError
  let npz : Outcome Laser :=
    match calls.find? (fun c => c.loader == Loader.npz) with
    | some c => c.laser
    | none => .otherError
  let types : Loader → String → DType := fun ld =>
    match calls.find? (fun c => c.loader == ld) with
    | some c => c.types
    | none => fun _ => "<f8"
  pure ({ path := path, present := ← getBool j "exists", isDir := ← getBool j "is_dir",
          perkinValid := ← getBool j "perkin_valid", csvValid := ← getBool j "csv_valid",
          sniff := sniff, info := ← (fld j "info" >>= fun ij => parseOutcomeWith ij (pure ())), call := call, npz := npz },
        types)

def parseSource (j : Json) : R Source := do pure (← parseSourceX j).1

/-- NumPy's conversions as tables: `casts` keyed by (type, value), `promote` keyed by the list of types; float64 holds
every value; an entry the harness did not send gives the value -2 / the type "?" (visible as a difference) -/
def parseCasting (req : Json) : R Casting := do
  let cs ← getList (fun j => do pure ((← getStr j "type", ← getInt j "src"), ← getInt j "dst")) req "casts"
  let ps ← getList (fun j => do pure (← getList asStr j "types", ← getStr j "result")) req "promote"
  let tbl : Std.HashMap (String × Int) Int := Std.HashMap.ofList cs
  pure { cast := fun t v => if t == "<f8" then v else (tbl.get? (t, v)).getD (-2),
         promote := fun ts => if ts.all (· == "<f8") then "<f8" else (ps.lookup ts).getD "?" }

/-- `TypesHold` decided on the elements and the pixels inside the images (a name no image has is a float64 field of
zeros: nothing to check) -/
def typesHold (C : Casting) (ty : Nat → String → DType) (a : Args) : Bool :=
  let ins := enum a.inputs
  match a.cmd with
  | .convert _ _ => true
  | .filter f _ =>
    ins.all fun (k, i) => i.laser.elements.all fun n =>
      let g := f k n (i.laser.field n)
      (List.range i.laser.data.h).all fun r => (List.range i.laser.data.w).all fun c =>
        C.cast (ty k n) (g.get r c) == g.get r c
  | .stack _ pad =>
    let names := (a.inputs.flatMap (·.laser.elements)).eraseDups
    ins.all (fun (k, _) => names.all fun n => C.cast (ty k n) pad == pad) &&
    names.all (fun n => C.cast (promotedType C ty a.inputs.length n) pad == pad) &&
    ins.all fun (_, i) => names.all fun n =>
      (List.range i.laser.data.h).all fun r => (List.range i.laser.data.w).all fun c =>
        C.cast (promotedType C ty a.inputs.length n) (i.laser.data.get r c n) == i.laser.data.get r c n

/-- the library filter as a table keyed by the CONTENT of the grid it is handed (shape and every
token): a grid that is not one of the fields the harness filtered gives a grid of `-1` -/
structure FilterRow where
  h : Nat
  w : Nat
  src : Array Tok
  dst : Array Tok

def parseFilterRow (j : Json) : R FilterRow := do
  let h ← getNat j "h"
  let w ← getNat j "w"
  let src ← getList asInt j "src"
  let dst ← getList asInt j "dst"
  if src.length ≠ h * w ∨ dst.length ≠ h * w then throw "filter table: data/shape mismatch"
  pure { h := h, w := w, src := src.toArray, dst := dst.toArray }

def flattenGrid (g : Grid Tok) : Array Tok :=
  (Array.range (g.h * g.w)).map fun p => g.get (p / g.w) (p % g.w)

def tableFilter (t : List FilterRow) : Grid Tok → Grid Tok := fun g =>
  let flat := flattenGrid g
  match t.find? (fun r => r.h == g.h && r.w == g.w && r.src == flat) with
  | some r => mkGrid g.h g.w r.dst
  | none => { h := g.h, w := g.w, get := fun _ _ => -1 }

def parseOrient (s : String) : R Orient :=
  match s with
  | "vertical" => pure .vertical
  | "horizontal" => pure .horizontal
  | _ => throw s!"bad orientation {s}"

def jPath (p : Path) : Json := jStr p.full

def jGrid (g : Grid Tok) : Json :=
  jList (fun i => jList (fun j => jInt (g.get i j)) (List.range g.w)) (List.range g.h)

def jFile (f : File) : Json :=
  match f.content with
  | .npz l =>
    jObj [("path", jPath f.path), ("kind", jStr "npz"), ("elements", jList jStr l.elements),
          ("shape", jList jNat [l.data.h, l.data.w]),
          ("data", jList (fun e => jGrid (l.field e)) l.elements),
          ("config", jCfg l.config), ("calib", jList (fun e => jInt (l.calib e)) l.elements)]
  | .csv g =>
    jObj [("path", jPath f.path), ("kind", jStr "csv"), ("shape", jList jNat [g.h, g.w]), ("data", jGrid g)]
  | .vtk l =>
    jObj [("path", jPath f.path), ("kind", jStr "vtk"), ("elements", jList jStr l.elements),
          ("shape", jList jNat [l.data.h, l.data.w]),
          ("data", jList (fun e => jGrid (l.field e)) l.elements),
          ("config", jCfg l.config)]

/-- the files on disk afterwards (`finalFiles`: a later file replaces an earlier one at the same path), and how many
were written -/
def jResult (r : Result) : Json :=
  jObj [("status", jStr (if r.status = .ok then "ok" else "error")), ("files", jList jFile (finalFiles r.files)),
        ("written", jNat r.files.length)]

/-- the image `load` returns for a path (or how it fails) -/
def jLoadFull : Except Fail (Loader × Laser) → Json
  | .ok x =>
    jObj [("loader", jLoader x.1), ("elements", jList jStr x.2.elements), ("shape", jList jNat [x.2.data.h, x.2.data.w]),
          ("data", jList (fun e => jGrid (x.2.field e)) x.2.elements), ("config", jCfg x.2.config),
          ("calib", jList (fun e => jInt (x.2.calib e)) x.2.elements)]
  | .error .usage => jObj [("fail", jStr "usage")]
  | .error .crash => jObj [("fail", jStr "crash")]

def jLoad : Except Fail (Loader × Laser) → Json
  | .ok x => jLoader x.1
  | .error .usage => jObj [("fail", jStr "usage")]
  | .error .crash => jObj [("fail", jStr "crash")]

def handle (op : String) (req : Json) : R Json := do
  match op with
  | "c20.plan" =>
    -- the library calls the TABLE names for each path, in the order in which they are to be tried
    let srcs ← getList parseSource req "sources"
    pure (jObj [("candidates", jList (fun (s : Source) =>
      jList jLoader ((table.filter (·.guard s)).flatMap (·.candidates))) srcs)])
  | "c20.run" =>
    let defaults ← match ← getList asInt req "defaults" with
      | [a, b, c] => pure (a, b, c)
      | _ => throw "defaults: three tokens expected"
    let srcxs ← getList parseSourceX req "sources"
    let srcs := srcxs.map (·.1)
    let casting ← parseCasting req
    -- the field types of the image `load` (the mechanism) delivers for argument k
    let tys : List (String → DType) := srcxs.map fun (s, t) =>
      match loadMech defaults s with
      | .ok (ld, _) => t ld
      | .error _ => fun _ => "<f8"
    let ty : Nat → String → DType := fun k => tys.getD k (fun _ => "<f8")
    let format ← getStr req "format"
    let output ← fld req "output" >>= asOpt parsePath
    let outIsDir ← getBool req "output_is_dir"
    let isDir : Path → Bool := fun p => outIsDir && (some p == output)
    let cmdName ← getStr req "cmd"
    let cmd : Cmd ← match cmdName with
      | "convert" => do
        let cfg ← fld req "config" >>= asOpt parseCfg
        let els ← fld req "elements" >>= asOpt (asList asStr)
        pure (Cmd.convert cfg els)
      | "filter" => do
        let sel ← fld req "elements" >>= asOpt (asList asStr)
        let t ← getList parseFilterRow req "filter_table"
        -- the same library filter for every input and element; it sees the grid it is handed
        pure (Cmd.filter (fun _ _ => tableFilter t) sel)
      | "stack" => do
        let o ← getStr req "orientation" >>= parseOrient
        let pad ← getInt req "pad"
        pure (Cmd.stack o pad)
      | _ => throw s!"bad cmd {cmdName}"
    let c : CmdLine := { cmd := cmd, calibrate := ← getBool req "calibrate", sources := srcs, format := format,
                         output := output, isDir := isDir, defaults := defaults }
    let holds : Bool :=
      if c.sources.any (fun s => !s.present) || c.calibrate then true
      else match c.sources.mapM (loadSpec c.defaults) with
        | .ok ls => typesHold casting ty (c.args ls)
        | .error _ => true
    pure (jObj [("model", jResult (mainRunT casting ty c)), ("spec", jResult (specMain c)),
                ("types_hold", jBool holds),
                ("model_loaders", jList (fun s => jLoad (loadMech defaults s)) srcs),
                ("spec_loaders", jList (fun s => jLoad (loadSpec defaults s)) srcs),
                ("model_loads", jList (fun s => jLoadFull (loadMech defaults s)) srcs),
                ("spec_loads", jList (fun s => jLoadFull (loadSpec defaults s)) srcs)])
  | _ => throw s!"unknown op {op}"

end PewDriver.C20
