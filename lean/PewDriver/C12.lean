import PewDriver.Util
import PewModel.Register
open Lean
namespace PewDriver.C12
open PewDriver Pew.Register

def flatIndex : List Nat → List Nat → Option Nat
  | [], [] => some 0
  | s :: ss, i :: is =>
    if i < s then (flatIndex ss is).map (fun r => i * ss.foldl (· * ·) 1 + r) else none
  | _, _ => none

def mkGet (shape : List Nat) (data : Array Rat) : List Nat → Rat := fun idx =>
  match flatIndex shape idx with
  | some k => data.getD k 0
  | none => 0

def parseImg (j : Json) : R Img := do
  let shape ← getList asNat j "shape"
  let data ← getList asRat j "data"
  if data.length ≠ shape.foldl (· * ·) 1 then throw "data/shape mismatch"
  if shape.any (· == 0) then throw "empty axis"
  pure { shape := shape, get := mkGet shape data.toArray }

def parseAnchor (s : String) : R Anchor :=
  match s with
  | "top left" => pure .topLeft
  | "top right" => pure .topRight
  | "bottom left" => pure .bottomLeft
  | "bottom right" => pure .bottomRight
  | "center" => pure .center
  | _ => throw s!"bad anchor {s}"

def jPair (p : Int × Int) : Json := jList jInt [p.1, p.2]

def handle (op : String) (req : Json) : R Json := do
  match op with
  | "c12.register" =>
    let a ← fld req "a" >>= parseImg
    let b ← fld req "b" >>= parseImg
    if a.shape.length ≠ b.shape.length then throw "dimension mismatch"
    let model := register a b
    match peak a b with
    | none => throw "empty lag box"
    | some pk =>
      pure (jObj [("model", jList jInt model), ("lag", jList jInt pk.lag), ("max", jRat pk.value),
                  ("runner", jOpt jRat pk.runnerUp)])
  | "c12.anchor" =>
    -- every anchor for one `a` shape and a list of `b` shapes
    let a ← getList asInt req "a"
    let bs ← getList (asList asInt) req "bs"
    let names ← getList asStr req "anchors"
    let ans ← names.mapM parseAnchor
    match a with
    | [a0, a1] =>
      let rows ← bs.mapM (fun b => match b with
        | [b0, b1] => pure (ans.map fun an => (anchorMech a0 a1 b0 b1 an, anchorSpec a0 a1 b0 b1 an))
        | _ => throw "b must be 2-D")
      pure (jObj [("model", jList (jList (fun r => jPair r.1)) rows),
                  ("spec", jList (jList (fun r => jPair r.2)) rows)])
    | _ => throw "a must be 2-D"
  | "c12.merge" =>
    -- two windows of one scene merged at their true offsets (scene coordinates)
    let sc ← fld req "scene" >>= parseImg
    let ndim := sc.shape.length
    let offA ← getList asInt req "offA"
    let offB ← getList asInt req "offB"
    let shA ← getList asNat req "shapeA"
    let shB ← getList asNat req "shapeB"
    let scene : Pew.Overlap.Idx → Rat := fun p =>
      if p.all (0 ≤ ·) then sc.get (p.map Int.toNat) else 0
    let arrs := [window scene offA shA, window scene offB shB]
    let mo := Pew.Overlap.minOffset ndim arrs
    let (sh, mv) := Pew.Overlap.overlap false .replace none ndim arrs
    let sv := (Pew.Overlap.allIdx (sh.map Int.toNat)).map
      (fun p => sceneOnUnion scene none arrs (List.zipWith (· + ·) p mo))
    pure (jObj [("shape", jList jInt sh), ("model", jList (jOpt jRat) mv), ("spec", jList (jOpt jRat) sv)])
  | _ => throw s!"unknown op {op}"

end PewDriver.C12
