import PewDriver.Util
import PewModel.RegisterFast
open Lean
namespace PewDriver.C12
open PewDriver Pew.Register

def parseImg (j : Json) : R Img := do
  let shape ← getList asNat j "shape"
  let data ← getList asRat j "data"
  if data.length ≠ shape.foldl (· * ·) 1 then throw "data/shape mismatch"
  if shape.any (· == 0) then throw "empty axis"
  pure (mkImg shape data)

/-! The array twin of the correlation (`toFImg`, `fastLin`, `fastCirc`, `peakOfTable`, `peakOf`, `registerOf`) lives
in `PewModel.RegisterFast` and is proved equal to the model in `PewTheorems.C12` (`fastLin_eq_xcorr`,
`fastCirc_eq_xcorrCirc`, `peakOfTable_fast_eq_peak`, `registerOf_fast_eq_register`).  The run-time comparisons below
(`c12.register`: model and twin over the whole lag box; `c12.registerLong`: model at the decisive lags) are kept as
a cheap sanity check of the compiled code. -/

def parseBoth (j : Json) : R (Img × FImg) := do
  let shape ← getList asNat j "shape"
  let data ← getList asRat j "data"
  if data.length ≠ shape.foldl (· * ·) 1 then throw "data/shape mismatch"
  if shape.any (· == 0) then throw "empty axis"
  pure (mkImg shape data, toFImg shape data)

def samePeak (p q : Peak) : Bool :=
  p.lag == q.lag && p.value == q.value && p.runnerUp == q.runnerUp

/-- a spread of lags of the lag box: its corners, zero lag, and `n` further lags picked by a fixed
linear congruence over the flat lag index -/
def spreadLags (sa sb : List Nat) (n : Nat) : List (List Int) :=
  let s := padShape sa sb
  let total := s.foldl (· * ·) 1
  let unflat (i : Nat) : List Int :=
    let (_, ds) := s.foldr (fun d (acc : Nat × List Nat) => (acc.1 / d, (acc.1 % d) :: acc.2)) (i, [])
    (List.zip ds sb).map fun p => (p.1 : Int) - ((p.2 : Int) - 1)
  let corners := (List.zip sa sb).foldr
    (fun p (acc : List (List Int)) => acc.flatMap fun r => [(-((p.2 : Int) - 1)) :: r, ((p.1 : Int) - 1) :: r]) [[]]
  let picks := (List.range n).map fun i => unflat ((i * 2654435761 + 12345) % total)
  (sa.map fun _ => (0 : Int)) :: corners ++ picks

def parseAnchor (s : String) : R Anchor :=
  match s with
  | "top left" => pure .topLeft
  | "top right" => pure .topRight
  | "bottom left" => pure .bottomLeft
  | "bottom right" => pure .bottomRight
  | "center" => pure .center
  | _ => throw s!"bad anchor {s}"

def jPair (p : Int × Int) : Json := jList jInt [p.1, p.2]

def handle (op : String) (req : Json) : R Json := do
  match op with
  | "c12.register" =>
    -- the model over the whole lag box, and the array twin beside it: they must agree in everything
    let (a, fa) ← fld req "a" >>= parseBoth
    let (b, fb) ← fld req "b" >>= parseBoth
    if a.shape.length ≠ b.shape.length then throw "dimension mismatch"
    let model := register a b
    let model' := registerOf (fastCirc fa fb) a.shape b.shape
    if model != model' then throw s!"array twin differs from the model (register): {model} vs {model'}"
    match peak a b, peakOf (fastLin fa fb) (lags a.shape b.shape) with
    | some pk, some pk' =>
      if !samePeak pk pk' then
        throw s!"array twin differs from the model (peak): {pk.lag} {pk.value} vs {pk'.lag} {pk'.value}"
      -- theorem peak_margin_register: a positive margin makes the mechanism return the reported lag
      let positive := match pk.runnerUp with | some r => decide (r < pk.value) | none => true
      if positive && model != pk.lag then
        throw s!"peak_margin_register contradicted: margin positive, register = {model}, peak lag = {pk.lag}"
      -- the decidable scene hypothesis of theorem register_truth at the translation the harness used
      let truth ← getList asInt req "truth"
      let th := truthHyp a b truth
      if th && (!positive || pk.lag != truth) then
        throw s!"register_truth contradicted: truthHyp holds at {truth}, peak lag = {pk.lag}"
      -- the hypothesis of theorem register_zero_background (empty background) at the same translation
      let zb := zeroBgHyp a b truth
      if zb && (!positive || pk.lag != truth || model != truth) then
        throw s!"register_zero_background contradicted: zeroBgHyp holds at {truth}, peak lag = {pk.lag}, register = {model}"
      pure (jObj [("model", jList jInt model), ("lag", jList jInt pk.lag), ("max", jRat pk.value),
                  ("runner", jOpt jRat pk.runnerUp), ("truthHyp", jBool th), ("zeroBg", jBool zb)])
    | _, _ => throw "empty lag box"
  | "c12.registerLong" =>
    -- long axes: the array twin over the whole lag box, the model at the decisive lags
    let (a, fa) ← fld req "a" >>= parseBoth
    let (b, fb) ← fld req "b" >>= parseBoth
    if a.shape.length ≠ b.shape.length then throw "dimension mismatch"
    let asked ← getList (asList asInt) req "probe"
    let truth ← getList asInt req "truth"
    let s := padShape a.shape b.shape
    let ls := lags a.shape b.shape
    let table := ls.map (fun l => (l, fastLin fa fb l))
    let model := registerOf (fastCirc fa fb) a.shape b.shape
    match peakOfTable table with
    | none => throw "empty lag box"
    | some pk =>
      let ruLag := match pk.runnerUp with
        | some v => ((table.find? (fun q => q.1 != pk.lag && q.2 == v)).map (·.1)).toList
        | none => []
      let probes := ((pk.lag :: model :: ruLag) ++ asked ++ spreadLags a.shape b.shape 12).filter
        (inLagBox a.shape b.shape)
      let mut seen : List (List Int) := []
      let mut values : List (List Int × Rat) := []
      for l in probes do
        if !seen.contains l then
          seen := l :: seen
          let v := xcorr a b l
          if v != fastLin fa fb l then throw s!"array twin differs from the model: xcorr at lag {l}"
          let k := encode s l
          if xcorrCirc a b k != fastCirc fa fb k then throw s!"array twin differs from the model: xcorrCirc at {k}"
          if decode a.shape s k != l then throw s!"decode (encode {l}) differs"
          values := (l, v) :: values
      let valueAt (l : List Int) : Json := jOpt jRat ((values.find? (·.1 == l)).map (·.2))
      -- theorem peak_margin_registerOf_fast
      let positive := match pk.runnerUp with | some r => decide (r < pk.value) | none => true
      if positive && model != pk.lag then
        throw s!"peak_margin_registerOf_fast contradicted: margin positive, register = {model}, peak lag = {pk.lag}"
      -- theorem register_zero_background: its hypothesis is linear in the image sizes, so it is evaluated here too
      let zb := zeroBgHyp a b truth
      if zb && (!positive || pk.lag != truth || model != truth) then
        throw s!"register_zero_background contradicted: zeroBgHyp holds at {truth}, peak lag = {pk.lag}, register = {model}"
      pure (jObj [("model", jList jInt model), ("lag", jList jInt pk.lag), ("max", jRat pk.value),
                  ("runner", jOpt jRat pk.runnerUp), ("probed", jNat seen.length),
                  ("asked", jList valueAt asked), ("truthHyp", Json.null), ("zeroBg", jBool zb)])
  | "c12.anchor" =>
    -- every anchor for one `a` shape and a list of `b` shapes
    let a ← getList asInt req "a"
    let bs ← getList (asList asInt) req "bs"
    let names ← getList asStr req "anchors"
    let ans ← names.mapM parseAnchor
    match a with
    | [a0, a1] =>
      let rows ← bs.mapM (fun b => match b with
        | [b0, b1] => pure (ans.map fun an => (anchorMech a0 a1 b0 b1 an, anchorSpec a0 a1 b0 b1 an))
        | _ => throw "b must be 2-D")
      pure (jObj [("model", jList (jList (fun r => jPair r.1)) rows),
                  ("spec", jList (jList (fun r => jPair r.2)) rows)])
    | _ => throw "a must be 2-D"
  | "c12.merge" =>
    -- register, then merge: the two images themselves (`placed`), the first at the origin, the second at the ESTIMATE
    -- (`est`: what the mechanism model returned for this pair), against `mergeSpec` of the scene in the first image's
    -- frame with the second window at the TRUE translation — the two sides of theorem merge_at_estimate
    let sc ← fld req "scene" >>= parseImg
    let ndim := sc.shape.length
    let offA ← getList asInt req "offA"
    let offB ← getList asInt req "offB"
    let shA ← getList asNat req "shapeA"
    let shB ← getList asNat req "shapeB"
    let est ← getList asInt req "est"
    if offA.length ≠ ndim || offB.length ≠ ndim || shA.length ≠ ndim || shB.length ≠ ndim || est.length ≠ ndim then
      throw "c12.merge: dimension mismatch"
    let sceneAbs : Pew.Overlap.Idx → Rat := fun p =>
      if p.all (0 ≤ ·) then sc.get (p.map Int.toNat) else 0
    -- the scene in the frame of the first image
    let scene : Pew.Overlap.Idx → Rat := fun p => sceneAbs (List.zipWith (· + ·) p offA)
    let t := List.zipWith (· - ·) offB offA
    let zeros := List.replicate ndim (0 : Int)
    let a : Img := ⟨shA, fun n => scene (n.map Int.ofNat)⟩
    let b : Img := ⟨shB, fun n => scene (List.zipWith (· + ·) (n.map Int.ofNat) t)⟩
    let arrs := [placed a zeros, placed b est]
    let truthWs := [window scene zeros shA, window scene t shB]
    -- one result per requested (mode, fill) (replace and mean modes: merge_whole / merge_at_estimate)
    let variants ← getList (fun v => do
      let ms ← getStr v "mode"
      let m ← (match ms with
        | "replace" => pure Pew.Overlap.Mode.replace
        | "mean" => pure Pew.Overlap.Mode.mean
        | _ => throw s!"c12.merge: mode {ms} is not covered by merge_whole")
      let fill ← fld v "fill" >>= asOpt asRat
      pure (m, fill)) req "variants"
    let outs := variants.map fun (mf : Pew.Overlap.Mode × Pew.Overlap.V) =>
      let (sh, mv) := Pew.Overlap.overlap false mf.1 mf.2 ndim arrs
      let (sh', sv) := mergeSpec scene mf.2 ndim truthWs
      jObj [("shape", jList jInt sh), ("specShape", jList jInt sh'), ("model", jList (jOpt jRat) mv),
            ("spec", jList (jOpt jRat) sv)]
    pure (jObj [("results", Json.arr outs.toArray)])
  | _ => throw s!"unknown op {op}"

end PewDriver.C12
