import PewDriver.Util
import PewModel.Register
open Lean
namespace PewDriver.C12
open PewDriver Pew.Register

def flatIndex : List Nat → List Nat → Option Nat
  | [], [] => some 0
  | s :: ss, i :: is =>
    if i < s then (flatIndex ss is).map (fun r => i * ss.foldl (· * ·) 1 + r) else none
  | _, _ => none

def mkGet (shape : List Nat) (data : Array Rat) : List Nat → Rat := fun idx =>
  match flatIndex shape idx with
  | some k => data.getD k 0
  | none => 0

def parseImg (j : Json) : R Img := do
  let shape ← getList asNat j "shape"
  let data ← getList asRat j "data"
  if data.length ≠ shape.foldl (· * ·) 1 then throw "data/shape mismatch"
  if shape.any (· == 0) then throw "empty axis"
  pure { shape := shape, get := mkGet shape data.toArray }

/-! ## array twin of the correlation (evaluation machinery, NOT part of the model)

The model reads an image through a function on index lists; `xcorr` / `xcorrCirc` cost about half a
microsecond per product, which rules out axes whose transform length exceeds 1024 (10^6 .. 10^8
products per call).  The twin below evaluates the same two sums on flat integer arrays (values are
brought to a common denominator, the common factor of the numerators is taken out):

* `fastLin`  — `xcorr a b l`  (`Σ_{n ∈ box b} a[n + l] · b[n]`, reads outside `a` are zero),
* `fastCirc` — `xcorrCirc a b k` (`Σ_{n ∈ box b} apad[(n + k) mod s] · b[n]`; the terms `n ∉ box b`, which
  the model adds as zeros, are skipped),

and `peakOf` / `registerOf` are `Pew.Register.peak` / `register` with the correlation passed in.
The twin is tied to the model at run time: `c12.register` (every case below the cost limit) evaluates
the model AND the twin over the whole lag box and refuses to answer when they differ in anything;
`c12.registerLong` cross-checks the twin against `xcorr` and `xcorrCirc` of the model at the decisive lags
(maximum, runner-up, true translation, the implementation's answer, the mechanism's answer, the corners
of the lag box, zero lag and a spread of other lags). -/

structure FImg where
  shape : List Nat
  strides : List Nat
  data : Array Int
  /-- value = data · scale -/
  scale : Rat

def stridesOf : List Nat → List Nat
  | [] => []
  | _ :: ss => ss.foldl (· * ·) 1 :: stridesOf ss

def toFImg (shape : List Nat) (data : List Rat) : FImg :=
  let D := data.foldl (fun d q => Nat.lcm d q.den) 1
  let ints := data.map fun q => q.num * ((D / q.den : Nat) : Int)
  let G := ints.foldl (fun g v => Nat.gcd g v.natAbs) 0
  let G := if G = 0 then 1 else G
  { shape := shape, strides := stridesOf shape, data := (ints.map (· / (G : Int))).toArray,
    scale := mkRat (G : Int) D }

def sumLoop (lo n : Nat) (f : Nat → Int) : Int := go n lo 0
where
  go : Nat → Nat → Int → Int
    | 0, _, acc => acc
    | k + 1, i, acc => go k (i + 1) (acc + f i)

/-- axes: `(a, b, stride of a, stride of b)` -/
def linGo (A B : Array Int) : List (Nat × Nat × Nat × Nat) → List Int → Nat → Nat → Int
  | [], _, ia, ib => A.getD ia 0 * B.getD ib 0
  | [(a, b, sa, sb)], [l], ia, ib =>
    -- innermost axis, the same sum as the general case written without the recursive call
    let lo := (-l).toNat
    let hi := min b ((a : Int) - l).toNat
    sumLoop lo (hi - lo) fun n => A.getD (ia + ((n : Int) + l).toNat * sa) 0 * B.getD (ib + n * sb) 0
  | (a, b, sa, sb) :: rest, l :: ls, ia, ib =>
    -- the `n` with `0 ≤ n + l < a`, `n < b`
    let lo := (-l).toNat
    let hi := min b ((a : Int) - l).toNat
    sumLoop lo (hi - lo) fun n => linGo A B rest ls (ia + ((n : Int) + l).toNat * sa) (ib + n * sb)
  | _ :: _, [], _, _ => 0

def circGo (A B : Array Int) : List (Nat × Nat × Nat × Nat) → List Nat → Nat → Nat → Int
  | [], _, ia, ib => A.getD ia 0 * B.getD ib 0
  | [(a, b, sa, sb)], [k], ia, ib =>
    let s := a + b - 1
    sumLoop 0 b fun n =>
      let m := (n + k) % s
      if m < a then A.getD (ia + m * sa) 0 * B.getD (ib + n * sb) 0 else 0
  | (a, b, sa, sb) :: rest, k :: ks, ia, ib =>
    let s := a + b - 1
    sumLoop 0 b fun n =>
      let m := (n + k) % s
      if m < a then circGo A B rest ks (ia + m * sa) (ib + n * sb) else 0
  | _ :: _, [], _, _ => 0

def axesOf (a b : FImg) : List (Nat × Nat × Nat × Nat) :=
  (List.zip (List.zip a.shape b.shape) (List.zip a.strides b.strides)).map
    fun p => (p.1.1, p.1.2, p.2.1, p.2.2)

def fastLin (a b : FImg) (l : List Int) : Rat :=
  ((linGo a.data b.data (axesOf a b) l 0 0 : Int) : Rat) * (a.scale * b.scale)

def fastCirc (a b : FImg) (k : List Nat) : Rat :=
  ((circGo a.data b.data (axesOf a b) k 0 0 : Int) : Rat) * (a.scale * b.scale)

/-- `Pew.Register.peak` with the correlation passed in -/
def peakOfTable (tbl : List (List Int × Rat)) : Option Peak :=
  match tbl with
  | [] => none
  | p :: ps =>
    let best := ps.foldl (fun best q => if best.2 < q.2 then q else best) p
    let others := ((p :: ps).filter (fun q => q.1 != best.1)).map (·.2)
    let ru := match others with
      | [] => none
      | o :: os => some (os.foldl (fun m v => if m < v then v else m) o)
    some { lag := best.1, value := best.2, runnerUp := ru }

def peakOf (f : List Int → Rat) (ls : List (List Int)) : Option Peak :=
  peakOfTable (ls.map (fun l => (l, f l)))

/-- `Pew.Register.register` with the circular correlation passed in -/
def registerOf (f : List Nat → Rat) (sa sb : List Nat) : List Int :=
  let s := padShape sa sb
  match argmaxFirst f (allIdx s) with
  | some (k, _) => decode sa s k
  | none => []

def parseBoth (j : Json) : R (Img × FImg) := do
  let shape ← getList asNat j "shape"
  let data ← getList asRat j "data"
  if data.length ≠ shape.foldl (· * ·) 1 then throw "data/shape mismatch"
  if shape.any (· == 0) then throw "empty axis"
  pure ({ shape := shape, get := mkGet shape data.toArray }, toFImg shape data)

def samePeak (p q : Peak) : Bool :=
  p.lag == q.lag && p.value == q.value && p.runnerUp == q.runnerUp

/-- a spread of lags of the lag box: its corners, zero lag, and `n` further lags picked by a fixed
linear congruence over the flat lag index -/
def spreadLags (sa sb : List Nat) (n : Nat) : List (List Int) :=
  let s := padShape sa sb
  let total := s.foldl (· * ·) 1
  let unflat (i : Nat) : List Int :=
    let (_, ds) := s.foldr (fun d (acc : Nat × List Nat) => (acc.1 / d, (acc.1 % d) :: acc.2)) (i, [])
    (List.zip ds sb).map fun p => (p.1 : Int) - ((p.2 : Int) - 1)
  let corners := (List.zip sa sb).foldr
    (fun p (acc : List (List Int)) => acc.flatMap fun r => [(-((p.2 : Int) - 1)) :: r, ((p.1 : Int) - 1) :: r]) [[]]
  let picks := (List.range n).map fun i => unflat ((i * 2654435761 + 12345) % total)
  (sa.map fun _ => (0 : Int)) :: corners ++ picks

def parseAnchor (s : String) : R Anchor :=
  match s with
  | "top left" => pure .topLeft
  | "top right" => pure .topRight
  | "bottom left" => pure .bottomLeft
  | "bottom right" => pure .bottomRight
  | "center" => pure .center
  | _ => throw s!"bad anchor {s}"

def jPair (p : Int × Int) : Json := jList jInt [p.1, p.2]

def handle (op : String) (req : Json) : R Json := do
  match op with
  | "c12.register" =>
    -- the model over the whole lag box, and the array twin beside it: they must agree in everything
    let (a, fa) ← fld req "a" >>= parseBoth
    let (b, fb) ← fld req "b" >>= parseBoth
    if a.shape.length ≠ b.shape.length then throw "dimension mismatch"
    let model := register a b
    let model' := registerOf (fastCirc fa fb) a.shape b.shape
    if model != model' then throw s!"array twin differs from the model (register): {model} vs {model'}"
    match peak a b, peakOf (fastLin fa fb) (lags a.shape b.shape) with
    | some pk, some pk' =>
      if !samePeak pk pk' then
        throw s!"array twin differs from the model (peak): {pk.lag} {pk.value} vs {pk'.lag} {pk'.value}"
      pure (jObj [("model", jList jInt model), ("lag", jList jInt pk.lag), ("max", jRat pk.value),
                  ("runner", jOpt jRat pk.runnerUp)])
    | _, _ => throw "empty lag box"
  | "c12.registerLong" =>
    -- long axes: the array twin over the whole lag box, the model at the decisive lags
    let (a, fa) ← fld req "a" >>= parseBoth
    let (b, fb) ← fld req "b" >>= parseBoth
    if a.shape.length ≠ b.shape.length then throw "dimension mismatch"
    let asked ← getList (asList asInt) req "probe"
    let s := padShape a.shape b.shape
    let ls := lags a.shape b.shape
    let table := ls.map (fun l => (l, fastLin fa fb l))
    let model := registerOf (fastCirc fa fb) a.shape b.shape
    match peakOfTable table with
    | none => throw "empty lag box"
    | some pk =>
      let ruLag := match pk.runnerUp with
        | some v => ((table.find? (fun q => q.1 != pk.lag && q.2 == v)).map (·.1)).toList
        | none => []
      let probes := ((pk.lag :: model :: ruLag) ++ asked ++ spreadLags a.shape b.shape 12).filter
        (inLagBox a.shape b.shape)
      let mut seen : List (List Int) := []
      let mut values : List (List Int × Rat) := []
      for l in probes do
        if !seen.contains l then
          seen := l :: seen
          let v := xcorr a b l
          if v != fastLin fa fb l then throw s!"array twin differs from the model: xcorr at lag {l}"
          let k := encode s l
          if xcorrCirc a b k != fastCirc fa fb k then throw s!"array twin differs from the model: xcorrCirc at {k}"
          if decode a.shape s k != l then throw s!"decode (encode {l}) differs"
          values := (l, v) :: values
      let valueAt (l : List Int) : Json := jOpt jRat ((values.find? (·.1 == l)).map (·.2))
      pure (jObj [("model", jList jInt model), ("lag", jList jInt pk.lag), ("max", jRat pk.value),
                  ("runner", jOpt jRat pk.runnerUp), ("probed", jNat seen.length),
                  ("asked", jList valueAt asked)])
  | "c12.anchor" =>
    -- every anchor for one `a` shape and a list of `b` shapes
    let a ← getList asInt req "a"
    let bs ← getList (asList asInt) req "bs"
    let names ← getList asStr req "anchors"
    let ans ← names.mapM parseAnchor
    match a with
    | [a0, a1] =>
      let rows ← bs.mapM (fun b => match b with
        | [b0, b1] => pure (ans.map fun an => (anchorMech a0 a1 b0 b1 an, anchorSpec a0 a1 b0 b1 an))
        | _ => throw "b must be 2-D")
      pure (jObj [("model", jList (jList (fun r => jPair r.1)) rows),
                  ("spec", jList (jList (fun r => jPair r.2)) rows)])
    | _ => throw "a must be 2-D"
  | "c12.merge" =>
    -- two windows of one scene merged at their true offsets (scene coordinates)
    let sc ← fld req "scene" >>= parseImg
    let ndim := sc.shape.length
    let offA ← getList asInt req "offA"
    let offB ← getList asInt req "offB"
    let shA ← getList asNat req "shapeA"
    let shB ← getList asNat req "shapeB"
    let scene : Pew.Overlap.Idx → Rat := fun p =>
      if p.all (0 ≤ ·) then sc.get (p.map Int.toNat) else 0
    let arrs := [window scene offA shA, window scene offB shB]
    let mo := Pew.Overlap.minOffset ndim arrs
    let (sh, mv) := Pew.Overlap.overlap false .replace none ndim arrs
    let sv := (Pew.Overlap.allIdx (sh.map Int.toNat)).map
      (fun p => sceneOnUnion scene none arrs (List.zipWith (· + ·) p mo))
    pure (jObj [("shape", jList jInt sh), ("model", jList (jOpt jRat) mv), ("spec", jList (jOpt jRat) sv)])
  | _ => throw s!"unknown op {op}"

end PewDriver.C12
