import PewDriver.Util
import PewModel.Filters
open Lean
namespace PewDriver.C13
open PewDriver Pew.Filters

def chunk (n : Nat) (l : List Rat) : Nat → List (List Rat)
  | 0 => []
  | k + 1 => l.take n :: chunk n (l.drop n) k

def chunkF (n : Nat) (l : List Float) : Nat → List (List Float)
  | 0 => []
  | k + 1 => l.take n :: chunkF n (l.drop n) k

/-- per-pixel extras: the magnitude `rabs` and the flag `fexact` (the float decision is the exact one) -/
structure Extra where
  rabs : Option Rat
  fexact : Bool
  flat0 : Bool := false

/-- lhs/rhs of the decision in the form the harness needs for the margin: mean filter `d²` against
`t²·s`, median filter `d` against `t·s`; `rhs = null` for an infinite threshold -/
def jCell (sq : Bool) (t : Option Rat) (c : Cell) (e : Extra) : Json :=
  let rabs := e.rabs
  let lhs := if sq then c.d * c.d else c.d
  let rhs := t.map (fun t => if sq then t * t * c.s else t * c.s)
  let o := if sq then c.outlierSq t else c.outlierLin t
  jObj [("x", jRat c.x), ("lhs", jRat lhs), ("rhs", jOpt jRat rhs), ("repl", jRat c.repl),
        ("rabs", jOpt jRat rabs), ("fexact", jBool e.fexact), ("flat0", jBool e.flat0),
        ("outlier", jBool o), ("out", jRat (if sq then c.outSq t else c.outLin t))]

def jSpec (sq : Bool) (t : Option Rat) (s : SpecPx) (e : Extra) : Json :=
  match s with
  | .exact c => (jCell sq t c e).setObjVal! "kind" (jStr "exact")
  | .range x lo hi => jObj [("kind", jStr "range"), ("x", jRat x), ("lo", jRat lo), ("hi", jRat hi)]

/-- the replacement of an interior pixel of the image of absolute values: the mean magnitude of the
values the replacement averages (`none` for border pixels and when not asked for) -/
def specRabs (want : Bool) : SpecPx → Option Rat
  | .exact c => if want then some c.repl else none
  | .range _ _ _ => none

def cellRabs (want : Bool) (cells cellsA : List Cell) : List (Option Rat) :=
  if want then cellsA.map (fun c => some c.repl) else cells.map (fun _ => none)

def zip3J (f : Cell → Extra → Json) (a : List Cell) (b : List (Option Rat)) (c : List (Bool × Bool)) : Json :=
  Json.arr (zip3With (fun x r e => f x ⟨r, e.1, e.2⟩) a b c).toArray

def noExtra : Extra := ⟨none, false, false⟩

/-- the `(2h+1)` neighbourhood of an interior pixel and the same without the pixel (1-D) -/
def specExact1 (p : Nat) (emin : Int) (t : Option Rat) (b : Nat) (x : List Rat) (i : Nat) : Bool × Bool :=
  let h := b / 2
  let w := slice (i - h) (2 * h + 1) x
  let o := slice (i - h) h x ++ slice (i + 1) h x
  if interior b x.length i then (meanDecisionExact p emin t (at1 x i) w o, flatSpreadExact p emin w o) else (false, false)

def specExact2 (p : Nat) (emin : Int) (t : Option Rat) (b0 b1 : Nat) (x : List (List Rat)) (i j : Nat) : Bool × Bool :=
  let w := nbhd2 (b0 / 2) (b1 / 2) x i j
  let o := others2 (b0 / 2) (b1 / 2) x i j
  if interior b0 x.length i && interior b1 (x.headD []).length j then
    (meanDecisionExact p emin t (at2 x i j) w o, flatSpreadExact p emin w o)
  else (false, false)

def handle (op : String) (req : Json) : R Json := do
  match op with
  | "c13.filter" =>
    let kind ← getStr req "kind"
    let shape ← getList asNat req "shape"
    let data ← getList asRat req "data"
    let block ← getList asNat req "block"
    let t ← fld req "threshold" >>= asOpt asRat
    if data.length ≠ shape.foldl (· * ·) 1 then throw "data/shape mismatch"
    if block.length ≠ shape.length then throw "block/shape mismatch"
    let sq ← match kind with
      | "mean" => pure true
      | "median" => pure false
      | _ => throw s!"bad kind {kind}"
    -- "rint": the image has an integer dtype, np.pad rounds its pad values (half to even)
    let (πmean, πmed) ← match (← getStr req "pad") with
      | "exact" => pure (mean, median)
      | "rint" => pure ((fun l => rint (mean l)), (fun l => rint (median l)))
      | m => throw s!"bad pad mode {m}"
    -- `rabs`: also the mean filter on the image of absolute values (magnitude of the values a replacement averages)
    let wantAbs := (← getBool req "rabs") && sq
    -- the computing format (binary64: 53, -1074; binary32: 24, -149) for `fexact`
    let fp ← getNat req "p"
    let femin ← getInt req "emin"
    match shape, block with
    | [n], [b] =>
      let cells := if sq then meanCellsP1 πmean b data else medianCellsP1 πmed median b data
      let cellsA := cellRabs wantAbs cells (if wantAbs then meanCellsP1 πmean b (abs1 data) else [])
      let cellsE := if sq then cellsG1 πmean (fun xi w =>
            (meanDecisionExact fp femin t xi w (w.eraseIdx (b / 2)), flatSpreadExact fp femin w (w.eraseIdx (b / 2)))) b data
        else cells.map (fun _ => (false, false))
      let spec := (List.range n).map (fun i =>
        let s := if sq then specMean1 b data i else specMedian1 b data i
        let e := if sq then specExact1 fp femin t b data i else (false, false)
        jSpec sq t s ⟨if wantAbs then specRabs true (specMean1 b (abs1 data) i) else none, e.1, e.2⟩)
      pure (jObj [("shape", jList jNat [cells.length]),
                  ("model", zip3J (jCell sq t) cells cellsA cellsE), ("spec", Json.arr spec.toArray),
                  ("unchanged", jBool (mustBeUnchanged t data))])
    | [n0, n1], [b0, b1] =>
      let x := chunk n1 data n0
      let xa := abs2 x
      let cells := if sq then meanCellsP2 πmean b0 b1 x else medianCellsP2 πmed median b0 b1 x
      let spec := (List.range n0).flatMap (fun i => (List.range n1).map (fun j =>
        let s := if sq then specMean2 b0 b1 x i j else specMedian2 b0 b1 x i j
        let e := if sq then specExact2 fp femin t b0 b1 x i j else (false, false)
        jSpec sq t s ⟨if wantAbs then specRabs true (specMean2 b0 b1 xa i j) else none, e.1, e.2⟩))
      let rowlens := cells.map (·.length)
      let shp := match rowlens with
        | [] => [0, 0]
        | l :: _ => [cells.length, l]
      if rowlens.any (· != shp.getD 1 0) then throw "ragged model output"
      let cellsA := cellRabs wantAbs cells.flatten (if wantAbs then (meanCellsP2 πmean b0 b1 xa).flatten else [])
      let cellsE := if sq then (cellsG2 πmean (fun xi w =>
            (meanDecisionExact fp femin t xi w.flatten (maskCentre2 (b0 / 2) (b1 / 2) w),
             flatSpreadExact fp femin w.flatten (maskCentre2 (b0 / 2) (b1 / 2) w))) b0 b1 x).flatten
        else cells.flatten.map (fun _ => (false, false))
      pure (jObj [("shape", jList jNat shp),
                  ("model", zip3J (jCell sq t) cells.flatten cellsA cellsE), ("spec", Json.arr spec.toArray),
                  ("unchanged", jBool (mustBeUnchanged t data))])
    | _, _ => throw "only 1-D and 2-D"
  | "c13.at" =>
    -- the same model and specification for a large image: the specification only at the requested pixels
    -- (row-major flat indices); the (whole-array) mechanism is reported at every pixel (`model = "all"`)
    -- or left unevaluated (`model = "no"`)
    let kind ← getStr req "kind"
    let shape ← getList asNat req "shape"
    let data ← getList asRat req "data"
    let block ← getList asNat req "block"
    let t ← fld req "threshold" >>= asOpt asRat
    let pixels ← getList asNat req "pixels"
    let withModel ← match (← getStr req "model") with
      | "all" => pure true
      | "no" => pure false
      | m => throw s!"bad model mode {m}"
    if data.length ≠ shape.foldl (· * ·) 1 then throw "data/shape mismatch"
    if block.length ≠ shape.length then throw "block/shape mismatch"
    if pixels.any (· ≥ data.length) then throw "pixel out of range"
    let sq ← match kind with
      | "mean" => pure true
      | "median" => pure false
      | _ => throw s!"bad kind {kind}"
    let (πmean, πmed) ← match (← getStr req "pad") with
      | "exact" => pure (mean, median)
      | "rint" => pure ((fun l => rint (mean l)), (fun l => rint (median l)))
      | m => throw s!"bad pad mode {m}"
    match shape, block with
    | [_], [b] =>
      let spec := pixels.map (fun i => if sq then specMean1 b data i else specMedian1 b data i)
      let (shp, model) := if withModel then
          let cells := if sq then meanCellsP1 πmean b data else medianCellsP1 πmed median b data
          (jList jNat [cells.length], jList (fun c => jCell sq t c noExtra) cells)
        else (Json.null, Json.null)
      pure (jObj [("shape", shp), ("model", model), ("spec", jList (fun s => jSpec sq t s noExtra) spec),
                  ("unchanged", jBool (mustBeUnchanged t data))])
    | [n0, n1], [b0, b1] =>
      if n1 = 0 then throw "empty rows"
      let x := chunk n1 data n0
      let spec := pixels.map (fun k =>
        if sq then specMean2 b0 b1 x (k / n1) (k % n1) else specMedian2 b0 b1 x (k / n1) (k % n1))
      let (shp, model) ← if withModel then do
          let cells := if sq then meanCellsP2 πmean b0 b1 x else medianCellsP2 πmed median b0 b1 x
          let rowlens := cells.map (·.length)
          let shp := match rowlens with
            | [] => [0, 0]
            | l :: _ => [cells.length, l]
          if rowlens.any (· != shp.getD 1 0) then throw "ragged model output"
          pure (jList jNat shp, jList (fun c => jCell sq t c noExtra) cells.flatten)
        else pure (Json.null, Json.null)
      pure (jObj [("shape", shp), ("model", model), ("spec", jList (fun s => jSpec sq t s noExtra) spec),
                  ("unchanged", jBool (mustBeUnchanged t data))])
    | _, _ => throw "only 1-D and 2-D"
  | "c13.f64" =>
    -- the binary64 mechanism (`Pew.Filters.F64`) on bit patterns: reported beside the verdict, never part of it
    let kind ← getStr req "kind"
    let shape ← getList asNat req "shape"
    let block ← getList asNat req "block"
    let data := (← getList asNat req "bits").map (fun n => Float.ofBits n.toUInt64)
    let t := Float.ofBits (← getNat req "tbits").toUInt64
    if data.length ≠ shape.foldl (· * ·) 1 then throw "data/shape mismatch"
    let out ← match kind, shape, block with
      | "mean", [_], [b] => pure (F64.rollingMean1 b t data)
      | "median", [_], [b] => pure (F64.rollingMedian1 b t data)
      | "mean", [n0, n1], [b0, b1] => pure (F64.rollingMean2 b0 b1 t (chunkF n1 data n0)).flatten
      | "median", [n0, n1], [b0, b1] => pure (F64.rollingMedian2 b0 b1 t (chunkF n1 data n0)).flatten
      | _, _, _ => throw "bad kind/shape/block"
    pure (jObj [("bits", jList (fun (f : Float) => jNat f.toBits.toNat) out)])
  | "c13.constinfo" =>
    -- a constant image `c` in the binary format (p, emin), window of `n` values, `depth` roundings at most:
    -- are all partial sums j*c exact, and how far can a rounded mean be from c
    let c ← getRat req "c"
    let p ← getNat req "p"
    let emin ← getInt req "emin"
    let n ← getNat req "n"
    let depth ← getNat req "depth"
    pure (jObj [("is_bin", jBool (isBin p emin c)), ("sums_exact", jBool (sumsExact p emin n c)),
                ("bound", jRat (constBound (1 / (2 : Rat) ^ p) depth c))])
  | _ => throw s!"unknown op {op}"

end PewDriver.C13
