import PewDriver.Util
import PewModel.Npz
open Lean
namespace PewDriver.C01
open PewDriver Pew.Npz

/-! Strings travel as lists of code points (no JSON escaping questions for NUL, surrogate pairs,
combining marks).  A float token is `[isNaN, bits]`. -/

def asS (j : Json) : R Str := do
  let l ← asList asNat j
  pure (l.map Char.ofNat)

def jS (s : Str) : Json := jList (fun (c : Char) => jNat c.toNat) s

def asF (j : Json) : R Flt :=
  match j with
  | .arr #[t, b] => do
    let t ← asNat t; let b ← asInt b
    if t = 1 then pure (.nan b) else if t = 0 then pure (.num b) else throw "bad float tag"
  | _ => throw s!"expected float token, got {j.compress}"

def jF : Flt → Json
  | .nan b => .arr #[jNat 1, jInt b]
  | .num b => .arr #[jNat 0, jInt b]

def asPair {α β : Type} (f : Json → R α) (g : Json → R β) (j : Json) : R (α × β) :=
  match j with
  | .arr #[a, b] => do pure (← f a, ← g b)
  | _ => throw s!"expected pair, got {j.compress}"

def jPair {α β : Type} (f : α → Json) (g : β → Json) (p : α × β) : Json := .arr #[f p.1, g p.2]

def asCal (j : Json) : R Cal := do
  pure { intercept := ← fld j "intercept" >>= asF
         gradient := ← fld j "gradient" >>= asF
         unit := ← fld j "unit" >>= asS
         rsq := ← fld j "rsq" >>= asOpt asF
         error := ← fld j "error" >>= asOpt asF
         points := ← getList (asPair asF asF) j "points"
         weighting := ← fld j "weighting" >>= asS
         weights := ← getList asF j "weights" }

def jCal (c : Cal) : Json :=
  jObj [("intercept", jF c.intercept), ("gradient", jF c.gradient), ("unit", jS c.unit),
        ("rsq", jOpt jF c.rsq), ("error", jOpt jF c.error), ("points", jList (jPair jF jF) c.points),
        ("weighting", jS c.weighting), ("weights", jList jF c.weights),
        ("builtin", jBool (decide (c.weighting ∈ knownWeighting)))]

def asConfig (j : Json) : R Config := do
  match ← getStr j "class" with
  | "raster" => pure (.raster (← fld j "spotsize" >>= asF) (← fld j "speed" >>= asF) (← fld j "scantime" >>= asF))
  | "spot" => pure (.spot (← fld j "spotsize" >>= asF) (← fld j "spotsize_y" >>= asF))
  | "srr" =>
    pure (.srr { spotsize := ← fld j "spotsize" >>= asF, speed := ← fld j "speed" >>= asF
                 scantime := ← getRat j "scantime", warmupN := ← getInt j "warmup_n"
                 subSize := ← getNat j "sub_size", subOffsets := ← getList asInt j "sub_offsets" })
  | c => throw s!"bad config class {c}"

def jConfig : Config → Json
  | .raster a b c => jObj [("class", jStr "raster"), ("spotsize", jF a), ("speed", jF b), ("scantime", jF c)]
  | .spot a b => jObj [("class", jStr "spot"), ("spotsize", jF a), ("spotsize_y", jF b)]
  | .srr c => jObj [("class", jStr "srr"), ("spotsize", jF c.spotsize), ("speed", jF c.speed),
                    ("scantime", jRat c.scantime), ("warmup_n", jInt c.warmupN), ("sub_size", jNat c.subSize),
                    ("sub_offsets", jList jInt c.subOffsets),
                    -- the public `subpixel_offsets` property: `[[offset, size], ...]`
                    ("offsets_public", jList (fun (o : Int) => jList jInt [o, (c.subSize : Int)]) c.subOffsets)]

def asLayer (j : Json) : R Layer := do
  pure { shape := ← getList asNat j "shape", cells := ← getList (asList asInt) j "cells" }

def jLayer (l : Layer) : Json :=
  jObj [("shape", jList jNat l.shape), ("cells", jList (jList jInt) l.cells)]

def asLaser (j : Json) : R Laser := do
  let kind ← (do match ← getStr j "kind" with
    | "laser" => pure Kind.laser
    | "srr" => pure Kind.srr
    | k => throw s!"bad kind {k}")
  pure { kind := kind
         fields := ← getList (asPair asS asS) j "fields"
         layers := ← getList asLayer j "layers"
         cal := ← getList (asPair asS asCal) j "cal"
         config := ← fld j "config" >>= asConfig
         info := ← getList (asPair asS asS) j "info" }

def jLaser (L : Laser) : Json :=
  jObj [("kind", jStr (match L.kind with | .laser => "laser" | .srr => "srr")),
        ("fields", jList (jPair jS jS) L.fields), ("layers", jList jLayer L.layers),
        ("cal", jList (jPair jS jCal) L.cal), ("config", jConfig L.config),
        ("info", jList (jPair jS jS) L.info)]

def jErr : Err → Json
  | .valueError => jStr "ValueError"
  | .keyError => jStr "KeyError"
  | .assertionError => jStr "AssertionError"
  | .typeError => jStr "TypeError"
  | .indexError => jStr "IndexError"
  | .unmodelled => jStr "Unmodelled"

def jRes : Except Err Laser → Json
  | .ok L => jObj [("ok", jLaser L)]
  | .error e => jObj [("raises", jErr e)]

def asPath (j : Json) : R PathInfo := do
  pure { stem := ← fld j "stem" >>= asS, resolved := ← fld j "resolved" >>= asS }

/-! ### operations and histories -/

def asCfgArr (j : Json) : R CfgArr := do
  match ← getStr j "class" with
  | "raster" => pure (.raster (← fld j "spotsize" >>= asF) (← fld j "speed" >>= asF) (← fld j "scantime" >>= asF))
  | "spot" => pure (.spot (← fld j "spotsize" >>= asF) (← fld j "spotsize_y" >>= asF))
  | "srr" =>
    pure (.srr (← fld j "spotsize" >>= asF) (← fld j "speed" >>= asF) (← getRat j "scantime") (← getRat j "warmup")
      (← getList (asPair asInt asInt) j "offsets"))
  | c => throw s!"bad config class {c}"

def asCalEdit (j : Json) : R CalEdit := do
  match ← getStr j "what" with
  | "intercept" => pure (.intercept (← fld j "value" >>= asF))
  | "gradient" => pure (.gradient (← fld j "value" >>= asF))
  | "unit" => pure (.unit (← fld j "value" >>= asS))
  | "rsq" => pure (.rsq (← fld j "value" >>= asOpt asF))
  | "error" => pure (.error (← fld j "value" >>= asOpt asF))
  | "points" => pure (.points (← getList (asPair asF asF) j "value"))
  | "weighting" => pure (.weighting (← fld j "value" >>= asS))
  | "custom" => pure (.custom (← fld j "name" >>= asS) (← getList asF j "value"))
  | w => throw s!"bad calibration edit {w}"

def asCfgOp (j : Json) : R CfgOp := do
  match ← getStr j "what" with
  | "spotsize" => pure (.spotsize (← fld j "value" >>= asF))
  | "speed" => pure (.speed (← fld j "value" >>= asF))
  | "scantime" => pure (.scantime (← fld j "value" >>= asF))
  | "spotsize_y" => pure (.spotsizeY (← fld j "value" >>= asF))
  | "warmup" => pure (.warmup (← getRat j "value"))
  | "offsets" => pure (.offsets (← getList (asPair asInt asInt) j "value"))
  | "equal_offsets" => pure (.equalOffsets (← getNat j "value"))
  | w => throw s!"bad config operation {w}"

def asOp (j : Json) : R Op := do
  match ← getStr j "op" with
  | "cal_set" => pure (.calSet (← fld j "key" >>= asS) (← fld j "cal" >>= asCal))
  | "cal_pop" => pure (.calPop (← fld j "key" >>= asS))
  | "cal_move_end" => pure (.calMoveEnd (← fld j "key" >>= asS))
  | "cal_reorder" => pure (.calReorder (← getList asS j "order"))
  | "cal_edit" => pure (.calEdit (← fld j "key" >>= asS) (← fld j "edit" >>= asCalEdit))
  | "info_set" => pure (.infoSet (← fld j "key" >>= asS) (← fld j "value" >>= asS))
  | "info_pop" => pure (.infoPop (← fld j "key" >>= asS))
  | "info_assign" => pure (.infoAssign (← getList (asPair asS asS) j "items"))
  | "cfg" => pure (.cfg (← asCfgOp j))
  | "cfg_assign" => pure (.cfgAssign (← fld j "config" >>= asCfgArr))
  | "rename" => pure (.rename (← getList (asPair asS asS) j "names"))
  | "add" => pure (.add (← fld j "name" >>= asS) (← fld j "dtype" >>= asS) (← getList (asList asInt) j "vals")
      (← fld j "cal" >>= asOpt asCal))
  | "remove" => pure (.remove (← getList asS j "names"))
  | "data_reorder" => pure (.dataReorder (← getList asS j "order"))
  | o => throw s!"bad operation {o}"

def asStep (j : Json) : R Step := do
  match ← getStr j "step" with
  | "op" => pure (.op (← asOp j))
  | "save" => pure (.save (← fld j "path" >>= asPath))
  | "adopt" => pure .adopt
  | o => throw s!"bad step {o}"

/-- the operations applied (exactly: `fl = id`) to a laser before it is saved; `none`: one of them
raises or is not modelled -/
def applyPre (L : Laser) (ops : List Op) : Option Laser :=
  ops.foldlM (fun M o => (applyOp id M o).toOption) L

/-- does a mutator call of the history raise or leave the model (states followed as `runHistory` does)? -/
def opFails (ver time : Str) : List Step → Laser → Option Laser → Bool
  | [], _, _ => false
  | .op o :: r, cur, last =>
    match applyOp id cur o with
    | .ok c => opFails ver time r c last
    | .error _ => true
  | .save p :: r, cur, _ =>
    match save id ver time cur >>= load id p with
    | .ok l => opFails ver time r cur (some l)
    | .error _ => false
  | .adopt :: r, _, last =>
    match last with
    | some l => opFails ver time r l last
    | none => true

def preDetermined (L : Laser) (ops : List Op) : Bool :=
  stepsDetermined (ops.map Step.op) L none

/-- the file `save` writes with another class name in its header (a malformed file: class and
`config` member may disagree) -/
def withHeaderClass (ver time cls : Str) (f : NpzFile) : NpzFile :=
  { f with header := some (packInfo [(kVersion, ver), (kClass, cls), (kTime, time)]) }

def handle (op : String) (req : Json) : R Json := do
  match op with
  | "c01.roundtrip" =>
    let L ← fld req "laser" >>= asLaser
    let p ← fld req "path" >>= asPath
    let ver ← fld req "version" >>= asS
    let time ← fld req "time" >>= asS
    let n ← getNat req "chain"
    let pre ← getList asOp req "pre"
    let some L := applyPre L pre | pure (jObj [("pre_failed", jBool true)])
    if !preDetermined L pre then return jObj [("pre_failed", jBool true)]
    let hyp := L.ok && versionOk ver && noNulEnd time && infoNoNul L.info && tabFree p.stem && noNulEnd p.stem
    pure (jObj [("model", jRes (generations id ver time p n L)),
                ("spec", jRes (.ok (normalise p ver L))),
                ("hyp", jBool hyp)])
  | "c01.layouts" =>
    let L ← fld req "laser" >>= asLaser
    let p ← fld req "path" >>= asPath
    let ver ← fld req "version" >>= asS
    let time ← fld req "time" >>= asS
    let v06 ← fld req "v06" >>= asS
    let v07 ← fld req "v07" >>= asS
    let legacy ← getBool req "legacy_class"
    let pre ← getList asOp req "pre"
    let some L := applyPre L pre | pure (jObj [("pre_failed", jBool true)])
    if !preDetermined L pre then return jObj [("pre_failed", jBool true)]
    -- hypotheses of `loadV06_eq_spec` / `loadV07_eq_spec` / `load_save*_legacy` / `load_save`
    let hyp := L.ok && versionOk ver && noNulEnd time
      && noNulEnd v06 && (version06Ok v06 || !cmpGe v06 v060)
      && noNulEnd v07 && (version07Ok v07 || !cmpGe v07 v060)
      && noNulEnd ((dictGet L.info kName).getD [])
    let ren (f : NpzFile) : NpzFile := if legacy then f.mapCls legacyOf else f
    -- an old file brought up to date: load it, save the loaded object, load again
    let again (r : Except Err Laser) : Except Err Laser := r >>= fun L1 => save id ver time L1 >>= load id p
    let m06 := (saveV06 id v06 L).map ren >>= load id p
    let m07 := (saveV07 id v07 L).map ren >>= load id p
    let hypR := hyp && infoNoNul L.info && noNulEnd p.stem
    pure (jObj [("model", jObj [("v06", jRes m06), ("v07", jRes m07),
                                ("v08", jRes (save id ver time L >>= load id p)),
                                ("v06r", jRes (again m06)), ("v07r", jRes (again m07))]),
                ("spec", jObj [("v06", jRes (specOld true p v06 L)),
                               ("v07", jRes (specOld false p v07 L)),
                               ("v08", jRes (.ok (normalise p ver L))),
                               ("v06r", jRes ((specOld true p v06 L).map (normalise p ver))),
                               ("v07r", jRes ((specOld false p v07 L).map (normalise p ver)))]),
                ("hyp", jBool hyp), ("hyp_resave", jBool hypR)])
  | "c01.crossclass" =>
    -- a file saved from `L` whose header names the class `cls`: compared with the code only
    let L ← fld req "laser" >>= asLaser
    let p ← fld req "path" >>= asPath
    let ver ← fld req "version" >>= asS
    let time ← fld req "time" >>= asS
    let cls ← fld req "cls" >>= asS
    let pre ← getList asOp req "pre"
    let some L := applyPre L pre | pure (jObj [("pre_failed", jBool true)])
    if !preDetermined L pre then return jObj [("pre_failed", jBool true)]
    pure (jObj [("model", jRes ((save id ver time L).map (withHeaderClass ver time cls) >>= load id p))])
  | "c01.history" =>
    -- the constructor call, then a history of mutator calls, saves (+ loads) and adoptions of the loaded object:
    -- the state is tracked here from the operations, never read back from the object
    let kind ← (do match ← getStr req "kind" with
      | "laser" => pure Kind.laser
      | "srr" => pure Kind.srr
      | k => throw s!"bad kind {k}")
    let fields ← getList (asPair asS asS) req "fields"
    let layers ← getList asLayer req "layers"
    let cal ← getList (asPair asS asCal) req "cal"
    let cfg ← fld req "config" >>= asCfgArr
    let info ← getList (asPair asS asS) req "info"
    let ver ← fld req "version" >>= asS
    let time ← fld req "time" >>= asS
    let steps ← getList asStep req "steps"
    let ctorDet := match cfg with
      | .srr _ _ s w _ => warmupDetermined w s
      | _ => true
    match construct' id kind fields layers cal cfg info with
    | .error e => pure (jObj [("ctor", jErr e)])
    | .ok L =>
      let oks := historyOks id ver steps L none
      let okv := versionOk ver && noNulEnd time
      pure (jObj [("ctor", jStr "ok"),
                  ("model", jList jRes (runHistory id ver time steps L none)),
                  ("spec", jList jRes (specHistory id ver steps L none)),
                  ("oks", jList (fun b => jBool (b && okv)) oks),
                  ("op_failed", jBool (opFails ver time steps L none)),
                  ("determined", jBool (ctorDet && stepsDetermined steps L none))])
  | _ => throw s!"unknown op {op}"

end PewDriver.C01
