import PewDriver.Dispatch
/-! Line protocol: one JSON request per line on stdin, one JSON reply per line on stdout. -/
partial def loop (hin : IO.FS.Stream) (hout : IO.FS.Stream) : IO Unit := do
  let line ← hin.getLine
  if line.isEmpty then return ()
  let t := line.trimAscii.toString
  if t.isEmpty then loop hin hout else
  hout.putStrLn (PewDriver.handleLine t)
  hout.flush
  loop hin hout

def main : IO Unit := do
  loop (← IO.getStdin) (← IO.getStdout)
