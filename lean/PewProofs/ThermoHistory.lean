import PewProofs.ThermoText

/-! # C03 — the public functions on the text of a file, `load(full=False)`, exports without a Time
channel, and histories of calls -/
namespace Pew.Thermo

/-! ## a substring of a joined line lies inside one field (when it does not contain the delimiter) -/

theorem isPrefixOf_append_delim (d : Char) (v : List Char) : ∀ (p u : List Char), d ∉ p →
    p.isPrefixOf (u ++ d :: v) = p.isPrefixOf u
  | [], u, _ => by simp [List.isPrefixOf]
  | c :: p, [], h => by
    have hc : (c == d) = false := by
      rw [beq_eq_false_iff_ne]; intro e; exact h (by rw [e]; exact List.mem_cons_self)
    simp [List.isPrefixOf, hc]
  | c :: p, b :: u, h => by
    have ih := isPrefixOf_append_delim d v p u (fun hm => h (List.mem_cons_of_mem _ hm))
    simp only [List.cons_append, List.isPrefixOf, ih]

theorem hasSubC_append_delim (d : Char) (p rest : List Char) (hp : p ≠ []) (hd : d ∉ p) : ∀ (f : List Char),
    hasSubC p (f ++ d :: rest) = (hasSubC p f || hasSubC p rest)
  | [] => by
    obtain ⟨c, q, rfl⟩ := List.exists_cons_of_ne_nil hp
    have hc : (c == d) = false := by
      rw [beq_eq_false_iff_ne]; intro e; exact hd (by rw [e]; exact List.mem_cons_self)
    simp [hasSubC, List.isPrefixOf, hc]
  | b :: f => by
    have ih := hasSubC_append_delim d p rest hp hd f
    have hpre := isPrefixOf_append_delim d rest p (b :: f) hd
    simp only [List.cons_append] at hpre ⊢
    simp only [hasSubC, hpre, ih, Bool.or_assoc]

theorem hasSubC_joinC (d : Char) (p : List Char) (hp : p ≠ []) (hd : d ∉ p) : ∀ (ls : List (List Char)),
    hasSubC p (joinC d ls) = ls.any (hasSubC p)
  | [] => by
    obtain ⟨c, q, rfl⟩ := List.exists_cons_of_ne_nil hp
    simp [joinC, hasSubC]
  | [f] => by simp [joinC]
  | f :: g :: t => by
    have ih := hasSubC_joinC d p hp hd (g :: t)
    simp only [joinC, hasSubC_append_delim d p _ hp hd f, ih, List.any_cons]

/-- `sub in line` on the joined line is `sub in field` for some field -/
theorem hasSub_joinLine (d : Char) (sub : String) (hp : sub.toList ≠ []) (hd : d ∉ sub.toList) (r : Row) :
    hasSub sub (joinLine d r) = lineHas sub r := by
  unfold hasSub joinLine lineHas
  rw [String.toList_ofList, hasSubC_joinC d _ hp hd, List.any_map]
  rfl

theorem lineHas_single (sub l : String) : lineHas sub [l] = hasSub sub l := by
  simp [lineHas]

theorem getD_map_single (ls : List String) (i : Nat) :
    lineHas "MainRuns" ((ls.map fun l => [l]).getD i []) = hasSub "MainRuns" (ls.getD i "") := by
  simp only [List.getD, List.getElem?_map]
  cases h : ls[i]? with
  | none => simp [lineHas]; decide
  | some l => simp [lineHas]

theorem getD_renderText (d : Char) (hd : d ∉ "MainRuns".toList) (t : Table) (i : Nat) :
    hasSub "MainRuns" ((renderText d t).getD i "") = lineHas "MainRuns" (t.getD i []) := by
  simp only [renderText, List.getD, List.getElem?_map]
  cases h : t[i]? with
  | none => simp [lineHas]; decide
  | some r =>
    simp only [Option.map_some, Option.getD_some]
    exact hasSub_joinLine d "MainRuns" (by decide) hd r

/-- **The sniffer on the text of a file is the sniffer on its table**, for every table, when the delimiter
is not a letter of `MainRuns` (`,` and `;` are not) -/
theorem sniffText_renderText (d : Char) (hd : d ∉ "MainRuns".toList) (t : Table) :
    sniffText (renderText d t) = sniff t := by
  unfold sniffText sniff
  rw [getD_map_single, getD_map_single, getD_renderText d hd, getD_renderText d hd]

/-! ## `load(full=False)` -/

/-- the array `load` hands back -/
def LoadResult.toData : LoadResult → LoadOut
  | .unknownFormat => .raises
  | .readError => .raises
  | .ok img _ => .data img

/-- **`load(full=False)` returns the array of `load(full=True)`** (or raises where that raises): for every
table, whatever it holds -/
theorem loadData_eq (x : Ext V) (delim : Char) (t : Table) (ua : Bool) :
    loadData x delim t ua = (load x delim t ua).toData := by
  unfold loadData load chanOf
  cases sniff t with
  | unknown => rfl
  | rows =>
    simp only
    cases readRows x (detectComma delim t) (if ua = true then "Analog" else "Counter") t <;> rfl
  | columns =>
    simp only
    cases readCols x (detectComma delim t) (if ua = true then "Analog" else "Counter") t <;> rfl

/-- … and on the text of the file -/
theorem loadDataText_eq (x : Ext V) (lines : List String) (ua : Bool) :
    loadDataText x lines ua = (loadText x lines ua).toData := by
  unfold loadDataText loadText
  cases (lines.headD "").toList with
  | nil => rfl
  | cons d tl => exact loadData_eq x d _ ua

/-! ## channels by name -/

theorem chanIdx_some (a : Acq) (name : String) (ci : Nat) (h : a.chanIdx name = some ci) :
    ci < a.channels.length ∧ a.chan ci = name := by
  unfold Acq.chanIdx at h
  simp only at h
  split at h
  · rename_i hlt
    cases h
    refine ⟨hlt, ?_⟩
    have := List.findIdx_getElem (w := hlt)
    simp only [beq_iff_eq] at this
    unfold Acq.chan
    simp [List.getD, List.getElem?_eq_getElem hlt, this]
  · cases h

theorem chanIdx_none (a : Acq) (name : String) (h : a.chanIdx name = none) :
    ∀ c, c < a.channels.length → a.chan c ≠ name := by
  unfold Acq.chanIdx at h
  simp only at h
  split at h
  · cases h
  · rename_i hge
    intro c hc heq
    have hall := List.not_of_lt_findIdx (p := (· == name)) (xs := a.channels) (i := c) (by omega)
    unfold Acq.chan at heq
    simp [List.getD, List.getElem?_eq_getElem hc] at heq
    simp [heq] at hall

/-- a 7-character field that reads `Time` is the channel `Time` -/
theorem trunc7_time (s : String) (h : trunc 7 s = "Time") : s = "Time" := by
  unfold trunc at h
  have hl : (s.toList.take 7) = "Time".toList := by
    have := congrArg String.toList h
    simpa [String.toList_ofList] using this
  have hlen : (s.toList.take 7).length = 4 := by rw [hl]; rfl
  have hs : s.toList.length < 7 := by
    rw [List.length_take] at hlen
    omega
  have : s.toList = "Time".toList := by
    rw [← hl, List.take_of_length_le (by omega)]
  exact String.toList_injective this

/-! ## exports without a Time channel: the parameters cannot be read (`load` hands back `{}`) -/

/-- the rows reader raises when no exported channel is the requested one (in the 7-character channel row) -/
theorem readRows_absent {α : Type} (x : Ext α) (sh : Nat → String) (comma : Bool) (a : Acq) (chan : String)
    (h : ∀ c, c < a.channels.length → trunc 7 (a.chan c) ≠ chan) :
    readRows x comma chan (renderRows sh a) = none := by
  unfold renderRows readRows readRowsWith
  simp only [List.cons_append, List.nil_append, List.getD_cons_zero, List.getD_cons_succ, List.length_cons, List.length_append,
    List.length_map, List.length_nil, Nat.max_self, List.drop_succ_cons, List.drop_zero]
  rw [bcast_self _ _ (by simp), bcast_self _ _ (by simp)]
  simp only [List.length_cons, List.length_append, List.length_map, List.length_nil,
    BEq.rfl, Bool.and_self, Bool.not_true, Bool.false_eq_true, if_false]
  rw [hdr_render]
  have hsel : (blankHdr :: blankHdr :: ((enumRows a.nscans a.elements.length a.channels.length).map (hdrOf sh a) ++ [eolHdr])).filter (colOk chan)
      = [] := by
    simp only [List.filter_cons, colOk_blank, colOk_eol, Bool.false_eq_true, if_false, List.filter_append, List.filter_nil,
      List.append_nil, List.filter_map, List.map_eq_nil_iff, List.filter_eq_nil_iff]
    intro y hy
    have hc := (mem_enumRows.mp hy).2.2
    simp only [Function.comp, colOk_hdrOf, beq_iff_eq]
    exact h y.2.2 hc
  unfold readRowsHWith
  split
  · rfl
  · simp only [hsel, List.isEmpty_nil, if_true]

/-- **No Time channel in a samples-in-rows export: `*_read_params` raises**, whatever else was exported -/
theorem readParams_rows_noTime (x : Ext V) (sh : Nat → String) (comma : Bool) (a : Acq)
    (h : a.chanIdx "Time" = none) :
    readParams x true comma (renderRows sh a) = none := by
  unfold readParams
  simp only [if_true]
  rw [readRows_absent x sh comma a "Time" (fun c hc ht => chanIdx_none a "Time" h c hc (trunc7_time _ ht))]
  rfl

/-- hypotheses under which no line of the samples-in-columns export mentions `chan` (lines are selected by
`chan in line`) -/
structure ColsAbsent (sh : Nat → String) (a : Acq) (chan : String) : Prop where
  nsamples : 0 < a.samples.length
  sampleNames : ∀ s ∈ a.samples, s ≠ ""
  chanMain : hasSub chan "MainRuns" = false
  chanEol : hasSub chan "\n" = false
  chanScan : ∀ s, s < a.nscans → hasSub chan (sh s) = false
  chanLabel : ∀ e ∈ a.elements, hasSub chan e = false
  chanChan : ∀ c, c < a.channels.length → hasSub chan (a.chan c) = false
  chanValue : ∀ i, i < a.samples.length → ∀ s, s < a.nscans → ∀ e, e < a.elements.length → ∀ c, c < a.channels.length →
    hasSub chan (a.value i s e c) = false

theorem lineHas_colLine_absent (sh : Nat → String) (a : Acq) (chan : String) (h : ColsAbsent sh a chan)
    (y : Nat × Nat × Nat) (hy : y ∈ enumCols a.nscans a.elements.length a.channels.length) :
    lineHas chan (colLine sh a y) = false := by
  obtain ⟨hs, he, hc⟩ := mem_enumCols.mp hy
  unfold colLine lineHas
  simp only [List.cons_append, List.nil_append, List.any_cons, List.any_append, List.any_nil, Bool.or_false,
    h.chanMain, h.chanScan y.1 hs, h.chanLabel _ (elem_mem a y.2.1 he), h.chanChan y.2.2 hc, h.chanEol, Bool.false_or, List.any_map]
  rw [List.any_eq_false]
  intro i hi
  simp [Function.comp, h.chanValue i (List.mem_range.mp hi) y.1 hs y.2.1 he y.2.2 hc]

/-- the columns reader raises when no `MainRuns` line mentions the requested channel -/
theorem readCols_absent {α : Type} (x : Ext α) (sh : Nat → String) (comma : Bool) (a : Acq) (chan : String)
    (h : ColsAbsent sh a chan) :
    readCols x comma chan (renderCols sh a) = none := by
  unfold renderCols readCols readColsWith
  have hsel : ((["", "", "", ""] ++ a.samples.map (fun _ => "<Identifier>") ++ ["\n"]) ::
      (enumCols a.nscans a.elements.length a.channels.length).map (colLine sh a)).filter (fun r => lineStarts r && lineHas chan r) = [] := by
    rw [List.filter_eq_nil_iff]
    intro r hr
    rcases List.mem_cons.mp hr with hr | hr
    · rw [hr]; simp [lineStarts_blank]
    · obtain ⟨y, hy, rfl⟩ := List.mem_map.mp hr
      simp [lineHas_colLine_absent sh a chan h y hy]
  simp only [hsel]
  split
  · rfl
  · simp [gfLinesWith, sameLen]

/-- **No Time channel in a samples-in-columns export: `*_read_params` raises** -/
theorem readParams_cols_noTime (x : Ext V) (sh : Nat → String) (comma : Bool) (a : Acq)
    (h : ColsAbsent sh a "Time") :
    readParams x false comma (renderCols sh a) = none := by
  unfold readParams
  simp only [Bool.false_eq_true, if_false]
  rw [readCols_absent x sh comma a "Time" h]
  rfl

/-! ## what a history of exports needs of each file -/

/-- the channels the public functions ask for -/
def Asked (name : String) : Prop := name = "Counter" ∨ name = "Analog" ∨ name = "Time"

/-- a samples-in-rows export every public function can be asked about: `RowsOK` for each of the channels
Counter / Analog / Time that was exported, one of the three delimiter / decimal-mark pairs, no field
holds the delimiter -/
structure RowsFileOK (x : Ext V) (sh : Nat → String) (d : Char) (dec : Bool) (a : Acq) : Prop where
  nscans : 0 < a.nscans
  nelements : 0 < a.elements.length
  nchannels : 0 < a.channels.length
  chans : ∀ ci, ci < a.channels.length → Asked (a.chan ci) → RowsOK x sh a ci
  decDelim : dec = true → d = ';'
  noComma : dec = false → ∀ r ∈ renderRows sh a, ∀ f ∈ r, hasSub "," f = false
  free : ∀ r ∈ renderRows sh a, ∀ f ∈ r, d ∉ f.toList
  delimMain : d ∉ "MainRuns".toList

/-- … and a samples-in-columns export -/
structure ColsFileOK (x : Ext V) (sh : Nat → String) (d : Char) (dec : Bool) (a : Acq) : Prop where
  nscans : 0 < a.nscans
  nelements : 0 < a.elements.length
  nchannels : 0 < a.channels.length
  chans : ∀ ci, ci < a.channels.length → Asked (a.chan ci) → ∀ b, ColsOK x sh b a ci
  sampleMain : ∀ s ∈ a.samples, hasSub "MainRuns" s = false
  decDelim : dec = true → d = ';'
  noComma : dec = false → ∀ r ∈ renderCols sh a, ∀ f ∈ r, hasSub "," f = false
  free : ∀ r ∈ renderCols sh a, ∀ f ∈ r, d ∉ f.toList
  delimMain : d ∉ "MainRuns".toList
  /-- when Time was not exported no line mentions it -/
  noTime : a.chanIdx "Time" = none → ColsAbsent sh a "Time"

/-- what a history may write -/
def ContentOK (x : Ext V) (sh : Nat → String) : Content → Prop
  | .rows d dec a => RowsFileOK x sh d dec a
  | .cols d dec a => ColsFileOK x sh d dec a
  | .other ls => otherFile (ls.map fun l => [l]) = true

theorem asked_chanOf (ua : Bool) : Asked (chanOf ua) := by
  cases ua
  · exact Or.inl rfl
  · exact Or.inr (Or.inl rfl)

/-- the image is the same whichever way the decimal mark was detected (rows layout) -/
theorem specImg_detect_rows {α : Type} (x : Ext α) (sh : Nat → String) (delim : Char) (a : Acq) (ci : Nat) (dec : Bool)
    (hci : ci < a.channels.length)
    (hdec : dec = true → delim = ';')
    (hnodec : dec = false → ∀ r ∈ renderRows sh a, ∀ f ∈ r, hasSub "," f = false) :
    specImg x (detectComma delim (renderRows sh a)) a ci = specImg x dec a ci := by
  cases hd : dec with
  | false =>
    have : detectComma delim (renderRows sh a) = false := by
      unfold detectComma
      have : (renderRows sh a).any (fun r => r.any (hasSub ",")) = false := by
        rw [List.any_eq_false]; intro r hr
        simp only [Bool.not_eq_true]
        rw [List.any_eq_false]; intro f hf
        simp [hnodec hd r hr f hf]
      rw [this, Bool.and_false]
    rw [this]
  | true =>
    cases hdc : detectComma delim (renderRows sh a) with
    | true => rfl
    | false =>
      have hdelim := hdec hd
      have hany : (renderRows sh a).any (fun r => r.any (hasSub ",")) = false := by
        unfold detectComma at hdc
        simp only [renderRows, List.cons_append, List.nil_append, hdelim, BEq.rfl, Bool.true_and] at hdc
        simpa [renderRows] using hdc
      apply specImg_noComma x a ci false true
      intro i hi s hs e he
      rw [List.any_eq_false] at hany
      have hrow := hany (a.samples.getD i "" :: "<Identifier>" ::
        (enumRows a.nscans a.elements.length a.channels.length).map (fun x => a.value i x.1 x.2.1 x.2.2) ++ ["\n"]) (by
          unfold renderRows
          simp only [List.cons_append, List.nil_append, List.mem_cons, List.mem_map, List.mem_range]
          right; right; right; right
          exact ⟨i, hi, rfl⟩)
      simp only [Bool.not_eq_true] at hrow
      rw [List.any_eq_false] at hrow
      have := hrow (a.value i s e ci) (by
        simp only [List.cons_append, List.mem_cons, List.mem_append, List.mem_map]
        right; right; left
        exact ⟨(s, e, ci), mem_enumRows.mpr ⟨hs, he, hci⟩, rfl⟩)
      simpa using this

/-- … columns layout -/
theorem specImg_detect_cols {α : Type} (x : Ext α) (sh : Nat → String) (delim : Char) (a : Acq) (ci : Nat) (dec : Bool)
    (hci : ci < a.channels.length)
    (hdec : dec = true → delim = ';')
    (hnodec : dec = false → ∀ r ∈ renderCols sh a, ∀ f ∈ r, hasSub "," f = false) :
    specImg x (detectComma delim (renderCols sh a)) a ci = specImg x dec a ci := by
  cases hd : dec with
  | false =>
    have : detectComma delim (renderCols sh a) = false := by
      unfold detectComma
      have : (renderCols sh a).any (fun r => r.any (hasSub ",")) = false := by
        rw [List.any_eq_false]; intro r hr
        simp only [Bool.not_eq_true]
        rw [List.any_eq_false]; intro f hf
        simp [hnodec hd r hr f hf]
      rw [this, Bool.and_false]
    rw [this]
  | true =>
    cases hdc : detectComma delim (renderCols sh a) with
    | true => rfl
    | false =>
      have hdelim := hdec hd
      have hany : (renderCols sh a).any (fun r => r.any (hasSub ",")) = false := by
        unfold detectComma at hdc
        simp only [renderCols, List.cons_append, List.nil_append, hdelim, BEq.rfl, Bool.true_and] at hdc
        simpa [renderCols] using hdc
      apply specImg_noComma x a ci false true
      intro i hi s hs e he
      rw [List.any_eq_false] at hany
      have hrow := hany (colLine sh a (s, e, ci)) (by
        unfold renderCols
        simp only [List.mem_cons, List.mem_map]
        right; right
        exact ⟨(s, e, ci), mem_enumCols.mpr ⟨hs, he, hci⟩, rfl⟩)
      simp only [Bool.not_eq_true] at hrow
      rw [List.any_eq_false] at hrow
      have := hrow (a.value i s e ci) (by
        simp only [colLine, List.cons_append, List.nil_append, List.mem_cons, List.mem_append, List.mem_map, List.mem_range]
        right; right; right; right; left
        exact ⟨i, hi, rfl⟩)
      simpa using this

/-- a call is judged: the specification is silent, or the result is the one it names -/
def Judged : Option Out → Out → Prop
  | none, _ => True
  | some o, o' => o' = o

/-- … call by call: as many results as the specification has entries, each one judged -/
def JudgedAll : List (Option Out) → List Out → Prop
  | [], [] => True
  | s :: ss, o :: os => Judged s o ∧ JudgedAll ss os
  | _, _ => False

end Pew.Thermo
