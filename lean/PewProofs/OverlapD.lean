import PewProofs.Overlap
import Mathlib.Data.Rat.Floor

/-! helper lemmas for the dtype-aware plain merge (`overlapD`) -/
namespace Pew.Overlap

namespace EV

theorem add_comm (a b : EV) : a.add b = b.add a := by
  cases a <;> cases b <;> simp [add, _root_.add_comm]

theorem add_assoc (a b c : EV) : (a.add b).add c = a.add (b.add c) := by
  cases a <;> cases b <;> cases c <;> simp [add, _root_.add_assoc]

theorem add_zero (a : EV) : a.add (fin 0) = a := by
  cases a <;> simp [add]

theorem zero_add (a : EV) : (fin 0).add a = a := by
  cases a <;> simp [add]

theorem nan_add (a : EV) : nan.add a = nan := by
  cases a <;> rfl

theorem nz_of_ne_nan (a : EV) (h : a ≠ nan) : a.nz = a := by
  cases a <;> simp_all [nz]

theorem isNan_iff (a : EV) : a.isNan = true ↔ a = nan := by
  cases a <;> simp [isNan]

theorem divNat_one (a : EV) : a.divNat 1 = a := by
  cases a <;> simp [divNat]

end EV

theorem sumE_append (l₁ l₂ : List EV) : sumE (l₁ ++ l₂) = (sumE l₁).add (sumE l₂) := by
  induction l₁ with
  | nil => simp [sumE, EV.zero_add]
  | cons v l ih => simp [sumE, ih, EV.add_assoc]

/-- the IEEE sum of exact values does not depend on their order -/
theorem sumE_perm (l₁ l₂ : List EV) (h : l₁.Perm l₂) : sumE l₁ = sumE l₂ := by
  induction h with
  | nil => rfl
  | cons x _ ih => simp [sumE, ih]
  | swap x y l => simp only [sumE]; rw [← EV.add_assoc, ← EV.add_assoc, EV.add_comm y x]
  | trans _ _ ih₁ ih₂ => exact ih₁.trans ih₂

/-- one pixel of `stepD` -/
def stepCellD (cdt : DT) (m : Mode) (c : CellE) : Option EV → CellE
  | none => c
  | some v =>
    let visits := c.visits + (if v.isNan then 0 else 1)
    match m with
    | .replace => { acc := if v.isNan then c.acc else castC cdt v, visits := visits }
    | _ => { acc := castC cdt (nansum2E c.acc v), visits := visits }

theorem stepD_point (cdt : DT) (m : Mode) (c : Idx → CellE) (a : ArrE) (p : Idx) :
    stepD cdt m c a p = stepCellD cdt m (c p) (a.at p) := by
  unfold stepD stepCellD
  cases a.at p <;> rfl

theorem foldlD_point (cdt : DT) (m : Mode) (l : List ArrE) (c : Idx → CellE) (p : Idx) :
    (l.foldl (stepD cdt m) c) p = l.foldl (fun cell a => stepCellD cdt m cell (a.at p)) (c p) := by
  induction l generalizing c with
  | nil => rfl
  | cons a l ih => simp only [List.foldl_cons]; rw [ih, stepD_point]

/-- the contribution of one image at `p` -/
def contribOf (a : ArrE) (p : Idx) : List EV :=
  match a.at p with
  | some v => if v.isNan then [] else [v]
  | none => []

theorem contribsE_cons (a : ArrE) (l : List ArrE) (p : Idx) :
    contribsE (a :: l) p = contribOf a p ++ contribsE l p := by
  unfold contribsE contribOf
  simp only [List.filterMap_cons]
  cases a.at p with
  | none => simp
  | some v => cases h : v.isNan <;> simp [h]

theorem contribsE_append (l₁ l₂ : List ArrE) (p : Idx) :
    contribsE (l₁ ++ l₂) p = contribsE l₁ p ++ contribsE l₂ p := by
  unfold contribsE
  rw [List.filterMap_append]

theorem contribsE_ne_nan (l : List ArrE) (p : Idx) : ∀ v ∈ contribsE l p, v ≠ EV.nan := by
  intro v hv
  unfold contribsE at hv
  rw [List.mem_filterMap] at hv
  obtain ⟨a, _, ha⟩ := hv
  cases h : a.at p with
  | none => simp [h] at ha
  | some w =>
    simp only [h] at ha
    by_cases hw : w.isNan = true
    · simp [hw] at ha
    · simp only [hw, Bool.false_eq_true, if_false, Option.some.injEq] at ha
      subst ha
      intro e
      exact hw ((EV.isNan_iff w).mpr e)

/-! ### replace mode -/

theorem fold_replaceD (cdt : DT) (l : List ArrE) (p : Idx) (c : CellE) :
    (l.foldl (fun cell a => stepCellD cdt .replace cell (a.at p)) c).acc
      = match (contribsE l p).getLast? with | some x => castC cdt x | none => c.acc := by
  induction l generalizing c with
  | nil => simp [contribsE]
  | cons a l ih =>
    simp only [List.foldl_cons]
    rw [ih, contribsE_cons]
    unfold contribOf
    cases h : a.at p with
    | none => simp [stepCellD]
    | some v =>
      by_cases hv : v.isNan = true
      · simp [stepCellD, hv]
      · simp only [hv, Bool.false_eq_true, if_false, stepCellD]
        cases h2 : (contribsE l p).getLast? with
        | none =>
          have : contribsE l p = [] := by simpa using h2
          simp [this]
        | some z =>
          have : (v :: contribsE l p).getLast? = some z := by
            have := List.getLast?_append (l := [v]) (l' := contribsE l p)
            rw [h2] at this; simpa using this
          simp [this]

/-! ### mean / sum -/

theorem stepCellD_none (cdt : DT) (m : Mode) (c : CellE) : stepCellD cdt m c none = c := rfl

theorem stepCellD_nan (cdt : DT) (m : Mode) (hm : m ≠ .replace) (s : EV) (n : Nat) :
    stepCellD cdt m { acc := s, visits := n } (some EV.nan) = { acc := castC cdt (s.nz.add (EV.fin 0)), visits := n } := by
  cases m <;> simp_all [stepCellD, nansum2E, EV.nz, EV.isNan]

theorem stepCellD_val (cdt : DT) (m : Mode) (hm : m ≠ .replace) (s v : EV) (n : Nat) (hv : v.isNan = false) :
    stepCellD cdt m { acc := s, visits := n } (some v) = { acc := castC cdt (s.nz.add v), visits := n + 1 } := by
  have hv' : v ≠ EV.nan := by intro e; subst e; simp [EV.isNan] at hv
  cases m <;> simp_all [stepCellD, nansum2E, EV.nz_of_ne_nan]

/-- a canvas that stores every value unchanged (`float64`; `float32` for exactly representable values): while the
IEEE sum of the contributions is not NaN the cell holds it -/
theorem fold_accumE (cdt : DT) (hc : ∀ v, castC cdt v = v) (m : Mode) (hm : m ≠ .replace) (l : List ArrE) (p : Idx)
    (s : EV) (n : Nat) (hs : s ≠ .nan) (hne : s.add (sumE (contribsE l p)) ≠ .nan) :
    l.foldl (fun cell a => stepCellD cdt m cell (a.at p)) { acc := s, visits := n }
      = { acc := s.add (sumE (contribsE l p)), visits := n + (contribsE l p).length } := by
  induction l generalizing s n with
  | nil => simp [contribsE, sumE, EV.add_zero]
  | cons a l ih =>
    simp only [List.foldl_cons]
    rw [contribsE_cons] at hne ⊢
    unfold contribOf at hne ⊢
    cases h : a.at p with
    | none =>
      simp only [h, List.nil_append] at hne ⊢
      rw [stepCellD_none]
      exact ih s n hs hne
    | some v =>
      simp only [h] at hne ⊢
      cases hv : v.isNan with
      | true =>
        have : v = EV.nan := (EV.isNan_iff v).mp hv
        subst this
        simp only [hv, if_true, List.nil_append] at hne ⊢
        rw [stepCellD_nan cdt m hm, hc, EV.nz_of_ne_nan s hs, EV.add_zero]
        exact ih s n hs hne
      | false =>
        simp only [hv, Bool.false_eq_true, if_false, List.singleton_append, sumE, List.length_cons] at hne ⊢
        rw [stepCellD_val cdt m hm s v n hv, hc, EV.nz_of_ne_nan s hs]
        rw [← EV.add_assoc] at hne
        have hsv : s.add v ≠ EV.nan := by
          intro e
          rw [e, EV.nan_add] at hne
          exact hne rfl
        rw [ih (s.add v) (n + 1) hsv hne, EV.add_assoc]
        congr 1
        omega

/-! ### integer canvas, sum mode: no truncation while every value is an integer -/

theorem truncR_int (x : Rat) (h : x.den = 1) : truncR x = x := by
  unfold truncR
  have hx : ((x.num : Int) : Rat) = x := Rat.coe_int_num_of_den_eq_one h
  split
  · rw [← hx, Rat.floor_intCast]
  · rw [← hx, Rat.ceil_intCast]

theorem den_add_int (x y : Rat) (hx : x.den = 1) (hy : y.den = 1) : (x + y).den = 1 := by
  have h1 : ((x.num : Int) : Rat) = x := Rat.coe_int_num_of_den_eq_one hx
  have h2 : ((y.num : Int) : Rat) = y := Rat.coe_int_num_of_den_eq_one hy
  rw [← h1, ← h2, ← Int.cast_add]
  exact Rat.den_intCast _

theorem intVal_fin (v : EV) (h : v.intVal = true) : ∃ x : Rat, v = EV.fin x ∧ x.den = 1 := by
  cases v <;> simp_all [EV.intVal]

theorem sumE_int (l : List EV) (h : ∀ v ∈ l, v.intVal = true) : (sumE l).intVal = true := by
  induction l with
  | nil => simp [sumE, EV.intVal]
  | cons v l ih =>
    obtain ⟨x, rfl, hx⟩ := intVal_fin v (h v (by simp))
    obtain ⟨y, hy, hyd⟩ := intVal_fin _ (ih (fun w hw => h w (by simp [hw])))
    simp only [sumE, hy, EV.add, EV.intVal, beq_iff_eq]
    exact den_add_int x y hx hyd

theorem castC_i8_int (v : EV) (h : v.intVal = true) : castC .i8 v = v := by
  obtain ⟨x, rfl, hx⟩ := intVal_fin v h
  simp [castC, truncR_int x hx]

theorem fold_accumI (m : Mode) (hm : m ≠ .replace) (l : List ArrE) (p : Idx) (s : EV) (n : Nat)
    (hs : s.intVal = true) (hl : ∀ v ∈ contribsE l p, v.intVal = true) :
    l.foldl (fun cell a => stepCellD .i8 m cell (a.at p)) { acc := s, visits := n }
      = { acc := s.add (sumE (contribsE l p)), visits := n + (contribsE l p).length } := by
  induction l generalizing s n with
  | nil => simp [contribsE, sumE, EV.add_zero]
  | cons a l ih =>
    obtain ⟨k, rfl, hk⟩ := intVal_fin s hs
    simp only [List.foldl_cons]
    rw [contribsE_cons] at hl ⊢
    unfold contribOf at hl ⊢
    cases h : a.at p with
    | none =>
      simp only [h, List.nil_append] at hl ⊢
      rw [stepCellD_none]
      exact ih _ n hs hl
    | some v =>
      simp only [h] at hl ⊢
      cases hv : v.isNan with
      | true =>
        have : v = EV.nan := (EV.isNan_iff v).mp hv
        subst this
        simp only [hv, if_true, List.nil_append] at hl ⊢
        rw [stepCellD_nan .i8 m hm]
        have : castC .i8 ((EV.fin k).nz.add (EV.fin 0)) = EV.fin k := by
          simp [EV.nz, EV.add, castC, truncR_int k hk]
        rw [this]
        exact ih _ n hs hl
      | false =>
        simp only [hv, Bool.false_eq_true, if_false, List.singleton_append, sumE, List.length_cons] at hl ⊢
        obtain ⟨y, rfl, hy⟩ := intVal_fin v (hl v (by simp))
        rw [stepCellD_val .i8 m hm _ _ n hv]
        have hky : ((EV.fin k).add (EV.fin y)).intVal = true := by
          simp only [EV.add, EV.intVal, beq_iff_eq]; exact den_add_int k y hk hy
        have : castC .i8 ((EV.fin k).nz.add (EV.fin y)) = (EV.fin k).add (EV.fin y) := by
          rw [show (EV.fin k).nz = EV.fin k from rfl]; exact castC_i8_int _ hky
        rw [this, ih _ (n + 1) hky (fun w hw => hl w (by simp [hw])), EV.add_assoc]
        congr 1
        omega

/-! ### boolean canvas, sum mode: "some value is not zero" while no value is negative -/

def bool01 (x : Rat) : Rat := if x = 0 then 0 else 1

theorem nonneg_fin (v : EV) (h : v.nonnegVal = true) : ∃ x : Rat, v = EV.fin x ∧ 0 ≤ x := by
  cases v <;> simp_all [EV.nonnegVal]

theorem sumE_nonneg (l : List EV) (h : ∀ v ∈ l, v.nonnegVal = true) : (sumE l).nonnegVal = true := by
  induction l with
  | nil => simp [sumE, EV.nonnegVal]
  | cons v l ih =>
    obtain ⟨x, rfl, hx⟩ := nonneg_fin v (h v (by simp))
    obtain ⟨y, hy, hyd⟩ := nonneg_fin _ (ih (fun w hw => h w (by simp [hw])))
    simp only [sumE, hy, EV.add, EV.nonnegVal, decide_eq_true_eq]
    linarith

theorem bool01_step (k y : Rat) (hk : 0 ≤ k) (hy : 0 ≤ y) : bool01 (bool01 k + y) = bool01 (k + y) := by
  unfold bool01
  by_cases h1 : k = 0
  · subst h1; simp
  · have hkp : 0 < k := lt_of_le_of_ne hk (Ne.symm h1)
    have : k + y ≠ 0 := by linarith
    have : (1 : Rat) + y ≠ 0 := by linarith
    simp [*]

theorem fold_accumB (m : Mode) (hm : m ≠ .replace) (l : List ArrE) (p : Idx) (k : Rat) (n : Nat)
    (hk : 0 ≤ k) (hl : ∀ v ∈ contribsE l p, v.nonnegVal = true) :
    l.foldl (fun cell a => stepCellD .b1 m cell (a.at p)) { acc := EV.fin (bool01 k), visits := n }
      = { acc := castC .b1 ((EV.fin k).add (sumE (contribsE l p))), visits := n + (contribsE l p).length } := by
  induction l generalizing k n with
  | nil => simp [contribsE, sumE, EV.add, castC, bool01]
  | cons a l ih =>
    simp only [List.foldl_cons]
    rw [contribsE_cons] at hl ⊢
    unfold contribOf at hl ⊢
    cases h : a.at p with
    | none =>
      simp only [h, List.nil_append] at hl ⊢
      rw [stepCellD_none]
      exact ih k n hk hl
    | some v =>
      simp only [h] at hl ⊢
      cases hv : v.isNan with
      | true =>
        have : v = EV.nan := (EV.isNan_iff v).mp hv
        subst this
        simp only [hv, if_true, List.nil_append] at hl ⊢
        rw [stepCellD_nan .b1 m hm]
        have : castC .b1 ((EV.fin (bool01 k)).nz.add (EV.fin 0)) = EV.fin (bool01 k) := by
          simp only [EV.nz, EV.add, castC, add_zero]
          unfold bool01
          by_cases h1 : k = 0 <;> simp [h1]
        rw [this]
        exact ih k n hk hl
      | false =>
        simp only [hv, Bool.false_eq_true, if_false, List.singleton_append, sumE, List.length_cons] at hl ⊢
        obtain ⟨y, rfl, hy⟩ := nonneg_fin v (hl v (by simp))
        rw [stepCellD_val .b1 m hm _ _ n hv]
        have : castC .b1 ((EV.fin (bool01 k)).nz.add (EV.fin y)) = EV.fin (bool01 (k + y)) := by
          simp only [EV.nz, EV.add, castC]
          rw [← bool01_step k y hk hy]
          rfl
        rw [this, ih (k + y) (n + 1) (by linarith) (fun w hw => hl w (by simp [hw])), ← EV.add_assoc]
        simp only [EV.add]
        congr 1
        omega


/-! ### geometry of `overlapD` -/

theorem normaliseE_bare (ndim : Nat) (arrs : List ArrE) :
    (normaliseE ndim arrs).map ArrE.bare = normalise ndim (arrs.map ArrE.bare) := by
  simp [normaliseE, normalise, ArrE.bare, List.map_map, Function.comp_def]

theorem toE_bare (dt : DT) (a : Arr) : (a.toE dt).bare = bare a := rfl

theorem at_toE (dt : DT) (a : Arr) (p : Idx) : (a.toE dt).at p = (a.at p).map embed := by
  unfold ArrE.at Arr.at
  have : (a.toE dt).bare.inside p = a.inside p := rfl
  rw [this]
  split <;> rfl

theorem embed_isNan (v : V) : (embed v).isNan = v.isNone := by
  cases v <;> rfl

theorem contribsE_toE (l : List (DT × Arr)) (p : Idx) :
    contribsE (l.map (fun x => x.2.toE x.1)) p = (contribs (l.map (·.2)) p).map EV.fin := by
  induction l with
  | nil => rfl
  | cons x l ih =>
    simp only [List.map_cons]
    rw [contribsE_cons, contribs_cons, ih, List.map_append]
    congr 1
    unfold contribOf
    rw [at_toE]
    cases h : x.2.at p with
    | none => rfl
    | some v => cases v <;> rfl

theorem sumE_fin (l : List Rat) : sumE (l.map EV.fin) = EV.fin l.sum := by
  induction l with
  | nil => rfl
  | cons x l ih => simp [sumE, ih, EV.add]

theorem specE_embed (m : Mode) (fill : V) (l : List (DT × Arr)) (p : Idx) :
    specE m (embed fill) (l.map (fun x => x.2.toE x.1)) p = embed (spec m fill (l.map (·.2)) p) := by
  unfold specE spec
  rw [contribsE_toE]
  cases h : contribs (l.map (·.2)) p with
  | nil => rfl
  | cons c cs =>
    simp only [List.map_cons]
    cases m with
    | replace =>
      simp only [embed]
      have := List.getLast_map (f := EV.fin) (l := c :: cs) (by simp)
      simpa using this
    | sum =>
      simp only [embed]
      rw [← List.map_cons, sumE_fin]
    | mean =>
      simp only [embed]
      rw [← List.map_cons, sumE_fin]
      simp [EV.divNat]

theorem hypD_toE (cdt : DT) (hc : cdt = .f8 ∨ cdt = .f4) (m : Mode) (l : List (DT × Arr)) (p : Idx) :
    hypD cdt m (l.map (fun x => x.2.toE x.1)) p = true := by
  have : (sumE (contribsE (l.map (fun x => x.2.toE x.1)) p)).isNan = false := by
    rw [contribsE_toE, sumE_fin]; rfl
  rcases hc with rfl | rfl <;> cases m <;> simp [hypD, this]

theorem castC_float (cdt : DT) (h : cdt = .f8 ∨ cdt = .f4) (v : EV) : castC cdt v = v := by
  rcases h with rfl | rfl <;> cases v <;> rfl

/-- the list with the offsets normalised as the code does -/
def normPairs (ndim : Nat) (l : List (DT × Arr)) : List (DT × Arr) :=
  l.map (fun x => (x.1, { x.2 with off := sub x.2.off (minOffset ndim (l.map (·.2))) }))

theorem toE_map_bare (l : List (DT × Arr)) :
    (l.map (fun x => x.2.toE x.1)).map ArrE.bare = (l.map (·.2)).map bare := by
  simp [List.map_map, Function.comp_def, toE_bare]

theorem normaliseE_toE (ndim : Nat) (l : List (DT × Arr)) :
    normaliseE ndim (l.map (fun x => x.2.toE x.1)) = (normPairs ndim l).map (fun x => x.2.toE x.1) := by
  unfold normaliseE normPairs
  rw [toE_map_bare, minOffset_bare]
  simp [List.map_map, Function.comp_def, Arr.toE]

theorem normPairs_snd (ndim : Nat) (l : List (DT × Arr)) :
    (normPairs ndim l).map (·.2) = normalise ndim (l.map (·.2)) := by
  simp [normPairs, normalise, List.map_map, Function.comp_def]

theorem contribsE_perm (a₁ a₂ : List ArrE) (hp : a₁.Perm a₂) (p : Idx) : (contribsE a₁ p).Perm (contribsE a₂ p) :=
  hp.filterMap _

theorem hypD_perm (cdt : DT) (m : Mode) (a₁ a₂ : List ArrE) (hp : a₁.Perm a₂) (p : Idx) :
    hypD cdt m a₁ p = hypD cdt m a₂ p := by
  have hc := contribsE_perm a₁ a₂ hp p
  have hs := sumE_perm _ _ hc
  have hall : ∀ f : EV → Bool, (contribsE a₁ p).all f = (contribsE a₂ p).all f := by
    intro f
    rw [Bool.eq_iff_iff]
    simp only [List.all_eq_true]
    exact ⟨fun h x hx => h x (hc.mem_iff.mpr hx), fun h x hx => h x (hc.mem_iff.mp hx)⟩
  cases m <;> cases cdt <;> simp only [hypD, hs, hall]

theorem normaliseE_perm (ndim : Nat) (a₁ a₂ : List ArrE) (hp : a₁.Perm a₂) :
    (normaliseE ndim a₁).Perm (normaliseE ndim a₂) := by
  unfold normaliseE
  rw [minOffset_perm ndim _ _ (hp.map ArrE.bare)]
  exact hp.map _

def finPart : EV → Rat
  | .fin x => x
  | _ => 0

/-- the IEEE sum of non-NaN values, said without arithmetic on infinities: NaN exactly when +∞ and −∞ are both
present, the infinity that is present otherwise, else the exact sum -/
theorem sumE_eq (l : List EV) (h : ∀ v ∈ l, v ≠ EV.nan) :
    sumE l = if EV.pinf ∈ l then (if EV.ninf ∈ l then EV.nan else EV.pinf)
             else if EV.ninf ∈ l then EV.ninf else EV.fin (l.map finPart).sum := by
  induction l with
  | nil => simp [sumE]
  | cons v l ih =>
    have ih' := ih (fun w hw => h w (by simp [hw]))
    have hv := h v (by simp)
    simp only [sumE, ih']
    cases v with
    | nan => exact absurd rfl hv
    | pinf => by_cases h1 : EV.pinf ∈ l <;> by_cases h2 : EV.ninf ∈ l <;> simp [h1, h2, EV.add]
    | ninf => by_cases h1 : EV.pinf ∈ l <;> by_cases h2 : EV.ninf ∈ l <;> simp [h1, h2, EV.add]
    | fin x => by_cases h1 : EV.pinf ∈ l <;> by_cases h2 : EV.ninf ∈ l <;> simp [h1, h2, EV.add, finPart]


theorem lookup_map_self {β : Type} (l : List String) (f : String → β) (n : String) :
    (l.map (fun x => (x, f x))).lookup n = if n ∈ l then some (f n) else none := by
  induction l with
  | nil => simp
  | cons x xs ih =>
    simp only [List.map_cons, List.mem_cons]
    by_cases e : n = x
    · subst e; simp
    · have : (n == x) = false := by simpa using e
      rw [List.lookup_cons, this, ih]
      simp [e]


/-! ### lemmas for the tiling theorem -/

theorem minList_cons_min (xs ys : List Int) (h : xs ≠ []) : minList (minList xs :: ys) = minList (xs ++ ys) := by
  have hne : xs ++ ys ≠ [] := by simp [h]
  have h1 : minList (xs ++ ys) ≤ minList (minList xs :: ys) := by
    have hm := minList_mem (minList xs :: ys) (by simp)
    rcases List.mem_cons.mp hm with e | e
    · rw [e]; exact minList_le _ _ (List.mem_append_left _ (minList_mem xs h))
    · exact minList_le _ _ (List.mem_append_right _ e)
  have h2 : minList (minList xs :: ys) ≤ minList (xs ++ ys) := by
    have hm := minList_mem (xs ++ ys) hne
    rcases List.mem_append.mp hm with e | e
    · have a := minList_le (minList xs :: ys) (minList xs) (by simp)
      have b := minList_le xs _ e
      omega
    · exact minList_le _ _ (List.mem_cons_of_mem _ e)
  omega

theorem maxList_cons_max (xs ys : List Int) (h : xs ≠ []) : maxList (maxList xs :: ys) = maxList (xs ++ ys) := by
  have hne : xs ++ ys ≠ [] := by simp [h]
  have h1 : maxList (maxList xs :: ys) ≤ maxList (xs ++ ys) := by
    have hm := maxList_mem (maxList xs :: ys) (by simp)
    rcases List.mem_cons.mp hm with e | e
    · rw [e]; exact le_maxList _ _ (List.mem_append_left _ (maxList_mem xs h))
    · exact le_maxList _ _ (List.mem_append_right _ e)
  have h2 : maxList (xs ++ ys) ≤ maxList (maxList xs :: ys) := by
    have hm := maxList_mem (xs ++ ys) hne
    rcases List.mem_append.mp hm with e | e
    · have a := le_maxList (maxList xs :: ys) (maxList xs) (by simp)
      have b := le_maxList xs _ e
      omega
    · exact le_maxList _ _ (List.mem_cons_of_mem _ e)
  omega

theorem allIdx_length (s : List Nat) : ∀ p ∈ allIdx s, p.length = s.length := by
  induction s with
  | nil => intro p hp; simp [allIdx] at hp; simp [hp]
  | cons x xs ih =>
    intro p hp
    simp only [allIdx, List.mem_flatMap, List.mem_map] at hp
    obtain ⟨i, _, r, hr, rfl⟩ := hp
    simp [ih r hr]

theorem inRange_iff (q : List Int) (s : List Nat) :
    inRange q s = true ↔ q.length = s.length ∧ ∀ k, k < s.length → 0 ≤ axis k q ∧ axis k q < ((s.getD k 0 : Nat) : Int) := by
  induction q generalizing s with
  | nil =>
    cases s with
    | nil => simp [inRange]
    | cons x xs => simp [inRange]
  | cons a q ih =>
    cases s with
    | nil => simp [inRange]
    | cons x xs =>
      simp only [inRange, Bool.and_eq_true, decide_eq_true_eq, ih, List.length_cons, Nat.add_right_cancel_iff]
      constructor
      · rintro ⟨⟨h0, h1⟩, hl, hr⟩
        refine ⟨hl, ?_⟩
        intro k hk
        cases k with
        | zero => simpa [axis] using ⟨h0, h1⟩
        | succ k => simpa [axis] using hr k (by omega)
      · rintro ⟨hl, hr⟩
        refine ⟨by simpa [axis] using hr 0 (by omega), hl, ?_⟩
        intro k hk
        simpa [axis] using hr (k + 1) (by omega)

theorem sub_length (p q : List Int) : (sub p q).length = min p.length q.length := by simp [sub]

/-- the same image seen from two frames: normalised by `M₁` and looked at at `p - (M₁ - M)`, or normalised by `M` and
looked at at `p` -/
theorem at_reframe (a : Arr) (M₁ M p : List Int) (ndim : Nat) (hp : p.length = ndim) (ha : a.off.length = ndim)
    (hM₁ : M₁.length = ndim) (hM : M.length = ndim) :
    ({ a with off := sub a.off M₁ } : Arr).at (sub p (sub M₁ M)) = ({ a with off := sub a.off M } : Arr).at p := by
  have key : sub (sub p (sub M₁ M)) (sub a.off M₁) = sub p (sub a.off M) := by
    apply List.ext_getElem
    · simp [sub_length, hp, ha, hM₁, hM]
    · intro i h1 h2
      simp only [sub, List.getElem_zipWith]
      omega
  unfold Arr.at Arr.inside
  simp only [key, sub_length, hp, ha, hM₁, hM, Nat.min_self]

theorem contribs_reframe (l : List Arr) (M₁ M p : List Int) (ndim : Nat) (hp : p.length = ndim)
    (hl : ∀ a ∈ l, a.off.length = ndim) (hM₁ : M₁.length = ndim) (hM : M.length = ndim) :
    contribs (l.map fun a => { a with off := sub a.off M₁ }) (sub p (sub M₁ M))
      = contribs (l.map fun a => { a with off := sub a.off M }) p := by
  induction l with
  | nil => rfl
  | cons a l ih =>
    simp only [List.map_cons]
    rw [contribs_cons, contribs_cons, ih (fun b hb => hl b (by simp [hb])),
      at_reframe a M₁ M p ndim hp (hl a (by simp)) hM₁ hM]

theorem newShape_length (ndim : Nat) (l : List Arr) : (newShape ndim l).length = ndim := by simp [newShape]

end Pew.Overlap
