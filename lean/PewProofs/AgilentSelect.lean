import PewProofs.Agilent

/-! Helper lemmas for C02, second part: the stable sort of the method-file reader against its
declarative specification, and the selection loop of `collect_datafiles` against `Selected`. -/
namespace Pew.Agilent

/-! ## stable sort by an integer key -/
section stable
variable {α : Type} (key : α → Int)

theorem keyLeInt_trans (a b c : α) :
    decide (key a ≤ key b) = true → decide (key b ≤ key c) = true → decide (key a ≤ key c) = true := by
  simp only [decide_eq_true_eq]; omega

theorem keyLeInt_total (a b : α) : (decide (key a ≤ key b) || decide (key b ≤ key a)) = true := by
  simp only [Bool.or_eq_true, decide_eq_true_eq]; omega

/-- Python's `sorted(l, key=key)` is a permutation, ascending, and keeps the original order among
equal keys -/
theorem sortByInt_stable (l : List α) : StableSortedBy key l (sortByInt key l) := by
  refine ⟨List.mergeSort_perm _ _, ?_, ?_⟩
  · have := List.pairwise_mergeSort (le := fun a b => decide (key a ≤ key b)) (keyLeInt_trans key)
      (keyLeInt_total key) l
    simpa [sortByInt] using this
  · intro v
    have hpw : (l.filter (fun a => decide (key a = v))).Pairwise (fun a b => decide (key a ≤ key b) = true) := by
      apply List.Pairwise.imp_of_mem (R := fun _ _ => True)
      · intro a b ha hb _
        simp only [List.mem_filter, decide_eq_true_eq] at ha hb
        simp only [decide_eq_true_eq]; omega
      · exact List.pairwise_of_forall (fun _ _ => trivial)
    have hsub : List.Sublist (l.filter (fun a => decide (key a = v))) (sortByInt key l) :=
      List.sublist_mergeSort (keyLeInt_trans key) (keyLeInt_total key) hpw List.filter_sublist
    have hsub2 := hsub.filter (fun a => decide (key a = v))
    rw [List.filter_filter] at hsub2
    simp only [Bool.and_self] at hsub2
    have hlen : ((sortByInt key l).filter (fun a => decide (key a = v))).length
        = (l.filter (fun a => decide (key a = v))).length :=
      ((List.mergeSort_perm l _).filter _).length_eq
    exact (hsub2.eq_of_length hlen.symm).symm

/-- an ascending list is determined by its groups of equal keys -/
theorem eq_of_sorted_of_groups : ∀ (s₁ s₂ : List α),
    s₁.Pairwise (fun a b => key a ≤ key b) → s₂.Pairwise (fun a b => key a ≤ key b) →
    (∀ v : Int, s₁.filter (fun a => key a = v) = s₂.filter (fun a => key a = v)) → s₁ = s₂
  | [], [], _, _, _ => rfl
  | [], b :: t, _, _, h => by
    have := h (key b)
    simp at this
  | a :: t, [], _, _, h => by
    have := h (key a)
    simp at this
  | a :: t₁, b :: t₂, h₁, h₂, h => by
    have hp₁ := List.pairwise_cons.mp h₁
    have hp₂ := List.pairwise_cons.mp h₂
    have hab : key a ≤ key b := by
      have hb : b ∈ (a :: t₁).filter (fun x => decide (key x = key b)) := by
        rw [h (key b)]; simp
      have hb' := (List.mem_filter.mp hb).1
      rcases List.mem_cons.mp hb' with rfl | hb'
      · exact Int.le_refl _
      · exact hp₁.1 b hb'
    have hba : key b ≤ key a := by
      have ha : a ∈ (b :: t₂).filter (fun x => decide (key x = key a)) := by
        rw [← h (key a)]; simp
      have ha' := (List.mem_filter.mp ha).1
      rcases List.mem_cons.mp ha' with rfl | ha'
      · exact Int.le_refl _
      · exact hp₂.1 a ha'
    have hk : key a = key b := Int.le_antisymm hab hba
    have h0 := h (key a)
    rw [List.filter_cons_of_pos (by simp), List.filter_cons_of_pos (by simp [hk])] at h0
    have hhead : a = b := (List.cons.inj h0).1
    subst hhead
    congr 1
    apply eq_of_sorted_of_groups t₁ t₂ hp₁.2 hp₂.2
    intro v
    have hv := h v
    by_cases hav : key a = v
    · rw [List.filter_cons_of_pos (by simp [hav]), List.filter_cons_of_pos (by simp [hav])] at hv
      exact (List.cons.inj hv).2
    · rw [List.filter_cons_of_neg (by simp [hav]), List.filter_cons_of_neg (by simp [hav])] at hv
      exact hv

/-- the declarative specification determines the list -/
theorem stableSortedBy_unique (l s₁ s₂ : List α) (h₁ : StableSortedBy key l s₁) (h₂ : StableSortedBy key l s₂) :
    s₁ = s₂ :=
  eq_of_sorted_of_groups key s₁ s₂ h₁.2.1 h₂.2.1 (fun v => (h₁.2.2 v).trans (h₂.2.2 v).symm)

end stable

/-! ## the insertion form of the method-file specification -/

theorem insertSample_append (a : Sample) (l₁ l₂ : List Sample)
    (h1 : ∀ b ∈ l₁, sampleKey b < sampleKey a) (h2 : ∀ b ∈ l₂, sampleKey a ≤ sampleKey b) :
    insertSample a (l₁ ++ l₂) = l₁ ++ a :: l₂ := by
  induction l₁ with
  | nil =>
    cases l₂ with
    | nil => rfl
    | cons b bs => simp [insertSample, h2 b (by simp)]
  | cons x xs ih =>
    have hx := h1 x (by simp)
    have : ¬ sampleKey a ≤ sampleKey x := by omega
    simp only [List.cons_append, insertSample, this, if_false]
    rw [ih (fun b hb => h1 b (by simp [hb]))]

theorem sortByInt_cons (a : Sample) (l : List Sample) :
    sortByInt sampleKey (a :: l) = insertSample a (sortByInt sampleKey l) := by
  obtain ⟨l₁, l₂, h₁, h₂, h₃⟩ := List.mergeSort_cons (le := fun a b => decide (sampleKey a ≤ sampleKey b))
    (keyLeInt_trans sampleKey) (keyLeInt_total sampleKey) a l
  have hs := (sortByInt_stable sampleKey (a :: l)).2.1
  unfold sortByInt at hs ⊢
  rw [h₁] at hs ⊢
  rw [h₂]
  symm
  apply insertSample_append
  · intro b hb
    have := h₃ b hb
    simp only [Bool.not_eq_true', decide_eq_false_iff_not] at this
    omega
  · intro b hb
    have := (List.pairwise_append.mp hs).2.1
    exact (List.pairwise_cons.mp this).1 b hb

theorem sortByInt_eq_acqSorted (l : List Sample) : sortByInt sampleKey l = acqSorted l := by
  induction l with
  | nil => simp [sortByInt, acqSorted]
  | cons a l ih => rw [sortByInt_cons, ih]; rfl

/-! ## the selection loop -/

theorem collect_cons_of_ne (m : Meta) (spc : Bool) (meth : Method) (rest : List Method)
    (h : meth ≠ .alphabetical) :
    collect m spc (meth :: rest) =
      match m.source spc meth with
      | some files => if files.all m.exists then some files else collect m spc rest
      | none => collect m spc rest := by
  cases meth <;> first | rfl | exact absurd rfl h

theorem selected_nil (m : Meta) (src : Method → Option (List Name)) (scan r : Option (List Name)) :
    Selected m src scan [] r ↔ r = none := by
  unfold Selected
  constructor
  · rintro (⟨pre, meth, post, h, _⟩ | ⟨_, h⟩)
    · simp at h
    · exact h
  · intro h
    exact Or.inr ⟨by simp, h⟩

/-- one step of the declarative specification: the first method decides, or fails and hands over -/
theorem selected_cons (m : Meta) (src : Method → Option (List Name)) (scan r : Option (List Name))
    (x : Method) (rest : List Method) :
    Selected m src scan (x :: rest) r ↔
      (x = .alphabetical ∧ r = scan) ∨
      (x ≠ .alphabetical ∧ ∃ files, src x = some files ∧ (∀ f ∈ files, m.exists f = true) ∧ r = some files) ∨
      (m.Fails src x ∧ Selected m src scan rest r) := by
  unfold Selected
  constructor
  · rintro (⟨pre, meth, post, hsplit, hpre, hmeth⟩ | ⟨hall, hr⟩)
    · cases pre with
      | nil =>
        simp only [List.nil_append, List.cons.injEq] at hsplit
        obtain ⟨rfl, rfl⟩ := hsplit
        rcases hmeth with h | h
        · exact Or.inl h
        · exact Or.inr (Or.inl h)
      | cons p ps =>
        simp only [List.cons_append, List.cons.injEq] at hsplit
        obtain ⟨rfl, rfl⟩ := hsplit
        exact Or.inr (Or.inr ⟨hpre x (by simp), Or.inl ⟨ps, meth, post, rfl, fun y hy => hpre y (by simp [hy]), hmeth⟩⟩)
    · exact Or.inr (Or.inr ⟨hall x (by simp), Or.inr ⟨fun y hy => hall y (by simp [hy]), hr⟩⟩)
  · rintro (h | h | ⟨hf, hrest⟩)
    · exact Or.inl ⟨[], x, rest, rfl, by simp, Or.inl h⟩
    · exact Or.inl ⟨[], x, rest, rfl, by simp, Or.inr h⟩
    · rcases hrest with ⟨pre, meth, post, hsplit, hpre, hmeth⟩ | ⟨hall, hr⟩
      · refine Or.inl ⟨x :: pre, meth, post, by rw [hsplit]; rfl, ?_, hmeth⟩
        intro y hy
        rcases List.mem_cons.mp hy with rfl | hy
        · exact hf
        · exact hpre y hy
      · refine Or.inr ⟨?_, hr⟩
        intro y hy
        rcases List.mem_cons.mp hy with rfl | hy
        · exact hf
        · exact hall y hy

/-! ## pixels -/

theorem px_eq_some {β : Type} (img : List (List (List β))) (i j r : Nat) (x : β) :
    px img i j r = some x ↔ ∃ line col, img[i]? = some line ∧ line[j]? = some col ∧ col[r]? = some x := by
  unfold px
  constructor
  · intro h
    cases hl : img[i]? with
    | none => rw [hl] at h; simp at h
    | some line =>
      rw [hl] at h
      simp only [Option.bind_some] at h
      cases hc : line[j]? with
      | none => rw [hc] at h; simp at h
      | some col =>
        rw [hc] at h
        exact ⟨line, col, rfl, hc, by simpa using h⟩
  · rintro ⟨line, col, h1, h2, h3⟩
    simp [h1, h2, h3]

theorem zip_all_iff {β γ : Type} (l₁ : List β) (l₂ : List γ) (f : β × γ → Bool) :
    (l₁.zip l₂).all f = true ↔ ∀ (i : Nat) a b, l₁[i]? = some a → l₂[i]? = some b → f (a, b) = true := by
  rw [List.all_eq_true]
  constructor
  · intro h i a b ha hb
    apply h
    rw [List.mem_iff_getElem?]
    exact ⟨i, by rw [List.getElem?_zip_eq_some]; exact ⟨ha, hb⟩⟩
  · intro h z hz
    obtain ⟨i, hi⟩ := List.mem_iff_getElem?.mp hz
    rw [List.getElem?_zip_eq_some] at hi
    exact h i z.1 z.2 hi.1 hi.2

end Pew.Agilent
