import PewProofs.AgilentSelect
import Mathlib.Algebra.Order.AbsoluteValue.Basic
import Mathlib.Tactic.FieldSimp
import Mathlib.Tactic.Positivity

/-! Helper lemmas for C02, third part: binary-vs-CSV agreement to the printed precision. -/
namespace Pew.Agilent

theorem absRat_eq_abs (q : Rat) : absRat q = |q| := by
  unfold absRat
  split
  · rw [abs_of_neg ‹_›]
  · rw [abs_of_nonneg (not_lt.mp ‹_›)]

theorem agreePx_iff (tol slack x y : Rat) :
    agreePx tol slack x y = true ↔ |x - y| ≤ tol + slack * (|x| + |y|) := by
  simp [agreePx, absRat_eq_abs]

/-- the meaning of `agreeLine`, index by index -/
theorem agreeLine_iff (tol slack : Rat) (a b : List (List Rat)) :
    agreeLine tol slack a b = true ↔
      a.length = b.length ∧ ∀ (j : Nat) ca cb, a[j]? = some ca → b[j]? = some cb →
        ca.length = cb.length ∧ ∀ (r : Nat) x y, ca[r]? = some x → cb[r]? = some y → agreePx tol slack x y = true := by
  unfold agreeLine
  rw [Bool.and_eq_true, zip_all_iff]
  simp only [beq_iff_eq]
  constructor
  · rintro ⟨h1, h2⟩
    refine ⟨h1, fun j ca cb ha hb => ?_⟩
    have := h2 j ca cb ha hb
    simp only [Bool.and_eq_true, beq_iff_eq] at this
    rw [zip_all_iff] at this
    exact this
  · rintro ⟨h1, h2⟩
    refine ⟨h1, fun j ca cb ha hb => ?_⟩
    simp only [Bool.and_eq_true, beq_iff_eq]
    rw [zip_all_iff]
    exact h2 j ca cb ha hb

/-- the meaning of `agree`: shapes of the present lines equal, and every pixel of a present line
within the tolerance -/
theorem agree_iff' (tol slack : Rat) (present : List Bool) (bin csv : Image Rat) :
    agree tol slack present bin csv = true ↔
      SameShape present bin.img csv.img ∧
      ∀ (i j r : Nat) x y, present[i]? = some true → px bin.img i j r = some x → px csv.img i j r = some y →
        agreePx tol slack x y = true := by
  unfold agree SameShape
  rw [Bool.and_eq_true, Bool.and_eq_true, zip_all_iff]
  simp only [beq_iff_eq]
  constructor
  · rintro ⟨⟨h1, h2⟩, h3⟩
    have hline : ∀ (i : Nat) la lb, present[i]? = some true → bin.img[i]? = some la → csv.img[i]? = some lb →
        agreeLine tol slack la lb = true := by
      intro i la lb hp ha hb
      have := h3 i (la, lb) true (by rw [List.getElem?_zip_eq_some]; exact ⟨ha, hb⟩) hp
      simpa using this
    refine ⟨⟨h1, h2, ?_⟩, ?_⟩
    · intro i la lb hp ha hb
      have := (agreeLine_iff tol slack la lb).mp (hline i la lb hp ha hb)
      exact ⟨this.1, fun j ca cb hca hcb => (this.2 j ca cb hca hcb).1⟩
    · intro i j r x y hp hx hy
      obtain ⟨la, ca, ha, hca, hxa⟩ := (px_eq_some _ _ _ _ _).mp hx
      obtain ⟨lb, cb, hb, hcb, hyb⟩ := (px_eq_some _ _ _ _ _).mp hy
      have := (agreeLine_iff tol slack la lb).mp (hline i la lb hp ha hb)
      exact (this.2 j ca cb hca hcb).2 r x y hxa hyb
  · rintro ⟨⟨h1, h2, h3⟩, h4⟩
    refine ⟨⟨h1, h2⟩, ?_⟩
    rintro i ⟨la, lb⟩ p hab hp
    rw [List.getElem?_zip_eq_some] at hab
    obtain ⟨ha, hb⟩ := hab
    cases p with
    | false => rfl
    | true =>
      simp only [Bool.not_true, Bool.false_or]
      rw [agreeLine_iff]
      have hs := h3 i la lb hp ha hb
      refine ⟨hs.1, fun j ca cb hca hcb => ⟨hs.2 j ca cb hca hcb, fun r x y hx hy => ?_⟩⟩
      exact h4 i j r x y hp ((px_eq_some _ _ _ _ _).mpr ⟨la, ca, ha, hca, hx⟩)
        ((px_eq_some _ _ _ _ _).mpr ⟨lb, cb, hb, hcb, hy⟩)

/-- a pixel of the nearby image has a pixel of the original under it -/
theorem near_px (eps : Rat) (a b : List (List (List Rat))) (h : Near eps a b) (i j r : Nat) (y : Rat)
    (hy : px b i j r = some y) : ∃ x, px a i j r = some x ∧ |y - x| ≤ eps * |x| := by
  obtain ⟨lb, cb, hb, hcb, hyb⟩ := (px_eq_some _ _ _ _ _).mp hy
  obtain ⟨h0, h1⟩ := h
  have hi : i < a.length := by
    rw [h0]; exact (List.getElem?_eq_some_iff.mp hb).1
  obtain ⟨h2, h3⟩ := h1 i a[i] lb (List.getElem?_eq_getElem hi) hb
  have hj : j < a[i].length := by
    rw [h2]; exact (List.getElem?_eq_some_iff.mp hcb).1
  obtain ⟨h4, h5⟩ := h3 j a[i][j] cb (List.getElem?_eq_getElem hj) hcb
  have hr : r < a[i][j].length := by
    rw [h4]; exact (List.getElem?_eq_some_iff.mp hyb).1
  refine ⟨a[i][j][r], (px_eq_some _ _ _ _ _).mpr ⟨a[i], a[i][j], List.getElem?_eq_getElem hi,
    List.getElem?_eq_getElem hj, List.getElem?_eq_getElem hr⟩, ?_⟩
  have := h5 r a[i][j][r] y (List.getElem?_eq_getElem hr) hyb
  simpa [absRat_eq_abs] using this

theorem near_refl (eps : Rat) (heps : 0 ≤ eps) (a : List (List (List Rat))) : Near eps a a := by
  refine ⟨rfl, fun i la lb ha hb => ?_⟩
  rw [ha] at hb
  cases hb
  refine ⟨rfl, fun j ca cb hca hcb => ?_⟩
  rw [hca] at hcb
  cases hcb
  refine ⟨rfl, fun r x y hx hy => ?_⟩
  rw [hx] at hy
  cases hy
  simp only [sub_self, absRat_eq_abs, abs_zero]
  exact mul_nonneg heps (abs_nonneg _)

theorem near_shape (eps : Rat) (a b : List (List (List Rat))) (h : Near eps a b) :
    a.length = b.length ∧ ∀ (i : Nat) la lb, a[i]? = some la → b[i]? = some lb →
      la.length = lb.length ∧ ∀ (j : Nat) ca cb, la[j]? = some ca → lb[j]? = some cb → ca.length = cb.length :=
  ⟨h.1, fun i la lb ha hb => ⟨(h.2 i la lb ha hb).1, fun j ca cb hca hcb => ((h.2 i la lb ha hb).2 j ca cb hca hcb).1⟩⟩

theorem getElem?_of_length_eq {β γ : Type} (a : List β) (b : List γ) (h : a.length = b.length) (i : Nat) (y : γ)
    (hy : b[i]? = some y) : ∃ x, a[i]? = some x := by
  have hi : i < a.length := by rw [h]; exact (List.getElem?_eq_some_iff.mp hy).1
  exact ⟨a[i], List.getElem?_eq_getElem hi⟩

/-- the shape of the exact images carries over to the nearby ones -/
theorem sameShape_near (eps : Rat) (present : List Bool) (sb sc ib ic : List (List (List Rat)))
    (hb : Near eps sb ib) (hc : Near eps sc ic) (h : SameShape present sb sc) : SameShape present ib ic := by
  obtain ⟨h1, h2, h3⟩ := h
  obtain ⟨b1, b2⟩ := near_shape eps sb ib hb
  obtain ⟨c1, c2⟩ := near_shape eps sc ic hc
  refine ⟨by omega, by omega, ?_⟩
  intro i la lb hp ha hb'
  obtain ⟨sa, hsa⟩ := getElem?_of_length_eq sb ib b1 i la ha
  obtain ⟨sc', hsc⟩ := getElem?_of_length_eq sc ic c1 i lb hb'
  obtain ⟨e1, e2⟩ := h3 i sa sc' hp hsa hsc
  obtain ⟨f1, f2⟩ := b2 i sa la hsa ha
  obtain ⟨g1, g2⟩ := c2 i sc' lb hsc hb'
  refine ⟨by omega, ?_⟩
  intro j ca cb hca hcb
  obtain ⟨xa, hxa⟩ := getElem?_of_length_eq sa la f1 j ca hca
  obtain ⟨xc, hxc⟩ := getElem?_of_length_eq sc' lb g1 j cb hcb
  have := e2 j xa xc hxa hxc
  have := f2 j xa ca hxa hca
  have := g2 j xc cb hxc hcb
  omega

/-- the arithmetic behind `agree_transfer`: three roundings of relative size `2⁻⁵³` fit between the
slack `2⁻⁵²` on the exact values and the slack `2⁻⁵⁰` on the rounded ones -/
theorem agreePx_transfer (tol x y x' y' : Rat)
    (hx : |x' - x| ≤ 1 / 2 ^ 53 * |x|) (hy : |y' - y| ≤ 1 / 2 ^ 53 * |y|)
    (h : |x - y| ≤ tol + printSlack * (|x| + |y|)) :
    |x' - y'| ≤ tol + agreeSlack * (|x'| + |y'|) := by
  unfold printSlack at h
  unfold agreeSlack
  have e : x' - y' = (x' - x) + (x - y) + (y - y') := by ring
  have t1 : |x' - y'| ≤ |x' - x| + |x - y| + |y - y'| := by
    rw [e]
    exact (abs_add_le _ _).trans (add_le_add_left (abs_add_le _ _) _)
  have hyy : |y - y'| = |y' - y| := abs_sub_comm _ _
  have bx : |x| ≤ |x'| + |x' - x| := by
    have : x = x' - (x' - x) := by ring
    calc |x| = |x' - (x' - x)| := by rw [← this]
      _ ≤ |x'| + |x' - x| := abs_sub _ _
  have by' : |y| ≤ |y'| + |y' - y| := by
    have : y = y' - (y' - y) := by ring
    calc |y| = |y' - (y' - y)| := by rw [← this]
      _ ≤ |y'| + |y' - y| := abs_sub _ _
  have px := abs_nonneg x
  have py := abs_nonneg y
  have px' := abs_nonneg x'
  have py' := abs_nonneg y'
  norm_num at hx hy h ⊢
  linarith

/-- round-half-up to `d` decimals is within half a unit of the `d`-th decimal place -/
theorem roundDec_spec (d : Nat) (q : Rat) : |roundDec d q - q| ≤ halfUnit d := by
  unfold roundDec halfUnit
  have hp : (0 : Rat) < ((10 ^ d : Nat) : Rat) := by positivity
  generalize ((10 ^ d : Nat) : Rat) = p at hp
  have h1 := Rat.floor_le (q * p + 1 / 2)
  have h2 := Rat.lt_floor_add_one (q * p + 1 / 2)
  generalize (q * p + 1 / 2).floor = n at h1 h2
  push_cast at h2
  rw [abs_le]
  have e : (n : Rat) / p - q = ((n : Rat) - q * p) / p := by field_simp
  rw [e]
  have hh : (1 : Rat) / (2 * p) = (1 / 2) / p := by field_simp
  rw [hh]
  constructor
  · rw [← neg_div, div_le_div_iff_of_pos_right hp]; linarith
  · rw [div_le_div_iff_of_pos_right hp]; linarith

end Pew.Agilent
