import PewProofs.ConvolveDens
import Mathlib.Analysis.SpecialFunctions.Pow.Real
import Mathlib.Analysis.SpecialFunctions.Trigonometric.Basic
import Mathlib.Analysis.Real.Sqrt

/-! # C18 — the special functions of the kernel densities instantiated with the real `exp`, `log`, power, `|·|`
and `√(2π)` of Mathlib: they are `Special.Sound` -/
namespace Pew.Convolve

/-- the functions pewlib approximates in floating point, as real functions -/
noncomputable def realSpecial : Special ℝ where
  ofRat := fun q => (q : ℝ)
  exp := Real.exp
  log := Real.log
  rpow := fun x y => x ^ y
  abs := fun t => |t|
  s2pi := Real.sqrt (2 * Real.pi)

theorem realSpecial_sound : realSpecial.Sound where
  cast := fun _ => rfl
  exp_pos := Real.exp_pos
  rpow_pos := fun _ y hx => Real.rpow_pos_of_pos hx y
  rpow_zero_nonneg := fun y => Real.rpow_nonneg (le_refl 0) y
  s2pi_pos := Real.sqrt_pos.mpr (mul_pos (by norm_num) Real.pi_pos)

end Pew.Convolve
