import PewProofs.Export

/-! # C16 — files written by other tools: the class `foreignFile` loads to the image it stands for -/
namespace Pew.Export

variable {α : Type}

/-! ### line terminators -/

/-- text without line-break characters passes the newline translation unchanged and resets its state -/
theorem universalNewlines_plain (b : Bool) (k rest : Str) (hk : ∀ c ∈ k, c ≠ '\r' ∧ c ≠ '\n') (hne : k ≠ []) :
    universalNewlines b (k ++ rest) = k ++ universalNewlines false rest := by
  induction k generalizing b with
  | nil => exact absurd rfl hne
  | cons c cs ih =>
    have hc := hk c (by simp)
    simp only [List.cons_append, universalNewlines, if_neg hc.1, if_neg hc.2, List.cons.injEq, true_and]
    cases cs with
    | nil => rfl
    | cons d ds => exact ih false (fun x hx => hk x (by simp [hx])) (by simp)

theorem pyLines_cons (k rest : Str) (hk : '\n' ∉ k) : pyLines (k ++ '\n' :: rest) = (k ++ ['\n']) :: pyLines rest := by
  unfold pyLines
  rw [splitOn_append '\n' k rest hk]
  have hne := splitOn_ne_nil '\n' rest
  generalize splitOn '\n' rest = q at hne
  cases q with
  | nil => exact absurd rfl hne
  | cons x xs => simp [List.dropLast, List.getLast?_cons_cons]

theorem pyLines_last (k : Str) (hk : '\n' ∉ k) (hne : k ≠ []) : pyLines k = [k] := by
  unfold pyLines
  rw [splitOn_clean '\n' k hk]
  cases k with
  | nil => exact absurd rfl hne
  | cons c cs => simp

theorem pyLines_nil : pyLines [] = [] := by decide

/-! ### what `foreignOk` says -/

theorem foreignOk_cons (fmt : α → Str) (l : FLine α) (rest : List (FLine α)) (h : foreignOk fmt (l :: rest) = true) :
    (∀ s ∈ l.seps, IsDelim s) ∧
    (l.seps.length + 1 = l.cells.length ∨ (l.cells = [] ∧ l.seps = [])) ∧
    (∀ c, l.comment = some c → ∀ x ∈ c, x ≠ '\n' ∧ x ≠ '\r') ∧
    (l.eol = .eof → rest = [] ∧ l.content fmt ≠ []) ∧
    (l.eol = .cr → ∀ n r, rest = n :: r → ¬ (n.content fmt = [] ∧ n.eol = .lf)) ∧
    foreignOk fmt rest = true := by
  simp only [foreignOk, Bool.and_eq_true] at h
  obtain ⟨⟨⟨⟨⟨h1, h2⟩, h3⟩, h4⟩, h5⟩, h6⟩ := h
  refine ⟨?_, ?_, ?_, ?_, ?_, h6⟩
  · intro s hs
    have := List.all_eq_true.mp h1 s hs
    simp only [Bool.or_eq_true, decide_eq_true_eq] at this
    rcases this with (e | e) | e
    · exact Or.inl e
    · exact Or.inr (Or.inl e)
    · exact Or.inr (Or.inr e)
  · simp only [Bool.or_eq_true, beq_iff_eq, Bool.and_eq_true, List.isEmpty_iff] at h2
    exact h2
  · intro c hc x hx
    rw [hc] at h3
    have := List.all_eq_true.mp h3 x hx
    simpa using this
  · intro he
    rw [if_pos he] at h4
    simp only [Bool.and_eq_true, List.isEmpty_iff, Bool.not_eq_true', List.isEmpty_eq_false_iff] at h4
    exact h4
  · intro he n r hr
    rw [he, hr] at h5
    simp only [Bool.not_eq_true', Bool.and_eq_false_iff, List.isEmpty_eq_false_iff, decide_eq_false_iff_not] at h5
    intro ⟨e1, e2⟩
    rcases h5 with h | h
    · exact h e1
    · exact h e2

/-! ### the characters of a line -/

theorem mem_joinWith (ss : List Char) (fs : List Str) (c : Char) (h : c ∈ joinWith ss fs) :
    c ∈ ss ∨ c = ',' ∨ ∃ f ∈ fs, c ∈ f := by
  induction fs generalizing ss with
  | nil => cases ss <;> simp [joinWith] at h
  | cons x r ih =>
    cases r with
    | nil =>
      have : c ∈ x := by cases ss <;> simpa [joinWith] using h
      exact Or.inr (Or.inr ⟨x, by simp, this⟩)
    | cons y r =>
      cases ss with
      | nil =>
        simp only [joinWith, List.mem_append, List.mem_cons] at h
        rcases h with h | h | h
        · exact Or.inr (Or.inr ⟨x, by simp, h⟩)
        · exact Or.inr (Or.inl h)
        · rcases ih [] h with e | e | ⟨f, hf, hcf⟩
          · simp at e
          · exact Or.inr (Or.inl e)
          · exact Or.inr (Or.inr ⟨f, by simp [hf], hcf⟩)
      | cons s ss =>
        simp only [joinWith, List.mem_append, List.mem_cons] at h
        rcases h with h | h | h
        · exact Or.inr (Or.inr ⟨x, by simp, h⟩)
        · exact Or.inl (by simp [h])
        · rcases ih ss h with e | e | ⟨f, hf, hcf⟩
          · exact Or.inl (by simp [e])
          · exact Or.inr (Or.inl e)
          · exact Or.inr (Or.inr ⟨f, by simp [hf], hcf⟩)

theorem mem_spaces (n : Nat) (c : Char) (h : c ∈ spaces n) : c = ' ' := by
  simpa [spaces] using (List.mem_replicate.mp h).2

theorem mem_cellText (fmt : α → Str) (cell : Nat × α × Nat) (c : Char) (h : c ∈ cellText fmt cell) :
    c = ' ' ∨ c ∈ fmt cell.2.1 := by
  simp only [cellText, List.mem_append] at h
  rcases h with (h | h) | h
  · exact Or.inl (mem_spaces _ _ h)
  · exact Or.inr h
  · exact Or.inl (mem_spaces _ _ h)

/-- the cells and separators of a line hold no line break, no comment character -/
theorem mem_rowText (fmt : α → Str) (conv : Str → α) (hc : Clean fmt conv) (ss : List Char) (cells : List (Nat × α × Nat))
    (hs : ∀ s ∈ ss, IsDelim s) (c : Char) (h : c ∈ joinWith ss (cells.map (cellText fmt))) :
    c ≠ '\r' ∧ c ≠ '\n' ∧ c ≠ '#' := by
  rcases mem_joinWith _ _ _ h with e | e | ⟨f, hf, hcf⟩
  · rcases hs c e with e | e | e <;> subst e <;> decide
  · subst e; decide
  · obtain ⟨cell, _, rfl⟩ := List.mem_map.mp hf
    rcases mem_cellText fmt cell c hcf with e | e
    · subst e; decide
    · have := hc.chars _ c e
      exact ⟨this.2.2.2.2.1, this.2.2.2.1, this.2.2.2.2.2.1⟩

theorem content_plain (fmt : α → Str) (conv : Str → α) (hc : Clean fmt conv) (l : FLine α)
    (hs : ∀ s ∈ l.seps, IsDelim s) (hcm : ∀ c, l.comment = some c → ∀ x ∈ c, x ≠ '\n' ∧ x ≠ '\r') :
    ∀ c ∈ l.content fmt, c ≠ '\r' ∧ c ≠ '\n' := by
  intro c h
  simp only [FLine.content, List.mem_append] at h
  rcases h with (h | h) | h
  · have := mem_spaces _ _ h; subst this; decide
  · have := mem_rowText fmt conv hc _ _ hs c h
    exact ⟨this.1, this.2.1⟩
  · cases hcmt : l.comment with
    | none => rw [hcmt] at h; simp [commentText] at h
    | some cm =>
      rw [hcmt] at h
      simp only [commentText, List.mem_cons] at h
      rcases h with e | e
      · subst e; decide
      · have := hcm cm hcmt c e
        exact ⟨this.2, this.1⟩

/-! ### the file after newline translation, and its lines -/

/-- the terminator as the loader sees it -/
def eolN (e : Eol) : Str := if e = .eof then [] else ['\n']

theorem universalNewlines_foreign (fmt : α → Str) (conv : Str → α) (hc : Clean fmt conv) (ls : List (FLine α))
    (hok : foreignOk fmt ls = true) (b : Bool)
    (hb : b = true → ∀ n r, ls = n :: r → ¬ (n.content fmt = [] ∧ n.eol = .lf)) :
    universalNewlines b (foreignFile fmt ls) = ls.flatMap fun l => l.content fmt ++ eolN l.eol := by
  induction ls generalizing b with
  | nil => rfl
  | cons l rest ih =>
    obtain ⟨hs, _, hcm, heof, hcr, hrest⟩ := foreignOk_cons fmt l rest hok
    have hplain := content_plain fmt conv hc l hs hcm
    have hff : foreignFile fmt (l :: rest) = l.content fmt ++ (l.eol.str ++ foreignFile fmt rest) := by
      simp [foreignFile]
    rw [hff, List.flatMap_cons, List.append_assoc]
    -- after the content the state is `false`, unless the content is empty
    have key : ∀ b' : Bool, (b' = true → ¬ (l.eol = .lf)) →
        universalNewlines b' (l.eol.str ++ foreignFile fmt rest)
          = eolN l.eol ++ (rest.flatMap fun l => l.content fmt ++ eolN l.eol) := by
      intro b' hb'
      have n1 : eolN Eol.lf = ['\n'] := rfl
      have n2 : eolN Eol.crlf = ['\n'] := rfl
      have n3 : eolN Eol.cr = ['\n'] := rfl
      have n4 : eolN Eol.eof = [] := rfl
      cases he : l.eol with
      | lf =>
        have : b' = false := by
          cases b' with
          | false => rfl
          | true => exact absurd he (hb' rfl)
        subst this
        rw [n1]
        simp only [Eol.str, List.cons_append, List.nil_append, universalNewlines]
        simp [ih hrest false (by simp)]
      | crlf =>
        rw [n2]
        simp only [Eol.str, List.cons_append, List.nil_append, universalNewlines]
        simp [ih hrest false (by simp)]
      | cr =>
        rw [n3]
        simp only [Eol.str, List.cons_append, List.nil_append, universalNewlines]
        simp [ih hrest true (fun _ n r hr => hcr he n r hr)]
      | eof =>
        have := (heof he).1
        subst this
        simp [Eol.str, n4, foreignFile, universalNewlines]
    by_cases hk : l.content fmt = []
    · rw [hk, List.nil_append, List.nil_append]
      exact key b (fun hbt he => hb hbt l rest rfl ⟨hk, he⟩)
    · rw [universalNewlines_plain b _ _ hplain hk, key false (by simp)]

theorem pyLines_foreign (fmt : α → Str) (conv : Str → α) (hc : Clean fmt conv) (ls : List (FLine α))
    (hok : foreignOk fmt ls = true) :
    pyLines (ls.flatMap fun l => l.content fmt ++ eolN l.eol) = ls.map fun l => l.content fmt ++ eolN l.eol := by
  induction ls with
  | nil => exact pyLines_nil
  | cons l rest ih =>
    obtain ⟨hs, _, hcm, heof, _, hrest⟩ := foreignOk_cons fmt l rest hok
    have hnl : '\n' ∉ l.content fmt := fun h => (content_plain fmt conv hc l hs hcm _ h).2 rfl
    by_cases he : l.eol = .eof
    · obtain ⟨hr, hne⟩ := heof he
      subst hr
      simp only [List.flatMap_cons, List.flatMap_nil, List.append_nil, List.map_cons, List.map_nil, eolN, he, if_true]
      exact pyLines_last _ hnl hne
    · have : eolN l.eol = ['\n'] := by simp [eolN, he]
      simp only [List.flatMap_cons, List.map_cons, this, List.append_assoc, List.singleton_append]
      rw [pyLines_cons _ _ hnl, ih hrest]

/-- the lines the loader works on, for a file of the class -/
theorem loaderLines_foreign (fmt : α → Str) (conv : Str → α) (hc : Clean fmt conv) (ls : List (FLine α))
    (hok : foreignOk fmt ls = true) :
    loaderLines (foreignFile fmt ls) = ls.map fun l => normalise (l.content fmt ++ eolN l.eol) := by
  unfold loaderLines
  rw [universalNewlines_foreign fmt conv hc ls hok false (by simp), pyLines_foreign fmt conv hc ls hok, List.map_map]
  rfl

/-! ### stripping a line of padded cells -/

theorem dropWhile_all (p : Char → Bool) (l1 l2 : Str) (h : ∀ c ∈ l1, p c = true) :
    (l1 ++ l2).dropWhile p = l2.dropWhile p := by
  induction l1 with
  | nil => rfl
  | cons c cs ih =>
    simp only [List.cons_append, List.dropWhile_cons, h c (by simp), if_true]
    exact ih (fun x hx => h x (by simp [hx]))

theorem dropWhile_stop (p : Char → Bool) (l r : Str) (c : Char) (hc : p c = false) :
    (l ++ c :: r).dropWhile p = l.dropWhile p ++ c :: r := by
  induction l with
  | nil => simp [hc]
  | cons d ds ih =>
    by_cases hd : p d = true
    · simp only [List.cons_append, List.dropWhile_cons, hd, if_true, ih]
    · simp [hd]

theorem spaces_strip (n : Nat) : ∀ c ∈ spaces n, isStripChar c = true := by
  intro c h
  rw [mem_spaces n c h]; decide

def joinTail (d : Char) : List Str → Str
  | [] => []
  | y :: ys => d :: join d (y :: ys)

theorem join_cons (d : Char) (x : Str) (xs : List Str) : join d (x :: xs) = x ++ joinTail d xs := by
  cases xs <;> simp [join, joinTail]

/-- the first cell loses the spaces before it, the last one those after it -/
def trimFirst : List (Nat × α × Nat) → List (Nat × α × Nat)
  | [] => []
  | c :: r => (0, c.2.1, c.2.2) :: r

def trimLast : List (Nat × α × Nat) → List (Nat × α × Nat)
  | [] => []
  | [c] => [(c.1, c.2.1, 0)]
  | c :: c' :: r => c :: trimLast (c' :: r)

theorem trimFirst_values (cells : List (Nat × α × Nat)) : (trimFirst cells).map (·.2.1) = cells.map (·.2.1) := by
  cases cells <;> simp [trimFirst]

theorem trimLast_values (cells : List (Nat × α × Nat)) : (trimLast cells).map (·.2.1) = cells.map (·.2.1) := by
  induction cells with
  | nil => rfl
  | cons c r ih =>
    cases r with
    | nil => simp [trimLast]
    | cons c' r => simp only [trimLast, List.map_cons] at ih ⊢; rw [ih]

theorem trimLast_ne_nil (cells : List (Nat × α × Nat)) (h : cells ≠ []) : trimLast cells ≠ [] := by
  cases cells with
  | nil => exact absurd rfl h
  | cons c r => cases r <;> simp [trimLast]

/-- the printed number starts and ends with a character that is not stripped -/
theorem fmt_ends (fmt : α → Str) (conv : Str → α) (hc : Clean fmt conv) (x : α) :
    (∀ c, (fmt x).head? = some c → isStripChar c = false) ∧
    (∀ c, (fmt x).reverse.head? = some c → isStripChar c = false) := by
  have hall : ∀ c ∈ fmt x, isStripChar c = false := by
    intro c h
    have := hc.chars x c h
    simp [isStripChar, this.2.2.2.1, this.2.2.2.2.1, this.2.2.2.2.2.2]
  exact ⟨fun c h => hall c (List.mem_of_mem_head? h),
    fun c h => hall c (by have := List.mem_of_mem_head? h; simpa using this)⟩

theorem lstrip_row (fmt : α → Str) (conv : Str → α) (hc : Clean fmt conv) (i : Nat) (c : Nat × α × Nat)
    (r : List (Nat × α × Nat)) (t : Str) :
    (spaces i ++ join ',' ((c :: r).map (cellText fmt)) ++ t).dropWhile isStripChar
      = join ',' ((trimFirst (c :: r)).map (cellText fmt)) ++ t := by
  simp only [List.map_cons, trimFirst, join_cons, cellText, List.append_assoc]
  rw [dropWhile_all _ _ _ (spaces_strip i), dropWhile_all _ _ _ (spaces_strip c.1)]
  have : spaces 0 = ([] : Str) := rfl
  rw [this, List.nil_append]
  apply dropWhile_head_false
  intro ch hch
  have hne := hc.nonempty c.2.1
  cases hf : fmt c.2.1 with
  | nil => exact absurd hf hne
  | cons a as =>
    rw [hf] at hch
    simp at hch
    subst hch
    exact (fmt_ends fmt conv hc c.2.1).1 a (by rw [hf]; rfl)

theorem rstrip_row (fmt : α → Str) (conv : Str → α) (hc : Clean fmt conv) (cells : List (Nat × α × Nat))
    (hne : cells ≠ []) (t : Str) (ht : ∀ c ∈ t, isStripChar c = true) :
    ((join ',' (cells.map (cellText fmt)) ++ t).reverse.dropWhile isStripChar).reverse
      = join ',' ((trimLast cells).map (cellText fmt)) := by
  induction cells with
  | nil => exact absurd rfl hne
  | cons c r ih =>
    cases r with
    | nil =>
      simp only [List.map_cons, List.map_nil, join, trimLast, cellText, List.reverse_append, List.append_assoc]
      rw [dropWhile_all _ _ _ (fun x hx => ht x (by simpa using hx)),
        dropWhile_all _ _ _ (fun x hx => spaces_strip c.2.2 x (by simpa using hx))]
      rw [dropWhile_head_false _ _ (by
        intro ch hch
        have hne' : (fmt c.2.1).reverse ≠ [] := by simpa using hc.nonempty c.2.1
        cases hf : (fmt c.2.1).reverse with
        | nil => exact absurd hf hne'
        | cons a as =>
          rw [hf] at hch
          simp at hch
          subst hch
          exact (fmt_ends fmt conv hc c.2.1).2 a (by rw [hf]; rfl))]
      simp [spaces]
    | cons c' r =>
      have ih' := ih (by simp)
      have hrev : ∀ (a b : Str) (ch : Char), (a ++ ch :: b).reverse = b.reverse ++ ch :: a.reverse := by
        intro a b ch; simp
      have hcomma : isStripChar ',' = false := by decide
      have hl : join ',' ((c :: c' :: r).map (cellText fmt)) ++ t
          = cellText fmt c ++ ',' :: (join ',' ((c' :: r).map (cellText fmt)) ++ t) := by
        simp [join]
      rw [hl, hrev, dropWhile_stop _ _ _ _ hcomma, hrev, List.reverse_reverse, ih']
      have hne' := trimLast_ne_nil (c' :: r) (by simp)
      cases htl : trimLast (c' :: r) with
      | nil => exact absurd htl hne'
      | cons y ys => simp [trimLast, htl, join]

/-! ### the splitter on a line of the class -/

theorem normalise_spaces (n : Nat) : normalise (spaces n) = spaces n :=
  normalise_clean _ (fun c h => by rw [mem_spaces n c h]; decide)

theorem normalise_eolN (e : Eol) : normalise (eolN e) = eolN e := by
  cases e <;> decide

theorem cutComment_hash (p r : Str) (hp : '#' ∉ p) : cutComment (p ++ '#' :: r) = p := by
  unfold cutComment
  induction p with
  | nil => simp
  | cons c cs ih =>
    have hc : c ≠ '#' := fun e => hp (by simp [e])
    simp only [List.cons_append, List.takeWhile_cons, ne_eq, hc, not_false_eq_true, decide_true, if_true, List.cons.injEq,
      true_and]
    exact ih (fun e => hp (by simp [e]))

theorem eolN_strip (e : Eol) : ∀ c ∈ eolN e, isStripChar c = true := by
  cases e <;> decide

/-- the text of a line, `;` and tab replaced, with the comment cut: indentation, the cells joined by
commas, and a rest of stripped characters -/
theorem cut_foreign_line (fmt : α → Str) (conv : Str → α) (hc : Clean fmt conv) (l : FLine α)
    (hs : ∀ s ∈ l.seps, IsDelim s) :
    ∃ t : Str, (∀ c ∈ t, isStripChar c = true) ∧
      cutComment (normalise (l.content fmt ++ eolN l.eol))
        = spaces l.indent ++ join ',' (l.cells.map (cellText fmt)) ++ t := by
  have hcell : ∀ f ∈ l.cells.map (cellText fmt), ∀ c ∈ f, c ≠ ';' ∧ c ≠ '\t' := by
    intro f hf c hcf
    obtain ⟨cell, _, rfl⟩ := List.mem_map.mp hf
    rcases mem_cellText fmt cell c hcf with e | e
    · subst e; decide
    · have := hc.chars _ c e; exact ⟨this.2.1, this.2.2.1⟩
  have hP : '#' ∉ spaces l.indent ++ join ',' (l.cells.map (cellText fmt)) := by
    intro h
    rcases List.mem_append.mp h with h | h
    · exact absurd (mem_spaces _ _ h) (by decide)
    · rcases mem_join _ _ _ h with e | ⟨f, hf, hcf⟩
      · exact absurd e (by decide)
      · obtain ⟨cell, _, rfl⟩ := List.mem_map.mp hf
        rcases mem_cellText fmt cell _ hcf with e | e
        · exact absurd e (by decide)
        · exact (hc.chars _ _ e).2.2.2.2.2.1 rfl
  have hnorm : normalise (l.content fmt ++ eolN l.eol)
      = (spaces l.indent ++ join ',' (l.cells.map (cellText fmt))) ++ (normalise (commentText l.comment) ++ eolN l.eol) := by
    simp only [FLine.content, normalise_append, normalise_spaces, normalise_eolN, normalise_joinWith _ _ hs hcell,
      List.append_assoc]
  rw [hnorm]
  cases hcm : l.comment with
  | none =>
    refine ⟨eolN l.eol, eolN_strip _, ?_⟩
    have : normalise (commentText none) = [] := rfl
    rw [this, List.nil_append]
    apply cutComment_clean
    intro c h
    rcases List.mem_append.mp h with h | h
    · exact fun e => hP (e ▸ h)
    · intro e; subst e
      have := eolN_strip l.eol _ h
      simp [isStripChar] at this
  | some cm =>
    refine ⟨[], by simp, ?_⟩
    have : normalise (commentText (some cm)) = '#' :: normalise cm := by simp [commentText, normalise]
    rw [this, List.cons_append, cutComment_hash _ _ hP, List.append_nil]

theorem splitLine_foreign_blank (fmt : α → Str) (conv : Str → α) (hc : Clean fmt conv) (l : FLine α)
    (hs : ∀ s ∈ l.seps, IsDelim s) (hcells : l.cells = []) :
    splitLine (normalise (l.content fmt ++ eolN l.eol)) = [] := by
  obtain ⟨t, ht, hcut⟩ := cut_foreign_line fmt conv hc l hs
  unfold splitLine
  rw [hcut, hcells]
  have : strip (spaces l.indent ++ join ',' (([] : List (Nat × α × Nat)).map (cellText fmt)) ++ t) = [] := by
    unfold strip
    have hall : ∀ c ∈ spaces l.indent ++ join ',' (([] : List (Nat × α × Nat)).map (cellText fmt)) ++ t,
        isStripChar c = true := by
      intro c h
      simp only [List.map_nil, join, List.append_nil, List.mem_append] at h
      rcases h with h | h
      · exact spaces_strip _ c h
      · exact ht c h
    have := dropWhile_all isStripChar _ [] hall
    simp only [List.append_nil, List.dropWhile_nil] at this
    rw [this]
    rfl
  rw [this, if_pos rfl]

/-- the fields of a line with cells: the printed values, with the padding that stays inside the line -/
theorem splitLine_foreign_row (fmt : α → Str) (conv : Str → α) (hc : Clean fmt conv) (l : FLine α)
    (hs : ∀ s ∈ l.seps, IsDelim s) (hcells : l.cells ≠ []) :
    splitLine (normalise (l.content fmt ++ eolN l.eol)) = (trimLast (trimFirst l.cells)).map (cellText fmt) := by
  obtain ⟨t, ht, hcut⟩ := cut_foreign_line fmt conv hc l hs
  unfold splitLine
  rw [hcut]
  cases hcl : l.cells with
  | nil => exact absurd hcl hcells
  | cons c r =>
    have hstrip : strip (spaces l.indent ++ join ',' ((c :: r).map (cellText fmt)) ++ t)
        = join ',' ((trimLast (trimFirst (c :: r))).map (cellText fmt)) := by
      unfold strip
      rw [lstrip_row fmt conv hc, rstrip_row fmt conv hc _ (by simp [trimFirst]) t ht]
    have hne2 : trimLast (trimFirst (c :: r)) ≠ [] := trimLast_ne_nil _ (by simp [trimFirst])
    have hfields : ∀ f ∈ (trimLast (trimFirst (c :: r))).map (cellText fmt), ',' ∉ f ∧ f ≠ [] := by
      intro f hf
      obtain ⟨cell, _, rfl⟩ := List.mem_map.mp hf
      constructor
      · intro hm
        rcases mem_cellText fmt cell _ hm with e | e
        · exact absurd e (by decide)
        · exact (hc.chars _ _ e).1 rfl
      · intro he
        have : fmt cell.2.1 = [] := by
          simp only [cellText, List.append_eq_nil_iff] at he
          exact he.1.2
        exact hc.nonempty _ this
    have hbody : join ',' ((trimLast (trimFirst (c :: r))).map (cellText fmt)) ≠ [] :=
      join_ne_nil _ _ (by simpa using hne2) (fun f hf => (hfields f hf).2)
    rw [hstrip, if_neg hbody]
    exact splitOn_join ',' _ (by simpa using hne2) (fun f hf => (hfields f hf).1)

/-! ### the table of a file of the class -/

def rowFields (fmt : α → Str) (l : FLine α) : List Str := (trimLast (trimFirst l.cells)).map (cellText fmt)

theorem fieldRows_foreign (fmt : α → Str) (conv : Str → α) (hc : Clean fmt conv) (ls : List (FLine α))
    (hok : foreignOk fmt ls = true) :
    fieldRows (loaderLines (foreignFile fmt ls)) = (ls.filter (fun l => !l.cells.isEmpty)).map (rowFields fmt) := by
  rw [loaderLines_foreign fmt conv hc ls hok]
  induction ls with
  | nil => rfl
  | cons l rest ih =>
    obtain ⟨hs, _, _, _, _, hrest⟩ := foreignOk_cons fmt l rest hok
    have ih' := ih hrest
    simp only [fieldRows, List.map_cons] at ih' ⊢
    by_cases hcells : l.cells = []
    · rw [splitLine_foreign_blank fmt conv hc l hs hcells]
      have h1 : (decide (([] : List Str) ≠ [])) = false := by simp
      have h2 : (!l.cells.isEmpty) = false := by simp [hcells]
      rw [List.filter_cons_of_neg (by simp), List.filter_cons_of_neg (by simp [hcells]), ih']
    · have hrow := splitLine_foreign_row fmt conv hc l hs hcells
      have hne : rowFields fmt l ≠ [] := by
        have := trimLast_ne_nil (trimFirst l.cells) (by
          cases hl : l.cells with
          | nil => exact absurd hl hcells
          | cons c r => simp [trimFirst])
        simpa [rowFields] using this
      rw [hrow, List.filter_cons_of_pos (by simpa [rowFields] using hne),
        List.filter_cons_of_pos (by simp [hcells]), ih']
      rfl

/-- from the rows of field strings to the loaded array -/
theorem load_of_fieldRows (conv : Str → α) (file : Str) (tbl : List (List Str)) (c : Nat) (hne : tbl ≠ [])
    (hcols : ∀ r ∈ tbl, r.length = c) (h : fieldRows (loaderLines file) = tbl) :
    loadText conv 2 file = some ([tbl.length, c], (tbl.map (·.map conv)).flatten) := by
  unfold loadText loadFields
  rw [h]
  cases tbl with
  | nil => exact absurd rfl hne
  | cons r rs =>
    have hr : r.length = c := hcols r (by simp)
    have hall : rs.all (fun q => q.length == r.length) = true := by
      rw [List.all_eq_true]
      intro q hq
      simp [hcols q (by simp [hq]), hr]
    rw [hr] at hall
    simp only [shapeRule_two, List.length_cons, hr, hall, if_true, Option.map_some, List.map_flatten]

theorem rowFields_values (fmt : α → Str) (conv : Str → α) (hpad : ∀ x a b, conv (spaces a ++ fmt x ++ spaces b) = x)
    (l : FLine α) : (rowFields fmt l).map conv = l.cells.map (·.2.1) := by
  unfold rowFields
  rw [List.map_map, ← trimFirst_values l.cells, ← trimLast_values (trimFirst l.cells)]
  apply List.map_congr_left
  intro cell _
  simp only [Function.comp, cellText]
  exact hpad _ _ _

