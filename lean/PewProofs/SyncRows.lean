import PewProofs.SyncLayout

/-! # C08 — the rendered log: selection of patterns, On/Off pairs -/
namespace Pew.Sync

/-! ## selection, `sel = none` included -/

theorem select_blocks_opt (bs : List Block) (sel : Option (List Int))
    (hbody : ∀ b ∈ bs, ∀ r ∈ b.body, r.seq = -1)
    (hlow : ∀ b ∈ bs, -1 ≤ b.hdr.seq)
    (hinc : bs.Pairwise (fun a b => a.hdr.seq ≤ b.hdr.seq)) :
    selectRows sel (bs.flatMap Block.rows)
      = (bs.filter (fun b => isSelected sel b.hdr.seq)).flatMap (fun b => b.rows.map (setSeq · b.hdr.seq)) := by
  cases sel with
  | none =>
    have : bs.filter (fun b => isSelected none b.hdr.seq) = bs := by
      rw [List.filter_eq_self]; intro b _; rfl
    rw [this]
    unfold selectRows
    exact fill_blocks bs hbody hlow hinc
  | some s => exact select_blocks bs s hbody hlow hinc

/-! ## On/Off pairing -/

theorem pairs_off (r : Row) (rest : List Row) (h : r.on = false) : pairs (r :: rest) = pairs rest := by
  cases rest with
  | nil => simp [pairs, h]
  | cons r' rest => simp [pairs, h]

theorem pairs_append_off (A B : List Row) (h : ∀ r ∈ A, r.on = false) : pairs (A ++ B) = pairs B := by
  induction A with
  | nil => rfl
  | cons r rest ih =>
    rw [List.cons_append, pairs_off r _ (h r (by simp))]
    exact ih (fun r' hr' => h r' (by simp [hr']))

theorem pairs_on_off (r r' : Row) (rest : List Row) (h : r.on = true) (h' : r'.on = false) :
    pairs (r :: r' :: rest) = (pairs rest).map (fun l => (r, r') :: l) := by
  rw [pairs, if_pos h, pairs_off r' rest h']

/-- the first firing found by scanning for an `On` row is the first imported pair's `On` row -/
theorem pairs_find_on (l : List Row) (pr : Row × Row) (prs : List (Row × Row)) (h : pairs l = some (pr :: prs)) :
    l.find? (·.on) = some pr.1 := by
  induction l with
  | nil => simp [pairs] at h
  | cons r rest ih =>
    by_cases hr : r.on = true
    · cases rest with
      | nil => simp [pairs, hr] at h
      | cons r' rest' =>
        rw [pairs, if_pos hr] at h
        cases hp : pairs (r' :: rest') with
        | none => simp [hp] at h
        | some l' =>
          simp [hp] at h
          simp [hr, ← h.1]
    · have hr' : r.on = false := by simpa using hr
      rw [pairs_off r rest hr'] at h
      simp [hr', ih h]

/-! ## rows of a line, of a pattern -/

theorem moveRows_off (l : LineRec) (r : Row) (h : r ∈ l.moveRows) : r.on = false ∧ r.seq = -1 := by
  unfold LineRec.moveRows at h
  simp only at h
  split at h
  · simp at h
  · split at h
    · simp at h; subst h; exact ⟨rfl, rfl⟩
    · simp at h; rcases h with h | h <;> subst h <;> exact ⟨rfl, rfl⟩

theorem lineRows_seq (l : LineRec) (r : Row) (h : r ∈ l.rows) : r.seq = -1 := by
  unfold LineRec.rows at h
  rcases List.mem_append.mp h with h | h
  · exact (moveRows_off l r h).2
  · simp at h; rcases h with h | h <;> subst h <;> rfl

/-- the imported pairs of the rows of some lines, all labelled `q` -/
theorem pairs_lines (q : Int) (L : List LineRec) (B : List Row) :
    pairs ((L.flatMap LineRec.rows).map (setSeq · q) ++ B)
      = (pairs B).map (fun t => L.map (fun l => (setSeq l.onRow q, setSeq l.offRow q)) ++ t) := by
  induction L with
  | nil => simp
  | cons l rest ih =>
    rw [List.flatMap_cons, List.map_append, List.append_assoc]
    have hrows : l.rows = l.moveRows ++ [l.onRow, l.offRow] := rfl
    rw [hrows, List.map_append, List.append_assoc, pairs_append_off]
    · simp only [List.map_cons, List.map_nil, List.cons_append, List.nil_append]
      rw [pairs_on_off _ _ _ (by rfl) (by rfl), ih]
      cases pairs B <;> simp
    · intro r hr
      obtain ⟨r0, hr0, rfl⟩ := List.mem_map.mp hr
      exact (moveRows_off l r0 hr0).1

def PatRec.block (b : PatRec) : Block :=
  { hdr := b.hdr, body := { b.hdr with seq := -1 } :: b.lines.flatMap LineRec.rows }

theorem block_rows (b : PatRec) : b.block.rows = b.rows := rfl

/-- the imported pairs of a list of patterns' blocks, each labelled with its own number -/
theorem pairs_blocks (bs : List PatRec) :
    pairs (bs.flatMap (fun b => b.block.rows.map (setSeq · b.block.hdr.seq)))
      = some (bs.flatMap (fun b => b.lines.map (fun l => (setSeq l.onRow b.p.seq, setSeq l.offRow b.p.seq)))) := by
  induction bs with
  | nil => simp [pairs]
  | cons b rest ih =>
    rw [List.flatMap_cons, List.flatMap_cons]
    simp only [PatRec.block, Block.rows, List.map_cons]
    rw [List.cons_append, List.cons_append, pairs_off _ _ (by rfl), pairs_off _ _ (by rfl)]
    have := pairs_lines b.hdr.seq b.lines
      (rest.flatMap (fun b => b.block.rows.map (setSeq · b.block.hdr.seq)))
    simp only [PatRec.block, Block.rows, List.map_cons] at this ih
    rw [this, ih]
    simp [PatRec.hdr]

theorem recs_p (a : Acq) : a.recs.map (·.p) = a.patterns := layPatterns_p 0 a.patterns

theorem mem_recs_p (a : Acq) (b : PatRec) (hb : b ∈ a.recs) : b.p ∈ a.patterns := by
  rw [← recs_p a]; exact List.mem_map.mpr ⟨b, hb, rfl⟩

/-- Selecting `sel` in the rendered log imports exactly the `On`/`Off` pairs of the lines of the
selected patterns, in order. -/
theorem rendered_pairs (a : Acq) (sel : Option (List Int))
    (hseq : ∀ p ∈ a.patterns, 0 ≤ p.seq)
    (hinc : (a.patterns.map (·.seq)).Pairwise (· ≤ ·)) :
    pairs (selectRows sel (emitAll a).rows) = some ((selLines a sel).map LineRec.pair) := by
  have hrows : (emitAll a).rows = (a.recs.map PatRec.block).flatMap Block.rows := by
    simp only [emitAll, List.flatMap_map, block_rows]
  rw [hrows, select_blocks_opt]
  · rw [List.filter_map, List.flatMap_map]
    have := pairs_blocks (a.recs.filter ((fun b => isSelected sel b.hdr.seq) ∘ PatRec.block))
    rw [this]
    congr 1
    unfold selLines selRecs
    rw [List.map_flatMap]
    have hf : a.recs.filter ((fun b => isSelected sel b.hdr.seq) ∘ PatRec.block)
        = a.recs.filter (fun b => isSelected sel b.p.seq) := by
      congr 1
    rw [hf]
    apply List.flatMap_congr
    intro b hb
    apply List.map_congr_left
    intro l hl
    have := mem_recs_lines a b (List.mem_filter.mp hb).1 l hl
    simp [LineRec.pair, this.1]
  · intro b hb r hr
    obtain ⟨b0, _, rfl⟩ := List.mem_map.mp hb
    simp only [PatRec.block, List.mem_cons] at hr
    rcases hr with hr | hr
    · subst hr; rfl
    · obtain ⟨l, _, hl⟩ := List.mem_flatMap.mp hr
      exact lineRows_seq l r hl
  · intro b hb
    obtain ⟨b0, hb0, rfl⟩ := List.mem_map.mp hb
    have := hseq b0.p (mem_recs_p a b0 hb0)
    simp only [PatRec.block, PatRec.hdr]; omega
  · rw [List.pairwise_map]
    have h1 : (a.recs.map (·.p)).Pairwise (fun p q => p.seq ≤ q.seq) := by
      rw [recs_p]; exact List.pairwise_map.mp hinc
    exact (List.pairwise_map.mp h1).imp (fun h => h)

/-! ## the imported lines -/

theorem mem_selLines (a : Acq) (sel : Option (List Int)) (l : LineRec) :
    l ∈ selLines a sel ↔ l ∈ a.lines ∧ isSelected sel l.p.seq = true := by
  unfold selLines selRecs Acq.lines
  simp only [List.mem_flatMap, List.mem_filter]
  constructor
  · rintro ⟨b, ⟨hb, hs⟩, hl⟩
    have := mem_recs_lines a b hb l hl
    exact ⟨⟨b, hb, hl⟩, by rw [this.1]; exact hs⟩
  · rintro ⟨⟨b, hb, hl⟩, hs⟩
    have := mem_recs_lines a b hb l hl
    exact ⟨b, ⟨hb, by rw [← this.1]; exact hs⟩, hl⟩

theorem selLines_pattern (a : Acq) (sel : Option (List Int)) (l : LineRec) (h : l ∈ selLines a sel) :
    l.p ∈ selectedPatterns a sel ∧ l.i < l.p.lines.length := by
  have := (mem_selLines a sel l).mp h
  have hm := mem_lines a l this.1
  exact ⟨List.mem_filter.mpr ⟨hm.1, this.2⟩, hm.2⟩

/-- every selected pattern with at least one line contributes its line 0 -/
theorem selLines_line0 (a : Acq) (sel : Option (List Int)) (p : Pattern) (hp : p ∈ selectedPatterns a sel)
    (hne : p.lines ≠ []) : ∃ l ∈ selLines a sel, l.p = p ∧ l.i = 0 := by
  have hp' := List.mem_filter.mp hp
  have : p ∈ a.recs.map (·.p) := by rw [recs_p]; exact hp'.1
  obtain ⟨b, hb, rfl⟩ := List.mem_map.mp this
  obtain ⟨_, c', hl', _⟩ := mem_layPatterns 0 a.patterns b hb
  cases hlines : b.p.lines with
  | nil => exact absurd hlines hne
  | cons ln rest =>
    rw [hlines] at hl'
    refine ⟨{ p := b.p, i := 0, ln := ln, clock := c' }, ?_, rfl, rfl⟩
    unfold selLines selRecs
    refine List.mem_flatMap.mpr ⟨b, List.mem_filter.mpr ⟨hb, hp'.2⟩, ?_⟩
    rw [hl']; simp [layLines]

end Pew.Sync
