import PewProofs.Npz
import Mathlib.Data.List.Perm.Basic

/-! # C01 — helper lemmas: calibration by name, added info keys, histories of mutators -/
namespace Pew.Npz

/-! ## the calibration dict as a mapping -/

/-- for a laser inside the quantifier the by-name dict is the original dict as a mapping -/
theorem dictGet_calByName_ok (L : Laser) (F : OkFacts L) (k : Str) :
    dictGet (calByName L.fields L.cal) k = dictGet L.cal k := by
  by_cases hk : k ∈ keys L.fields
  · rw [dictGet_calByName _ _ _ hk]
    obtain ⟨c, hc⟩ := dictGet_isSome_of_mem L.cal k (F.fsub k hk)
    rw [hc]; rfl
  · rw [dictGet_calByName_none _ _ _ hk]
    exact ((dictGet_eq_none_iff L.cal k).mpr (fun h => hk (F.csub k h))).symm

/-- the by-name dict only depends on the calibration dict as a mapping -/
theorem calByName_congr (fields : List (Str × Str)) (d e : List (Str × Cal))
    (h : ∀ k ∈ keys fields, dictGet d k = dictGet e k) : calByName fields d = calByName fields e := by
  unfold calByName
  apply List.map_congr_left
  intro f hf
  rw [h f.1 (List.mem_map_of_mem hf)]

/-- a dict with distinct keys is the same mapping in every order -/
theorem dictGet_perm {β} (d e : List (Str × β)) (h : d.Perm e) (hn : (keys d).Nodup) (k : Str) :
    dictGet d k = dictGet e k := by
  induction h with
  | nil => rfl
  | cons x _ ih =>
    simp only [keys, List.map_cons, List.nodup_cons] at hn
    simp only [dictGet]
    split
    · rfl
    · exact ih hn.2
  | swap x y l =>
    simp only [keys, List.map_cons, List.nodup_cons, List.mem_cons, not_or] at hn
    simp only [dictGet]
    by_cases e1 : y.1 = k
    · by_cases e2 : x.1 = k
      · exact absurd (e1.trans e2.symm) hn.1.1
      · simp [e1, e2]
    · by_cases e2 : x.1 = k <;> simp [e1, e2]
  | @trans l₁ l₂ l₃ h1 _ ih1 ih2 =>
    rw [ih1 hn]
    apply ih2
    have : (keys l₁).Perm (keys l₂) := by unfold keys; exact h1.map _
    exact this.nodup_iff.mp hn

/-! ## the three keys `load` adds -/

theorem dictGet_finishInfo (p : PathInfo) (ver : Str) (i : Info) (k : Str) :
    dictGet (finishInfo p ver i) k =
      if k = kFileVersion then some ver
      else if k = kFilePath then some p.resolved
      else if k = kName then some ((dictGet i kName).getD p.stem)
      else dictGet i k := by
  simp only [finishInfo, dictGet_dictInsert]
  have e1 : ¬ kFileVersion = kFilePath := by decide
  have e2 : ¬ kFileVersion = kName := by decide
  have e3 : ¬ kFilePath = kName := by decide
  by_cases h1 : k = kFileVersion
  · subst h1; rw [if_pos rfl, if_pos rfl]
  · have a : ¬ kFileVersion = k := fun e => h1 e.symm
    rw [if_neg a, if_neg h1]
    by_cases h2 : k = kFilePath
    · subst h2; rw [if_pos rfl, if_pos rfl]
    · have b : ¬ kFilePath = k := fun e => h2 e.symm
      rw [if_neg b, if_neg h2]
      by_cases h3 : k = kName
      · subst h3; rw [if_pos rfl]
      · have c : ¬ kName = k := fun e => h3 e.symm
        rw [if_neg c, if_neg h3]

theorem mem_keys_dictInsert {β} (d : List (Str × β)) (k : Str) (v : β) (x : Str) :
    x ∈ keys (dictInsert d k v) ↔ x ∈ keys d ∨ x = k := by
  by_cases hm : k ∈ keys d
  · rw [keys_dictInsert_of_mem d k v hm]
    constructor
    · exact Or.inl
    · rintro (h | h)
      · exact h
      · rw [h]; exact hm
  · rw [keys_dictInsert_of_not_mem d k v hm]
    simp

theorem mem_keys_finishInfo (p : PathInfo) (ver : Str) (i : Info) (k : Str) :
    k ∈ keys (finishInfo p ver i) ↔ k ∈ keys i ∨ k = kName ∨ k = kFilePath ∨ k = kFileVersion := by
  simp only [finishInfo, mem_keys_dictInsert]
  tauto

/-! ## operations keep a laser inside the quantifier -/

theorem keys_dictErase {β} (d : List (Str × β)) (k : Str) : keys (dictErase d k) = (keys d).filter (· ≠ k) := by
  simp [dictErase, keys, List.filter_map, Function.comp_def]

theorem mem_dictErase {β} (d : List (Str × β)) (k : Str) (x : Str × β) (h : x ∈ dictErase d k) : x ∈ d :=
  (List.mem_filter.mp h).1

/-- replacing the calibration dict by one with the same keys (as a set), distinct, all `Cal.ok` -/
theorem ok_with_cal (L : Laser) (hL : L.ok = true) (d : List (Str × Cal)) (hn : (keys d).Nodup)
    (h1 : ∀ k ∈ keys d, k ∈ keys L.cal) (h2 : ∀ k ∈ keys L.cal, k ∈ keys d) (hc : ∀ kc ∈ d, kc.2.ok = true) :
    ({ L with cal := d } : Laser).ok = true := by
  have F := okFacts L hL
  apply (okFacts_iff _).mpr
  exact ⟨F.ne, F.nul, F.nodup, hn, fun k hk => F.csub k (h1 k hk), fun k hk => h2 k (F.fsub k hk), hc, F.kind,
    F.cfg, F.layers, F.native, F.info⟩

/-- `c = laser.calibration.pop(k); laser.calibration[k] = c` keeps the laser inside the quantifier
(and moves the entry to the end of the dict) -/
theorem ok_calMoveEnd (fl : Rat → Rat) (L : Laser) (hL : L.ok = true) (k : Str) (hk : k ∈ keys L.cal) :
    ∃ L', applyOp fl L (.calMoveEnd k) = .ok L' ∧ L'.ok = true
      ∧ keys L'.cal = (keys L.cal).filter (· ≠ k) ++ [k] ∧ ∀ k', dictGet L'.cal k' = dictGet L.cal k' := by
  have F := okFacts L hL
  obtain ⟨c, hc⟩ := dictGet_isSome_of_mem L.cal k hk
  have hnot : k ∉ keys (dictErase L.cal k) := by
    rw [keys_dictErase]; simp
  have hkeys : keys (dictInsert (dictErase L.cal k) k c) = (keys L.cal).filter (· ≠ k) ++ [k] := by
    rw [keys_dictInsert_of_not_mem _ _ _ hnot, keys_dictErase]
  refine ⟨{ L with cal := dictInsert (dictErase L.cal k) k c }, by simp [applyOp, hc]; rfl, ?_, hkeys, ?_⟩
  · apply ok_with_cal L hL
    · rw [hkeys, List.nodup_append]
      refine ⟨F.cnodup.filter _, by simp, ?_⟩
      intro a ha b hb
      simp only [List.mem_singleton] at hb
      subst hb
      intro e; subst e
      simp at ha
    · intro k' hk'
      rw [hkeys] at hk'
      simp only [List.mem_append, List.mem_filter, List.mem_singleton] at hk'
      rcases hk' with hk' | hk'
      · exact hk'.1
      · rw [hk']; exact hk
    · intro k' hk'
      rw [hkeys]
      simp only [List.mem_append, List.mem_filter, List.mem_singleton, decide_eq_true_eq]
      by_cases e : k' = k
      · right; exact e
      · left; exact ⟨hk', e⟩
    · intro kc hkc
      rcases mem_dictInsert _ _ _ _ hkc with h | h
      · exact F.cal kc (mem_dictErase _ _ _ h)
      · rw [h]; exact F.cal (k, c) (dictGet_mem L.cal k c hc)
  · intro k'
    show dictGet (dictInsert (dictErase L.cal k) k c) k' = dictGet L.cal k'
    rw [dictGet_dictInsert]
    by_cases e : k = k'
    · subst e; simp [hc]
    · simp only [if_neg e]
      exact dictGet_filter_ne L.cal k' k (fun h => e h.symm)

/-- `set_equal_subpixel_offsets(w)` (w ≥ 1), the `subpixel_offsets` setter (non-empty, non-zero
sizes) and the `warmup` setter keep an SRR configuration inside the quantifier -/
theorem ok_setEqualOffsets (c : SRR) (hc : c.ok = true) (w : Nat) (hw : 0 < w) : (c.setEqualOffsets w).ok = true := by
  simp only [SRR.ok, Bool.and_eq_true, decide_eq_true_eq, Bool.not_eq_true', List.isEmpty_eq_false_iff] at hc ⊢
  refine ⟨⟨⟨hc.1.1.1, hw⟩, ?_⟩, hc.2⟩
  simp only [SRR.setEqualOffsets]
  cases w with
  | zero => omega
  | succ n => simp [List.range_succ]

theorem lcmList_pos (l : List Int) (h : ∀ x ∈ l, x ≠ 0) : 0 < lcmList l := by
  unfold lcmList
  suffices ∀ (a : Nat), 0 < a → 0 < l.foldl (fun a b => Nat.lcm a b.natAbs) a from this 1 (by omega)
  induction l with
  | nil => intro a ha; exact ha
  | cons x r ih =>
    intro a ha
    simp only [List.foldl_cons]
    apply ih (fun y hy => h y (by simp [hy]))
    exact Nat.lcm_pos ha (Int.natAbs_pos.mpr (h x (by simp)))

theorem ok_setOffsets (c : SRR) (hc : c.ok = true) (o : List (Int × Int)) (hne : o ≠ []) (hd : ∀ od ∈ o, od.2 ≠ 0) :
    (c.setOffsets o).ok = true := by
  simp only [SRR.ok, Bool.and_eq_true, decide_eq_true_eq, Bool.not_eq_true', List.isEmpty_eq_false_iff] at hc ⊢
  refine ⟨⟨⟨hc.1.1.1, ?_⟩, ?_⟩, hc.2⟩
  · simp only [SRR.setOffsets]
    apply lcmList_pos
    intro x hx
    simp only [List.mem_map] at hx
    obtain ⟨od, hod, rfl⟩ := hx
    exact hd od hod
  · simp only [SRR.setOffsets]
    simpa using hne

/-! ## configuration operations -/

/-- no attribute assignment or mutator call changes the class of the configuration -/
theorem apply_isSRR (fl : Rat → Rat) (c c' : Config) (o : CfgOp) (h : c.apply fl o = .ok c') : c'.isSRR = c.isSRR := by
  cases c with
  | raster a b d =>
    cases o <;> simp [Config.apply] at h <;> (try (cases h; rfl))
  | spot a b =>
    cases o <;> simp [Config.apply] at h <;> (try (cases h; rfl))
  | srr s =>
    cases o with
    | scantime f =>
      simp only [Config.apply] at h
      split at h
      · split at h
        · cases h; rfl
        · cases h
      · cases h
    | offsets ofs =>
      simp only [Config.apply] at h
      split at h
      · cases h
      · cases h; rfl
    | equalOffsets w =>
      simp only [Config.apply] at h
      split at h
      · cases h
      · cases h; rfl
    | _ => simp [Config.apply] at h <;> (try (cases h; rfl))

/-- every configuration operation but the warm-up setter keeps the configuration inside the quantifier
(offset lists with non-zero sizes); the warm-up setter does when it sets at most 2⁵⁰ samples -/
theorem apply_ok (fl : Rat → Rat) (c c' : Config) (hc : c.ok = true) (o : CfgOp) (h : c.apply fl o = .ok c')
    (ho : match o with
      | .offsets ofs => ∀ od ∈ ofs, od.2 ≠ 0
      | .warmup s => ∀ r, c = .srr r → (roundHalfEven (fl (s / r.scantime))).natAbs ≤ 2 ^ 50
      | _ => True) : c'.ok = true := by
  cases c with
  | raster a b d =>
    cases o <;> simp [Config.apply] at h <;> (try (cases h; rfl))
  | spot a b =>
    cases o <;> simp [Config.apply] at h <;> (try (cases h; rfl))
  | srr r =>
    have hr : r.ok = true := hc
    cases o with
    | spotsize f =>
      simp only [Config.apply, pure, Except.pure, Except.ok.injEq] at h; subst h
      simpa [Config.ok, SRR.ok] using hr
    | speed f =>
      simp only [Config.apply, pure, Except.pure, Except.ok.injEq] at h; subst h
      simpa [Config.ok, SRR.ok] using hr
    | spotsizeY f => simp [Config.apply] at h
    | scantime f =>
      simp only [Config.apply] at h
      split at h
      · rename_i q _
        split at h
        · rename_i hq
          simp only [pure, Except.pure, Except.ok.injEq] at h; subst h
          simp only [SRR.ok, Bool.and_eq_true, decide_eq_true_eq, Bool.not_eq_true', List.isEmpty_eq_false_iff] at hr
          simp only [Config.ok, SRR.ok, Bool.and_eq_true, decide_eq_true_eq, Bool.not_eq_true', List.isEmpty_eq_false_iff]
          exact ⟨⟨⟨hq, hr.1.1.2⟩, hr.1.2⟩, hr.2⟩
        · cases h
      · cases h
    | warmup s =>
      simp only [Config.apply, pure, Except.pure, Except.ok.injEq] at h; subst h
      have hb := ho r rfl
      simp only [SRR.ok, Bool.and_eq_true, decide_eq_true_eq, Bool.not_eq_true', List.isEmpty_eq_false_iff] at hr
      show SRR.ok (r.setWarmup fl s) = true
      simp only [SRR.ok, SRR.setWarmup, Bool.and_eq_true, Bool.not_eq_true', List.isEmpty_eq_false_iff]
      exact ⟨⟨⟨decide_eq_true hr.1.1.1, decide_eq_true hr.1.1.2⟩, hr.1.2⟩, decide_eq_true hb⟩
    | offsets ofs =>
      simp only [Config.apply] at h
      split at h
      · cases h
      · rename_i hne
        simp only [pure, Except.pure, Except.ok.injEq] at h; subst h
        exact ok_setOffsets r hr ofs hne ho
    | equalOffsets w =>
      simp only [Config.apply] at h
      split at h
      · cases h
      · rename_i hw
        simp only [pure, Except.pure, Except.ok.injEq] at h; subst h
        exact ok_setEqualOffsets r hr w (by omega)

/-! ## the warm-up setter -/

/-- when the exact quotient is at most 2⁴⁰ in size and at least 2⁻¹⁰ away from every half-integer, the
float quotient (relative error ≤ 2⁻⁵³) rounds to the same number of samples -/
theorem setWarmup_robust (fl : Rat → Rat) (hfl : ∀ x, |fl x - x| ≤ |x| / 2 ^ 53) (seconds scantime : Rat)
    (h : warmupDetermined seconds scantime = true) :
    roundHalfEven (fl (seconds / scantime)) = roundHalfEven (seconds / scantime) := by
  simp only [warmupDetermined, Bool.and_eq_true, Bool.or_eq_true, decide_eq_true_eq] at h
  obtain ⟨⟨⟨_, hlo⟩, hhi⟩, hd⟩ := h
  generalize seconds / scantime = q at *
  have habs : |q| ≤ 2 ^ 40 := abs_le.mpr ⟨hlo, hhi⟩
  have herr : |fl q - q| ≤ 1 / 2 ^ 13 := by
    calc |fl q - q| ≤ |q| / 2 ^ 53 := hfl q
      _ ≤ 2 ^ 40 / 2 ^ 53 := div_le_div_of_nonneg_right habs (by positivity)
      _ = 1 / 2 ^ 13 := by norm_num
  rw [abs_le] at herr
  have hf1 : (q.floor : Rat) ≤ q := Rat.floor_le q
  have hf2 : q < (q.floor : Rat) + 1 := by have := Rat.lt_floor_add_one q; push_cast at this; exact this
  rcases hd with hd | hd
  · have e1 := roundHalfEven_near (q.floor + 1) (fl q) (by push_cast; norm_num at hd herr ⊢; linarith [herr.1])
      (by push_cast; norm_num at hd herr ⊢; linarith [herr.2])
    have e2 := roundHalfEven_near (q.floor + 1) q (by push_cast; norm_num at hd ⊢; linarith)
      (by push_cast; linarith)
    rw [e1, e2]
  · have e1 := roundHalfEven_near q.floor (fl q) (by norm_num at hd herr ⊢; linarith [herr.1])
      (by norm_num at hd herr ⊢; linarith [herr.2])
    have e2 := roundHalfEven_near q.floor q (by linarith) (by norm_num at hd ⊢; linarith)
    rw [e1, e2]

/-! ## an old file brought up to date -/

theorem infoNoNul_finishInfo (p : PathInfo) (ver : Str) (i : Info) (hi : ∀ kv ∈ i, noNulEnd kv.2 = true)
    (hs : noNulEnd p.stem = true) (hv : noNulEnd ver = true) : infoNoNul (finishInfo p ver i) = true := by
  apply List.all_eq_true.mpr
  intro kv hkv
  simp only [Bool.or_eq_true, beq_iff_eq]
  rcases mem_finishInfo p ver i kv hkv with h | ⟨_, h⟩ | h | h
  · exact Or.inr (hi kv h)
  · right
    rcases h with h | ⟨k', h⟩
    · rw [h]; exact hs
    · exact hi (k', kv.2) h
  · left; rw [h]
  · right; rw [h]; exact hv

theorem noNulEnd_infoSpec_values (i : Info) (hi : infoNoNul i = true) : ∀ kv ∈ infoSpec i, noNulEnd kv.2 = true := by
  intro kv hkv
  obtain ⟨kv0, hm, hne, rfl⟩ := mem_infoSpec i kv hkv
  simp only [noNulEnd_tabToSpace]
  have := (List.all_eq_true.mp hi) kv0 hm
  simp only [Bool.or_eq_true, beq_iff_eq] at this
  rcases this with e | e
  · exact absurd e hne
  · exact e

/-- a loaded laser (by-name calibrations, finished info) is inside the quantifier again -/
theorem ok_loaded (L : Laser) (hL : L.ok = true) (X : Info) (hX : infoNoNul X = true) :
    ({ L with cal := calByName L.fields L.cal, info := X } : Laser).ok = true :=
  ok_with_info { L with cal := calByName L.fields L.cal } X (ok_calByName L hL) (noNulEnd_packInfoRaw X hX)

/-! ## histories -/

theorem historyOk_cons_save (fl : Rat → Rat) (ver : Str) (p : PathInfo) (r : List Step) (cur : Laser) (last : Option Laser) :
    historyOk fl ver (.save p :: r) cur last = (cur.ok && historyOk fl ver r cur (some (normalise p ver cur))) := by
  simp [historyOk, historyOks]

/-- the history run through files equals the history of specifications, as long as every saved
state is inside the quantifier -/
theorem runHistory_eq_spec (fl : Rat → Rat) (ver time : Str)
    (hls : ∀ (p : PathInfo) (L : Laser), L.ok = true → (save fl ver time L >>= load fl p) = .ok (normalise p ver L))
    (steps : List Step) (cur : Laser) (last : Option Laser) (h : historyOk fl ver steps cur last = true) :
    runHistory fl ver time steps cur last = specHistory fl ver steps cur last := by
  induction steps generalizing cur last with
  | nil => rfl
  | cons st r ih =>
    cases st with
    | op o =>
      simp only [runHistory, specHistory]
      cases ho : applyOp fl cur o with
      | error e => rfl
      | ok c =>
        simp only []
        apply ih
        simpa [historyOk, historyOks, ho] using h
    | save p =>
      rw [historyOk_cons_save, Bool.and_eq_true] at h
      simp only [runHistory, specHistory, hls p cur h.1]
      rw [ih cur _ h.2]
    | adopt =>
      simp only [runHistory, specHistory]
      cases last with
      | none => rfl
      | some l =>
        simp only []
        apply ih
        simpa [historyOk, historyOks] using h

end Pew.Npz
