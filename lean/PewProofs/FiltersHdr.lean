import PewProofs.Filters
import PewProofs.FiltersFloat
import Mathlib.Tactic.Ring
import Mathlib.Tactic.Linarith
import Mathlib.Tactic.Positivity
import Mathlib.Algebra.Order.Field.Rat
import Mathlib.Algebra.Order.Ring.Abs
import Mathlib.Algebra.BigOperators.Group.List.Basic

/-! helper lemmas for C13, float level (3): a rounded evaluation of a mean of arbitrary values is within
`((1+u)^depth − 1)` times the same computation on the absolute values -/
namespace Pew.Filters

theorem absR_nonneg (q : Rat) : 0 ≤ absR q := by rw [absR_eq_abs]; exact abs_nonneg q

theorem getD_map_absR (v : List Rat) (i : Nat) : (v.map absR).getD i 0 = absR (v.getD i 0) := by
  rw [List.getD_eq_getElem?_getD, List.getD_eq_getElem?_getD, List.getElem?_map]
  cases v[i]? with
  | none => simp [absR]
  | some a => simp

namespace SExpr

theorem exact_abs_nonneg (v : List Rat) (e : SExpr) : 0 ≤ e.exact (v.map absR) := by
  induction e with
  | leaf i => simp only [exact]; rw [getD_map_absR]; exact absR_nonneg _
  | add a b iha ihb => simp only [exact]; linarith
  | divn a n iha => simp only [exact]; exact div_nonneg iha (Nat.cast_nonneg _)

/-- triangle inequality: the exact value is bounded by the value on the absolute values -/
theorem abs_exact_le (v : List Rat) (e : SExpr) : |e.exact v| ≤ e.exact (v.map absR) := by
  induction e with
  | leaf i => simp only [exact]; rw [getD_map_absR, absR_eq_abs]
  | add a b iha ihb =>
    simp only [exact]
    exact (abs_add_le _ _).trans (add_le_add iha ihb)
  | divn a n iha =>
    simp only [exact]
    rw [abs_div, abs_of_nonneg (Nat.cast_nonneg (α := Rat) n)]
    exact div_le_div_of_nonneg_right iha (Nat.cast_nonneg _)

/-- Standard model (`|fl x − x| ≤ u·|x|`): whatever the shape of the computation (the order of the
additions, where the divisions by counts sit, which values enter more than once), its rounded value is
within `((1+u)^depth − 1)` times its value on the absolute values of its exact value. -/
theorem eval_bound (fl : Rat → Rat) (u : Rat) (hu : 0 ≤ u) (hfl : ∀ x, |fl x - x| ≤ u * |x|)
    (v : List Rat) (e : SExpr) :
    |e.eval fl v - e.exact v| ≤ ((1 + u) ^ e.depth - 1) * e.exact (v.map absR) := by
  induction e with
  | leaf i => simp [eval, exact, depth]
  | add a b iha ihb =>
    simp only [eval, exact, depth]
    have wa := exact_abs_nonneg v a
    have wb := exact_abs_nonneg v b
    set k := max a.depth b.depth with hk
    have ga := FExpr.pow_sub_one_mono u hu (le_max_left a.depth b.depth)
    have gb := FExpr.pow_sub_one_mono u hu (le_max_right a.depth b.depth)
    have hW : |a.exact v + b.exact v| ≤ a.exact (v.map absR) + b.exact (v.map absR) :=
      (abs_add_le _ _).trans (add_le_add (abs_exact_le v a) (abs_exact_le v b))
    have hs : |a.eval fl v + b.eval fl v - (a.exact v + b.exact v)|
        ≤ ((1 + u) ^ k - 1) * (a.exact (v.map absR) + b.exact (v.map absR)) := by
      have e1 : a.eval fl v + b.eval fl v - (a.exact v + b.exact v)
          = (a.eval fl v - a.exact v) + (b.eval fl v - b.exact v) := by ring
      rw [e1]
      have t1 := mul_le_mul_of_nonneg_right ga wa
      have t2 := mul_le_mul_of_nonneg_right gb wb
      have := abs_add_le (a.eval fl v - a.exact v) (b.eval fl v - b.exact v)
      have e2 : ((1 + u) ^ k - 1) * (a.exact (v.map absR) + b.exact (v.map absR))
          = ((1 + u) ^ k - 1) * a.exact (v.map absR) + ((1 + u) ^ k - 1) * b.exact (v.map absR) := by ring
      rw [e2]
      linarith
    have := FExpr.round_step fl u hu hfl _ _ _ _ hW hs
    have e3 : (1 + u) * (1 + ((1 + u) ^ k - 1)) - 1 = (1 + u) ^ (k + 1) - 1 := by ring
    rw [e3] at this
    exact this
  | divn a n iha =>
    simp only [eval, exact, depth]
    have wa := exact_abs_nonneg v a
    by_cases hn : n = 0
    · subst hn
      have h0 : fl 0 = 0 := by
        have := hfl 0
        simp only [abs_zero, mul_zero, sub_zero] at this
        exact abs_eq_zero.mp (le_antisymm this (abs_nonneg _))
      simp [h0]
    · have hnpos : (0 : Rat) < (n : Rat) := by exact_mod_cast Nat.pos_of_ne_zero hn
      have hW : |a.exact v / (n : Rat)| ≤ a.exact (v.map absR) / (n : Rat) := by
        rw [abs_div, abs_of_pos hnpos]
        exact div_le_div_of_nonneg_right (abs_exact_le v a) hnpos.le
      have hs : |a.eval fl v / (n : Rat) - a.exact v / (n : Rat)|
          ≤ ((1 + u) ^ a.depth - 1) * (a.exact (v.map absR) / (n : Rat)) := by
        have e1 : a.eval fl v / (n : Rat) - a.exact v / (n : Rat) = (a.eval fl v - a.exact v) / (n : Rat) := by ring
        rw [e1, abs_div, abs_of_pos hnpos]
        have e2 : ((1 + u) ^ a.depth - 1) * (a.exact (v.map absR) / (n : Rat))
            = ((1 + u) ^ a.depth - 1) * a.exact (v.map absR) / (n : Rat) := by ring
        rw [e2]
        exact div_le_div_of_nonneg_right iha hnpos.le
      have := FExpr.round_step fl u hu hfl _ _ _ _ hW hs
      have e3 : (1 + u) * (1 + ((1 + u) ^ a.depth - 1)) - 1 = (1 + u) ^ (a.depth + 1) - 1 := by ring
      rw [e3] at this
      exact this

/-- a sum (additions only) is the sum of its leaves -/
theorem exact_sumOnly (v : List Rat) (e : SExpr) (h : e.sumOnly = true) :
    e.exact v = (e.leaves.map (fun i => v.getD i 0)).sum := by
  induction e with
  | leaf i => simp [exact, leaves]
  | add a b iha ihb =>
    simp only [sumOnly, Bool.and_eq_true] at h
    simp only [exact, leaves, List.map_append, List.sum_append]
    rw [iha h.1, ihb h.2]
  | divn a n _ => simp [sumOnly] at h

theorem map_getD_range (v : List Rat) : (List.range v.length).map (fun i => v.getD i 0) = v := by
  apply List.ext_getElem
  · simp
  · intro i h1 h2
    simp only [List.length_map, List.length_range] at h1
    simp [List.getD_eq_getElem?_getD, h1]

/-- a sum whose leaves are the indices `0 … len−1` in some order, each once, is the sum of the values -/
theorem exact_sum_perm (v : List Rat) (e : SExpr) (h : e.sumOnly = true)
    (hp : e.leaves.Perm (List.range v.length)) : e.exact v = v.sum := by
  rw [exact_sumOnly v e h, (hp.map _).sum_eq, map_getD_range]

theorem depth_le_leaves (e : SExpr) (h : e.sumOnly = true) : e.depth + 1 ≤ e.leaves.length := by
  induction e with
  | leaf i => simp [depth, leaves]
  | add a b iha ihb =>
    simp only [sumOnly, Bool.and_eq_true] at h
    have := iha h.1
    have := ihb h.2
    simp only [depth, leaves, List.length_append]
    omega
  | divn a n _ => simp [sumOnly] at h

end SExpr

/-- `(1+u)^E − 1 ≤ 2·E·u` while `2·E·u ≤ 1` -/
theorem pow_sub_one_le_linear (u : Rat) (hu : 0 ≤ u) (E : Nat) (h : 2 * (E : Rat) * u ≤ 1) :
    (1 + u) ^ E - 1 ≤ 2 * (E : Rat) * u := by
  have key : ∀ k : Nat, k ≤ E → (1 + u) ^ k ≤ 1 + 2 * (k : Rat) * u := by
    intro k
    induction k with
    | zero => intro _; simp
    | succ k ih =>
      intro hk
      have ihk := ih (by omega)
      have hkE : (k : Rat) ≤ (E : Rat) := by exact_mod_cast (by omega : k ≤ E)
      have h2 : 2 * (k : Rat) * u ≤ 1 := by
        have : 2 * (k : Rat) * u ≤ 2 * (E : Rat) * u := by
          have := mul_le_mul_of_nonneg_right hkE hu
          linarith
        linarith
      have hpos : (0 : Rat) ≤ 1 + u := by linarith
      calc (1 + u) ^ (k + 1) = (1 + u) ^ k * (1 + u) := pow_succ _ _
        _ ≤ (1 + 2 * (k : Rat) * u) * (1 + u) := mul_le_mul_of_nonneg_right ihk hpos
        _ = 1 + 2 * (k : Rat) * u + u + (2 * (k : Rat) * u) * u := by ring
        _ ≤ 1 + 2 * (k : Rat) * u + u + 1 * u := by
            have := mul_le_mul_of_nonneg_right h2 hu
            linarith
        _ = 1 + 2 * ((k + 1 : Nat) : Rat) * u := by push_cast; ring
  have := key E (le_refl _)
  linarith

theorem mean_map_absR_nonneg (l : List Rat) : 0 ≤ mean (l.map absR) := by
  unfold mean
  apply div_nonneg
  · apply List.sum_nonneg
    intro v hv
    rw [List.mem_map] at hv
    obtain ⟨w, _, rfl⟩ := hv
    exact absR_nonneg w
  · exact Nat.cast_nonneg _

/-- the neighbours of a pixel of the image of absolute values are the absolute values of its neighbours -/
theorem others2_abs2 (h0 h1 : Nat) (x : List (List Rat)) (i j : Nat) :
    others2 h0 h1 (abs2 x) i j = (others2 h0 h1 x i j).map absR := by
  have hg : (abs2 x).getD i [] = (x.getD i []).map absR := by
    unfold abs2
    rw [List.getD_eq_getElem?_getD, List.getD_eq_getElem?_getD, List.getElem?_map]
    cases x[i]? <;> simp
  have hm : ∀ (a b : Nat), ((slice a b (abs2 x)).map (slice (j - h1) (2 * h1 + 1))).flatten
      = (((slice a b x).map (slice (j - h1) (2 * h1 + 1))).flatten).map absR := by
    intro a b
    unfold abs2
    rw [slice_map, List.map_map, List.map_flatten, List.map_map]
    congr 1
    apply List.map_congr_left
    intro r _
    simp only [Function.comp, slice_map]
  unfold others2
  rw [hm, hm, hg, slice_map, slice_map]
  simp only [List.map_append]

/-! ### locality: the cell of an interior pixel is a function of its window -/

theorem specMeanCell1_local (h i : Nat) (x y : List Rat) (hi : h ≤ i) (hx : i + h < x.length)
    (hy : i + h < y.length) (hw : slice (i - h) (2 * h + 1) x = slice (i - h) (2 * h + 1) y) :
    specMeanCell1 h x i = specMeanCell1 h y i := by
  have hxl : i < x.length := by omega
  have hyl : i < y.length := by omega
  rw [slice_centre h i x hi hxl, slice_centre h i y hi hyl] at hw
  have hl : (slice (i - h) h x).length = (slice (i - h) h y).length := by
    rw [slice_length_of_le _ _ _ (by omega), slice_length_of_le _ _ _ (by omega)]
  obtain ⟨e1, e2⟩ := List.append_inj hw hl
  injection e2 with e3 e4
  simp only [specMeanCell1, at1_eq x i hxl, at1_eq y i hyl, e1, e3, e4]

theorem window_centre2 (h0 h1 i j : Nat) (x : List (List Rat)) (hi : h0 ≤ i) (hlt : i < x.length)
    (hj : h1 ≤ j) (hjl : j < x[i].length) :
    ((((slice (i - h0) (2 * h0 + 1) x).map (slice (j - h1) (2 * h1 + 1)))[h0]?).bind (fun r => r[h1]?))
      = some (at2 x i j) := by
  rw [List.getElem?_map, getElem?_slice, if_pos (by omega)]
  have e : i - h0 + h0 = i := by omega
  rw [e, List.getElem?_eq_getElem hlt]
  simp only [Option.map_some, Option.bind_some]
  rw [getElem?_slice, if_pos (by omega)]
  have e2 : j - h1 + h1 = j := by omega
  rw [e2, List.getElem?_eq_getElem hjl, at2_eq x i j hlt hjl]

theorem specMeanCell2_local (h0 h1 n1 m1 i j : Nat) (x y : List (List Rat))
    (hrx : ∀ r ∈ x, r.length = n1) (hry : ∀ r ∈ y, r.length = m1)
    (hi : h0 ≤ i) (hx : i + h0 < x.length) (hy : i + h0 < y.length)
    (hj : h1 ≤ j) (hxm : j + h1 < n1) (hym : j + h1 < m1)
    (hw : (slice (i - h0) (2 * h0 + 1) x).map (slice (j - h1) (2 * h1 + 1))
        = (slice (i - h0) (2 * h0 + 1) y).map (slice (j - h1) (2 * h1 + 1))) :
    specMeanCell2 h0 h1 x i j = specMeanCell2 h0 h1 y i j := by
  have hxl : i < x.length := by omega
  have hyl : i < y.length := by omega
  have hxr : x[i].length = n1 := hrx _ (List.getElem_mem hxl)
  have hyr : y[i].length = m1 := hry _ (List.getElem_mem hyl)
  have ea : at2 x i j = at2 y i j := by
    have a := window_centre2 h0 h1 i j x hi hxl hj (by omega)
    have b := window_centre2 h0 h1 i j y hi hyl hj (by omega)
    rw [hw] at a
    exact Option.some.inj (a.symm.trans b)
  have eo : others2 h0 h1 x i j = others2 h0 h1 y i j := by
    rw [← maskCentre2_interior h0 h1 i j n1 x hrx hi hx hj hxm,
      ← maskCentre2_interior h0 h1 i j m1 y hry hi hy hj hym, hw]
  have en : nbhd2 h0 h1 x i j = nbhd2 h0 h1 y i j := by unfold nbhd2; rw [hw]
  simp only [specMeanCell2, ea, eo, en]

end Pew.Filters
