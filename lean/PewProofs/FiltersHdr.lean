import PewProofs.Filters
import PewProofs.FiltersFloat
import Mathlib.Tactic.Ring
import Mathlib.Tactic.Linarith
import Mathlib.Tactic.Positivity
import Mathlib.Algebra.Order.Field.Rat
import Mathlib.Algebra.Order.Ring.Abs
import Mathlib.Algebra.BigOperators.Group.List.Basic

/-! helper lemmas for C13, float level (3): a rounded evaluation of a mean of arbitrary values is within
`((1+u)^depth − 1)` times the same computation on the absolute values -/
namespace Pew.Filters

theorem absR_nonneg (q : Rat) : 0 ≤ absR q := by rw [absR_eq_abs]; exact abs_nonneg q

theorem getD_map_absR (v : List Rat) (i : Nat) : (v.map absR).getD i 0 = absR (v.getD i 0) := by
  rw [List.getD_eq_getElem?_getD, List.getD_eq_getElem?_getD, List.getElem?_map]
  cases v[i]? with
  | none => simp [absR]
  | some a => simp

namespace SExpr

theorem exact_abs_nonneg (v : List Rat) (e : SExpr) : 0 ≤ e.exact (v.map absR) := by
  induction e with
  | leaf i => simp only [exact]; rw [getD_map_absR]; exact absR_nonneg _
  | add a b iha ihb => simp only [exact]; linarith
  | divn a n iha => simp only [exact]; exact div_nonneg iha (Nat.cast_nonneg _)

/-- triangle inequality: the exact value is bounded by the value on the absolute values -/
theorem abs_exact_le (v : List Rat) (e : SExpr) : |e.exact v| ≤ e.exact (v.map absR) := by
  induction e with
  | leaf i => simp only [exact]; rw [getD_map_absR, absR_eq_abs]
  | add a b iha ihb =>
    simp only [exact]
    exact (abs_add_le _ _).trans (add_le_add iha ihb)
  | divn a n iha =>
    simp only [exact]
    rw [abs_div, abs_of_nonneg (Nat.cast_nonneg (α := Rat) n)]
    exact div_le_div_of_nonneg_right iha (Nat.cast_nonneg _)

/-- Standard model (`|fl x − x| ≤ u·|x|`): whatever the shape of the computation (the order of the
additions, where the divisions by counts sit, which values enter more than once), its rounded value is
within `((1+u)^depth − 1)` times its value on the absolute values of its exact value. -/
theorem eval_bound (fl : Rat → Rat) (u : Rat) (hu : 0 ≤ u) (hfl : ∀ x, |fl x - x| ≤ u * |x|)
    (v : List Rat) (e : SExpr) :
    |e.eval fl v - e.exact v| ≤ ((1 + u) ^ e.depth - 1) * e.exact (v.map absR) := by
  induction e with
  | leaf i => simp [eval, exact, depth]
  | add a b iha ihb =>
    simp only [eval, exact, depth]
    have wa := exact_abs_nonneg v a
    have wb := exact_abs_nonneg v b
    set k := max a.depth b.depth with hk
    have ga := FExpr.pow_sub_one_mono u hu (le_max_left a.depth b.depth)
    have gb := FExpr.pow_sub_one_mono u hu (le_max_right a.depth b.depth)
    have hW : |a.exact v + b.exact v| ≤ a.exact (v.map absR) + b.exact (v.map absR) :=
      (abs_add_le _ _).trans (add_le_add (abs_exact_le v a) (abs_exact_le v b))
    have hs : |a.eval fl v + b.eval fl v - (a.exact v + b.exact v)|
        ≤ ((1 + u) ^ k - 1) * (a.exact (v.map absR) + b.exact (v.map absR)) := by
      have e1 : a.eval fl v + b.eval fl v - (a.exact v + b.exact v)
          = (a.eval fl v - a.exact v) + (b.eval fl v - b.exact v) := by ring
      rw [e1]
      have t1 := mul_le_mul_of_nonneg_right ga wa
      have t2 := mul_le_mul_of_nonneg_right gb wb
      have := abs_add_le (a.eval fl v - a.exact v) (b.eval fl v - b.exact v)
      have e2 : ((1 + u) ^ k - 1) * (a.exact (v.map absR) + b.exact (v.map absR))
          = ((1 + u) ^ k - 1) * a.exact (v.map absR) + ((1 + u) ^ k - 1) * b.exact (v.map absR) := by ring
      rw [e2]
      linarith
    have := FExpr.round_step fl u hu hfl _ _ _ _ hW hs
    have e3 : (1 + u) * (1 + ((1 + u) ^ k - 1)) - 1 = (1 + u) ^ (k + 1) - 1 := by ring
    rw [e3] at this
    exact this
  | divn a n iha =>
    simp only [eval, exact, depth]
    have wa := exact_abs_nonneg v a
    by_cases hn : n = 0
    · subst hn
      have h0 : fl 0 = 0 := by
        have := hfl 0
        simp only [abs_zero, mul_zero, sub_zero] at this
        exact abs_eq_zero.mp (le_antisymm this (abs_nonneg _))
      simp [h0]
    · have hnpos : (0 : Rat) < (n : Rat) := by exact_mod_cast Nat.pos_of_ne_zero hn
      have hW : |a.exact v / (n : Rat)| ≤ a.exact (v.map absR) / (n : Rat) := by
        rw [abs_div, abs_of_pos hnpos]
        exact div_le_div_of_nonneg_right (abs_exact_le v a) hnpos.le
      have hs : |a.eval fl v / (n : Rat) - a.exact v / (n : Rat)|
          ≤ ((1 + u) ^ a.depth - 1) * (a.exact (v.map absR) / (n : Rat)) := by
        have e1 : a.eval fl v / (n : Rat) - a.exact v / (n : Rat) = (a.eval fl v - a.exact v) / (n : Rat) := by ring
        rw [e1, abs_div, abs_of_pos hnpos]
        have e2 : ((1 + u) ^ a.depth - 1) * (a.exact (v.map absR) / (n : Rat))
            = ((1 + u) ^ a.depth - 1) * a.exact (v.map absR) / (n : Rat) := by ring
        rw [e2]
        exact div_le_div_of_nonneg_right iha hnpos.le
      have := FExpr.round_step fl u hu hfl _ _ _ _ hW hs
      have e3 : (1 + u) * (1 + ((1 + u) ^ a.depth - 1)) - 1 = (1 + u) ^ (a.depth + 1) - 1 := by ring
      rw [e3] at this
      exact this

/-- a sum (additions only) is the sum of its leaves -/
theorem exact_sumOnly (v : List Rat) (e : SExpr) (h : e.sumOnly = true) :
    e.exact v = (e.leaves.map (fun i => v.getD i 0)).sum := by
  induction e with
  | leaf i => simp [exact, leaves]
  | add a b iha ihb =>
    simp only [sumOnly, Bool.and_eq_true] at h
    simp only [exact, leaves, List.map_append, List.sum_append]
    rw [iha h.1, ihb h.2]
  | divn a n _ => simp [sumOnly] at h

theorem map_getD_range (v : List Rat) : (List.range v.length).map (fun i => v.getD i 0) = v := by
  apply List.ext_getElem
  · simp
  · intro i h1 h2
    simp only [List.length_map, List.length_range] at h1
    simp [List.getD_eq_getElem?_getD, h1]

/-- a sum whose leaves are the indices `0 … len−1` in some order, each once, is the sum of the values -/
theorem exact_sum_perm (v : List Rat) (e : SExpr) (h : e.sumOnly = true)
    (hp : e.leaves.Perm (List.range v.length)) : e.exact v = v.sum := by
  rw [exact_sumOnly v e h, (hp.map _).sum_eq, map_getD_range]

theorem depth_le_leaves (e : SExpr) (h : e.sumOnly = true) : e.depth + 1 ≤ e.leaves.length := by
  induction e with
  | leaf i => simp [depth, leaves]
  | add a b iha ihb =>
    simp only [sumOnly, Bool.and_eq_true] at h
    have := iha h.1
    have := ihb h.2
    simp only [depth, leaves, List.length_append]
    omega
  | divn a n _ => simp [sumOnly] at h

end SExpr

/-- `(1+u)^E − 1 ≤ 2·E·u` while `2·E·u ≤ 1` -/
theorem pow_sub_one_le_linear (u : Rat) (hu : 0 ≤ u) (E : Nat) (h : 2 * (E : Rat) * u ≤ 1) :
    (1 + u) ^ E - 1 ≤ 2 * (E : Rat) * u := by
  have key : ∀ k : Nat, k ≤ E → (1 + u) ^ k ≤ 1 + 2 * (k : Rat) * u := by
    intro k
    induction k with
    | zero => intro _; simp
    | succ k ih =>
      intro hk
      have ihk := ih (by omega)
      have hkE : (k : Rat) ≤ (E : Rat) := by exact_mod_cast (by omega : k ≤ E)
      have h2 : 2 * (k : Rat) * u ≤ 1 := by
        have : 2 * (k : Rat) * u ≤ 2 * (E : Rat) * u := by
          have := mul_le_mul_of_nonneg_right hkE hu
          linarith
        linarith
      have hpos : (0 : Rat) ≤ 1 + u := by linarith
      calc (1 + u) ^ (k + 1) = (1 + u) ^ k * (1 + u) := pow_succ _ _
        _ ≤ (1 + 2 * (k : Rat) * u) * (1 + u) := mul_le_mul_of_nonneg_right ihk hpos
        _ = 1 + 2 * (k : Rat) * u + u + (2 * (k : Rat) * u) * u := by ring
        _ ≤ 1 + 2 * (k : Rat) * u + u + 1 * u := by
            have := mul_le_mul_of_nonneg_right h2 hu
            linarith
        _ = 1 + 2 * ((k + 1 : Nat) : Rat) * u := by push_cast; ring
  have := key E (le_refl _)
  linarith

theorem mean_map_absR_nonneg (l : List Rat) : 0 ≤ mean (l.map absR) := by
  unfold mean
  apply div_nonneg
  · apply List.sum_nonneg
    intro v hv
    rw [List.mem_map] at hv
    obtain ⟨w, _, rfl⟩ := hv
    exact absR_nonneg w
  · exact Nat.cast_nonneg _

/-- the neighbours of a pixel of the image of absolute values are the absolute values of its neighbours -/
theorem others2_abs2 (h0 h1 : Nat) (x : List (List Rat)) (i j : Nat) :
    others2 h0 h1 (abs2 x) i j = (others2 h0 h1 x i j).map absR := by
  have hg : (abs2 x).getD i [] = (x.getD i []).map absR := by
    unfold abs2
    rw [List.getD_eq_getElem?_getD, List.getD_eq_getElem?_getD, List.getElem?_map]
    cases x[i]? <;> simp
  have hm : ∀ (a b : Nat), ((slice a b (abs2 x)).map (slice (j - h1) (2 * h1 + 1))).flatten
      = (((slice a b x).map (slice (j - h1) (2 * h1 + 1))).flatten).map absR := by
    intro a b
    unfold abs2
    rw [slice_map, List.map_map, List.map_flatten, List.map_map]
    congr 1
    apply List.map_congr_left
    intro r _
    simp only [Function.comp, slice_map]
  unfold others2
  rw [hm, hm, hg, slice_map, slice_map]
  simp only [List.map_append]

end Pew.Filters
