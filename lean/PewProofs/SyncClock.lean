import PewProofs.SyncSingle

/-! # C08 — the signal clock given as the acquisition time per sample -/
namespace Pew.Sync

/-- the shifted stamps of a list that starts at its minimum -/
theorem shiftTimes_of_head_min (x : Rat) (xs : List Rat) (d : Rat) (h : ∀ y ∈ xs, x ≤ y) :
    shiftTimes (x :: xs) d = (x :: xs).map (fun t => t - x + d) := by
  unfold shiftTimes
  have : minRat (x :: xs) = x := by simp only [minRat]; exact foldl_min_eq x xs h
  simp only [this]

/-- `t₀ + k·dt` for `k = 0 .. n-1`, shifted to start at `d`, is `k·dt + d`, whatever `t₀` -/
theorem shiftTimes_arith (n : Nat) (t0 dt d : Rat) (hdt : 0 ≤ dt) :
    shiftTimes ((List.range n).map (fun (k : Nat) => t0 + (k : Rat) * dt)) d
      = (List.range n).map (fun (k : Nat) => (k : Rat) * dt + d) := by
  cases n with
  | zero => simp [shiftTimes]
  | succ n =>
    rw [List.range_succ_eq_map, List.map_cons, shiftTimes_of_head_min]
    · simp only [List.map_cons, List.map_map, Nat.cast_zero, zero_mul, add_zero, sub_self, zero_add]
      congr 1
      apply List.map_congr_left
      intro k _
      simp only [Function.comp]
      ring
    · intro y hy
      simp only [List.map_map, List.mem_map, Function.comp] at hy
      obtain ⟨k, _, rfl⟩ := hy
      have : 0 ≤ ((k + 1 : Nat) : Rat) * dt := mul_nonneg (by exact_mod_cast Nat.zero_le _) hdt
      simp only [Nat.cast_zero, zero_mul, add_zero]
      linarith

/-- Stamps of a uniformly sampled signal and the generated `np.arange(n) * dt` are shifted to the same
times: the function subtracts the first stamp, so only the differences of the stamps matter. -/
theorem shiftTimes_interval (ts : List Rat) (dt d : Rat) (h : isUniform ts dt = true) :
    shiftTimes ((Clock.interval dt).times ts.length) d = shiftTimes ts d := by
  simp only [isUniform, Bool.and_eq_true, decide_eq_true_eq] at h
  obtain ⟨hdt, hts⟩ := h
  have h1 := shiftTimes_arith ts.length (ts.headD 0) dt d hdt
  have h2 := shiftTimes_arith ts.length 0 dt d hdt
  simp only [zero_add] at h2
  rw [← hts] at h1
  rw [h1]
  simp only [Clock.times]
  exact h2

end Pew.Sync
