import PewModel.CsvDir

/-! # C04 — histories of calls: helper lemmas (`World`, `step`, `exec`, `trace`) -/
namespace Pew.CsvDir

variable {α P : Type} (isNan : α → Bool) (rp : Vendor → Image α → P) (tkey : List Nat → Int)

theorem postO_mkOpt (v : Vendor) (img : Image α) : postO isNan rp (mkOpt v) img = post isNan rp v img := by
  cases v <;> rfl

theorem loadO_mkOpt (v : Vendor) (listing : List (Entry α)) (π : List Nat) :
    (loadO isNan rp tkey (mkOpt v) listing π).1 = load isNan rp v tkey listing π := by
  simp only [loadO, load, postO_mkOpt]
  rfl

theorem loadO_snd (o : Opt) (listing : List (Entry α)) (π : List Nat) :
    (loadO isNan rp tkey o listing π).2 = o := rfl

/-- only `write` changes the file system -/
theorem step_fs (w : World α) (c : Call α) (p : Nat) :
    ((step isNan rp tkey w c).1).fs p
      = (match c with
         | .write q l => if p = q then l else w.fs p
         | _ => w.fs p) := by
  cases c with
  | importWith i q π =>
    simp only [step]
    cases w.opts[i]? <;> rfl
  | _ => rfl

theorem exec_append (w : World α) (cs ds : List (Call α)) :
    exec isNan rp tkey w (cs ++ ds) = exec isNan rp tkey (exec isNan rp tkey w cs) ds := by
  induction cs generalizing w with
  | nil => rfl
  | cons c cs ih => simp only [List.cons_append, exec, ih]

theorem trace_append (w : World α) (cs ds : List (Call α)) :
    trace isNan rp tkey w (cs ++ ds)
      = trace isNan rp tkey w cs ++ trace isNan rp tkey (exec isNan rp tkey w cs) ds := by
  induction cs generalizing w with
  | nil => rfl
  | cons c cs ih => simp only [List.cons_append, trace, exec, ih]

theorem trace_length (w : World α) (cs : List (Call α)) : (trace isNan rp tkey w cs).length = cs.length := by
  induction cs generalizing w with
  | nil => rfl
  | cons c cs ih => simp only [trace, List.length_cons, ih]

/-- call number `pre.length` of `pre ++ c :: post` returns what `c` returns in the world `pre` leaves -/
theorem trace_at (w : World α) (pre post : List (Call α)) (c : Call α) :
    (trace isNan rp tkey w (pre ++ c :: post))[pre.length]?
      = some (step isNan rp tkey (exec isNan rp tkey w pre) c).2 := by
  rw [trace_append, List.getElem?_append_right (by rw [trace_length]; exact Nat.le_refl _), trace_length]
  simp [trace]

/-- the directory at a path is what the last `write` to that path left there -/
theorem exec_fs (w : World α) (cs : List (Call α)) (p : Nat) :
    (exec isNan rp tkey w cs).fs p = ((lastWrite p cs).getD (w.fs p)) := by
  induction cs generalizing w with
  | nil => rfl
  | cons c cs ih =>
    simp only [exec, lastWrite]
    rw [ih]
    cases h : lastWrite p cs with
    | some l => rfl
    | none =>
      simp only [Option.getD_none]
      rw [step_fs]
      cases c with
      | write q l =>
        by_cases hq : q = p
        · simp [hq]
        · have : ¬ p = q := fun h => hq h.symm
          simp [hq, this]
      | _ => rfl

/-- a call other than an edit of object `i` leaves object `i` as it is -/
theorem step_opts (w : World α) (c : Call α) (i : Nat) (o : Opt) (hi : w.opts[i]? = some o)
    (hc : ∀ f, c ≠ .editOpt i f) : ((step isNan rp tkey w c).1).opts[i]? = some o := by
  have hlt : i < w.opts.length := by
    rcases Nat.lt_or_ge i w.opts.length with h | h
    · exact h
    · rw [List.getElem?_eq_none h] at hi; cases hi
  cases c with
  | write q l => exact hi
  | newOpt v => simp only [step]; rw [List.getElem?_append_left hlt]; exact hi
  | detect q => simp only [step]; rw [List.getElem?_append_left hlt]; exact hi
  | editOpt j f =>
    simp only [step]
    have hj : j ≠ i := fun h => hc f (by rw [h])
    rw [List.getElem?_modify]
    simp [hj, hi]
  | importAuto q π => exact hi
  | importWith j q π =>
    simp only [step]
    cases hj : w.opts[j]? with
    | none => exact hi
    | some oj =>
      simp only [loadO_snd]
      rw [List.getElem?_set]
      by_cases hji : j = i
      · subst hji
        simp [hlt]
        rw [hi] at hj
        exact (Option.some.inj hj).symm
      · simp [hji, hi]

theorem exec_opts (w : World α) (cs : List (Call α)) (i : Nat) (o : Opt) (hi : w.opts[i]? = some o)
    (hc : ∀ c ∈ cs, ∀ f, c ≠ .editOpt i f) : (exec isNan rp tkey w cs).opts[i]? = some o := by
  induction cs generalizing w with
  | nil => exact hi
  | cons c cs ih =>
    simp only [exec]
    apply ih
    · exact step_opts isNan rp tkey w c i o hi (hc c (List.mem_cons_self))
    · intro d hd
      exact hc d (List.mem_cons_of_mem _ hd)

end Pew.CsvDir
