import PewModel.Cli
import Mathlib.Tactic.Ring

/-! # C20 — helper lemmas for `PewTheorems/C20.lean` -/
namespace Pew.Cli

/-! ## sizes -/

theorem le_maxOf (l : List Nat) (x : Nat) (hx : x ∈ l) : x ≤ maxOf l := by
  induction l with
  | nil => cases hx
  | cons a t ih =>
    simp only [maxOf]
    rcases List.mem_cons.mp hx with h | h
    · subst h; exact Nat.le_max_left _ _
    · exact Nat.le_trans (ih h) (Nat.le_max_right _ _)

theorem maxOf_mem (l : List Nat) (hne : l ≠ []) : maxOf l ∈ l := by
  induction l with
  | nil => exact absurd rfl hne
  | cons a t ih =>
    simp only [maxOf]
    by_cases ht : t = []
    · subst ht; simp [maxOf]
    · have := ih ht
      rcases Nat.le_total a (maxOf t) with h | h
      · rw [Nat.max_eq_right h]; exact List.mem_cons_of_mem _ this
      · rw [Nat.max_eq_left h]; exact List.mem_cons_self

theorem prefixSum_zero (l : List Nat) : prefixSum l 0 = 0 := by simp [prefixSum]

theorem prefixSum_succ (a : Nat) (l : List Nat) (k : Nat) :
    prefixSum (a :: l) (k + 1) = a + prefixSum l k := by simp [prefixSum]

theorem prefixSum_length (l : List Nat) : prefixSum l l.length = l.sum := by simp [prefixSum]

/-- `locate` finds the input and the local position: `r = prefixSum k + i`, `i < size k` -/
theorem locate_some (l : List Nat) (r : Nat) (hr : r < l.sum) :
    ∃ k i, locate l r = some (k, i) ∧ ∃ hk : k < l.length, i < l[k] ∧ r = prefixSum l k + i := by
  induction l generalizing r with
  | nil => simp at hr
  | cons s ss ih =>
    simp only [locate]
    by_cases h : r < s
    · exact ⟨0, r, by simp [h], by simp, by simpa using h, by simp [prefixSum]⟩
    · simp only [List.sum_cons] at hr
      obtain ⟨k, i, hl, hk, hi, hr'⟩ := ih (r - s) (by omega)
      refine ⟨k + 1, i, by simp [h, hl], by simpa using hk, by simpa using hi, ?_⟩
      rw [prefixSum_succ]; omega

/-- the decomposition is unique -/
theorem locate_unique (l : List Nat) (k i : Nat) (hk : k < l.length) (hi : i < l[k]) :
    locate l (prefixSum l k + i) = some (k, i) := by
  induction l generalizing k with
  | nil => simp at hk
  | cons s ss ih =>
    cases k with
    | zero =>
      have : i < s := by simpa using hi
      simp [locate, prefixSum, this]
    | succ k =>
      have hk' : k < ss.length := by simpa using hk
      have hi' : i < ss[k] := by simpa using hi
      rw [prefixSum_succ]
      have h1 : ¬ (s + prefixSum ss k + i < s) := by omega
      have h2 : s + prefixSum ss k + i - s = prefixSum ss k + i := by omega
      simp only [locate, h1, if_false, h2, ih k hk' hi', Option.map_some]

theorem locate_none (l : List Nat) (r : Nat) (hr : l.sum ≤ r) : locate l r = none := by
  induction l generalizing r with
  | nil => rfl
  | cons s ss ih =>
    simp only [List.sum_cons] at hr
    have h1 : ¬ r < s := by omega
    simp [locate, h1, ih (r - s) (by omega)]

/-! ## concatenation -/

/-- concatenating along axis 0 a non-empty list of grids of one common width succeeds; grid `k`
appears unchanged from row `prefixSum heights k` on -/
theorem concat_vcat_spec {α} (l : List (Grid α)) (W : Nat) (hne : l ≠ []) (hw : ∀ g ∈ l, g.w = W) :
    ∃ G, concat vcat l = some G ∧ G.w = W ∧ G.h = (l.map (·.h)).sum ∧
      ∀ k (hk : k < l.length) i j, i < l[k].h →
        G.get (prefixSum (l.map (·.h)) k + i) j = l[k].get i j := by
  induction l with
  | nil => exact absurd rfl hne
  | cons g t ih =>
    cases t with
    | nil =>
      refine ⟨g, rfl, hw g (by simp), by simp, ?_⟩
      intro k hk i j _
      have : k = 0 := by simpa using hk
      subst this
      simp [prefixSum]
    | cons g' gs =>
      obtain ⟨G', hG', hw', hh', hpix⟩ := ih (by simp) (fun x hx => hw x (List.mem_cons_of_mem _ hx))
      have hgw : g.w = W := hw g (by simp)
      have hcat : vcat g G' = some
          { h := g.h + G'.h, w := g.w, get := fun i j => if i < g.h then g.get i j else G'.get (i - g.h) j } := by
        simp [vcat, hgw, hw']
      refine ⟨{ h := g.h + G'.h, w := g.w, get := fun i j => if i < g.h then g.get i j else G'.get (i - g.h) j },
        by simp only [concat, hG', Option.bind_some, hcat], hgw, ?_, ?_⟩
      · simp only [List.map_cons, List.sum_cons] at hh' ⊢; omega
      · intro k hk i j hi
        cases k with
        | zero =>
          have : i < g.h := by simpa using hi
          simp [prefixSum, this]
        | succ k =>
          have hk' : k < (g' :: gs).length := by simpa using hk
          have hi' : i < (g' :: gs)[k].h := by simpa using hi
          have := hpix k hk' i j hi'
          simp only [List.map_cons] at this ⊢
          rw [prefixSum_succ]
          have h1 : ¬ (g.h + prefixSum (g'.h :: gs.map (·.h)) k + i < g.h) := by omega
          have h2 : g.h + prefixSum (g'.h :: gs.map (·.h)) k + i - g.h
              = prefixSum (g'.h :: gs.map (·.h)) k + i := by omega
          simp only [h1, if_false, h2]
          simpa using this

theorem concat_hcat_spec {α} (l : List (Grid α)) (H : Nat) (hne : l ≠ []) (hh : ∀ g ∈ l, g.h = H) :
    ∃ G, concat hcat l = some G ∧ G.h = H ∧ G.w = (l.map (·.w)).sum ∧
      ∀ k (hk : k < l.length) i j, j < l[k].w →
        G.get i (prefixSum (l.map (·.w)) k + j) = l[k].get i j := by
  induction l with
  | nil => exact absurd rfl hne
  | cons g t ih =>
    cases t with
    | nil =>
      refine ⟨g, rfl, hh g (by simp), by simp, ?_⟩
      intro k hk i j _
      have : k = 0 := by simpa using hk
      subst this
      simp [prefixSum]
    | cons g' gs =>
      obtain ⟨G', hG', hh', hw', hpix⟩ := ih (by simp) (fun x hx => hh x (List.mem_cons_of_mem _ hx))
      have hgh : g.h = H := hh g (by simp)
      have hcat : hcat g G' = some
          { h := g.h, w := g.w + G'.w, get := fun i j => if j < g.w then g.get i j else G'.get i (j - g.w) } := by
        simp [hcat, hgh, hh']
      refine ⟨{ h := g.h, w := g.w + G'.w, get := fun i j => if j < g.w then g.get i j else G'.get i (j - g.w) },
        by simp only [concat, hG', Option.bind_some, hcat], hgh, ?_, ?_⟩
      · simp only [List.map_cons, List.sum_cons] at hw' ⊢; omega
      · intro k hk i j hj
        cases k with
        | zero =>
          have : j < g.w := by simpa using hj
          simp [prefixSum, this]
        | succ k =>
          have hk' : k < (g' :: gs).length := by simpa using hk
          have hj' : j < (g' :: gs)[k].w := by simpa using hj
          have := hpix k hk' i j hj'
          simp only [List.map_cons] at this ⊢
          rw [prefixSum_succ]
          have h1 : ¬ (g.w + prefixSum (g'.w :: gs.map (·.w)) k + j < g.w) := by omega
          have h2 : g.w + prefixSum (g'.w :: gs.map (·.w)) k + j - g.w
              = prefixSum (g'.w :: gs.map (·.w)) k + j := by omega
          simp only [h1, if_false, h2]
          simpa using this

/-! ## stacking -/

theorem pad_widths {α} (pad : α) (ds : List (Grid α)) :
    ∀ g ∈ ds.map (fun d => d.pad 0 (maxOf (ds.map (·.w)) - d.w) pad), g.w = maxOf (ds.map (·.w)) := by
  intro g hg
  obtain ⟨d, hd, rfl⟩ := List.mem_map.mp hg
  have := le_maxOf (ds.map (·.w)) d.w (List.mem_map.mpr ⟨d, hd, rfl⟩)
  simp only [Grid.pad]; omega

theorem pad_heights {α} (pad : α) (ds : List (Grid α)) :
    ∀ g ∈ ds.map (fun d => d.pad (maxOf (ds.map (·.h)) - d.h) 0 pad), g.h = maxOf (ds.map (·.h)) := by
  intro g hg
  obtain ⟨d, hd, rfl⟩ := List.mem_map.mp hg
  have := le_maxOf (ds.map (·.h)) d.h (List.mem_map.mpr ⟨d, hd, rfl⟩)
  simp only [Grid.pad]; omega

theorem stack_vertical_full {α} (pad : α) (ds : List (Grid α)) (hne : ds ≠ []) :
    ∃ g, stack .vertical pad ds = some g ∧ g.h = (ds.map (·.h)).sum ∧ g.w = maxOf (ds.map (·.w)) ∧
      ∀ k (hk : k < ds.length) i j, i < ds[k].h →
        g.get (prefixSum (ds.map (·.h)) k + i) j = if j < ds[k].w then ds[k].get i j else pad := by
  obtain ⟨G, hG, hw, hh, hpix⟩ := concat_vcat_spec
    (ds.map (fun d => d.pad 0 (maxOf (ds.map (·.w)) - d.w) pad)) (maxOf (ds.map (·.w)))
    (by simpa using hne) (pad_widths pad ds)
  have hmap : (ds.map (fun d => d.pad 0 (maxOf (ds.map (·.w)) - d.w) pad)).map (·.h) = ds.map (·.h) := by
    simp [List.map_map, Function.comp_def, Grid.pad]
  rw [hmap] at hh hpix
  refine ⟨G, by simpa [stack] using hG, hh, hw, ?_⟩
  intro k hk i j hi
  have := hpix k (by simpa using hk) i j (by simpa [Grid.pad] using hi)
  rw [this]
  simp [Grid.pad, hi]

theorem stack_horizontal_full {α} (pad : α) (ds : List (Grid α)) (hne : ds ≠ []) :
    ∃ g, stack .horizontal pad ds = some g ∧ g.h = maxOf (ds.map (·.h)) ∧ g.w = (ds.map (·.w)).sum ∧
      ∀ k (hk : k < ds.length) i j, j < ds[k].w →
        g.get i (prefixSum (ds.map (·.w)) k + j) = if i < ds[k].h then ds[k].get i j else pad := by
  obtain ⟨G, hG, hh, hw, hpix⟩ := concat_hcat_spec
    (ds.map (fun d => d.pad (maxOf (ds.map (·.h)) - d.h) 0 pad)) (maxOf (ds.map (·.h)))
    (by simpa using hne) (pad_heights pad ds)
  have hmap : (ds.map (fun d => d.pad (maxOf (ds.map (·.h)) - d.h) 0 pad)).map (·.w) = ds.map (·.w) := by
    simp [List.map_map, Function.comp_def, Grid.pad]
  rw [hmap] at hw hpix
  refine ⟨G, by simpa [stack] using hG, hh, hw, ?_⟩
  intro k hk i j hj
  have := hpix k (by simpa using hk) i j (by simpa [Grid.pad] using hj)
  rw [this]
  simp [Grid.pad, hj]

theorem stack_ne_nil {α} (o : Orient) (pad : α) (ds : List (Grid α)) (g : Grid α)
    (hs : stack o pad ds = some g) : ds ≠ [] := by
  rintro rfl
  cases o <;> simp [stack, concat] at hs

/-! ## element restriction and filtering -/

/-- `Laser.remove` of the elements that were not requested keeps exactly the requested ones -/
theorem remove_filter (els req : List String) :
    els.filter (fun e => !(els.filter fun e => !req.contains e).contains e) = els.filter fun e => req.contains e := by
  apply List.filter_congr
  intro e he
  by_cases hr : req.contains e = true
  · simp
    intro _
    simpa using hr
  · simp only [Bool.not_eq_true] at hr
    simp [he]

/-- the filter loop over a duplicate-free list of names: visited names that the image has hold the
filter of the ORIGINAL field, every other field is as before -/
theorem fold_filter (f : String → Grid Tok → Grid Tok) (l0 : Laser) (es : List String) (hnd : es.Nodup)
    (cur : Laser) (hel : cur.elements = l0.elements) (hcfg : cur.config = l0.config)
    (hh : cur.data.h = l0.data.h) (hw : cur.data.w = l0.data.w)
    (hinv : ∀ n ∈ es, ∀ i j, cur.data.get i j n = l0.data.get i j n) :
    (es.foldl (fstep f) cur).elements = l0.elements ∧ (es.foldl (fstep f) cur).config = l0.config ∧
    (es.foldl (fstep f) cur).data.h = l0.data.h ∧ (es.foldl (fstep f) cur).data.w = l0.data.w ∧
    ∀ i j n, (es.foldl (fstep f) cur).data.get i j n =
      if n ∈ es ∧ n ∈ l0.elements then (f n (l0.field n)).get i j else cur.data.get i j n := by
  induction es generalizing cur with
  | nil => simp [hel, hcfg, hh, hw]
  | cons e t ih =>
    have hnd' := (List.nodup_cons.mp hnd)
    have hfield : cur.field e = l0.field e := by
      simp only [Laser.field, hh, hw]
      congr 1
      funext i j
      exact hinv e (by simp) i j
    have hstep_el : (fstep f cur e).elements = l0.elements := by
      simp only [fstep]; split <;> simp [Laser.setField, hel]
    have hstep_cfg : (fstep f cur e).config = l0.config := by
      simp only [fstep]; split <;> simp [Laser.setField, hcfg]
    have hstep_h : (fstep f cur e).data.h = l0.data.h := by
      simp only [fstep]; split <;> simp [Laser.setField, hh]
    have hstep_w : (fstep f cur e).data.w = l0.data.w := by
      simp only [fstep]; split <;> simp [Laser.setField, hw]
    have hstep_get : ∀ i j n, (fstep f cur e).data.get i j n =
        if n = e ∧ e ∈ l0.elements then (f e (l0.field e)).get i j else cur.data.get i j n := by
      intro i j n
      simp only [fstep, hel, List.contains_iff_mem]
      by_cases he : e ∈ l0.elements
      · simp only [he, if_true, Laser.setField, hfield, and_true]
      · simp [he]
    have hinv' : ∀ n ∈ t, ∀ i j, (fstep f cur e).data.get i j n = l0.data.get i j n := by
      intro n hn i j
      have hne : n ≠ e := by rintro rfl; exact hnd'.1 hn
      rw [hstep_get]
      simp only [hne, false_and, if_false]
      exact hinv n (List.mem_cons_of_mem _ hn) i j
    obtain ⟨h1, h2, h3, h4, h5⟩ := ih hnd'.2 (fstep f cur e) hstep_el hstep_cfg hstep_h hstep_w hinv'
    simp only [List.foldl_cons]
    refine ⟨h1, h2, h3, h4, ?_⟩
    intro i j n
    rw [h5, hstep_get]
    by_cases hne : n = e
    · subst hne
      simp [hnd'.1]
    · simp [hne]

/-- the filter loop touches no calibration -/
theorem filterStep_calib (f : String → Grid Tok → Grid Tok) (sel : Option (List String)) (l : Laser) :
    (filterStep f sel l).calib = l.calib := by
  have key : ∀ (es : List String) (cur : Laser), (es.foldl (fstep f) cur).calib = cur.calib := by
    intro es
    induction es with
    | nil => intro cur; rfl
    | cons e t ih =>
      intro cur
      rw [List.foldl_cons, ih]
      simp only [fstep]
      split <;> rfl
  unfold filterStep
  exact key _ l

/-- the table of filtered elements of `filterSpec`, looked up -/
theorem lookup_done {β} (xs : List String) (p : String → Bool) (F : String → β) (n : String) :
    ((xs.filter p).map fun m => (m, F m)).lookup n = if n ∈ xs ∧ p n = true then some (F n) else none := by
  induction xs with
  | nil => simp
  | cons x t ih =>
    by_cases hp : p x = true
    · simp only [List.filter_cons, hp, if_true, List.map_cons, List.lookup_cons, List.mem_cons]
      by_cases hn : n = x
      · subst hn; simp [hp]
      · have : (n == x) = false := by simpa using hn
        rw [this, ih]; simp [hn]
    · simp only [List.filter_cons, hp, Bool.false_eq_true, if_false, List.mem_cons]
      rw [ih]
      by_cases hn : n = x
      · subst hn; simp [hp]
      · simp [hn]

/-- the pixel function of `filterSpec`, read off -/
theorem filterSpec_get (f : String → Grid Tok → Grid Tok) (sel : Option (List String)) (l : Laser)
    (i j : Nat) (n : String) :
    (filterSpec f sel l).data.get i j n =
      if selected sel l n = true then (f n (l.field n)).get i j else l.data.get i j n := by
  simp only [filterSpec, lookup_done]
  by_cases hs : selected sel l n = true
  · have hm : n ∈ l.elements := by
      simp only [selected, Bool.and_eq_true, List.contains_iff_mem] at hs
      exact hs.1
    simp [hs, hm]
  · simp [hs]

/-! ## where files go -/

theorem save_placed (l : Laser) (p : Path) (fs : List File) (h : save l p = .ok fs) :
    ∀ f ∈ fs, placedAt f p := by
  unfold save at h
  split at h
  · cases h
    intro f hf
    obtain ⟨n, _, rfl⟩ := List.mem_map.mp hf
    exact Or.inr ⟨n, rfl⟩
  · split at h
    · cases h
      intro f hf
      simp only [List.mem_singleton] at hf
      subst hf
      exact Or.inl rfl
    · split at h
      · cases h
        intro f hf
        simp only [List.mem_singleton] at hf
        subst hf
        exact Or.inl rfl
      · cases h

theorem loop_placed (cmd : Cmd) (outs : List Path) (work : List (Nat × Laser × Path)) (acc : List File)
    (hw : ∀ x ∈ work, x.2.2 ∈ outs) (hacc : ∀ f ∈ acc, ∃ o ∈ outs, placedAt f o) :
    ∀ f ∈ (loop cmd work acc).files, ∃ o ∈ outs, placedAt f o := by
  induction work generalizing acc with
  | nil => simpa [loop] using hacc
  | cons x rest ih =>
    obtain ⟨k, l, out⟩ := x
    have hout : out ∈ outs := hw (k, l, out) (by simp)
    have hrest : ∀ x ∈ rest, x.2.2 ∈ outs := fun x hx => hw x (List.mem_cons_of_mem _ hx)
    have happ : ∀ (l' : Laser) (fs : List File), save l' out = .ok fs →
        ∀ f ∈ acc ++ fs, ∃ o ∈ outs, placedAt f o := by
      intro l' fs hs f hf
      rcases List.mem_append.mp hf with h | h
      · exact hacc f h
      · exact ⟨out, hout, save_placed l' out fs hs f h⟩
    cases cmd with
    | convert cfg els =>
      simp only [loop]
      cases hc : convertStep cfg els l with
      | none => exact ih acc hrest hacc
      | some l' =>
        cases hs : save l' out with
        | ok fs => simpa [hs] using ih (acc ++ fs) hrest (happ l' fs hs)
        | error e => simpa [hs] using hacc
    | filter f sel =>
      simp only [loop]
      cases hs : save (filterStep (f k) sel l) out with
      | ok fs => exact ih (acc ++ fs) hrest (happ _ fs hs)
      | error e => exact hacc
    | stack o pad => simpa [loop] using hacc

/-! ## sameness of results: an equivalence, compatible with the list operations of the run -/

theorem GridEq.refl {α} (g : Grid α) : GridEq g g := ⟨rfl, rfl, fun _ _ _ _ => rfl⟩

theorem GridEq.symm {α} {g g' : Grid α} (h : GridEq g g') : GridEq g' g :=
  ⟨h.1.symm, h.2.1.symm, fun i j hi hj => (h.2.2 i j (h.1 ▸ hi) (h.2.1 ▸ hj)).symm⟩

theorem GridEq.trans {α} {g g' g'' : Grid α} (h : GridEq g g') (h' : GridEq g' g'') : GridEq g g'' :=
  ⟨h.1.trans h'.1, h.2.1.trans h'.2.1, fun i j hi hj =>
    (h.2.2 i j hi hj).trans (h'.2.2 i j (h.1 ▸ hi) (h.2.1 ▸ hj))⟩

theorem LaserEq.refl (l : Laser) : LaserEq l l := ⟨rfl, rfl, rfl, GridEq.refl _⟩

theorem LaserEq.symm {l l' : Laser} (h : LaserEq l l') : LaserEq l' l :=
  ⟨h.1.symm, h.2.1.symm, h.2.2.1.symm, h.2.2.2.symm⟩

theorem LaserEq.trans {l l' l'' : Laser} (h : LaserEq l l') (h' : LaserEq l' l'') : LaserEq l l'' :=
  ⟨h.1.trans h'.1, h.2.1.trans h'.2.1, h.2.2.1.trans h'.2.2.1, h.2.2.2.trans h'.2.2.2⟩

theorem ContentEq.refl (c : Content) : ContentEq c c := by
  cases c with
  | npz l => exact LaserEq.refl l
  | csv g => exact GridEq.refl g
  | vtk l => exact LaserEq.refl l

theorem ContentEq.symm {c c' : Content} (h : ContentEq c c') : ContentEq c' c := by
  cases c <;> cases c' <;> first | exact h.elim | skip
  · exact LaserEq.symm h
  · exact GridEq.symm h
  · exact LaserEq.symm h

theorem ContentEq.trans {c c' c'' : Content} (h : ContentEq c c') (h' : ContentEq c' c'') :
    ContentEq c c'' := by
  cases c <;> cases c' <;> first | exact h.elim | skip
  all_goals cases c'' <;> first | exact h'.elim | skip
  · exact LaserEq.trans h h'
  · exact GridEq.trans h h'
  · exact LaserEq.trans h h'

theorem FileEq.refl (f : File) : FileEq f f := ⟨rfl, ContentEq.refl _⟩
theorem FileEq.symm {f f' : File} (h : FileEq f f') : FileEq f' f := ⟨h.1.symm, h.2.symm⟩
theorem FileEq.trans {f f' f'' : File} (h : FileEq f f') (h' : FileEq f' f'') : FileEq f f'' :=
  ⟨h.1.trans h'.1, h.2.trans h'.2⟩

theorem FilesEq.refl (fs : List File) : FilesEq fs fs := by
  induction fs with
  | nil => trivial
  | cons f t ih => exact ⟨FileEq.refl f, ih⟩

theorem FilesEq.symm {fs gs : List File} (h : FilesEq fs gs) : FilesEq gs fs := by
  induction fs generalizing gs with
  | nil => cases gs with
    | nil => trivial
    | cons g t => exact h.elim
  | cons f t ih => cases gs with
    | nil => exact h.elim
    | cons g t' => exact ⟨h.1.symm, ih h.2⟩

theorem FilesEq.trans {fs gs hs : List File} (h : FilesEq fs gs) (h' : FilesEq gs hs) :
    FilesEq fs hs := by
  induction fs generalizing gs hs with
  | nil => cases gs with
    | nil => exact h'
    | cons g t => exact h.elim
  | cons f t ih => cases gs with
    | nil => exact h.elim
    | cons g t' => cases hs with
      | nil => exact h'.elim
      | cons x t'' => exact ⟨h.1.trans h'.1, ih h.2 h'.2⟩

theorem FilesEq.append {as as' bs bs' : List File} (h : FilesEq as as') (h' : FilesEq bs bs') :
    FilesEq (as ++ bs) (as' ++ bs') := by
  induction as generalizing as' with
  | nil => cases as' with
    | nil => exact h'
    | cons g t => exact h.elim
  | cons f t ih => cases as' with
    | nil => exact h.elim
    | cons g t' => exact ⟨h.1, ih h.2⟩

/-- the relation is not trivial: the same paths in the same order -/
theorem FilesEq.paths {fs gs : List File} (h : FilesEq fs gs) :
    fs.map (·.path) = gs.map (·.path) := by
  induction fs generalizing gs with
  | nil => cases gs with
    | nil => rfl
    | cons g t => exact h.elim
  | cons f t ih => cases gs with
    | nil => exact h.elim
    | cons g t' => simp only [List.map_cons, h.1.1, ih h.2]

theorem FilesEq.map {α} (F G : α → File) (l : List α) (h : ∀ x ∈ l, FileEq (F x) (G x)) :
    FilesEq (l.map F) (l.map G) := by
  induction l with
  | nil => trivial
  | cons x t ih =>
    exact ⟨h x (by simp), ih fun y hy => h y (List.mem_cons_of_mem _ hy)⟩

theorem RunEq.refl (r : Result) : RunEq r r := ⟨rfl, FilesEq.refl _⟩
theorem RunEq.symm {r r' : Result} (h : RunEq r r') : RunEq r' r := ⟨h.1.symm, h.2.symm⟩
theorem RunEq.trans {r r' r'' : Result} (h : RunEq r r') (h' : RunEq r' r'') : RunEq r r'' :=
  ⟨h.1.trans h'.1, h.2.trans h'.2⟩

theorem field_congr {l l' : Laser} (h : LaserEq l l') (n : String) : GridEq (l.field n) (l'.field n) :=
  ⟨h.2.2.2.1, h.2.2.2.2.1, fun i j hi hj => congrFun (h.2.2.2.2.2 i j hi hj) n⟩

/-- the files of two images that are the same are the same -/
theorem specFiles_congr (format : String) {l l' : Laser} (p : Path) (h : LaserEq l l') :
    FilesEq (specFiles format l p) (specFiles format l' p) := by
  unfold specFiles
  split
  · rw [← h.1]
    exact FilesEq.map _ _ _ fun n _ => ⟨rfl, field_congr h n⟩
  · split
    · exact ⟨⟨rfl, h⟩, trivial⟩
    · exact ⟨⟨rfl, h⟩, trivial⟩

/-! ## formats and saving -/

theorem lower_valid {f : String} (h : f ∈ validFormats) : lower f = f := by
  simp only [validFormats, List.mem_cons, List.not_mem_nil, or_false] at h
  rcases h with rfl | rfl | rfl <;> decide

/-- an unsupported suffix: `save` raises (the `ValueError` of line 278) -/
theorem save_bad (l : Laser) (p : Path) (h : lower p.suffix ∉ validFormats) :
    save l p = .error .crash := by
  simp only [validFormats, List.mem_cons, List.not_mem_nil, or_false, not_or] at h
  simp [save, h.1, h.2.1, h.2.2]
  rfl

/-! ## argument checks -/

/-- the element check of `parse` says what `specRun` says: every requested name is an element of
some input -/
theorem known_iff (inputs : List Input) (els : List String) :
    els.all (inputs.flatMap (·.laser.elements)).contains =
      els.all fun e => inputs.any fun i => i.laser.elements.contains e := by
  congr 1
  funext e
  rw [Bool.eq_iff_iff]
  simp [List.mem_flatMap]

/-- `parse` without the monad -/
theorem parse_unfold (a : Args) :
    parse a =
      if a.inputs.isEmpty = true then .error .usage
      else if a.inputs.any (fun i => !i.present) = true then .error .usage
      else if validFormats.contains a.format = false then .error .usage
      else
        match deriveOutputs a.cmd.isStack (a.inputs.map (·.path)) a.format a.output a.isDir with
        | .error e => .error e
        | .ok outs =>
          match a.cmd.requested with
          | some els =>
            if els.all (a.inputs.flatMap (·.laser.elements)).contains = false then .error .usage
            else .ok outs
          | none => .ok outs := by
  unfold parse
  by_cases h1 : a.inputs.isEmpty = true
  · simp only [h1, if_true]; rfl
  by_cases h2 : a.inputs.any (fun i => !i.present) = true
  · simp only [h1, h2, if_true]; rfl
  by_cases h3 : validFormats.contains a.format = false
  · simp only [h1, h2, h3, if_true]; rfl
  simp only [h1, h2, h3]
  have h3' : validFormats.contains a.format = true := by simpa using h3
  simp only [Bool.not_true, Bool.false_eq_true, if_false]
  cases deriveOutputs a.cmd.isStack (a.inputs.map (·.path)) a.format a.output a.isDir with
  | error e => rfl
  | ok outs =>
    cases a.cmd.requested with
    | none => rfl
    | some els =>
      by_cases h4 : els.all (a.inputs.flatMap (·.laser.elements)).contains = false
      · simp only [h4, if_true]; rfl
      · have h4' : els.all (a.inputs.flatMap (·.laser.elements)).contains = true := by simpa using h4
        simp only [h4']; rfl

/-- every derived output carries the format as its suffix (up to case, for a requested file) -/
theorem specOutputs_suffix (isStack : Bool) (inputs : List Path) (format : String)
    (output : Option Path) (isDir : Path → Bool) (outs : List Path) (hf : format ∈ validFormats)
    (h : specOutputs isStack inputs format output isDir = some outs) :
    ∀ o ∈ outs, lower o.suffix = format := by
  have hl := lower_valid hf
  unfold specOutputs at h
  cases output with
  | none =>
    simp only at h
    split at h
    · cases h
    · cases h
      intro o ho
      obtain ⟨i, -, rfl⟩ := List.mem_map.mp ho
      exact hl
  | some p =>
    simp only at h
    split at h
    · split at h
      · cases h
      · cases h
        intro o ho
        obtain ⟨i, -, rfl⟩ := List.mem_map.mp ho
        exact hl
    · split at h
      · rename_i hc
        cases h
        intro o ho
        simp only [List.mem_singleton] at ho
        subst ho
        exact hc.2
      · cases h

theorem snd_enum {α} (l : List α) : (enum l).map Prod.snd = l := by
  simp [enum, List.map_snd_zip]

theorem flatMap_enum {α β} (g : α → List β) (l : List α) :
    (enum l).flatMap (fun x => g x.2) = l.flatMap g := by
  rw [← List.flatMap_map Prod.snd g, snd_enum]

theorem mem_enum {α} (l : List α) (x : Nat × α) (h : x ∈ enum l) : x.2 ∈ l :=
  (List.of_mem_zip h).2

theorem FilesEq.of_eq {as bs : List File} (h : as = bs) : FilesEq as bs := h ▸ FilesEq.refl _

theorem flatMap_congr' {α β} {l : List α} {f g : α → List β} (h : ∀ x ∈ l, f x = g x) :
    l.flatMap f = l.flatMap g := by
  induction l with
  | nil => rfl
  | cons x t ih =>
    simp only [List.flatMap_cons, h x (by simp), ih fun y hy => h y (List.mem_cons_of_mem _ hy)]

/-- the specification never describes a failed run that left files behind -/
theorem specRun_error_or_ok (a : Args) :
    specRun a = ⟨.error, []⟩ ∨ (specRun a).status = .ok := by
  unfold specRun
  simp only
  split_ifs
  · exact Or.inl rfl
  · split
    · exact Or.inl rfl
    · split
      · split
        · exact Or.inr rfl
        · exact Or.inl rfl
      · exact Or.inr rfl
      · exact Or.inr rfl

theorem FilesEq.nil_right {fs : List File} (h : FilesEq fs []) : fs = [] := by
  cases fs with
  | nil => rfl
  | cons f t => exact h.elim

/-! ## reading a run input by input -/

theorem parse_ok_facts (a : Args) (outs : List Path) (hp : parse a = .ok outs) :
    a.inputs ≠ [] ∧ a.format ∈ validFormats ∧
      deriveOutputs a.cmd.isStack (a.inputs.map (·.path)) a.format a.output a.isDir = .ok outs := by
  rw [parse_unfold] at hp
  split at hp
  · cases hp
  · rename_i h1
    split at hp
    · cases hp
    · split at hp
      · cases hp
      · rename_i h3
        refine ⟨by intro e; simp [e] at h1, by simpa using h3, ?_⟩
        cases hd : deriveOutputs a.cmd.isStack (a.inputs.map (·.path)) a.format a.output a.isDir with
        | error e => simp [hd] at hp
        | ok o =>
          simp only [hd] at hp
          cases hr : a.cmd.requested with
          | none => simp only [hr] at hp; cases hp; rfl
          | some els =>
            simp only [hr] at hp
            split at hp
            · cases hp
            · cases hp; rfl

theorem FilesEq.exists_left {fs gs : List File} (h : FilesEq fs gs) (g : File) (hg : g ∈ gs) :
    ∃ f ∈ fs, FileEq f g := by
  induction fs generalizing gs with
  | nil => cases gs with
    | nil => cases hg
    | cons g' t => exact h.elim
  | cons f t ih => cases gs with
    | nil => exact h.elim
    | cons g' t' =>
      rcases List.mem_cons.mp hg with rfl | hg'
      · exact ⟨f, by simp, h.1⟩
      · obtain ⟨f', hf', he⟩ := ih h.2 hg'
        exact ⟨f', by simp [hf'], he⟩

theorem mem_enum_zip {α β} (l : List α) (m : List β) (k : Nat) (h1 : k < l.length) (h2 : k < m.length) :
    (k, l[k], m[k]) ∈ enum (l.zip m) := by
  unfold enum
  have hz : k < (l.zip m).length := by simp [List.length_zip]; omega
  have : (k, (l.zip m)[k]) ∈ (List.range (l.zip m).length).zip (l.zip m) := by
    rw [List.mem_iff_getElem]
    refine ⟨k, by simp [List.length_zip]; omega, ?_⟩
    simp
  simpa using this

theorem FileEq.npz {f : File} {p : Path} {l : Laser} (h : FileEq f ⟨p, .npz l⟩) :
    f.path = p ∧ ∃ m, f.content = .npz m ∧ LaserEq m l := by
  obtain ⟨hp, hc⟩ := h
  refine ⟨hp, ?_⟩
  cases hf : f.content with
  | npz m => rw [hf] at hc; exact ⟨m, rfl, hc⟩
  | csv g => rw [hf] at hc; exact hc.elim
  | vtk m => rw [hf] at hc; exact hc.elim

theorem FileEq.vtk {f : File} {p : Path} {l : Laser} (h : FileEq f ⟨p, .vtk l⟩) :
    f.path = p ∧ ∃ m, f.content = .vtk m ∧ LaserEq m l := by
  obtain ⟨hp, hc⟩ := h
  refine ⟨hp, ?_⟩
  cases hf : f.content with
  | npz m => rw [hf] at hc; exact hc.elim
  | csv g => rw [hf] at hc; exact hc.elim
  | vtk m => rw [hf] at hc; exact ⟨m, rfl, hc⟩

theorem FileEq.csv {f : File} {p : Path} {g : Grid Tok} (h : FileEq f ⟨p, .csv g⟩) :
    f.path = p ∧ ∃ g', f.content = .csv g' ∧ GridEq g' g := by
  obtain ⟨hp, hc⟩ := h
  refine ⟨hp, ?_⟩
  cases hf : f.content with
  | npz m => rw [hf] at hc; exact hc.elim
  | csv g' => rw [hf] at hc; exact ⟨g', rfl, hc⟩
  | vtk m => rw [hf] at hc; exact hc.elim

theorem written_of_specFiles (fs : List File) (format : String) (l : Laser) (out : Path)
    (h : ∀ g ∈ specFiles format l out, ∃ f ∈ fs, FileEq f g) : Written fs format l out := by
  refine ⟨?_, ?_, ?_⟩
  · rintro rfl
    obtain ⟨f, hf, he⟩ := h ⟨out, .npz l⟩ (by simp [specFiles])
    exact ⟨f, hf, he.npz⟩
  · rintro rfl
    obtain ⟨f, hf, he⟩ := h ⟨out, .vtk l⟩ (by simp [specFiles])
    exact ⟨f, hf, he.vtk⟩
  · rintro rfl n hn
    obtain ⟨f, hf, he⟩ := h ⟨{ out with stem := out.stem ++ "_" ++ n }, .csv (l.field n)⟩
      (by simp only [specFiles, if_true]; exact List.mem_map.mpr ⟨n, hn, rfl⟩)
    exact ⟨f, hf, he.csv⟩

end Pew.Cli
