import PewProofs.Sync

/-! # C08 — the rendered acquisition: clock chain, sample times, sample indices -/
namespace Pew.Sync

/-! ## time of a slot sample -/

theorem slot_bounds (phase : Rat) (h0 : 0 < phase) (h1 : phase < 1) (start len k j : Nat) (hj : j < k)
    (hlen : 0 < len) :
    (start : Rat) < (start : Rat) + ((j : Rat) + phase) * ((len : Rat) / (k : Rat)) ∧
    (start : Rat) + ((j : Rat) + phase) * ((len : Rat) / (k : Rat)) < ((start + len : Nat) : Rat) := by
  have hk : (0 : Rat) < (k : Rat) := by exact_mod_cast (by omega : 0 < k)
  have hl : (0 : Rat) < (len : Rat) := by exact_mod_cast hlen
  have hu : (0 : Rat) < (len : Rat) / (k : Rat) := div_pos hl hk
  have hj0 : (0 : Rat) ≤ (j : Rat) := by exact_mod_cast Nat.zero_le j
  have hjk : (j : Rat) + 1 ≤ (k : Rat) := by exact_mod_cast hj
  have hku : (k : Rat) * ((len : Rat) / (k : Rat)) = (len : Rat) := by field_simp
  constructor
  · have : 0 < ((j : Rat) + phase) * ((len : Rat) / (k : Rat)) := mul_pos (by linarith) hu
    linarith
  · have : ((j : Rat) + phase) * ((len : Rat) / (k : Rat)) < (k : Rat) * ((len : Rat) / (k : Rat)) :=
      mul_lt_mul_of_pos_right (by linarith) hu
    push_cast
    linarith

theorem slot_mono (phase : Rat) (start len k i j : Nat) (hij : i < j) (hj : j < k) (hlen : 0 < len) :
    (start : Rat) + ((i : Rat) + phase) * ((len : Rat) / (k : Rat)) <
    (start : Rat) + ((j : Rat) + phase) * ((len : Rat) / (k : Rat)) := by
  have hk : (0 : Rat) < (k : Rat) := by exact_mod_cast (by omega : 0 < k)
  have hl : (0 : Rat) < (len : Rat) := by exact_mod_cast hlen
  have hu : (0 : Rat) < (len : Rat) / (k : Rat) := div_pos hl hk
  have hij' : (i : Rat) < (j : Rat) := by exact_mod_cast hij
  have := mul_lt_mul_of_pos_right (show (i : Rat) + phase < (j : Rat) + phase by linarith) hu
  linarith

theorem slotSamples_length (phase : Rat) (start len k : Nat) (cell : Nat → Option (Int × Int × Int)) :
    (slotSamples phase start len k cell).length = k := by
  simp [slotSamples]

theorem slotSamples_getElem? (phase : Rat) (start len k : Nat) (cell : Nat → Option (Int × Int × Int)) (j : Nat)
    (hj : j < k) :
    (slotSamples phase start len k cell)[j]? =
      some { t := (start : Rat) + ((j : Rat) + phase) * ((len : Rat) / (k : Rat)), cell := cell j } := by
  simp [slotSamples, List.getElem?_map, List.getElem?_range hj]

theorem mem_slotSamples (phase : Rat) (start len k : Nat) (cell : Nat → Option (Int × Int × Int)) (s : Sample)
    (h : s ∈ slotSamples phase start len k cell) :
    ∃ j, j < k ∧ s = { t := (start : Rat) + ((j : Rat) + phase) * ((len : Rat) / (k : Rat)), cell := cell j } := by
  simp only [slotSamples, List.mem_map, List.mem_range] at h
  obtain ⟨j, hj, rfl⟩ := h
  exact ⟨j, hj, rfl⟩

theorem slotSamples_sorted (phase : Rat) (start len k : Nat) (cell : Nat → Option (Int × Int × Int))
    (hlen : 0 < len) :
    (slotSamples phase start len k cell).Pairwise (fun a b => a.t < b.t) := by
  unfold slotSamples
  rw [List.pairwise_map]
  have hr : (List.range k).Pairwise (fun a b => a < b ∧ b < k) := by
    have h1 : (List.range k).Pairwise (· < ·) := List.pairwise_lt_range
    have h2 : ∀ x ∈ List.range k, x < k := fun x hx => List.mem_range.mp hx
    exact (List.Pairwise.and_mem.mp h1).imp (fun ⟨_, hb, hab⟩ => ⟨hab, h2 _ hb⟩)
  exact hr.imp (fun ⟨hab, hb⟩ => slot_mono phase start len k _ _ hab hb hlen)

/-! ## samples of one line -/

section line
variable (phase : Rat) (h0 : 0 < phase) (h1 : phase < 1)
include h0 h1

theorem gapS_bounds (l : LineRec) (s : Sample) (h : s ∈ l.gapS phase) :
    (l.clock : Rat) < s.t ∧ s.t < (l.on : Rat) ∧ s.cell = none := by
  obtain ⟨j, hj, rfl⟩ := mem_slotSamples _ _ _ _ _ _ h
  have hg : 0 < l.ln.gap := by
    unfold LineRec.gapCount at hj
    split at hj <;> omega
  have := slot_bounds phase h0 h1 l.clock l.ln.gap l.gapCount j hj hg
  exact ⟨this.1, this.2, rfl⟩

theorem pixS_bounds (l : LineRec) (hd : 0 < l.p.dwell) (s : Sample) (h : s ∈ l.pixS phase) :
    (l.on : Rat) < s.t ∧ s.t < (l.off : Rat) := by
  obtain ⟨j, hj, rfl⟩ := mem_slotSamples _ _ _ _ _ _ h
  have hlen : 0 < l.p.npix * l.p.dwell := Nat.mul_pos (by omega) hd
  exact slot_bounds phase h0 h1 l.on (l.p.npix * l.p.dwell) l.p.npix j hj hlen

theorem samples_bounds (l : LineRec) (hd : 0 < l.p.dwell) (s : Sample) (h : s ∈ l.samples phase) :
    (l.clock : Rat) < s.t ∧ s.t < (l.off : Rat) := by
  have hon : (l.clock : Rat) ≤ (l.on : Rat) := by
    unfold LineRec.on; exact_mod_cast Nat.le_add_right _ _
  have hoff : (l.on : Rat) ≤ (l.off : Rat) := by
    unfold LineRec.off; exact_mod_cast Nat.le_add_right _ _
  rcases List.mem_append.mp h with hg | hp
  · have := gapS_bounds phase h0 h1 l s hg
    exact ⟨this.1, by linarith [this.2.1]⟩
  · have := pixS_bounds phase h0 h1 l hd s hp
    exact ⟨by linarith [this.1], this.2⟩

theorem samples_sorted (l : LineRec) (hd : 0 < l.p.dwell) :
    (l.samples phase).Pairwise (fun a b => a.t < b.t) := by
  unfold LineRec.samples
  rw [List.pairwise_append]
  refine ⟨?_, ?_, ?_⟩
  · by_cases hg : l.ln.gap = 0
    · have : l.gapS phase = [] := by simp [LineRec.gapS, LineRec.gapCount, hg, slotSamples]
      rw [this]; exact List.Pairwise.nil
    · exact slotSamples_sorted _ _ _ _ _ (by omega)
  · by_cases hn : l.p.npix = 0
    · have : l.pixS phase = [] := by simp [LineRec.pixS, hn, slotSamples]
      rw [this]; exact List.Pairwise.nil
    · exact slotSamples_sorted _ _ _ _ _ (Nat.mul_pos (by omega) hd)
  · intro a ha b hb
    have := gapS_bounds phase h0 h1 l a ha
    have := pixS_bounds phase h0 h1 l hd b hb
    linarith

end line

theorem samples_length (phase : Rat) (l : LineRec) : (l.samples phase).length = l.gapCount + l.p.npix := by
  simp [LineRec.samples, LineRec.gapS, LineRec.pixS, slotSamples_length]

theorem gapS_length (phase : Rat) (l : LineRec) : (l.gapS phase).length = l.gapCount := by
  simp [LineRec.gapS, slotSamples_length]

theorem pixS_length (phase : Rat) (l : LineRec) : (l.pixS phase).length = l.p.npix := by
  simp [LineRec.pixS, slotSamples_length]

theorem pixS_cell (phase : Rat) (l : LineRec) (j : Nat) (hj : j < l.p.npix) :
    ∃ s, (l.pixS phase)[j]? = some s ∧
      s.cell = some (l.p.seq, (l.p.stepCell l.i j).1, (l.p.stepCell l.i j).2) := by
  refine ⟨_, slotSamples_getElem? _ _ _ _ _ j hj, rfl⟩

/-! ## the clock chain -/

/-- the lines follow one another without a pause: each starts (with its gap) when the previous one
ends -/
def chained : Nat → List LineRec → Prop
  | _, [] => True
  | c, l :: rest => l.clock = c ∧ chained l.off rest

def lastClock : Nat → List LineRec → Nat
  | c, [] => c
  | _, l :: rest => lastClock l.off rest

theorem lastClock_append (c : Nat) (A B : List LineRec) :
    lastClock c (A ++ B) = lastClock (lastClock c A) B := by
  induction A generalizing c with
  | nil => rfl
  | cons l rest ih => simp [lastClock, ih]

theorem chained_append (c : Nat) (A B : List LineRec) :
    chained c (A ++ B) ↔ chained c A ∧ chained (lastClock c A) B := by
  induction A generalizing c with
  | nil => simp [chained, lastClock]
  | cons l rest ih => simp [chained, lastClock, ih, and_assoc]

theorem clock_le_off (l : LineRec) : l.clock ≤ l.off := by
  unfold LineRec.off LineRec.on; omega

theorem on_le_off (l : LineRec) : l.on ≤ l.off := by
  unfold LineRec.off; omega

theorem clock_le_on (l : LineRec) : l.clock ≤ l.on := by
  unfold LineRec.on; omega

theorem chained_le (c : Nat) (L : List LineRec) (h : chained c L) :
    c ≤ lastClock c L ∧ ∀ l ∈ L, c ≤ l.clock ∧ l.off ≤ lastClock c L := by
  induction L generalizing c with
  | nil => simp [lastClock]
  | cons l rest ih =>
    obtain ⟨hc, hr⟩ := h
    have := ih l.off hr
    have hlo := clock_le_off l
    simp only [lastClock, List.mem_cons, forall_eq_or_imp]
    refine ⟨by omega, ⟨by omega, this.1⟩, ?_⟩
    intro l' hl'
    have := this.2 l' hl'
    omega

theorem layLines_chained (p : Pattern) (i c : Nat) (lns : List LineSpec) :
    chained c (layLines p i c lns) ∧ lastClock c (layLines p i c lns) = linesEnd p c lns := by
  induction lns generalizing i c with
  | nil => simp [layLines, chained, lastClock, linesEnd]
  | cons ln rest ih =>
    simp only [layLines, chained, lastClock, linesEnd, true_and]
    have := ih (i + 1) (c + ln.gap + p.npix * p.dwell)
    simpa [LineRec.off, LineRec.on] using this

theorem layPatterns_chained (c : Nat) (ps : List Pattern) :
    chained c ((layPatterns c ps).flatMap (·.lines)) ∧
      lastClock c ((layPatterns c ps).flatMap (·.lines)) = patsEnd c ps := by
  induction ps generalizing c with
  | nil => simp [layPatterns, chained, lastClock, patsEnd]
  | cons p rest ih =>
    simp only [layPatterns, List.flatMap_cons, patsEnd]
    have h1 := layLines_chained p 0 c p.lines
    have h2 := ih (linesEnd p c p.lines)
    rw [chained_append, lastClock_append, h1.2]
    exact ⟨⟨h1.1, h2.1⟩, h2.2⟩

/-! ## membership in the layout -/

theorem mem_layLines (p : Pattern) (i c : Nat) (lns : List LineSpec) (l : LineRec) (h : l ∈ layLines p i c lns) :
    l.p = p ∧ i ≤ l.i ∧ l.i < i + lns.length := by
  induction lns generalizing i c with
  | nil => simp [layLines] at h
  | cons ln rest ih =>
    simp only [layLines, List.mem_cons] at h
    rcases h with h | h
    · subst h; simp
    · have := ih (i + 1) _ h
      simp only [List.length_cons]
      exact ⟨this.1, by omega, by omega⟩

theorem layPatterns_p (c : Nat) (ps : List Pattern) : (layPatterns c ps).map (·.p) = ps := by
  induction ps generalizing c with
  | nil => rfl
  | cons p rest ih => simp [layPatterns, ih]

theorem mem_layPatterns (c : Nat) (ps : List Pattern) (b : PatRec) (h : b ∈ layPatterns c ps) :
    b.p ∈ ps ∧ ∃ c', b.lines = layLines b.p 0 c' b.p.lines ∧ b.clock = c' := by
  induction ps generalizing c with
  | nil => simp [layPatterns] at h
  | cons p rest ih =>
    simp only [layPatterns, List.mem_cons] at h
    rcases h with h | h
    · subst h; exact ⟨by simp, c, rfl, rfl⟩
    · have := ih _ h
      exact ⟨by simp [this.1], this.2⟩

theorem mem_recs_lines (a : Acq) (b : PatRec) (hb : b ∈ a.recs) (l : LineRec) (hl : l ∈ b.lines) :
    l.p = b.p ∧ b.p ∈ a.patterns ∧ l.i < b.p.lines.length := by
  obtain ⟨hp, c', hl', _⟩ := mem_layPatterns 0 a.patterns b hb
  rw [hl'] at hl
  have := mem_layLines _ _ _ _ l hl
  exact ⟨this.1, hp, by omega⟩

theorem mem_lines (a : Acq) (l : LineRec) (hl : l ∈ a.lines) :
    l.p ∈ a.patterns ∧ l.i < l.p.lines.length := by
  unfold Acq.lines at hl
  obtain ⟨b, hb, hlb⟩ := List.mem_flatMap.mp hl
  have := mem_recs_lines a b hb l hlb
  rw [this.1]; exact ⟨this.2.1, this.2.2⟩

/-! ## all samples: sortedness, brackets -/

section chain
variable (phase : Rat) (h0 : 0 < phase) (h1 : phase < 1)
include h0 h1

theorem chain_bounds (c : Nat) (L : List LineRec) (hc : chained c L) (hd : ∀ l ∈ L, 0 < l.p.dwell)
    (s : Sample) (hs : s ∈ L.flatMap (LineRec.samples phase)) :
    (c : Rat) < s.t ∧ s.t < (lastClock c L : Rat) := by
  obtain ⟨l, hl, hsl⟩ := List.mem_flatMap.mp hs
  have hb := samples_bounds phase h0 h1 l (hd l hl) s hsl
  have := (chained_le c L hc).2 l hl
  have e1 : (c : Rat) ≤ (l.clock : Rat) := by exact_mod_cast this.1
  have e2 : (l.off : Rat) ≤ (lastClock c L : Rat) := by exact_mod_cast this.2
  exact ⟨by linarith [hb.1], by linarith [hb.2]⟩

theorem chain_sorted (c : Nat) (L : List LineRec) (hc : chained c L) (hd : ∀ l ∈ L, 0 < l.p.dwell) :
    (L.flatMap (LineRec.samples phase)).Pairwise (fun a b => a.t < b.t) := by
  induction L generalizing c with
  | nil => simp
  | cons l rest ih =>
    obtain ⟨hcl, hr⟩ := hc
    rw [List.flatMap_cons, List.pairwise_append]
    refine ⟨samples_sorted phase h0 h1 l (hd l (by simp)), ih l.off hr (fun l' hl' => hd l' (by simp [hl'])), ?_⟩
    intro a ha b hb
    have h1' := samples_bounds phase h0 h1 l (hd l (by simp)) a ha
    have h2' := chain_bounds phase h0 h1 l.off rest hr (fun l' hl' => hd l' (by simp [hl'])) b hb
    linarith [h1'.2, h2'.1]

end chain

/-! ## sample indices: prefix sums -/

theorem lineStarts_mem (s0 : Nat) (L : List LineRec) (lP : LineRec × Nat) (h : lP ∈ lineStarts s0 L) :
    lP.1 ∈ L ∧ s0 ≤ lP.2 := by
  induction L generalizing s0 with
  | nil => simp [lineStarts] at h
  | cons l rest ih =>
    simp only [lineStarts, List.mem_cons] at h
    rcases h with h | h
    · subst h; simp
    · have := ih _ h
      exact ⟨by simp [this.1], by omega⟩

theorem lineStarts_of_mem (s0 : Nat) (L : List LineRec) (l : LineRec) (h : l ∈ L) :
    ∃ P, (l, P) ∈ lineStarts s0 L := by
  induction L generalizing s0 with
  | nil => simp at h
  | cons l' rest ih =>
    rcases List.mem_cons.mp h with h | h
    · subst h; exact ⟨s0 + l.gapCount, by simp [lineStarts]⟩
    · obtain ⟨P, hP⟩ := ih (s0 + l'.gapCount + l'.p.npix) h
      exact ⟨P, by simp [lineStarts, hP]⟩

theorem flatMap_samples_length_cons (phase : Rat) (l : LineRec) :
    (l.samples phase).length = l.gapCount + l.p.npix := samples_length phase l

section index
variable (phase : Rat) (h0 : 0 < phase) (h1 : phase < 1)
include h0 h1

/-- a laser event of a line splits the sample list at the line's prefix sum: the samples before the
`On` time are exactly those with an index below the line's first pixel sample, the samples before
the `Off` time exactly those below its last pixel sample plus one -/
theorem layout_times (L : List LineRec) (c s0 : Nat) (hc : chained c L) (hd : ∀ l ∈ L, 0 < l.p.dwell)
    (tl : List Sample) (htl : ∀ s ∈ tl, (lastClock c L : Rat) < s.t)
    (lP : LineRec × Nat) (hlP : lP ∈ lineStarts s0 L) (n : Nat) (s : Sample)
    (hs : (L.flatMap (LineRec.samples phase) ++ tl)[n]? = some s) :
    (s.t < (lP.1.on : Rat) ↔ n + s0 < lP.2) ∧ (s.t < (lP.1.off : Rat) ↔ n + s0 < lP.2 + lP.1.p.npix) := by
  induction L generalizing c s0 n with
  | nil => simp [lineStarts] at hlP
  | cons l rest ih =>
    obtain ⟨hcl, hr⟩ := hc
    have hdr : ∀ l' ∈ rest, 0 < l'.p.dwell := fun l' hl' => hd l' (by simp [hl'])
    have hdl : 0 < l.p.dwell := hd l (by simp)
    simp only [lastClock] at htl
    have hlast := chained_le l.off rest hr
    rw [List.flatMap_cons, List.append_assoc] at hs
    simp only [lineStarts, List.mem_cons] at hlP
    have hlen := samples_length phase l
    have honoff : (l.on : Rat) ≤ (l.off : Rat) := by exact_mod_cast on_le_off l
    rcases hlP with hlP | hlP
    · subst hlP
      simp only
      rw [List.getElem?_append] at hs
      split at hs
      · rename_i hn
        -- inside this line
        unfold LineRec.samples at hs
        rw [List.getElem?_append] at hs
        rw [gapS_length] at hs
        split at hs
        · rename_i hg
          have := gapS_bounds phase h0 h1 l s (List.mem_of_getElem? hs)
          constructor
          · constructor
            · intro _; omega
            · intro _; exact this.2.1
          · constructor
            · intro _; omega
            · intro _; linarith [this.2.1]
        · rename_i hg
          have := pixS_bounds phase h0 h1 l hdl s (List.mem_of_getElem? hs)
          rw [hlen] at hn
          constructor
          · constructor
            · intro h; linarith [this.1]
            · intro h; omega
          · constructor
            · intro _; omega
            · intro _; exact this.2
      · rename_i hn
        rw [hlen] at hn
        have hm := List.mem_of_getElem? hs
        have hgt : (l.off : Rat) < s.t := by
          rcases List.mem_append.mp hm with h | h
          · exact (chain_bounds phase h0 h1 l.off rest hr hdr s h).1
          · have e : (l.off : Rat) ≤ (lastClock l.off rest : Rat) := by exact_mod_cast hlast.1
            linarith [htl s h]
        constructor
        · constructor
          · intro h; linarith
          · intro h; omega
        · constructor
          · intro h; linarith
          · intro h; omega
    · have hmem := lineStarts_mem _ _ _ hlP
      have hle := hlast.2 lP.1 hmem.1
      have e1 : (l.off : Rat) ≤ (lP.1.clock : Rat) := by exact_mod_cast hle.1
      have e2 : (lP.1.clock : Rat) ≤ (lP.1.on : Rat) := by exact_mod_cast clock_le_on lP.1
      have e3 : (lP.1.on : Rat) ≤ (lP.1.off : Rat) := by exact_mod_cast on_le_off lP.1
      rw [List.getElem?_append] at hs
      split at hs
      · rename_i hn
        rw [hlen] at hn
        have := samples_bounds phase h0 h1 l hdl s (List.mem_of_getElem? hs)
        constructor
        · constructor
          · intro _; omega
          · intro _; linarith [this.2]
        · constructor
          · intro _; omega
          · intro _; linarith [this.2]
      · rename_i hn
        rw [hlen] at hn hs
        have := ih l.off (s0 + l.gapCount + l.p.npix) hr hdr htl hlP (n - (l.gapCount + l.p.npix)) hs
        have e : n - (l.gapCount + l.p.npix) + (s0 + l.gapCount + l.p.npix) = n + s0 := by omega
        rw [e] at this
        exact this

end index

/-- a sample with a stage cell is pixel `j` of a line, at index (prefix sum of the line) + `j` -/
theorem layout_cell_of_index (phase : Rat) (L : List LineRec) (s0 : Nat) (tl : List Sample)
    (htl : ∀ s ∈ tl, s.cell = none) (n : Nat) (s : Sample) (q : Int × Int × Int)
    (hs : (L.flatMap (LineRec.samples phase) ++ tl)[n]? = some s) (hq : s.cell = some q) :
    ∃ lP ∈ lineStarts s0 L, ∃ j, j < lP.1.p.npix ∧ n + s0 = lP.2 + j ∧
      q = (lP.1.p.seq, (lP.1.p.stepCell lP.1.i j).1, (lP.1.p.stepCell lP.1.i j).2) := by
  induction L generalizing s0 n with
  | nil =>
    simp only [List.flatMap_nil, List.nil_append] at hs
    rw [htl s (List.mem_of_getElem? hs)] at hq; simp at hq
  | cons l rest ih =>
    rw [List.flatMap_cons, List.append_assoc] at hs
    have hlen := samples_length phase l
    rw [List.getElem?_append] at hs
    split at hs
    · rename_i hn
      unfold LineRec.samples at hs
      rw [List.getElem?_append, gapS_length] at hs
      split at hs
      · rename_i hg
        obtain ⟨j, _, rfl⟩ := mem_slotSamples _ _ _ _ _ _ (List.mem_of_getElem? hs)
        simp at hq
      · rename_i hg
        rw [hlen] at hn
        obtain ⟨s', hs', hc'⟩ := pixS_cell phase l (n - l.gapCount) (by omega)
        rw [hs] at hs'
        cases hs'
        rw [hq] at hc'
        refine ⟨(l, s0 + l.gapCount), by simp [lineStarts], n - l.gapCount,
          (by show n - l.gapCount < l.p.npix; omega), (by show n + s0 = s0 + l.gapCount + (n - l.gapCount); omega), ?_⟩
        exact Option.some.inj hc'
    · rename_i hn
      rw [hlen] at hn hs
      obtain ⟨lP, hlP, j, hj, hnj, hqj⟩ := ih (s0 + l.gapCount + l.p.npix) (n - (l.gapCount + l.p.npix)) hs
      exact ⟨lP, by simp [lineStarts, hlP], j, hj, by omega, hqj⟩

/-- pixel `j` of a line is the sample at index (prefix sum of the line) + `j` -/
theorem layout_index_of_cell (phase : Rat) (L : List LineRec) (s0 : Nat) (tl : List Sample)
    (lP : LineRec × Nat) (hlP : lP ∈ lineStarts s0 L) (j : Nat) (hj : j < lP.1.p.npix) :
    s0 ≤ lP.2 ∧ ∃ s, (L.flatMap (LineRec.samples phase) ++ tl)[lP.2 + j - s0]? = some s ∧
      s.cell = some (lP.1.p.seq, (lP.1.p.stepCell lP.1.i j).1, (lP.1.p.stepCell lP.1.i j).2) := by
  induction L generalizing s0 with
  | nil => simp [lineStarts] at hlP
  | cons l rest ih =>
    have hlen := samples_length phase l
    simp only [lineStarts, List.mem_cons] at hlP
    rw [List.flatMap_cons, List.append_assoc]
    rcases hlP with hlP | hlP
    · subst hlP
      have hj' : j < l.p.npix := hj
      simp only
      refine ⟨by omega, ?_⟩
      obtain ⟨s, hs, hc⟩ := pixS_cell phase l j hj'
      refine ⟨s, ?_, hc⟩
      rw [List.getElem?_append, if_pos (by rw [hlen]; omega)]
      unfold LineRec.samples
      rw [List.getElem?_append, gapS_length, if_neg (by omega), ← hs]
      congr 1; omega
    · obtain ⟨hle, s, hs, hc⟩ := ih (s0 + l.gapCount + l.p.npix) hlP
      refine ⟨by omega, s, ?_, hc⟩
      rw [List.getElem?_append, if_neg (by rw [hlen]; omega), hlen, ← hs]
      congr 1; omega

end Pew.Sync
