import PewProofs.Imzml

/-! Helper lemmas for C05: empty slices, the `dense` class of `binned_masses`, `arange`'s last edge. -/
namespace Pew.Imzml

/-! ### a slice is empty exactly when the window holds no peak -/

theorem ssLeft_lt_ssLeft {mz : List Rat} {a b : Rat} (h : ssLeft mz a < ssLeft mz b) :
    ∃ m ∈ mz, a ≤ m ∧ m < b := by
  induction mz with
  | nil => simp [ssLeft] at h
  | cons m ms ih =>
    by_cases h1 : m < a
    · by_cases h2 : m < b
      · rw [ssLeft_cons_lt ms h1, ssLeft_cons_lt ms h2] at h
        obtain ⟨x, hx, hx'⟩ := ih (by omega)
        exact ⟨x, by simp [hx], hx'⟩
      · rw [ssLeft_cons_ge ms h2] at h; omega
    · by_cases h2 : m < b
      · exact ⟨m, by simp, by linarith, h2⟩
      · rw [ssLeft_cons_ge ms h2] at h; omega

theorem ssLeft_lt_length {mz : List Rat} {a : Rat} (h : ssLeft mz a < mz.length) : ∃ m ∈ mz, a ≤ m := by
  induction mz with
  | nil => simp at h
  | cons m ms ih =>
    by_cases h1 : m < a
    · rw [ssLeft_cons_lt ms h1] at h
      obtain ⟨x, hx, hx'⟩ := ih (by simpa using h)
      exact ⟨x, by simp [hx], hx'⟩
    · exact ⟨m, by simp, by linarith⟩

theorem peak_imp_ssLeft_lt {mz : List Rat} {a b : Rat} (hs : Incr mz) (h : ∃ m ∈ mz, a ≤ m ∧ m < b) :
    ssLeft mz a < ssLeft mz b := by
  induction mz with
  | nil => obtain ⟨m, hm, _⟩ := h; simp at hm
  | cons m ms ih =>
    obtain ⟨x, hx, hax, hxb⟩ := h
    have hgt := incr_head_lt hs
    have hmx : m ≤ x := by
      rcases List.mem_cons.mp hx with rfl | hx
      · exact le_refl _
      · exact le_of_lt (hgt x hx)
    have h2 : m < b := lt_of_le_of_lt hmx hxb
    by_cases h1 : m < a
    · rw [ssLeft_cons_lt ms h1, ssLeft_cons_lt ms h2]
      have hx' : x ∈ ms := by
        rcases List.mem_cons.mp hx with rfl | hx
        · linarith
        · exact hx
      have := ih (incr_tail hs) ⟨x, hx', hax, hxb⟩
      omega
    · rw [ssLeft_cons_ge ms h1, ssLeft_cons_lt ms h2]; omega

theorem windowSum_nonneg {mz it : List Rat} {lo hi : Rat} (hp : ∀ i ∈ it, 0 ≤ i) :
    0 ≤ windowSum mz it lo hi := by
  induction mz generalizing it with
  | nil => simp [windowSum]
  | cons m ms ih =>
    cases it with
    | nil => simp [windowSum]
    | cons i is =>
      simp only [windowSum]
      have h1 := ih (it := is) (fun j hj => hp j (by simp [hj]))
      have h2 := hp i (by simp)
      split <;> linarith

theorem windowSum_pos_of_peak {mz it : List Rat} {lo hi : Rat} (hlen : it.length = mz.length)
    (hp : ∀ i ∈ it, 0 < i) (h : ∃ m ∈ mz, lo ≤ m ∧ m < hi) : 0 < windowSum mz it lo hi := by
  induction mz generalizing it with
  | nil => obtain ⟨m, hm, _⟩ := h; simp at hm
  | cons m ms ih =>
    cases it with
    | nil => simp at hlen
    | cons i is =>
      simp only [windowSum]
      have hi0 := hp i (by simp)
      have hnn : 0 ≤ windowSum ms is lo hi := windowSum_nonneg (fun j hj => le_of_lt (hp j (by simp [hj])))
      by_cases hm : lo ≤ m ∧ m < hi
      · rw [if_pos hm]; linarith
      · rw [if_neg hm]
        obtain ⟨x, hx, hx'⟩ := h
        rcases List.mem_cons.mp hx with rfl | hx
        · exact absurd hx' hm
        · have := ih (it := is) (by simpa using hlen) (fun j hj => hp j (by simp [hj])) ⟨x, hx, hx'⟩
          linarith

theorem windowSum_zero_of_no_peak {mz it : List Rat} {lo hi : Rat} (h : ¬ ∃ m ∈ mz, lo ≤ m ∧ m < hi) :
    windowSum mz it lo hi = 0 := by
  induction mz generalizing it with
  | nil => simp [windowSum]
  | cons m ms ih =>
    cases it with
    | nil => simp [windowSum]
    | cons i is =>
      simp only [windowSum]
      have hm : ¬ (lo ≤ m ∧ m < hi) := fun hc => h ⟨m, by simp, hc⟩
      rw [if_neg hm, ih (fun ⟨x, hx, hx'⟩ => h ⟨x, by simp [hx], hx'⟩)]
      simp

/-! ### one spectrum, window by window -/

theorem extractSpectrum_nil (mz it : List Rat) : extractSpectrum mz it [] = [] := by
  simp [extractSpectrum, flatten, reduceat, evens, zeroEmpty]

theorem extractSpectrum_cons' (mz it : List Rat) (w : Rat × Rat) (rest : List (Rat × Rat)) :
    extractSpectrum mz it (w :: rest) = extractSpectrum mz it [w] ++ extractSpectrum mz it rest := by
  obtain ⟨lo, hi⟩ := w
  rw [extractSpectrum_cons, extractSpectrum_cons, extractSpectrum_nil]
  rfl

/-! ### `arange`: the last edge is at or above the stop minus one step -/

theorem arange_length (start stop step : Rat) :
    (arange start stop step).length = ((stop - start) / step).ceil.toNat := by
  simp [arange]

theorem arange_getLast (lo hi w : Rat) (hw : 0 < w) (h : lo ≤ hi) :
    ∃ n : Nat, (arange lo (hi + w) w).getLast? = some (lo + (n : Rat) * w) ∧
      (arange lo (hi + w) w).length = n + 1 ∧ hi ≤ lo + (n : Rat) * w ∧ lo + (n : Rat) * w < hi + w := by
  have hq : 1 ≤ (hi + w - lo) / w := by
    rw [le_div_iff₀ hw]; linarith
  have hc1 : (1 : Rat) ≤ (((hi + w - lo) / w).ceil : Rat) := le_trans hq Rat.le_ceil
  have hc : (1 : Int) ≤ ((hi + w - lo) / w).ceil := by exact_mod_cast hc1
  obtain ⟨n, hn⟩ : ∃ n : Nat, ((hi + w - lo) / w).ceil.toNat = n + 1 :=
    ⟨((hi + w - lo) / w).ceil.toNat - 1, by omega⟩
  have hcast : (((hi + w - lo) / w).ceil : Rat) = (n : Rat) + 1 := by
    have h1 : ((((hi + w - lo) / w).ceil.toNat : Int) : Rat) = (((hi + w - lo) / w).ceil : Rat) := by
      rw [Int.toNat_of_nonneg (by omega)]
    rw [hn] at h1
    push_cast at h1
    exact h1.symm
  -- q ≤ ⌈q⌉ = n + 1 and ⌈q⌉ < q + 1
  have hle : (hi + w - lo) / w ≤ (n : Rat) + 1 := by rw [← hcast]; exact Rat.le_ceil
  have hlt : (n : Rat) + 1 < (hi + w - lo) / w + 1 := by rw [← hcast]; exact Rat.ceil_lt
  have h1 : hi + w - lo ≤ ((n : Rat) + 1) * w := by rw [div_le_iff₀ hw] at hle; exact hle
  have h2 : (n : Rat) * w < hi + w - lo := by
    have : (n : Rat) < (hi + w - lo) / w := by linarith
    rwa [lt_div_iff₀ hw] at this
  refine ⟨n, ?_, ?_, by linarith, by linarith⟩
  · unfold arange
    rw [hn]
    simp [List.range_succ]
  · rw [arange_length, hn]

theorem arange_mem (start stop step : Rat) (b : Rat) (hb : b ∈ arange start stop step) :
    ∃ k : Nat, b = start + (k : Rat) * step := by
  unfold arange at hb
  obtain ⟨k, _, rfl⟩ := List.mem_map.mp hb
  exact ⟨k, rfl⟩

/-! ### what `dense` demands of a pixel -/

theorem denseIdx_last_lt (n : Nat) (idx : List Nat) (h : denseIdx n idx = true) :
    ∀ l, idx.getLast? = some l → l < n := by
  intro l hl
  exact denseIdx_lt n idx h l (List.mem_of_getLast? hl)

theorem denseIdx_chain (n : Nat) (mz : List Rat) (bins : List Rat)
    (h : denseIdx n (bins.map (ssLeft mz)) = true) :
    ∀ a b, [a, b] <:+: bins → ssLeft mz a < ssLeft mz b := by
  induction bins with
  | nil => intro a b hab; simp at hab
  | cons x r ih =>
    cases r with
    | nil =>
      intro a b hab
      have := hab.length_le
      simp at this
    | cons y r =>
      simp only [List.map_cons, denseIdx, Bool.and_eq_true, decide_eq_true_eq] at h
      intro a b hab
      rcases List.infix_cons_iff.mp hab with hp | hi
      · have : a = x ∧ b = y := by
          obtain ⟨t, ht⟩ := hp
          simp at ht
          exact ⟨ht.1, ht.2.1⟩
        rw [this.1, this.2]; exact h.1
      · exact ih (by simpa using h.2) a b hi

end Pew.Imzml
