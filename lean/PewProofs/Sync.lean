import PewModel.Sync
import Mathlib.Data.Rat.Floor
import Mathlib.Tactic.Linarith
import Mathlib.Tactic.Ring
import Mathlib.Tactic.FieldSimp
import Mathlib.Tactic.NormNum

/-! # C08 — helper lemmas for `PewModel.Sync` -/
namespace Pew.Sync

theorem floor_eq (q : Rat) : q.floor = ⌊q⌋ := rfl

theorem floor_eq_of (q : Rat) (z : Int) (h1 : (z : Rat) ≤ q) (h2 : q < (z : Rat) + 1) : q.floor = z := by
  rw [floor_eq]; exact Int.floor_eq_iff.mpr ⟨h1, h2⟩

/-- rounding to the nearest integer absorbs any perturbation below one half -/
theorem roundHalfEven_near (z : Int) (e : Rat) (h1 : -(1 / 2) < e) (h2 : e < 1 / 2) :
    roundHalfEven ((z : Rat) + e) = z := by
  unfold roundHalfEven
  by_cases he : 0 ≤ e
  · have hf : ((z : Rat) + e).floor = z := floor_eq_of _ _ (by linarith) (by linarith)
    simp only [hf]
    rw [if_pos (by linarith)]
  · have he' : e < 0 := lt_of_not_ge he
    have hf : ((z : Rat) + e).floor = z - 1 := floor_eq_of _ _ (by push_cast; linarith) (by push_cast; linarith)
    simp only [hf]
    have hr : (z : Rat) + e - ((z - 1 : Int) : Rat) = 1 + e := by push_cast; ring
    rw [hr, if_neg (by linarith), if_pos (by linarith)]
    omega

theorem truncR_int (z : Int) : truncR (z : Rat) = z := by
  unfold truncR
  by_cases h : 0 ≤ (z : Rat)
  · rw [if_pos h]; exact floor_eq_of _ _ le_rfl (by linarith)
  · rw [if_neg h]
    have : (-(z : Rat)).floor = -z := floor_eq_of _ _ (by push_cast; exact le_rfl) (by push_cast; linarith)
    rw [this]; omega


/-! ## lists -/

theorem mem_zip_iff' {β γ} {A : List β} {B : List γ} {a : β} {b : γ} :
    (a, b) ∈ A.zip B ↔ ∃ i : Nat, A[i]? = some a ∧ B[i]? = some b := by
  rw [List.mem_iff_getElem?]
  simp [List.getElem?_zip_eq_some]

theorem cells_getElem? (lo : Int) (L j : Nat) :
    ((List.range L).map (fun (i : Nat) => lo + (i : Int)))[j]? = if j < L then some (lo + (j : Int)) else none := by
  simp [List.getElem?_map]
  split <;> simp_all

theorem cells_nodup (lo : Int) (L : Nat) : ((List.range L).map (fun (i : Nat) => lo + (i : Int))).Nodup := by
  unfold List.Nodup
  rw [List.pairwise_map]
  exact (List.nodup_range (n := L)).imp (fun h => by intro h'; apply h; omega)

theorem map_fst_zip_sublist' {β γ} (A : List β) (B : List γ) : List.Sublist ((A.zip B).map Prod.fst) A := by
  induction A generalizing B with
  | nil => simp
  | cons a as ih =>
    cases B with
    | nil => simp
    | cons b bs => simp [ih bs]

/-! ## placement of one line -/

theorem mem_place1 {α} (lo hi : Int) (hle : lo ≤ hi) (flip : Bool) (xs : List α) (c : Int) (v : α) :
    (c, v) ∈ place1 lo hi flip xs ↔
      ∃ k : Nat, k < min xs.length (hi - lo).toNat ∧
        c = travelCell lo hi flip ((hi - lo).toNat - 1 - k) ∧ xs[xs.length - 1 - k]? = some v := by
  unfold place1 travelCell
  generalize hL : (hi - lo).toNat = L
  have hhi : hi = lo + (L : Int) := by omega
  simp only []
  cases flip with
  | true =>
    simp only [if_true]
    rw [mem_zip_iff']
    constructor
    · rintro ⟨i, h1, h2⟩
      rw [List.getElem?_take] at h1 h2
      split at h1
      · rename_i hi'
        rw [if_pos hi'] at h2
        rw [cells_getElem?] at h1
        split at h1
        · rename_i hiL
          rw [List.getElem?_reverse (by omega)] at h2
          refine ⟨i, by omega, ?_, h2⟩
          simp at h1; omega
        · simp at h1
      · simp at h1
    · rintro ⟨k, hk, hc, hv⟩
      refine ⟨k, ?_, ?_⟩
      · rw [List.getElem?_take, if_pos hk, cells_getElem?, if_pos (by omega)]
        simp; omega
      · rw [List.getElem?_take, if_pos hk, List.getElem?_reverse (by omega)]; exact hv
  | false =>
    simp only [Bool.false_eq_true, if_false]
    by_cases hn : min xs.length L = 0
    · rw [if_pos hn]; simp; intro k hk; omega
    · rw [if_neg hn, mem_zip_iff']
      unfold lastN
      simp only [List.length_map, List.length_range]
      constructor
      · rintro ⟨i, h1, h2⟩
        rw [List.getElem?_drop] at h1 h2
        rw [cells_getElem?] at h1
        split at h1
        · rename_i hiL
          have hi2 : xs.length - min xs.length L + i < xs.length := by
            by_contra hcon
            rw [List.getElem?_eq_none (by omega)] at h2; simp at h2
          refine ⟨min xs.length L - 1 - i, by omega, ?_, ?_⟩
          · simp at h1; omega
          · rw [← h2]; congr 1; omega
        · simp at h1
      · rintro ⟨k, hk, hc, hv⟩
        refine ⟨min xs.length L - 1 - k, ?_, ?_⟩
        · rw [List.getElem?_drop, cells_getElem?, if_pos (by omega)]
          simp; omega
        · rw [List.getElem?_drop, ← hv]; congr 1; omega

/-- no pixel is assigned twice within one line -/
theorem place1_keys_nodup {α} (lo hi : Int) (flip : Bool) (xs : List α) :
    ((place1 lo hi flip xs).map Prod.fst).Nodup := by
  unfold place1
  simp only []
  have hc := cells_nodup lo (hi - lo).toNat
  split
  · exact (map_fst_zip_sublist' _ _).nodup ((List.take_sublist _ _).nodup hc)
  · split
    · simp
    · exact (map_fst_zip_sublist' _ _).nodup ((List.drop_sublist _ _).nodup hc)

/-! ## searchsorted on sorted times -/

theorem searchsorted_cons (x : Rat) (xs : List Rat) (v : Rat) :
    searchsorted (x :: xs) v = (if x < v then 1 else 0) + searchsorted xs v := by
  unfold searchsorted
  by_cases h : x < v
  · simp [h]; omega
  · simp [h]

theorem searchsorted_zero_of_le (xs : List Rat) (v : Rat) (h : ∀ t ∈ xs, v ≤ t) : searchsorted xs v = 0 := by
  unfold searchsorted
  rw [List.length_eq_zero_iff, List.filter_eq_nil_iff]
  intro t ht
  have := h t ht
  simp only [decide_eq_true_eq]
  exact not_lt.mpr this

/-- on a sorted list the entries below `v` are exactly the first `searchsorted l v` entries -/
theorem lt_searchsorted_iff (l : List Rat) (hs : l.Pairwise (· ≤ ·)) (v : Rat) (k : Nat) (t : Rat)
    (hk : l[k]? = some t) : k < searchsorted l v ↔ t < v := by
  induction l generalizing k with
  | nil => simp at hk
  | cons x xs ih =>
    rw [searchsorted_cons]
    rw [List.pairwise_cons] at hs
    by_cases hx : x < v
    · rw [if_pos hx]
      cases k with
      | zero => simp at hk; subst hk; simp [hx]
      | succ k =>
        simp at hk
        rw [← ih hs.2 k hk]; omega
    · rw [if_neg hx]
      have hz : searchsorted xs v = 0 :=
        searchsorted_zero_of_le xs v (fun t ht => le_trans (not_lt.mp hx) (hs.1 t ht))
      rw [hz]
      cases k with
      | zero => simp at hk; subst hk; simp [hx]
      | succ k =>
        simp at hk
        have : t ∈ xs := List.mem_of_getElem? hk
        have := hs.1 t this
        simp; linarith [not_lt.mp hx]

theorem searchsorted_le_length (l : List Rat) (v : Rat) : searchsorted l v ≤ l.length := by
  unfold searchsorted; exact List.length_filter_le _ _

theorem mem_pySlice_range (n i j k : Nat) : k ∈ pySlice (List.range n) i j ↔ i ≤ k ∧ k < j ∧ k < n := by
  unfold pySlice
  rw [List.mem_iff_getElem?]
  constructor
  · rintro ⟨m, hm⟩
    rw [List.getElem?_take] at hm
    split at hm
    · rw [List.getElem?_drop] at hm
      have : i + m < n := by
        by_contra hcon
        rw [List.getElem?_eq_none (by simp; omega)] at hm; simp at hm
      rw [List.getElem?_range this] at hm
      simp at hm; omega
    · simp at hm
  · rintro ⟨h1, h2, h3⟩
    refine ⟨k - i, ?_⟩
    rw [List.getElem?_take, if_pos (by omega), List.getElem?_drop, List.getElem?_range (by omega)]
    simp; omega

theorem shiftTimes_sorted (ts : List Rat) (d : Rat) (hs : ts.Pairwise (· ≤ ·)) :
    (shiftTimes ts d).Pairwise (· ≤ ·) := by
  unfold shiftTimes
  simp only []
  rw [List.pairwise_map]
  exact hs.imp (fun h => by linarith)

theorem shiftTimes_getElem? (ts : List Rat) (d : Rat) (k : Nat) :
    (shiftTimes ts d)[k]? = (ts[k]?).map (fun t => t - minRat ts + d) := by
  unfold shiftTimes
  simp [List.getElem?_map]

/-! ## values written come from the sample ranges -/

theorem place1_values {α} (lo hi : Int) (flip : Bool) (xs : List α) (e : Int × α)
    (h : e ∈ place1 lo hi flip xs) : e.2 ∈ xs := by
  unfold place1 at h
  simp only [] at h
  split at h
  · have := (List.of_mem_zip h).2
    exact List.mem_reverse.mp (List.mem_of_mem_take this)
  · split at h
    · simp at h
    · exact List.mem_of_mem_drop (List.of_mem_zip h).2

theorem segWrites_values {α} (xs : List α) (g : Seg) (w : List ((Int × Int) × α))
    (h : segWrites xs g = some w) (e : (Int × Int) × α) (he : e ∈ w) : e.2 ∈ xs := by
  unfold segWrites at h
  split at h
  · simp at h; subst h
    simp at he
    obtain ⟨a, b, hab, rfl⟩ := he
    exact place1_values _ _ _ _ _ hab
  · split at h
    · simp at h; subst h
      simp at he
      obtain ⟨a, b, hab, rfl⟩ := he
      exact place1_values _ _ _ _ _ hab
    · simp at h

theorem allWrites_values (n : Nat) (segs : List Seg) (w : List ((Int × Int) × Nat))
    (h : allWrites n segs = some w) (e : (Int × Int) × Nat) (he : e ∈ w) :
    ∃ g ∈ segs, e.2 ∈ pySlice (List.range n) g.t0 g.t1 := by
  induction segs generalizing w with
  | nil => simp [allWrites] at h; subst h; simp at he
  | cons g gs ih =>
    simp only [allWrites, bind, Option.bind] at h
    cases h1 : segWrites (pySlice (List.range n) g.t0 g.t1) g with
    | none => simp [h1] at h
    | some w1 =>
      cases h2 : allWrites n gs with
      | none => simp [h1, h2] at h
      | some w2 =>
        simp [h1, h2, pure] at h
        subst h
        rcases List.mem_append.mp he with h' | h'
        · exact ⟨g, by simp, segWrites_values _ _ _ h1 e h'⟩
        · obtain ⟨g', hg', hv⟩ := ih w2 h2 h'
          exact ⟨g', by simp [hg'], hv⟩

theorem lookupLast_mem {α} (w : List ((Int × Int) × α)) (p : Int × Int) (v : α)
    (h : lookupLast w p = some v) : (p, v) ∈ w := by
  unfold lookupLast at h
  cases hf : w.reverse.find? (fun e => e.1 == p) with
  | none => simp [hf] at h
  | some e =>
    simp [hf] at h
    have hm := List.mem_of_find?_eq_some hf
    have hp := List.find?_some hf
    simp at hp
    rw [← h, ← hp]
    exact List.mem_reverse.mp hm

/-! ## lists of integers -/

theorem foldl_min_le (l : List Int) (a : Int) : l.foldl min a ≤ a ∧ ∀ x ∈ l, l.foldl min a ≤ x := by
  induction l generalizing a with
  | nil => simp
  | cons y ys ih =>
    simp only [List.foldl_cons, List.mem_cons, forall_eq_or_imp]
    have := ih (min a y)
    refine ⟨by omega, by omega, this.2⟩

theorem foldl_min_mem (l : List Int) (a : Int) : l.foldl min a = a ∨ l.foldl min a ∈ l := by
  induction l generalizing a with
  | nil => simp
  | cons y ys ih =>
    simp only [List.foldl_cons, List.mem_cons]
    rcases ih (min a y) with h | h
    · rw [h]; by_cases hay : a ≤ y
      · left; omega
      · right; left; omega
    · right; right; exact h

theorem minList_le (l : List Int) (x : Int) (hx : x ∈ l) : minList l ≤ x := by
  cases l with
  | nil => simp at hx
  | cons a as =>
    simp only [minList]
    rcases List.mem_cons.mp hx with h | h
    · subst h; exact (foldl_min_le as x).1
    · exact (foldl_min_le as a).2 x h

theorem minList_mem (l : List Int) (hne : l ≠ []) : minList l ∈ l := by
  cases l with
  | nil => exact absurd rfl hne
  | cons a as =>
    simp only [minList]
    rcases foldl_min_mem as a with h | h
    · rw [h]; simp
    · exact List.mem_cons_of_mem _ h

/-! ## forward fill of the sequence numbers -/

def fillRowsAux (acc : Int) : List Row → List Row
  | [] => []
  | r :: rs => setSeq r (if r.seq = -1 then max acc r.seq else r.seq) :: fillRowsAux (max acc r.seq) rs

theorem zipWith_fillAux (acc : Int) (rows : List Row) :
    List.zipWith setSeq rows (fillIntsAux acc (rows.map (·.seq))) = fillRowsAux acc rows := by
  induction rows generalizing acc with
  | nil => rfl
  | cons r rs ih => simp [fillIntsAux, fillRowsAux, ih]

theorem fillRowsAux_append (acc : Int) (a b : List Row) :
    fillRowsAux acc (a ++ b) = fillRowsAux acc a ++ fillRowsAux ((a.map (·.seq)).foldl max acc) b := by
  induction a generalizing acc with
  | nil => rfl
  | cons r rs ih => simp [fillRowsAux, ih]

theorem fillRowsAux_blank (acc : Int) (hacc : -1 ≤ acc) (body : List Row) (hb : ∀ r ∈ body, r.seq = -1) :
    fillRowsAux acc body = body.map (setSeq · acc) ∧ (body.map (·.seq)).foldl max acc = acc := by
  induction body with
  | nil => simp [fillRowsAux]
  | cons r rs ih =>
    have hr : r.seq = -1 := hb r (by simp)
    have hm : max acc r.seq = acc := by rw [hr]; omega
    have := ih (fun r' h' => hb r' (by simp [h']))
    constructor
    · simp only [fillRowsAux, hr, if_true, List.map_cons]
      have hm' : max acc (-1) = acc := by omega
      rw [hm', this.1]
    · simp only [List.map_cons, List.foldl_cons, hm]; exact this.2

/-! ## composition of lines into the image -/

theorem lookupLast_append {α} (a b : List ((Int × Int) × α)) (p : Int × Int) :
    lookupLast (a ++ b) p = (lookupLast b p).or (lookupLast a p) := by
  unfold lookupLast
  rw [List.reverse_append, List.find?_append]
  cases h : List.find? (fun e => e.1 == p) b.reverse <;> simp

theorem lookupLast_none_iff {α} (w : List ((Int × Int) × α)) (p : Int × Int) :
    lookupLast w p = none ↔ ∀ e ∈ w, e.1 ≠ p := by
  unfold lookupLast
  simp only [Option.map_eq_none_iff, List.find?_eq_none, List.mem_reverse]
  constructor
  · intro h e he; have := h e he; simpa using this
  · intro h e he; have := h e he; simpa using this

theorem unique_of_nodup_keys {α} (w : List ((Int × Int) × α)) (hnd : (w.map Prod.fst).Nodup) (p : Int × Int)
    (v v' : α) (h : (p, v) ∈ w) (h' : (p, v') ∈ w) : v = v' := by
  induction w with
  | nil => simp at h
  | cons e t ih =>
    simp only [List.map_cons, List.nodup_cons] at hnd
    rcases List.mem_cons.mp h with h1 | h1 <;> rcases List.mem_cons.mp h' with h2 | h2
    · rw [← h1] at h2; exact ((Prod.mk.inj h2).2).symm
    · exfalso; apply hnd.1; rw [← h1]; exact List.mem_map.mpr ⟨(p, v'), h2, rfl⟩
    · exfalso; apply hnd.1; rw [← h2]; exact List.mem_map.mpr ⟨(p, v), h1, rfl⟩
    · exact ih hnd.2 h1 h2

theorem lookupLast_of_mem {α} (w : List ((Int × Int) × α)) (hnd : (w.map Prod.fst).Nodup) (p : Int × Int) (v : α)
    (h : (p, v) ∈ w) : lookupLast w p = some v := by
  cases hl : lookupLast w p with
  | none =>
    have := (lookupLast_none_iff w p).mp hl (p, v) h
    exact absurd rfl this
  | some v' =>
    rw [unique_of_nodup_keys w hnd p v v' h (lookupLast_mem w p v' hl)]

theorem nodup_map_inj {β γ} (f : β → γ) (hf : ∀ a b, f a = f b → a = b) (l : List β) (h : l.Nodup) :
    (l.map f).Nodup := by
  unfold List.Nodup
  rw [List.pairwise_map]
  exact h.imp (fun hne hfe => hne (hf _ _ hfe))

theorem segWrites_keys_nodup {α} (xs : List α) (g : Seg) (w : List ((Int × Int) × α))
    (h : segWrites xs g = some w) : (w.map Prod.fst).Nodup := by
  unfold segWrites at h
  split at h
  · simp at h; subst h
    rw [List.map_map]
    have := place1_keys_nodup (min g.x0 g.x1) (max g.x0 g.x1) (decide (g.x1 < g.x0)) xs
    have e : (Prod.fst ∘ fun (e : Int × α) => ((g.y0, e.1), e.2)) = (fun c => (g.y0, c)) ∘ Prod.fst := by
      funext e; rfl
    rw [e, ← List.map_map]
    exact nodup_map_inj _ (fun a b hab => (Prod.mk.inj hab).2) _ this
  · split at h
    · simp at h; subst h
      rw [List.map_map]
      have := place1_keys_nodup (min g.y0 g.y1) (max g.y0 g.y1) (decide (g.y1 < g.y0)) xs
      have e : (Prod.fst ∘ fun (e : Int × α) => ((e.1, g.x0), e.2)) = (fun r => (r, g.x0)) ∘ Prod.fst := by
        funext e; rfl
      rw [e, ← List.map_map]
      exact nodup_map_inj _ (fun a b hab => (Prod.mk.inj hab).1) _ this
    · simp at h

theorem pySlice_range_getElem? (n i j k : Nat) (hj : j ≤ n) (hk : i + k < j) :
    (pySlice (List.range n) i j)[k]? = some (i + k) := by
  unfold pySlice
  rw [List.getElem?_take, if_pos (by omega), List.getElem?_drop, List.getElem?_range (by omega)]

theorem pySlice_range_length (n i j : Nat) (hj : j ≤ n) (hij : i ≤ j) :
    (pySlice (List.range n) i j).length = j - i := by
  unfold pySlice
  simp; omega



theorem squeezeImg_mem (isnan : Nat → Bool) (w : Nat) (img : List (List (Option Nat))) (row : List (Option Nat))
    (hrow : row ∈ (squeezeImg isnan w img).1) (k : Nat) (hk : some k ∈ row) :
    ∃ row' ∈ img, some k ∈ row' := by
  unfold squeezeImg at hrow
  simp only [List.mem_map, List.mem_filter] at hrow
  obtain ⟨r0, ⟨hr0, _⟩, rfl⟩ := hrow
  refine ⟨r0, hr0, ?_⟩
  obtain ⟨c, _, hc⟩ := List.mem_map.mp hk
  have : r0[c]? = some (some k) := by
    unfold List.getD at hc
    cases h : r0[c]? with
    | none => simp [h] at hc
    | some v => simp [h] at hc; rw [hc]
  exact List.mem_of_getElem? this

/-! ## proofs of the statements restated in `PewTheorems.C08` -/

theorem pixIdx_near (j : Nat) (δ : Rat) (h1 : -(5 / 10000000) < δ) (h2 : δ < 5 / 10000000) :
    pixIdx ((j : Rat) + δ) = (j : Int) := by
  unfold pixIdx round6
  have e : ((j : Rat) + δ) * 1000000 = (((j * 1000000 : Nat) : Int) : Rat) + δ * 1000000 := by
    push_cast; ring
  rw [e, roundHalfEven_near _ _ (by linarith) (by linarith)]
  have : ((((j * 1000000 : Nat) : Int) : Rat)) / 1000000 = ((j : Int) : Rat) := by
    push_cast; field_simp
  rw [this, truncR_int]

theorem pixIdx_aligned (o : Int) (u j : Nat) (hu : 0 < u) (δ : Rat)
    (h1 : -(5 / 10000000) < δ) (h2 : δ < 5 / 10000000) :
    pixIdx (quot o ((u : Rat) / 10000) (o + (j * u : Nat)) + δ) = (j : Int) := by
  have hq : quot o ((u : Rat) / 10000) (o + (j * u : Nat)) = (j : Rat) := by
    unfold quot
    have hu' : (u : Rat) ≠ 0 := by exact_mod_cast hu.ne'
    have : ((o + ((j * u : Nat) : Int) - o : Int) : Rat) = (j : Rat) * (u : Rat) := by push_cast; ring
    rw [this]; field_simp
  rw [hq]; exact pixIdx_near j δ h1 h2

theorem segWrites_spec {α} (xs : List α) (g : Seg) (hax : g.y0 = g.y1 ∨ g.x0 = g.x1) :
    ∃ w, segWrites xs g = some w ∧
      ∀ (p : Int × Int) (v : α), (p, v) ∈ w ↔
        ∃ k : Nat, k < min xs.length g.len ∧ p = g.cellAt (g.len - 1 - k) ∧ xs[xs.length - 1 - k]? = some v := by
  unfold segWrites Seg.len Seg.cellAt
  by_cases hy : g.y0 = g.y1
  · simp only [hy, if_true]
    refine ⟨_, rfl, ?_⟩
    intro p v
    obtain ⟨r, c⟩ := p
    simp only [List.mem_map, Prod.mk.injEq]
    have hlen : (max g.x0 g.x1 - min g.x0 g.x1).toNat = (g.x1 - g.x0).natAbs := by omega
    constructor
    · rintro ⟨⟨c', v'⟩, hm, ⟨rfl, rfl⟩, rfl⟩
      obtain ⟨k, hk, hc, hv⟩ := (mem_place1 _ _ (by omega) _ xs c' v').mp hm
      rw [hlen] at hk hc
      refine ⟨k, hk, ?_, hv⟩
      refine ⟨rfl, ?_⟩
      rw [hc]; unfold travelCell
      by_cases hf : g.x1 < g.x0
      · simp [hf]; rw [if_neg (by omega)]; omega
      · simp [hf]; rw [if_pos (by omega)]; omega
    · rintro ⟨k, hk, ⟨rfl, hc⟩, hv⟩
      refine ⟨(c, v), ?_, ⟨rfl, rfl⟩, rfl⟩
      apply (mem_place1 _ _ (by omega) _ xs c v).mpr
      rw [hlen]
      refine ⟨k, hk, ?_, hv⟩
      rw [hc]; unfold travelCell
      by_cases hf : g.x1 < g.x0
      · simp [hf]; rw [if_neg (by omega)]; omega
      · simp [hf]; rw [if_pos (by omega)]; omega
  · have hx : g.x0 = g.x1 := by rcases hax with h | h; exact absurd h hy; exact h
    simp only [hy, if_false, hx, if_true]
    refine ⟨_, rfl, ?_⟩
    intro p v
    obtain ⟨r, c⟩ := p
    simp only [List.mem_map, Prod.mk.injEq]
    have hlen : (max g.y0 g.y1 - min g.y0 g.y1).toNat = (g.y1 - g.y0).natAbs := by omega
    constructor
    · rintro ⟨⟨r', v'⟩, hm, ⟨rfl, rfl⟩, rfl⟩
      obtain ⟨k, hk, hc, hv⟩ := (mem_place1 _ _ (by omega) _ xs r' v').mp hm
      rw [hlen] at hk hc
      refine ⟨k, hk, ?_, hv⟩
      refine ⟨?_, rfl⟩
      rw [hc]; unfold travelCell
      by_cases hf : g.y1 < g.y0
      · simp [hf]; rw [if_neg (by omega)]; omega
      · simp [hf]; rw [if_pos (by omega)]; omega
    · rintro ⟨k, hk, ⟨hc, rfl⟩, hv⟩
      refine ⟨(r, v), ?_, ⟨rfl, rfl⟩, rfl⟩
      apply (mem_place1 _ _ (by omega) _ xs r v).mpr
      rw [hlen]
      refine ⟨k, hk, ?_, hv⟩
      rw [hc]; unfold travelCell
      by_cases hf : g.y1 < g.y0
      · simp [hf]; rw [if_neg (by omega)]; omega
      · simp [hf]; rw [if_pos (by omega)]; omega


theorem fill_blocks (bs : List Block)
    (hbody : ∀ b ∈ bs, ∀ r ∈ b.body, r.seq = -1)
    (hlow : ∀ b ∈ bs, -1 ≤ b.hdr.seq)
    (hinc : bs.Pairwise (fun a b => a.hdr.seq ≤ b.hdr.seq)) :
    List.zipWith setSeq (bs.flatMap Block.rows) (fillInts ((bs.flatMap Block.rows).map (·.seq)))
      = bs.flatMap (fun b => b.rows.map (setSeq · b.hdr.seq)) := by
  have key : ∀ (bs : List Block) (acc : Int), -1 ≤ acc → (∀ b ∈ bs, acc ≤ b.hdr.seq) →
      (∀ b ∈ bs, ∀ r ∈ b.body, r.seq = -1) → bs.Pairwise (fun a b => a.hdr.seq ≤ b.hdr.seq) →
      fillRowsAux acc (bs.flatMap Block.rows) = bs.flatMap (fun b => b.rows.map (setSeq · b.hdr.seq)) := by
    intro bs
    induction bs with
    | nil => intros; rfl
    | cons b rest ih =>
      intro acc hacc hle hbody hinc
      rw [List.pairwise_cons] at hinc
      have hb := hle b (by simp)
      simp only [List.flatMap_cons, Block.rows]
      rw [List.cons_append, fillRowsAux]
      have hm : max acc b.hdr.seq = b.hdr.seq := by omega
      have hhead : (if b.hdr.seq = -1 then max acc b.hdr.seq else b.hdr.seq) = b.hdr.seq := by
        split <;> omega
      rw [hhead, hm, fillRowsAux_append]
      have hblank := fillRowsAux_blank b.hdr.seq (by omega) b.body (hbody b (by simp))
      rw [hblank.1, hblank.2]
      rw [ih b.hdr.seq (by omega) (fun b' hb' => hinc.1 b' hb') (fun b' hb' => hbody b' (by simp [hb'])) hinc.2]
      simp [Block.rows]
  cases bs with
  | nil => rfl
  | cons b rest =>
    rw [List.pairwise_cons] at hinc
    have h0 := key (b :: rest) b.hdr.seq (hlow b (by simp))
      (by intro b' hb'; rcases List.mem_cons.mp hb' with h | h
          · subst h; exact le_refl _
          · exact hinc.1 b' h)
      hbody (List.pairwise_cons.mpr hinc)
    rw [← h0]
    simp only [List.flatMap_cons, Block.rows, List.cons_append, List.map_cons, fillInts, List.zipWith_cons_cons,
      fillRowsAux]
    rw [zipWith_fillAux]
    congr 1
    · simp [setSeq]
    · congr 1; omega

theorem select_blocks (bs : List Block) (sel : List Int)
    (hbody : ∀ b ∈ bs, ∀ r ∈ b.body, r.seq = -1)
    (hlow : ∀ b ∈ bs, -1 ≤ b.hdr.seq)
    (hinc : bs.Pairwise (fun a b => a.hdr.seq ≤ b.hdr.seq)) :
    selectRows (some sel) (bs.flatMap Block.rows)
      = (bs.filter (fun b => sel.contains b.hdr.seq)).flatMap (fun b => b.rows.map (setSeq · b.hdr.seq)) := by
  have hfill := fill_blocks bs hbody hlow hinc
  unfold selectRows
  simp only [hfill]
  clear hfill
  induction bs with
  | nil => rfl
  | cons b rest ih =>
    rw [List.pairwise_cons] at hinc
    simp only [List.flatMap_cons, List.filter_append, List.filter_cons]
    rw [ih (fun b' hb' => hbody b' (by simp [hb'])) (fun b' hb' => hlow b' (by simp [hb'])) hinc.2]
    by_cases hc : sel.contains b.hdr.seq = true
    · rw [if_pos hc, List.flatMap_cons]
      congr 1
      rw [List.filter_eq_self]
      intro r hr
      obtain ⟨r0, _, rfl⟩ := List.mem_map.mp hr
      simpa [setSeq] using hc
    · rw [if_neg hc]
      have : (b.rows.map (setSeq · b.hdr.seq)).filter (fun r => sel.contains r.seq) = [] := by
        rw [List.filter_eq_nil_iff]
        intro r hr
        obtain ⟨r0, _, rfl⟩ := List.mem_map.mp hr
        simpa [setSeq] using hc
      rw [this]; rfl


end Pew.Sync
