import PewProofs.RegisterPeak
/-! # C12 — helper lemmas for "register, then merge at the estimate"

`overlap_arrays` reads an input only inside its shape (`overlap_congr`), so an image that shows a scene from some
origin on, placed at that origin (`placed`), can be replaced by the window of the scene (`window`), for which
`merge_whole` holds. -/
namespace Pew.Register
open Pew.Overlap

/-- two inputs of `overlap_arrays` that cannot be told apart: same offset, same shape, same pixels inside the shape -/
def sameArr (a a' : Arr) : Prop :=
  a.off = a'.off ∧ a.shape = a'.shape ∧ ∀ q, inRange q a.shape = true → a.get q = a'.get q

theorem at_congr (a a' : Arr) (h : sameArr a a') (p : Idx) : a.at p = a'.at p := by
  obtain ⟨h1, h2, h3⟩ := h
  unfold Arr.at Arr.inside
  rw [← h1, ← h2]
  split
  · rename_i hin
    simp only [Bool.and_eq_true] at hin
    rw [h3 _ hin.2]
  · rfl

theorem mech_congr (m : Mode) (fill : V) (l l' : List Arr) (p : Idx)
    (h : l.map (fun a => a.at p) = l'.map (fun a => a.at p)) : mech m fill l p = mech m fill l' p := by
  unfold mech
  rw [foldl_point, foldl_point]
  have e : ∀ (L : List Arr) (c : Cell), L.foldl (fun cell a => stepCell m cell (a.at p)) c
      = (L.map (fun a => a.at p)).foldl (fun cell v => stepCell m cell v) c := by
    intro L c
    rw [List.foldl_map]
  rw [e, e, h]

theorem forall2_bare (l l' : List Arr) (h : List.Forall₂ sameArr l l') : l.map bare = l'.map bare := by
  induction h with
  | nil => rfl
  | cons hh _ ih =>
    simp only [List.map_cons, ih, List.cons.injEq, and_true]
    simp only [bare, hh.1, hh.2.1]

theorem forall2_normalise (ndim : Nat) (l l' : List Arr) (h : List.Forall₂ sameArr l l') :
    List.Forall₂ sameArr (normalise ndim l) (normalise ndim l') := by
  have hmo : minOffset ndim l = minOffset ndim l' := by
    rw [← minOffset_bare, forall2_bare l l' h, minOffset_bare]
  simp only [normalise, hmo]
  generalize minOffset ndim l' = mo
  clear hmo
  induction h with
  | nil => exact List.Forall₂.nil
  | cons hh _ ih =>
    simp only [List.map_cons]
    refine List.Forall₂.cons ?_ ih
    exact ⟨by simp only [hh.1], hh.2.1, hh.2.2⟩

theorem forall2_at (l l' : List Arr) (h : List.Forall₂ sameArr l l') (p : Idx) :
    l.map (fun a => a.at p) = l'.map (fun a => a.at p) := by
  induction h with
  | nil => rfl
  | cons hh _ ih => simp only [List.map_cons, ih, at_congr _ _ hh p]

/-- `overlap_arrays` reads an input only inside its shape -/
theorem overlap_congr (m : Mode) (fill : V) (ndim : Nat) (l l' : List Arr) (h : List.Forall₂ sameArr l l') :
    overlap false m fill ndim l = overlap false m fill ndim l' := by
  have hn := forall2_normalise ndim l l' h
  have hsh : newShape ndim (normalise ndim l) = newShape ndim (normalise ndim l') := by
    rw [← newShape_bare, forall2_bare _ _ hn, newShape_bare]
  simp only [overlap, Bool.false_eq_true, if_false, hsh]
  congr 1
  apply List.map_congr_left
  intro p _
  exact mech_congr m fill _ _ p (forall2_at _ _ hn p)

theorem inRange_toNat (q : List Int) (s : List Nat) (h : inRange q s = true) :
    inBox (q.map Int.toNat) s = true ∧ (q.map Int.toNat).map Int.ofNat = q := by
  induction q generalizing s with
  | nil => cases s <;> simp_all [inRange, inBox]
  | cons x xs ih =>
    cases s with
    | nil => simp [inRange] at h
    | cons y ys =>
      simp only [inRange, Bool.and_eq_true, decide_eq_true_eq] at h
      obtain ⟨h1, h2⟩ := ih ys h.2
      simp only [List.map_cons, inBox, Bool.and_eq_true, decide_eq_true_eq, List.cons.injEq]
      exact ⟨⟨by omega, h1⟩, Int.toNat_of_nonneg h.1.1, h2⟩

theorem inBox_length (n : List Nat) (s : List Nat) (h : inBox n s = true) : n.length = s.length := by
  induction n generalizing s with
  | nil => cases s <;> simp_all [inBox]
  | cons x xs ih =>
    cases s with
    | nil => simp [inBox] at h
    | cons y ys =>
      simp only [inBox, Bool.and_eq_true] at h
      simp [ih ys h.2]

theorem inRange_length (q : List Int) (s : List Nat) (h : inRange q s = true) : q.length = s.length := by
  induction q generalizing s with
  | nil => cases s <;> simp_all [inRange]
  | cons x xs ih =>
    cases s with
    | nil => simp [inRange] at h
    | cons y ys =>
      simp only [inRange, Bool.and_eq_true] at h
      simp [ih ys h.2]

theorem zipWith_add_zeros (q : List Int) (n : Nat) (h : q.length = n) :
    List.zipWith (· + ·) q (List.replicate n 0) = q := by
  induction q generalizing n with
  | nil => simp
  | cons x xs ih =>
    cases n with
    | zero => simp at h
    | succ k =>
      simp only [List.replicate_succ, List.zipWith_cons_cons, Int.add_zero, List.cons.injEq, true_and]
      exact ih k (by simpa using h)

/-- an image that shows `scene` from origin `o` on, placed at `o`, is the window of the scene at `o` -/
theorem placed_sameArr (x : Img) (o : List Int) (scene : Idx → Rat)
    (hx : ∀ n, inBox n x.shape = true → x.get n = scene (List.zipWith (· + ·) (n.map Int.ofNat) o)) :
    sameArr (placed x o) (window scene o x.shape) := by
  refine ⟨rfl, rfl, ?_⟩
  intro q hq
  obtain ⟨h1, h2⟩ := inRange_toNat q x.shape hq
  simp only [placed, window]
  rw [hx _ h1, h2]

end Pew.Register
