import PewProofs.Export
import PewProofs.ExportForeign

/-! # C16 — `load` with a named delimiter, and sessions of several calls -/
namespace Pew.Export

variable {α : Type}

/-! ### `delimiter=None` is the loader modelled before -/

theorem tableOf_eq (ndmin : Nat) (file : Str) : tableOf ndmin (fieldRows (loaderLines file)) = loadFields ndmin file := by
  unfold loadFields
  cases fieldRows (loaderLines file) with
  | nil => rfl
  | cons r rs => rfl

theorem loadFieldsD_none (ndmin : Nat) (file : Str) : loadFieldsD none ndmin file = loadFields ndmin file :=
  tableOf_eq ndmin file

theorem loadTextD_none (conv : Str → α) (ndmin : Nat) (file : Str) : loadTextD conv none ndmin file = loadText conv ndmin file := by
  unfold loadTextD loadText
  rw [loadFieldsD_none]

/-! ### a named delimiter: splitting the raw line at `d` is splitting the normalised line at `,` -/

instance : DecidablePred IsDelim := fun c => by unfold IsDelim; exact inferInstance

theorem isDelim_cases (c : Char) (h : IsDelim c) : (if c = ';' ∨ c = '\t' then ',' else c) = ',' := by
  rcases h with e | e | e <;> subst e <;> decide

theorem not_delim_normalise (c : Char) (h : ¬ IsDelim c) : (if c = ';' ∨ c = '\t' then ',' else c) = c ∧ c ≠ ',' := by
  have h1 : c ≠ ',' := fun e => h (Or.inl e)
  have h2 : c ≠ ';' := fun e => h (Or.inr (Or.inl e))
  have h3 : c ≠ '\t' := fun e => h (Or.inr (Or.inr e))
  exact ⟨by simp [h2, h3], h1⟩

/-- a text whose only delimiter character is `d`: splitting it at `d` gives the fields `load` finds after
replacing `;` and tab by `,` -/
theorem splitOn_normalise_delim (d : Char) (hd : IsDelim d) (b : Str) (h : ∀ c ∈ b, IsDelim c → c = d) :
    splitOn ',' (normalise b) = splitOn d b := by
  induction b with
  | nil => rfl
  | cons c cs ih =>
    have ihc := ih (fun x hx => h x (by simp [hx]))
    have hn : normalise (c :: cs) = (if c = ';' ∨ c = '\t' then ',' else c) :: normalise cs := by simp [normalise]
    rw [hn]
    by_cases hcd : c = d
    · subst hcd
      rw [isDelim_cases c hd]
      simp only [splitOn, if_true, ihc]
    · have hnd : ¬ IsDelim c := fun e => hcd (h c (by simp) e)
      obtain ⟨e1, e2⟩ := not_delim_normalise c hnd
      rw [e1]
      simp only [splitOn, if_neg e2, if_neg hcd, ihc]

theorem normalise_hash (c : Char) : ((if c = ';' ∨ c = '\t' then ',' else c) ≠ '#') ↔ c ≠ '#' := by
  by_cases h : c = ';' ∨ c = '\t'
  · rw [if_pos h]
    rcases h with e | e <;> subst e <;> decide
  · rw [if_neg h]

theorem cutComment_normalise (l : Str) : cutComment (normalise l) = normalise (cutComment l) := by
  unfold cutComment normalise
  induction l with
  | nil => rfl
  | cons c cs ih =>
    by_cases hc : c = '#'
    · subst hc
      simp
    · have : (if c = ';' ∨ c = '\t' then ',' else c) ≠ '#' := (normalise_hash c).mpr hc
      simp only [List.map_cons, List.takeWhile_cons, ne_eq, this, not_false_eq_true, decide_true, if_true, hc, ih]

theorem normalise_stripChar (c : Char) : isStripChar (if c = ';' ∨ c = '\t' then ',' else c) = isStripChar c := by
  by_cases h : c = ';' ∨ c = '\t'
  · rw [if_pos h]
    rcases h with e | e <;> subst e <;> decide
  · rw [if_neg h]

theorem dropWhile_normalise (s : Str) : (normalise s).dropWhile isStripChar = normalise (s.dropWhile isStripChar) := by
  unfold normalise
  induction s with
  | nil => rfl
  | cons c cs ih =>
    simp only [List.map_cons, List.dropWhile_cons, normalise_stripChar]
    by_cases h : isStripChar c = true
    · simp only [h, if_true, ih]
    · simp only [h, Bool.false_eq_true, if_false, List.map_cons]

theorem normalise_reverse (s : Str) : normalise s.reverse = (normalise s).reverse := by
  simp [normalise]

theorem strip_normalise (s : Str) : strip (normalise s) = normalise (strip s) := by
  unfold strip
  rw [dropWhile_normalise, ← normalise_reverse, dropWhile_normalise, normalise_reverse]

theorem normalise_eq_nil (s : Str) : normalise s = [] ↔ s = [] := by
  simp [normalise]

theorem mem_dropWhile {p : Char → Bool} {s : Str} {c : Char} (h : c ∈ s.dropWhile p) : c ∈ s :=
  (List.dropWhile_sublist p).subset h

theorem mem_strip {s : Str} {c : Char} (h : c ∈ strip s) : c ∈ s := by
  unfold strip at h
  have h1 := mem_dropWhile (List.mem_reverse.mp h)
  exact mem_dropWhile (List.mem_reverse.mp h1)

theorem mem_cutComment {l : Str} {c : Char} (h : c ∈ cutComment l) : c ∈ l :=
  (List.takeWhile_sublist _).subset h

/-- a line that, outside its comment, has no delimiter but `d`: the splitter called with `delimiter=d` finds the
fields the default call finds -/
theorem splitLineD_eq (d : Char) (hd : IsDelim d) (l : Str) (h : ∀ c ∈ cutComment l, IsDelim c → c = d) :
    splitLineD d l = splitLine (normalise l) := by
  unfold splitLineD splitLine
  simp only [cutComment_normalise, strip_normalise, normalise_eq_nil]
  by_cases hb : strip (cutComment l) = []
  · simp [hb]
  · rw [if_neg hb, if_neg hb]
    exact (splitOn_normalise_delim d hd _ (fun c hc => h c (mem_strip hc))).symm

theorem loaderRows_some_eq (d : Char) (hd : IsDelim d) (file : Str)
    (h : ∀ l ∈ pyLines (universalNewlines false file), ∀ c ∈ cutComment l, IsDelim c → c = d) :
    loaderRows (some d) file = loaderRows none file := by
  unfold loaderRows fieldRows loaderLines
  simp only [List.map_map]
  congr 1
  apply List.map_congr_left
  intro l hl
  exact splitLineD_eq d hd l (h l hl)

/-! ### the characters of the lines of a file are characters of the file -/

theorem mem_universalNewlines (b : Bool) (s : Str) (c : Char) (h : c ∈ universalNewlines b s) : c ∈ s ∨ c = '\n' := by
  induction s generalizing b with
  | nil => simp [universalNewlines] at h
  | cons x xs ih =>
    unfold universalNewlines at h
    by_cases h1 : x = '\r'
    · rw [if_pos h1] at h
      rcases List.mem_cons.mp h with e | e
      · exact Or.inr e
      · rcases ih true e with e | e
        · exact Or.inl (by simp [e])
        · exact Or.inr e
    · rw [if_neg h1] at h
      by_cases h2 : x = '\n'
      · rw [if_pos h2] at h
        cases b with
        | true =>
          simp only [if_true] at h
          rcases ih false h with e | e
          · exact Or.inl (by simp [e])
          · exact Or.inr e
        | false =>
          simp only [Bool.false_eq_true, if_false] at h
          rcases List.mem_cons.mp h with e | e
          · exact Or.inr e
          · rcases ih false e with e | e
            · exact Or.inl (by simp [e])
            · exact Or.inr e
      · rw [if_neg h2] at h
        rcases List.mem_cons.mp h with e | e
        · exact Or.inl (by simp [e])
        · rcases ih false e with e | e
          · exact Or.inl (by simp [e])
          · exact Or.inr e

theorem mem_splitOn (d : Char) (s : Str) : ∀ x ∈ splitOn d s, ∀ c ∈ x, c ∈ s := by
  induction s with
  | nil => simp [splitOn]
  | cons a t ih =>
    intro x hx c hc
    by_cases ha : a = d
    · simp only [splitOn, if_pos ha] at hx
      rcases List.mem_cons.mp hx with e | e
      · subst e; simp at hc
      · exact List.mem_cons_of_mem _ (ih x e c hc)
    · simp only [splitOn, if_neg ha] at hx
      cases hs : splitOn d t with
      | nil => exact absurd hs (splitOn_ne_nil _ _)
      | cons y ys =>
        rw [hs] at hx ih
        rcases List.mem_cons.mp hx with e | e
        · subst e
          rcases List.mem_cons.mp hc with e2 | e2
          · simp [e2]
          · exact List.mem_cons_of_mem _ (ih y (by simp) c e2)
        · exact List.mem_cons_of_mem _ (ih x (by simp [e]) c hc)

theorem mem_pyLines (s : Str) (l : Str) (hl : l ∈ pyLines s) (c : Char) (hc : c ∈ l) : c ∈ s ∨ c = '\n' := by
  unfold pyLines at hl
  simp only [List.mem_append, List.mem_map] at hl
  rcases hl with ⟨x, hx, rfl⟩ | hl
  · rcases List.mem_append.mp hc with e | e
    · exact Or.inl (mem_splitOn '\n' s x ((List.dropLast_sublist _).subset hx) c e)
    · exact Or.inr (by simpa using e)
  · cases hg : (splitOn '\n' s).getLast? with
    | none => rw [hg] at hl; simp at hl
    | some y =>
      rw [hg] at hl
      have hy : y ∈ splitOn '\n' s := List.mem_of_getLast? hg
      cases y with
      | nil => simp at hl
      | cons a t =>
        simp only [List.mem_singleton] at hl
        subst hl
        exact Or.inl (mem_splitOn '\n' s _ hy c hc)

/-- **a named delimiter**: on a file whose only delimiter character is `d`, `load(path, delimiter=d)` finds the
table the default call finds -/
theorem loaderRows_delim (d : Char) (hd : IsDelim d) (file : Str) (h : ∀ c ∈ file, IsDelim c → c = d) :
    loaderRows (some d) file = loaderRows none file := by
  apply loaderRows_some_eq d hd
  intro l hl c hc hdc
  rcases mem_pyLines _ l hl c (mem_cutComment hc) with e | e
  · rcases mem_universalNewlines false file c e with e | e
    · exact h c e hdc
    · subst e
      rcases hdc with e | e | e <;> exact absurd e (by decide)
  · subst e
    rcases hdc with e | e | e <;> exact absurd e (by decide)

/-! ### the lines of a saved file -/

theorem savedLines (fmt : α → Str) (conv : Str → α) (hc : Clean fmt conv)
    (header : Str) (hh : '\r' ∉ header) (img : List (List α)) :
    pyLines (universalNewlines false (saveText fmt header img)) = (hdrLines header ++ img.map (rowLine fmt)).map (· ++ ['\n']) := by
  have hnl : ∀ l ∈ hdrLines header ++ img.map (rowLine fmt), '\n' ∉ l := by
    intro l hl
    rcases List.mem_append.mp hl with h | h
    · unfold hdrLines at h
      split at h
      · simp at h
      · obtain ⟨p, hp, rfl⟩ := List.mem_map.mp h
        intro hm
        rcases List.mem_cons.mp hm with e | e
        · exact absurd e (by decide)
        · exact splitOn_no_delim '\n' header p hp e
    · obtain ⟨row, _, rfl⟩ := List.mem_map.mp h
      intro hm
      exact (rowLine_chars fmt conv hc row _ hm).2.2.1 rfl
  have hcr : '\r' ∉ saveText fmt header img := by
    intro hm
    unfold saveText at hm
    rcases List.mem_append.mp hm with h | h
    · unfold headerText at h
      split at h
      · simp at h
      · simp only [List.cons_append, List.mem_cons, List.mem_append, List.mem_flatMap] at h
        rcases h with e | ⟨c, hcm, hx⟩ | e
        · exact absurd e (by decide)
        · split at hx
          · simp at hx
          · simp at hx; subst hx; exact hh hcm
        · simp at e
    · obtain ⟨row, _, hx⟩ := List.mem_flatMap.mp h
      rcases List.mem_append.mp hx with e | e
      · exact (rowLine_chars fmt conv hc row _ e).2.2.2.1 rfl
      · simp at e
  rw [universalNewlines_noCR _ hcr, saveText_lines, pyLines_linesToFile _ hnl]

/-- a saved file read with `delimiter=","`: the table the default call finds -/
theorem loaderRows_saved_comma (fmt : α → Str) (conv : Str → α) (hc : Clean fmt conv)
    (header : Str) (hh : '\r' ∉ header) (img : List (List α)) :
    loaderRows (some ',') (saveText fmt header img) = loaderRows none (saveText fmt header img) := by
  apply loaderRows_some_eq ',' (Or.inl rfl)
  rw [savedLines fmt conv hc header hh img]
  intro l hl c hcm hd
  obtain ⟨k, hk, rfl⟩ := List.mem_map.mp hl
  rcases List.mem_append.mp hk with h | h
  · -- a header line starts with the comment character: nothing is left of it
    unfold hdrLines at h
    split at h
    · simp at h
    · obtain ⟨p, _, rfl⟩ := List.mem_map.mp h
      simp [cutComment] at hcm
  · obtain ⟨row, _, rfl⟩ := List.mem_map.mp h
    have hmem := mem_cutComment hcm
    rcases List.mem_append.mp hmem with e | e
    · have := rowLine_chars fmt conv hc row c e
      rcases hd with e1 | e1 | e1
      · exact e1
      · exact absurd e1 this.1
      · exact absurd e1 this.2.1
    · simp at e
      subst e
      rcases hd with e1 | e1 | e1 <;> exact absurd e1 (by decide)

/-! ### a file written with one delimiter throughout -/

theorem mem_joinWith_exact (ss : List Char) (fs : List Str) (hlen : fs.length ≤ ss.length + 1) (c : Char)
    (h : c ∈ joinWith ss fs) : c ∈ ss ∨ ∃ f ∈ fs, c ∈ f := by
  induction fs generalizing ss with
  | nil => cases ss <;> simp [joinWith] at h
  | cons x r ih =>
    cases r with
    | nil =>
      have : c ∈ x := by cases ss <;> simpa [joinWith] using h
      exact Or.inr ⟨x, by simp, this⟩
    | cons y r =>
      cases ss with
      | nil => simp at hlen
      | cons s ss =>
        simp only [joinWith, List.mem_append, List.mem_cons] at h
        rcases h with h | h | h
        · exact Or.inr ⟨x, by simp, h⟩
        · exact Or.inl (by simp [h])
        · rcases ih ss (by simp at hlen ⊢; omega) h with e | ⟨f, hf, hcf⟩
          · exact Or.inl (by simp [e])
          · exact Or.inr ⟨f, by simp [hf], hcf⟩

theorem mem_saveWith (fmt : α → Str) (conv : Str → α) (hc : Clean fmt conv) (d : Char)
    (seps : List (List Char)) (img : List (List α))
    (hs : ∀ ss ∈ seps, ∀ s ∈ ss, s = d)
    (hw : ∀ p ∈ List.zip seps img, p.2.length ≤ p.1.length + 1)
    (c : Char) (h : c ∈ saveWith fmt seps img) (hdc : IsDelim c) : c = d := by
  unfold saveWith at h
  obtain ⟨p, hp, hcp⟩ := List.mem_flatMap.mp h
  rcases List.mem_append.mp hcp with e | e
  · rcases mem_joinWith_exact p.1 (p.2.map fmt) (by simpa using hw p hp) c e with e | ⟨f, hf, hcf⟩
    · exact hs p.1 (List.of_mem_zip hp).1 c e
    · obtain ⟨x, _, rfl⟩ := List.mem_map.mp hf
      have := hc.chars x c hcf
      rcases hdc with e1 | e1 | e1
      · exact absurd e1 this.1
      · exact absurd e1 this.2.1
      · exact absurd e1 this.2.2.1
  · simp at e
    subst e
    rcases hdc with e1 | e1 | e1 <;> exact absurd e1 (by decide)

/-! ### what the decidable well-formedness predicates say -/

theorem isDelimB_iff (c : Char) : isDelimB c = true ↔ IsDelim c := by
  simp [isDelimB, IsDelim, or_assoc]

theorem imgOk_spec (img : List (List α)) (h : imgOk img = true) :
    img ≠ [] ∧ 0 < (img.headD []).length ∧ ∀ row ∈ img, row.length = (img.headD []).length := by
  cases img with
  | nil => simp [imgOk] at h
  | cons r rs =>
    simp only [imgOk, Bool.and_eq_true, Bool.not_eq_true', List.isEmpty_eq_false_iff, List.all_eq_true, beq_iff_eq] at h
    refine ⟨by simp, ?_, ?_⟩
    · simp only [List.headD_cons]
      exact List.length_pos_iff.mpr h.1
    · intro row hrow
      rcases List.mem_cons.mp hrow with e | e
      · subst e; rfl
      · simpa using h.2 row e

/-! ### sessions: the file system threaded through the calls holds the last text put at each path -/

/-- the files after these calls -/
def filesAfter (fmt : α → Str) (conv : Str → α) (fs : List (Nat × Str)) : List (Call α) → List (Nat × Str)
  | [] => fs
  | c :: cs => filesAfter fmt conv (step fmt conv fs c).1 cs

theorem filesAfter_append (fmt : α → Str) (conv : Str → α) (fs : List (Nat × Str)) (a : List (Call α)) (c : Call α) :
    filesAfter fmt conv fs (a ++ [c]) = (step fmt conv (filesAfter fmt conv fs a) c).1 := by
  induction a generalizing fs with
  | nil => rfl
  | cons x xs ih => simp only [List.cons_append, filesAfter, ih]

theorem fsGet_filesAfter (fmt : α → Str) (conv : Str → α) (fs : List (Nat × Str)) (cs : List (Call α)) (p : Nat) :
    fsGet (filesAfter fmt conv fs cs) p = (match lastPut p cs with
      | some s => some (s.text fmt)
      | none => fsGet fs p) := by
  induction cs generalizing fs with
  | nil => rfl
  | cons c cs ih =>
    simp only [filesAfter, lastPut]
    rw [ih]
    cases hl : lastPut p cs with
    | some s => rfl
    | none =>
      cases c with
      | put q s =>
        simp only [step, fsGet]
        by_cases hq : q = p
        · simp [hq]
        · simp [hq]
      | load q d n => simp [step]

/-- mechanism = specification, from any point of a session on -/
theorem runSession_from (fmt : α → Str) (conv : Str → α) (before cs : List (Call α)) :
    runSession fmt conv (filesAfter fmt conv [] before) cs = specFrom fmt conv before cs := by
  induction cs generalizing before with
  | nil => rfl
  | cons c cs ih =>
    simp only [runSession, specFrom]
    rw [← filesAfter_append, ih (before ++ [c])]
    congr 1
    cases c with
    | put q s => rfl
    | load q d n =>
      simp only [step, replyAt]
      rw [fsGet_filesAfter]
      cases lastPut q before with
      | some s => rfl
      | none => rfl

theorem specFrom_get (fmt : α → Str) (conv : Str → α) (before cs : List (Call α)) (i : Nat) :
    (specFrom fmt conv before cs)[i]? = (cs[i]?).map (replyAt fmt conv (before ++ cs.take i)) := by
  induction cs generalizing before i with
  | nil => simp [specFrom]
  | cons c cs ih =>
    cases i with
    | zero => simp [specFrom]
    | succ i =>
      simp only [specFrom, List.getElem?_cons_succ, List.take_succ_cons]
      rw [ih]
      simp

/-- later calls that do not write to `p` leave the file at `p` alone -/
theorem lastPut_append (p : Nat) (a b : List (Call α)) :
    lastPut p (a ++ b) = (match lastPut p b with
      | some s => some s
      | none => lastPut p a) := by
  induction a with
  | nil =>
    simp only [List.nil_append, lastPut]
    cases lastPut p b <;> rfl
  | cons c cs ih =>
    simp only [List.cons_append, lastPut, ih]
    cases lastPut p b with
    | some s => rfl
    | none => rfl

end Pew.Export
