import PewProofs.Imzml
import PewProofs.ImzmlBins

/-! helper lemmas of the extension round for C05: targets one by one, peaks outside a window,
scaling of the axis, chains of adjacent windows -/
namespace Pew.Imzml

/-- the loop body treats the windows one by one -/
theorem extractSpectrum_append (mz it : List Rat) (a b : List (Rat × Rat)) :
    extractSpectrum mz it (a ++ b) = extractSpectrum mz it a ++ extractSpectrum mz it b := by
  induction a with
  | nil => simp [extractSpectrum_nil]
  | cons w r ih =>
    obtain ⟨lo, hi⟩ := w
    rw [List.cons_append, extractSpectrum_cons, extractSpectrum_cons, ih, List.cons_append]

theorem extractSpectrum_length (mz it : List Rat) (wins : List (Rat × Rat)) :
    (extractSpectrum mz it wins).length = wins.length := by
  induction wins with
  | nil => simp [extractSpectrum_nil]
  | cons w r ih =>
    obtain ⟨lo, hi⟩ := w
    rw [extractSpectrum_cons, List.length_cons, ih, List.length_cons]

theorem extractSpectrum_getElem? (mz it : List Rat) (wins : List (Rat × Rat)) (k : Nat) :
    (extractSpectrum mz it wins)[k]? = (wins[k]?).bind (fun w => (extractSpectrum mz it [w])[0]?) := by
  induction wins generalizing k with
  | nil => simp [extractSpectrum_nil]
  | cons w r ih =>
    rw [extractSpectrum_cons' mz it w r]
    cases k with
    | zero =>
      obtain ⟨lo, hi⟩ := w
      simp [extractSpectrum_cons, extractSpectrum_nil]
    | succ k =>
      obtain ⟨lo, hi⟩ := w
      rw [extractSpectrum_cons, extractSpectrum_nil]
      simp [ih k]

/-- the intensities of peaks outside `[lo, hi)` may be replaced by anything -/
theorem windowSum_outside (mz it : List Rat) (lo hi : Rat) (g : Rat → Rat → Rat) :
    windowSum mz (List.zipWith (fun m i => if lo ≤ m ∧ m < hi then i else g m i) mz it) lo hi
      = windowSum mz it lo hi := by
  induction mz generalizing it with
  | nil => simp [windowSum]
  | cons m ms ih =>
    cases it with
    | nil => simp [windowSum]
    | cons i is =>
      simp only [List.zipWith_cons_cons, windowSum, ih is]
      by_cases h : lo ≤ m ∧ m < hi <;> simp [h]

/-- scaling the axis and the window by the same positive factor changes nothing -/
theorem windowSum_scale (mz it : List Rat) (lo hi k : Rat) (hk : 0 < k) :
    windowSum (mz.map (k * ·)) it (k * lo) (k * hi) = windowSum mz it lo hi := by
  induction mz generalizing it with
  | nil => simp [windowSum]
  | cons m ms ih =>
    cases it with
    | nil => simp [windowSum]
    | cons i is =>
      simp only [List.map_cons, windowSum, ih is]
      have h1 : k * lo ≤ k * m ↔ lo ≤ m := by
        constructor
        · intro h; exact le_of_mul_le_mul_left h hk
        · intro h; exact mul_le_mul_of_nonneg_left h (le_of_lt hk)
      have h2 : k * m < k * hi ↔ m < hi := by
        constructor
        · intro h; exact lt_of_mul_lt_mul_left h (le_of_lt hk)
        · intro h; exact mul_lt_mul_of_pos_left h hk
      simp only [h1, h2]

theorem incr_scale {mz : List Rat} {k : Rat} (hk : 0 < k) (h : Incr mz) : Incr (mz.map (k * ·)) := by
  induction mz with
  | nil => trivial
  | cons a r ih =>
    cases r with
    | nil => trivial
    | cons b r' =>
      exact ⟨mul_lt_mul_of_pos_left h.1 hk, ih h.2⟩

/-- consecutive (adjacent, half-open) windows telescope: together they hold exactly the peaks
of `[first edge, last edge)`, each once -/
theorem chain_sum (mz it : List Rat) (e : Rat) (r : List Rat) (h : Incr (e :: r)) :
    ∀ l, (e :: r).getLast? = some l →
      ((chain (e :: r)).map (fun w => windowSum mz it w.1 w.2)).sum = windowSum mz it e l := by
  induction r generalizing e with
  | nil =>
    intro l hl
    simp at hl; subst hl
    simp [chain, windowSum_empty]
  | cons b r ih =>
    intro l hl
    have hl' : (b :: r).getLast? = some l := by rw [getLast?_cons_cons] at hl; exact hl
    simp only [chain, List.map_cons, List.sum_cons]
    rw [ih b h.2 l hl']
    exact windowSum_split mz it (le_of_lt h.1) (incr_le_last_w h.2 l hl')

end Pew.Imzml
