import PewModel.Srr
import Mathlib.Algebra.Order.Field.Rat
import Mathlib.Tactic.Linarith
import Mathlib.Tactic.Ring
import Mathlib.Tactic.FieldSimp
import Mathlib.Tactic.NormNum

/-! helper lemmas for C09 (and the rounding lemmas shared with C10) -/
namespace Pew

theorem floor_eq_of_bounds (x : Rat) (n : Int) (h1 : (n : Rat) ≤ x) (h2 : x < (n : Rat) + 1) :
    x.floor = n := by
  have a : n ≤ x.floor := Rat.le_floor_iff.mpr h1
  have b : x.floor < n + 1 := Rat.floor_lt_iff.mpr (by push_cast; exact h2)
  omega

/-- a value closer than 1/2 to the integer `n` rounds (half-even) to `n` -/
theorem roundHalfEven_near (x : Rat) (n : Int) (h1 : (n : Rat) - 1 / 2 < x) (h2 : x < (n : Rat) + 1 / 2) :
    roundHalfEven x = n := by
  unfold roundHalfEven
  by_cases hx : (n : Rat) ≤ x
  · have hf : x.floor = n := floor_eq_of_bounds x n hx (by linarith)
    simp only [hf]
    rw [if_pos (by linarith)]
  · have hx' : x < n := lt_of_not_ge hx
    have hf : x.floor = n - 1 := floor_eq_of_bounds x (n - 1) (by push_cast; linarith) (by push_cast; linarith)
    simp only [hf]
    push_cast
    rw [if_neg (by linarith), if_pos (by linarith)]
    omega

theorem roundHalfEven_intCast (n : Int) : roundHalfEven (n : Rat) = n :=
  roundHalfEven_near _ n (by linarith) (by linarith)

/-- no tie: such a value is not half-way between two integers, so every tie rule gives `n` -/
theorem no_tie_near (x : Rat) (n : Int) (h1 : (n : Rat) - 1 / 2 < x) (h2 : x < (n : Rat) + 1 / 2) :
    x - (x.floor : Rat) ≠ 1 / 2 := by
  by_cases hx : (n : Rat) ≤ x
  · have hf : x.floor = n := floor_eq_of_bounds x n hx (by linarith)
    rw [hf]; intro h; linarith
  · have hx' : x < n := lt_of_not_ge hx
    have hf : x.floor = n - 1 := floor_eq_of_bounds x (n - 1) (by push_cast; linarith) (by push_cast; linarith)
    rw [hf]; push_cast; intro h; linarith

/-- away from ties, half-even and half-up rounding agree -/
theorem roundHalfEven_eq_halfUp (x : Rat) (h : x - (x.floor : Rat) ≠ 1 / 2) :
    roundHalfEven x = roundHalfUp x := by
  unfold roundHalfEven roundHalfUp
  have hfl := Rat.floor_le x
  have hlt := Rat.lt_floor_add_one x
  push_cast at hlt
  by_cases h1 : x - (x.floor : Rat) < 1 / 2
  · simp only [if_pos h1]
    exact (floor_eq_of_bounds _ _ (by linarith) (by linarith)).symm
  · have h2 : 1 / 2 < x - (x.floor : Rat) := lt_of_le_of_ne (not_lt.mp h1) (Ne.symm h)
    simp only [if_neg h1, if_pos h2]
    exact (floor_eq_of_bounds _ _ (by push_cast; linarith) (by push_cast; linarith)).symm

theorem roundHalfUp_near (x : Rat) (n : Int) (h1 : (n : Rat) - 1 / 2 < x) (h2 : x < (n : Rat) + 1 / 2) :
    roundHalfUp x = n := by
  rw [← roundHalfEven_eq_halfUp x (no_tie_near x n h1 h2)]
  exact roundHalfEven_near x n h1 h2

namespace Srr

theorem magInt_natCast (M : Nat) (hM : 1 ≤ M) : magInt (M : Rat) = M := by
  unfold magInt
  have h1 : ¬ ((M : Rat) < 1) := by
    have : (1 : Rat) ≤ (M : Rat) := by exact_mod_cast hM
    exact not_lt.mpr this
  rw [if_neg h1]
  have : ((M : Nat) : Rat) = ((M : Int) : Rat) := by push_cast; rfl
  rw [this, roundHalfEven_intCast]; simp

theorem magAxis_natCast (M : Nat) (hM : 1 ≤ M) : magAxis (M : Rat) = 0 := by
  unfold magAxis
  have : (1 : Rat) ≤ (M : Rat) := by exact_mod_cast hM
  rw [if_pos this]

theorem spp_pos (size M : Nat) (hs : 1 ≤ size) (hM : 1 ≤ M) : 1 ≤ subpixelsPerPixel size (M : Rat) := by
  unfold subpixelsPerPixel
  rw [magInt_natCast M hM]
  have hpos : 0 < Nat.lcm size M := Nat.lcm_pos (by omega) (by omega)
  have hdvd : M ∣ Nat.lcm size M := Nat.dvd_lcm_right size M
  exact Nat.div_pos (Nat.le_of_dvd hpos hdvd) (by omega)

end Srr
end Pew
