import PewModel.Srr
import Mathlib.Algebra.Order.Field.Rat
import Mathlib.Tactic.Linarith
import Mathlib.Tactic.Ring
import Mathlib.Tactic.FieldSimp
import Mathlib.Tactic.NormNum
import Mathlib.Tactic.Positivity

/-! helper lemmas for C09 (and the rounding lemmas shared with C10) -/
namespace Pew

theorem floor_eq_of_bounds (x : Rat) (n : Int) (h1 : (n : Rat) ≤ x) (h2 : x < (n : Rat) + 1) :
    x.floor = n := by
  have a : n ≤ x.floor := Rat.le_floor_iff.mpr h1
  have b : x.floor < n + 1 := Rat.floor_lt_iff.mpr (by push_cast; exact h2)
  omega

/-- a value closer than 1/2 to the integer `n` rounds (half-even) to `n` -/
theorem roundHalfEven_near (x : Rat) (n : Int) (h1 : (n : Rat) - 1 / 2 < x) (h2 : x < (n : Rat) + 1 / 2) :
    roundHalfEven x = n := by
  unfold roundHalfEven
  by_cases hx : (n : Rat) ≤ x
  · have hf : x.floor = n := floor_eq_of_bounds x n hx (by linarith)
    simp only [hf]
    rw [if_pos (by linarith)]
  · have hx' : x < n := lt_of_not_ge hx
    have hf : x.floor = n - 1 := floor_eq_of_bounds x (n - 1) (by push_cast; linarith) (by push_cast; linarith)
    simp only [hf]
    push_cast
    rw [if_neg (by linarith), if_pos (by linarith)]
    omega

theorem roundHalfEven_intCast (n : Int) : roundHalfEven (n : Rat) = n :=
  roundHalfEven_near _ n (by linarith) (by linarith)

/-- no tie: such a value is not half-way between two integers, so every tie rule gives `n` -/
theorem no_tie_near (x : Rat) (n : Int) (h1 : (n : Rat) - 1 / 2 < x) (h2 : x < (n : Rat) + 1 / 2) :
    x - (x.floor : Rat) ≠ 1 / 2 := by
  by_cases hx : (n : Rat) ≤ x
  · have hf : x.floor = n := floor_eq_of_bounds x n hx (by linarith)
    rw [hf]; intro h; linarith
  · have hx' : x < n := lt_of_not_ge hx
    have hf : x.floor = n - 1 := floor_eq_of_bounds x (n - 1) (by push_cast; linarith) (by push_cast; linarith)
    rw [hf]; push_cast; intro h; linarith

/-- away from ties, half-even and half-up rounding agree -/
theorem roundHalfEven_eq_halfUp (x : Rat) (h : x - (x.floor : Rat) ≠ 1 / 2) :
    roundHalfEven x = roundHalfUp x := by
  unfold roundHalfEven roundHalfUp
  have hfl := Rat.floor_le x
  have hlt := Rat.lt_floor_add_one x
  push_cast at hlt
  by_cases h1 : x - (x.floor : Rat) < 1 / 2
  · simp only [if_pos h1]
    exact (floor_eq_of_bounds _ _ (by linarith) (by linarith)).symm
  · have h2 : 1 / 2 < x - (x.floor : Rat) := lt_of_le_of_ne (not_lt.mp h1) (Ne.symm h)
    simp only [if_neg h1, if_pos h2]
    exact (floor_eq_of_bounds _ _ (by push_cast; linarith) (by push_cast; linarith)).symm

theorem roundHalfUp_near (x : Rat) (n : Int) (h1 : (n : Rat) - 1 / 2 < x) (h2 : x < (n : Rat) + 1 / 2) :
    roundHalfUp x = n := by
  rw [← roundHalfEven_eq_halfUp x (no_tie_near x n h1 h2)]
  exact roundHalfEven_near x n h1 h2

/-! ### float64 rounding -/

theorem roundHalfEven_err (x : Rat) : |(roundHalfEven x : Rat) - x| ≤ 1 / 2 := by
  unfold roundHalfEven
  have hfl := Rat.floor_le x
  have hlt := Rat.lt_floor_add_one x
  push_cast at hlt
  simp only
  split_ifs <;> push_cast <;> rw [abs_le] <;> constructor <;> linarith

theorem scale2_eq (a : Rat) (k : Int) : scale2 a k = a * scale2 1 k := by
  unfold scale2
  split_ifs <;> ring

theorem scale2_one_pos (k : Int) : 0 < scale2 1 k := by
  unfold scale2
  split_ifs <;> positivity

theorem scale2_one_neg (k : Int) : scale2 1 k * scale2 1 (-k) = 1 := by
  unfold scale2
  rcases lt_trichotomy k 0 with h | h | h
  · rw [if_neg (by omega), if_pos (by omega)]
    field_simp
  · subst h; simp
  · rw [if_pos (by omega), if_neg (by omega)]
    rw [neg_neg]; field_simp

theorem fl_relerr (x : Rat) : |fl x - x| ≤ |x| / 2 ^ 53 := by
  unfold fl
  by_cases hx : x = 0
  · simp [hx]
  rw [if_neg hx]
  simp only []
  generalize (if scale2 (if x < 0 then -x else x) (((Nat.log2 (if x < 0 then -x else x).num.natAbs : Nat) : Int) - ((Nat.log2 (if x < 0 then -x else x).den : Nat) : Int) - 52) < 4503599627370496
      then ((Nat.log2 (if x < 0 then -x else x).num.natAbs : Nat) : Int) - ((Nat.log2 (if x < 0 then -x else x).den : Nat) : Int) - 1
      else ((Nat.log2 (if x < 0 then -x else x).num.natAbs : Nat) : Int) - ((Nat.log2 (if x < 0 then -x else x).den : Nat) : Int)) - 52 = k
  have habs : (if x < 0 then -x else x) = |x| := by
    split_ifs with h
    · exact (abs_of_neg h).symm
    · exact (abs_of_nonneg (not_lt.mp h)).symm
  rw [habs]
  have hpos : 0 < |x| := abs_pos.mpr hx
  by_cases hq : 4503599627370496 ≤ scale2 |x| k ∧ scale2 |x| k < 9007199254740992
  · rw [if_pos hq]
    have herr := roundHalfEven_err (scale2 |x| k)
    have hc := scale2_one_pos k
    have hc' := scale2_one_pos (-k)
    have hinv := scale2_one_neg k
    have hs := scale2_eq |x| k
    rw [hs] at herr hq ⊢
    rw [scale2_eq (roundHalfEven (|x| * scale2 1 k) : Rat)]
    generalize (roundHalfEven (|x| * scale2 1 k) : Rat) = n at herr ⊢
    have e1 : n * scale2 1 (-k) - |x| = (n - |x| * scale2 1 k) * scale2 1 (-k) := by
      have : |x| * scale2 1 k * scale2 1 (-k) = |x| := by rw [mul_assoc, hinv, mul_one]
      linarith [this]
    have hb : abs (n * scale2 1 (-k) - |x|) ≤ |x| / 2 ^ 53 := by
      rw [e1, abs_mul, abs_of_pos hc']
      have h52 : scale2 1 (-k) ≤ |x| / 4503599627370496 := by
        rw [le_div_iff₀ (by norm_num)]
        calc scale2 1 (-k) * 4503599627370496 ≤ scale2 1 (-k) * (|x| * scale2 1 k) :=
              mul_le_mul_of_nonneg_left hq.1 hc'.le
          _ = |x| * (scale2 1 k * scale2 1 (-k)) := by ring
          _ = |x| := by rw [hinv, mul_one]
      calc abs (n - |x| * scale2 1 k) * scale2 1 (-k) ≤ 1 / 2 * (|x| / 4503599627370496) :=
            mul_le_mul herr h52 hc'.le (by norm_num)
        _ = |x| / 2 ^ 53 := by norm_num; ring
    split_ifs with hneg
    · have : -(n * scale2 1 (-k)) - x = -(n * scale2 1 (-k) - |x|) := by rw [abs_of_neg hneg]; ring
      rw [this, abs_neg]; exact hb
    · have : n * scale2 1 (-k) - x = n * scale2 1 (-k) - |x| := by rw [abs_of_nonneg (not_lt.mp hneg)]
      rw [this]; exact hb
  · rw [if_neg hq]; simp; positivity

theorem fl_zero : fl 0 = 0 := by simp [fl]

/-- rounding to float64 keeps the sign -/
theorem fl_neg_iff (x : Rat) : fl x < 0 ↔ x < 0 := by
  have h := fl_relerr x
  have h53 : (0 : Rat) < 2 ^ 53 := by positivity
  constructor
  · intro hf
    by_contra hx
    have hx' : 0 ≤ x := not_lt.mp hx
    rw [abs_of_nonneg hx'] at h
    have : x / 2 ^ 53 ≤ x / 1 := div_le_div_of_nonneg_left hx' (by norm_num) (by norm_num)
    rw [abs_le] at h
    linarith [h.1]
  · intro hx
    rw [abs_of_neg hx] at h
    rcases eq_or_lt_of_le (show x / 2 ^ 53 ≤ 0 from div_nonpos_of_nonpos_of_nonneg hx.le h53.le) with h0 | h0
    · have : x = 0 := by
        rcases div_eq_zero_iff.mp h0 with h1 | h1
        · exact h1
        · exact absurd h1 (ne_of_gt h53)
      linarith
    · have hlt : -x / 2 ^ 53 < -x := by
        rw [div_lt_iff₀ h53]
        have : (1 : Rat) < 2 ^ 53 := by norm_num
        nlinarith
      rw [abs_le] at h
      linarith [h.2]

namespace Srr

theorem magInt_natCast (M : Nat) (hM : 1 ≤ M) : magInt (M : Rat) = M := by
  unfold magInt
  have h1 : ¬ ((M : Rat) < 1) := by
    have : (1 : Rat) ≤ (M : Rat) := by exact_mod_cast hM
    exact not_lt.mpr this
  rw [if_neg h1]
  have : ((M : Nat) : Rat) = ((M : Int) : Rat) := by push_cast; rfl
  rw [this, roundHalfEven_intCast]; simp

theorem magAxis_natCast (M : Nat) (hM : 1 ≤ M) : magAxis (M : Rat) = 0 := by
  unfold magAxis
  have : (1 : Rat) ≤ (M : Rat) := by exact_mod_cast hM
  rw [if_pos this]

theorem spp_pos (size M : Nat) (hs : 1 ≤ size) (hM : 1 ≤ M) : 1 ≤ subpixelsPerPixel size (M : Rat) := by
  unfold subpixelsPerPixel
  rw [magInt_natCast M hM]
  have hpos : 0 < Nat.lcm size M := Nat.lcm_pos (by omega) (by omega)
  have hdvd : M ∣ Nat.lcm size M := Nat.dvd_lcm_right size M
  exact Nat.div_pos (Nat.le_of_dvd hpos hdvd) (by omega)

/-! ### `subpixels_per_pixel` in the integer arithmetic of the code (structural tie) -/

theorem roundHalfEven_nonneg (x : Rat) (hx : 0 ≤ x) : 0 ≤ roundHalfEven x := by
  unfold roundHalfEven
  have hf : 0 ≤ x.floor := Rat.le_floor_iff.mpr (by simpa using hx)
  simp only
  split_ifs <;> omega

theorem magRound_nonneg (m : Rat) (hm : 0 < m) : 0 ≤ roundHalfEven (if m < 1 then fl (1 / m) else m) := by
  apply roundHalfEven_nonneg
  split_ifs with h
  · have : ¬ fl (1 / m) < 0 := by
      rw [fl_neg_iff]; exact not_lt.mpr (by positivity)
    exact not_lt.mp this
  · exact hm.le

/-- `np.lcm(size, mag) // mag` in integer arithmetic (as the code computes it) is the model's `subpixelsPerPixel` -/
theorem spp_int_eq (size : Nat) (m : Rat) (hm : 0 < m) :
    Int.fdiv ((Int.lcm (size : Int) (roundHalfEven (if m < 1 then fl (1 / m) else m)) : Nat) : Int)
        (roundHalfEven (if m < 1 then fl (1 / m) else m))
      = ((subpixelsPerPixel size m : Nat) : Int) := by
  have h0 := magRound_nonneg m hm
  unfold subpixelsPerPixel magInt
  generalize roundHalfEven (if m < 1 then fl (1 / m) else m) = r at h0 ⊢
  obtain ⟨n, rfl⟩ := Int.eq_ofNat_of_zero_le h0
  rw [Int.fdiv_eq_ediv_of_nonneg _ (by omega)]
  simp [Int.lcm]
/-! ### `maxList`, effective offsets -/

theorem foldl_max_ge (l : List Nat) (a : Nat) : a ≤ l.foldl max a := by
  induction l generalizing a with
  | nil => simp
  | cons x xs ih => simp only [List.foldl_cons]; exact Nat.le_trans (Nat.le_max_left a x) (ih _)

theorem foldl_max_mem (l : List Nat) (a x : Nat) (h : x ∈ l) : x ≤ l.foldl max a := by
  induction l generalizing a with
  | nil => simp at h
  | cons y ys ih =>
    simp only [List.foldl_cons]
    rcases List.mem_cons.mp h with rfl | h'
    · exact Nat.le_trans (Nat.le_max_right a x) (foldl_max_ge ys _)
    · exact ih _ h'

theorem le_maxList (l : List Nat) (x : Nat) (h : x ∈ l) : x ≤ maxList l := foldl_max_mem l 0 x h

theorem maxList_zero_cons (l : List Nat) : maxList (0 :: l) = maxList l := by simp [maxList]

theorem maxList_effList (offs : List Nat) : maxList (effList offs) = maxList offs := by
  cases offs with
  | nil => rfl
  | cons o os =>
    simp only [effList]
    split
    · exact maxList_zero_cons _
    · rfl

theorem effList_ne_nil (offs : List Nat) (h : offs ≠ []) : effList offs ≠ [] := by
  cases offs with
  | nil => exact absurd rfl h
  | cons o os => simp only [effList]; split <;> simp

theorem effOffsets_dup (offs : List Nat) :
    effOffsets (offs.map (fun o => (o, o))) = (effList offs).map (fun o => (o, o)) := by
  cases offs with
  | nil => rfl
  | cons o os =>
    simp only [List.map_cons, effOffsets, effList]
    by_cases h : o = 0
    · subst h; simp
    · have : (o, o) ≠ (0, 0) := by intro hh; exact h (Prod.mk.inj hh).1
      simp [h]

theorem getD_of_lt {α : Type} (l : List α) (i : Nat) (d : α) (h : i < l.length) : l.getD i d = l[i] := by
  simp [List.getD_eq_getElem?_getD, h]

theorem layerOffset_le (offs : List Nat) (h : offs ≠ []) (i : Nat) : layerOffset offs i ≤ maxList offs := by
  rw [← maxList_effList]
  unfold layerOffset
  have hne := effList_ne_nil offs h
  have hlen : 0 < (effList offs).length := List.length_pos_iff.mpr hne
  have hi : i % (effList offs).length < (effList offs).length := Nat.mod_lt _ hlen
  rw [getD_of_lt _ _ _ hi]
  exact le_maxList _ _ (List.getElem_mem hi)

/-! ### slice bounds -/

theorem normIdx_natCast (n k : Nat) (h : k ≤ n) : normIdx n (k : Int) = k := by
  unfold normIdx
  rw [if_neg (by omega)]
  simp; omega

theorem sliceBounds_region (nr ov o : Nat) (h1 : o ≤ ov) (h2 : ov ≤ nr) :
    sliceBounds nr (some (o : Int)) (endBound ov o) = (o, nr - (ov - o)) := by
  have hn := normIdx_natCast nr o (by omega)
  by_cases h : (ov : Int) - (o : Int) = 0
  · simp only [sliceBounds, endBound, if_pos h, hn]; congr 1; omega
  · simp only [sliceBounds, endBound, if_neg h, hn]
    congr 1
    unfold normIdx
    rw [if_pos (by omega)]; omega

theorem region_dup (offs : List Nat) (h : offs ≠ []) (R C p i : Nat) :
    region ((effList offs).map (fun o => (o, o))) (maxList offs) (maxList offs)
        (R * p + maxList offs) (C * p + maxList offs) i
      = ((layerOffset offs i, layerOffset offs i + R * p), (layerOffset offs i, layerOffset offs i + C * p)) := by
  have hle := layerOffset_le offs h i
  unfold region
  have hg : ((effList offs).map (fun o => (o, o))).getD (i % ((effList offs).map (fun o => (o, o))).length) (0, 0)
      = (layerOffset offs i, layerOffset offs i) := by
    unfold layerOffset
    rw [List.length_map]
    have hne := effList_ne_nil offs h
    have hlen : 0 < (effList offs).length := List.length_pos_iff.mpr hne
    have hi : i % (effList offs).length < (effList offs).length := Nat.mod_lt _ hlen
    rw [getD_of_lt _ _ _ (by rw [List.length_map]; exact hi), getD_of_lt _ _ _ hi]
    simp
  simp only [hg]
  rw [sliceBounds_region _ _ _ hle (by omega), sliceBounds_region _ _ _ hle (by omega)]
  congr 2 <;> omega

/-! ### the steps of `krisskross` on a crossed stack -/

theorem sliceCols_trim {α : Type} (l : Arr2 α) (wn len : Nat) (h : wn + len ≤ l.cols) :
    l.sliceCols (some (wn : Int)) (some ((wn : Int) + (len : Int)))
      = { rows := l.rows, cols := len, get := fun r c => l.get r (wn + c) } := by
  have e : (wn : Int) + (len : Int) = ((wn + len : Nat) : Int) := by push_cast; rfl
  simp only [Arr2.sliceCols, Arr2.slice, sliceBounds, e, normIdx_natCast l.cols wn (by omega),
    normIdx_natCast l.cols (wn + len) h]
  congr 1
  · omega
  · funext r c; simp

theorem prepLayer_even {α : Type} (l : Arr2 α) (wn M len0 len1 i : Nat) (hi : i % 2 = 0)
    (h : wn + len0 ≤ l.cols) :
    prepLayer (wn : Int) M 0 len0 len1 i l
      = { rows := l.rows * M, cols := len0, get := fun r c => l.get (r / M) (wn + c) } := by
  simp only [prepLayer, hi, if_true, Nat.zero_ne_one, if_false, sliceCols_trim l wn len0 h, Arr2.rep]

theorem prepLayer_odd {α : Type} (l : Arr2 α) (wn M len0 len1 i : Nat) (hi : i % 2 = 1)
    (h : wn + len1 ≤ l.cols) :
    prepLayer (wn : Int) M 0 len0 len1 i l
      = { rows := len1, cols := l.rows * M, get := fun r c => l.get (c / M) (wn + r) } := by
  simp only [prepLayer, hi, if_true, Nat.one_ne_zero, if_false, sliceCols_trim l wn len1 h, Arr2.rep, Arr2.T]



theorem valid_unpack {α : Type} (c : SrrConfig) (M : Nat) (hM : 1 ≤ M) (layers : List (Arr2 α))
    (d0 d1 : Arr2 α) (h0 : layers[0]? = some d0) (h1 : layers[1]? = some d1) (hs : 0 < c.scantime)
    (hv : validForData c (M : Rat) layers = some true) :
    0 ≤ c.warmup ∧ c.warmup + ((d1.rows * M : Nat) : Int) ≤ (d0.cols : Int)
      ∧ c.warmup + ((d0.rows * M : Nat) : Int) ≤ (d1.cols : Int) := by
  unfold validForData at hv
  rw [h0, h1] at hv
  simp only [magInt_natCast M hM, magAxis_natCast M hM, Arr2.dim, if_true] at hv
  split_ifs at hv with a b c' <;> first | (exfalso; simp at hv; done) | skip
  refine ⟨?_, by omega, by omega⟩
  by_contra hneg
  have hw : (c.warmup : Rat) < 0 := by exact_mod_cast (lt_of_not_ge hneg)
  exact a ((fl_neg_iff _).mpr (mul_neg_of_neg_of_pos hw hs))



theorem crossed_heads {α : Type} (layers : List (Arr2 α)) (l0 s0 l1 s1 : Nat) (hc : Crossed layers l0 s0 l1 s1) :
    ∃ d0 d1, layers[0]? = some d0 ∧ layers[1]? = some d1 ∧ d0.rows = l0 ∧ d0.cols = s0 ∧ d1.rows = l1 ∧ d1.cols = s1 := by
  obtain ⟨h2, hs⟩ := hc
  have e0 : layers[0]? = some layers[0] := List.getElem?_eq_getElem (by omega)
  have e1 : layers[1]? = some layers[1] := List.getElem?_eq_getElem (by omega)
  have a := hs 0 _ e0
  have b := hs 1 _ e1
  simp at a b
  exact ⟨_, _, e0, e1, a.1, a.2, b.1, b.2⟩

theorem aligned_crossed {α : Type} (z : α) (c : SrrConfig) (M : Nat) (hM : 1 ≤ M) (layers : List (Arr2 α))
    (l0 s0 l1 s1 : Nat) (hc : Crossed layers l0 s0 l1 s1) (wn : Nat) (hw : c.warmup = (wn : Int))
    (hv0 : wn + l1 * M ≤ s0) (hv1 : wn + l0 * M ≤ s1) :
    aligned z c (M : Rat) layers = some
      { rows := l0 * M, cols := l1 * M, depth := layers.length,
        get := fun r cc i => match layers[i]? with
          | some l => if i % 2 = 0 then l.get (r / M) (wn + cc) else l.get (cc / M) (wn + r)
          | none => z } := by
  obtain ⟨d0, d1, h0, h1, r0, c0, r1, c1⟩ := crossed_heads layers l0 s0 l1 s1 hc
  have hprep : ∀ (i : Nat) (l : Arr2 α), layers[i]? = some l →
      prepLayer (wn : Int) M 0 (l1 * M) (l0 * M) i l
        = (if i % 2 = 0 then { rows := l0 * M, cols := l1 * M, get := fun r cc => l.get (r / M) (wn + cc) }
           else { rows := l0 * M, cols := l1 * M, get := fun r cc => l.get (cc / M) (wn + r) }) := by
    intro i l hl
    have hsh := hc.2 i l hl
    by_cases hi : i % 2 = 0
    · simp only [hi, if_true] at hsh ⊢
      rw [prepLayer_even l wn M _ _ i hi (by rw [hsh.2]; exact hv0), hsh.1]
    · have hi' : i % 2 = 1 := by omega
      simp only [hi, if_false] at hsh ⊢
      rw [prepLayer_odd l wn M _ _ i hi' (by rw [hsh.2]; exact hv1), hsh.1]
  unfold aligned
  rw [h0, h1]
  simp only [magInt_natCast M hM, magAxis_natCast M hM, Arr2.dim, if_true, r0, r1, hw]
  split
  · congr 2
    funext r cc i
    cases hl : layers[i]? with
    | none => rfl
    | some l =>
      simp only
      rw [hprep i l hl]
      by_cases hi : i % 2 = 0 <;> simp [hi]
  · rename_i hneg
    exfalso; apply hneg
    rw [List.all_eq_true]
    intro i _
    cases hl : layers[i]? with
    | none => rfl
    | some l =>
      simp only
      rw [hprep i l hl]
      by_cases hi : i % 2 = 0 <;> simp [hi]



theorem subpixelOffset_dup {α : Type} (z : α) (x : Arr3 α) (offs : List Nat) (hne : offs ≠ []) (p : Nat) :
    subpixelOffset z x (offs.map (fun o => (o, o))) (p, p) = some
      { rows := x.rows * p + maxList offs, cols := x.cols * p + maxList offs, depth := x.depth,
        get := fun r cc i =>
          if layerOffset offs i ≤ r ∧ r < layerOffset offs i + x.rows * p
              ∧ layerOffset offs i ≤ cc ∧ cc < layerOffset offs i + x.cols * p then
            x.get ((r - layerOffset offs i) / p) ((cc - layerOffset offs i) / p) i
          else z } := by
  have hm1 : ((effList offs).map (fun o => (o, o))).map (·.1) = effList offs := by
    rw [List.map_map]; exact (List.map_congr_left (fun a _ => rfl)).trans (List.map_id _)
  have hm2 : ((effList offs).map (fun o => (o, o))).map (·.2) = effList offs := by
    rw [List.map_map]; exact (List.map_congr_left (fun a _ => rfl)).trans (List.map_id _)
  have hemp : ((effList offs).map (fun o => (o, o))).isEmpty = false := by
    have := effList_ne_nil offs hne
    cases h : effList offs with
    | nil => exact absurd h this
    | cons a as => rfl
  unfold subpixelOffset
  simp only [effOffsets_dup, hm1, hm2, maxList_effList, hemp, Bool.false_eq_true, if_false, region_dup offs hne]
  split
  · rfl
  · rename_i hneg
    exfalso; apply hneg
    rw [List.all_eq_true]
    intro i _
    simp


/-! ### the configuration: lcm, offsets, array round trip -/

theorem foldl_lcm_dvd_acc (l : List Nat) (a : Nat) : a ∣ l.foldl Nat.lcm a := by
  induction l generalizing a with
  | nil => simp
  | cons x xs ih => simp only [List.foldl_cons]; exact Nat.dvd_trans (Nat.dvd_lcm_left a x) (ih _)

theorem foldl_lcm_dvd_mem (l : List Nat) (a x : Nat) (h : x ∈ l) : x ∣ l.foldl Nat.lcm a := by
  induction l generalizing a with
  | nil => simp at h
  | cons y ys ih =>
    simp only [List.foldl_cons]
    rcases List.mem_cons.mp h with rfl | h'
    · exact Nat.dvd_trans (Nat.dvd_lcm_right a x) (foldl_lcm_dvd_acc ys _)
    · exact ih _ h'

theorem foldl_lcm_pos (l : List Nat) (a : Nat) (ha : 0 < a) (h : ∀ x ∈ l, 0 < x) : 0 < l.foldl Nat.lcm a := by
  induction l generalizing a with
  | nil => simpa
  | cons y ys ih =>
    simp only [List.foldl_cons]
    exact ih _ (Nat.lcm_pos ha (h y (by simp))) (fun x hx => h x (by simp [hx]))

theorem foldl_lcm_const (l : List Nat) (s : Nat) (h : ∀ x ∈ l, x = s) : l.foldl Nat.lcm s = s := by
  induction l with
  | nil => rfl
  | cons y ys ih =>
    simp only [List.foldl_cons]
    rw [h y (by simp), Nat.lcm_self]
    exact ih (fun x hx => h x (by simp [hx]))

theorem lcmList_const (l : List Nat) (s : Nat) (hne : l ≠ []) (h : ∀ x ∈ l, x = s) : lcmList l = s := by
  cases l with
  | nil => exact absurd rfl hne
  | cons y ys =>
    simp only [lcmList, List.foldl_cons]
    rw [h y (by simp), Nat.lcm_one_left]
    exact foldl_lcm_const ys s (fun x hx => h x (by simp [hx]))

/-- the warm-up survives `to_array`/`from_array`: with float64 rounding after the product and after the quotient,
`round(fl(fl(n·s) / s)) = n` for every non-zero scan time and `|n| ≤ 2⁵⁰` -/
theorem warmup_robust (s : Rat) (hs : s ≠ 0) (N : Int) (hN : N.natAbs ≤ 2 ^ 50) :
    roundHalfEven (fl (fl ((N : Rat) * s) / s)) = N := by
  have hsp : 0 < |s| := abs_pos.mpr hs
  have hA : |(N : Rat)| ≤ 2 ^ 50 := by
    have : ((N.natAbs : Int) : Rat) ≤ ((2 ^ 50 : Nat) : Rat) := by exact_mod_cast hN
    rw [Int.natCast_natAbs, Int.cast_abs] at this
    calc |(N : Rat)| ≤ ((2 ^ 50 : Nat) : Rat) := this
      _ = 2 ^ 50 := by norm_num
  have hy := fl_relerr ((N : Rat) * s)
  have hw : |fl ((N : Rat) * s) / s - N| ≤ |(N : Rat)| / 2 ^ 53 := by
    have e : fl ((N : Rat) * s) / s - N = (fl ((N : Rat) * s) - N * s) / s := by
      field_simp
    rw [e, abs_div, div_le_iff₀ hsp]
    calc |fl (↑N * s) - ↑N * s| ≤ |(N : Rat) * s| / 2 ^ 53 := hy
      _ = |(N : Rat)| / 2 ^ 53 * |s| := by rw [abs_mul]; ring
  have hz := fl_relerr (fl ((N : Rat) * s) / s)
  have hwa : |fl ((N : Rat) * s) / s| ≤ |(N : Rat)| + |(N : Rat)| / 2 ^ 53 := by
    have := abs_sub_abs_le_abs_sub (fl ((N : Rat) * s) / s) (N : Rat)
    linarith
  have hfin : |fl (fl ((N : Rat) * s) / s) - N| < 1 / 2 := by
    have t := abs_sub_le (fl (fl ((N : Rat) * s) / s)) (fl ((N : Rat) * s) / s) (N : Rat)
    have h53 : (0 : Rat) < 2 ^ 53 := by positivity
    have : |fl ((N : Rat) * s) / s| / 2 ^ 53 ≤ (|(N : Rat)| + |(N : Rat)| / 2 ^ 53) / 2 ^ 53 :=
      div_le_div_of_nonneg_right hwa h53.le
    have hb : (|(N : Rat)| + |(N : Rat)| / 2 ^ 53) / 2 ^ 53 + |(N : Rat)| / 2 ^ 53 < 1 / 2 := by
      have : |(N : Rat)| / 2 ^ 53 ≤ 2 ^ 50 / 2 ^ 53 := div_le_div_of_nonneg_right hA h53.le
      have h2 : (|(N : Rat)| + |(N : Rat)| / 2 ^ 53) / 2 ^ 53 ≤ (2 ^ 50 + 2 ^ 50 / 2 ^ 53) / 2 ^ 53 :=
        div_le_div_of_nonneg_right (by linarith) h53.le
      have : ((2 : Rat) ^ 50 + 2 ^ 50 / 2 ^ 53) / 2 ^ 53 + 2 ^ 50 / 2 ^ 53 < 1 / 2 := by norm_num
      linarith
    linarith
  rw [abs_lt] at hfin
  exact roundHalfEven_near _ N (by linarith [hfin.1]) (by linarith [hfin.2])

theorem roundtrip_state (c : SrrConfig) (hs : c.scantime ≠ 0) (ho : c.offs ≠ []) (hz : 1 ≤ c.size)
    (hwb : c.warmup.natAbs ≤ 2 ^ 50) :
    SrrConfig.fromArray c.toArray = c := by
  have hw := warmup_robust c.scantime hs c.warmup hwb
  have hl : lcmList ((c.offs.map (fun o => (o, c.size))).map (·.2)) = c.size := by
    apply lcmList_const
    · simpa using ho
    · intro x hx; simp at hx; exact hx.2.symm
  have hoff : (c.offs.map (fun o => (o, c.size))).map (fun od => od.1 * c.size / od.2) = c.offs := by
    rw [List.map_map]
    refine (List.map_congr_left (fun a _ => ?_)).trans (List.map_id _)
    simp only [Function.comp]
    exact Nat.mul_div_cancel a (by omega)
  cases c with
  | mk spotsize speed scantime warmup size offs =>
    simp only [SrrConfig.fromArray, SrrConfig.toArray, SrrConfig.make, SrrConfig.warmupSeconds,
      SrrConfig.subpixelOffsets] at hw hl hoff ⊢
    rw [hw, hl, hoff]



/-- the offset pair used for layer `i` by `subpixel_offset` -/
theorem effOffsets_ne_nil (offs : List (Nat × Nat)) (h : offs ≠ []) : effOffsets offs ≠ [] := by
  cases offs with
  | nil => exact absurd rfl h
  | cons o os => simp only [effOffsets]; split <;> simp

theorem region_general (eff : List (Nat × Nat)) (h : eff ≠ []) (R C p0 p1 i : Nat) :
    let st := eff.getD (i % eff.length) (0, 0)
    region eff (maxList (eff.map (·.1))) (maxList (eff.map (·.2)))
        (R * p0 + maxList (eff.map (·.1))) (C * p1 + maxList (eff.map (·.2))) i
      = ((st.1, st.1 + R * p0), (st.2, st.2 + C * p1)) := by
  intro st
  have hlen : 0 < eff.length := List.length_pos_iff.mpr h
  have hi : i % eff.length < eff.length := Nat.mod_lt _ hlen
  have hst : st = eff[i % eff.length] := getD_of_lt _ _ _ hi
  have hmem : st ∈ eff := by rw [hst]; exact List.getElem_mem hi
  have h1 : st.1 ≤ maxList (eff.map (·.1)) := le_maxList _ _ (List.mem_map.mpr ⟨st, hmem, rfl⟩)
  have h2 : st.2 ≤ maxList (eff.map (·.2)) := le_maxList _ _ (List.mem_map.mpr ⟨st, hmem, rfl⟩)
  unfold region
  simp only
  rw [sliceBounds_region _ _ _ h1 (by omega), sliceBounds_region _ _ _ h2 (by omega)]
  congr 2 <;> omega


end Srr
end Pew
