import PewProofs.Effects
namespace Pew.Effects

/-! ## call histories are executions of `history c ms` -/

theorem exec_choice {np : Nat} {ms : List Stmt} {m : Stmt} (hm : m ∈ ms) {σ σ' : St} {d : Bool}
    (h : Exec np m σ d σ') : Exec np (choice ms) σ d σ' := by
  induction ms with
  | nil => simp at hm
  | cons a r ih =>
    simp only [List.mem_cons] at hm
    rcases hm with rfl | hm
    · exact .branchL _ _ _ _ _ h
    · exact .branchR _ _ _ _ _ (ih hm)

theorem calls_exec {np : Nat} {ms : List Stmt} {σ σ' : St} {d : Bool} (h : Calls np ms σ d σ') :
    Exec np (.loop (choice ms)) σ d σ' := by
  induction h with
  | done σ => exact .loopDone _ _
  | call m σ σ₁ d σ₂ hm h1 _ ih => exact .loopStep _ _ _ _ _ (exec_choice hm h1) ih
  | raised m σ σ₁ hm h1 => exact .loopRaise _ _ _ (exec_choice hm h1)

theorem hist_exec {np : Nat} {c : Stmt} {ms : List Stmt} {σ σ' : St} {d : Bool} (h : Hist np c ms σ d σ') :
    Exec np (history c ms) σ d σ' := by
  cases h
  next h1 => exact .seqRaise _ _ _ _ h1
  next σ₁ h1 h2 => exact .seq _ _ _ _ _ _ h1 (calls_exec h2)

end Pew.Effects
