import PewProofs.Register
import PewModel.RegisterFast

/-! # C12 — helper lemmas: the lag list, the peak fold, dot products of windows, the merge on the whole canvas -/
namespace Pew.Register
open Finset

/-! ### `lags` enumerates the lag box -/

theorem mem_lags (sa sb : List Nat) (l : List Int) : l ∈ lags sa sb ↔ inLagBox sa sb l = true := by
  induction sa generalizing sb l with
  | nil =>
    cases sb with
    | nil => cases l <;> simp [lags, inLagBox]
    | cons _ _ => simp [lags, inLagBox]
  | cons a as ih =>
    cases sb with
    | nil => simp [lags, inLagBox]
    | cons b bs =>
      cases l with
      | nil => simp [lags, inLagBox]
      | cons l0 ls =>
        simp only [lags, inLagBox, List.mem_flatMap, List.mem_range, List.mem_map, List.cons.injEq,
          Bool.and_eq_true, decide_eq_true_eq]
        constructor
        · rintro ⟨i, hi, r, hr, e1, e2⟩
          subst e2
          exact ⟨⟨by omega, by omega⟩, (ih bs r).mp hr⟩
        · rintro ⟨⟨h1, h2⟩, h3⟩
          exact ⟨(l0 + ((b : Int) - 1)).toNat, by omega, ls, (ih bs ls).mpr h3, by omega, rfl⟩

/-! ### the fold of `peakOfTable` -/

theorem foldl_bestPair {α : Type} (ps : List (α × Rat)) (p : α × Rat) :
    let r := ps.foldl (fun best q => if best.2 < q.2 then q else best) p
    (r = p ∨ r ∈ ps) ∧ p.2 ≤ r.2 ∧ ∀ q ∈ ps, q.2 ≤ r.2 := by
  induction ps generalizing p with
  | nil => simp
  | cons q ps ih =>
    simp only [List.foldl_cons]
    by_cases h : p.2 < q.2
    · simp only [h, if_true]
      obtain ⟨e1, e2, e3⟩ := ih q
      refine ⟨?_, by linarith, ?_⟩
      · rcases e1 with e | e
        · right; rw [e]; simp
        · right; simp [e]
      · intro q' hq'
        rcases List.mem_cons.mp hq' with e | e
        · subst e; exact e2
        · exact e3 q' e
    · simp only [h, if_false]
      obtain ⟨e1, e2, e3⟩ := ih p
      refine ⟨?_, e2, ?_⟩
      · rcases e1 with e | e
        · left; exact e
        · right; simp [e]
      · intro q' hq'
        rcases List.mem_cons.mp hq' with e | e
        · subst e; linarith
        · exact e3 q' e

theorem foldl_maxR (os : List Rat) (o : Rat) :
    o ≤ os.foldl (fun m v => if m < v then v else m) o ∧ ∀ v ∈ os, v ≤ os.foldl (fun m v => if m < v then v else m) o := by
  induction os generalizing o with
  | nil => simp
  | cons x xs ih =>
    simp only [List.foldl_cons, List.mem_cons, forall_eq_or_imp]
    by_cases h : o < x
    · simp only [h, if_true]
      obtain ⟨e1, e2⟩ := ih x
      exact ⟨by linarith, e1, e2⟩
    · simp only [h, if_false]
      obtain ⟨e1, e2⟩ := ih o
      exact ⟨e1, by linarith, e2⟩

/-- a positive margin over the runner-up makes the reported lag the strict maximiser of the table -/
theorem peakOfTable_margin (tbl : List (List Int × Rat)) (pk : Peak) (h : peakOfTable tbl = some pk)
    (hm : ∀ r, pk.runnerUp = some r → r < pk.value) :
    (pk.lag, pk.value) ∈ tbl ∧ ∀ q ∈ tbl, q.1 ≠ pk.lag → q.2 < pk.value := by
  cases tbl with
  | nil => simp [peakOfTable] at h
  | cons p ps =>
    simp only [peakOfTable, Option.some.injEq] at h
    obtain ⟨e1, e2, e3⟩ := foldl_bestPair ps p
    generalize hbest : ps.foldl (fun best q => if best.2 < q.2 then q else best) p = best at h e1 e2 e3
    subst h
    simp only at hm ⊢
    refine ⟨?_, ?_⟩
    · rcases e1 with e | e
      · rw [e]; simp
      · exact List.mem_cons_of_mem _ e
    · intro q hq hne
      have hmem : q.2 ∈ ((p :: ps).filter (fun q => q.1 != best.1)).map (·.2) := by
        apply List.mem_map.mpr
        exact ⟨q, List.mem_filter.mpr ⟨hq, by simpa using hne⟩, rfl⟩
      generalize hoth : ((p :: ps).filter (fun q => q.1 != best.1)).map (·.2) = others at hm hmem
      cases others with
      | nil => simp at hmem
      | cons o os =>
        simp only at hm
        have hr := hm _ rfl
        obtain ⟨f1, f2⟩ := foldl_maxR os o
        rcases List.mem_cons.mp hmem with e | e
        · rw [e]; linarith
        · have := f2 _ e; linarith

/-! ### dot products of windows -/

theorem lin_eq_dot (bs : List Nat) (A : List Int → Rat) (B : List Nat → Rat) (ls : List Int)
    (h : ls.length = bs.length) :
    lin bs A B ls = dot bs (fun n => A (List.zipWith (· + ·) (n.map Int.ofNat) ls)) B := by
  induction bs generalizing A B ls with
  | nil =>
    cases ls with
    | nil => simp [lin, dot]
    | cons _ _ => simp at h
  | cons b bs ih =>
    cases ls with
    | nil => simp at h
    | cons l0 ls =>
      simp only [lin, dot]
      apply sumRange_congr
      intro n _
      rw [ih _ _ ls (by simpa using h)]
      rfl

theorem dot_congr (sh : List Nat) (F F' G G' : List Nat → Rat)
    (hF : ∀ n, inBox n sh = true → F n = F' n) (hG : ∀ n, inBox n sh = true → G n = G' n) :
    dot sh F G = dot sh F' G' := by
  induction sh generalizing F F' G G' with
  | nil => simp only [dot]; rw [hF [] rfl, hG [] rfl]
  | cons s ss ih =>
    simp only [dot]
    apply sumRange_congr
    intro n hn
    apply ih
    · intro r hr; exact hF (n :: r) (by simp [inBox, hn, hr])
    · intro r hr; exact hG (n :: r) (by simp [inBox, hn, hr])

theorem two_dot_le (sh : List Nat) (F G : List Nat → Rat) : 2 * dot sh F G ≤ dot sh F F + dot sh G G := by
  induction sh generalizing F G with
  | nil => simp only [dot]; nlinarith [sq_nonneg (F [] - G [])]
  | cons s ss ih =>
    simp only [dot]
    rw [← sumRange_add, sumRange_eq, sumRange_eq, Finset.mul_sum]
    exact Finset.sum_le_sum (fun n _ => ih _ _)

theorem two_dot_lt (sh : List Nat) (F G : List Nat → Rat) (n : List Nat) (hn : inBox n sh = true)
    (hne : F n ≠ G n) : 2 * dot sh F G < dot sh F F + dot sh G G := by
  induction sh generalizing F G n with
  | nil =>
    cases n with
    | nil =>
      simp only [dot]
      have : F [] - G [] ≠ 0 := sub_ne_zero.mpr hne
      nlinarith [sq_pos_of_ne_zero this]
    | cons _ _ => simp [inBox] at hn
  | cons s ss ih =>
    cases n with
    | nil => simp [inBox] at hn
    | cons n0 ns =>
      simp only [inBox, Bool.and_eq_true, decide_eq_true_eq] at hn
      simp only [dot]
      rw [← sumRange_add, sumRange_eq, sumRange_eq, Finset.mul_sum]
      apply Finset.sum_lt_sum
      · intro i _; exact two_dot_le _ _ _
      · exact ⟨n0, Finset.mem_range.mpr hn.1, ih _ _ ns hn.2 hne⟩

/-- the cross-correlation at lag `l` is the dot product of the window of `a` at `l` with `b` -/
theorem xcorr_eq_dot (a b : Img) (l : List Int) (hl : l.length = b.shape.length) :
    xcorr a b l = dot b.shape (shiftRead a l) b.get :=
  lin_eq_dot b.shape (zext a.shape a.get) b.get l hl

/-- **Cauchy–Schwarz for a window**: if `b` is the window of (zero-extended) `a` at `t`, the window at
`l` has no more energy than the window at `t` and differs from it somewhere, then the correlation at
`l` is strictly below the correlation at `t` -/
theorem window_peak (a b : Img) (t l : List Int) (ht : t.length = b.shape.length) (hl : l.length = b.shape.length)
    (hwin : ∀ n, inBox n b.shape = true → b.get n = shiftRead a t n)
    (hE : winEnergy a b.shape l ≤ winEnergy a b.shape t)
    (n : List Nat) (hn : inBox n b.shape = true) (hd : shiftRead a l n ≠ shiftRead a t n) :
    xcorr a b l < xcorr a b t := by
  rw [xcorr_eq_dot a b l hl, xcorr_eq_dot a b t ht]
  rw [dot_congr b.shape (shiftRead a l) (shiftRead a l) b.get (shiftRead a t) (fun _ _ => rfl) hwin,
    dot_congr b.shape (shiftRead a t) (shiftRead a t) b.get (shiftRead a t) (fun _ _ => rfl) hwin]
  have h := two_dot_lt b.shape (shiftRead a l) (shiftRead a t) n hn hd
  unfold winEnergy at hE
  linarith

/-! ### the merge on the whole canvas -/

section merge
open Pew.Overlap

theorem allIdxO_length (s : List Nat) (p : Idx) (h : p ∈ Pew.Overlap.allIdx s) : p.length = s.length := by
  induction s generalizing p with
  | nil => simp [Pew.Overlap.allIdx] at h; simp [h]
  | cons x xs ih =>
    simp only [Pew.Overlap.allIdx, List.mem_flatMap, List.mem_range, List.mem_map] at h
    obtain ⟨i, _, r, hr, rfl⟩ := h
    simp [ih r hr]

theorem sub_shift (p off mo : List Int) (h1 : p.length = mo.length) (h2 : off.length = mo.length) :
    Pew.Overlap.sub (List.zipWith (· + ·) p mo) off = Pew.Overlap.sub p (Pew.Overlap.sub off mo) := by
  induction p generalizing off mo with
  | nil => simp [Pew.Overlap.sub]
  | cons x xs ih =>
    cases mo with
    | nil => simp at h1
    | cons m ms =>
      cases off with
      | nil => simp at h2
      | cons o os =>
        simp only [Pew.Overlap.sub, List.zipWith_cons_cons, List.cons.injEq]
        exact ⟨by omega, ih os ms (by simpa using h1) (by simpa using h2)⟩

theorem any_congr_mem {α : Type} (l : List α) (f g : α → Bool) (h : ∀ x ∈ l, f x = g x) : l.any f = l.any g := by
  induction l with
  | nil => rfl
  | cons x xs ih =>
    simp only [List.any_cons]
    rw [h x (by simp), ih (fun y hy => h y (by simp [hy]))]

/-- covering a canvas pixel after normalisation = covering the corresponding scene pixel before -/
theorem inside_normalised (a : Arr) (mo p : List Int) (h1 : p.length = mo.length) (h2 : a.off.length = mo.length) :
    ({ a with off := Pew.Overlap.sub a.off mo } : Arr).inside p = a.inside (List.zipWith (· + ·) p mo) := by
  simp only [Arr.inside]
  rw [sub_shift p a.off mo h1 h2]
  congr 1
  simp [Pew.Overlap.sub, List.length_zipWith, h1, h2]

end merge

end Pew.Register
