import PewProofs.Filters
import PewProofs.FiltersFloat

/-! helper lemmas for C13: the mean filter with its arithmetic left open, on constant images -/
namespace Pew.Filters

theorem mean_const (l : List Rat) (c : Rat) (hne : l ≠ []) (h : ∀ v ∈ l, v = c) : mean l = c := by
  have := mean_in_range c c l hne (fun v hv => by rw [h v hv]; exact ⟨le_refl _, le_refl _⟩)
  exact le_antisymm this.2 this.1

/-- a statistic that returns `c` for up to `N` copies of `c` -/
def FixesConst (N : Nat) (c : Rat) (π : List Rat → Rat) : Prop :=
  ∀ l : List Rat, l ≠ [] → l.length ≤ N → (∀ v ∈ l, v = c) → π l = c

theorem replicate_congr_of_pos {α} (h : Nat) (a b : α) (hab : 0 < h → a = b) :
    List.replicate h a = List.replicate h b := by
  by_cases h0 : h = 0
  · subst h0; rfl
  · rw [hab (Nat.pos_of_ne_zero h0)]

/-- on a constant line the padded line does not depend on which such statistic pads it -/
theorem pad1_congr_const (π : List Rat → Rat) (N : Nat) (c : Rat) (hπ : FixesConst N c π) (h : Nat) (x : List Rat)
    (hne : x ≠ []) (hN : h ≤ N) (hc : ∀ v ∈ x, v = c) : pad1 π h x = pad1 mean h x := by
  unfold pad1 padEnds
  have hlen : 0 < x.length := List.length_pos_iff.mpr hne
  have e1 : 0 < h → π (x.take h) = mean (x.take h) := by
    intro hp
    have ne : x.take h ≠ [] := List.ne_nil_of_length_pos (by rw [List.length_take]; omega)
    have hall : ∀ v ∈ x.take h, v = c := fun v hv => hc v (List.mem_of_mem_take hv)
    rw [hπ _ ne (by rw [List.length_take]; omega) hall, mean_const _ c ne hall]
  have e2 : 0 < h → π (x.drop (x.length - h)) = mean (x.drop (x.length - h)) := by
    intro hp
    have ne : x.drop (x.length - h) ≠ [] := List.ne_nil_of_length_pos (by rw [List.length_drop]; omega)
    have hall : ∀ v ∈ x.drop (x.length - h), v = c := fun v hv => hc v (List.mem_of_mem_drop hv)
    rw [hπ _ ne (by rw [List.length_drop]; omega) hall, mean_const _ c ne hall]
  rw [replicate_congr_of_pos h _ _ e1, replicate_congr_of_pos h _ _ e2]

theorem getElem?_cellsG1 {β} (π : List Rat → Rat) (g : Rat → List Rat → β) (h : Nat) (x : List Rat)
    (i : Nat) (hi : i < x.length) :
    (cellsG1 π g (2 * h + 1) x)[i]? = some (g x[i] (slice i (2 * h + 1) (pad1 π h x))) := by
  unfold cellsG1
  rw [half_odd, List.getElem?_zipWith, getElem?_windows1 _ _ _ (by rw [pad1_length]; omega)]
  simp [hi]

theorem cellsG1_length {β} (π : List Rat → Rat) (g : Rat → List Rat → β) (h : Nat) (x : List Rat) :
    (cellsG1 π g (2 * h + 1) x).length = x.length := by
  unfold cellsG1
  rw [half_odd, List.length_zipWith, windows1_length, pad1_length]
  omega

/-- 1-D: with pad statistic and masked mean that return `c` for copies of `c`, and ANY outlier
decision, a constant line comes back unchanged -/
theorem rollingG1_const (π μm : List Rat → Rat) (dec : Rat → List Rat → Bool) (N h : Nat) (x : List Rat) (c : Rat)
    (h1 : 1 ≤ h) (hN : 2 * h + 1 ≤ N) (hπ : FixesConst N c π) (hμ : FixesConst N c μm)
    (hc : ∀ v ∈ x, v = c) : rollingG1 π μm dec (2 * h + 1) x = x := by
  unfold rollingG1
  apply List.ext_getElem (cellsG1_length _ _ h x)
  intro i hi1 hi
  have hne : x ≠ [] := by intro e; simp [e] at hi
  have key := getElem?_cellsG1 π (fun xi w => if dec xi w then μm (w.eraseIdx ((2 * h + 1) / 2)) else xi) h x i hi
  rw [List.getElem?_eq_getElem hi1] at key
  have key := Option.some.inj key
  rw [key]
  have hxi : x[i] = c := hc _ (List.getElem_mem hi)
  split
  · rw [half_odd, pad1_congr_const π N c hπ h x hne (by omega) hc, hxi]
    have hreal : ∀ v ∈ realWin1 h x i, c ≤ v ∧ v ≤ c := by
      intro v hv
      rw [hc v (mem_of_mem_slice _ _ _ _ hv)]; exact ⟨le_refl _, le_refl _⟩
    have hw := window1_in_range mean rangeStat_mean h i x c c hi hreal
    have hlen : (slice i (2 * h + 1) (pad1 mean h x)).length = 2 * h + 1 :=
      slice_length_of_le _ _ _ (by rw [pad1_length]; omega)
    apply hμ
    · intro e
      have : ((slice i (2 * h + 1) (pad1 mean h x)).eraseIdx h).length = 0 := by rw [e]; rfl
      rw [List.length_eraseIdx_of_lt (by omega), hlen] at this
      omega
    · rw [List.length_eraseIdx_of_lt (by omega), hlen]; omega
    · intro v hv
      have := hw v (List.mem_of_mem_eraseIdx hv)
      exact le_antisymm this.2 this.1
  · rfl

/-! ### 2-D -/

theorem column_const (rows : List (List Rat)) (n1 j : Nat) (c : Rat) (hj : j < n1)
    (hrect : ∀ r ∈ rows, r.length = n1) (hc : ∀ r ∈ rows, ∀ v ∈ r, v = c) :
    ∀ v ∈ column rows j, v = c := by
  intro v hv
  unfold column at hv
  rw [List.mem_map] at hv
  obtain ⟨r, hr, rfl⟩ := hv
  have hl : j < r.length := by rw [hrect r hr]; exact hj
  have : r.getD j 0 = r[j] := by simp [List.getD, hl]
  rw [this]
  exact hc r hr _ (List.getElem_mem hl)

theorem colStat_congr_const (π : List Rat → Rat) (N : Nat) (c : Rat) (hπ : FixesConst N c π) (n1 : Nat)
    (rows : List (List Rat)) (hne : rows ≠ []) (hN : rows.length ≤ N)
    (hrect : ∀ r ∈ rows, r.length = n1) (hc : ∀ r ∈ rows, ∀ v ∈ r, v = c) :
    colStat π n1 rows = colStat mean n1 rows ∧ ∀ v ∈ colStat mean n1 rows, v = c := by
  have hcol : ∀ j, j < n1 → π (column rows j) = c ∧ mean (column rows j) = c := by
    intro j hj
    have hall := column_const rows n1 j c hj hrect hc
    have ne : column rows j ≠ [] := by
      intro e; have := congrArg List.length e; simp [column] at this; exact hne this
    exact ⟨hπ _ ne (by simp [column]; exact hN) hall, mean_const _ c ne hall⟩
  constructor
  · unfold colStat
    apply List.map_congr_left
    intro j hj
    have := hcol j (List.mem_range.mp hj)
    rw [this.1, this.2]
  · intro v hv
    unfold colStat at hv
    rw [List.mem_map] at hv
    obtain ⟨j, hj, rfl⟩ := hv
    exact (hcol j (List.mem_range.mp hj)).2

/-- on a constant image the padded image does not depend on which such statistic pads it -/
theorem pad2_congr_const (π : List Rat → Rat) (N : Nat) (c : Rat) (hπ : FixesConst N c π) (h0 h1 n1 : Nat)
    (x : List (List Rat)) (hne : x ≠ []) (hn1 : 1 ≤ n1) (hN0 : h0 ≤ N) (hN1 : h1 ≤ N)
    (hrect : ∀ r ∈ x, r.length = n1) (hc : ∀ r ∈ x, ∀ v ∈ r, v = c) :
    pad2 π h0 h1 x = pad2 mean h0 h1 x := by
  have hhead : (x.headD []).length = n1 := headD_length_of_forall x n1 hne hrect
  have hlen : 0 < x.length := List.length_pos_iff.mpr hne
  unfold pad2
  simp only [hhead]
  -- the two blocks of pad rows
  have top : 0 < h0 → colStat π n1 (x.take h0) = colStat mean n1 (x.take h0) ∧
      ∀ v ∈ colStat mean n1 (x.take h0), v = c := by
    intro hp
    apply colStat_congr_const π N c hπ n1
    · exact List.ne_nil_of_length_pos (by rw [List.length_take]; omega)
    · rw [List.length_take]; omega
    · exact fun r hr => hrect r (List.mem_of_mem_take hr)
    · exact fun r hr => hc r (List.mem_of_mem_take hr)
  have bot : 0 < h0 → colStat π n1 (x.drop (x.length - h0)) = colStat mean n1 (x.drop (x.length - h0)) ∧
      ∀ v ∈ colStat mean n1 (x.drop (x.length - h0)), v = c := by
    intro hp
    apply colStat_congr_const π N c hπ n1
    · exact List.ne_nil_of_length_pos (by rw [List.length_drop]; omega)
    · rw [List.length_drop]; omega
    · exact fun r hr => hrect r (List.mem_of_mem_drop hr)
    · exact fun r hr => hc r (List.mem_of_mem_drop hr)
  have eA : padEnds h0 (colStat π n1 (x.take h0)) (colStat π n1 (x.drop (x.length - h0))) x
      = padEnds h0 (colStat mean n1 (x.take h0)) (colStat mean n1 (x.drop (x.length - h0))) x := by
    unfold padEnds
    rw [replicate_congr_of_pos h0 _ _ (fun hp => (top hp).1), replicate_congr_of_pos h0 _ _ (fun hp => (bot hp).1)]
  rw [eA]
  apply List.map_congr_left
  intro q hq
  have hq' : q.length = n1 ∧ ∀ v ∈ q, v = c := by
    simp only [padEnds, List.mem_append, List.mem_replicate] at hq
    rcases hq with (⟨hp, rfl⟩ | hq) | ⟨hp, rfl⟩
    · exact ⟨colStat_length _ _ _, (top (Nat.pos_of_ne_zero hp)).2⟩
    · exact ⟨hrect q hq, hc q hq⟩
    · exact ⟨colStat_length _ _ _, (bot (Nat.pos_of_ne_zero hp)).2⟩
  apply pad1_congr_const π N c hπ h1 q _ hN1 hq'.2
  intro e; rw [e] at hq'; simp at hq'; omega

theorem getElem?_cellsG2 {β} (π : List Rat → Rat) (g : Rat → List (List Rat) → β) (h0 h1 n1 : Nat)
    (x : List (List Rat)) (hrect : ∀ r ∈ x, r.length = n1) (i j : Nat) (hi : i < x.length) (hj : j < n1) :
    ((cellsG2 π g (2 * h0 + 1) (2 * h1 + 1) x)[i]?).bind (fun r => r[j]?) =
      some (g (at2 x i j) (window2 i j (2 * h0 + 1) (2 * h1 + 1) (pad2 π h0 h1 x))) := by
  have hne : x ≠ [] := by intro h; simp [h] at hi
  have hrow := pad2_row_length π h0 h1 n1 x hrect hne
  have hpne : pad2 π h0 h1 x ≠ [] := by
    intro h; have := pad2_length π h0 h1 x; rw [h] at this; simp at this; omega
  have hhead := headD_length_of_forall _ _ hpne hrow
  have hw := getElem?_windows2 (2 * h0 + 1) (2 * h1 + 1) (pad2 π h0 h1 x) i j
    (by rw [pad2_length]; omega) (by rw [hhead]; omega)
  unfold cellsG2
  rw [half_odd, half_odd, List.getElem?_zipWith]
  have hxi : x[i]? = some x[i] := List.getElem?_eq_getElem hi
  have hlen : x[i].length = n1 := hrect _ (List.getElem_mem hi)
  cases hwi : (windows2 (2 * h0 + 1) (2 * h1 + 1) (pad2 π h0 h1 x))[i]? with
  | none => rw [hwi] at hw; simp at hw
  | some wrow =>
    rw [hwi] at hw
    simp only [Option.bind_some] at hw
    simp only [hxi, Option.bind_some, List.getElem?_zipWith, hw]
    have : x[i][j]? = some x[i][j] := List.getElem?_eq_getElem (by omega)
    simp [this, at2, List.getD, hxi]

theorem cellsG2_shape {β} (π : List Rat → Rat) (g : Rat → List (List Rat) → β) (h0 h1 n1 : Nat)
    (x : List (List Rat)) (hrect : ∀ r ∈ x, r.length = n1) :
    (cellsG2 π g (2 * h0 + 1) (2 * h1 + 1) x).length = x.length ∧
    ∀ r ∈ cellsG2 π g (2 * h0 + 1) (2 * h1 + 1) x, r.length = n1 := by
  by_cases hne : x = []
  · subst hne; simp [cellsG2]
  have hrow := pad2_row_length π h0 h1 n1 x hrect hne
  have hpne : pad2 π h0 h1 x ≠ [] := by
    intro h; have := pad2_length π h0 h1 x; rw [h] at this; simp at this
    have : 0 < x.length := List.length_pos_iff.mpr hne
    omega
  have hhead := headD_length_of_forall _ _ hpne hrow
  unfold cellsG2
  rw [half_odd, half_odd]
  constructor
  · rw [List.length_zipWith]
    simp only [windows2, List.length_map, List.length_range, pad2_length]
    omega
  · intro r hr
    rw [List.mem_iff_getElem?] at hr
    obtain ⟨i, hi⟩ := hr
    rw [List.getElem?_zipWith] at hi
    cases hx : x[i]? with
    | none => rw [hx] at hi; simp at hi
    | some row =>
      cases hwr : (windows2 (2 * h0 + 1) (2 * h1 + 1) (pad2 π h0 h1 x))[i]? with
      | none => rw [hx, hwr] at hi; simp at hi
      | some wrow =>
        rw [hx, hwr] at hi
        simp only [Option.map_some, Option.bind_some] at hi
        have hrl : row.length = n1 := hrect row (List.mem_of_getElem? hx)
        have hwl : wrow.length = n1 := by
          simp only [windows2, List.getElem?_map] at hwr
          cases hr2 : (List.range ((pad2 π h0 h1 x).length + 1 - (2 * h0 + 1)))[i]? with
          | none => rw [hr2] at hwr; simp at hwr
          | some k =>
            rw [hr2] at hwr
            simp only [Option.map_some] at hwr
            have := Option.some.inj hwr
            rw [← this, List.length_map, List.length_range, hhead]
            omega
        have := Option.some.inj hi
        rw [← this, List.length_zipWith, hrl, hwl]
        omega

theorem length_flatten_le (L : List (List Rat)) (m : Nat) (h : ∀ r ∈ L, r.length ≤ m) :
    L.flatten.length ≤ L.length * m := by
  induction L with
  | nil => simp
  | cons a L ih =>
    have h1 := h a (by simp)
    have h2 := ih (fun r hr => h r (by simp [hr]))
    simp only [List.flatten_cons, List.length_append, List.length_cons]
    have : (L.length + 1) * m = L.length * m + m := by ring
    omega

theorem length_modify_eraseIdx_le (W : List (List Rat)) (a b m : Nat) (h : ∀ r ∈ W, r.length ≤ m) :
    ∀ r ∈ W.modify a (fun r => r.eraseIdx b), r.length ≤ m := by
  intro r hr
  rw [List.mem_iff_getElem?] at hr
  obtain ⟨k, hk⟩ := hr
  rw [List.getElem?_modify] at hk
  cases hW : W[k]? with
  | none => rw [hW] at hk; simp at hk
  | some q =>
    rw [hW] at hk
    have hq := h q (List.mem_of_getElem? hW)
    simp only [Functor.map, Option.map_some] at hk
    have := Option.some.inj hk
    rw [← this]
    split
    · have := List.length_eraseIdx_le q b; omega
    · exact hq

/-- 2-D: the same statement -/
theorem rollingG2_const (π μm : List Rat → Rat) (dec : Rat → List (List Rat) → Bool) (N h0 h1 n1 : Nat)
    (x : List (List Rat)) (c : Rat) (hrect : ∀ r ∈ x, r.length = n1) (hh0 : 1 ≤ h0) (hn1 : 1 ≤ n1)
    (hN : (2 * h0 + 1) * (2 * h1 + 1) ≤ N) (hπ : FixesConst N c π) (hμ : FixesConst N c μm)
    (hc : ∀ r ∈ x, ∀ v ∈ r, v = c) : rollingG2 π μm dec (2 * h0 + 1) (2 * h1 + 1) x = x := by
  unfold rollingG2
  set g : Rat → List (List Rat) → Rat :=
    fun xi w => if dec xi w then μm (maskCentre2 ((2 * h0 + 1) / 2) ((2 * h1 + 1) / 2) w) else xi with hg
  obtain ⟨l1, r1⟩ := cellsG2_shape π g h0 h1 n1 x hrect
  have hNb : 2 * h0 + 1 ≤ N ∧ 2 * h1 + 1 ≤ N := by
    constructor
    · calc 2 * h0 + 1 = (2 * h0 + 1) * 1 := by ring
        _ ≤ (2 * h0 + 1) * (2 * h1 + 1) := Nat.mul_le_mul_left _ (by omega)
        _ ≤ N := hN
    · calc 2 * h1 + 1 = 1 * (2 * h1 + 1) := by ring
        _ ≤ (2 * h0 + 1) * (2 * h1 + 1) := Nat.mul_le_mul_right _ (by omega)
        _ ≤ N := hN
  apply ext_getElem?2 _ _ _ l1
  · intro i h1' h2'
    rw [r1 _ (List.getElem_mem h1'), hrect _ (List.getElem_mem h2')]
  intro i j
  by_cases hi : i < x.length
  swap
  · rw [List.getElem?_eq_none (by omega), List.getElem?_eq_none (by omega)]
  have hi' : i < (cellsG2 π g (2 * h0 + 1) (2 * h1 + 1) x).length := by omega
  by_cases hj : j < n1
  swap
  · rw [List.getElem?_eq_getElem hi, List.getElem?_eq_getElem hi', Option.bind_some, Option.bind_some,
      List.getElem?_eq_none (by rw [r1 _ (List.getElem_mem hi')]; omega),
      List.getElem?_eq_none (by rw [hrect _ (List.getElem_mem hi)]; omega)]
  have hne : x ≠ [] := by intro e; simp [e] at hi
  rw [getElem?_cellsG2 π g h0 h1 n1 x hrect i j hi hj]
  have hlen : x[i].length = n1 := hrect _ (List.getElem_mem hi)
  have hx : (x[i]?).bind (fun r => r[j]?) = some c := by
    rw [List.getElem?_eq_getElem hi, Option.bind_some, List.getElem?_eq_getElem (by omega)]
    exact congrArg some (hc _ (List.getElem_mem hi) _ (List.getElem_mem _))
  have hat : at2 x i j = c := by
    rw [at2_eq x i j hi (by omega)]
    exact hc _ (List.getElem_mem hi) _ (List.getElem_mem _)
  rw [hx, hg]
  simp only
  congr 1
  split
  · rw [half_odd, half_odd, pad2_congr_const π N c hπ h0 h1 n1 x hne hn1 (by omega) (by omega) hrect hc]
    have hreal : ∀ v ∈ realWin2 h0 h1 x i j, c ≤ v ∧ v ≤ c := by
      intro v hv
      unfold realWin2 at hv
      rw [List.mem_flatten] at hv
      obtain ⟨R, hR, hvR⟩ := hv
      rw [List.mem_map] at hR
      obtain ⟨r, hr, rfl⟩ := hR
      have := hc r (mem_of_mem_slice _ _ _ _ hr) v (mem_of_mem_slice _ _ _ _ hvR)
      rw [this]; exact ⟨le_refl _, le_refl _⟩
    have hw := window2_in_range mean rangeStat_mean h0 h1 n1 i j x hrect c c hi hj hreal
    obtain ⟨r0, e, hr0, he⟩ := window2_first_row mean h0 h1 n1 i j x hrect hi hj
    apply hμ
    · exact maskCentre2_ne_nil h0 h1 _ r0 e hh0 hr0 he
    · unfold maskCentre2
      have hrows : ∀ r ∈ window2 i j (2 * h0 + 1) (2 * h1 + 1) (pad2 mean h0 h1 x), r.length ≤ 2 * h1 + 1 := by
        intro r hr
        unfold window2 at hr
        rw [List.mem_map] at hr
        obtain ⟨q, _, rfl⟩ := hr
        rw [slice_length]; exact Nat.min_le_left _ _
      have hcnt : (window2 i j (2 * h0 + 1) (2 * h1 + 1) (pad2 mean h0 h1 x)).length ≤ 2 * h0 + 1 := by
        unfold window2
        rw [List.length_map, slice_length]; exact Nat.min_le_left _ _
      have h3 := length_flatten_le _ (2 * h1 + 1)
        (length_modify_eraseIdx_le _ h0 h1 (2 * h1 + 1) hrows)
      rw [List.length_modify] at h3
      calc _ ≤ (window2 i j (2 * h0 + 1) (2 * h1 + 1) (pad2 mean h0 h1 x)).length * (2 * h1 + 1) := h3
        _ ≤ (2 * h0 + 1) * (2 * h1 + 1) := Nat.mul_le_mul_right _ hcnt
        _ ≤ N := hN
    · intro v hv
      have := hw v (mem_flatten_modify_eraseIdx _ _ _ _ hv)
      exact le_antisymm this.2 this.1
  · exact hat

/-! ### a rounded mean of copies of `c` is an `FExpr` -/

namespace FExpr

theorem seqSum_succ_succ (n : Nat) : seqSum (n + 2) = .add (seqSum (n + 1)) .c := rfl

theorem seqSum_weight (n : Nat) (hn : 1 ≤ n) : (seqSum n).weight = (n : Rat) := by
  induction n with
  | zero => omega
  | succ n ih =>
    cases n with
    | zero => simp [seqSum, weight]
    | succ m =>
      rw [seqSum_succ_succ]
      simp only [weight]
      rw [ih (by omega)]
      push_cast; ring

theorem natUpTo_natCast (N k : Nat) (hk : k ≤ N) : natUpTo N (k : Rat) = true := by
  simp [natUpTo, hk]

theorem seqSum_wf (N n : Nat) (hn : 1 ≤ n) (hN : n ≤ N) : (seqSum n).wf N = true := by
  induction n with
  | zero => omega
  | succ n ih =>
    cases n with
    | zero => simp [seqSum, wf]; omega
    | succ m =>
      rw [seqSum_succ_succ]
      simp only [wf, Bool.and_eq_true]
      refine ⟨⟨ih (by omega) (by omega), by simp [wf]; omega⟩, ?_⟩
      rw [seqSum_weight _ (by omega)]
      have : ((m + 1 : Nat) : Rat) + weight .c = ((m + 2 : Nat) : Rat) := by simp [weight]; ring
      rw [this]
      exact natUpTo_natCast N _ hN

theorem foldl_eq_seqSum (fl : Rat → Rat) (c : Rat) (r : List Rat) (hr : ∀ v ∈ r, v = c) (k : Nat) :
    r.foldl (fun s v => fl (s + v)) ((seqSum (k + 1)).eval fl c) = (seqSum (k + 1 + r.length)).eval fl c := by
  induction r generalizing k with
  | nil => rfl
  | cons a r ih =>
    have ha : a = c := hr a (by simp)
    rw [List.foldl_cons, ha]
    have : fl ((seqSum (k + 1)).eval fl c + c) = (seqSum (k + 1 + 1)).eval fl c := by
      rw [seqSum_succ_succ]; rfl
    rw [this, ih (fun v hv => hr v (by simp [hv])) (k + 1)]
    congr 2
    simp only [List.length_cons]; omega

end FExpr

/-- the left-to-right rounded mean of `n ≥ 1` copies of `c` is the expression `divn (seqSum n) n` -/
theorem flMean_const_eq (fl : Rat → Rat) (c : Rat) (l : List Rat) (hne : l ≠ []) (hl : ∀ v ∈ l, v = c) :
    flMean fl l = (FExpr.divn (FExpr.seqSum l.length) l.length).eval fl c := by
  cases l with
  | nil => exact absurd rfl hne
  | cons a r =>
    have ha : a = c := hl a (by simp)
    have h0 : (FExpr.seqSum (0 + 1)).eval fl c = c := rfl
    have := FExpr.foldl_eq_seqSum fl c r (fun v hv => hl v (by simp [hv])) 0
    rw [h0] at this
    simp only [flMean, FExpr.eval, ha, this, List.length_cons]
    have e : 0 + 1 + r.length = r.length + 1 := by omega
    rw [e]

/-- exact on the numbers of the format + all partial sums are numbers of the format ⇒ the rounded
mean returns `c` for up to `N` copies of `c` -/
theorem flMean_fixesConst (fl : Rat → Rat) (p : Nat) (emin : Int) (N : Nat) (c : Rat)
    (hfl : ∀ q, isBin p emin q = true → fl q = q) (hs : sumsExact p emin N c = true) :
    FixesConst N c (flMean fl) := by
  intro l hne hlen hall
  have hpos : 1 ≤ l.length := List.length_pos_iff.mpr hne
  rw [flMean_const_eq fl c l hne hall]
  have hwf : (FExpr.divn (FExpr.seqSum l.length) l.length).wf N = true := by
    simp only [FExpr.wf, Bool.and_eq_true]
    refine ⟨⟨FExpr.seqSum_wf N _ hpos hlen, by simp; omega⟩, ?_⟩
    rw [FExpr.seqSum_weight _ hpos, div_self (by exact_mod_cast (by omega : l.length ≠ 0))]
    have := FExpr.natUpTo_natCast N 1 (by omega)
    simpa using this
  rw [FExpr.eval_exact fl p emin N c hfl hs _ hwf]
  simp only [FExpr.weight]
  rw [FExpr.seqSum_weight _ hpos, div_self (by exact_mod_cast (by omega : l.length ≠ 0)), one_mul]

end Pew.Filters
