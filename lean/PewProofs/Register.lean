import PewModel.Register
import PewProofs.Overlap
import Mathlib.Tactic.Ring
import Mathlib.Tactic.Linarith
import Mathlib.Tactic.FieldSimp
import Mathlib.Tactic.Positivity
import Mathlib.Algebra.Order.Field.Rat
import Mathlib.Algebra.BigOperators.Group.Finset.Basic
import Mathlib.Algebra.BigOperators.Intervals
import Mathlib.Algebra.BigOperators.Ring.Finset
import Mathlib.Algebra.Order.BigOperators.Group.Finset

namespace Pew.Register
open Finset

/-! ### sums -/

theorem sumRange_eq (n : Nat) (f : Nat → Rat) : sumRange n f = ∑ i ∈ range n, f i := by
  induction n with
  | zero => simp [sumRange]
  | succ n ih => rw [sumRange, ih, Finset.sum_range_succ]

theorem sumRange_congr (n : Nat) (f g : Nat → Rat) (h : ∀ i, i < n → f i = g i) :
    sumRange n f = sumRange n g := by
  rw [sumRange_eq, sumRange_eq]
  exact Finset.sum_congr rfl (fun i hi => h i (Finset.mem_range.mp hi))

theorem sumRange_zero (n : Nat) (f : Nat → Rat) (h : ∀ i, i < n → f i = 0) : sumRange n f = 0 := by
  rw [sumRange_eq]
  exact Finset.sum_eq_zero (fun i hi => h i (Finset.mem_range.mp hi))

/-! ### one axis: encode / decode -/

theorem enc_lt (a b : Nat) (ha : 0 < a) (hb : 0 < b) (l : Int)
    (h1 : -((b : Int) - 1) ≤ l) (h2 : l ≤ (a : Int) - 1) : enc (a + b - 1) l < a + b - 1 := by
  unfold enc; split <;> omega

theorem dec_enc (a b : Nat) (ha : 0 < a) (hb : 0 < b) (l : Int)
    (h1 : -((b : Int) - 1) ≤ l) (h2 : l ≤ (a : Int) - 1) : dec a (a + b - 1) (enc (a + b - 1) l) = l := by
  unfold dec enc; split <;> split <;> omega

theorem enc_dec (a b : Nat) (ha : 0 < a) (hb : 0 < b) (k : Nat) (hk : k < a + b - 1) :
    enc (a + b - 1) (dec a (a + b - 1) k) = k ∧
      -((b : Int) - 1) ≤ dec a (a + b - 1) k ∧ dec a (a + b - 1) k ≤ (a : Int) - 1 := by
  unfold dec enc; split <;> split <;> omega

/-! ### one axis: with `s = a + b − 1` no term of the circular sum wraps -/

theorem wrap_free (a b : Nat) (ha : 0 < a) (hb : 0 < b) (F : Nat → Nat → Rat)
    (hFa : ∀ i n, a ≤ i → F i n = 0) (hFb : ∀ i n, b ≤ n → F i n = 0) (l : Int)
    (h1 : -((b : Int) - 1) ≤ l) (h2 : l ≤ (a : Int) - 1) :
    sumRange (a + b - 1) (fun n => F ((n + enc (a + b - 1) l) % (a + b - 1)) n)
      = sumRange b (fun n => if 0 ≤ (n : Int) + l ∧ (n : Int) + l < a then F ((n : Int) + l).toNat n else 0) := by
  have hs : a + b - 1 = b + (a - 1) := by omega
  rw [sumRange_eq, sumRange_eq, hs, Finset.sum_range_add]
  have hz : ∑ x ∈ range (a - 1), F ((b + x + enc (b + (a - 1)) l) % (b + (a - 1))) (b + x) = 0 :=
    Finset.sum_eq_zero (fun x _ => hFb _ _ (by omega))
  rw [hz, add_zero]
  apply Finset.sum_congr rfl
  intro n hn
  have hn : n < b := Finset.mem_range.mp hn
  unfold enc
  by_cases hl : 0 ≤ l
  · rw [if_pos hl]
    have e : (n + l.toNat) % (b + (a - 1)) = n + l.toNat := Nat.mod_eq_of_lt (by omega)
    have e2 : ((n : Int) + l).toNat = n + l.toNat := by omega
    rw [e, e2]
    split
    · rfl
    · exact hFa _ _ (by omega)
  · rw [if_neg hl]
    by_cases hnl : 0 ≤ (n : Int) + l
    · have e : (n + (l + ((b + (a - 1) : Nat) : Int)).toNat) = ((n : Int) + l).toNat + (b + (a - 1)) := by omega
      rw [e, Nat.add_mod_right, Nat.mod_eq_of_lt (by omega)]
      split
      · rfl
      · exact hFa _ _ (by omega)
    · have e : (n + (l + ((b + (a - 1) : Nat) : Int)).toNat) % (b + (a - 1)) = n + (l + ((b + (a - 1) : Nat) : Int)).toNat :=
        Nat.mod_eq_of_lt (by omega)
      rw [e, if_neg (by omega)]
      exact hFa _ _ (by omega)


/-! ### n-D helpers -/

theorem circ_zero_left (ss : List Nat) (A B : List Nat → Rat) (ks : List Nat) (h : ∀ r, A r = 0) :
    circ ss A B ks = 0 := by
  induction ss generalizing A B ks with
  | nil => simp [circ, h]
  | cons s ss ih =>
    cases ks with
    | nil => rfl
    | cons k ks =>
      simp only [circ]
      exact sumRange_zero _ _ (fun n _ => ih _ _ _ (fun r => h _))

theorem circ_zero_right (ss : List Nat) (A B : List Nat → Rat) (ks : List Nat) (h : ∀ r, B r = 0) :
    circ ss A B ks = 0 := by
  induction ss generalizing A B ks with
  | nil => simp [circ, h]
  | cons s ss ih =>
    cases ks with
    | nil => rfl
    | cons k ks =>
      simp only [circ]
      exact sumRange_zero _ _ (fun n _ => ih _ _ _ (fun r => h _))

theorem lin_zero_left (bs : List Nat) (A : List Int → Rat) (B : List Nat → Rat) (ls : List Int)
    (h : ∀ r, A r = 0) : lin bs A B ls = 0 := by
  induction bs generalizing A B ls with
  | nil => simp [lin, h]
  | cons b bs ih =>
    cases ls with
    | nil => rfl
    | cons l ls =>
      simp only [lin]
      exact sumRange_zero _ _ (fun n _ => ih _ _ _ (fun r => h _))

theorem padN_cons_lt (a : Nat) (as : List Nat) (A : List Nat → Rat) (i : Nat) (hi : i < a) :
    (fun r => padN (a :: as) A (i :: r)) = padN as (fun r => A (i :: r)) := by
  funext r
  simp [padN, inBox, hi]

theorem padN_cons_ge (a : Nat) (as : List Nat) (A : List Nat → Rat) (i : Nat) (hi : a ≤ i) (r : List Nat) :
    padN (a :: as) A (i :: r) = 0 := by
  simp [padN, inBox, Nat.not_lt.mpr hi]

theorem zext_cons_in (a : Nat) (as : List Nat) (A : List Nat → Rat) (i : Int) (h0 : 0 ≤ i) (hi : i < a) :
    (fun r => zext (a :: as) A (i :: r)) = zext as (fun r => A (i.toNat :: r)) := by
  funext r
  simp [zext, inBoxI, h0, hi]

theorem zext_cons_out (a : Nat) (as : List Nat) (A : List Nat → Rat) (i : Int) (h : ¬ (0 ≤ i ∧ i < a))
    (r : List Int) : zext (a :: as) A (i :: r) = 0 := by
  have hb : inBoxI (i :: r) (a :: as) = false := by
    simp only [inBoxI]
    by_cases h0 : 0 ≤ i
    · have : ¬ i < a := fun hi => h ⟨h0, hi⟩
      simp [this]
    · simp [h0]
  simp [zext, hb]

/-! ### first maximum -/

def bestStep (f : List Nat → Rat) (best : List Nat × Rat) (k' : List Nat) : List Nat × Rat :=
  if best.2 < f k' then (k', f k') else best

theorem foldl_best (f : List Nat → Rat) (ks : List (List Nat)) (k0 : List Nat) :
    let r := ks.foldl (fun best k' => if best.2 < f k' then (k', f k') else best) (k0, f k0)
    r.2 = f r.1 ∧ (r.1 = k0 ∨ r.1 ∈ ks) ∧ f k0 ≤ f r.1 ∧ (∀ k' ∈ ks, f k' ≤ f r.1) ∧
      ((∀ k' ∈ ks, f k' ≤ f k0) → r.1 = k0) := by
  induction ks generalizing k0 with
  | nil => simp
  | cons k ks ih =>
    simp only [List.foldl_cons]
    by_cases h : f k0 < f k
    · simp only [h, if_true]
      obtain ⟨e1, e2, e3, e4, e5⟩ := ih k
      refine ⟨e1, ?_, ?_, ?_, ?_⟩
      · rcases e2 with e | e
        · right; simp [e]
        · right; simp [e]
      · linarith
      · intro k' hk'
        rcases List.mem_cons.mp hk' with e | e
        · subst e; exact e3
        · exact e4 k' e
      · intro hall
        have := hall k (by simp)
        linarith
    · simp only [h, if_false]
      obtain ⟨e1, e2, e3, e4, e5⟩ := ih k0
      refine ⟨e1, ?_, e3, ?_, ?_⟩
      · rcases e2 with e | e
        · left; exact e
        · right; simp [e]
      · intro k' hk'
        rcases List.mem_cons.mp hk' with e | e
        · subst e; linarith
        · exact e4 k' e
      · intro hall
        exact e5 (fun k' hk' => hall k' (by simp [hk']))

/-- the first maximum is a member, is a maximum, and is the head when the head is a maximum -/
theorem argmaxFirst_spec (f : List Nat → Rat) (L : List (List Nat)) (hL : L ≠ []) :
    ∃ k, argmaxFirst f L = some (k, f k) ∧ k ∈ L ∧ (∀ k' ∈ L, f k' ≤ f k) ∧
      ((∀ k' ∈ L, f k' ≤ f (L.head hL)) → k = L.head hL) := by
  cases L with
  | nil => exact absurd rfl hL
  | cons k0 ks =>
    obtain ⟨e1, e2, e3, e4, e5⟩ := foldl_best f ks k0
    refine ⟨(ks.foldl (fun best k' => if best.2 < f k' then (k', f k') else best) (k0, f k0)).1, ?_, ?_, ?_, ?_⟩
    · simp only [argmaxFirst]
      congr 1
      exact Prod.ext rfl e1
    · rcases e2 with e | e
      · simp [e]
      · simp [e]
    · intro k' hk'
      rcases List.mem_cons.mp hk' with e | e
      · subst e; exact e3
      · exact e4 k' e
    · intro hall
      simp only [List.head_cons]
      exact e5 (fun k' hk' => hall k' (by simp [hk']))

/-! ### index boxes -/

theorem mem_allIdx (s : List Nat) (k : List Nat) : k ∈ allIdx s ↔ inBox k s = true := by
  induction s generalizing k with
  | nil => cases k <;> simp [allIdx, inBox]
  | cons s ss ih =>
    cases k with
    | nil => simp [allIdx, inBox]
    | cons k0 ks =>
      simp only [allIdx, List.mem_flatMap, List.mem_range, List.mem_map, inBox, Bool.and_eq_true,
        decide_eq_true_eq]
      constructor
      · rintro ⟨i, hi, r, hr, e⟩
        injection e with e1 e2
        subst e1; subst e2
        exact ⟨hi, (ih r).mp hr⟩
      · rintro ⟨h1, h2⟩
        exact ⟨k0, h1, ks, (ih ks).mpr h2, rfl⟩

theorem encode_inBox (sa sb : List Nat) (l : List Int)
    (hpa : ∀ a ∈ sa, 0 < a) (hpb : ∀ b ∈ sb, 0 < b) (hl : inLagBox sa sb l = true) :
    inBox (encode (padShape sa sb) l) (padShape sa sb) = true := by
  induction sa generalizing sb l with
  | nil =>
    cases sb with
    | nil => cases l <;> simp_all [inLagBox, padShape, encode, inBox]
    | cons _ _ => simp [inLagBox] at hl
  | cons a as ih =>
    cases sb with
    | nil => simp [inLagBox] at hl
    | cons b bs =>
      cases l with
      | nil => simp [inLagBox] at hl
      | cons l0 ls =>
        simp only [inLagBox, Bool.and_eq_true, decide_eq_true_eq] at hl
        obtain ⟨⟨h1, h2⟩, hls⟩ := hl
        simp only [padShape, encode, inBox, Bool.and_eq_true, decide_eq_true_eq]
        exact ⟨enc_lt a b (hpa a (by simp)) (hpb b (by simp)) l0 h1 h2,
          ih bs ls (fun x hx => hpa x (by simp [hx])) (fun x hx => hpb x (by simp [hx])) hls⟩

theorem encode_decode_nd (sa sb : List Nat) (k : List Nat) (hlen : sa.length = sb.length)
    (hpa : ∀ a ∈ sa, 0 < a) (hpb : ∀ b ∈ sb, 0 < b) (hk : inBox k (padShape sa sb) = true) :
    encode (padShape sa sb) (decode sa (padShape sa sb) k) = k ∧
      inLagBox sa sb (decode sa (padShape sa sb) k) = true := by
  induction sa generalizing sb k with
  | nil =>
    cases sb with
    | nil => cases k <;> simp_all [inLagBox, padShape, encode, decode, inBox]
    | cons _ _ => simp at hlen
  | cons a as ih =>
    cases sb with
    | nil => simp at hlen
    | cons b bs =>
      cases k with
      | nil => simp [padShape, inBox] at hk
      | cons k0 ks =>
        simp only [padShape, inBox, Bool.and_eq_true, decide_eq_true_eq] at hk
        obtain ⟨hk0, hks⟩ := hk
        have := enc_dec a b (hpa a (by simp)) (hpb b (by simp)) k0 hk0
        have ih' := ih bs ks (by simpa using hlen) (fun x hx => hpa x (by simp [hx]))
          (fun x hx => hpb x (by simp [hx])) hks
        simp only [padShape, decode, encode, inLagBox, Bool.and_eq_true, decide_eq_true_eq]
        exact ⟨by rw [this.1, ih'.1], ⟨this.2.1, this.2.2⟩, ih'.2⟩

theorem inLagBox_length (sa sb : List Nat) (l : List Int) (h : inLagBox sa sb l = true) :
    sa.length = sb.length := by
  induction sa generalizing sb l with
  | nil => cases sb <;> cases l <;> simp_all [inLagBox]
  | cons a as ih =>
    cases sb with
    | nil => simp [inLagBox] at h
    | cons b bs =>
      cases l with
      | nil => simp [inLagBox] at h
      | cons l0 ls =>
        simp only [inLagBox, Bool.and_eq_true] at h
        simp [ih bs ls h.2]

/-! ### swapping the arguments -/

/-- reindexing `m = n + l` between the two images' index ranges -/
theorem reindex (a b : Nat) (l : Int) (H : Nat → Nat → Rat) :
    sumRange b (fun n => if 0 ≤ (n : Int) + l ∧ (n : Int) + l < a then H ((n : Int) + l).toNat n else 0)
      = sumRange a (fun m => if 0 ≤ (m : Int) + -l ∧ (m : Int) + -l < b then H m ((m : Int) + -l).toNat else 0) := by
  rw [sumRange_eq, sumRange_eq, ← Finset.sum_filter, ← Finset.sum_filter]
  apply Finset.sum_nbij' (fun (n : Nat) => ((n : Int) + l).toNat) (fun (m : Nat) => ((m : Int) + -l).toNat)
  · intro n hn
    simp only [Finset.mem_filter, Finset.mem_range] at hn ⊢
    omega
  · intro m hm
    simp only [Finset.mem_filter, Finset.mem_range] at hm ⊢
    omega
  · intro n hn
    simp only [Finset.mem_filter, Finset.mem_range] at hn
    omega
  · intro m hm
    simp only [Finset.mem_filter, Finset.mem_range] at hm
    omega
  · intro n hn
    simp only [Finset.mem_filter, Finset.mem_range] at hn
    congr 1
    omega

/-- one axis of `lin` with the zero extension made explicit -/
theorem lin_cons (a b : Nat) (as bs : List Nat) (A B : List Nat → Rat) (l0 : Int) (ls : List Int) :
    lin (b :: bs) (zext (a :: as) A) B (l0 :: ls)
      = sumRange b (fun n => if 0 ≤ (n : Int) + l0 ∧ (n : Int) + l0 < a then
          lin bs (zext as (fun r => A (((n : Int) + l0).toNat :: r))) (fun r => B (n :: r)) ls else 0) := by
  simp only [lin]
  apply sumRange_congr
  intro n _
  split
  · rename_i h
    rw [zext_cons_in a as A _ h.1 h.2]
  · rename_i h
    exact lin_zero_left _ _ _ _ (fun r => zext_cons_out a as A _ h r)


theorem map_neg_neg (l : List Int) : (l.map (- ·)).map (- ·) = l := by
  induction l with
  | nil => rfl
  | cons x xs ih => simp

theorem inLagBox_len (sa sb : List Nat) (l : List Int) (h : inLagBox sa sb l = true) :
    l.length = sb.length := by
  induction sa generalizing sb l with
  | nil => cases sb <;> cases l <;> simp_all [inLagBox]
  | cons a as ih =>
    cases sb with
    | nil => simp [inLagBox] at h
    | cons b bs =>
      cases l with
      | nil => simp [inLagBox] at h
      | cons l0 ls =>
        simp only [inLagBox, Bool.and_eq_true] at h
        simp [ih bs ls h.2]

theorem inLagBox_neg (sa sb : List Nat) (l : List Int) (h : inLagBox sa sb l = true) :
    inLagBox sb sa (l.map (- ·)) = true := by
  induction sa generalizing sb l with
  | nil => cases sb <;> cases l <;> simp_all [inLagBox]
  | cons a as ih =>
    cases sb with
    | nil => simp [inLagBox] at h
    | cons b bs =>
      cases l with
      | nil => simp [inLagBox] at h
      | cons l0 ls =>
        simp only [inLagBox, Bool.and_eq_true, decide_eq_true_eq] at h
        simp only [List.map_cons, inLagBox, Bool.and_eq_true, decide_eq_true_eq]
        exact ⟨by omega, ih bs ls h.2⟩


/-! ### self-correlation -/

/-- energy of an image: `Σ_{n ∈ box} A[n]²` -/
def energy : List Nat → (List Nat → Rat) → Rat
  | [], A => A [] * A []
  | a :: as, A => sumRange a fun n => energy as (fun r => A (n :: r))

theorem energy_nonneg (sh : List Nat) (A : List Nat → Rat) : 0 ≤ energy sh A := by
  induction sh generalizing A with
  | nil => simp only [energy]; exact mul_self_nonneg _
  | cons a as ih =>
    simp only [energy]
    rw [sumRange_eq]
    exact Finset.sum_nonneg (fun n _ => ih _)

theorem sumRange_le (n : Nat) (f g : Nat → Rat) (h : ∀ i, i < n → f i ≤ g i) :
    sumRange n f ≤ sumRange n g := by
  rw [sumRange_eq, sumRange_eq]
  exact Finset.sum_le_sum (fun i hi => h i (Finset.mem_range.mp hi))

theorem sumRange_add (n : Nat) (f g : Nat → Rat) :
    sumRange n (fun i => f i + g i) = sumRange n f + sumRange n g := by
  rw [sumRange_eq, sumRange_eq, sumRange_eq, Finset.sum_add_distrib]

/-- Cauchy–Schwarz in its arithmetic–geometric form, every dimension and lag:
`Σ A[n+l]·B[n] ≤ (Σ A² + Σ B²) / 2` -/
theorem lin_le_energy (sa sb : List Nat) (A B : List Nat → Rat) (l : List Int)
    (h1 : sa.length = sb.length) (h2 : l.length = sb.length) :
    2 * lin sb (zext sa A) B l ≤ energy sa A + energy sb B := by
  induction sa generalizing sb A B l with
  | nil =>
    cases sb with
    | nil =>
      cases l with
      | nil =>
        simp only [lin, zext, inBoxI, energy, List.map_nil, if_true]
        nlinarith [sq_nonneg (A [] - B [])]
      | cons _ _ => simp at h2
    | cons _ _ => simp at h1
  | cons a as ih =>
    cases sb with
    | nil => simp at h1
    | cons b bs =>
      cases l with
      | nil => simp at h2
      | cons l0 ls =>
        rw [lin_cons]
        simp only [energy]
        -- bound every term, then re-index the `A` energies
        have step : sumRange b (fun n => if 0 ≤ (n : Int) + l0 ∧ (n : Int) + l0 < a then
              2 * lin bs (zext as (fun r => A (((n : Int) + l0).toNat :: r))) (fun r => B (n :: r)) ls else 0)
            ≤ sumRange b (fun n => (if 0 ≤ (n : Int) + l0 ∧ (n : Int) + l0 < a then
                energy as (fun r => A (((n : Int) + l0).toNat :: r)) else 0) + energy bs (fun r => B (n :: r))) := by
          apply sumRange_le
          intro n _
          split
          · exact ih bs _ _ ls (by simpa using h1) (by simpa using h2)
          · have := energy_nonneg bs (fun r => B (n :: r))
            linarith
        have e0 : 2 * sumRange b (fun n => if 0 ≤ (n : Int) + l0 ∧ (n : Int) + l0 < a then
              lin bs (zext as (fun r => A (((n : Int) + l0).toNat :: r))) (fun r => B (n :: r)) ls else 0)
            = sumRange b (fun n => if 0 ≤ (n : Int) + l0 ∧ (n : Int) + l0 < a then
              2 * lin bs (zext as (fun r => A (((n : Int) + l0).toNat :: r))) (fun r => B (n :: r)) ls else 0) := by
          rw [sumRange_eq, sumRange_eq, Finset.mul_sum]
          apply Finset.sum_congr rfl
          intro n _
          split <;> simp
        rw [e0]
        refine le_trans step ?_
        rw [sumRange_add, reindex a b l0 (fun m _ => energy as (fun r => A (m :: r)))]
        have : sumRange a (fun m => if 0 ≤ (m : Int) + -l0 ∧ (m : Int) + -l0 < b then
            energy as (fun r => A (m :: r)) else 0) ≤ sumRange a (fun m => energy as (fun r => A (m :: r))) := by
          apply sumRange_le
          intro m _
          split
          · exact le_refl _
          · exact energy_nonneg _ _
        linarith

theorem zeros_map_neg (n : Nat) : (List.replicate n (0 : Int)).map (- ·) = List.replicate n 0 := by
  simp

/-- the correlation of an image with itself at lag zero is its energy -/
theorem xcorr_self_zero (sh : List Nat) (A : List Nat → Rat) :
    lin sh (zext sh A) A (List.replicate sh.length 0) = energy sh A := by
  induction sh generalizing A with
  | nil => simp [lin, zext, inBoxI, energy]
  | cons a as ih =>
    rw [List.length_cons, List.replicate_succ, lin_cons]
    simp only [energy]
    apply sumRange_congr
    intro n hn
    rw [if_pos (by omega)]
    have : ((n : Int) + 0).toNat = n := by omega
    rw [this, ih]


theorem allIdx_head (s : List Nat) (hs : ∀ x ∈ s, 0 < x) :
    ∃ tl, allIdx s = List.replicate s.length 0 :: tl := by
  induction s with
  | nil => exact ⟨[], rfl⟩
  | cons x xs ih =>
    obtain ⟨tl, htl⟩ := ih (fun y hy => hs y (by simp [hy]))
    have hx : 0 < x := hs x (by simp)
    obtain ⟨n, rfl⟩ : ∃ n, x = n + 1 := ⟨x - 1, by omega⟩
    simp only [allIdx]
    rw [List.range_succ_eq_map, List.flatMap_cons, htl]
    exact ⟨_, rfl⟩

theorem padShape_pos (sa sb : List Nat) (hpa : ∀ x ∈ sa, 0 < x) (hpb : ∀ x ∈ sb, 0 < x) :
    ∀ x ∈ padShape sa sb, 0 < x := by
  induction sa generalizing sb with
  | nil => simp [padShape]
  | cons a as ih =>
    cases sb with
    | nil => simp [padShape]
    | cons b bs =>
      intro x hx
      simp only [padShape, List.mem_cons] at hx
      rcases hx with e | e
      · have := hpa a (by simp); have := hpb b (by simp); omega
      · exact ih bs (fun y hy => hpa y (by simp [hy])) (fun y hy => hpb y (by simp [hy])) x e

theorem padShape_length (sa sb : List Nat) (h : sa.length = sb.length) :
    (padShape sa sb).length = sa.length := by
  induction sa generalizing sb with
  | nil => simp [padShape]
  | cons a as ih =>
    cases sb with
    | nil => simp at h
    | cons b bs => simp [padShape, ih bs (by simpa using h)]

theorem inLagBox_zeros (sa sb : List Nat) (h : sa.length = sb.length)
    (hpa : ∀ x ∈ sa, 0 < x) (hpb : ∀ x ∈ sb, 0 < x) :
    inLagBox sa sb (List.replicate sa.length 0) = true := by
  induction sa generalizing sb with
  | nil => cases sb <;> simp_all [inLagBox]
  | cons a as ih =>
    cases sb with
    | nil => simp at h
    | cons b bs =>
      simp only [List.length_cons, List.replicate_succ, inLagBox, Bool.and_eq_true, decide_eq_true_eq]
      have := hpa a (by simp); have := hpb b (by simp)
      exact ⟨⟨by omega, by omega⟩, ih bs (by simpa using h) (fun y hy => hpa y (by simp [hy]))
        (fun y hy => hpb y (by simp [hy]))⟩

theorem encode_zeros (s : List Nat) : encode s (List.replicate s.length 0) = List.replicate s.length 0 := by
  induction s with
  | nil => rfl
  | cons x xs ih => simp [List.replicate_succ, encode, enc, ih]

theorem decode_zeros (sa s : List Nat) (h : s.length = sa.length) (hpa : ∀ x ∈ sa, 0 < x) :
    decode sa s (List.replicate s.length 0) = List.replicate sa.length 0 := by
  induction sa generalizing s with
  | nil => cases s <;> simp_all [decode]
  | cons a as ih =>
    cases s with
    | nil => simp at h
    | cons x xs =>
      have := hpa a (by simp)
      simp only [List.length_cons, List.replicate_succ, decode, dec]
      rw [if_pos (by omega), ih xs (by simpa using h) (fun y hy => hpa y (by simp [hy]))]
      rfl


/-! ### equality in the Cauchy–Schwarz bound -/

theorem sumRange_termwise_eq (n : Nat) (f g : Nat → Rat) (hle : ∀ i, i < n → f i ≤ g i)
    (h : sumRange n g ≤ sumRange n f) : ∀ i, i < n → f i = g i := by
  rw [sumRange_eq, sumRange_eq] at h
  have hle' : ∀ i ∈ range n, f i ≤ g i := fun i hi => hle i (Finset.mem_range.mp hi)
  have heq : ∑ i ∈ range n, f i = ∑ i ∈ range n, g i := le_antisymm (Finset.sum_le_sum hle') h
  intro i hi
  exact (Finset.sum_eq_sum_iff_of_le hle').mp heq i (Finset.mem_range.mpr hi)

theorem two_mul_sumRange_ite (n : Nat) (P : Nat → Prop) [DecidablePred P] (f : Nat → Rat) :
    2 * sumRange n (fun i => if P i then f i else 0) = sumRange n (fun i => if P i then 2 * f i else 0) := by
  rw [sumRange_eq, sumRange_eq, Finset.mul_sum]
  apply Finset.sum_congr rfl
  intro i _
  split <;> simp

theorem energy_cons (a : Nat) (as : List Nat) (A : List Nat → Rat) :
    energy (a :: as) A = sumRange a (fun m => energy as (fun r => A (m :: r))) := rfl

/-- what equality in `lin_le_energy` forces along the first axis -/
theorem defect_step (a b : Nat) (as bs : List Nat) (A B : List Nat → Rat) (l0 : Int) (ls : List Int)
    (h1 : as.length = bs.length) (h2 : ls.length = bs.length)
    (hD : energy (a :: as) A + energy (b :: bs) B ≤ 2 * lin (b :: bs) (zext (a :: as) A) B (l0 :: ls)) :
    (∀ n, n < b → 0 ≤ (n : Int) + l0 ∧ (n : Int) + l0 < a →
        energy as (fun r => A (((n : Int) + l0).toNat :: r)) + energy bs (fun r => B (n :: r))
          ≤ 2 * lin bs (zext as (fun r => A (((n : Int) + l0).toNat :: r))) (fun r => B (n :: r)) ls) ∧
    (∀ m, m < a → ¬ (0 ≤ (m : Int) + -l0 ∧ (m : Int) + -l0 < b) → energy as (fun r => A (m :: r)) = 0) ∧
    (∀ n, n < b → ¬ (0 ≤ (n : Int) + l0 ∧ (n : Int) + l0 < a) → energy bs (fun r => B (n :: r)) = 0) := by
  rw [lin_cons, two_mul_sumRange_ite, energy_cons, energy_cons] at hD
  -- the chain  Σ[R] 2L ≤ Σ[R](X + Y) = Σ[R']X + Σ[R]Y ≤ ΣX + ΣY
  have c1 : ∀ n, n < b →
      (if 0 ≤ (n : Int) + l0 ∧ (n : Int) + l0 < a then
          2 * lin bs (zext as (fun r => A (((n : Int) + l0).toNat :: r))) (fun r => B (n :: r)) ls else 0)
      ≤ (if 0 ≤ (n : Int) + l0 ∧ (n : Int) + l0 < a then
          energy as (fun r => A (((n : Int) + l0).toNat :: r)) + energy bs (fun r => B (n :: r)) else 0) := by
    intro n _
    split
    · exact lin_le_energy as bs _ _ ls h1 h2
    · exact le_refl _
  have c2 : sumRange b (fun n => if 0 ≤ (n : Int) + l0 ∧ (n : Int) + l0 < a then
          energy as (fun r => A (((n : Int) + l0).toNat :: r)) + energy bs (fun r => B (n :: r)) else 0)
      = sumRange a (fun m => if 0 ≤ (m : Int) + -l0 ∧ (m : Int) + -l0 < b then energy as (fun r => A (m :: r)) else 0)
        + sumRange b (fun n => if 0 ≤ (n : Int) + l0 ∧ (n : Int) + l0 < a then energy bs (fun r => B (n :: r)) else 0) := by
    rw [← reindex a b l0 (fun m _ => energy as (fun r => A (m :: r))), ← sumRange_add]
    apply sumRange_congr
    intro n _
    split <;> simp
  have c3 : ∀ m, m < a →
      (if 0 ≤ (m : Int) + -l0 ∧ (m : Int) + -l0 < b then energy as (fun r => A (m :: r)) else 0)
        ≤ energy as (fun r => A (m :: r)) := by
    intro m _
    split
    · exact le_refl _
    · exact energy_nonneg _ _
  have c4 : ∀ n, n < b →
      (if 0 ≤ (n : Int) + l0 ∧ (n : Int) + l0 < a then energy bs (fun r => B (n :: r)) else 0)
        ≤ energy bs (fun r => B (n :: r)) := by
    intro n _
    split
    · exact le_refl _
    · exact energy_nonneg _ _
  have s1 := sumRange_le b _ _ c1
  have s3 := sumRange_le a _ _ c3
  have s4 := sumRange_le b _ _ c4
  refine ⟨?_, ?_, ?_⟩
  · intro n hn hR
    have := sumRange_termwise_eq b _ _ c1 (by linarith) n hn
    rw [if_pos hR, if_pos hR] at this
    linarith
  · intro m hm hR
    have := sumRange_termwise_eq a _ _ c3 (by linarith) m hm
    rw [if_neg hR] at this
    exact this.symm
  · intro n hn hR
    have := sumRange_termwise_eq b _ _ c4 (by linarith) n hn
    rw [if_neg hR] at this
    exact this.symm


/-- equality in `lin_le_energy` forces equal energies -/
theorem energy_eq_of_tight (sa sb : List Nat) (A B : List Nat → Rat) (l : List Int)
    (h1 : sa.length = sb.length) (h2 : l.length = sb.length)
    (hD : energy sa A + energy sb B ≤ 2 * lin sb (zext sa A) B l) : energy sa A = energy sb B := by
  induction sa generalizing sb A B l with
  | nil =>
    cases sb with
    | nil =>
      cases l with
      | nil =>
        simp only [lin, zext, inBoxI, energy, List.map_nil, if_true] at hD ⊢
        have h : (A [] - B []) ^ 2 ≤ 0 := by nlinarith
        have h0 : A [] - B [] = 0 := by
          have := sq_nonneg (A [] - B [])
          exact pow_eq_zero_iff (n := 2) (by decide) |>.mp (le_antisymm h this)
        have : A [] = B [] := by linarith
        rw [this]
      | cons _ _ => simp at h2
    | cons _ _ => simp at h1
  | cons a as ih =>
    cases sb with
    | nil => simp at h1
    | cons b bs =>
      cases l with
      | nil => simp at h2
      | cons l0 ls =>
        have h1' : as.length = bs.length := by simpa using h1
        have h2' : ls.length = bs.length := by simpa using h2
        obtain ⟨d1, d2, d3⟩ := defect_step a b as bs A B l0 ls h1' h2' hD
        rw [energy_cons, energy_cons]
        calc sumRange a (fun m => energy as (fun r => A (m :: r)))
            = sumRange a (fun m => if 0 ≤ (m : Int) + -l0 ∧ (m : Int) + -l0 < b then
                energy as (fun r => A (m :: r)) else 0) := by
              apply sumRange_congr
              intro m hm
              split
              · rfl
              · rename_i hR; exact d2 m hm hR
          _ = sumRange b (fun n => if 0 ≤ (n : Int) + l0 ∧ (n : Int) + l0 < a then
                energy as (fun r => A (((n : Int) + l0).toNat :: r)) else 0) :=
              (reindex a b l0 (fun m _ => energy as (fun r => A (m :: r)))).symm
          _ = sumRange b (fun n => energy bs (fun r => B (n :: r))) := by
              apply sumRange_congr
              intro n hn
              split
              · rename_i hR
                exact ih bs _ _ ls h1' h2' (d1 n hn hR)
              · rename_i hR; exact (d3 n hn hR).symm

/-- equality in the self-correlation bound at a non-zero lag forces the image to vanish -/
theorem energy_zero_of_tight_self (sh : List Nat) (A : List Nat → Rat) (l : List Int)
    (hl : l.length = sh.length) (hnz : l ≠ List.replicate sh.length 0)
    (hD : energy sh A + energy sh A ≤ 2 * lin sh (zext sh A) A l) : energy sh A = 0 := by
  induction sh generalizing A l with
  | nil =>
    cases l with
    | nil => exact absurd rfl hnz
    | cons _ _ => simp at hl
  | cons a as ih =>
    cases l with
    | nil => simp at hl
    | cons l0 ls =>
      have hl' : ls.length = as.length := by simpa using hl
      obtain ⟨d1, d2, d3⟩ := defect_step a a as as A A l0 ls rfl hl' hD
      rw [energy_cons]
      apply sumRange_zero
      by_cases h0 : l0 = 0
      · subst h0
        have hls : ls ≠ List.replicate as.length 0 := by
          intro e
          apply hnz
          rw [e, List.length_cons, List.replicate_succ]
        intro m hm
        have := d1 m hm ⟨by omega, by omega⟩
        have e : ((m : Int) + 0).toNat = m := by omega
        rw [e] at this
        exact ih _ ls hl' hls this
      · have hq : ∀ n, n < a → 0 ≤ (n : Int) + l0 ∧ (n : Int) + l0 < a →
            energy as (fun r => A (((n : Int) + l0).toNat :: r)) = energy as (fun r => A (n :: r)) :=
          fun n hn hR => energy_eq_of_tight as as _ _ ls rfl hl' (d1 n hn hR)
        intro m
        induction m using Nat.strong_induction_on with
        | _ m ihm =>
          intro hm
          by_cases hpos : 0 < l0
          · by_cases hlt : (m : Int) < l0
            · exact d2 m hm (by omega)
            · have hn : (m - l0.toNat) < a := by omega
              have hR : 0 ≤ ((m - l0.toNat : Nat) : Int) + l0 ∧ ((m - l0.toNat : Nat) : Int) + l0 < a := by omega
              have := hq _ hn hR
              have e : (((m - l0.toNat : Nat) : Int) + l0).toNat = m := by omega
              rw [e] at this
              rw [this]
              exact ihm _ (by omega) hn
          · by_cases hlt : (m : Int) + l0 < 0
            · exact d3 m hm (by omega)
            · have hR : 0 ≤ (m : Int) + l0 ∧ (m : Int) + l0 < a := by omega
              have := hq m hm hR
              rw [← this]
              exact ihm _ (by omega) (by omega)

theorem energy_pos (sh : List Nat) (A : List Nat → Rat) (i : List Nat) (hi : inBox i sh = true)
    (hA : A i ≠ 0) : 0 < energy sh A := by
  induction sh generalizing A i with
  | nil =>
    cases i with
    | nil => simp only [energy]; exact mul_self_pos.mpr hA
    | cons _ _ => simp [inBox] at hi
  | cons a as ih =>
    cases i with
    | nil => simp [inBox] at hi
    | cons i0 is =>
      simp only [inBox, Bool.and_eq_true, decide_eq_true_eq] at hi
      rw [energy_cons, sumRange_eq]
      have hpos := ih (fun r => A (i0 :: r)) is hi.2 hA
      have hle : energy as (fun r => A (i0 :: r)) ≤ ∑ m ∈ range a, energy as (fun r => A (m :: r)) :=
        Finset.single_le_sum (f := fun m => energy as (fun r => A (m :: r)))
          (fun m _ => energy_nonneg _ _) (Finset.mem_range.mpr hi.1)
      linarith


/-! ### windows of a scene (merge) -/

section merge
open Pew.Overlap

theorem zip_add_sub (p o : List Int) (h : p.length = o.length) :
    List.zipWith (· + ·) (Pew.Overlap.sub p o) o = p := by
  induction p generalizing o with
  | nil => simp [Pew.Overlap.sub]
  | cons x xs ih =>
    cases o with
    | nil => simp at h
    | cons y ys =>
      simp only [Pew.Overlap.sub, List.zipWith_cons_cons, List.cons.injEq]
      exact ⟨by omega, ih ys (by simpa using h)⟩

/-- a window of the scene contributes the scene's value wherever it covers the pixel -/
theorem window_at (scene : Idx → Rat) (off : List Int) (shape : List Nat) (p : Idx) :
    (window scene off shape).at p = if (window scene off shape).inside p then some (some (scene p)) else none := by
  unfold Arr.at
  split
  · rename_i h
    simp only [window]
    have hlen : p.length = off.length := by
      simp only [Arr.inside, window, Bool.and_eq_true, beq_iff_eq] at h
      exact h.1
    rw [zip_add_sub p off hlen]
  · rfl

theorem contribs_windows (scene : Idx → Rat) (ws : List (List Int × List Nat)) (p : Idx) :
    contribs (ws.map fun w => window scene w.1 w.2) p
      = List.replicate ((ws.map fun w => window scene w.1 w.2).countP (fun a => a.inside p)) (scene p) := by
  induction ws with
  | nil => simp [contribs]
  | cons w ws ih =>
    simp only [List.map_cons]
    rw [contribs_cons, window_at, ih, List.countP_cons]
    by_cases h : (window scene w.1 w.2).inside p
    · simp [h, List.replicate_succ']
      rw [← List.replicate_succ, List.replicate_succ']
    · simp [h]

theorem zip_add_assoc (i o m : List Int) (h : o.length = m.length) :
    List.zipWith (· + ·) (List.zipWith (· + ·) i (Pew.Overlap.sub o m)) m = List.zipWith (· + ·) i o := by
  induction i generalizing o m with
  | nil => simp
  | cons x xs ih =>
    cases o with
    | nil => cases m <;> simp_all [Pew.Overlap.sub]
    | cons y ys =>
      cases m with
      | nil => simp at h
      | cons z zs =>
        simp only [Pew.Overlap.sub, List.zipWith_cons_cons, List.cons.injEq]
        exact ⟨by omega, ih ys zs (by simpa using h)⟩

end merge

end Pew.Register
