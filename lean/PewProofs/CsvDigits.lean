import PewModel.CsvDir

/-! # C04 — arithmetic of the digit key `int("".join(digits of the stem))` -/
namespace Pew.CsvDir

theorem digitVal_le (c : Char) (h : isDigit c = true) : digitVal c ≤ 9 := by
  unfold isDigit Char.isDigit at h
  unfold digitVal
  simp only [Bool.and_eq_true, decide_eq_true_eq] at h
  have h1 := UInt32.le_iff_toNat_le.mp h.1
  have h2 := UInt32.le_iff_toNat_le.mp h.2
  simp only [Char.toNat] at *
  have e1 : (48 : UInt32).toNat = 48 := rfl
  have e2 : (57 : UInt32).toNat = 57 := rfl
  have e3 : '0'.val.toNat = 48 := rfl
  have e4 : '9'.val.toNat = 57 := rfl
  omega

theorem foldl_digits (d : List Char) (acc : Nat) :
    d.foldl (fun acc c => acc * 10 + digitVal c) acc = acc * 10 ^ d.length + digitsNat d := by
  unfold digitsNat
  induction d generalizing acc with
  | nil => simp
  | cons c t ih =>
    simp only [List.foldl_cons, List.length_cons]
    rw [ih, ih (0 * 10 + digitVal c)]
    simp only [Nat.zero_mul, Nat.zero_add, Nat.pow_succ]
    rw [Nat.add_mul, Nat.add_assoc]
    congr 1
    rw [Nat.mul_assoc, Nat.mul_comm 10]

/-- `int(p + d) = int(p) · 10^len(d) + int(d)` -/
theorem digitsNat_append (p d : List Char) : digitsNat (p ++ d) = digitsNat p * 10 ^ d.length + digitsNat d := by
  unfold digitsNat
  rw [List.foldl_append]
  exact foldl_digits d _

theorem digitsNat_cons (c : Char) (t : List Char) : digitsNat (c :: t) = digitVal c * 10 ^ t.length + digitsNat t := by
  have := foldl_digits t (0 * 10 + digitVal c)
  simpa [digitsNat] using this

theorem digitsNat_lt : ∀ (d : List Char), (∀ c ∈ d, isDigit c = true) → digitsNat d < 10 ^ d.length
  | [], _ => by simp [digitsNat]
  | c :: t, h => by
    rw [digitsNat_cons, List.length_cons, Nat.pow_succ]
    have hc := digitVal_le c (h c List.mem_cons_self)
    have ht := digitsNat_lt t (fun x hx => h x (List.mem_cons_of_mem _ hx))
    have := Nat.mul_le_mul_right (10 ^ t.length) hc
    omega

/-- a digit string without a leading zero is at least `10^(len-1)` -/
theorem digitsNat_ge (c : Char) (t : List Char) (hc : 1 ≤ digitVal c) : 10 ^ t.length ≤ digitsNat (c :: t) := by
  rw [digitsNat_cons]
  have := Nat.mul_le_mul_right (10 ^ t.length) hc
  omega

/-- **same width**: after a common (digit) prefix, keys compare like the indices -/
theorem numKey_same_width (p d₁ d₂ : List Char) (h : d₁.length = d₂.length) :
    (digitsNat (p ++ d₁) ≤ digitsNat (p ++ d₂)) ↔ (digitsNat d₁ ≤ digitsNat d₂) := by
  rw [digitsNat_append, digitsNat_append, h]
  omega

/-- **9 before 10 before 100**: a longer index without a leading zero gives the larger key and is
the larger index, whatever digits the common prefix contributes -/
theorem numKey_longer (p d₁ : List Char) (c : Char) (t : List Char) (hd₁ : ∀ x ∈ d₁, isDigit x = true)
    (hc : 1 ≤ digitVal c) (hlen : d₁.length < (c :: t).length) :
    digitsNat (p ++ d₁) < digitsNat (p ++ c :: t) ∧ digitsNat d₁ < digitsNat (c :: t) := by
  have h1 := digitsNat_lt d₁ hd₁
  have h2 := digitsNat_ge c t hc
  have hpow : 10 ^ d₁.length ≤ 10 ^ t.length := Nat.pow_le_pow_right (by omega) (by simp at hlen; omega)
  refine ⟨?_, by omega⟩
  rw [digitsNat_append, digitsNat_append]
  have hpow2 : 10 ^ d₁.length ≤ 10 ^ (c :: t).length := Nat.pow_le_pow_right (by omega) (by omega)
  have := Nat.mul_le_mul_left (digitsNat p) hpow2
  omega

end Pew.CsvDir
