import PewProofs.FastParse
/-! # C17 — the exact file positions handed to the progress callback -/
namespace Pew.FastParse

/-! ### a callback that never returned False is the always-True callback -/

theorem runS_aborted (cb : Nat → Bool) (ls : List (Line × Nat)) (s : St) (h : s.aborted = true) :
    runS cb s ls = s := by
  induction ls with
  | nil => rfl
  | cons ln r ih =>
    simp only [runS, List.foldl_cons] at ih ⊢
    rw [step_aborted cb s ln h]; exact ih

theorem runS_eq_tt (cb : Nat → Bool) (ls : List (Line × Nat)) (s : St)
    (h : (runS cb s ls).aborted = false) : runS cb s ls = runS (fun _ => true) s ls := by
  induction ls generalizing s with
  | nil => rfl
  | cons ln r ih =>
    simp only [runS, List.foldl_cons] at h ⊢
    have hs' : (step cb s ln).aborted = false := by
      cases hb : (step cb s ln).aborted with
      | false => rfl
      | true =>
        have := runS_aborted cb r _ hb
        simp only [runS] at this
        rw [this, hb] at h; exact h
    have hstep : step cb s ln = step (fun _ => true) s ln := by
      unfold step at hs' ⊢
      cases ha : s.aborted with
      | true => simp
      | false =>
        simp only [ha, Bool.false_eq_true, if_false] at hs' ⊢
        by_cases hcall : isCall s.core ln.1 = true
        · simp only [hcall, if_true] at hs' ⊢
          by_cases hcb : cb (s.pos + ln.2) = true
          · simp [hcb]
          · simp [hcb] at hs'
        · simp [hcall]
    rw [hstep] at h ⊢
    exact ih _ h

/-! ### the indices of the lines on which the callback is invoked -/

/-- indices (counted from `i`) of the lines of `L` at which the main loop starts a spectrum -/
def idxRun (c : Core) (i : Nat) : List Line → List Nat
  | [] => []
  | l :: r => (if isCall c l then [i] else []) ++ idxRun (stepCore c l) (i + 1) r

theorem idxRun_shift (c : Core) (i : Nat) (L : List Line) :
    idxRun c (i + 1) L = (idxRun c i L).map (· + 1) := by
  induction L generalizing c i with
  | nil => rfl
  | cons l r ih =>
    simp only [idxRun, List.map_append, ih]
    split <;> simp

theorem idxRun_append (c : Core) (i : Nat) (A B : List Line) :
    idxRun c i (A ++ B) = idxRun c i A ++ idxRun (runC c A) (i + A.length) B := by
  induction A generalizing c i with
  | nil => simp [idxRun, runC]
  | cons l r ih =>
    simp only [List.cons_append, idxRun, ih, List.append_assoc, runC, List.foldl_cons, List.length_cons]
    congr 3
    omega

def noSpec (L : List Line) : Bool := L.all (fun l => !startsSpectrum l)

theorem noSpec_append (A B : List Line) : noSpec (A ++ B) = (noSpec A && noSpec B) := by
  simp [noSpec, List.all_append]

theorem noSpec_flatMap {α} (f : α → List Line) (l : List α) (h : ∀ a ∈ l, noSpec (f a) = true) :
    noSpec (l.flatMap f) = true := by
  simp only [noSpec, List.all_flatMap, List.all_eq_true] at h ⊢
  exact h

theorem idxRun_none (c : Core) (i : Nat) (L : List Line) (h : noSpec L = true) : idxRun c i L = [] := by
  induction L generalizing c i with
  | nil => rfl
  | cons l r ih =>
    simp only [noSpec, List.all_cons, Bool.and_eq_true, Bool.not_eq_true'] at h
    have : isCall c l = false := by simp [isCall, h.1]
    simp only [idxRun, this, Bool.false_eq_true, if_false, List.nil_append]
    exact ih _ _ h.2

theorem step_tt (s : St) (ln : Line × Nat) (h : s.aborted = false) :
    step (fun _ => true) s ln
      = { core := stepCore s.core ln.1, pos := s.pos + ln.2,
          calls := s.calls ++ (if isCall s.core ln.1 then [s.pos + ln.2] else []), aborted := false } := by
  unfold step
  simp only [h, Bool.false_eq_true, if_false, if_true]
  split <;> simp

/-- with the always-True callback the positions handed over are the prefix sums of the line
lengths at the indices `idxRun` names -/
theorem runS_tt_calls (ls : List (Line × Nat)) (s : St) (h : s.aborted = false) :
    (runS (fun _ => true) s ls).calls
      = s.calls ++ (idxRun s.core 0 (ls.map Prod.fst)).map
          (fun i => s.pos + ((ls.map Prod.snd).take (i + 1)).sum) := by
  induction ls generalizing s with
  | nil => simp [idxRun]
  | cons ln r ih =>
    simp only [runS, List.foldl_cons, List.map_cons, idxRun]
    rw [step_tt s ln h]
    have := ih { core := stepCore s.core ln.1, pos := s.pos + ln.2,
                 calls := s.calls ++ (if isCall s.core ln.1 then [s.pos + ln.2] else []), aborted := false } rfl
    simp only [runS] at this
    rw [this, idxRun_shift]
    simp only [List.append_assoc, List.map_append, List.map_map]
    congr 1
    congr 1
    · split <;> simp
    · apply List.map_congr_left
      intro i _
      simp only [Function.comp, List.take_succ_cons, List.sum_cons]
      omega

/-! ### lines that cannot start a spectrum -/

theorem noSpec_items (cls : String → Bool) (l : List Item) : noSpec (renderItems cls l) = true := by
  simp only [noSpec, renderItems, List.all_map, List.all_eq_true]
  intro it _
  cases it <;> rfl

theorem noSpec_wrap (cls : String → Bool) (a b : Line) (l : List Item)
    (ha : startsSpectrum a = false) (hb : startsSpectrum b = false) :
    noSpec ([a] ++ renderItems cls l ++ [b]) = true := by
  rw [noSpec_append, noSpec_append, noSpec_items]
  simp [noSpec, ha, hb]

theorem noSpec_sects (cls : String → Bool) (ss : List Sect) : noSpec (ss.flatMap (renderSect cls)) = true := by
  apply noSpec_flatMap
  intro s _
  exact noSpec_wrap cls _ _ _ rfl rfl

theorem noSpec_groups (cls : String → Bool) (d : Doc) : noSpec (renderGroups cls d) = true := by
  unfold renderGroups
  rw [noSpec_append, noSpec_append, noSpec_flatMap]
  · simp [noSpec, startsSpectrum]
  · intro g _
    exact noSpec_wrap cls _ _ _ rfl rfl

theorem noSpec_settingsList (cls : String → Bool) (d : Doc) : noSpec (renderSettingsList cls d) = true := by
  unfold renderSettingsList
  rw [noSpec_append, noSpec_append, noSpec_flatMap]
  · simp [noSpec, startsSpectrum]
  · intro g _
    exact noSpec_wrap cls _ _ _ rfl rfl

theorem noSpec_head (cls : String → Bool) (d : Doc) : noSpec (renderHead cls d) = true := by
  unfold renderHead
  simp only [noSpec_append, noSpec_sects, Bool.and_true, Bool.and_eq_true]
  refine ⟨⟨?_, ?_⟩, ?_⟩
  · split <;> simp [noSpec, startsSpectrum]
  · simp [noSpec, startsSpectrum]
  · split <;> simp [noSpec_append, noSpec_sects, noSpec_groups, noSpec_settingsList]

theorem noSpec_tail (cls : String → Bool) (d : Doc) : noSpec (renderTail cls d) = true := by
  unfold renderTail
  simp only [noSpec_append, noSpec_sects, Bool.true_and]
  simp [noSpec, startsSpectrum]

theorem noSpec_specBody (cls : String → Bool) (s : Spec) :
    noSpec (renderSpecBody cls s ++ [Line.cls .spectrum]) = true := by
  unfold renderSpecBody
  simp only [noSpec_append, noSpec_items, Bool.and_true, Bool.true_and, Bool.and_eq_true]
  refine ⟨⟨⟨⟨⟨⟨?_, ?_⟩, ?_⟩, ?_⟩, ?_⟩, ?_⟩, ?_⟩
  · simp [noSpec, startsSpectrum]
  · apply noSpec_flatMap
    intro sc _
    exact noSpec_wrap cls _ _ _ rfl rfl
  · simp [noSpec, startsSpectrum]
  · simp [noSpec, startsSpectrum]
  · apply noSpec_flatMap
    intro a _
    exact noSpec_wrap cls _ _ _ rfl rfl
  · simp [noSpec, startsSpectrum]
  · simp [noSpec, startsSpectrum]

/-! ### the spectrum list -/

theorem specStarts_eq (cls : String → Bool) (i : Nat) (ss : List Spec) :
    specStarts cls i ss
      = (List.range ss.length).map (fun j => i + ((ss.take j).map (fun s => (renderSpec cls s).length)).sum) := by
  induction ss generalizing i with
  | nil => rfl
  | cons s r ih =>
    simp only [specStarts, List.length_cons, List.range_succ_eq_map, List.map_cons, List.take_zero,
      List.map_nil, List.sum_nil, Nat.add_zero, List.map_map, ih]
    congr 1
    apply List.map_congr_left
    intro j _
    simp only [Function.comp, List.take_succ_cons, List.map_cons, List.sum_cons]
    omega

theorem idxRun_renderSpec_top (cls : String → Bool) (c : Core) (hc : c.err = none) (hm : c.mode = .top)
    (i : Nat) (s : Spec) : idxRun c i (renderSpec cls s) = [i] := by
  unfold renderSpec
  rw [List.append_assoc, idxRun_append, idxRun_none _ _ _ (noSpec_specBody cls s)]
  simp [idxRun, isCall, hc, hm, startsGroupList, startsSettingsList, startsSpectrum]

theorem idxRun_specs (cls : String → Bool) (ss : List Spec) (xs : List SpecInfo) (c : Core)
    (hc : c.err = none) (hm : c.mode = .top) (i : Nat) (hok : List.Forall₂ (FastSpec cls) ss xs) :
    idxRun c i (ss.flatMap (renderSpec cls)) = specStarts cls i ss := by
  induction hok generalizing c i with
  | nil => rfl
  | @cons s x ss' xs' h _ ih =>
    rw [List.flatMap_cons, idxRun_append, idxRun_renderSpec_top cls c hc hm,
      run_renderSpec_top cls c hc hm s x h]
    rw [ih { c with spectra := c.spectra ++ [x] } hc hm]
    rfl

theorem idxRun_renderSpectra (cls : String → Bool) (d : Doc) (s0 : Spec) (rest : List Spec) (x0 : SpecInfo)
    (xs : List SpecInfo) (c : Core) (hc : c.err = none) (hm : c.mode = .top) (i : Nat)
    (hd : d.spectra = s0 :: rest) (h0 : FastSpec cls s0 x0) (hok : List.Forall₂ (FastSpec cls) rest xs) :
    idxRun c i (renderSpectra cls d)
      = (i + 1) :: specStarts cls (i + 2 + (renderSpec cls s0).length) rest := by
  unfold renderSpectra
  rw [hd, List.flatMap_cons]
  have e0 : ([Line.opn .other "", Line.opn .spectrumList ""] ++ (renderSpec cls s0 ++ rest.flatMap (renderSpec cls))
      ++ [Line.cls .spectrumList, Line.cls .other])
      = [Line.opn .other ""] ++ ([Line.opn .spectrumList ""] ++ ([Line.opn .spectrum ""] ++ ((renderSpecBody cls s0 ++ [Line.cls .spectrum])
          ++ (rest.flatMap (renderSpec cls) ++ [Line.cls .spectrumList, Line.cls .other])))) := by
    simp [renderSpec]
  have hlen : (renderSpec cls s0).length = (renderSpecBody cls s0 ++ [Line.cls .spectrum]).length + 1 := by
    simp [renderSpec]
  rw [e0, hlen]
  have hns := noSpec_specBody cls s0
  generalize hD : renderSpecBody cls s0 ++ [Line.cls .spectrum] = D at hns
  simp only [idxRun_append]
  have e1 : runC c [Line.opn .other ""] = c := run_top_inert c hc hm _ (by intro l hl; simp at hl; subst hl; rfl)
  have e2 : runC c [Line.opn .spectrumList ""] = { c with mode := .spectrum { cvs := [], arrays := [] } } := by
    simp [runC, stepCore, hc, hm, startsGroupList, startsSettingsList, startsSpectrum]
  have e3 : runC { c with mode := .spectrum { cvs := [], arrays := [] } } [Line.opn .spectrum ""]
      = { c with mode := .spectrum { cvs := [], arrays := [] } } := by
    simp only [runC, List.foldl_cons, List.foldl_nil]
    exact step_spectrum_other c hc _ _ (Or.inr (Or.inr rfl))
  have e4 : runC { c with mode := .spectrum { cvs := [], arrays := [] } } D
      = { c with mode := .top, spectra := c.spectra ++ [x0] } := by
    subst hD; exact run_specBody cls c hc s0 x0 h0
  rw [e1, e2, e3, e4]
  have hc' : ({ c with mode := .top, spectra := c.spectra ++ [x0] } : Core).err = none := hc
  rw [idxRun_specs cls rest xs _ hc' rfl _ hok]
  rw [idxRun_none _ _ D hns, idxRun_none _ _ [Line.cls .spectrumList, Line.cls .other] (by simp [noSpec, startsSpectrum])]
  have a1 : idxRun c i [Line.opn .other ""] = [] := idxRun_none _ _ _ (by simp [noSpec, startsSpectrum])
  have a2 : idxRun c (i + [Line.opn .other ""].length) [Line.opn .spectrumList ""] = [i + 1] := by
    simp [idxRun, isCall, hc, hm, startsGroupList, startsSettingsList, startsSpectrum]
  have a3 : ∀ j, idxRun { c with mode := .spectrum { cvs := [], arrays := [] } } j [Line.opn .spectrum ""] = [] := by
    intro j; simp [idxRun, isCall]
  rw [a1, a2, a3]
  simp only [List.nil_append, List.append_nil, List.length_cons, List.length_nil, List.singleton_append]
  congr 2
  omega

/-- the one-pass list of call lines is the list of `callLine k` -/
theorem callLinesFast_eq (cls : String → Bool) (d : Doc) :
    callLinesFast cls d = (List.range d.spectra.length).map (callLine cls d) := by
  unfold callLinesFast
  cases hsp : d.spectra with
  | nil => rfl
  | cons s0 srest =>
    simp only [specStarts_eq, List.length_cons, List.range_succ_eq_map, List.map_cons, List.map_map]
    congr 1
    apply List.map_congr_left
    intro j _
    simp only [Function.comp, callLine, hsp, List.take_succ_cons, List.map_cons, List.sum_cons]
    simp
    omega

theorem prefixSums_getElem? (acc : Nat) (lens : List Nat) (i : Nat) :
    (prefixSums acc lens)[i]? = if i < lens.length then some (acc + (lens.take (i + 1)).sum) else none := by
  induction lens generalizing acc i with
  | nil => simp [prefixSums]
  | cons n r ih =>
    cases i with
    | zero => simp [prefixSums]
    | succ j =>
      simp only [prefixSums, List.getElem?_cons_succ, ih, List.length_cons, Nat.add_lt_add_iff_right,
        List.take_succ_cons, List.sum_cons]
      split <;> simp [Nat.add_assoc]

/-- the one-pass positions are `callPositions` (any document, any lengths) -/
theorem callPositionsFast_eq' (cls : String → Bool) (d : Doc) (lens : List Nat) :
    callPositionsFast cls d lens = callPositions cls d lens := by
  unfold callPositionsFast callPositions
  rw [callLinesFast_eq, List.map_map]
  apply List.map_congr_left
  intro k _
  simp only [Function.comp, List.getElem?_toArray, prefixSums_getElem?, Nat.zero_add]
  split
  · rfl
  · rename_i h
    simp only [Option.getD_none]
    rw [List.take_of_length_le (by omega)]

/-- under the layout the callback is invoked on the lines `callLine 0, callLine 1, …` -/
theorem idxRun_render (cls : String → Bool) (d : Doc) (h : LayoutCore cls d) :
    idxRun Core.init 0 (render cls d) = (List.range d.spectra.length).map (callLine cls d) := by
  obtain ⟨pgm, pgi, sc0, screst, gm, gi, st0, strest, hhead, _⟩ := head_run cls d h
  obtain ⟨s0, srest, x0, xs, hsp, hx0, hxrest, _⟩ := spectra_agree cls d h
  unfold render
  rw [idxRun_append, idxRun_append, idxRun_none _ _ _ (noSpec_head cls d), idxRun_none _ _ _ (noSpec_tail cls d), hhead]
  rw [idxRun_renderSpectra cls d s0 srest x0 xs _ rfl rfl _ hsp hx0 hxrest, ← callLinesFast_eq]
  simp [callLinesFast, hsp]

theorem calls_tt (cls : String → Bool) (d : Doc) (h : LayoutCore cls d) (ls : List (Line × Nat))
    (hls : ls.map Prod.fst = render cls d) :
    (run (fun _ => true) ls).calls = callPositions cls d (ls.map Prod.snd) := by
  have := runS_tt_calls ls St.init rfl
  simp only [runS] at this
  unfold run
  rw [this, hls]
  simp only [St.init, List.nil_append, Nat.zero_add]
  rw [show Core.init = Core.init from rfl, idxRun_render cls d h]
  simp [callPositions, List.map_map, Function.comp_def]

/-! ### any callback: a prefix of those positions -/

theorem step_calls_prefix (cb : Nat → Bool) (s : St) (ln : Line × Nat) : s.calls <+: (step cb s ln).calls := by
  unfold step
  split
  · exact List.prefix_refl _
  · simp only
    split
    · split <;> exact List.prefix_append _ _
    · exact List.prefix_refl _

theorem runS_calls_prefix (cb : Nat → Bool) (ls : List (Line × Nat)) (s : St) : s.calls <+: (runS cb s ls).calls := by
  induction ls generalizing s with
  | nil => exact List.prefix_refl _
  | cons ln r ih =>
    simp only [runS, List.foldl_cons]
    exact (step_calls_prefix cb s ln).trans (ih _)

theorem runS_prefix_tt (cb : Nat → Bool) (ls : List (Line × Nat)) (s : St) (h : s.aborted = false) :
    (runS cb s ls).calls <+: (runS (fun _ => true) s ls).calls := by
  induction ls generalizing s with
  | nil => exact List.prefix_refl _
  | cons ln r ih =>
    simp only [runS, List.foldl_cons]
    by_cases hcall : isCall s.core ln.1 = true
    · by_cases hcb : cb (s.pos + ln.2) = true
      · have e : step cb s ln = step (fun _ => true) s ln := by
          unfold step; simp [h, hcall, hcb]
        rw [e]
        apply ih
        rw [step_tt s ln h]
      · have e : step cb s ln = { s with pos := s.pos + ln.2, calls := s.calls ++ [s.pos + ln.2], aborted := true } := by
          unfold step; simp [h, hcall, hcb]
        have ha := runS_aborted cb r (step cb s ln) (by rw [e])
        simp only [runS] at ha
        rw [ha, e]
        have hp := runS_calls_prefix (fun _ => true) r (step (fun _ => true) s ln)
        simp only [runS] at hp
        rw [step_tt s ln h] at hp ⊢
        simpa [hcall] using hp
    · have e : step cb s ln = step (fun _ => true) s ln := by
        unfold step; simp [h, hcall]
      rw [e]
      apply ih
      rw [step_tt s ln h]

/-! ### the line at `callLine` -/

theorem flatMap_getElem_start {α β} (f : α → List β) (b : β) (ss : List α) (R : List β) (k : Nat)
    (hk : k < ss.length) (hf : ∀ s ∈ ss, (f s).head? = some b) :
    (ss.flatMap f ++ R)[((ss.take k).map (fun s => (f s).length)).sum]? = some b := by
  induction ss generalizing k with
  | nil => simp at hk
  | cons s r ih =>
    have hs := hf s (by simp)
    cases k with
    | zero =>
      cases hfs : f s with
      | nil => simp [hfs] at hs
      | cons y ys => simp [hfs] at hs ⊢; exact hs
    | succ j =>
      simp only [List.take_succ_cons, List.map_cons, List.sum_cons, List.flatMap_cons, List.append_assoc]
      rw [List.getElem?_append_right (Nat.le_add_right _ _), Nat.add_sub_cancel_left]
      exact ih j (by simpa using hk) (fun s' hs' => hf s' (by simp [hs']))

end Pew.FastParse
