import PewProofs.SyncSqueeze

/-! # C08 — the log as text: calendar, time stamps, fields, lines; the date does not matter -/namespace Pew.Sync

theorem yearLen_pos (y : Nat) : 365 ≤ yearLen y := by unfold yearLen; split <;> omega

theorem daysBeforeYearK_succ (k : Nat) : daysBeforeYearK (k + 1) = daysBeforeYearK k + yearLen (1970 + k) := by
  unfold daysBeforeYearK yearLen isLeap
  have b1 : (k + 69) / 100 ≤ k := by omega
  have ha : (k + 1 + 1) / 4 = (k + 1) / 4 + (if (1970 + k) % 4 = 0 then 1 else 0) := by split <;> omega
  have hb : (k + 1 + 69) / 100 = (k + 69) / 100 + (if (1970 + k) % 100 = 0 then 1 else 0) := by split <;> omega
  have hc : (k + 1 + 369) / 400 = (k + 369) / 400 + (if (1970 + k) % 400 = 0 then 1 else 0) := by split <;> omega
  rw [ha, hb, hc]
  generalize (k + 1) / 4 = q4 at *
  generalize (k + 69) / 100 = q100 at *
  generalize (k + 369) / 400 = q400 at *
  by_cases h4 : (1970 + k) % 4 = 0 <;> by_cases h100 : (1970 + k) % 100 = 0 <;> by_cases h400 : (1970 + k) % 400 = 0 <;>
    simp [h4, h100, h400] <;> omega

theorem daysBeforeYear_succ (y : Nat) (hy : 1970 ≤ y) : daysBeforeYear (y + 1) = daysBeforeYear y + yearLen y := by
  obtain ⟨k, hk⟩ := Nat.exists_eq_add_of_le hy
  have e1 : y + 1 - 1970 = k + 1 := by omega
  have e2 : y - 1970 = k := by rw [hk]; exact Nat.add_sub_cancel_left 1970 k
  unfold daysBeforeYear
  rw [e1, e2, daysBeforeYearK_succ, hk]

theorem walkYears_spec (f y d : Nat) (hy : 1970 ≤ y) (hf : d < f) :
    1970 ≤ (walkYears f y d).1 ∧ (walkYears f y d).2 < yearLen (walkYears f y d).1 ∧
      daysBeforeYear (walkYears f y d).1 + (walkYears f y d).2 = daysBeforeYear y + d := by
  induction f generalizing y d with
  | zero => omega
  | succ f ih =>
    unfold walkYears
    split
    · exact ⟨hy, by assumption, rfl⟩
    · rename_i hd
      have hl := yearLen_pos y
      obtain ⟨h1, h2, h3⟩ := ih (y + 1) (d - yearLen y) (by omega) (by omega)
      refine ⟨h1, h2, ?_⟩
      rw [h3, daysBeforeYear_succ y hy]; omega

theorem monthsBefore_succ (y m : Nat) (hm : 1 ≤ m) : monthsBefore y (m + 1) = monthsBefore y m + monthLen y m := by
  unfold monthsBefore
  obtain ⟨k, rfl⟩ : ∃ k, m = k + 1 := ⟨m - 1, by omega⟩
  simp [List.range_succ]

theorem monthsBefore_13 (y : Nat) : monthsBefore y 13 = yearLen y := by
  unfold monthsBefore yearLen
  simp [List.range, List.range.loop, monthLen]
  split <;> rfl

theorem walkMonths_spec (f y m d : Nat) (hm : 1 ≤ m) (hf : m + f = 13) (hd : monthsBefore y m + d < yearLen y) :
    1 ≤ (walkMonths f y m d).1 ∧ (walkMonths f y m d).1 ≤ 12 ∧ (walkMonths f y m d).2 < monthLen y (walkMonths f y m d).1 ∧
      monthsBefore y (walkMonths f y m d).1 + (walkMonths f y m d).2 = monthsBefore y m + d := by
  induction f generalizing m d with
  | zero =>
    exfalso
    have : m = 13 := by omega
    subst this
    rw [monthsBefore_13] at hd; omega
  | succ f ih =>
    unfold walkMonths
    split
    · exact ⟨hm, by omega, by assumption, rfl⟩
    · rename_i hnd
      have hs := monthsBefore_succ y m hm
      obtain ⟨h1, h2, h3, h4⟩ := ih (m + 1) (d - monthLen y m) (by omega) (by omega) (by omega)
      exact ⟨h1, h2, h3, by omega⟩

/-- the calendar walk and numpy's closed form are inverse: day number → date → day number -/
theorem daysOfCivil_civilOfDay (n : Nat) : daysOfCivil (civilOfDay n) = n := by
  unfold daysOfCivil civilOfDay
  simp only
  obtain ⟨h1, h2, h3⟩ := walkYears_spec (n + 1) 1970 n (by omega) (by omega)
  obtain ⟨g1, g2, g3, g4⟩ := walkMonths_spec 12 (walkYears (n + 1) 1970 n).1 1 (walkYears (n + 1) 1970 n).2 (by omega) (by omega)
    (by simp [monthsBefore]; exact h2)
  have h0 : daysBeforeYear 1970 = 0 := by decide
  have hm1 : ∀ y, monthsBefore y 1 = 0 := by intro y; simp [monthsBefore]
  rw [hm1] at g4
  omega

theorem civilOfDay_ranges (n : Nat) : 1970 ≤ (civilOfDay n).y ∧ 1 ≤ (civilOfDay n).m ∧ (civilOfDay n).m ≤ 12 ∧
    1 ≤ (civilOfDay n).d ∧ (civilOfDay n).d ≤ 31 := by
  unfold civilOfDay
  simp only
  obtain ⟨h1, h2, h3⟩ := walkYears_spec (n + 1) 1970 n (by omega) (by omega)
  obtain ⟨g1, g2, g3, g4⟩ := walkMonths_spec 12 (walkYears (n + 1) 1970 n).1 1 (walkYears (n + 1) 1970 n).2 (by omega) (by omega)
    (by simp [monthsBefore]; exact h2)
  refine ⟨h1, g1, g2, by omega, ?_⟩
  have : ∀ y m, monthLen y m ≤ 31 := by
    intro y m; unfold monthLen; split <;> (try split) <;> omega
  have := this (walkYears (n + 1) 1970 n).1 (walkMonths 12 (walkYears (n + 1) 1970 n).1 1 (walkYears (n + 1) 1970 n).2).1
  omega

/-! ## time stamps -/

theorem digitsVal_pad2 (n : Nat) (h : n < 100) : digitsVal (pad2 n) = some n := by
  unfold pad2
  rw [digitsVal_eq _ (by simp)]
  · rw [Nat.ofDigitChars_cons_digitChar_of_lt_ten (by omega), Nat.ofDigitChars_cons_digitChar_of_lt_ten (by omega),
      Nat.ofDigitChars_nil]
    congr 1; omega
  · intro c hc
    simp only [List.mem_cons, List.not_mem_nil, or_false] at hc
    rcases hc with rfl | rfl <;> rw [Nat.isDigit_digitChar] <;> simp <;> omega

theorem digitsVal_pad3 (n : Nat) (h : n < 1000) : digitsVal (pad3 n) = some n := by
  unfold pad3
  rw [digitsVal_eq _ (by simp)]
  · rw [Nat.ofDigitChars_cons_digitChar_of_lt_ten (by omega), Nat.ofDigitChars_cons_digitChar_of_lt_ten (by omega),
      Nat.ofDigitChars_cons_digitChar_of_lt_ten (by omega), Nat.ofDigitChars_nil]
    congr 1; omega
  · intro c hc
    simp only [List.mem_cons, List.not_mem_nil, or_false] at hc
    rcases hc with rfl | rfl | rfl <;> rw [Nat.isDigit_digitChar] <;> simp <;> omega

theorem digitsVal_pad4 (n : Nat) (h : n < 10000) : digitsVal (pad4 n) = some n := by
  unfold pad4
  rw [digitsVal_eq _ (by simp)]
  · rw [Nat.ofDigitChars_cons_digitChar_of_lt_ten (by omega), Nat.ofDigitChars_cons_digitChar_of_lt_ten (by omega),
      Nat.ofDigitChars_cons_digitChar_of_lt_ten (by omega), Nat.ofDigitChars_cons_digitChar_of_lt_ten (by omega),
      Nat.ofDigitChars_nil]
    congr 1; omega
  · intro c hc
    simp only [List.mem_cons, List.not_mem_nil, or_false] at hc
    rcases hc with rfl | rfl | rfl | rfl <;> rw [Nat.isDigit_digitChar] <;> simp <;> omega

/-- the stamp written for `T` is read back as `T` (four-digit years) -/
theorem parseStamp_fmtStamp (T : Nat) (hy : (civilOfDay (T / 86400000)).y < 10000) : parseStamp (fmtStamp T) = some T := by
  obtain ⟨_, _, hm, _, hd⟩ := civilOfDay_ranges (T / 86400000)
  have hrt := daysOfCivil_civilOfDay (T / 86400000)
  have h2 := digitsVal_pad2
  unfold fmtStamp
  simp only
  generalize civilOfDay (T / 86400000) = c at *
  have e := fun n => show pad2 n = [Nat.digitChar (n / 10 % 10), Nat.digitChar (n % 10)] from rfl
  have e3 := fun n => show pad3 n = [Nat.digitChar (n / 100 % 10), Nat.digitChar (n / 10 % 10), Nat.digitChar (n % 10)] from rfl
  have e4 := fun n => show pad4 n = [Nat.digitChar (n / 1000 % 10), Nat.digitChar (n / 100 % 10), Nat.digitChar (n / 10 % 10),
    Nat.digitChar (n % 10)] from rfl
  rw [e4, e, e, e, e, e, e3]
  simp only [List.cons_append, List.nil_append, parseStamp, true_or, if_true]
  rw [← e4, ← e, ← e, ← e, ← e, ← e, ← e3]
  rw [digitsVal_pad4 _ hy, h2 _ (by omega), h2 _ (by omega), h2 _ (by omega), h2 _ (by omega), h2 _ (by omega),
    digitsVal_pad3 _ (by omega)]
  simp only [Option.bind_eq_bind, Option.bind_some, Option.pure_def, Option.some.injEq]
  have : ({ y := c.y, m := c.m, d := c.d } : Civil) = c := rfl
  rw [this, hrt]
  omega

theorem civilOfDay_year_lt (n : Nat) (h : n < 2932897) : (civilOfDay n).y < 10000 := by
  unfold civilOfDay
  simp only
  obtain ⟨h1, _, h3⟩ := walkYears_spec (n + 1) 1970 n (by omega) (by omega)
  generalize (walkYears (n + 1) 1970 n).1 = y at *
  generalize (walkYears (n + 1) 1970 n).2 = d at *
  have h0 : daysBeforeYear 1970 = 0 := by decide
  rw [h0] at h3
  obtain ⟨k, hk⟩ := Nat.exists_eq_add_of_le h1
  have e2 : y - 1970 = k := by rw [hk]; exact Nat.add_sub_cancel_left 1970 k
  unfold daysBeforeYear daysBeforeYearK at h3
  rw [e2] at h3
  have b1 : (k + 69) / 100 ≤ k := by omega
  omega

/-- **time stamps**: every instant from 1970 to the end of the year 9999 is written and read back exactly -/
theorem stamp_roundtrip_core (T : Nat) (h : T < 253402300800000) : parseStamp (fmtStamp T) = some T :=
  parseStamp_fmtStamp T (civilOfDay_year_lt _ (by omega))

/-! ## the fields of a line -/
theorem splitComma_ne_nil (cs : List Char) : splitComma cs ≠ [] := by
  induction cs with
  | nil => simp [splitComma]
  | cons c rest ih =>
    unfold splitComma
    split
    · simp
    · split <;> simp

theorem splitComma_nosep (f : List Char) (hf : ∀ c ∈ f, c ≠ ',') : splitComma f = [f] := by
  induction f with
  | nil => rfl
  | cons c rest ih =>
    unfold splitComma
    rw [if_neg (hf c (by simp)), ih (fun x hx => hf x (List.mem_cons_of_mem _ hx))]

theorem splitComma_append (f rest : List Char) (hf : ∀ c ∈ f, c ≠ ',') :
    splitComma (f ++ ',' :: rest) = f :: splitComma rest := by
  induction f with
  | nil => simp [splitComma]
  | cons c t ih =>
    rw [List.cons_append, splitComma, if_neg (hf c (by simp)), ih (fun x hx => hf x (List.mem_cons_of_mem _ hx))]

theorem splitComma_joinComma (fs : List (List Char)) (hne : fs ≠ []) (hf : ∀ f ∈ fs, ∀ c ∈ f, c ≠ ',') :
    splitComma (joinComma fs) = fs := by
  induction fs with
  | nil => exact absurd rfl hne
  | cons f rest ih =>
    cases rest with
    | nil => exact splitComma_nosep f (hf f (by simp))
    | cons g gs =>
      rw [joinComma, splitComma_append f _ (hf f (by simp)), ih (by simp) (fun x hx => hf x (List.mem_cons_of_mem _ hx))]


theorem takeWhile_append_sep (D t : List Char) (hD : ∀ a ∈ D, (a != '.') = true) :
    (D ++ '.' :: t).takeWhile (· != '.') = D ∧ (D ++ '.' :: t).dropWhile (· != '.') = '.' :: t := by
  induction D with
  | nil => simp
  | cons a D ih =>
    have ha := hD a (by simp)
    obtain ⟨i1, i2⟩ := ih (fun x hx => hD x (List.mem_cons_of_mem _ hx))
    simp [ha, i1, i2]

theorem pad4_length (n : Nat) : (pad4 n).length = 4 := rfl

theorem parseFixed4_fmtFixed4 (u : Int) : parseFixed4 (fmtFixed4 u) = some u := by
  have hD : ∀ a ∈ Nat.toDigits 10 (u.natAbs / 10000), (a != '.') = true :=
    fun a ha => isDigit_ne_dot a (toDigits_isDigit _ a ha)
  have hne : Nat.toDigits 10 (u.natAbs / 10000) ≠ [] := Nat.toDigits_ne_nil
  have hhead : (Nat.toDigits 10 (u.natAbs / 10000) ++ '.' :: pad4 (u.natAbs % 10000)).head? ≠ some '-' := by
    cases hd : Nat.toDigits 10 (u.natAbs / 10000) with
    | nil => exact absurd hd hne
    | cons a t =>
      simp only [List.cons_append, List.head?_cons, ne_eq, Option.some.injEq]
      rintro rfl
      have := toDigits_isDigit (u.natAbs / 10000) '-' (by rw [hd]; simp)
      exact absurd this (by decide)
  obtain ⟨t1, t2⟩ := takeWhile_append_sep _ (pad4 (u.natAbs % 10000)) hD
  unfold parseFixed4 fmtFixed4
  by_cases hu : u < 0
  · simp only [hu, if_true, List.cons_append, List.nil_append, List.head?_cons, beq_self_eq_true, List.drop_succ_cons,
      List.drop_zero, t1, t2, pad4_length]
    rw [digitsVal_toDigits, digitsVal_pad4 _ (by omega)]
    simp only [Option.bind_eq_bind, Option.bind_some, Option.pure_def, Option.some.injEq]
    omega
  · have hb : ((Nat.toDigits 10 (u.natAbs / 10000) ++ '.' :: pad4 (u.natAbs % 10000)).head? == some '-') = false := by
      simpa using hhead
    simp only [hu, if_false, List.nil_append, hb, Bool.false_eq_true, t1, t2, List.drop_succ_cons, List.drop_zero, pad4_length]
    rw [digitsVal_toDigits, digitsVal_pad4 _ (by omega)]
    simp only [Option.bind_eq_bind, Option.bind_some, Option.pure_def, Option.some.injEq, if_true]
    omega

/-! ## a line of the log -/

/-- the columns of a line that the synchronisation never reads: sub-point and vertex number, comment, intended
coordinates, scan velocity, repetition rate, spot type -/

theorem isDigit_ne_comma (c : Char) (h : c.isDigit = true) : c ≠ ',' := by
  rintro rfl; exact absurd h (by decide)

theorem digitChar_ne_comma (n : Nat) : Nat.digitChar (n % 10) ≠ ',' :=
  isDigit_ne_comma _ (by rw [Nat.isDigit_digitChar]; simp; omega)

theorem fmtStamp_no_comma (T : Nat) : ∀ c ∈ fmtStamp T, c ≠ ',' := by
  intro c hc
  unfold fmtStamp pad2 pad3 pad4 at hc
  simp only [List.cons_append, List.nil_append, List.mem_cons, List.not_mem_nil, or_false] at hc
  rcases hc with h | h | h | h | h | h | h | h | h | h | h | h | h | h | h | h | h | h | h | h | h | h | h <;>
    first
    | (rw [h]; exact digitChar_ne_comma _)
    | (rw [h]; decide)

theorem fmtFixed4_no_comma (u : Int) : ∀ c ∈ fmtFixed4 u, c ≠ ',' := by
  intro c hc
  unfold fmtFixed4 pad4 at hc
  simp only [List.mem_append, List.mem_cons, List.not_mem_nil, or_false] at hc
  rcases hc with (h | h) | h
  · split at h
    · simp only [List.mem_cons, List.not_mem_nil, or_false] at h; rw [h]; decide
    · simp at h
  · exact isDigit_ne_comma c (toDigits_isDigit _ c h)
  · rcases h with h | h | h | h | h
    · rw [h]; decide
    all_goals (rw [h]; exact digitChar_ne_comma _)

theorem fmtSeq_no_comma (s : Int) : ∀ c ∈ fmtSeq s, c ≠ ',' := by
  intro c hc
  unfold fmtSeq at hc
  split at hc
  · simp at hc
  · exact isDigit_ne_comma c (toDigits_isDigit _ c hc)

theorem parseIntField_fmtSeq (s : Int) (hs : s = -1 ∨ 0 ≤ s) : parseIntField (fmtSeq s) = some s := by
  unfold parseIntField fmtSeq
  rcases hs with rfl | hs
  · simp
  · have hne : s ≠ -1 := by omega
    have : (Nat.toDigits 10 s.toNat).isEmpty = false := by
      cases h : Nat.toDigits 10 s.toNat with
      | nil => exact absurd h Nat.toDigits_ne_nil
      | cons _ _ => rfl
    rw [if_neg hne]
    simp only [this, Bool.false_eq_true, if_false, digitsVal_toDigits, Option.some.injEq]
    exact Int.toNat_of_nonneg hs

/-- **one line**: what the instrument writes for a row is read back as that row, at its absolute time -/
theorem parseLine_fmtLine (base : Int) (r : Row) (e : Extras) (h0 : 0 ≤ base + r.time)
    (h1 : base + r.time < 253402300800000) (hs : r.seq = -1 ∨ 0 ≤ r.seq) (hl : r.spot.toList.length ≤ 32)
    (hc : ∀ c ∈ r.spot.toList, c ≠ ',') (he : e.clean) :
    parseLine (fmtLine base r e) = some { r with time := base + r.time } := by
  unfold parseLine fmtLine
  rw [splitComma_joinComma _ (by simp)]
  · simp only [List.length_cons, List.length_nil, List.getD_eq_getElem?_getD, List.getElem?_cons_zero,
      List.getElem?_cons_succ, Option.getD_some]
    rw [stamp_roundtrip_core _ (by omega), parseIntField_fmtSeq _ hs, parseFixed4_fmtFixed4, parseFixed4_fmtFixed4]
    simp only [Option.bind_eq_bind, Option.bind_some, Option.pure_def]
    have ht : ((base + r.time).toNat : Int) = base + r.time := by omega
    have hspot : String.ofList (r.spot.toList.take 32) = r.spot := by
      rw [List.take_of_length_le hl, String.ofList_toList]
    have hon : ((if r.on then ['O', 'n'] else ['O', 'f', 'f']).take 3 == ['O', 'n']) = r.on := by
      cases r.on <;> decide
    rw [ht, hspot, hon]
    simp
  · intro f hf
    simp only [List.mem_cons, List.not_mem_nil, or_false] at hf
    have he' := he
    unfold Extras.clean at he'
    rcases hf with rfl | rfl | rfl | rfl | rfl | rfl | rfl | rfl | rfl | rfl | rfl | rfl | rfl | rfl
    · exact fmtStamp_no_comma _
    · exact fmtSeq_no_comma _
    · exact he' _ (by simp)
    · exact he' _ (by simp)
    · exact he' _ (by simp)
    · exact fmtFixed4_no_comma _
    · exact fmtFixed4_no_comma _
    · exact he' _ (by simp)
    · exact he' _ (by simp)
    · exact he' _ (by simp)
    · intro c hcm; split at hcm <;> simp only [List.mem_cons, List.not_mem_nil, or_false] at hcm <;>
        rcases hcm with rfl | rfl | rfl <;> decide
    · exact he' _ (by simp)
    · exact he' _ (by simp)
    · exact hc

/-! ## only time differences enter the synchronisation -/

theorem selectRows_shift (b : Int) (sel : Option (List Int)) (rows : List Row) :
    selectRows sel (rows.map (shiftRow b)) = (selectRows sel rows).map (shiftRow b) := by
  unfold selectRows
  have hseq : (rows.map (shiftRow b)).map (·.seq) = rows.map (·.seq) := by
    simp [List.map_map, Function.comp_def, shiftRow]
  have hz : ∀ (l : List Int), List.zipWith setSeq (rows.map (shiftRow b)) l = (List.zipWith setSeq rows l).map (shiftRow b) := by
    intro l
    induction rows generalizing l with
    | nil => simp
    | cons r rs ih => cases l with
      | nil => simp
      | cons s l => simp [ih, setSeq, shiftRow]
  simp only [hseq, hz]
  cases sel with
  | none => rfl
  | some s =>
    simp only [List.filter_map]
    congr 1

theorem pairs_shift (b : Int) (l : List Row) :
    pairs (l.map (shiftRow b)) = (pairs l).map (fun prs => prs.map (fun p => (shiftRow b p.1, shiftRow b p.2))) := by
  induction l with
  | nil => simp [pairs]
  | cons r l ih =>
    have hon : (shiftRow b r).on = r.on := rfl
    cases l with
    | nil =>
      simp only [List.map_cons, List.map_nil, pairs, hon]
      split <;> simp
    | cons r' rest =>
      simp only [List.map_cons] at ih ⊢
      rw [pairs, hon, ih, pairs]
      split
      · cases pairs (r' :: rest) <;> simp
      · rfl

theorem laserTime_shift (b : Int) (f r : Row) : laserTime (shiftRow b f) (shiftRow b r) = laserTime f r := by
  unfold laserTime shiftRow
  simp only
  congr 2
  omega

/-- **the date does not matter**: only time differences to the first firing enter -/
theorem sync_shift (b : Int) (rows : List Row) (sel : Option (List Int)) (ts : List Rat) (delay : Rat)
    (isnan : Nat → Bool) (squeeze : Bool) :
    sync (rows.map (shiftRow b)) sel ts delay isnan squeeze = sync rows sel ts delay isnan squeeze := by
  unfold sync
  simp only [selectRows_shift, pairs_shift]
  cases hp : pairs (selectRows sel rows) with
  | none => rfl
  | some prs =>
    simp only [Option.map_some, List.head?_map]
    cases hh : prs.head? with
    | none => rfl
    | some fp =>
      have hx : (prs.map (fun p => (shiftRow b p.1, shiftRow b p.2))).flatMap (fun p => [p.1.x, p.2.x])
          = prs.flatMap (fun p => [p.1.x, p.2.x]) := by
        simp [List.flatMap_map, shiftRow]
      have hy : (prs.map (fun p => (shiftRow b p.1, shiftRow b p.2))).flatMap (fun p => [p.1.y, p.2.y])
          = prs.flatMap (fun p => [p.1.y, p.2.y]) := by
        simp [List.flatMap_map, shiftRow]
      have hseg : ∀ times ox oy sx sy,
          (prs.map (fun p => (shiftRow b p.1, shiftRow b p.2))).map (mkSeg times (shiftRow b fp.1) ox oy sx sy)
            = prs.map (mkSeg times fp.1 ox oy sx sy) := by
        intro times ox oy sx sy
        simp only [List.map_map]
        apply List.map_congr_left
        intro p _
        simp only [Function.comp, mkSeg, laserTime_shift]
        rfl
      simp only [Option.map_some, hx, hy, hseg]
      rfl


/-! ## the whole log -/

theorem parseLog_renderLog (base : Int) (l : List (Row × Extras))
    (h : ∀ re ∈ l, 0 ≤ base + re.1.time ∧ base + re.1.time < 253402300800000 ∧ (re.1.seq = -1 ∨ 0 ≤ re.1.seq) ∧
      re.1.spot.toList.length ≤ 32 ∧ (∀ c ∈ re.1.spot.toList, c ≠ ',') ∧ re.2.clean) :
    parseLog (renderLog base l) = some ((l.map (·.1)).map (shiftRow base)) := by
  unfold parseLog renderLog
  induction l with
  | nil => rfl
  | cons re rest ih =>
    obtain ⟨h0, h1, hs, hl, hc, he⟩ := h re (by simp)
    simp only [List.map_cons, List.mapM_cons, parseLine_fmtLine base re.1 re.2 h0 h1 hs hl hc he]
    rw [ih (fun x hx => h x (List.mem_cons_of_mem _ hx))]
    rfl

theorem textHyp_spec (base : Int) (rows : List Row) (h : textHyp base rows = true) :
    ∀ r ∈ rows, 0 ≤ base + r.time ∧ base + r.time < 253402300800000 ∧ (r.seq = -1 ∨ 0 ≤ r.seq) ∧
      r.spot.toList.length ≤ 32 ∧ (∀ c ∈ r.spot.toList, c ≠ ',') := by
  intro r hr
  unfold textHyp at h
  have := List.all_eq_true.mp h r hr
  simp only [Bool.and_eq_true, decide_eq_true_eq, Bool.or_eq_true, Bool.not_eq_eq_eq_not, Bool.not_true] at this
  obtain ⟨⟨⟨⟨a, b⟩, c⟩, d⟩, e⟩ := this
  refine ⟨a, b, c, d, ?_⟩
  intro ch hch heq
  subst heq
  have : r.spot.toList.contains ',' = true := List.contains_iff_mem.mpr hch
  rw [this] at e; cases e

/-! ## the unread columns as the instrument fills them -/

theorem withExtras_fst (b : Bool) (rows : List Row) : (withExtras b rows).map (·.1) = rows := by
  induction rows generalizing b with
  | nil => rfl
  | cons r rs ih => simp [withExtras, ih]

theorem extrasOf_clean (b : Bool) (r : Row) : (extrasOf b r).clean := by
  unfold Extras.clean extrasOf
  intro f hf c hc
  simp only [List.mem_cons, List.not_mem_nil, or_false] at hf
  rcases hf with rfl | rfl | rfl | rfl | rfl | rfl | rfl | rfl
  · split at hc
    · simp only [List.mem_cons, List.not_mem_nil, or_false] at hc; rw [hc]; decide
    · simp at hc
  · simp at hc
  · split at hc
    · rcases List.mem_append.mp hc with h | h
      · have : ∀ x ∈ "Image Raster".toList, x ≠ ',' := by decide
        exact this c h
      · exact isDigit_ne_comma c (toDigits_isDigit _ c h)
    · simp at hc
  · split at hc
    · exact fmtFixed4_no_comma _ c hc
    · simp at hc
  · split at hc
    · exact fmtFixed4_no_comma _ c hc
    · simp at hc
  · split at hc
    · simp only [List.mem_cons, List.not_mem_nil, or_false] at hc; rcases hc with rfl | rfl | rfl <;> decide
    · simp at hc
  · split at hc <;> simp only [List.mem_cons, List.not_mem_nil, or_false] at hc
    · rcases hc with rfl | rfl | rfl <;> decide
    · rw [hc]; decide
  · simp at hc

theorem withExtras_clean (b : Bool) (rows : List Row) : ∀ re ∈ withExtras b rows, re.2.clean := by
  induction rows generalizing b with
  | nil => simp [withExtras]
  | cons r rs ih =>
    intro re hre
    simp only [withExtras, List.mem_cons] at hre
    rcases hre with rfl | h
    · exact extrasOf_clean b r
    · exact ih _ re h

/-- the text written for rows that satisfy `textHyp` is read back as those rows at their absolute times, and the
synchronisation of what was read is the synchronisation of the rows -/
theorem syncText_withExtras (base : Int) (rows : List Row) (b : Bool) (h : textHyp base rows = true)
    (sel : Option (List Int)) (shape : List Nat) (clk : Clock) (delay : Rat) (isnan : Nat → Bool) (squeeze : Bool) :
    syncText (renderLog base (withExtras b rows)) sel shape clk delay isnan squeeze
      = syncClock rows sel shape clk delay isnan squeeze := by
  have hs := textHyp_spec base rows h
  have hp : parseLog (renderLog base (withExtras b rows)) = some (rows.map (shiftRow base)) := by
    rw [parseLog_renderLog, withExtras_fst]
    intro re hre
    have hmem : re.1 ∈ rows := by
      have : re.1 ∈ (withExtras b rows).map (·.1) := List.mem_map.mpr ⟨re, hre, rfl⟩
      rwa [withExtras_fst] at this
    obtain ⟨a1, a2, a3, a4, a5⟩ := hs re.1 hmem
    exact ⟨a1, a2, a3, a4, a5, withExtras_clean b rows re hre⟩
  unfold syncText
  rw [hp]
  simp only [syncClock, sync_shift]


/-! ## the rows `render` writes satisfy the hypotheses of the text layer -/

theorem spotL_no_comma (p : Pattern) : ∀ c ∈ p.spotL, c ≠ ',' := by
  intro c hc
  have hd : ∀ u, ∀ x ∈ fmtDecL u, x ≠ ',' := by
    intro u x hx
    rcases fmtDecL_chars u x hx with h | h
    · exact isDigit_ne_comma x h
    · rw [h]; decide
  unfold Pattern.spotL at hc
  split at hc
  · exact hd _ c hc
  · simp only [List.mem_append, List.mem_cons, List.not_mem_nil, or_false] at hc
    rcases hc with (h | h) | h
    · exact hd _ c h
    · rcases h with rfl | rfl | rfl <;> decide
    · exact hd _ c h

/-- every row `render` writes: time ≥ -1 ms of laser clock, sequence number blank or that of a pattern, spot size
string that of a pattern -/
theorem rendered_row (a : Acq) (r : Row) (h : r ∈ (emitAll a).rows) :
    -1 ≤ r.time ∧ (r.seq = -1 ∨ ∃ p ∈ a.patterns, r.seq = p.seq) ∧ ∃ p ∈ a.patterns, r.spot = p.spotStr := by
  unfold emitAll at h
  simp only at h
  obtain ⟨b, hb, hrb⟩ := List.mem_flatMap.mp h
  have hbp := mem_recs_p a b hb
  unfold PatRec.rows at hrb
  simp only [List.mem_cons] at hrb
  rcases hrb with rfl | rfl | hrl
  · exact ⟨by simp [PatRec.hdr], Or.inr ⟨b.p, hbp, rfl⟩, b.p, hbp, rfl⟩
  · exact ⟨by simp [PatRec.hdr], Or.inl rfl, b.p, hbp, rfl⟩
  · obtain ⟨l, hl, hrl⟩ := List.mem_flatMap.mp hrl
    have hlp := (mem_recs_lines a b hb l hl).1
    have hseq := lineRows_seq l r hrl
    refine ⟨?_, Or.inl hseq, b.p, hbp, ?_⟩
    · unfold LineRec.rows LineRec.moveRows at hrl
      simp only at hrl
      rcases List.mem_append.mp hrl with h | h
      · split at h
        · simp at h
        · split at h
          · simp at h; subst h; simp only; omega
          · simp at h; rcases h with h | h <;> subst h <;> simp only <;> omega
      · simp at h; rcases h with h | h <;> subst h <;> simp [LineRec.onRow, LineRec.offRow]
    · rw [← hlp]
      unfold LineRec.rows LineRec.moveRows at hrl
      simp only at hrl
      rcases List.mem_append.mp hrl with h | h
      · split at h
        · simp at h
        · split at h
          · simp at h; subst h; rfl
          · simp at h; rcases h with h | h <;> subst h <;> rfl
      · simp at h; rcases h with h | h <;> subst h <;> rfl

theorem rendered_textHyp (a : Acq) (base : Int) (hseq : ∀ p ∈ a.patterns, 0 ≤ p.seq)
    (hspot : ∀ p ∈ a.patterns, p.spotL.length ≤ 32) (hb0 : 1 ≤ base)
    (hb1 : ∀ r ∈ (emitAll a).rows, base + r.time < 253402300800000) :
    textHyp base (emitAll a).rows = true := by
  unfold textHyp
  rw [List.all_eq_true]
  intro r hr
  obtain ⟨ht, hs, p, hp, hsp⟩ := rendered_row a r hr
  have hl : r.spot.toList = p.spotL := by rw [hsp]; unfold Pattern.spotStr; exact String.toList_ofList
  simp only [Bool.and_eq_true, decide_eq_true_eq, Bool.or_eq_true, Bool.not_eq_eq_eq_not, Bool.not_true]
  refine ⟨⟨⟨⟨by omega, hb1 r hr⟩, ?_⟩, by rw [hl]; exact hspot p hp⟩, ?_⟩
  · rcases hs with h | ⟨q, hq, h⟩
    · exact Or.inl h
    · exact Or.inr (by rw [h]; exact hseq q hq)
  · cases hc : r.spot.toList.contains ',' with
    | false => rfl
    | true =>
      have := List.contains_iff_mem.mp hc
      rw [hl] at this
      exact absurd rfl (spotL_no_comma p ',' this)


end Pew.Sync
