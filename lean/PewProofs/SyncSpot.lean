import PewProofs.Sync

/-! # C08 — the spot size written in the log parses back to the pattern's spot size -/
namespace Pew.Sync

/-! ## digits -/

theorem digitsVal_eq (cs : List Char) (hne : cs ≠ []) (hd : ∀ c ∈ cs, c.isDigit = true) :
    digitsVal cs = some (Nat.ofDigitChars 10 cs 0) := by
  unfold digitsVal
  have h1 : cs.isEmpty = false := by cases cs <;> simp_all
  have h2 : cs.all Char.isDigit = true := List.all_eq_true.mpr hd
  simp only [h1, h2, if_true, Bool.false_eq_true, if_false]
  rw [Nat.ofDigitChars_eq_foldl]

theorem toDigits_isDigit (n : Nat) : ∀ c ∈ Nat.toDigits 10 n, c.isDigit = true :=
  fun _ hc => Nat.isDigit_of_mem_toDigits (by decide) (by decide) hc

theorem digitsVal_toDigits (n : Nat) : digitsVal (Nat.toDigits 10 n) = some n := by
  rw [digitsVal_eq _ Nat.toDigits_ne_nil (toDigits_isDigit n), Nat.ofDigitChars_ten_toDigits]

theorem isDigit_ne_dot (c : Char) (h : c.isDigit = true) : (c != '.') = true := by
  rw [bne_iff_ne]; rintro rfl; exact absurd h (by decide)

theorem isDigit_ne_space (c : Char) (h : c.isDigit = true) : c ≠ ' ' := by
  rintro rfl; exact absurd h (by decide)

theorem isDigit_ne_x (c : Char) (h : c.isDigit = true) : c ≠ 'x' := by
  rintro rfl; exact absurd h (by decide)

theorem takeWhile_all {α} (p : α → Bool) (l : List α) : ∀ a ∈ l.takeWhile p, p a = true := by
  induction l with
  | nil => simp
  | cons x xs ih =>
    intro a ha
    rw [List.takeWhile_cons] at ha
    split at ha
    · rcases List.mem_cons.mp ha with h | h
      · subst h; assumption
      · exact ih a h
    · simp at ha

/-! ## trailing zeros -/

def trimZ (d : List Char) : List Char := (d.reverse.dropWhile (· == '0')).reverse

theorem trimZ_spec (d : List Char) : ∃ z, d = trimZ d ++ List.replicate z '0' := by
  have h := List.takeWhile_append_dropWhile (p := (· == '0')) (l := d.reverse)
  refine ⟨(d.reverse.takeWhile (· == '0')).length, ?_⟩
  have hrep : (d.reverse.takeWhile (· == '0')).reverse
      = List.replicate (d.reverse.takeWhile (· == '0')).length '0' := by
    rw [List.eq_replicate_iff]
    refine ⟨by simp, ?_⟩
    intro b hb
    have := takeWhile_all (· == '0') d.reverse b (List.mem_reverse.mp hb)
    simpa using this
  have : d = (d.reverse.dropWhile (· == '0')).reverse ++ (d.reverse.takeWhile (· == '0')).reverse := by
    rw [← List.reverse_append, h, List.reverse_reverse]
  rw [← hrep]
  exact this

theorem trimZ_sublist (d : List Char) : ∀ c ∈ trimZ d, c ∈ d := by
  intro c hc
  unfold trimZ at hc
  exact List.mem_reverse.mp ((List.dropWhile_sublist _).mem (List.mem_reverse.mp hc))

/-! ## four fractional digits -/

def frac4 (fp : Nat) : List Char :=
  [Nat.digitChar (fp / 1000), Nat.digitChar (fp / 100 % 10), Nat.digitChar (fp / 10 % 10), Nat.digitChar (fp % 10)]

theorem frac4_isDigit (fp : Nat) (h : fp < 10000) : ∀ c ∈ frac4 fp, c.isDigit = true := by
  intro c hc
  simp only [frac4, List.mem_cons, List.not_mem_nil, or_false] at hc
  rcases hc with rfl | rfl | rfl | rfl <;> rw [Nat.isDigit_digitChar] <;> simp <;> omega

theorem frac4_val (fp : Nat) (h : fp < 10000) : Nat.ofDigitChars 10 (frac4 fp) 0 = fp := by
  unfold frac4
  rw [Nat.ofDigitChars_cons_digitChar_of_lt_ten (by omega), Nat.ofDigitChars_cons_digitChar_of_lt_ten (by omega),
    Nat.ofDigitChars_cons_digitChar_of_lt_ten (by omega), Nat.ofDigitChars_cons_digitChar_of_lt_ten (by omega),
    Nat.ofDigitChars_nil]
  omega

/-- the trimmed fractional digits: non-empty, all digits, and `value / 10^length = fp / 10^4` -/
theorem frac_trim (fp : Nat) (h : fp < 10000) (hne : fp ≠ 0) :
    trimZ (frac4 fp) ≠ [] ∧ (∀ c ∈ trimZ (frac4 fp), c.isDigit = true) ∧
      ((Nat.ofDigitChars 10 (trimZ (frac4 fp)) 0 : Nat) : Rat) / ((10 ^ (trimZ (frac4 fp)).length : Nat) : Rat)
        = (fp : Rat) / 10000 := by
  obtain ⟨z, hz⟩ := trimZ_spec (frac4 fp)
  have hval := frac4_val fp h
  have hlen : (frac4 fp).length = 4 := rfl
  rw [hz, Nat.ofDigitChars_append, Nat.ofDigitChars_replicate_zero] at hval
  rw [hz, List.length_append, List.length_replicate] at hlen
  refine ⟨?_, fun c hc => frac4_isDigit fp h c (trimZ_sublist _ c hc), ?_⟩
  · intro hnil
    rw [hnil] at hval
    simp at hval
    omega
  · have hpow : (10000 : Rat) = ((10 ^ (trimZ (frac4 fp)).length : Nat) : Rat) * ((10 ^ z : Nat) : Rat) := by
      rw [← Nat.cast_mul, ← Nat.pow_add, hlen]; norm_num
    have hfp : (fp : Rat) = ((10 ^ z : Nat) : Rat) * ((Nat.ofDigitChars 10 (trimZ (frac4 fp)) 0 : Nat) : Rat) := by
      rw [← Nat.cast_mul, hval]
    have hz0 : ((10 ^ z : Nat) : Rat) ≠ 0 := by positivity
    have ht0 : ((10 ^ (trimZ (frac4 fp)).length : Nat) : Rat) ≠ 0 := by positivity
    rw [hpow, hfp]
    field_simp

/-! ## formatting, then parsing -/

theorem fmtDecL_chars (u : Nat) : ∀ c ∈ fmtDecL u, c.isDigit = true ∨ c = '.' := by
  intro c hc
  have hEq : fmtDecL u = if u % 10000 = 0 then Nat.toDigits 10 (u / 10000)
      else Nat.toDigits 10 (u / 10000) ++ '.' :: trimZ (frac4 (u % 10000)) := rfl
  rw [hEq] at hc
  split at hc
  · exact Or.inl (toDigits_isDigit _ c hc)
  · rcases List.mem_append.mp hc with h | h
    · exact Or.inl (toDigits_isDigit _ c h)
    · rcases List.mem_cons.mp h with h | h
      · exact Or.inr h
      · exact Or.inl (frac4_isDigit _ (Nat.mod_lt _ (by decide)) c (trimZ_sublist (frac4 (u % 10000)) c h))

theorem fmtDecL_eq (u : Nat) :
    fmtDecL u = if u % 10000 = 0 then Nat.toDigits 10 (u / 10000)
      else Nat.toDigits 10 (u / 10000) ++ '.' :: trimZ (frac4 (u % 10000)) := rfl

theorem parseDecL_int (D : List Char) (hD : ∀ a ∈ D, (a != '.') = true) :
    parseDecL D = (digitsVal D).map (fun n => (n : Rat)) := by
  have hdrop : D.dropWhile (· != '.') = [] := by
    have := List.dropWhile_append_of_pos (l₂ := []) hD
    simpa using this
  unfold parseDecL
  rw [hdrop]

theorem parseDecL_frac (D t : List Char) (hD : ∀ a ∈ D, (a != '.') = true) :
    parseDecL (D ++ '.' :: t) = (digitsVal D).bind (fun n => (digitsVal t).bind (fun m =>
      some ((n : Rat) + (m : Rat) / ((10 ^ t.length : Nat) : Rat)))) := by
  have hdrop : (D ++ '.' :: t).dropWhile (· != '.') = '.' :: t := by
    rw [List.dropWhile_append_of_pos hD]; simp
  have htake : (D ++ '.' :: t).takeWhile (· != '.') = D := by
    rw [List.takeWhile_append_of_pos hD]; simp
  unfold parseDecL
  rw [hdrop]
  simp only [htake]
  rfl

theorem parseDecL_fmtDecL (u : Nat) : parseDecL (fmtDecL u) = some ((u : Rat) / 10000) := by
  rw [fmtDecL_eq]
  have hnd : ∀ a ∈ Nat.toDigits 10 (u / 10000), (a != '.') = true :=
    fun a ha => isDigit_ne_dot a (toDigits_isDigit _ a ha)
  have hu : (u : Rat) = ((u / 10000 : Nat) : Rat) * 10000 + ((u % 10000 : Nat) : Rat) := by
    have h : u = u / 10000 * 10000 + u % 10000 := by omega
    have h' : (u : Rat) = ((u / 10000 * 10000 + u % 10000 : Nat) : Rat) := by rw [← h]
    rw [h']; push_cast; ring
  split
  · rename_i hfp
    rw [parseDecL_int _ hnd, digitsVal_toDigits]
    change some (((u / 10000 : Nat) : Rat)) = _
    congr 1
    rw [hu, hfp]; simp
  · rename_i hfp
    have hlt : u % 10000 < 10000 := Nat.mod_lt _ (by decide)
    obtain ⟨hne, hdig, hval⟩ := frac_trim (u % 10000) hlt hfp
    rw [parseDecL_frac _ _ hnd, digitsVal_toDigits, digitsVal_eq _ hne hdig]
    change some (_ + _) = _
    congr 1
    rw [hval, hu]; field_simp

/-! ## `" x "` -/

theorem splitX_nosep (B : List Char) (hB : ∀ c ∈ B, c ≠ ' ') : splitX B = [B] := by
  induction B with
  | nil => rfl
  | cons c rest ih =>
    have hc : c ≠ ' ' := hB c (by simp)
    rw [splitX.eq_3 c rest (fun _ h _ => hc h), ih (fun c' hc' => hB c' (by simp [hc']))]

theorem splitX_sep (A B : List Char) (hA : ∀ c ∈ A, c ≠ ' ') (hB : ∀ c ∈ B, c ≠ ' ') :
    splitX (A ++ ' ' :: 'x' :: ' ' :: B) = [A, B] := by
  induction A with
  | nil => rw [List.nil_append, splitX.eq_2, splitX_nosep B hB]
  | cons c rest ih =>
    have hc : c ≠ ' ' := hA c (by simp)
    rw [List.cons_append, splitX.eq_3 c _ (fun _ h _ => hc h), ih (fun c' hc' => hA c' (by simp [hc']))]

theorem fmtDecL_no_space (u : Nat) : ∀ c ∈ fmtDecL u, c ≠ ' ' := by
  intro c hc
  rcases fmtDecL_chars u c hc with h | h
  · exact isDigit_ne_space c h
  · rw [h]; decide

theorem fmtDecL_no_x (u : Nat) : ∀ c ∈ fmtDecL u, c ≠ 'x' := by
  intro c hc
  rcases fmtDecL_chars u c hc with h | h
  · exact isDigit_ne_x c h
  · rw [h]; decide

/-- The spot size the renderer writes (`"a x b"`, or `"a"` for a circular spot) parses back to the
pattern's spot size in µm. -/
theorem spotSize_spotStr (p : Pattern) :
    spotSize p.spotStr =
      some [(p.sxu : Rat) / 10000, ((if p.circular then p.sxu else p.syu : Nat) : Rat) / 10000] := by
  unfold spotSize Pattern.spotStr
  simp only [String.toList_ofList]
  unfold Pattern.spotL
  by_cases hc : p.circular = true
  · simp only [hc, if_true]
    have hx : (fmtDecL p.sxu).contains 'x' = false := by
      rw [← Bool.not_eq_true, List.contains_iff_mem]
      exact fun h => fmtDecL_no_x p.sxu 'x' h rfl
    rw [hx]
    simp [parseDecL_fmtDecL]
  · have hc' : p.circular = false := by simpa using hc
    simp only [hc', Bool.false_eq_true, if_false]
    have hx : (fmtDecL p.sxu ++ [' ', 'x', ' '] ++ fmtDecL p.syu).contains 'x' = true := by
      rw [List.contains_iff_mem]; simp
    rw [hx]
    simp only [if_true]
    have : fmtDecL p.sxu ++ [' ', 'x', ' '] ++ fmtDecL p.syu = fmtDecL p.sxu ++ ' ' :: 'x' :: ' ' :: fmtDecL p.syu := by
      simp
    rw [this, splitX_sep _ _ (fmtDecL_no_space _) (fmtDecL_no_space _)]
    simp [parseDecL_fmtDecL]

end Pew.Sync
