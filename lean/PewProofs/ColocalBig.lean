import PewProofs.Colocal

/-! helper lemmas for the quasi-linear forms of the C14 shuffle specification (`specOutsideFast`, `specBlocksFast`,
`specApplied` of `PewModel/Colocal.lean`) -/
namespace Pew.Colocal

theorem mem_selected (M : Nat → Nat → Bool) (b0 b1 nb0 nb1 : Nat) (part : Bool) (f : Nat) :
    f ∈ selected M b0 b1 nb0 nb1 part ↔ f < nb0 * nb1 ∧ blockMask M b0 b1 part (f / nb1) (f % nb1) = true := by
  simp [selected, List.mem_filter]

/-- "inside a selected block" can be read off the block's own mask cells -/
theorem inSelected_selected (M : Nat → Nat → Bool) (b0 b1 nb0 nb1 : Nat) (part : Bool) (i j : Nat) :
    inSelected b0 b1 nb0 nb1 (selected M b0 b1 nb0 nb1 part) i j
      = (decide (i / b0 < nb0) && decide (j / b1 < nb1) && blockMask M b0 b1 part (i / b0) (j / b1)) := by
  unfold inSelected
  by_cases h0 : i / b0 < nb0
  · by_cases h1 : j / b1 < nb1
    · have hd : (i / b0 * nb1 + j / b1) / nb1 = i / b0 := blk_div _ _ _ h1
      have hm : (i / b0 * nb1 + j / b1) % nb1 = j / b1 := blk_mod _ _ _ h1
      have hlt : i / b0 * nb1 + j / b1 < nb0 * nb1 := blk_lt _ _ _ _ h0 h1
      rw [Bool.eq_iff_iff]
      simp only [h0, h1, decide_true, Bool.true_and, List.contains_iff_mem, mem_selected, hd, hm, hlt, true_and]
    · simp [h0, h1]
  · simp [h0]

/-- membership in the box of visible offsets of block `(F0, F1)` -/
theorem mem_pixels_vis (n0 n1 b0 b1 F0 F1 : Nat) (o : Nat × Nat) :
    o ∈ pixels (visExt n0 b0 F0) (visExt n1 b1 F1)
      ↔ o ∈ pixels b0 b1 ∧ F0 * b0 + o.1 < n0 ∧ F1 * b1 + o.2 < n1 := by
  simp only [mem_pixels, visExt]
  omega

/-- two blocks agree on the visible box iff their keys are equal -/
theorem blockKey_eq_iff (A B : Nat → Nat → Rat) (b0 b1 v0 v1 G0 G1 F0 F1 : Nat) :
    blockKey A b0 b1 v0 v1 G0 G1 = blockKey B b0 b1 v0 v1 F0 F1
      ↔ ∀ o ∈ pixels v0 v1, A (G0 * b0 + o.1) (G1 * b1 + o.2) = B (F0 * b0 + o.1) (F1 * b1 + o.2) := by
  unfold blockKey
  exact List.map_inj_left

/-- looking a (shape, key) pair up in the hash set of all (shape, key of a selected input block) pairs -/
theorem keys_contains_iff (X O : Nat → Nat → Rat) (b0 b1 nb1 : Nat) (idx : List Nat) (vis : Nat → Nat × Nat)
    (f : Nat) (hf : f ∈ idx) :
    (Std.HashSet.ofList (((idx.map vis).eraseDups).flatMap (fun v =>
        idx.map (fun g => (v, blockKey X b0 b1 v.1 v.2 (g / nb1) (g % nb1)))))).contains
        (vis f, blockKey O b0 b1 (vis f).1 (vis f).2 (f / nb1) (f % nb1)) = true
      ↔ ∃ g ∈ idx, blockKey X b0 b1 (vis f).1 (vis f).2 (g / nb1) (g % nb1)
          = blockKey O b0 b1 (vis f).1 (vis f).2 (f / nb1) (f % nb1) := by
  rw [Std.HashSet.contains_ofList, List.contains_iff_mem]
  simp only [List.mem_flatMap, List.mem_map, List.mem_eraseDups, Prod.mk.injEq]
  constructor
  · rintro ⟨v, _, g, hg, hv, hk⟩
    subst hv
    exact ⟨g, hg, hk⟩
  · rintro ⟨g, hg, hk⟩
    exact ⟨vis f, ⟨f, hf, rfl⟩, g, hg, rfl, hk⟩

/-- an entry of `idx.zip nidx` is `(idx[k], nidx[k])` for some position `k` -/
theorem mem_zip_getElem {α β : Type} (l : List α) (l' : List β) (p : α × β) (h : p ∈ l.zip l') :
    ∃ (k : Nat) (h1 : k < l.length) (h2 : k < l'.length), p = (l[k], l'[k]) := by
  obtain ⟨k, hk, e⟩ := List.mem_iff_getElem.mp h
  have hk' := hk
  rw [List.length_zip] at hk'
  refine ⟨k, by omega, by omega, ?_⟩
  rw [← e, List.getElem_zip]

/-- in a duplicate-free list the first position of `l[k]` is `k` -/
theorem idxOf_getElem_of_nodup (l : List Nat) (hnd : l.Nodup) (k : Nat) (hk : k < l.length) :
    l.idxOf l[k] = k := by
  have h1 : l.idxOf l[k] < l.length := List.idxOf_lt_length_iff.mpr (List.getElem_mem hk)
  have h2 : l[l.idxOf l[k]] = l[k] := List.getElem_idxOf h1
  exact (List.Nodup.getElem_inj_iff hnd).mp h2

/-- `blocks[idx] = blocks[nidx]` at a selected position: the block at `idx[k]` comes from `nidx[k]` -/
theorem src_getElem (idx nidx : List Nat) (hnd : idx.Nodup) (k : Nat) (h1 : k < idx.length) (h2 : k < nidx.length) :
    src idx nidx idx[k] = nidx[k] := by
  unfold src
  rw [idxOf_getElem_of_nodup idx hnd k h1, if_pos h1, List.getD_eq_getElem?_getD, List.getElem?_eq_getElem h2]
  rfl

/-- the specification relations read the output inside the image only -/
theorem specBlocks_congr (x out out' : Img Rat) (mask : Nat → Nat → Bool) (b0 b1 : Nat) (padMode part : Bool)
    (h : ∀ i j, i < x.n0 → j < x.n1 → out.get i j = out'.get i j) :
    specBlocks x out mask b0 b1 padMode part = specBlocks x out' mask b0 b1 padMode part := by
  unfold specBlocks
  refine List.all_congr rfl (fun f => List.any_congr rfl (fun g => List.all_congr rfl (fun o => ?_)))
  by_cases hi : f / nBlocks (prepare x mask b0 b1 padMode).N1 b1 * b0 + o.1 < x.n0
  · by_cases hj : f % nBlocks (prepare x mask b0 b1 padMode).N1 b1 * b1 + o.2 < x.n1
    · simp only [hi, hj, h _ _ hi hj]
    · simp [hj]
  · simp [hi]

theorem specConserved_congr (x out out' : Img Rat)
    (h : ∀ i j, i < x.n0 → j < x.n1 → out.get i j = out'.get i j) :
    specConserved x out = specConserved x out' := by
  unfold specConserved
  have : (pixels x.n0 x.n1).map (fun q => out.get q.1 q.2) = (pixels x.n0 x.n1).map (fun q => out'.get q.1 q.2) := by
    apply List.map_congr_left
    intro q hq
    rw [mem_pixels] at hq
    exact h q.1 q.2 hq.1 hq.2
  rw [this]

/-- reading a list through `src` at the selected positions is reading it at `nidx` -/
theorem map_src_eq (idx nidx : List Nat) (hp : nidx.Perm idx) (hnd : idx.Nodup) {β : Type} (k : Nat → β) :
    idx.map (fun f => k (src idx nidx f)) = nidx.map k := by
  apply List.ext_getElem
  · simp [hp.length_eq]
  · intro i h1 h2
    simp only [List.length_map] at h1 h2
    simp only [List.getElem_map]
    rw [src_getElem idx nidx hnd i h1 h2]

end Pew.Colocal
