import PewModel.Calib
import Mathlib.Tactic.Linarith
import Mathlib.Tactic.Ring
import Mathlib.Tactic.FieldSimp
import Mathlib.Tactic.Positivity
import Mathlib.Algebra.Order.Field.Rat
import Mathlib.Data.List.Perm.Basic

/-! helper lemmas for C06 (weighted least squares over ℚ) -/
namespace Pew.Calib

@[simp] theorem S_nil (f : Pt → Rat) : S f [] = 0 := rfl
@[simp] theorem S_cons (f : Pt → Rat) (p : Pt) (l : List Pt) : S f (p :: l) = f p + S f l := rfl

theorem S_add (f g : Pt → Rat) (l : List Pt) : S (fun p => f p + g p) l = S f l + S g l := by
  induction l with
  | nil => simp
  | cons p r ih => simp only [S_cons, ih]; ring

theorem S_sub (f g : Pt → Rat) (l : List Pt) : S (fun p => f p - g p) l = S f l - S g l := by
  induction l with
  | nil => simp
  | cons p r ih => simp only [S_cons, ih]; ring

theorem S_mul_left (c : Rat) (f : Pt → Rat) (l : List Pt) : S (fun p => c * f p) l = c * S f l := by
  induction l with
  | nil => simp
  | cons p r ih => simp only [S_cons, ih]; ring

theorem S_congr {f g : Pt → Rat} (l : List Pt) (h : ∀ p ∈ l, f p = g p) : S f l = S g l := by
  induction l with
  | nil => rfl
  | cons p r ih =>
    simp only [S_cons]
    rw [h p (by simp), ih (fun q hq => h q (by simp [hq]))]

theorem S_nonneg {f : Pt → Rat} (l : List Pt) (h : ∀ p ∈ l, 0 ≤ f p) : 0 ≤ S f l := by
  induction l with
  | nil => simp
  | cons p r ih =>
    simp only [S_cons]
    have := h p (by simp)
    have := ih (fun q hq => h q (by simp [hq]))
    linarith

theorem S_perm (f : Pt → Rat) {l₁ l₂ : List Pt} (h : l₁.Perm l₂) : S f l₁ = S f l₂ := by
  induction h with
  | nil => rfl
  | cons a _ ih => simp [ih]
  | swap a b l => simp only [S_cons]; ring
  | trans _ _ ih₁ ih₂ => exact ih₁.trans ih₂

/-- cost as a quadratic form in (a, b) -/
theorem cost_expand (a b : Rat) (l : List Pt) :
    cost a b l = Swyy l - 2 * a * Swxy l - 2 * b * Swy l
      + a ^ 2 * Swxx l + 2 * a * b * Swx l + b ^ 2 * Sw l := by
  induction l with
  | nil => simp [cost, Sw, Swx, Swy, Swxx, Swxy, Swyy]
  | cons p r ih =>
    simp only [cost, Sw, Swx, Swy, Swxx, Swxy, Swyy, S_cons] at *
    rw [ih]; ring

theorem normal_eq1 (l : List Pt) (hS : Sw l ≠ 0) :
    Swy l - gradient l * Swx l - intercept l * Sw l = 0 := by
  unfold intercept; field_simp; ring

theorem normal_eq2 (l : List Pt) (hD : D l ≠ 0) (hS : Sw l ≠ 0) :
    Swxy l - gradient l * Swxx l - intercept l * Swx l = 0 := by
  unfold intercept gradient N D at *; field_simp; ring

/-- weighted sum of squares is nonnegative -/
theorem quad_eq (u v : Rat) (l : List Pt) :
    u ^ 2 * Swxx l + 2 * u * v * Swx l + v ^ 2 * Sw l = S (fun p => p.w * (u * p.x + v) ^ 2) l := by
  induction l with
  | nil => simp [Sw, Swx, Swxx]
  | cons p r ih =>
    simp only [Sw, Swx, Swxx, S_cons] at *
    linarith [ih, show p.w * (u * p.x + v) ^ 2 = u^2 * (p.w * p.x * p.x) + 2*u*v*(p.w*p.x) + v^2 * p.w by ring]

theorem quad_nonneg (u v : Rat) (l : List Pt) (hw : ∀ p ∈ l, 0 ≤ p.w) :
    0 ≤ u ^ 2 * Swxx l + 2 * u * v * Swx l + v ^ 2 * Sw l := by
  rw [quad_eq]
  exact S_nonneg l (fun p hp => mul_nonneg (hw p hp) (sq_nonneg _))

theorem cost_nonneg (a b : Rat) (l : List Pt) (hw : ∀ p ∈ l, 0 ≤ p.w) : 0 ≤ cost a b l :=
  S_nonneg l (fun p hp => mul_nonneg (hw p hp) (sq_nonneg _))

/-- Lagrange-type recursion: adding a row adds its weighted squared distances to all other rows -/
theorem D_cons (p : Pt) (l : List Pt) :
    D (p :: l) = D l + p.w * S (fun q => q.w * (q.x - p.x) ^ 2) l := by
  have h : S (fun q => q.w * (q.x - p.x) ^ 2) l = Swxx l - 2 * p.x * Swx l + p.x ^ 2 * Sw l := by
    induction l with
    | nil => simp [Sw, Swx, Swxx]
    | cons q r ih =>
      simp only [Sw, Swx, Swxx, S_cons] at *
      rw [ih]; ring
  rw [h]
  simp only [D, Sw, Swx, Swxx, S_cons]
  ring

theorem D_nonneg (l : List Pt) (hw : ∀ p ∈ l, 0 ≤ p.w) : 0 ≤ D l := by
  induction l with
  | nil => simp [D, Sw, Swx, Swxx]
  | cons p r ih =>
    rw [D_cons]
    have h1 := ih (fun q hq => hw q (by simp [hq]))
    have h2 : 0 ≤ S (fun q => q.w * (q.x - p.x) ^ 2) r :=
      S_nonneg r (fun q hq => mul_nonneg (hw q (by simp [hq])) (sq_nonneg _))
    have h3 := hw p (by simp)
    have := mul_nonneg h3 h2
    linarith

theorem S_pos_of_mem {f : Pt → Rat} (l : List Pt) (h : ∀ p ∈ l, 0 ≤ f p) (q : Pt) (hq : q ∈ l)
    (hpos : 0 < f q) : 0 < S f l := by
  induction l with
  | nil => simp at hq
  | cons a r ih =>
    simp only [S_cons]
    have ha := h a (by simp)
    have hr : 0 ≤ S f r := S_nonneg r (fun p hp => h p (by simp [hp]))
    rcases List.mem_cons.mp hq with rfl | hq'
    · linarith
    · have := ih (fun p hp => h p (by simp [hp])) hq'
      linarith

theorem D_pos_of (l : List Pt) (hw : ∀ p ∈ l, 0 ≤ p.w) (p q : Pt) (hp : p ∈ l) (hq : q ∈ l)
    (hpw : 0 < p.w) (hqw : 0 < q.w) (hx : p.x ≠ q.x) : 0 < D l := by
  induction l with
  | nil => simp at hp
  | cons a r ih =>
    rw [D_cons]
    have hwr : ∀ p ∈ r, 0 ≤ p.w := fun q hq => hw q (by simp [hq])
    have hDr := D_nonneg r hwr
    have hnn : ∀ t ∈ r, 0 ≤ t.w * (t.x - a.x) ^ 2 := fun t ht => mul_nonneg (hwr t ht) (sq_nonneg _)
    have hSr : 0 ≤ S (fun q => q.w * (q.x - a.x) ^ 2) r := S_nonneg r hnn
    have haw := hw a (by simp)
    rcases List.mem_cons.mp hp with rfl | hp'
    · rcases List.mem_cons.mp hq with rfl | hq'
      · exact absurd rfl hx
      · have hsq : 0 < (q.x - p.x) ^ 2 := by
          have : q.x - p.x ≠ 0 := sub_ne_zero.mpr (Ne.symm hx)
          positivity
        have : 0 < S (fun t => t.w * (t.x - p.x) ^ 2) r :=
          S_pos_of_mem r hnn q hq' (mul_pos hqw hsq)
        have := mul_pos hpw this
        linarith
    · rcases List.mem_cons.mp hq with rfl | hq'
      · have hsq : 0 < (p.x - q.x) ^ 2 := by
          have : p.x - q.x ≠ 0 := sub_ne_zero.mpr hx
          positivity
        have : 0 < S (fun t => t.w * (t.x - q.x) ^ 2) r :=
          S_pos_of_mem r hnn p hp' (mul_pos hpw hsq)
        have := mul_pos hqw this
        linarith
      · have := ih hwr hp' hq'
        have := mul_nonneg haw hSr
        linarith

theorem S_pos_exists {f : Pt → Rat} (l : List Pt) (hpos : 0 < S f l) : ∃ q ∈ l, 0 < f q := by
  induction l with
  | nil => simp at hpos
  | cons a r ih =>
    simp only [S_cons] at hpos
    by_cases ha : 0 < f a
    · exact ⟨a, by simp, ha⟩
    · have : 0 < S f r := by linarith
      obtain ⟨q, hq, h⟩ := ih this
      exact ⟨q, by simp [hq], h⟩

theorem D_pos_exists (l : List Pt) (hw : ∀ p ∈ l, 0 ≤ p.w) (hD : 0 < D l) :
    ∃ p ∈ l, ∃ q ∈ l, 0 < p.w ∧ 0 < q.w ∧ p.x ≠ q.x := by
  induction l with
  | nil => simp [D, Sw, Swx, Swxx] at hD
  | cons a r ih =>
    rw [D_cons] at hD
    have hwr : ∀ p ∈ r, 0 ≤ p.w := fun q hq => hw q (by simp [hq])
    by_cases hr : 0 < D r
    · obtain ⟨p, hp, q, hq, h⟩ := ih hwr hr
      exact ⟨p, by simp [hp], q, by simp [hq], h⟩
    · have hDr := D_nonneg r hwr
      have hprod : 0 < a.w * S (fun q => q.w * (q.x - a.x) ^ 2) r := by linarith
      have haw := hw a (by simp)
      have ha : 0 < a.w := by
        rcases haw.lt_or_eq with h | h
        · exact h
        · rw [← h] at hprod; simp at hprod
      have hS : 0 < S (fun q => q.w * (q.x - a.x) ^ 2) r := by
        by_contra hcon
        have : S (fun q => q.w * (q.x - a.x) ^ 2) r ≤ 0 := not_lt.mp hcon
        have := mul_nonpos_of_nonneg_of_nonpos haw this
        linarith
      obtain ⟨q, hq, hqpos⟩ := S_pos_exists r hS
      have hqw0 := hwr q hq
      have hqw : 0 < q.w := by
        rcases hqw0.lt_or_eq with h | h
        · exact h
        · rw [← h] at hqpos; simp at hqpos
      have hne : a.x ≠ q.x := by
        intro he
        rw [he] at hqpos; simp at hqpos
      exact ⟨a, by simp, q, by simp [hq], ha, hqw, hne⟩

/-- `Sw > 0` follows from `D > 0` when no weight is negative -/
theorem Sw_pos_of_D_pos (l : List Pt) (hw : ∀ p ∈ l, 0 ≤ p.w) (hD : 0 < D l) : 0 < Sw l := by
  have h0 : 0 ≤ Sw l := S_nonneg l hw
  rcases h0.lt_or_eq with h | h
  · exact h
  · exfalso
    unfold D at hD
    rw [← h] at hD
    have := sq_nonneg (Swx l)
    linarith

/-- the optimal cost in closed form: `Sw · D · cost = D · Dy − N²` -/
theorem cost_opt (l : List Pt) (hD : D l ≠ 0) (hS : Sw l ≠ 0) :
    Sw l * D l * cost (gradient l) (intercept l) l = D l * Dy l - N l ^ 2 := by
  rw [cost_expand]
  unfold intercept gradient
  have hD' := hD
  unfold D N Dy at *
  field_simp
  ring

theorem resid_sum (g c : Rat) (l : List Pt) :
    S (fun p => p.w * (p.y - (g * p.x + c))) l = Swy l - g * Swx l - c * Sw l := by
  induction l with
  | nil => simp [Sw, Swx, Swy]
  | cons p r ih => simp only [Sw, Swx, Swy, S_cons] at *; rw [ih]; ring

theorem resid_x_sum (g c : Rat) (l : List Pt) :
    S (fun p => p.w * (p.y - (g * p.x + c)) * p.x) l = Swxy l - g * Swxx l - c * Swx l := by
  induction l with
  | nil => simp [Swx, Swxx, Swxy]
  | cons p r ih => simp only [Swx, Swxx, Swxy, S_cons] at *; rw [ih]; ring

/-! ### centred sums -/

theorem centred_xy (a b : Rat) (l : List Pt) :
    S (fun p => p.w * (p.x - a) * (p.y - b)) l = Swxy l - a * Swy l - b * Swx l + a * b * Sw l := by
  induction l with
  | nil => simp [Sw, Swx, Swy, Swxy]
  | cons p r ih => simp only [Sw, Swx, Swy, Swxy, S_cons] at *; rw [ih]; ring

theorem centred_xx (a : Rat) (l : List Pt) :
    S (fun p => p.w * (p.x - a) * (p.x - a)) l = Swxx l - 2 * a * Swx l + a * a * Sw l := by
  induction l with
  | nil => simp [Sw, Swx, Swxx]
  | cons p r ih => simp only [Sw, Swx, Swxx, S_cons] at *; rw [ih]; ring

theorem centred_yy (b : Rat) (l : List Pt) :
    S (fun p => p.w * (p.y - b) * (p.y - b)) l = Swyy l - 2 * b * Swy l + b * b * Sw l := by
  induction l with
  | nil => simp [Sw, Swy, Swyy]
  | cons p r ih => simp only [Sw, Swy, Swyy, S_cons] at *; rw [ih]; ring

theorem sxx_eq (l : List Pt) (hS : Sw l ≠ 0) : sxx l = D l / Sw l := by
  have : sxx l = S (fun p => p.w * (p.x - meanX l) * (p.x - meanX l)) l :=
    S_congr l (fun p _ => by ring)
  rw [this, centred_xx]; unfold meanX D; field_simp; ring

theorem syy_eq (l : List Pt) (hS : Sw l ≠ 0) : syy l = Dy l / Sw l := by
  have : syy l = S (fun p => p.w * (p.y - meanY l) * (p.y - meanY l)) l :=
    S_congr l (fun p _ => by ring)
  rw [this, centred_yy]; unfold meanY Dy; field_simp; ring

theorem sxy_eq (l : List Pt) (hS : Sw l ≠ 0) : sxy l = N l / Sw l := by
  unfold sxy; rw [centred_xy]; unfold meanX meanY N; field_simp; ring

/-! ### the normalisation factor of `np.cov(aweights=w)` -/

theorem T_cons (p : Pt) (l : List Pt) :
    Sw (p :: l) ^ 2 - Sww (p :: l) = (Sw l ^ 2 - Sww l) + 2 * p.w * Sw l := by
  simp only [Sw, Sww, S_cons]; ring

theorem T_nonneg (l : List Pt) (hw : ∀ p ∈ l, 0 ≤ p.w) : 0 ≤ Sw l ^ 2 - Sww l := by
  induction l with
  | nil => simp [Sw, Sww]
  | cons p r ih =>
    rw [T_cons]
    have hwr : ∀ p ∈ r, 0 ≤ p.w := fun q hq => hw q (by simp [hq])
    have h1 := ih hwr
    have h2 : 0 ≤ Sw r := S_nonneg r hwr
    have := mul_nonneg (hw p (by simp)) h2
    linarith

theorem T_pos_of (l : List Pt) (hw : ∀ p ∈ l, 0 ≤ p.w) (p q : Pt) (hp : p ∈ l) (hq : q ∈ l)
    (hpw : 0 < p.w) (hqw : 0 < q.w) (hne : p ≠ q) : 0 < Sw l ^ 2 - Sww l := by
  induction l with
  | nil => simp at hp
  | cons a r ih =>
    rw [T_cons]
    have hwr : ∀ p ∈ r, 0 ≤ p.w := fun q hq => hw q (by simp [hq])
    have hT := T_nonneg r hwr
    have hSr : 0 ≤ Sw r := S_nonneg r hwr
    have haw := hw a (by simp)
    rcases List.mem_cons.mp hp with rfl | hp'
    · rcases List.mem_cons.mp hq with rfl | hq'
      · exact absurd rfl hne
      · have : 0 < Sw r := S_pos_of_mem r hwr q hq' hqw
        have := mul_pos hpw this
        linarith
    · rcases List.mem_cons.mp hq with rfl | hq'
      · have : 0 < Sw r := S_pos_of_mem r hwr p hp' hpw
        have := mul_pos hqw this
        linarith
      · have := ih hwr hp' hq'
        have := mul_nonneg haw hSr
        linarith

/-- weighted Cauchy–Schwarz: `N² ≤ D · Dy` -/
theorem cauchy (l : List Pt) (hw : ∀ p ∈ l, 0 ≤ p.w) (hD : 0 < D l) : N l ^ 2 ≤ D l * Dy l := by
  have hS := Sw_pos_of_D_pos l hw hD
  have h := cost_opt l (ne_of_gt hD) (ne_of_gt hS)
  have hc := cost_nonneg (gradient l) (intercept l) l hw
  have : 0 ≤ Sw l * D l * cost (gradient l) (intercept l) l :=
    mul_nonneg (mul_nonneg hS.le hD.le) hc
  linarith

theorem specRsq_bounds (l : List Pt) (hw : ∀ p ∈ l, 0 ≤ p.w) (hD : 0 < D l) (hDy : 0 < Dy l) :
    0 ≤ specRsq l ∧ specRsq l ≤ 1 := by
  unfold specRsq
  have hpos : 0 < D l * Dy l := mul_pos hD hDy
  constructor
  · exact div_nonneg (sq_nonneg _) hpos.le
  · rw [div_le_one hpos]; exact cauchy l hw hD

theorem rsqMech_eq (l : List Pt) (hw : ∀ p ∈ l, 0 ≤ p.w) (hD : 0 < D l) (hDy : 0 < Dy l) :
    rsqMech l = some (specRsq l) := by
  have hS := Sw_pos_of_D_pos l hw hD
  have hS0 : Sw l ≠ 0 := ne_of_gt hS
  obtain ⟨p, hp, q, hq, hpw, hqw, hx⟩ := D_pos_exists l hw hD
  have hT := T_pos_of l hw p q hp hq hpw hqw (fun h => hx (by rw [h]))
  have hfact : Sw l - Sww l / Sw l ≠ 0 := by
    have : Sw l - Sww l / Sw l = (Sw l ^ 2 - Sww l) / Sw l := by field_simp
    rw [this]
    exact ne_of_gt (div_pos hT hS)
  have hD0 : D l ≠ 0 := ne_of_gt hD
  have hDy0 : Dy l ≠ 0 := ne_of_gt hDy
  have exx : S (fun p => p.w * (p.x - Swx l / Sw l) * (p.x - Swx l / Sw l)) l = D l / Sw l := by
    rw [centred_xx]; unfold D; field_simp; ring
  have eyy : S (fun p => p.w * (p.y - Swy l / Sw l) * (p.y - Swy l / Sw l)) l = Dy l / Sw l := by
    rw [centred_yy]; unfold Dy; field_simp; ring
  have exy : S (fun p => p.w * (p.x - Swx l / Sw l) * (p.y - Swy l / Sw l)) l = N l / Sw l := by
    rw [centred_xy]; unfold N; field_simp; ring
  unfold rsqMech
  simp only [exx, eyy, exy]
  have hne : ¬ (D l / Sw l / (Sw l - Sww l / Sw l) = 0 ∨ Dy l / Sw l / (Sw l - Sww l / Sw l) = 0) := by
    intro h
    rcases h with h | h
    · exact (div_ne_zero (div_ne_zero hD0 hS0) hfact) h
    · exact (div_ne_zero (div_ne_zero hDy0 hS0) hfact) h
  rw [if_neg hne]
  have hr : N l / Sw l / (Sw l - Sww l / Sw l) * (N l / Sw l / (Sw l - Sww l / Sw l)) /
      (D l / Sw l / (Sw l - Sww l / Sw l) * (Dy l / Sw l / (Sw l - Sww l / Sw l))) = specRsq l := by
    unfold specRsq
    field_simp
  rw [hr, min_eq_right (specRsq_bounds l hw hD hDy).2]

/-! ### permutations -/

theorem minRat_perm {l₁ l₂ : List Rat} (h : l₁.Perm l₂) : minRat l₁ = minRat l₂ := by
  induction h with
  | nil => rfl
  | cons a _ ih => simp [minRat, ih]
  | swap a b l =>
    simp only [minRat]
    cases minRat l with
    | none => simp [min_comm]
    | some c => simp [min_left_comm]
  | trans _ _ ih₁ ih₂ => exact ih₁.trans ih₂

theorem minRat_mem : ∀ (l : List Rat) (m : Rat), minRat l = some m → m ∈ l ∧ ∀ a ∈ l, m ≤ a
  | [], m, h => by simp [minRat] at h
  | a :: l, m, h => by
    simp only [minRat] at h
    cases hm : minRat l with
    | none =>
      rw [hm] at h
      have : l = [] := by
        cases l with
        | nil => rfl
        | cons b r => simp only [minRat] at hm; split at hm <;> simp at hm
      subst this
      simp at h; subst h; simp
    | some b =>
      rw [hm] at h
      simp at h
      obtain ⟨hb, hle⟩ := minRat_mem l b hm
      subst h
      constructor
      · rcases min_choice a b with h | h <;> rw [h] <;> simp [hb]
      · intro c hc
        rcases List.mem_cons.mp hc with rfl | hc
        · exact min_le_left _ _
        · exact le_trans (min_le_right _ _) (hle c hc)

theorem minRat_isSome : ∀ (l : List Rat), l ≠ [] → ∃ m, minRat l = some m
  | [], h => absurd rfl h
  | a :: l, _ => by
    simp only [minRat]
    cases minRat l <;> simp

theorem nanmin_perm {l₁ l₂ : List V} (h : l₁.Perm l₂) : nanmin l₁ = nanmin l₂ :=
  minRat_perm (h.filterMap _)

/-- weight of one entry, given the whole array only through order-independent statistics -/
def wOf (xs : List V) (k : Kind) : V → V :=
  if xs.all (·.isNone) then fun _ => none
  else if xs.all isZero then fun _ => some 1
  else fun v => applyKind k (if isZero v then nanmin (xs.filter (fun v => !isZero v)) else v)

theorem wfw_eq_map (xs : List V) (k : Kind) : weightsFromWeighting xs k = xs.map (wOf xs k) := by
  unfold weightsFromWeighting wOf
  cases xs with
  | nil => simp
  | cons a l =>
    simp only [List.isEmpty_cons, Bool.false_eq_true, if_false]
    split
    · rfl
    · split
      · rfl
      · simp [replaceZeros, List.map_map, Function.comp_def]

theorem wOf_perm {xs ys : List V} (h : xs.Perm ys) (k : Kind) : wOf xs k = wOf ys k := by
  unfold wOf
  rw [h.all_eq, h.all_eq, nanmin_perm (h.filter _)]

/-- weight of a usable row as a function of the row and order-independent statistics -/
def rowW (wt : Weighting) (us : List Row) (r : Row) : V :=
  match wt with
  | .builtin b =>
    wOf (us.map (fun r => if b.onY then r.y else r.x)) b.kind (if b.onY then r.y else r.x)
  | .custom => r.cw

def ptOf (wt : Weighting) (us : List Row) (r : Row) : Pt :=
  { x := r.x.getD 0, y := r.y.getD 0, w := (rowW wt us r).getD 0 }

theorem zipWith_map_self {α β γ} (f : α → β → γ) (g : α → β) (l : List α) :
    List.zipWith f l (l.map g) = l.map (fun a => f a (g a)) := by
  induction l with
  | nil => rfl
  | cons a r ih => simp [ih]

theorem fitPts_eq_map (wt : Weighting) (rows : List Row) :
    fitPts wt rows = (usableRows rows).map (ptOf wt (usableRows rows)) := by
  unfold fitPts mkPts fitWeights weights
  cases wt with
  | builtin b =>
    simp only [wfw_eq_map, List.map_map]
    rw [zipWith_map_self]
    rfl
  | custom =>
    simp only
    rw [zipWith_map_self]
    rfl

theorem ptOf_perm (wt : Weighting) {us vs : List Row} (h : us.Perm vs) : ptOf wt us = ptOf wt vs := by
  funext r
  unfold ptOf rowW
  cases wt with
  | builtin b => simp only; rw [wOf_perm (h.map _)]
  | custom => rfl

theorem fitPts_perm (wt : Weighting) {r₁ r₂ : List Row} (h : r₁.Perm r₂) :
    (fitPts wt r₁).Perm (fitPts wt r₂) := by
  rw [fitPts_eq_map, fitPts_eq_map]
  have hu : (usableRows r₁).Perm (usableRows r₂) := h.filter _
  rw [ptOf_perm wt hu]
  exact hu.map _

theorem weightedLinreg_perm {l₁ l₂ : List Pt} (h : l₁.Perm l₂) :
    weightedLinreg l₁ = weightedLinreg l₂ := by
  have hS : ∀ f, S f l₁ = S f l₂ := fun f => S_perm f h
  have hl := h.length_eq
  unfold weightedLinreg rsqMech err2 intercept gradient N D Sw Sww Swx Swy Swxx Swxy
  simp only [hS, hl]

theorem updateLinreg_eq (wt : Weighting) (rows : List Row) :
    updateLinreg wt rows =
      if (usableRows rows).length < 2 then identityFit else weightedLinreg (fitPts wt rows) := by
  unfold updateLinreg
  cases rows with
  | nil => simp [usableRows]
  | cons a r => simp

/-! ### weights entry by entry -/

theorem nanmin_filter_eq_leastNonzero : ∀ xs : List V,
    nanmin (xs.filter (fun v => !isZero v)) = leastNonzero xs := by
  intro xs
  induction xs with
  | nil => rfl
  | cons v l ih =>
    unfold nanmin at ih ⊢
    cases v with
    | none =>
      have hz : isZero (none : V) = false := rfl
      simp only [List.filter_cons, hz, Bool.not_false, if_true, leastNonzero, List.filterMap_cons, id]
      exact ih
    | some q =>
      by_cases hq : q = 0
      · subst hq
        have hz : isZero (some 0 : V) = true := rfl
        simp only [List.filter_cons, hz, Bool.not_true, Bool.false_eq_true, if_false, leastNonzero, if_true]
        exact ih
      · have hz : isZero (some q : V) = false := by
          simp only [isZero, beq_eq_false_iff_ne, ne_eq, Option.some.injEq]; exact hq
        simp only [List.filter_cons, hz, Bool.not_false, if_true, leastNonzero, if_neg hq, List.filterMap_cons, id,
          minRat]
        have ih' : minRat (List.filterMap (fun x => x) (List.filter (fun v => !isZero v) l)) = leastNonzero l := ih
        rw [ih']
        cases leastNonzero l with
        | none => rfl
        | some b => simp only [min_def]

theorem leastNonzero_some : ∀ (xs : List V) (m : Rat), leastNonzero xs = some m →
    some m ∈ xs ∧ m ≠ 0 ∧ ∀ q : Rat, some q ∈ xs → q ≠ 0 → m ≤ q := by
  intro xs
  induction xs with
  | nil => intro m h; simp [leastNonzero] at h
  | cons v l ih =>
    intro m h
    cases v with
    | none =>
      simp only [leastNonzero] at h
      obtain ⟨h1, h2, h3⟩ := ih m h
      exact ⟨by simp [h1], h2, fun q hq => h3 q (by simpa using hq)⟩
    | some q =>
      simp only [leastNonzero] at h
      by_cases hq : q = 0
      · simp only [if_pos hq] at h
        obtain ⟨h1, h2, h3⟩ := ih m h
        refine ⟨by simp [h1], h2, fun r hr hr0 => ?_⟩
        simp only [List.mem_cons, Option.some.injEq] at hr
        rcases hr with hr | hr
        · exact absurd (hr ▸ hq) hr0
        · exact h3 r hr hr0
      · simp only [if_neg hq] at h
        cases hl : leastNonzero l with
        | none =>
          rw [hl] at h
          simp only [Option.some.injEq] at h
          subst h
          refine ⟨by simp, hq, fun r hr hr0 => ?_⟩
          simp only [List.mem_cons, Option.some.injEq] at hr
          rcases hr with hr | hr
          · exact le_of_eq hr.symm
          · exfalso
            -- `leastNonzero l = none` means `l` has no finite non-zero entry
            have : ∀ (l : List V), leastNonzero l = none → ∀ r : Rat, some r ∈ l → r = 0 := by
              intro l
              induction l with
              | nil => intro _ r hr; simp at hr
              | cons u t iht =>
                intro hn r hr
                cases u with
                | none =>
                  simp only [leastNonzero] at hn
                  exact iht hn r (by simpa using hr)
                | some p =>
                  simp only [leastNonzero] at hn
                  by_cases hp : p = 0
                  · simp only [if_pos hp] at hn
                    simp only [List.mem_cons, Option.some.injEq] at hr
                    rcases hr with hr | hr
                    · rw [hr]; exact hp
                    · exact iht hn r hr
                  · simp only [if_neg hp] at hn
                    split at hn <;> simp at hn
            exact hr0 (this l hl r hr)
        | some b =>
          rw [hl] at h
          simp only [Option.some.injEq] at h
          obtain ⟨b1, b2, b3⟩ := ih b hl
          by_cases hqb : q ≤ b
          · rw [if_pos hqb] at h
            subst h
            refine ⟨by simp, hq, fun r hr hr0 => ?_⟩
            simp only [List.mem_cons, Option.some.injEq] at hr
            rcases hr with hr | hr
            · exact le_of_eq hr.symm
            · exact le_trans hqb (b3 r hr hr0)
          · rw [if_neg hqb] at h
            subst h
            refine ⟨by simp [b1], b2, fun r hr hr0 => ?_⟩
            simp only [List.mem_cons, Option.some.injEq] at hr
            rcases hr with hr | hr
            · rw [hr]; exact le_of_lt (not_le.mp hqb)
            · exact b3 r hr hr0

theorem leastNonzero_none_iff : ∀ xs : List V, leastNonzero xs = none ↔ ¬ ∃ q : Rat, some q ∈ xs ∧ q ≠ 0 := by
  intro xs
  induction xs with
  | nil => simp [leastNonzero]
  | cons v l ih =>
    cases v with
    | none =>
      simp only [leastNonzero, ih]
      simp
    | some q =>
      simp only [leastNonzero]
      by_cases hq : q = 0
      · simp only [if_pos hq, ih, List.mem_cons, Option.some.injEq, not_exists, not_and, not_not]
        constructor
        · intro h r hr
          rcases hr with hr | hr
          · rw [hr]; exact hq
          · exact h r hr
        · intro h r hr
          exact h r (Or.inr hr)
      · simp only [if_neg hq]
        constructor
        · intro h
          split at h <;> simp at h
        · intro h
          exact absurd ⟨q, by simp, hq⟩ h

theorem wOf_eq_specWeight (xs : List V) (k : Kind) (v : V) : wOf xs k v = specWeight xs k v := by
  unfold wOf specWeight
  have hz : (fun u : V => u == some 0) = isZero := rfl
  rw [hz]
  split
  · rfl
  · split
    · rfl
    · rw [nanmin_filter_eq_leastNonzero]
      by_cases hk : k = .equal
      · subst hk; simp [applyKind]
      · rw [if_neg hk]
        cases v with
        | none =>
          have : isZero (none : V) = false := rfl
          simp only [this, Bool.false_eq_true, if_false]
          cases k <;> simp_all [applyKind]
        | some q =>
          by_cases hq : q = 0
          · subst hq
            have : isZero (some 0 : V) = true := rfl
            simp only [this, if_true, ne_eq, not_true_eq_false, if_false]
            cases hl : leastNonzero xs with
            | none => cases k <;> simp_all [applyKind]
            | some m =>
              obtain ⟨_, hm, _⟩ := leastNonzero_some xs m hl
              have hmm : m * m ≠ 0 := mul_ne_zero hm hm
              cases k <;> simp_all [applyKind, recip, wFun]
          · have : isZero (some q : V) = false := by
              simp only [isZero, beq_eq_false_iff_ne, ne_eq, Option.some.injEq]; exact hq
            have hqq : q * q ≠ 0 := mul_ne_zero hq hq
            simp only [this, Bool.false_eq_true, if_false, ne_eq, hq, not_false_eq_true, if_true]
            cases k <;> simp_all [applyKind, recip, wFun]

theorem weightsFromWeighting_eq_spec (xs : List V) (k : Kind) : weightsFromWeighting xs k = specWeights xs k := by
  rw [wfw_eq_map]
  unfold specWeights
  exact List.map_congr_left (fun v _ => wOf_eq_specWeight xs k v)

/-! ### `error` -/

theorem resid_sq_expand (g c : Rat) (l : List Pt) :
    S (fun p => ((c + p.x * g) - p.y) ^ 2) l =
      S (fun p => p.y * p.y) l - 2 * g * S (fun p => p.x * p.y) l - 2 * c * S (fun p => p.y) l
        + g ^ 2 * S (fun p => p.x * p.x) l + 2 * g * c * S (fun p => p.x) l + c ^ 2 * (l.length : Rat) := by
  induction l with
  | nil => simp
  | cons p r ih =>
    simp only [S_cons, List.length_cons, Nat.cast_succ]
    rw [ih]
    ring

/-! ### sessions -/

theorem finalState_append (o : Fit) (a b : List Step) :
    finalState o (a ++ b) = finalState (finalState o a) b := by
  induction a generalizing o with
  | nil => rfl
  | cons s l ih => simp only [List.cons_append, finalState, ih]

theorem run_append (o : Fit) (a b : List Step) :
    run o (a ++ b) = run o a ++ run (finalState o a) b := by
  induction a generalizing o with
  | nil => rfl
  | cons s l ih =>
    simp only [List.cons_append, run, finalState]
    cases (step o s).2 <;> simp [ih]

/-! ### the NaN-free table -/

theorem NanInsert.usable_eq {clean rows : List Row} (h : NanInsert clean rows) : usableRows rows = clean := by
  induction h with
  | nil => rfl
  | keep r hx hy _ ih =>
    have : r.usable = true := by simp [Row.usable, hx, hy]
    simp only [usableRows, List.filter_cons, this, if_true] at ih ⊢
    rw [ih]
  | nan n hn _ ih =>
    have : n.usable = false := by
      unfold Row.usable
      rcases hn with h | h <;> simp [h]
    simp only [usableRows, List.filter_cons, this] at ih ⊢
    simpa using ih

theorem NanInsert.clean_usable {clean rows : List Row} (h : NanInsert clean rows) : usableRows clean = clean := by
  induction h with
  | nil => rfl
  | keep r hx hy _ ih =>
    have : r.usable = true := by simp [Row.usable, hx, hy]
    simp only [usableRows, List.filter_cons, this, if_true] at ih ⊢
    rw [ih]
  | nan n _ _ ih => exact ih

/-- a table without NaN is a NaN-insertion of itself -/
theorem NanInsert.refl_of_usable : ∀ (clean : List Row), (∀ r ∈ clean, r.x.isSome = true ∧ r.y.isSome = true) →
    NanInsert clean clean
  | [], _ => .nil
  | r :: l, h => .keep r (h r (by simp)).1 (h r (by simp)).2
      (NanInsert.refl_of_usable l (fun q hq => h q (by simp [hq])))

/-- on a NaN-free table the points and weights the mechanism hands to `weighted_linreg` are the specified ones -/
theorem fitPts_eq_specPts (wt : Weighting) (clean : List Row) (h : usableRows clean = clean) :
    fitPts wt clean = specPts wt clean := by
  unfold fitPts specPts fitWeights weights
  simp only [h]
  cases wt with
  | builtin b => simp only [weightsFromWeighting_eq_spec]
  | custom => rfl

theorem length_ge_two_of_ne {α} {l : List α} {p q : α} (hp : p ∈ l) (hq : q ∈ l) (hne : p ≠ q) : 2 ≤ l.length := by
  match l, hp, hq with
  | [], hp, _ => simp at hp
  | [a], hp, hq =>
    simp only [List.mem_singleton] at hp hq
    exact absurd (hp.trans hq.symm) hne
  | _ :: _ :: _, _, _ => simp

theorem specPts_length (wt : Weighting) (clean : List Row) : (specPts wt clean).length = clean.length := by
  unfold specPts mkPts
  cases wt with
  | builtin b => simp [specWeights]
  | custom => simp

end Pew.Calib
