import PewProofs.SortCsv

/-! # C04 — helper lemmas: executor, truncation, masks -/
namespace Pew.CsvDir

/-! ## executor -/

theorem lookup_complete {β : Type} (tasks : List β) : ∀ (π : List Nat) (i : Nat), i ∈ π →
    (complete tasks π).lookup i = tasks[i]?
  | [], _, h => by simp at h
  | j :: π, i, h => by
    unfold complete
    rw [List.filterMap_cons]
    by_cases hij : i = j
    · subst hij
      cases ht : tasks[i]? with
      | none =>
        simp only [Option.map_none]
        by_cases hm : i ∈ π
        · have := lookup_complete tasks π i hm
          unfold complete at this
          rw [this, ht]
        · -- no later completion of the same future either: nothing to find, and nothing expected
          have : ∀ (ρ : List Nat), (List.filterMap (fun i => Option.map (fun r => (i, r)) tasks[i]?) ρ).lookup i = none := by
            intro ρ
            induction ρ with
            | nil => rfl
            | cons a ρ ih =>
              rw [List.filterMap_cons]
              cases ha : tasks[a]? with
              | none => simpa using ih
              | some r =>
                simp only [Option.map_some, List.lookup_cons]
                have : (i == a) = false := by
                  apply beq_false_of_ne
                  intro e; subst e; rw [ht] at ha; cases ha
                rw [this]; exact ih
          exact this π
      | some r => simp [List.lookup_cons]
    · have hm : i ∈ π := by
        rcases List.mem_cons.mp h with h | h
        · exact absurd h hij
        · exact h
      have ih := lookup_complete tasks π i hm
      unfold complete at ih
      cases ht : tasks[j]? with
      | none => simpa using ih
      | some r =>
        simp only [Option.map_some, List.lookup_cons]
        have : (i == j) = false := beq_false_of_ne hij
        rw [this]; exact ih

/-- gathering future by future returns every task's own result in submission order, whatever the
completion order, provided every task completes -/
theorem gather_complete {β : Type} (tasks : List β) (π : List Nat) (hπ : ∀ i, i < tasks.length → i ∈ π) :
    gather tasks.length (complete tasks π) = tasks := by
  unfold gather
  have : (List.range tasks.length).filterMap (fun i => (complete tasks π).lookup i)
      = (List.range tasks.length).filterMap (fun i => tasks[i]?) := by
    apply filterMap_congr'
    intro i hi
    exact lookup_complete tasks π i (hπ i (by simpa using hi))
  rw [this, filterMap_range_getElem?]

/-! ## truncation -/

theorem foldl_min_le (xs : List Nat) (x : Nat) : xs.foldl min x ≤ x ∧ ∀ y ∈ xs, xs.foldl min x ≤ y := by
  induction xs generalizing x with
  | nil => simp
  | cons a t ih =>
    simp only [List.foldl_cons]
    have := ih (min x a)
    refine ⟨by omega, ?_⟩
    intro y hy
    rcases List.mem_cons.mp hy with h | h
    · subst h; omega
    · exact this.2 y h

theorem foldl_min_mem (xs : List Nat) (x : Nat) : xs.foldl min x = x ∨ xs.foldl min x ∈ xs := by
  induction xs generalizing x with
  | nil => simp
  | cons a t ih =>
    simp only [List.foldl_cons]
    rcases ih (min x a) with h | h
    · rw [h]
      by_cases hxa : x ≤ a
      · left; omega
      · right; simp; left; omega
    · right; exact List.mem_cons_of_mem _ h

/-- `minLen` is a lower bound of the line lengths … -/
theorem minLen_le {α : Type} (lines : List (Line α)) (l : Line α) (h : l ∈ lines) : minLen lines ≤ l.rows.length := by
  unfold minLen
  cases hl : lines with
  | nil => subst hl; simp at h
  | cons a t =>
    subst hl
    simp only [List.map_cons]
    have := foldl_min_le (t.map (·.rows.length)) a.rows.length
    rcases List.mem_cons.mp h with h | h
    · subst h; exact this.1
    · exact this.2 _ (List.mem_map.mpr ⟨l, h, rfl⟩)

/-- … and it is attained -/
theorem minLen_mem {α : Type} (lines : List (Line α)) (h : lines ≠ []) : ∃ l ∈ lines, minLen lines = l.rows.length := by
  unfold minLen
  cases hl : lines with
  | nil => exact absurd hl h
  | cons a t =>
    simp only [List.map_cons]
    rcases foldl_min_mem (t.map (·.rows.length)) a.rows.length with h1 | h1
    · exact ⟨a, List.mem_cons_self, h1⟩
    · obtain ⟨l, hl1, hl2⟩ := List.mem_map.mp h1
      exact ⟨l, List.mem_cons_of_mem _ hl1, hl2.symm⟩

/-! ## masks -/

/-- dropping by a mask computed from a parallel list = filtering the pairs -/
theorem dropMasked_map {β γ : Type} (f : γ → Bool) : ∀ (l : List β) (ns : List γ),
    dropMasked (ns.map f) l = ((l.zip ns).filter (fun p => !f p.2)).map (·.1)
  | [], _ => by simp [dropMasked]
  | _ :: _, [] => by simp [dropMasked]
  | a :: t, n :: ns => by
    have ih := dropMasked_map f t ns
    unfold dropMasked at ih ⊢
    simp only [List.map_cons, List.zip_cons_cons, List.filter_cons]
    by_cases h : f n = true
    · simp [h, ih]
    · have h' : f n = false := by simpa using h
      simp [h', ih]

/-- dropping by a mask indexed by position = filtering on the position -/
theorem dropMasked_range' {β : Type} (p : Nat → Bool) : ∀ (l : List β) (s n : Nat), l.length ≤ n →
    dropMasked ((List.range' s n).map p) l = ((l.zipIdx s).filter (fun x => !p x.2)).map (·.1)
  | [], _, _, _ => by simp [dropMasked]
  | a :: t, s, 0, h => by simp at h
  | a :: t, s, n + 1, h => by
    have ih := dropMasked_range' p t (s + 1) n (by simpa using h)
    unfold dropMasked at ih ⊢
    simp only [List.range'_succ, List.map_cons, List.zip_cons_cons, List.filter_cons, List.zipIdx_cons]
    by_cases hp : p s = true
    · simp [hp, ih]
    · have hp' : p s = false := by simpa using hp
      simp [hp', ih]

theorem dropMasked_range {β : Type} (p : Nat → Bool) (l : List β) (n : Nat) (h : l.length ≤ n) :
    dropMasked ((List.range n).map p) l = ((l.zipIdx).filter (fun x => !p x.2)).map (·.1) := by
  rw [List.range_eq_range']
  exact dropMasked_range' p l 0 n h

end Pew.CsvDir
