import PewProofs.FastParse
import Mathlib.Data.List.TakeWhile
/-! # C17 — callback values and histories of imports: helper lemmas -/
namespace Pew.FastParse

theorem isFalse_falsy (v : PyVal) (h : v.isFalse = true) : v.truthy = false := by
  cases v <;> simp_all [PyVal.isFalse, PyVal.truthy]

theorem isTrue_truthy (v : PyVal) (h : v.isTrue = true) : v.truthy = true := by
  cases v with
  | int n => simp only [PyVal.isTrue, beq_iff_eq] at h; subst h; simp [PyVal.truthy]
  | _ => simp_all [PyVal.isTrue, PyVal.truthy]

theorem not_isFalse_and_isTrue (v : PyVal) : ¬(v.isFalse = true ∧ v.isTrue = true) := by
  rintro ⟨h1, h2⟩
  have a := isFalse_falsy v h1
  have b := isTrue_truthy v h2
  rw [a] at b; exact absurd b (by simp)

theorem outcomeOk_firstFalsy (vals : List PyVal) : outcomeOk vals (firstFalsy vals) = true := by
  unfold firstFalsy
  cases h : vals.findIdx? (fun v => !v.truthy) with
  | none =>
    rw [List.findIdx?_eq_none_iff] at h
    simp only [outcomeOk, List.all_eq_true]
    intro v hv
    have := h v hv
    cases hf : v.isFalse
    · rfl
    · have := isFalse_falsy v hf; simp_all
  | some j =>
    rw [List.findIdx?_eq_some_iff_getElem] at h
    obtain ⟨hj, hp, hlt⟩ := h
    simp only [outcomeOk, Bool.and_eq_true, List.all_eq_true]
    refine ⟨?_, ?_⟩
    · intro v hv
      rw [List.mem_take_iff_getElem] at hv
      obtain ⟨i, hi, rfl⟩ := hv
      have hij : i < j := by omega
      have := hlt i hij
      cases hf : (vals[i]).isFalse
      · rfl
      · have := isFalse_falsy _ hf; simp_all
    · rw [List.getElem?_eq_getElem hj]
      cases ht : (vals[j]).isTrue
      · simp [ht]
      · have := isTrue_truthy _ ht; simp_all

theorem outcomeOk_determined (vals : List PyVal) (hd : ∀ v ∈ vals, v.isFalse = true ∨ v.isTrue = true)
    (a : Option Nat) (h : outcomeOk vals a = true) : a = firstFalsy vals := by
  unfold firstFalsy
  symm
  cases a with
  | none =>
    simp only [outcomeOk, List.all_eq_true] at h
    rw [List.findIdx?_eq_none_iff]
    intro v hv
    have h1 := h v hv
    rcases hd v hv with hf | ht
    · simp [hf] at h1
    · simp [isTrue_truthy v ht]
  | some j =>
    simp only [outcomeOk, Bool.and_eq_true, List.all_eq_true] at h
    obtain ⟨h1, h2⟩ := h
    cases hj : vals[j]? with
    | none => simp [hj] at h2
    | some v =>
      simp only [hj] at h2
      have hlen : j < vals.length := by
        by_contra hc
        rw [List.getElem?_eq_none (by omega)] at hj; exact absurd hj (by simp)
      have hv : vals[j] = v := by rw [List.getElem?_eq_getElem hlen] at hj; exact Option.some.inj hj
      rw [List.findIdx?_eq_some_iff_getElem]
      refine ⟨hlen, ?_, ?_⟩
      · rw [hv]
        rcases hd v (by rw [← hv]; exact List.getElem_mem hlen) with hf | ht
        · simp [isFalse_falsy v hf]
        · simp [ht] at h2
      · intro i hij
        have hm : vals[i] ∈ vals.take j := by
          rw [List.mem_take_iff_getElem]
          exact ⟨i, by omega, rfl⟩
        have h3 := h1 _ hm
        rcases hd vals[i] (List.getElem_mem _) with hf | ht
        · simp [hf] at h3
        · simp [isTrue_truthy _ ht]

/-! ## histories -/

theorem results_foldl (d : Doc) (ls : List (Line × Nat)) (ops : List Op) (s : Session) :
    (ops.foldl (Session.step d ls) s).results = s.results ++ (importsOf ops).map (importOnce d ls) := by
  induction ops generalizing s with
  | nil => simp [importsOf]
  | cons op r ih =>
    rw [List.foldl_cons, ih]
    cases op with
    | imp i =>
      simp only [importsOf, List.map_cons]
      unfold Session.step
      cases h : importOnce d ls i <;> simp [h]
    | edit k e => simp [importsOf, Session.step]

/-! ## lines no loop reacts to -/

theorem stepCore_norm (s : Core) (l : Line) : stepCore s l.norm = stepCore s l := by
  cases l with
  | opn t id => cases t <;> rfl
  | cls t => cases t <;> rfl
  | _ => rfl

theorem isCall_norm (s : Core) (l : Line) : isCall s l.norm = isCall s l := by
  cases l with
  | opn t id => cases t <;> rfl
  | cls t => cases t <;> rfl
  | _ => rfl

theorem step_norm (cb : Nat → Bool) (s : St) (ln : Line × Nat) : step cb s (ln.1.norm, ln.2) = step cb s ln := by
  unfold step
  simp only [isCall_norm, stepCore_norm]

theorem runS_norm (cb : Nat → Bool) (ls ls' : List (Line × Nat)) (s : St)
    (h : ls.map (fun ln => (ln.1.norm, ln.2)) = ls'.map (fun ln => (ln.1.norm, ln.2))) :
    runS cb s ls = runS cb s ls' := by
  induction ls generalizing ls' s with
  | nil =>
    cases ls' with
    | nil => rfl
    | cons _ _ => simp at h
  | cons a r ih =>
    cases ls' with
    | nil => simp at h
    | cons b r' =>
      simp only [List.map_cons, List.cons.injEq] at h
      obtain ⟨hab, hr⟩ := h
      have : step cb s a = step cb s b := by
        rw [← step_norm cb s a, ← step_norm cb s b, hab]
      unfold runS at ih ⊢
      simp only [List.foldl_cons, this]
      exact ih r' _ hr

/-! ## strictly increasing positions (every line of a file has at least its line end) -/

def PosInvS (s : St) : Prop := s.calls.Pairwise (· < ·) ∧ ∀ p ∈ s.calls, p ≤ s.pos

theorem step_posInvS (cb : Nat → Bool) (s : St) (ln : Line × Nat) (hlen : 0 < ln.2) (h : PosInvS s) :
    PosInvS (step cb s ln) := by
  obtain ⟨h1, h2⟩ := h
  have happ : (s.calls ++ [s.pos + ln.2]).Pairwise (· < ·) := by
    rw [List.pairwise_append]
    refine ⟨h1, by simp, ?_⟩
    intro a ha b hb
    simp at hb; subst hb
    have := h2 a ha; omega
  have hle : ∀ p ∈ s.calls ++ [s.pos + ln.2], p ≤ s.pos + ln.2 := by
    intro p hp
    simp only [List.mem_append, List.mem_singleton] at hp
    rcases hp with hp | rfl
    · have := h2 p hp; omega
    · exact Nat.le_refl _
  unfold step
  split
  · exact ⟨h1, h2⟩
  · simp only
    split
    · split
      · exact ⟨happ, hle⟩
      · exact ⟨happ, hle⟩
    · exact ⟨h1, fun p hp => by have := h2 p hp; simp only; omega⟩

theorem runS_posInvS (cb : Nat → Bool) (ls : List (Line × Nat)) (s : St) (hlen : ∀ ln ∈ ls, 0 < ln.2)
    (h : PosInvS s) : PosInvS (runS cb s ls) := by
  induction ls generalizing s with
  | nil => exact h
  | cons ln r ih =>
    exact ih _ (fun x hx => hlen x (List.mem_cons_of_mem _ hx)) (step_posInvS cb s ln (hlen ln List.mem_cons_self) h)

/-! ## digit texts -/

theorem dropWhile_all_false {α} (p : α → Bool) (l : List α) (h : ∀ c ∈ l, p c = false) : l.dropWhile p = l := by
  cases l with
  | nil => rfl
  | cons a r => simp [List.dropWhile, h a List.mem_cons_self]

theorem digit_not_space (c : Char) (h : c.isDigit = true) : (c == ' ' || c == '\t' || c == '\n' || c == '\r' || c == '\x0b' || c == '\x0c') = false := by
  simp only [Char.isDigit, Bool.and_eq_true, decide_eq_true_eq] at h
  obtain ⟨h1, h2⟩ := h
  have : 48 ≤ c.val := h1
  simp only [Bool.or_eq_false_iff, beq_eq_false_iff_ne, ne_eq]
  refine ⟨⟨⟨⟨⟨?_, ?_⟩, ?_⟩, ?_⟩, ?_⟩, ?_⟩ <;> (intro e; subst e; revert this; decide)

theorem digit_not_sign (c : Char) (h : c.isDigit = true) : c ≠ '-' ∧ c ≠ '+' := by
  simp only [Char.isDigit, Bool.and_eq_true, decide_eq_true_eq] at h
  obtain ⟨h1, h2⟩ := h
  have : 48 ≤ c.val := h1
  constructor <;> (intro e; subst e; revert this; decide)

theorem splitSign_digits (l : List Char) (h : ∀ c ∈ l, c.isDigit = true) : splitSign l = (false, l) := by
  cases l with
  | nil => rfl
  | cons a r =>
    obtain ⟨h1, h2⟩ := digit_not_sign a (h a List.mem_cons_self)
    unfold splitSign
    split
    · rename_i heq; simp at heq; exact absurd heq.1 h1
    · rename_i heq; simp at heq; exact absurd heq.1 h2
    · rfl

/-- `int()` and `float()` read a text of digits as the same number (before the rounding to binary64) -/
theorem decimalValue_of_digits' (s : String) (n : Nat) (h : pyNat s = some n) : decimalValue s = some (n : Rat) := by
  unfold pyNat at h
  split at h
  · exact absurd h (by simp)
  · rename_i hc
    simp only [Bool.or_eq_true, Bool.not_eq_eq_eq_not, Bool.not_true, not_or, Bool.not_eq_true] at hc
    obtain ⟨hne, hall⟩ := hc
    have hall' : ∀ c ∈ s.toList, c.isDigit = true := by
      simpa [List.all_eq_true] using hall
    have hn : digitsNat s.toList = n := by
      simp only [Option.some.injEq] at h; exact h
    have hnil : s.toList ≠ [] := by
      intro e
      have : s.isEmpty = true := by simp [String.isEmpty_iff, ← String.toList_eq_nil_iff, e]
      rw [this] at hne; exact absurd hne (by simp)
    unfold decimalValue
    have hws : ∀ c ∈ s.toList, (c == ' ' || c == '\t' || c == '\n' || c == '\r' || c == '\x0b' || c == '\x0c') = false :=
      fun c hc => digit_not_space c (hall' c hc)
    simp only []
    rw [dropWhile_all_false _ s.toList hws,
        dropWhile_all_false _ s.toList.reverse (fun c hc => hws c (List.mem_reverse.mp hc)), List.reverse_reverse,
        splitSign_digits _ hall']
    have htw : s.toList.takeWhile Char.isDigit = s.toList := (List.takeWhile_eq_self_iff).2 hall'
    have hdw : s.toList.dropWhile Char.isDigit = [] := (List.dropWhile_eq_nil_iff).2 hall'
    simp only [htw, hdw, List.append_nil, List.length_nil, hn]
    simp [pow10]
    intro e; subst e; exact hnil rfl


end Pew.FastParse
