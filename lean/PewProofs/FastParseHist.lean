import PewProofs.FastParse
/-! # C17 — callback values and histories of imports: helper lemmas -/
namespace Pew.FastParse

theorem isFalse_falsy (v : PyVal) (h : v.isFalse = true) : v.truthy = false := by
  cases v <;> simp_all [PyVal.isFalse, PyVal.truthy]

theorem isTrue_truthy (v : PyVal) (h : v.isTrue = true) : v.truthy = true := by
  cases v with
  | int n => simp only [PyVal.isTrue, beq_iff_eq] at h; subst h; simp [PyVal.truthy]
  | _ => simp_all [PyVal.isTrue, PyVal.truthy]

theorem not_isFalse_and_isTrue (v : PyVal) : ¬(v.isFalse = true ∧ v.isTrue = true) := by
  rintro ⟨h1, h2⟩
  have a := isFalse_falsy v h1
  have b := isTrue_truthy v h2
  rw [a] at b; exact absurd b (by simp)

theorem outcomeOk_firstFalsy (vals : List PyVal) : outcomeOk vals (firstFalsy vals) = true := by
  unfold firstFalsy
  cases h : vals.findIdx? (fun v => !v.truthy) with
  | none =>
    rw [List.findIdx?_eq_none_iff] at h
    simp only [outcomeOk, List.all_eq_true]
    intro v hv
    have := h v hv
    cases hf : v.isFalse
    · rfl
    · have := isFalse_falsy v hf; simp_all
  | some j =>
    rw [List.findIdx?_eq_some_iff_getElem] at h
    obtain ⟨hj, hp, hlt⟩ := h
    simp only [outcomeOk, Bool.and_eq_true, List.all_eq_true]
    refine ⟨?_, ?_⟩
    · intro v hv
      rw [List.mem_take_iff_getElem] at hv
      obtain ⟨i, hi, rfl⟩ := hv
      have hij : i < j := by omega
      have := hlt i hij
      cases hf : (vals[i]).isFalse
      · rfl
      · have := isFalse_falsy _ hf; simp_all
    · rw [List.getElem?_eq_getElem hj]
      cases ht : (vals[j]).isTrue
      · simp [ht]
      · have := isTrue_truthy _ ht; simp_all

theorem outcomeOk_determined (vals : List PyVal) (hd : ∀ v ∈ vals, v.isFalse = true ∨ v.isTrue = true)
    (a : Option Nat) (h : outcomeOk vals a = true) : a = firstFalsy vals := by
  unfold firstFalsy
  symm
  cases a with
  | none =>
    simp only [outcomeOk, List.all_eq_true] at h
    rw [List.findIdx?_eq_none_iff]
    intro v hv
    have h1 := h v hv
    rcases hd v hv with hf | ht
    · simp [hf] at h1
    · simp [isTrue_truthy v ht]
  | some j =>
    simp only [outcomeOk, Bool.and_eq_true, List.all_eq_true] at h
    obtain ⟨h1, h2⟩ := h
    cases hj : vals[j]? with
    | none => simp [hj] at h2
    | some v =>
      simp only [hj] at h2
      have hlen : j < vals.length := by
        by_contra hc
        rw [List.getElem?_eq_none (by omega)] at hj; exact absurd hj (by simp)
      have hv : vals[j] = v := by rw [List.getElem?_eq_getElem hlen] at hj; exact Option.some.inj hj
      rw [List.findIdx?_eq_some_iff_getElem]
      refine ⟨hlen, ?_, ?_⟩
      · rw [hv]
        rcases hd v (by rw [← hv]; exact List.getElem_mem hlen) with hf | ht
        · simp [isFalse_falsy v hf]
        · simp [ht] at h2
      · intro i hij
        have hm : vals[i] ∈ vals.take j := by
          rw [List.mem_take_iff_getElem]
          exact ⟨i, by omega, rfl⟩
        have h3 := h1 _ hm
        rcases hd vals[i] (List.getElem_mem _) with hf | ht
        · simp [hf] at h3
        · simp [isTrue_truthy _ ht]

/-! ## histories -/

theorem results_foldl (d : Doc) (ls : List (Line × Nat)) (ops : List Op) (s : Session) :
    (ops.foldl (Session.step d ls) s).results = s.results ++ (importsOf ops).map (importOnce d ls) := by
  induction ops generalizing s with
  | nil => simp [importsOf]
  | cons op r ih =>
    rw [List.foldl_cons, ih]
    cases op with
    | imp i =>
      simp only [importsOf, List.map_cons]
      unfold Session.step
      cases h : importOnce d ls i <;> simp [h]
    | edit k e => simp [importsOf, Session.step]

/-! ## lines no loop reacts to -/

theorem stepCore_norm (s : Core) (l : Line) : stepCore s l.norm = stepCore s l := by
  cases l with
  | opn t id => cases t <;> rfl
  | cls t => cases t <;> rfl
  | _ => rfl

theorem isCall_norm (s : Core) (l : Line) : isCall s l.norm = isCall s l := by
  cases l with
  | opn t id => cases t <;> rfl
  | cls t => cases t <;> rfl
  | _ => rfl

theorem step_norm (cb : Nat → Bool) (s : St) (ln : Line × Nat) : step cb s (ln.1.norm, ln.2) = step cb s ln := by
  unfold step
  simp only [isCall_norm, stepCore_norm]

theorem runS_norm (cb : Nat → Bool) (ls ls' : List (Line × Nat)) (s : St)
    (h : ls.map (fun ln => (ln.1.norm, ln.2)) = ls'.map (fun ln => (ln.1.norm, ln.2))) :
    runS cb s ls = runS cb s ls' := by
  induction ls generalizing ls' s with
  | nil =>
    cases ls' with
    | nil => rfl
    | cons _ _ => simp at h
  | cons a r ih =>
    cases ls' with
    | nil => simp at h
    | cons b r' =>
      simp only [List.map_cons, List.cons.injEq] at h
      obtain ⟨hab, hr⟩ := h
      have : step cb s a = step cb s b := by
        rw [← step_norm cb s a, ← step_norm cb s b, hab]
      unfold runS at ih ⊢
      simp only [List.foldl_cons, this]
      exact ih r' _ hr

end Pew.FastParse
