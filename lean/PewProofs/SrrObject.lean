import PewProofs.SrrStack

/-! # C09 — the `SRRLaser` object between calls: lemmas for `PewTheorems/C09.lean` -/
namespace Pew.Srr
open Pew

theorem Arr2.ext' {α : Type} (a b : Arr2 α) (hr : a.rows = b.rows) (hc : a.cols = b.cols) (hg : a.get = b.get) : a = b := by
  cases a; cases b; simp_all

theorem Arr2.map_map {α β γ : Type} (f : α → β) (g : β → γ) (a : Arr2 α) : (a.map f).map g = a.map (g ∘ f) := rfl

theorem Arr2.map_id {α : Type} (a : Arr2 α) : a.map id = a := rfl

/-! ## one record through the calibration loop -/

/-- all remaining turns of the loop on one record -/
def loopPx {ρ : Type} (z : ρ) (n : Nat) : List (ρ → ρ) → Nat → List ρ → List ρ
  | [], _, p => p
  | g :: gs, k, p => loopPx z n gs (k + 1) (stepPx z n k g p)

theorem getD_map_range {ρ : Type} (z : ρ) (n j : Nat) (f : Nat → ρ) (hj : j < n) :
    ((List.range n).map f).getD j z = f j := by
  simp [List.getD_eq_getElem?_getD, hj]

theorem map_getD_range {ρ : Type} (z : ρ) (p : List ρ) : (List.range p.length).map (fun j => p.getD j z) = p := by
  apply List.ext_getElem
  · simp
  · intro i h1 h2
    simp [List.getD_eq_getElem?_getD, List.getElem?_eq_getElem (by simpa using h1 : i < p.length)]

theorem stepPx_length {ρ : Type} (z : ρ) (n k : Nat) (g : ρ → ρ) (p : List ρ) : (stepPx z n k g p).length = n := by
  simp [stepPx, setField]

theorem stepPx_getD {ρ : Type} (z : ρ) (n k j : Nat) (g : ρ → ρ) (p : List ρ) (hj : j < n) :
    (stepPx z n k g p).getD j z = if j = k then g (p.getD k z) else p.getD j z := by
  unfold stepPx setField
  rw [getD_map_range z n j _ hj]

/-- after the turns for the fields `k, k+1, …` a record of `n` fields holds, in field `j ≥ k`, the old value through
the `(j-k)`-th calibration, the other fields as they were -/
theorem loopPx_from {ρ : Type} (z : ρ) (n : Nat) (gs : List (ρ → ρ)) (k : Nat) (p : List ρ) (hp : p.length = n) :
    loopPx z n gs k p = (List.range n).map (fun j => if k ≤ j then (gs.getD (j - k) id) (p.getD j z) else p.getD j z) := by
  induction gs generalizing k p with
  | nil =>
    simp only [loopPx, List.getD_eq_getElem?_getD, List.getElem?_nil, Option.getD_none, id, ite_self]
    rw [← hp]
    simpa [List.getD_eq_getElem?_getD] using (map_getD_range z p).symm
  | cons g gs ih =>
    simp only [loopPx]
    rw [ih (k + 1) _ (stepPx_length z n k g p)]
    apply List.map_congr_left
    intro j hj
    have hjn : j < n := by simpa using hj
    rw [stepPx_getD z n k j g p hjn]
    by_cases h1 : k + 1 ≤ j
    · have h2 : k ≤ j := by omega
      have h3 : ¬ j = k := by omega
      have h4 : j - k = (j - (k + 1)) + 1 := by omega
      simp only [h1, h2, h3, if_true, if_false]
      rw [h4]
      simp [List.getD_eq_getElem?_getD]
    · by_cases h2 : j = k
      · subst h2
        simp [List.getD_eq_getElem?_getD]
      · have h3 : ¬ k ≤ j := by omega
        simp [h1, h2, h3]

/-- the whole loop on a record of a dtype with `n ≥ 1` fields: every field through its own calibration -/
theorem loopPx_all {ρ : Type} (z : ρ) (n : Nat) (gs : List (ρ → ρ)) (hlen : gs.length = n) (hn : 1 ≤ n) (p : List ρ) :
    loopPx z n gs 0 p = (List.range n).map (fun j => (gs.getD j id) (p.getD j z)) := by
  cases gs with
  | nil => simp at hlen; omega
  | cons g gs =>
    simp only [loopPx]
    rw [loopPx_from z n gs 1 _ (stepPx_length z n 0 g p)]
    apply List.map_congr_left
    intro j hj
    have hjn : j < n := by simpa using hj
    rw [stepPx_getD z n 0 j g p hjn]
    by_cases h : j = 0
    · subst h; simp [List.getD_eq_getElem?_getD]
    · obtain ⟨m, rfl⟩ : ∃ m, j = m + 1 := ⟨j - 1, by omega⟩
      simp [List.getD_eq_getElem?_getD]

theorem lookupAll_length {κ : Type} (cal : List (String × κ)) (nms : List String) (gs : List κ)
    (h : lookupAll cal nms = some gs) : gs.length = nms.length := by
  induction nms generalizing gs with
  | nil => simp [lookupAll] at h; subst h; rfl
  | cons nm rest ih =>
    simp only [lookupAll] at h
    split at h
    · rename_i g gs' h1 h2
      cases h
      simp [ih gs' h2]
    · cases h

/-! ## the loop on a view of a heap buffer, on the local 3-d array -/

theorem writeField_view {ρ : Type} (z : ρ) (n : Nat) (h : List (Arr2 (List ρ))) (id : Nat) (t : Bool) (k : Nat)
    (g : ρ → ρ) (b : Arr2 (List ρ)) (hb : h[id]? = some b) :
    ∃ v, readView h id t = some v ∧
      writeField z n h id t k (v.map (fun px => g (px.getD k z))) = h.set id (b.map (stepPx z n k g)) := by
  refine ⟨if t then b.T else b, by simp [readView, hb], ?_⟩
  unfold writeField
  rw [hb]
  cases t <;> rfl

theorem set_same {α : Type} (l : List α) (i : Nat) (a : α) (h : l[i]? = some a) : l.set i a = l := by
  obtain ⟨hlt, rfl⟩ := List.getElem?_eq_some_iff.mp h
  exact List.set_getElem_self hlt

theorem calLoopView_spec {ρ : Type} (z : ρ) (n : Nat) (cal : List (String × (ρ → ρ))) (id : Nat) (t : Bool) :
    ∀ (nms : List String) (k : Nat) (h : List (Arr2 (List ρ))) (b : Arr2 (List ρ)), h[id]? = some b →
      calLoopView z n cal id t nms k h = (lookupAll cal nms).map (fun gs => h.set id (b.map (loopPx z n gs k))) := by
  intro nms
  induction nms with
  | nil =>
    intro k h b hb
    simp only [calLoopView, lookupAll, Option.map_some, loopPx]
    rw [show b.map (fun p => p) = b from rfl, set_same h id b hb]
  | cons nm rest ih =>
    intro k h b hb
    simp only [calLoopView, lookupAll]
    cases hl : cal.lookup nm with
    | none => simp
    | some g =>
      obtain ⟨v, hv, hw⟩ := writeField_view z n h id t k g b hb
      have hlt : id < h.length := (List.getElem?_eq_some_iff.mp hb).1
      simp only [hv, hw]
      rw [ih (k + 1) _ (b.map (stepPx z n k g)) (by simp [hlt])]
      cases hr : lookupAll cal rest with
      | none => simp
      | some gs => simp [List.set_set, loopPx, Arr2.map]

theorem calLoop3_spec {ρ : Type} (z : ρ) (n : Nat) (cal : List (String × (ρ → ρ))) :
    ∀ (nms : List String) (k : Nat) (a : Arr3 (List ρ)),
      calLoop3 z n cal nms k a = (lookupAll cal nms).map (fun gs => a.map (loopPx z n gs k)) := by
  intro nms
  induction nms with
  | nil => intro k a; simp [calLoop3, lookupAll, loopPx, Arr3.map]
  | cons nm rest ih =>
    intro k a
    simp only [calLoop3, lookupAll]
    cases hl : cal.lookup nm with
    | none => simp
    | some g =>
      simp only [ih]
      cases hr : lookupAll cal rest with
      | none => simp
      | some gs => simp [loopPx, Arr3.map]

/-! ## the store an object stands for -/

theorem filterMap_getElem?_bind {α β : Type} (f : α → Option β) (l : List α) (h : ∀ x ∈ l, (f x).isSome = true) (i : Nat) :
    (l.filterMap f)[i]? = (l[i]?).bind f := by
  induction l generalizing i with
  | nil => simp
  | cons x xs ih =>
    have hx := h x (by simp)
    obtain ⟨y, hy⟩ := Option.isSome_iff_exists.mp hx
    rw [List.filterMap_cons_some hy]
    cases i with
    | zero => simp [hy]
    | succ j => simpa using ih (fun a ha => h a (by simp [ha])) j

theorem filterMap_length_of_isSome {α β : Type} (f : α → Option β) (l : List α) (h : ∀ x ∈ l, (f x).isSome = true) :
    (l.filterMap f).length = l.length := by
  induction l with
  | nil => simp
  | cons x xs ih =>
    obtain ⟨y, hy⟩ := Option.isSome_iff_exists.mp (h x (by simp))
    rw [List.filterMap_cons_some hy]
    simp [ih (fun a ha => h a (by simp [ha]))]

theorem mapM_option_of_isSome {α β : Type} (f : α → Option β) (l : List α) (h : ∀ x ∈ l, (f x).isSome = true) :
    l.mapM f = some (l.filterMap f) := by
  induction l with
  | nil => simp
  | cons x xs ih =>
    obtain ⟨y, hy⟩ := Option.isSome_iff_exists.mp (h x (by simp))
    rw [List.filterMap_cons_some hy, List.mapM_cons, hy, ih (fun a ha => h a (by simp [ha]))]
    rfl

theorem wf_isSome {ρ : Type} (o : Laser ρ) (hwf : o.WF) : ∀ id ∈ o.data, (o.heap[id]?).isSome = true := by
  intro id hid
  have := hwf.1 id hid
  simp [this]

theorem layers?_eq_store {ρ : Type} (o : Laser ρ) (hwf : o.WF) : o.layers? = some o.store.layers :=
  mapM_option_of_isSome _ _ (wf_isSome o hwf)

theorem store_getElem? {ρ : Type} (o : Laser ρ) (hwf : o.WF) (i : Nat) :
    o.store.layers[i]? = (o.data[i]?).bind (fun id => o.heap[id]?) :=
  filterMap_getElem?_bind _ _ (wf_isSome o hwf) i

theorem store_length {ρ : Type} (o : Laser ρ) (hwf : o.WF) : o.store.layers.length = o.data.length :=
  filterMap_length_of_isSome _ _ (wf_isSome o hwf)

theorem view_eq_layerSpec {α : Type} (b : Arr2 α) (i : Nat) :
    (if decide (i % 2 = 1) = true then b.T else b) = layerSpec b i := by
  unfold layerSpec
  by_cases h : i % 2 = 1
  · simp [h, Arr2.T]
  · have h0 : i % 2 = 0 := by omega
    simp [h0]

/-! ## `Laser.get`: the value returned, and what it leaves behind -/

theorem get_value {ρ : Type} (z : ρ) (mean : List ρ → ρ) (o : Laser ρ) (hwf : o.WF) (a : GetArgs) :
    (o.get z mean a).map Prod.snd = getSpec z mean o.store.layers o.names o.cal o.cfg a := by
  have hn1 : 1 ≤ o.names.length := by
    cases hnm : o.names with
    | nil => exact absurd hnm hwf.2.2
    | cons x xs => simp
  unfold Laser.get getSpec
  cases hlay : a.layer with
  | some i =>
    simp only [store_getElem? o hwf i]
    cases hd : o.data[i]? with
    | none => cases readPx z o.names o.cal a <;> rfl
    | some bid =>
      cases hh : o.heap[bid]? with
      | none => cases readPx z o.names o.cal a <;> simp [hh]
      | some buf =>
        have h1 : (o.heap ++ [buf])[o.heap.length]? = some buf := by simp
        simp only [Option.bind_some, hh, Option.map_some]
        unfold readPx
        cases hel : a.element with
        | none =>
          cases hcal : a.calibrate with
          | true =>
            simp only [if_true]
            rw [calLoopView_spec z o.names.length o.cal o.heap.length (decide (i % 2 = 1)) o.names 0 _ buf h1]
            cases hl : lookupAll o.cal o.names with
            | none => simp
            | some gs =>
              have hlen := lookupAll_length o.cal o.names gs hl
              simp only [Option.map_some, readView, List.getElem?_set_self (by simp : o.heap.length < (o.heap ++ [buf]).length)]
              congr 2
              rw [← view_eq_layerSpec buf i]
              have hf : loopPx z o.names.length gs 0
                  = fun px => (List.range o.names.length).map (fun j => (gs.getD j id) (px.getD j z)) :=
                funext (fun p => loopPx_all z o.names.length gs hlen hn1 p)
              rw [hf]
              by_cases hp : i % 2 = 1 <;> simp [hp, Arr2.map, Arr2.T]
          | false =>
            simp only [Bool.false_eq_true, if_false, readView, h1, Option.map_some]
            rw [view_eq_layerSpec buf i]
            rfl
        | some nm =>
          cases hk : fieldIdx? o.names nm with
          | none => simp [hk]
          | some k =>
            simp only [readView, h1, Option.map_some, hk]
            cases hcal : a.calibrate with
            | true =>
              simp only [if_true]
              cases hg : o.cal.lookup nm with
              | none => simp
              | some g =>
                simp only [Option.map_some]
                rw [view_eq_layerSpec buf i]
                rfl
            | false =>
              simp only [Bool.false_eq_true, if_false, Option.map_some]
              rw [view_eq_layerSpec buf i]
              rfl
  | none =>
    simp only [layers?_eq_store o hwf]
    cases hkk : krisskross (List.replicate o.names.length z) o.cfg o.cfg.magnification o.store.layers with
    | none => cases readPx z o.names o.cal a <;> rfl
    | some rec3 =>
      unfold readPx
      cases hel : a.element with
      | none =>
        cases hcal : a.calibrate with
        | true =>
          simp only [if_true]
          rw [calLoop3_spec]
          cases hl : lookupAll o.cal o.names with
          | none => simp
          | some gs =>
            have hlen := lookupAll_length o.cal o.names gs hl
            have hf : loopPx z o.names.length gs 0
                = fun px => (List.range o.names.length).map (fun j => (gs.getD j id) (px.getD j z)) :=
              funext (fun p => loopPx_all z o.names.length gs hlen hn1 p)
            simp only [Option.map_some, hf, readWidth, hel]
        | false =>
          simp only [Bool.false_eq_true, if_false, Option.map_some, readWidth, hel]
          rfl
      | some nm =>
        cases hk : fieldIdx? o.names nm with
        | none => simp [hk]
        | some k =>
          simp only [hk]
          cases hcal : a.calibrate with
          | true =>
            simp only [if_true]
            cases hg : o.cal.lookup nm with
            | none => simp
            | some g =>
              simp only [Option.map_some, readWidth, hel]
              rfl
          | false =>
            simp only [Bool.false_eq_true, if_false, Option.map_some, readWidth, hel]
            rfl

/-- what a call of `get` leaves behind: the same `self.data`, names, calibrations, configuration, and every buffer that
existed before the call with the contents it had (the heap has only grown) -/
theorem get_frame {ρ : Type} (z : ρ) (mean : List ρ → ρ) (o o' : Laser ρ) (a : GetArgs) (out : GetOut (List ρ))
    (h : o.get z mean a = some (o', out)) :
    o'.data = o.data ∧ o'.names = o.names ∧ o'.cal = o.cal ∧ o'.cfg = o.cfg ∧ o.heap.length ≤ o'.heap.length ∧
      ∀ bid, bid < o.heap.length → o'.heap[bid]? = o.heap[bid]? := by
  unfold Laser.get at h
  cases hlay : a.layer with
  | some i =>
    simp only [hlay] at h
    cases hd : o.data[i]? with
    | none => simp [hd] at h
    | some bid0 =>
      cases hh : o.heap[bid0]? with
      | none => simp [hd, hh] at h
      | some buf =>
        have h1 : (o.heap ++ [buf])[o.heap.length]? = some buf := by simp
        simp only [hd, hh] at h
        cases hel : a.element with
        | none =>
          simp only [hel] at h
          cases hcal : a.calibrate with
          | true =>
            simp only [hcal, if_true] at h
            rw [calLoopView_spec z o.names.length o.cal o.heap.length (decide (i % 2 = 1)) o.names 0 _ buf h1] at h
            cases hl : lookupAll o.cal o.names with
            | none => simp [hl] at h
            | some gs =>
              simp only [hl, Option.map_some, readView,
                List.getElem?_set_self (by simp : o.heap.length < (o.heap ++ [buf]).length)] at h
              cases h
              refine ⟨rfl, rfl, rfl, rfl, by simp, ?_⟩
              intro bid hb
              simp only []
              rw [List.getElem?_set_ne (by omega), List.getElem?_append_left hb]
          | false =>
            simp only [hcal, Bool.false_eq_true, if_false, readView, h1, Option.map_some] at h
            cases h
            refine ⟨rfl, rfl, rfl, rfl, by simp, ?_⟩
            intro bid hb
            exact List.getElem?_append_left hb
        | some nm =>
          simp only [hel] at h
          cases hk : fieldIdx? o.names nm with
          | none => simp [hk] at h
          | some k =>
            simp only [hk, readView, h1, Option.map_some] at h
            obtain ⟨c, -, hc⟩ := Option.map_eq_some_iff.mp h
            cases hc
            refine ⟨rfl, rfl, rfl, rfl, by simp, ?_⟩
            intro bid hb
            exact List.getElem?_append_left hb
  | none =>
    simp only [hlay] at h
    cases hls : o.layers? with
    | none => simp [hls] at h
    | some ls =>
      simp only [hls] at h
      cases hkk : krisskross (List.replicate o.names.length z) o.cfg o.cfg.magnification ls with
      | none => simp [hkk] at h
      | some rec3 =>
        simp only [hkk] at h
        cases hel : a.element with
        | none =>
          simp only [hel] at h
          cases hb : (if a.calibrate = true then calLoop3 z o.names.length o.cal o.names 0 rec3 else some rec3) with
          | none => simp [hb] at h
          | some b =>
            simp only [hb] at h
            cases h
            exact ⟨rfl, rfl, rfl, rfl, Nat.le_refl _, fun _ _ => rfl⟩
        | some nm =>
          simp only [hel] at h
          cases hk : fieldIdx? o.names nm with
          | none => simp [hk] at h
          | some k =>
            simp only [hk] at h
            obtain ⟨c, -, hc⟩ := Option.map_eq_some_iff.mp h
            cases hc
            exact ⟨rfl, rfl, rfl, rfl, Nat.le_refl _, fun _ _ => rfl⟩

/-! ## histories: the object refines the store -/

theorem frame_store {ρ : Type} (o o' : Laser ρ) (hwf : o.WF) (hd : o'.data = o.data) (hn : o'.names = o.names)
    (hc : o'.cal = o.cal) (hg : o'.cfg = o.cfg) (hlen : o.heap.length ≤ o'.heap.length)
    (hf : ∀ bid, bid < o.heap.length → o'.heap[bid]? = o.heap[bid]?) : o'.WF ∧ o'.store = o.store := by
  refine ⟨⟨?_, ?_, ?_⟩, ?_⟩
  · intro bid hb
    rw [hd] at hb
    exact Nat.lt_of_lt_of_le (hwf.1 bid hb) hlen
  · rw [hd]; exact hwf.2.1
  · rw [hn]; exact hwf.2.2
  · unfold Laser.store
    rw [hd, hn, hc, hg]
    congr 1
    apply List.filterMap_congr
    intro bid hb
    exact hf bid (hwf.1 bid hb)

theorem load_wf {ρ : Type} (layers : List (Arr2 (List ρ))) (names : List String) (cal : List (String × (ρ → ρ)))
    (cfg : SrrConfig) (hn : names ≠ []) :
    (Laser.load layers names cal cfg).WF ∧ (Laser.load layers names cal cfg).store.layers = layers := by
  refine ⟨⟨?_, ?_, hn⟩, ?_⟩
  · intro bid hb
    simpa [Laser.load] using hb
  · intro i j bid hi hj
    simp only [Laser.load] at hi hj
    obtain ⟨_, h1⟩ := List.getElem?_eq_some_iff.mp hi
    obtain ⟨_, h2⟩ := List.getElem?_eq_some_iff.mp hj
    simp at h1 h2
    omega
  · simp only [Laser.store, Laser.load]
    apply List.ext_getElem?
    intro i
    rw [filterMap_getElem?_bind _ _ (by intro x hx; simp at hx; simp [hx])]
    by_cases h : i < layers.length
    · simp [h]
    · simp [h]

theorem step_refines {ρ : Type} (z : ρ) (mean : List ρ → ρ) (o : Laser ρ) (hwf : o.WF) (s : Step ρ) :
    (∀ o' out, o.step z mean s = some (o', out) → o'.WF ∧ o.store.step z mean s = some (o'.store, out)) ∧
    (o.step z mean s = none → o.store.step z mean s = none) := by
  cases s with
  | get a =>
    have hv := get_value z mean o hwf a
    constructor
    · intro o' out h
      simp only [Laser.step] at h
      obtain ⟨p, hp, hq⟩ := Option.map_eq_some_iff.mp h
      obtain ⟨p1, p2⟩ := p
      cases hq
      obtain ⟨f1, f2, f3, f4, f5, f6⟩ := get_frame z mean o p1 a p2 hp
      obtain ⟨hw', hs'⟩ := frame_store o p1 hwf f1 f2 f3 f4 f5 f6
      refine ⟨hw', ?_⟩
      rw [hp] at hv
      simp only [Store.step, Laser.store] at hv ⊢
      simp only [Option.map_some] at hv
      rw [← hv]
      simp only [Option.map_some]
      have hs'' := hs'
      simp only [Laser.store] at hs''
      rw [hs'']
    · intro h
      simp only [Laser.step, Option.map_eq_none_iff] at h
      rw [h] at hv
      simp only [Store.step, Laser.store] at hv ⊢
      rw [← hv]
      rfl
  | setData ls names =>
    simp only [Laser.step, Store.step]
    cases hne : names.isEmpty with
    | true => simp
    | false =>
      simp only [Bool.false_eq_true, if_false]
      refine ⟨?_, by simp⟩
      intro o' out h
      simp only [Option.some.injEq, Prod.mk.injEq] at h
      obtain ⟨rfl, rfl⟩ := h
      have hnn : names ≠ [] := by intro hh; subst hh; simp at hne
      refine ⟨⟨?_, ?_, hnn⟩, ?_⟩
      · intro bid hb
        simp only [List.mem_map, List.mem_range] at hb
        obtain ⟨k, hk, rfl⟩ := hb
        simp; omega
      · intro i j bid hi hj
        simp only [List.getElem?_map] at hi hj
        obtain ⟨a1, ha1, hb1⟩ := Option.map_eq_some_iff.mp hi
        obtain ⟨a2, ha2, hb2⟩ := Option.map_eq_some_iff.mp hj
        obtain ⟨_, h1⟩ := List.getElem?_eq_some_iff.mp ha1
        obtain ⟨_, h2⟩ := List.getElem?_eq_some_iff.mp ha2
        simp at h1 h2
        omega
      · simp only [Laser.store, Option.some.injEq, Prod.mk.injEq, and_true]
        congr 1
        apply List.ext_getElem?
        intro i
        rw [filterMap_getElem?_bind _ _ (by
          intro x hx
          simp only [List.mem_map, List.mem_range] at hx
          obtain ⟨k, hk, rfl⟩ := hx
          simp [hk])]
        by_cases h : i < ls.length
        · simp [h]
        · simp [h]
  | setItem i l =>
    simp only [Laser.step, Store.step, store_length o hwf]
    by_cases hi : i < o.data.length
    · simp only [hi, if_true]
      refine ⟨?_, by simp⟩
      intro o' out h
      simp only [Option.some.injEq, Prod.mk.injEq] at h
      obtain ⟨rfl, rfl⟩ := h
      have hwf' : ({ o with heap := o.heap ++ [l], data := o.data.set i o.heap.length } : Laser ρ).WF := by
        refine ⟨?_, ?_, hwf.2.2⟩
        · intro bid hb
          simp only [List.length_append, List.length_singleton]
          rcases List.mem_or_eq_of_mem_set hb with h | h
          · have := hwf.1 bid h; omega
          · omega
        · intro a b bid ha hb
          rw [List.getElem?_set] at ha hb
          by_cases h1 : i = a
          · by_cases h2 : i = b
            · omega
            · rw [if_pos h1, if_pos hi] at ha; rw [if_neg h2] at hb
              cases ha
              have := hwf.1 _ (List.mem_of_getElem? hb); omega
          · by_cases h2 : i = b
            · rw [if_neg h1] at ha; rw [if_pos h2, if_pos hi] at hb
              cases hb
              have := hwf.1 _ (List.mem_of_getElem? ha); omega
            · rw [if_neg h1] at ha; rw [if_neg h2] at hb
              exact hwf.2.1 a b bid ha hb
      refine ⟨hwf', ?_⟩
      simp only [Option.some.injEq, Prod.mk.injEq, and_true]
      simp only [Laser.store]
      congr 1
      apply List.ext_getElem?
      intro j
      have hs := store_getElem? _ hwf' j
      simp only [Laser.store] at hs
      rw [hs]
      have hs0 := store_getElem? o hwf
      simp only [Laser.store] at hs0
      rw [List.getElem?_set, List.getElem?_set, hs0 j]
      have hlen0 := store_length o hwf
      simp only [Laser.store] at hlen0
      by_cases hij : i = j
      · subst hij
        simp [hi, hlen0]
      · simp only [hij, if_false]
        cases hdj : o.data[j]? with
        | none => rfl
        | some bid =>
          have := hwf.1 _ (List.mem_of_getElem? hdj)
          simp [List.getElem?_append_left this]
    · simp [hi]
  | write i r c px =>
    simp only [Laser.step, Store.step, store_getElem? o hwf i]
    cases hd : o.data[i]? with
    | none => simp
    | some bid =>
      cases hh : o.heap[bid]? with
      | none => simp [hh]
      | some b =>
        simp only [Option.bind_some, hh]
        refine ⟨?_, by simp⟩
        intro o' out h
        simp only [Option.some.injEq, Prod.mk.injEq] at h
        obtain ⟨rfl, rfl⟩ := h
        have hbl : bid < o.heap.length := (List.getElem?_eq_some_iff.mp hh).1
        have hwf' : ({ o with heap := o.heap.set bid (b.setCell r c px) } : Laser ρ).WF := by
          refine ⟨?_, hwf.2.1, hwf.2.2⟩
          intro x hx
          simpa using hwf.1 x hx
        refine ⟨hwf', ?_⟩
        simp only [Option.some.injEq, Prod.mk.injEq, and_true]
        simp only [Laser.store]
        congr 1
        apply List.ext_getElem?
        intro j
        have hs := store_getElem? _ hwf' j
        simp only [Laser.store] at hs
        rw [hs]
        have hs0 := store_getElem? o hwf
        simp only [Laser.store] at hs0
        rw [List.getElem?_set, hs0 j]
        have hlen0 := store_length o hwf
        simp only [Laser.store] at hlen0
        have hil : i < o.data.length := (List.getElem?_eq_some_iff.mp hd).1
        by_cases hij : i = j
        · subst hij
          obtain ⟨_, hdi⟩ := List.getElem?_eq_some_iff.mp hd
          simp [hlen0, hil, hdi, hbl]
        · simp only [hij, if_false]
          cases hdj : o.data[j]? with
          | none => rfl
          | some bj =>
            have hne : bid ≠ bj := by
              intro he; subst he
              exact hij (hwf.2.1 i j bid hd hdj)
            simp [List.getElem?_set_ne hne]
  | config op =>
    simp only [Laser.step, Store.step]
    refine ⟨?_, by simp⟩
    intro o' out h
    simp only [Option.some.injEq, Prod.mk.injEq] at h
    obtain ⟨rfl, rfl⟩ := h
    exact ⟨⟨hwf.1, hwf.2.1, hwf.2.2⟩, rfl⟩
  | setCal cal =>
    simp only [Laser.step, Store.step]
    refine ⟨?_, by simp⟩
    intro o' out h
    simp only [Option.some.injEq, Prod.mk.injEq] at h
    obtain ⟨rfl, rfl⟩ := h
    exact ⟨⟨hwf.1, hwf.2.1, hwf.2.2⟩, rfl⟩

theorem run_refines {ρ : Type} (z : ρ) (mean : List ρ → ρ) :
    ∀ (steps : List (Step ρ)) (o : Laser ρ), o.WF →
      (∀ o' outs, Laser.run z mean o steps = some (o', outs) →
        o'.WF ∧ Store.run z mean o.store steps = some (o'.store, outs)) ∧
      (Laser.run z mean o steps = none → Store.run z mean o.store steps = none) := by
  intro steps
  induction steps with
  | nil =>
    intro o hwf
    refine ⟨?_, by simp [Laser.run]⟩
    intro o' outs h
    simp only [Laser.run, Option.some.injEq, Prod.mk.injEq] at h
    obtain ⟨rfl, rfl⟩ := h
    exact ⟨hwf, rfl⟩
  | cons s rest ih =>
    intro o hwf
    obtain ⟨hs1, hs2⟩ := step_refines z mean o hwf s
    cases hstep : o.step z mean s with
    | none =>
      have := hs2 hstep
      simp [Laser.run, Store.run, hstep, this]
    | some p =>
      obtain ⟨o1, out1⟩ := p
      obtain ⟨hwf1, hst1⟩ := hs1 o1 out1 hstep
      obtain ⟨ih1, ih2⟩ := ih o1 hwf1
      simp only [Laser.run, Store.run, hstep, hst1]
      cases hrun : Laser.run z mean o1 rest with
      | none =>
        have := ih2 hrun
        simp [this]
      | some q =>
        obtain ⟨o2, outs2⟩ := q
        obtain ⟨hwf2, hst2⟩ := ih1 o2 outs2 hrun
        simp only [hst2]
        refine ⟨?_, by simp⟩
        intro o' outs h
        simp only [Option.some.injEq, Prod.mk.injEq] at h
        obtain ⟨rfl, rfl⟩ := h
        exact ⟨hwf2, rfl⟩

/-- a history of calls of `get` only -/
theorem run_gets {ρ : Type} (z : ρ) (mean : List ρ → ρ) :
    ∀ (args : List GetArgs) (o o' : Laser ρ) (outs : List (GetOut (List ρ))), o.WF →
      Laser.run z mean o (args.map Step.get) = some (o', outs) →
      o'.WF ∧ o'.store = o.store ∧ o'.data = o.data ∧ o.heap.length ≤ o'.heap.length ∧
        (∀ bid, bid < o.heap.length → o'.heap[bid]? = o.heap[bid]?) ∧
        outs.map some = args.map (getSpec z mean o.store.layers o.names o.cal o.cfg) := by
  intro args
  induction args with
  | nil =>
    intro o o' outs hwf h
    simp only [List.map_nil, Laser.run, Option.some.injEq, Prod.mk.injEq] at h
    obtain ⟨rfl, rfl⟩ := h
    exact ⟨hwf, rfl, rfl, Nat.le_refl _, fun _ _ => rfl, rfl⟩
  | cons a rest ih =>
    intro o o' outs hwf h
    simp only [List.map_cons, Laser.run, Laser.step] at h
    cases hg : o.get z mean a with
    | none => simp [hg] at h
    | some p =>
      obtain ⟨o1, out1⟩ := p
      simp only [hg, Option.map_some] at h
      cases hrun : Laser.run z mean o1 (rest.map Step.get) with
      | none => simp [hrun] at h
      | some q =>
        obtain ⟨o2, outs2⟩ := q
        simp only [hrun, Option.some.injEq, Prod.mk.injEq] at h
        obtain ⟨rfl, rfl⟩ := h
        obtain ⟨f1, f2, f3, f4, f5, f6⟩ := get_frame z mean o o1 a out1 hg
        obtain ⟨hwf1, hs1⟩ := frame_store o o1 hwf f1 f2 f3 f4 f5 f6
        obtain ⟨g1, g2, g3, g4, g5, g6⟩ := ih o1 o2 outs2 hwf1 hrun
        have hv := get_value z mean o hwf a
        rw [hg] at hv
        simp only [Option.map_some] at hv
        refine ⟨g1, g2.trans hs1, g3.trans f1, Nat.le_trans f5 g4, ?_, ?_⟩
        · intro bid hb
          rw [g5 bid (Nat.lt_of_lt_of_le hb f5), f6 bid hb]
        · simp only [List.singleton_append, List.map_cons, hv]
          rw [g6, hs1, f2, f3, f4]

/-! ## stacks whose same-parity layers differ in length -/

theorem aligned_ragged {α : Type} (z : α) (c : SrrConfig) (M : Nat) (hM : 1 ≤ M) (layers : List (Arr2 α))
    (l0 l1 : Nat) (wn : Nat) (hw : c.warmup = (wn : Int)) (hr : Ragged layers l0 l1 M wn) :
    aligned z c (M : Rat) layers = some
      { rows := l0 * M, cols := l1 * M, depth := layers.length,
        get := fun r cc i => match layers[i]? with
          | some l => if i % 2 = 0 then l.get (r / M) (wn + cc) else l.get (cc / M) (wn + r)
          | none => z } := by
  obtain ⟨h2, hs⟩ := hr
  have e0 : layers[0]? = some layers[0] := List.getElem?_eq_getElem (by omega)
  have e1 : layers[1]? = some layers[1] := List.getElem?_eq_getElem (by omega)
  have a0 := hs 0 _ e0
  have a1 := hs 1 _ e1
  simp only [Nat.zero_mod, if_true] at a0
  simp only [show (1 : Nat) % 2 = 1 from rfl, Nat.one_ne_zero, if_false] at a1
  have hprep : ∀ (i : Nat) (l : Arr2 α), layers[i]? = some l →
      prepLayer (wn : Int) M 0 (l1 * M) (l0 * M) i l
        = (if i % 2 = 0 then { rows := l0 * M, cols := l1 * M, get := fun r cc => l.get (r / M) (wn + cc) }
           else { rows := l0 * M, cols := l1 * M, get := fun r cc => l.get (cc / M) (wn + r) }) := by
    intro i l hl
    have hsh := hs i l hl
    by_cases hi : i % 2 = 0
    · simp only [hi, if_true] at hsh ⊢
      rw [prepLayer_even l wn M _ _ i hi hsh.2, hsh.1]
    · have hi' : i % 2 = 1 := by omega
      simp only [hi, if_false] at hsh ⊢
      rw [prepLayer_odd l wn M _ _ i hi' hsh.2, hsh.1]
  unfold aligned
  rw [e0, e1]
  simp only [magInt_natCast M hM, magAxis_natCast M hM, Arr2.dim, if_true, a0.1, a1.1, hw]
  split
  · congr 2
    funext r cc i
    cases hl : layers[i]? with
    | none => rfl
    | some l =>
      simp only
      rw [hprep i l hl]
      by_cases hi : i % 2 = 0 <;> simp [hi]
  · rename_i hneg
    exfalso; apply hneg
    rw [List.all_eq_true]
    intro i _
    cases hl : layers[i]? with
    | none => rfl
    | some l =>
      simp only
      rw [hprep i l hl]
      by_cases hi : i % 2 = 0 <;> simp [hi]

end Pew.Srr
