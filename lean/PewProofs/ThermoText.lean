import PewProofs.ThermoParams

/-! # C03 — from the table to the text: `line.split(delimiter)` undoes `delimiter.join(fields)` -/
namespace Pew.Thermo

theorem splitC_noDelim (d : Char) : ∀ (f : List Char), d ∉ f → splitC d f = [f]
  | [], _ => rfl
  | c :: f, h => by
    have hc : (c == d) = false := by
      rw [beq_eq_false_iff_ne]; intro e; exact h (by rw [e]; exact List.mem_cons_self)
    have ih := splitC_noDelim d f (fun hm => h (List.mem_cons_of_mem _ hm))
    simp only [splitC, hc, Bool.false_eq_true, if_false, ih]

theorem splitC_append (d : Char) (rest : List Char) : ∀ (f : List Char), d ∉ f → splitC d (f ++ d :: rest) = f :: splitC d rest
  | [], _ => by simp [splitC]
  | c :: f, h => by
    have hc : (c == d) = false := by
      rw [beq_eq_false_iff_ne]; intro e; exact h (by rw [e]; exact List.mem_cons_self)
    have ih := splitC_append d rest f (fun hm => h (List.mem_cons_of_mem _ hm))
    simp only [List.cons_append, splitC, hc, Bool.false_eq_true, if_false, ih]

theorem splitC_joinC (d : Char) : ∀ (ls : List (List Char)), ls ≠ [] → (∀ l ∈ ls, d ∉ l) → splitC d (joinC d ls) = ls
  | [], h, _ => absurd rfl h
  | [f], _, h => by
    simp only [joinC]
    exact splitC_noDelim d f (h f List.mem_cons_self)
  | f :: g :: t, _, h => by
    simp only [joinC]
    rw [splitC_append d _ f (h f List.mem_cons_self)]
    congr 1
    exact splitC_joinC d (g :: t) (by simp) (fun l hl => h l (List.mem_cons_of_mem _ hl))

/-- splitting a joined line gives the fields back when no field contains the delimiter -/
theorem splitLine_joinLine (d : Char) (r : Row) (hne : r ≠ []) (h : ∀ f ∈ r, d ∉ f.toList) :
    splitLine d (joinLine d r) = r := by
  unfold splitLine joinLine
  rw [String.toList_ofList, splitC_joinC d (r.map String.toList) (by simpa using hne)
    (by intro l hl; obtain ⟨f, hf, rfl⟩ := List.mem_map.mp hl; exact h f hf)]
  rw [List.map_map]
  conv => rhs; rw [← List.map_id r]
  apply List.map_congr_left
  intro f _
  simp [String.ofList_toList]

theorem splitLines_renderText (d : Char) (t : Table) (hne : ∀ r ∈ t, r ≠ []) (h : ∀ r ∈ t, ∀ f ∈ r, d ∉ f.toList) :
    (renderText d t).map (splitLine d) = t := by
  unfold renderText
  rw [List.map_map]
  conv => rhs; rw [← List.map_id t]
  apply List.map_congr_left
  intro r hr
  exact splitLine_joinLine d r (hne r hr) (h r hr)

/-- a text whose first line starts with an empty field (both layouts): the first character is the delimiter -/
theorem head_renderText (d : Char) (g : String) (r : Row) (rest : Table) :
    ∃ tl, ((renderText d (("" :: g :: r) :: rest)).headD "").toList = d :: tl := by
  refine ⟨joinC d ((g :: r).map String.toList), ?_⟩
  simp [renderText, joinLine, joinC, String.toList_ofList]

end Pew.Thermo
