import PewModel.Filters
import Mathlib.Tactic.Ring
import Mathlib.Tactic.Linarith
import Mathlib.Tactic.Positivity
import Mathlib.Algebra.Order.Field.Rat
import Mathlib.Algebra.Order.Ring.Abs

/-! helper lemmas for C13, float level: rounded evaluations of window statistics of a constant image -/
namespace Pew.Filters

theorem absR_eq_abs (q : Rat) : absR q = |q| := by
  unfold absR
  split
  · rename_i h; rw [abs_of_neg h]
  · rename_i h; rw [abs_of_nonneg (not_lt.mp h)]

namespace FExpr

theorem weight_nonneg (e : FExpr) : 0 ≤ e.weight := by
  induction e with
  | c => simp [weight]
  | add a b iha ihb => simp only [weight]; linarith
  | divn a n iha => simp only [weight]; exact div_nonneg iha (Nat.cast_nonneg _)

/-- one more rounding on top of a value that is within `G·W` of its exact value `T`, `|T| ≤ W` -/
theorem round_step (fl : Rat → Rat) (u : Rat) (hu : 0 ≤ u) (hfl : ∀ x, |fl x - x| ≤ u * |x|)
    (s T G W : Rat) (hT : |T| ≤ W) (hs : |s - T| ≤ G * W) :
    |fl s - T| ≤ ((1 + u) * (1 + G) - 1) * W := by
  have h1 : |fl s - T| ≤ |fl s - s| + |s - T| := by
    have : fl s - T = (fl s - s) + (s - T) := by ring
    rw [this]; exact abs_add_le _ _
  have h2 : |s| ≤ W + G * W := by
    have : s = T + (s - T) := by ring
    calc |s| = |T + (s - T)| := by rw [← this]
      _ ≤ |T| + |s - T| := abs_add_le _ _
      _ ≤ W + G * W := add_le_add hT hs
  have h3 := hfl s
  have h4 : u * |s| ≤ u * (W + G * W) := mul_le_mul_of_nonneg_left h2 hu
  have : ((1 + u) * (1 + G) - 1) * W = u * (W + G * W) + G * W := by ring
  rw [this]
  linarith

theorem pow_sub_one_mono (u : Rat) (hu : 0 ≤ u) {a b : Nat} (h : a ≤ b) :
    (1 + u) ^ a - 1 ≤ (1 + u) ^ b - 1 := by
  have : (1 + u) ^ a ≤ (1 + u) ^ b := pow_le_pow_right₀ (by linarith) h
  linarith

theorem pow_sub_one_nonneg (u : Rat) (hu : 0 ≤ u) (a : Nat) : 0 ≤ (1 + u) ^ a - 1 := by
  have : (1 : Rat) ≤ (1 + u) ^ a := one_le_pow₀ (by linarith)
  linarith

/-- Standard model of floating-point arithmetic (`|fl x − x| ≤ u·|x|`, no underflow): a computation
built from copies of `c` by rounded additions and rounded divisions by counts is within
`((1+u)^depth − 1) · weight · |c|` of its exact value `weight · c` — for every shape of the
computation, i.e. every order of summation. -/
theorem eval_bound (fl : Rat → Rat) (u c : Rat) (hu : 0 ≤ u) (hfl : ∀ x, |fl x - x| ≤ u * |x|)
    (e : FExpr) :
    |e.eval fl c - e.weight * c| ≤ ((1 + u) ^ e.depth - 1) * (e.weight * |c|) := by
  induction e with
  | c => simp [eval, weight, depth]
  | add a b iha ihb =>
    simp only [eval, weight, depth]
    have wa := weight_nonneg a
    have wb := weight_nonneg b
    have hc : (0 : Rat) ≤ |c| := abs_nonneg c
    set k := max a.depth b.depth with hk
    have ga := pow_sub_one_mono u hu (le_max_left a.depth b.depth)
    have gb := pow_sub_one_mono u hu (le_max_right a.depth b.depth)
    have hW : |(a.weight + b.weight) * c| ≤ (a.weight + b.weight) * |c| := by
      rw [abs_mul, abs_of_nonneg (by linarith)]
    have hs : |a.eval fl c + b.eval fl c - (a.weight + b.weight) * c|
        ≤ ((1 + u) ^ k - 1) * ((a.weight + b.weight) * |c|) := by
      have e1 : a.eval fl c + b.eval fl c - (a.weight + b.weight) * c
          = (a.eval fl c - a.weight * c) + (b.eval fl c - b.weight * c) := by ring
      rw [e1]
      have t1 : ((1 + u) ^ a.depth - 1) * (a.weight * |c|) ≤ ((1 + u) ^ k - 1) * (a.weight * |c|) :=
        mul_le_mul_of_nonneg_right ga (mul_nonneg wa hc)
      have t2 : ((1 + u) ^ b.depth - 1) * (b.weight * |c|) ≤ ((1 + u) ^ k - 1) * (b.weight * |c|) :=
        mul_le_mul_of_nonneg_right gb (mul_nonneg wb hc)
      have := abs_add_le (a.eval fl c - a.weight * c) (b.eval fl c - b.weight * c)
      have e2 : ((1 + u) ^ k - 1) * ((a.weight + b.weight) * |c|)
          = ((1 + u) ^ k - 1) * (a.weight * |c|) + ((1 + u) ^ k - 1) * (b.weight * |c|) := by ring
      rw [e2]
      linarith
    have := round_step fl u hu hfl _ _ _ _ hW hs
    have e3 : (1 + u) * (1 + ((1 + u) ^ k - 1)) - 1 = (1 + u) ^ (k + 1) - 1 := by ring
    rw [e3] at this
    exact this
  | divn a n iha =>
    simp only [eval, weight, depth]
    have wa := weight_nonneg a
    have hc : (0 : Rat) ≤ |c| := abs_nonneg c
    by_cases hn : n = 0
    · subst hn
      have h0 : fl 0 = 0 := by
        have := hfl 0
        simp only [abs_zero, mul_zero, sub_zero] at this
        exact abs_eq_zero.mp (le_antisymm this (abs_nonneg _))
      simp [h0]
    · have hnpos : (0 : Rat) < (n : Rat) := by exact_mod_cast Nat.pos_of_ne_zero hn
      have hW : |a.weight / (n : Rat) * c| ≤ a.weight / (n : Rat) * |c| := by
        rw [abs_mul, abs_of_nonneg (div_nonneg wa hnpos.le)]
      have hs : |a.eval fl c / (n : Rat) - a.weight / (n : Rat) * c|
          ≤ ((1 + u) ^ a.depth - 1) * (a.weight / (n : Rat) * |c|) := by
        have e1 : a.eval fl c / (n : Rat) - a.weight / (n : Rat) * c
            = (a.eval fl c - a.weight * c) / (n : Rat) := by ring
        rw [e1, abs_div, abs_of_pos hnpos]
        have e2 : ((1 + u) ^ a.depth - 1) * (a.weight / (n : Rat) * |c|)
            = ((1 + u) ^ a.depth - 1) * (a.weight * |c|) / (n : Rat) := by ring
        rw [e2]
        exact div_le_div_of_nonneg_right iha hnpos.le
      have := round_step fl u hu hfl _ _ _ _ hW hs
      have e3 : (1 + u) * (1 + ((1 + u) ^ a.depth - 1)) - 1 = (1 + u) ^ (a.depth + 1) - 1 := by ring
      rw [e3] at this
      exact this

theorem natUpTo_spec (N : Nat) (q : Rat) (h : natUpTo N q = true) : ∃ j : Nat, j ≤ N ∧ q = (j : Rat) := by
  simp only [natUpTo, Bool.and_eq_true, beq_iff_eq, decide_eq_true_eq] at h
  obtain ⟨⟨h1, h2⟩, h3⟩ := h
  refine ⟨q.num.toNat, h3, ?_⟩
  have e : ((q.num.toNat : Int) : Rat) = (q.num : Rat) := by rw [Int.toNat_of_nonneg h2]
  have : (q.num : Rat) = q := Rat.coe_int_num_of_den_eq_one h1
  rw [← this]
  exact_mod_cast e.symm

theorem sumsExact_spec (p : Nat) (emin : Int) (N : Nat) (c : Rat) (h : sumsExact p emin N c = true)
    (j : Nat) (hj : j ≤ N) : isBin p emin ((j : Rat) * c) = true := by
  unfold sumsExact at h
  rw [List.all_eq_true] at h
  exact h j (List.mem_range.mpr (by omega))

/-- A rounding function that returns the numbers of the format unchanged computes every
well-formed expression exactly when all multiples `j·c`, `j ≤ N`, are numbers of the format. -/
theorem eval_exact (fl : Rat → Rat) (p : Nat) (emin : Int) (N : Nat) (c : Rat)
    (hfl : ∀ q, isBin p emin q = true → fl q = q) (hs : sumsExact p emin N c = true)
    (e : FExpr) (he : e.wf N = true) : e.eval fl c = e.weight * c := by
  induction e with
  | c => simp [eval, weight]
  | add a b iha ihb =>
    simp only [wf, Bool.and_eq_true] at he
    obtain ⟨⟨ha, hb⟩, hw⟩ := he
    obtain ⟨j, hj, ej⟩ := natUpTo_spec N _ hw
    simp only [eval, weight]
    rw [iha ha, ihb hb, ← add_mul, ej]
    exact hfl _ (sumsExact_spec p emin N c hs j hj)
  | divn a n iha =>
    simp only [wf, Bool.and_eq_true] at he
    obtain ⟨⟨ha, _⟩, hw⟩ := he
    obtain ⟨j, hj, ej⟩ := natUpTo_spec N _ hw
    simp only [eval, weight]
    rw [iha ha, mul_div_right_comm, ej]
    exact hfl _ (sumsExact_spec p emin N c hs j hj)

end FExpr

theorem allEq_spec (l : List Rat) (h : allEq l = true) : ∀ v ∈ l, v = l.headD 0 := by
  cases l with
  | nil => intro v hv; cases hv
  | cons a l =>
    simp only [allEq, List.all_eq_true, beq_iff_eq] at h
    intro v hv
    rcases List.mem_cons.mp hv with rfl | hv
    · rfl
    · exact h v hv

end Pew.Filters
