import PewProofs.LaserEditErr

/-! helper lemmas for C07: the object level (`World`, `hstep`) against the content level (`State`, `stepE`) -/
namespace Pew.LaserEdit

/-! ## following references is natural in every dict / field-list primitive -/

@[simp] theorem mapV_nil (f : Nat → Nat) : mapV f [] = [] := rfl
@[simp] theorem mapV_cons (f : Nat → Nat) (e : Name × Nat) (l : List (Name × Nat)) :
    mapV f (e :: l) = (e.1, f e.2) :: mapV f l := rfl
@[simp] theorem mapV_append (f : Nat → Nat) (l r : List (Name × Nat)) :
    mapV f (l ++ r) = mapV f l ++ mapV f r := by simp [mapV]
@[simp] theorem keys_mapV (f : Nat → Nat) (l : List (Name × Nat)) : keys (mapV f l) = keys l := by
  simp [mapV, keys, List.map_map, Function.comp_def]
@[simp] theorem length_mapV (f : Nat → Nat) (l : List (Name × Nat)) : (mapV f l).length = l.length := by
  simp [mapV]

theorem mapV_congr {f g : Nat → Nat} {l : List (Name × Nat)} (h : ∀ e ∈ l, f e.2 = g e.2) :
    mapV f l = mapV g l := by
  unfold mapV
  apply List.map_congr_left
  intro e he
  rw [h e he]

theorem get?_mapV (f : Nat → Nat) (l : List (Name × Nat)) (n : Name) :
    get? (mapV f l) n = (get? l n).map f := by
  induction l with
  | nil => rfl
  | cons e r ih =>
    simp only [mapV_cons, get?_cons]
    split
    · rfl
    · exact ih

theorem mapV_filter_key (f : Nat → Nat) (p : Name → Bool) (l : List (Name × Nat)) :
    mapV f (l.filter (fun e => p e.1)) = (mapV f l).filter (fun e => p e.1) := by
  induction l with
  | nil => rfl
  | cons e r ih =>
    simp only [List.filter_cons, mapV_cons]
    cases p e.1 <;> simp [ih]

theorem mapV_mapKey (f : Nat → Nat) (g : Name → Name) (l : List (Name × Nat)) :
    mapV f (l.map (fun e => (g e.1, e.2))) = (mapV f l).map (fun e => (g e.1, e.2)) := by
  simp [mapV, List.map_map, Function.comp_def]

theorem mapV_dictSet (f : Nat → Nat) (d : Dict) (k : Name) (v : Nat) :
    mapV f (dictSet d k v) = dictSet (mapV f d) k (f v) := by
  unfold dictSet
  rw [keys_mapV]
  split
  · simp only [mapV, List.map_map]
    apply List.map_congr_left
    intro e _
    simp only [Function.comp]
    split <;> rfl
  · simp

theorem mapV_foldl_dictSet (f : Nat → Nat) (g : Name → Name) (l : Dict) :
    ∀ acc : Dict, mapV f (l.foldl (fun acc e => dictSet acc (g e.1) e.2) acc) =
      (mapV f l).foldl (fun acc e => dictSet acc (g e.1) e.2) (mapV f acc) := by
  induction l with
  | nil => intro acc; rfl
  | cons e r ih =>
    intro acc
    simp only [List.foldl_cons, mapV_cons]
    rw [ih, mapV_dictSet]

theorem mapV_rebuildDict (f : Nat → Nat) (d : Dict) (m : NameMap) :
    mapV f (rebuildDict d m) = rebuildDict (mapV f d) m := by
  unfold rebuildDict
  exact mapV_foldl_dictSet f (sub m) d []

theorem dictPop_mapV (f : Nat → Nat) (d : Dict) (k : Name) :
    dictPop (mapV f d) k = (dictPop d k).map (mapV f) := by
  unfold dictPop
  rw [keys_mapV]
  split
  · simp only [Option.map_some, Option.some.injEq]
    exact (mapV_filter_key f (fun n => decide (n ≠ k)) d).symm
  · rfl

theorem popAllE_mapV (f : Nat → Nat) : ∀ (ns : List Name) (d : Dict),
    popAllE (mapV f d) ns = (mapV f (popAllE d ns).1, (popAllE d ns).2) := by
  intro ns
  induction ns with
  | nil => intro d; rfl
  | cons a r ih =>
    intro d
    simp only [popAllE, dictPop_mapV]
    cases dictPop d a with
    | none => rfl
    | some d' => simp only [Option.map_some]; exact ih d'

/-! ## layers -/

/-- a structured array seen through a reading of its cells -/
def Layer.mapV (f : Nat → Nat) (l : Layer) : Layer := { shape := l.shape, fields := Pew.LaserEdit.mapV f l.fields }

theorem viewLayer_eq (h : Heap) (a : Arr) : viewLayer h a = Layer.mapV h.cell a := rfl

theorem Layer.addE_mapV (f : Nat → Nat) (l : Layer) (n : Name) (a : ArrIn) :
    Layer.addE (Layer.mapV f l) n (a.1, f a.2) =
      (match Layer.addE l n a with
       | .ok l' => .ok (Layer.mapV f l')
       | .error e => .error e) := by
  unfold Layer.addE Layer.mapV
  simp only [keys_mapV]
  split
  · rfl
  · split
    · rfl
    · simp

theorem Layer.drop_mapV (f : Nat → Nat) (l : Layer) (ns : List Name) :
    (Layer.mapV f l).drop ns = Layer.mapV f (l.drop ns) := by
  unfold Layer.drop Layer.mapV
  simp only
  congr 1
  exact (mapV_filter_key f (fun n => decide (n ∉ ns)) l.fields).symm

theorem Layer.rename_mapV (f : Nat → Nat) (l : Layer) (m : NameMap) :
    (Layer.mapV f l).rename m = (l.rename m).map (Layer.mapV f) := by
  unfold Layer.rename Layer.mapV
  simp only [keys_mapKey, keys_mapV]
  split
  · simp only [Option.map_some, Option.some.injEq, Layer.mk.injEq, true_and]
    exact (mapV_mapKey f (sub m) l.fields).symm
  · rfl

theorem renameLayersE_mapV (f : Nat → Nat) (m : NameMap) : ∀ ls : List Layer,
    renameLayersE m (ls.map (Layer.mapV f)) =
      (match renameLayersE m ls with
       | .ok r => .ok (r.map (Layer.mapV f))
       | .error (e, r) => .error (e, r.map (Layer.mapV f))) := by
  intro ls
  induction ls with
  | nil => rfl
  | cons l t ih =>
    simp only [List.map_cons, renameLayersE, Layer.rename_mapV]
    cases l.rename m with
    | none => rfl
    | some l' =>
      simp only [Option.map_some]
      rw [ih]
      cases renameLayersE m t with
      | ok r => rfl
      | error p => rfl

/-! ## memory only grows -/

/-- `h'` has all cells of `h` with their contents (and maybe more); everything else is the same -/
def Grows (h h' : Heap) : Prop :=
  h.cells.length ≤ h'.cells.length ∧ (∀ i, i < h.cells.length → h'.cells[i]? = h.cells[i]?) ∧
  h'.cals = h.cals ∧ h'.cfgs = h.cfgs ∧ h'.offs = h.offs ∧ h'.dicts = h.dicts

theorem Grows.refl (h : Heap) : Grows h h := ⟨Nat.le_refl _, fun _ _ => rfl, rfl, rfl, rfl, rfl⟩

theorem Grows.trans {a b c : Heap} (h1 : Grows a b) (h2 : Grows b c) : Grows a c :=
  ⟨Nat.le_trans h1.1 h2.1, fun i hi => (h2.2.1 i (Nat.lt_of_lt_of_le hi h1.1)).trans (h1.2.1 i hi),
   h2.2.2.1.trans h1.2.2.1, h2.2.2.2.1.trans h1.2.2.2.1, h2.2.2.2.2.1.trans h1.2.2.2.2.1,
   h2.2.2.2.2.2.trans h1.2.2.2.2.2⟩

theorem Grows.cell {h h' : Heap} (g : Grows h h') {i : Nat} (hi : i < h.cells.length) : h'.cell i = h.cell i := by
  unfold Heap.cell; rw [g.2.1 i hi]

theorem Grows.calOf {h h' : Heap} (g : Grows h h') (i : Nat) : h'.calOf i = h.calOf i := by
  unfold Heap.calOf; rw [g.2.2.1]

theorem Grows.dict {h h' : Heap} (g : Grows h h') (i : Nat) : h'.dict i = h.dict i := by
  unfold Heap.dict; rw [g.2.2.2.2.2]

theorem Grows.cfgOf {h h' : Heap} (g : Grows h h') (i : Nat) : h'.cfgOf i = h.cfgOf i := by
  unfold Heap.cfgOf; rw [g.2.2.2.1]

/-- the cells of an array exist -/
def ArrOK (h : Heap) (a : Arr) : Prop := ∀ e ∈ a.fields, e.2 < h.cells.length

theorem ArrOK.mono {h h' : Heap} (g : Grows h h') {a : Arr} (ha : ArrOK h a) : ArrOK h' a :=
  fun e he => Nat.lt_of_lt_of_le (ha e he) g.1

theorem Grows.viewLayer {h h' : Heap} (g : Grows h h') {a : Arr} (ha : ArrOK h a) :
    viewLayer h' a = viewLayer h a := by
  unfold Pew.LaserEdit.viewLayer
  congr 1
  exact mapV_congr (fun e he => g.cell (ha e he))

theorem Grows.viewLayers {h h' : Heap} (g : Grows h h') {as : List Arr} (ha : ∀ a ∈ as, ArrOK h a) :
    as.map (Pew.LaserEdit.viewLayer h') = as.map (Pew.LaserEdit.viewLayer h) :=
  List.map_congr_left (fun a hm => g.viewLayer (ha a hm))

theorem grows_append (h : Heap) (cs : List Nat) : Grows h { h with cells := h.cells ++ cs } :=
  ⟨by simp, fun i hi => List.getElem?_append_left hi, rfl, rfl, rfl, rfl⟩

/-! ## copies -/

theorem zip_range_lookup : ∀ (ns : List Name) (vals pre : List Nat), vals.length = ns.length →
    mapV (fun i => ((pre ++ vals)[i]?).getD 0) (List.zip ns (List.range' pre.length ns.length)) = List.zip ns vals := by
  intro ns
  induction ns with
  | nil => intro vals pre _; simp
  | cons n t ih =>
    intro vals pre hlen
    cases vals with
    | nil => simp at hlen
    | cons v u =>
      simp only [List.length_cons, List.range'_succ, List.zip_cons_cons, mapV_cons]
      congr 1
      · simp
      · have := ih u (pre ++ [v]) (by simpa using hlen)
        simpa using this

theorem zip_keys_map (f : Name × Nat → Nat) (l : List (Name × Nat)) :
    List.zip (keys l) (l.map f) = l.map (fun e => (e.1, f e)) := by
  induction l with
  | nil => rfl
  | cons e r ih => simp [ih]

theorem mem_zip_range {ns : List Name} {a k : Nat} {e : Name × Nat} (he : e ∈ List.zip ns (List.range' a k)) :
    a ≤ e.2 ∧ e.2 < a + k := by
  have := (List.of_mem_zip he).2
  simp only [List.mem_range'_1] at this
  exact this

theorem copyArr_grows (h : Heap) (a : Arr) : Grows h (h.copyArr a).2 := grows_append h _

theorem copyArr_view (h : Heap) (a : Arr) : viewLayer (h.copyArr a).2 (h.copyArr a).1 = viewLayer h a := by
  unfold Heap.copyArr Heap.allocCells viewLayer
  simp only
  congr 1
  have hlen : (a.fields.map (fun e => h.cell e.2)).length = (keys a.fields).length := by simp [keys]
  have h1 := zip_range_lookup (keys a.fields) (a.fields.map (fun e => h.cell e.2)) h.cells hlen
  have h2 : (keys a.fields).length = (a.fields.map (fun e => h.cell e.2)).length := hlen.symm
  rw [h2] at h1
  have h3 : (fun i => ({ h with cells := h.cells ++ a.fields.map (fun e => h.cell e.2) } : Heap).cell i)
      = (fun i => ((h.cells ++ a.fields.map (fun e => h.cell e.2))[i]?).getD 0) := rfl
  show mapV (fun i => ({ h with cells := h.cells ++ a.fields.map (fun e => h.cell e.2) } : Heap).cell i) _ = _
  rw [h3, h1, zip_keys_map]
  rfl

theorem copyArr_ok (h : Heap) (a : Arr) : ArrOK (h.copyArr a).2 (h.copyArr a).1 := by
  intro e he
  unfold Heap.copyArr Heap.allocCells at he ⊢
  simp only at he ⊢
  have := mem_zip_range he
  simp only [List.length_append, List.length_map] at this ⊢
  omega

/-- every cell of the copy is new -/
theorem copyArr_fresh (h : Heap) (a : Arr) : ∀ e ∈ (h.copyArr a).1.fields, h.cells.length ≤ e.2 := by
  intro e he
  unfold Heap.copyArr Heap.allocCells at he
  exact (mem_zip_range he).1

theorem copyArr_keys (h : Heap) (a : Arr) : keys (h.copyArr a).1.fields = keys a.fields := by
  unfold Heap.copyArr Heap.allocCells
  simp only [keys]
  rw [List.map_fst_zip]
  simp

theorem copyArr_shape (h : Heap) (a : Arr) : (h.copyArr a).1.shape = a.shape := rfl

/-! ## `add` -/

theorem Arr.addE_ok {h h1 : Heap} {a a' : Arr} {n : Name} {x : ArrIn} (hx : Arr.addE h a n x = .ok (a', h1)) :
    Layer.addE (viewLayer h a) n (x.1, h.cell x.2) = .ok (viewLayer h1 a') ∧ Grows h h1 ∧ ArrOK h1 a' ∧
      (∀ e ∈ a'.fields, h.cells.length ≤ e.2) := by
  unfold Arr.addE at hx
  have hn := Layer.addE_mapV h.cell a n x
  cases hl : Layer.addE a n x with
  | error e => rw [hl] at hx; simp at hx
  | ok a2 =>
    rw [hl] at hx hn
    simp only [Except.ok.injEq] at hx
    have e1 : a' = (h.copyArr a2).1 := by rw [hx]
    have e2 : h1 = (h.copyArr a2).2 := by rw [hx]
    subst e1 e2
    refine ⟨?_, copyArr_grows h a2, copyArr_ok h a2, copyArr_fresh h a2⟩
    rw [copyArr_view]
    exact hn

theorem Arr.addE_error {h : Heap} {a : Arr} {n : Name} {x : ArrIn} {e : Err} (hx : Arr.addE h a n x = .error e) :
    Layer.addE (viewLayer h a) n (x.1, h.cell x.2) = .error e := by
  unfold Arr.addE at hx
  have hn := Layer.addE_mapV h.cell a n x
  cases hl : Layer.addE a n x with
  | error e' =>
    rw [hl] at hx hn
    simp only [Except.error.injEq] at hx
    subst hx
    exact hn
  | ok a2 => rw [hl] at hx; simp at hx

theorem hAddLayers_ok (n : Name) : ∀ (as : List Arr) (xs : List ArrIn) (h h2 : Heap) (r : List Arr),
    (∀ a ∈ as, ArrOK h a) → (∀ x ∈ xs, x.2 < h.cells.length) → hAddLayers n as xs h = .ok (r, h2) →
    addLayersE n (as.map (viewLayer h)) (xs.map (fun x => (x.1, h.cell x.2))) = .ok (r.map (viewLayer h2)) ∧
      Grows h h2 ∧ (∀ a ∈ r, ArrOK h2 a) ∧ (∀ a ∈ r, ∀ e ∈ a.fields, h.cells.length ≤ e.2) := by
  intro as
  induction as with
  | nil =>
    intro xs h h2 r _ _ hr
    simp only [hAddLayers, Except.ok.injEq, Prod.mk.injEq] at hr
    obtain ⟨rfl, rfl⟩ := hr
    exact ⟨rfl, Grows.refl _, by simp, by simp⟩
  | cons a t ih =>
    intro xs h h2 r has hxs hr
    cases xs with
    | nil => simp [hAddLayers] at hr
    | cons x u =>
      simp only [hAddLayers] at hr
      cases h1e : Arr.addE h a n x with
      | error e => rw [h1e] at hr; simp at hr
      | ok p =>
        obtain ⟨a', h1⟩ := p
        rw [h1e] at hr
        dsimp only at hr
        obtain ⟨hv, hg, hok, hfresh⟩ := Arr.addE_ok h1e
        cases hte : hAddLayers n t u h1 with
        | error q => rw [hte] at hr; obtain ⟨e, r', h'⟩ := q; simp at hr
        | ok q =>
          obtain ⟨r', h2'⟩ := q
          rw [hte] at hr
          simp only [Except.ok.injEq, Prod.mk.injEq] at hr
          obtain ⟨rfl, rfl⟩ := hr
          have hast : ∀ b ∈ t, ArrOK h b := fun b hb => has b (by simp [hb])
          obtain ⟨hv2, hg2, hok2, hfresh2⟩ := ih u h1 h2' r' (fun b hb => (hast b hb).mono hg)
            (fun y hy => Nat.lt_of_lt_of_le (hxs y (by simp [hy])) hg.1) hte
          refine ⟨?_, hg.trans hg2, ?_, ?_⟩
          · simp only [List.map_cons, addLayersE, hv]
            have e1 : t.map (viewLayer h) = t.map (viewLayer h1) := (hg.viewLayers hast).symm
            have e2 : u.map (fun x => (x.1, h.cell x.2)) = u.map (fun x => (x.1, h1.cell x.2)) :=
              List.map_congr_left (fun y hy => by rw [hg.cell (hxs y (by simp [hy]))])
            rw [e1, e2, hv2, hg2.viewLayer hok]
          · intro b hb
            rcases List.mem_cons.1 hb with rfl | hb
            · exact hok.mono hg2
            · exact hok2 b hb
          · intro b hb
            rcases List.mem_cons.1 hb with rfl | hb
            · exact hfresh
            · exact fun e he => Nat.le_trans hg.1 (hfresh2 b hb e he)

theorem hAddLayers_error (n : Name) : ∀ (as : List Arr) (xs : List ArrIn) (h h2 : Heap) (r : List Arr) (e : Err),
    (∀ a ∈ as, ArrOK h a) → (∀ x ∈ xs, x.2 < h.cells.length) → hAddLayers n as xs h = .error (e, r, h2) →
    addLayersE n (as.map (viewLayer h)) (xs.map (fun x => (x.1, h.cell x.2))) = .error (e, r.map (viewLayer h2)) ∧
      Grows h h2 ∧ (∀ a ∈ r, ArrOK h2 a) := by
  intro as
  induction as with
  | nil => intro xs h h2 r e _ _ hr; simp [hAddLayers] at hr
  | cons a t ih =>
    intro xs h h2 r e has hxs hr
    cases xs with
    | nil =>
      simp only [hAddLayers, Except.error.injEq, Prod.mk.injEq] at hr
      obtain ⟨rfl, rfl, rfl⟩ := hr
      exact ⟨rfl, Grows.refl _, has⟩
    | cons x u =>
      simp only [hAddLayers] at hr
      cases h1e : Arr.addE h a n x with
      | error e' =>
        rw [h1e] at hr
        simp only [Except.error.injEq, Prod.mk.injEq] at hr
        obtain ⟨rfl, rfl, rfl⟩ := hr
        refine ⟨?_, Grows.refl _, has⟩
        simp only [List.map_cons, addLayersE, Arr.addE_error h1e]
      | ok p =>
        obtain ⟨a', h1⟩ := p
        rw [h1e] at hr
        dsimp only at hr
        obtain ⟨hv, hg, hok, _⟩ := Arr.addE_ok h1e
        cases hte : hAddLayers n t u h1 with
        | ok q => rw [hte] at hr; obtain ⟨r', h'⟩ := q; simp at hr
        | error q =>
          obtain ⟨e', r', h2'⟩ := q
          rw [hte] at hr
          simp only [Except.error.injEq, Prod.mk.injEq] at hr
          obtain ⟨rfl, rfl, rfl⟩ := hr
          have hast : ∀ b ∈ t, ArrOK h b := fun b hb => has b (by simp [hb])
          obtain ⟨hv2, hg2, hok2⟩ := ih u h1 h2' r' e' (fun b hb => (hast b hb).mono hg)
            (fun y hy => Nat.lt_of_lt_of_le (hxs y (by simp [hy])) hg.1) hte
          refine ⟨?_, hg.trans hg2, ?_⟩
          · simp only [List.map_cons, addLayersE, hv]
            have e1 : t.map (viewLayer h) = t.map (viewLayer h1) := (hg.viewLayers hast).symm
            have e2 : u.map (fun x => (x.1, h.cell x.2)) = u.map (fun x => (x.1, h1.cell x.2)) :=
              List.map_congr_left (fun y hy => by rw [hg.cell (hxs y (by simp [hy]))])
            rw [e1, e2, hv2, hg2.viewLayer hok]
          · intro b hb
            rcases List.mem_cons.1 hb with rfl | hb
            · exact hok.mono hg2
            · exact hok2 b hb

theorem viewLayer_congr {h1 h2 : Heap} (hc : h1.cells = h2.cells) : viewLayer h1 = viewLayer h2 := by
  funext a
  unfold viewLayer Heap.cell
  rw [hc]

theorem viewDict_congr {h1 h2 : Heap} {d : IdDict} (hc : ∀ e ∈ d, h1.calOf e.2 = h2.calOf e.2) :
    viewDict h1 d = viewDict h2 d := mapV_congr hc

theorem mem_dictSet {d : Dict} {k : Name} {v : Nat} {e : Name × Nat} (he : e ∈ dictSet d k v) :
    e ∈ d ∨ e = (k, v) := by
  unfold dictSet at he
  split at he
  · obtain ⟨x, hx, hxe⟩ := List.mem_map.1 he
    split at hxe
    · exact Or.inr hxe.symm
    · exact Or.inl (hxe ▸ hx)
  · rcases List.mem_append.1 he with h | h
    · exact Or.inl h
    · exact Or.inr (by simpa using h)

theorem Valid.dict_lt {w : World} (hv : Valid w) : w.laser.cal < w.heap.dicts.length := hv.1
theorem Valid.cal_lt {w : World} (hv : Valid w) : ∀ e ∈ w.heap.dict w.laser.cal, e.2 < w.heap.cals.length := hv.2.1
theorem Valid.cfg_lt {w : World} (hv : Valid w) : w.laser.cfg < w.heap.cfgs.length := hv.2.2.1
theorem Valid.data_ok {w : World} (hv : Valid w) : ∀ a ∈ w.laser.data, ArrOK w.heap a := hv.2.2.2

theorem dict_set_self {h : Heap} {i : Nat} (d : IdDict) (hi : i < h.dicts.length) :
    ({ h with dicts := h.dicts.set i d } : Heap).dict i = d := by
  unfold Heap.dict
  simp only [List.getElem?_set_self hi, Option.getD_some]

theorem calOf_append_lt {cals : List Nat} {c : Nat} {i : Nat} (hi : i < cals.length) :
    ((cals ++ [c])[i]?).getD 0 = (cals[i]?).getD 0 := by
  rw [List.getElem?_append_left hi]

theorem State.ext' {a b : State} (h1 : a.srr = b.srr) (h2 : a.layers = b.layers) (h3 : a.cal = b.cal)
    (h4 : a.cfg = b.cfg) : a = b := by
  cases a; cases b; simp_all

theorem storeCal_none (h : Heap) (i : Nat) (n : Name) :
    h.storeCal i n none =
      (⟨h.cells, h.cals ++ [0], h.cfgs, h.offs, h.dicts.set i (dictSet (h.dict i) n h.cals.length)⟩ : Heap) := rfl

theorem storeCal_some (h : Heap) (i : Nat) (n : Name) (k : Nat) :
    h.storeCal i n (some k) =
      (⟨h.cells, h.cals, h.cfgs, h.offs, h.dicts.set i (dictSet (h.dict i) n k)⟩ : Heap) := rfl

theorem storeCal_spec (h : Heap) (i : Nat) (n : Name) (cal : Option Nat) (hi : i < h.dicts.length)
    (hd : ∀ e ∈ h.dict i, e.2 < h.cals.length) (hcal : ∀ k, cal = some k → k < h.cals.length) :
    (h.storeCal i n cal).cells = h.cells ∧ (h.storeCal i n cal).cfgs = h.cfgs ∧
    (h.storeCal i n cal).offs = h.offs ∧ (h.storeCal i n cal).dicts.length = h.dicts.length ∧
    h.cals.length ≤ (h.storeCal i n cal).cals.length ∧
    (∀ k, k < h.cals.length → (h.storeCal i n cal).calOf k = h.calOf k) ∧
    viewDict (h.storeCal i n cal) ((h.storeCal i n cal).dict i) =
      dictSet (viewDict h (h.dict i)) n ((cal.map h.calOf).getD 0) ∧
    (∀ e ∈ (h.storeCal i n cal).dict i, e.2 < (h.storeCal i n cal).cals.length) ∧
    (∀ e ∈ (h.storeCal i n cal).dict i, e ∈ h.dict i ∨ e = (n, (cal.getD h.cals.length))) ∧
    (∀ j, j ≠ i → (h.storeCal i n cal).dict j = h.dict j) := by
  cases cal with
  | none =>
    rw [storeCal_none]
    have hdict : (⟨h.cells, h.cals ++ [0], h.cfgs, h.offs, h.dicts.set i (dictSet (h.dict i) n h.cals.length)⟩ : Heap).dict i
        = dictSet (h.dict i) n h.cals.length := by
      unfold Heap.dict
      simp only [List.getElem?_set_self hi, Option.getD_some]
    refine ⟨rfl, rfl, rfl, by simp, by simp, ?_, ?_, ?_, ?_, ?_⟩
    · intro k hk
      show ((h.cals ++ [0])[k]?).getD 0 = _
      rw [calOf_append_lt hk]; rfl
    · rw [hdict]
      unfold viewDict
      rw [mapV_dictSet]
      congr 1
      · apply mapV_congr
        intro e he
        show ((h.cals ++ [0])[e.2]?).getD 0 = _
        rw [calOf_append_lt (hd e he)]; rfl
      · show ((h.cals ++ [0])[h.cals.length]?).getD 0 = _
        simp
    · rw [hdict]
      intro e he
      show e.2 < (h.cals ++ [0]).length
      rcases mem_dictSet he with h1 | h1
      · have := hd e h1; simp; omega
      · subst h1; simp
    · rw [hdict]
      intro e he
      exact mem_dictSet he
    · intro j hj
      unfold Heap.dict
      simp only [List.getElem?_set_ne (Ne.symm hj)]
  | some k =>
    rw [storeCal_some]
    have hdict : (⟨h.cells, h.cals, h.cfgs, h.offs, h.dicts.set i (dictSet (h.dict i) n k)⟩ : Heap).dict i
        = dictSet (h.dict i) n k := by
      unfold Heap.dict
      simp only [List.getElem?_set_self hi, Option.getD_some]
    refine ⟨rfl, rfl, rfl, by simp, Nat.le_refl _, fun _ _ => rfl, ?_, ?_, ?_, ?_⟩
    · rw [hdict]
      unfold viewDict
      rw [mapV_dictSet]
      rfl
    · rw [hdict]
      intro e he
      rcases mem_dictSet he with h1 | h1
      · exact hd e h1
      · subst h1; exact hcal k rfl
    · rw [hdict]
      intro e he
      exact mem_dictSet he
    · intro j hj
      unfold Heap.dict
      simp only [List.getElem?_set_ne (Ne.symm hj)]

theorem cfgOf_congr {h1 h2 : Heap} (hc : h1.cfgs = h2.cfgs) (i : Nat) : h1.cfgOf i = h2.cfgOf i := by
  unfold Heap.cfgOf; rw [hc]

theorem hAdd_view (w : World) (hv : Valid w) (n : Name) (xs : List ArrIn) (cal : Option Nat)
    (hxs : ∀ x ∈ xs, x.2 < w.heap.cells.length) (hcal : ∀ k, cal = some k → k < w.heap.cals.length) :
    (hAdd w n xs cal).map view =
      addE (view w) n (xs.map (fun x => (x.1, w.heap.cell x.2))) ((cal.map w.heap.calOf).getD 0) ∧
    Valid (hAdd w n xs cal).state := by
  unfold hAdd addE
  have hl : (view w).layers.length = w.laser.data.length := by simp [view]
  by_cases hlen : xs.length = w.laser.data.length
  · simp only [ne_eq, hlen, not_true_eq_false, if_false, List.length_map, hl]
    cases hE : hAddLayers n w.laser.data xs w.heap with
    | error q =>
      obtain ⟨e, ls, h⟩ := q
      obtain ⟨hv2, hg, hok⟩ := hAddLayers_error n _ _ _ _ _ _ hv.data_ok hxs hE
      have hv2' : addLayersE n (view w).layers (xs.map (fun x => (x.1, w.heap.cell x.2))) =
          .error (e, ls.map (viewLayer h)) := hv2
      simp only [hv2', Res.map, Res.state]
      refine ⟨?_, ?_⟩
      · congr 1
        apply State.ext'
        · rfl
        · rfl
        · show viewDict h (h.dict w.laser.cal) = viewDict w.heap (w.heap.dict w.laser.cal)
          rw [hg.dict]
          exact viewDict_congr (fun e _ => hg.calOf e.2)
        · show (h.cfgOf w.laser.cfg).scal = (w.heap.cfgOf w.laser.cfg).scal
          rw [hg.cfgOf]
      · refine ⟨by show w.laser.cal < h.dicts.length; rw [hg.2.2.2.2.2]; exact hv.dict_lt, ?_,
          by show w.laser.cfg < h.cfgs.length; rw [hg.2.2.2.1]; exact hv.cfg_lt, hok⟩
        show ∀ e ∈ h.dict w.laser.cal, e.2 < h.cals.length
        rw [hg.dict, hg.2.2.1]
        exact hv.cal_lt
    | ok q =>
      obtain ⟨ls, h⟩ := q
      obtain ⟨hv2, hg, hok, _⟩ := hAddLayers_ok n _ _ _ _ _ hv.data_ok hxs hE
      have hv2' : addLayersE n (view w).layers (xs.map (fun x => (x.1, w.heap.cell x.2))) =
          .ok (ls.map (viewLayer h)) := hv2
      simp only [hv2', Res.map, Res.state]
      have hdl : w.laser.cal < h.dicts.length := by rw [hg.2.2.2.2.2]; exact hv.dict_lt
      have hd : ∀ e ∈ h.dict w.laser.cal, e.2 < h.cals.length := by
        rw [hg.dict, hg.2.2.1]; exact hv.cal_lt
      have hcal' : ∀ k, cal = some k → k < h.cals.length := by rw [hg.2.2.1]; exact hcal
      obtain ⟨s1, s2, _, s4, s5, _, s7, s8, _, _⟩ := storeCal_spec h w.laser.cal n cal hdl hd hcal'
      refine ⟨?_, ?_⟩
      · congr 1
        apply State.ext'
        · rfl
        · show ls.map (viewLayer (h.storeCal w.laser.cal n cal)) = ls.map (viewLayer h)
          rw [viewLayer_congr s1]
        · show viewDict (h.storeCal w.laser.cal n cal) ((h.storeCal w.laser.cal n cal).dict w.laser.cal) = _
          rw [s7, hg.dict]
          congr 1
          · exact viewDict_congr (fun e _ => hg.calOf e.2)
          · cases cal with
            | none => rfl
            | some k => simp [hg.calOf]
        · show ((h.storeCal w.laser.cal n cal).cfgOf w.laser.cfg).scal = (w.heap.cfgOf w.laser.cfg).scal
          rw [cfgOf_congr s2, hg.cfgOf]
      · refine ⟨by show w.laser.cal < (h.storeCal w.laser.cal n cal).dicts.length; rw [s4]; exact hdl, s8,
          by show w.laser.cfg < (h.storeCal w.laser.cal n cal).cfgs.length; rw [s2, hg.2.2.2.1]; exact hv.cfg_lt, ?_⟩
        intro a ha e he
        show e.2 < (h.storeCal w.laser.cal n cal).cells.length
        rw [s1]
        exact hok a ha e he
  · have hlen' : ¬ (xs.map (fun x => (x.1, w.heap.cell x.2))).length = (view w).layers.length := by
      rw [List.length_map, hl]; exact hlen
    simp only [ne_eq, hlen, hlen', not_false_eq_true, if_true, Res.map, Res.state]
    exact ⟨trivial, hv⟩

/-! ## `remove` -/

theorem hDropLayers_spec (ns : List Name) : ∀ (as : List Arr) (h : Heap), (∀ a ∈ as, ArrOK h a) →
    (hDropLayers ns as h).1.map (viewLayer (hDropLayers ns as h).2) = (as.map (viewLayer h)).map (·.drop ns) ∧
      Grows h (hDropLayers ns as h).2 ∧ (∀ a ∈ (hDropLayers ns as h).1, ArrOK (hDropLayers ns as h).2 a) ∧
      (∀ a ∈ (hDropLayers ns as h).1, ∀ e ∈ a.fields, h.cells.length ≤ e.2) := by
  intro as
  induction as with
  | nil => intro h _; exact ⟨rfl, Grows.refl _, by simp [hDropLayers], by simp [hDropLayers]⟩
  | cons a t ih =>
    intro h has
    have hg1 := copyArr_grows h (a.drop ns)
    have hok1 := copyArr_ok h (a.drop ns)
    have hast : ∀ b ∈ t, ArrOK h b := fun b hb => has b (by simp [hb])
    obtain ⟨hv2, hg2, hok2, hf2⟩ := ih (h.copyArr (a.drop ns)).2 (fun b hb => (hast b hb).mono hg1)
    simp only [hDropLayers, List.map_cons]
    refine ⟨?_, hg1.trans hg2, ?_, ?_⟩
    · rw [hv2, hg2.viewLayer hok1, copyArr_view, hg1.viewLayers hast]
      congr 1
      exact (Layer.drop_mapV h.cell a ns).symm
    · intro b hb
      rcases List.mem_cons.1 hb with rfl | hb
      · exact hok1.mono hg2
      · exact hok2 b hb
    · intro b hb
      rcases List.mem_cons.1 hb with rfl | hb
      · exact copyArr_fresh h (a.drop ns)
      · exact fun e he => Nat.le_trans hg1.1 (hf2 b hb e he)

theorem popAllE_subset : ∀ (ns : List Name) (d : Dict) (e : Name × Nat), e ∈ (popAllE d ns).1 → e ∈ d := by
  intro ns
  induction ns with
  | nil => intro d e h; exact h
  | cons a r ih =>
    intro d e h
    simp only [popAllE, dictPop] at h
    by_cases ha : a ∈ keys d
    · simp only [if_pos ha] at h
      exact (List.mem_filter.1 (ih _ e h)).1
    · simp only [if_neg ha] at h
      exact h

theorem hRemove_view (w : World) (hv : Valid w) (ns : List Name) :
    (hRemove w ns).map view = removeE (view w) ns ∧ Valid (hRemove w ns).state := by
  have hspec := hDropLayers_spec ns w.laser.data w.heap hv.data_ok
  unfold hRemove removeE
  rcases hD : hDropLayers ns w.laser.data w.heap with ⟨dl, dh⟩
  rw [hD] at hspec
  obtain ⟨hv2, hg, hok, _⟩ := hspec
  simp only at hv2 hg hok ⊢
  have hdl : w.laser.cal < dh.dicts.length := by rw [hg.2.2.2.2.2]; exact hv.dict_lt
  have hpop : popAllE (view w).cal ns =
      (mapV w.heap.calOf (popAllE (w.heap.dict w.laser.cal) ns).1, (popAllE (w.heap.dict w.laser.cal) ns).2) :=
    popAllE_mapV w.heap.calOf ns (w.heap.dict w.laser.cal)
  rw [hg.dict]
  have k1 : view ⟨⟨dh.cells, dh.cals, dh.cfgs, dh.offs,
        dh.dicts.set w.laser.cal (popAllE (w.heap.dict w.laser.cal) ns).1⟩,
        ⟨w.laser.srr, dl, w.laser.cal, w.laser.cfg⟩⟩ =
      ⟨(view w).srr, (view w).layers.map (·.drop ns), (popAllE (view w).cal ns).1, (view w).cfg⟩ := by
    apply State.ext'
    · rfl
    · show dl.map (viewLayer dh) = _
      rw [hv2]
      rfl
    · show viewDict _ (Heap.dict _ w.laser.cal) = _
      rw [dict_set_self _ hdl, hpop]
      exact viewDict_congr (fun e _ => hg.calOf e.2)
    · show (dh.cfgOf w.laser.cfg).scal = _
      rw [hg.cfgOf]
      rfl
  have k2 : Valid ⟨⟨dh.cells, dh.cals, dh.cfgs, dh.offs,
        dh.dicts.set w.laser.cal (popAllE (w.heap.dict w.laser.cal) ns).1⟩,
        ⟨w.laser.srr, dl, w.laser.cal, w.laser.cfg⟩⟩ := by
    refine ⟨by show w.laser.cal < (List.set _ _ _).length; rw [List.length_set]; exact hdl, ?_,
      by show w.laser.cfg < dh.cfgs.length; rw [hg.2.2.2.1]; exact hv.cfg_lt, hok⟩
    intro e he
    rw [dict_set_self _ hdl] at he
    show e.2 < dh.cals.length
    rw [hg.2.2.1]
    exact hv.cal_lt e (popAllE_subset ns _ e he)
  have hp2 : (popAllE (w.heap.dict w.laser.cal) ns).2 = (popAllE (view w).cal ns).2 := by rw [hpop]
  rcases hq : popAllE (view w).cal ns with ⟨d, _ | e⟩
  · rw [hq] at hp2 k1
    simp only [hp2, Res.map, Res.state]
    exact ⟨by rw [k1], k2⟩
  · rw [hq] at hp2 k1
    simp only [hp2, Res.map, Res.state]
    exact ⟨by rw [k1], k2⟩

/-! ## `rename` -/

theorem renameLayersE_ok_mem {m : NameMap} : ∀ {ls r : List Layer}, renameLayersE m ls = .ok r →
    ∀ b ∈ r, ∃ a ∈ ls, a.rename m = some b := by
  intro ls
  induction ls with
  | nil => intro r h b hb; simp only [renameLayersE, Except.ok.injEq] at h; subst h; simp at hb
  | cons l t ih =>
    intro r h b hb
    simp only [renameLayersE] at h
    cases hl : l.rename m with
    | none => rw [hl] at h; simp at h
    | some l' =>
      rw [hl] at h
      dsimp only at h
      cases ht : renameLayersE m t with
      | error p => rw [ht] at h; obtain ⟨e, q⟩ := p; simp at h
      | ok q =>
        rw [ht] at h
        simp only [Except.ok.injEq] at h
        subst h
        rcases List.mem_cons.1 hb with rfl | hb
        · exact ⟨l, by simp, hl⟩
        · obtain ⟨a, ha, hab⟩ := ih ht b hb
          exact ⟨a, by simp [ha], hab⟩

theorem renameLayersE_error_mem {m : NameMap} : ∀ {ls r : List Layer} {e : Err}, renameLayersE m ls = .error (e, r) →
    ∀ b ∈ r, (∃ a ∈ ls, a.rename m = some b) ∨ b ∈ ls := by
  intro ls
  induction ls with
  | nil => intro r e h; simp [renameLayersE] at h
  | cons l t ih =>
    intro r e h b hb
    simp only [renameLayersE] at h
    cases hl : l.rename m with
    | none =>
      rw [hl] at h
      simp only [Except.error.injEq, Prod.mk.injEq] at h
      obtain ⟨_, rfl⟩ := h
      exact Or.inr hb
    | some l' =>
      rw [hl] at h
      dsimp only at h
      cases ht : renameLayersE m t with
      | ok q => rw [ht] at h; simp at h
      | error p =>
        obtain ⟨e', q⟩ := p
        rw [ht] at h
        simp only [Except.error.injEq, Prod.mk.injEq] at h
        obtain ⟨_, rfl⟩ := h
        rcases List.mem_cons.1 hb with rfl | hb
        · exact Or.inl ⟨l, by simp, hl⟩
        · rcases ih ht b hb with ⟨a, ha, hab⟩ | hbt
          · exact Or.inl ⟨a, by simp [ha], hab⟩
          · exact Or.inr (by simp [hbt])

theorem rename_arrOK {h : Heap} {a b : Arr} {m : NameMap} (ha : ArrOK h a) (hab : a.rename m = some b) :
    ArrOK h b := by
  unfold Layer.rename at hab
  simp only at hab
  split at hab
  · simp only [Option.some.injEq] at hab
    subst hab
    intro e he
    obtain ⟨x, hx, rfl⟩ := List.mem_map.1 he
    exact ha x hx
  · simp at hab

theorem hRename_view (w : World) (hv : Valid w) (m : NameMap) :
    (hRename w m).map view = renameE (view w) m ∧ Valid (hRename w m).state := by
  unfold hRename renameE
  have hn := renameLayersE_mapV w.heap.cell m w.laser.data
  have hl : (view w).layers = w.laser.data.map (Layer.mapV w.heap.cell) := rfl
  rw [hl, hn]
  cases hE : renameLayersE m w.laser.data with
  | error p =>
    obtain ⟨e, ls⟩ := p
    simp only [Res.map, Res.state]
    refine ⟨rfl, hv.dict_lt, hv.cal_lt, hv.cfg_lt, ?_⟩
    intro b hb
    rcases renameLayersE_error_mem hE b hb with ⟨a, ha, hab⟩ | hb'
    · exact rename_arrOK (hv.data_ok a ha) hab
    · exact hv.data_ok b hb'
  | ok ls =>
    simp only [Res.map, Res.state, Heap.allocDict]
    have hdict : ({ w.heap with dicts := w.heap.dicts ++ [rebuildDict (w.heap.dict w.laser.cal) m] } : Heap).dict
        w.heap.dicts.length = rebuildDict (w.heap.dict w.laser.cal) m := by
      unfold Heap.dict
      simp
    refine ⟨?_, ?_⟩
    · congr 1
      apply State.ext'
      · rfl
      · rfl
      · show viewDict _ (Heap.dict _ w.heap.dicts.length) = _
        rw [hdict]
        exact mapV_rebuildDict w.heap.calOf _ m
      · rfl
    · refine ⟨by show w.heap.dicts.length < (w.heap.dicts ++ [_]).length; simp, ?_, hv.cfg_lt, ?_⟩
      · intro e he
        rw [hdict] at he
        have : e.2 ∈ (w.heap.dict w.laser.cal).map (·.2) := by
          unfold rebuildDict at he
          have gen : ∀ (l acc : Dict), e ∈ l.foldl (fun acc e => dictSet acc (sub m e.1) e.2) acc →
              e.2 ∈ l.map (·.2) ∨ e ∈ acc := by
            intro l
            induction l with
            | nil => intro acc h; exact Or.inr h
            | cons x r ih =>
              intro acc h
              simp only [List.foldl_cons] at h
              rcases ih _ h with h1 | h1
              · exact Or.inl (by simp [h1])
              · rcases mem_dictSet h1 with h2 | h2
                · exact Or.inr h2
                · exact Or.inl (by simp [h2])
          rcases gen _ _ he with h1 | h1
          · exact h1
          · simp at h1
        obtain ⟨x, hx, hxe⟩ := List.mem_map.1 this
        exact hxe ▸ hv.cal_lt x hx
      · intro b hb
        obtain ⟨a, ha, hab⟩ := renameLayersE_ok_mem hE b hb
        exact rename_arrOK (hv.data_ok a ha) hab

/-! ## `get` -/

/-- the in-place calibration loop of an all-element read writes only into the cells it is given -/
theorem calibrateCells_spec (d : IdDict) : ∀ (f : List (Name × Nat)) (h : Heap), (f.map (·.2)).Nodup →
    (∀ out h2, calibrateCells d f h = .ok (out, h2) →
      calibrateAllE (viewDict h d) (mapV h.cell f) = .ok out ∧ h2.cells.length = h.cells.length ∧
      (∀ i, i ∉ f.map (·.2) → h2.cells[i]? = h.cells[i]?) ∧
      h2.cals = h.cals ∧ h2.cfgs = h.cfgs ∧ h2.offs = h.offs ∧ h2.dicts = h.dicts) ∧
    (∀ e, calibrateCells d f h = .error e → calibrateAllE (viewDict h d) (mapV h.cell f) = .error e) := by
  intro f
  induction f with
  | nil =>
    intro h _
    refine ⟨?_, ?_⟩
    · intro out h2 hr
      simp only [calibrateCells, Except.ok.injEq, Prod.mk.injEq] at hr
      obtain ⟨rfl, rfl⟩ := hr
      exact ⟨rfl, rfl, fun _ _ => rfl, rfl, rfl, rfl, rfl⟩
    · intro e hr; simp [calibrateCells] at hr
  | cons x r ih =>
    intro h hnd
    simp only [List.map_cons, List.nodup_cons] at hnd
    have hget : get? (viewDict h d) x.1 = (get? d x.1).map h.calOf := get?_mapV _ _ _
    cases hk : get? d x.1 with
    | none =>
      rw [hk] at hget
      refine ⟨?_, ?_⟩
      · intro out h2 hr; simp [calibrateCells, hk] at hr
      · intro e hr
        simp only [calibrateCells, hk, Except.error.injEq] at hr
        subst hr
        simp only [mapV_cons, calibrateAllE, hget, Option.map_none]
    | some k =>
      rw [hk] at hget
      -- the heap after this column
      generalize hh1 : (if h.calOf k = 0 then h else
        ({ h with cells := h.cells.set x.2 (calTok (h.cell x.2) (h.calOf k)) } : Heap)) = h1
      have h1c : h1.cells.length = h.cells.length ∧ (∀ i, i ≠ x.2 → h1.cells[i]? = h.cells[i]?) ∧
          h1.cals = h.cals ∧ h1.cfgs = h.cfgs ∧ h1.offs = h.offs ∧ h1.dicts = h.dicts := by
        subst hh1
        split
        · exact ⟨rfl, fun _ _ => rfl, rfl, rfl, rfl, rfl⟩
        · exact ⟨by simp, fun i hi => List.getElem?_set_ne (Ne.symm hi), rfl, rfl, rfl, rfl⟩
      obtain ⟨c1, c2, c3, c4, c5, c6⟩ := h1c
      have hvd : viewDict h1 d = viewDict h d := viewDict_congr (fun e _ => by unfold Heap.calOf; rw [c3])
      have hmr : mapV h1.cell r = mapV h.cell r := by
        apply mapV_congr
        intro e he
        unfold Heap.cell
        rw [c2 e.2 (fun hh => hnd.1 (hh ▸ List.mem_map.2 ⟨e, he, rfl⟩))]
      obtain ⟨ihok, iherr⟩ := ih h1 hnd.2
      rw [hvd, hmr] at ihok iherr
      refine ⟨?_, ?_⟩
      · intro out h2 hr
        simp only [calibrateCells, hk, hh1] at hr
        cases hrec : calibrateCells d r h1 with
        | error e => rw [hrec] at hr; simp at hr
        | ok q =>
          obtain ⟨out', h2'⟩ := q
          rw [hrec] at hr
          simp only [Except.ok.injEq, Prod.mk.injEq] at hr
          obtain ⟨rfl, rfl⟩ := hr
          obtain ⟨i1, i2, i3, i4, i5, i6, i7⟩ := ihok out' h2' hrec
          refine ⟨?_, i2.trans c1, ?_, i4.trans c3, i5.trans c4, i6.trans c5, i7.trans c6⟩
          · simp only [mapV_cons, calibrateAllE, hget, Option.map_some, i1]
          · intro i hi
            simp only [List.map_cons, List.mem_cons, not_or] at hi
            rw [i3 i hi.2, c2 i hi.1]
      · intro e hr
        simp only [calibrateCells, hk, hh1] at hr
        cases hrec : calibrateCells d r h1 with
        | ok q => rw [hrec] at hr; obtain ⟨a, b⟩ := q; simp at hr
        | error e' =>
          rw [hrec] at hr
          simp only [Except.error.injEq] at hr
          subst hr
          simp only [mapV_cons, calibrateAllE, hget, Option.map_some, iherr e' hrec]

theorem copyArr_ids_nodup (h : Heap) (a : Arr) : ((h.copyArr a).1.fields.map (·.2)).Nodup := by
  unfold Heap.copyArr Heap.allocCells
  simp only
  have : ((keys a.fields).zip (List.range' h.cells.length (a.fields.map (fun e => h.cell e.2)).length)).map (·.2)
      = List.range' h.cells.length (a.fields.map (fun e => h.cell e.2)).length := by
    rw [List.map_snd_zip]
    simp [keys]
  rw [this]
  exact List.nodup_range'

theorem viewLayer_get? {h h' : Heap} {a b : Arr} (hv : viewLayer h' b = viewLayer h a) (n : Name) :
    (get? b.fields n).map h'.cell = (get? a.fields n).map h.cell := by
  have := congrArg (fun l => get? l.fields n) hv
  simpa [viewLayer, get?_mapV] using this

theorem hGet_spec (w : World) (hv : Valid w) (layer : Nat) (t : Option Name) (c : Bool) :
    (∀ r h', hGet w layer t c = .ok (r, h') →
      readE (view w) layer t c = .ok r.items ∧ Grows w.heap h' ∧
      (returnsView w t c → ∃ a n i, w.laser.data[layer]? = some a ∧ t = some n ∧ get? a.fields n = some i ∧
        r.cells = [(n, i)] ∧ h' = w.heap) ∧
      (¬ returnsView w t c → r.allNew w.heap)) ∧
    (∀ e, hGet w layer t c = .error e → readE (view w) layer t c = .error e) := by
  unfold hGet readE
  have hlay : (view w).layers[layer]? = (w.laser.data[layer]?).map (viewLayer w.heap) := by
    simp [view, List.getElem?_map]
  rw [hlay]
  cases ha : w.laser.data[layer]? with
  | none =>
    refine ⟨fun r h' hr => by simp at hr, fun e hr => ?_⟩
    simp only [Except.error.injEq] at hr
    subst hr; rfl
  | some a =>
    have haok : ArrOK w.heap a := hv.data_ok a (List.mem_of_getElem? ha)
    simp only [Option.map_some]
    have hcal : (view w).cal = viewDict w.heap (w.heap.dict w.laser.cal) := rfl
    cases t with
    | some n =>
      -- the array `data[element]` is taken from: the stored one, or (SRR) a fresh copy
      generalize hr0 : (if w.laser.srr then w.heap.copyArr a else (a, w.heap)) = r0
      have hP : viewLayer r0.2 r0.1 = viewLayer w.heap a ∧ Grows w.heap r0.2 ∧
          (w.laser.srr = true → ∀ e ∈ r0.1.fields, w.heap.cells.length ≤ e.2) ∧
          (w.laser.srr = false → r0 = (a, w.heap)) := by
        subst hr0
        cases w.laser.srr with
        | true => exact ⟨copyArr_view _ _, copyArr_grows _ _, fun _ => copyArr_fresh _ _, fun hh => by simp at hh⟩
        | false => exact ⟨rfl, Grows.refl _, fun hh => by simp at hh, fun _ => rfl⟩
      obtain ⟨p1, p2, p3, p4⟩ := hP
      have hgetf := viewLayer_get? p1 n
      have hfl : get? (viewLayer w.heap a).fields n = (get? a.fields n).map w.heap.cell := get?_mapV _ _ _
      have hgetc : get? (view w).cal n = (get? (w.heap.dict w.laser.cal) n).map w.heap.calOf := get?_mapV _ _ _
      simp only [readLayerE, hfl, ← hgetf]
      cases hi : get? r0.1.fields n with
      | none =>
        refine ⟨fun r h' hr => by simp at hr, fun e hr => ?_⟩
        simp only [Except.error.injEq] at hr
        subst hr; rfl
      | some i =>
        simp only [Option.map_some]
        have hifresh : w.laser.srr = true → w.heap.cells.length ≤ i := fun hs => by
          have hmem : (n, i) ∈ r0.1.fields := by
            have : ∀ (l : List (Name × Nat)), get? l n = some i → (n, i) ∈ l := by
              intro l
              induction l with
              | nil => intro h; simp at h
              | cons x r ih =>
                intro h
                rw [get?_cons] at h
                split at h
                · next hx => simp only [Option.some.injEq] at h; subst h; subst hx; simp
                · simp [ih h]
            exact this _ hi
          exact p3 hs (n, i) hmem
        cases c with
        | false =>
          simp only [Bool.false_eq_true, if_false]
          refine ⟨fun r h' hr => ?_, fun e hr => by simp at hr⟩
          simp only [Except.ok.injEq, Prod.mk.injEq] at hr
          obtain ⟨rfl, rfl⟩ := hr
          refine ⟨rfl, p2, ?_, ?_⟩
          · intro hrv
            have := p4 hrv.1
            subst this
            exact ⟨a, n, i, rfl, rfl, hi, rfl, rfl⟩
          · intro hnv
            have hs : w.laser.srr = true := by
              by_contra hh
              exact hnv ⟨by simpa using hh, n, rfl, Or.inl rfl⟩
            intro e he
            simp only [List.mem_singleton] at he
            subst he
            exact hifresh hs
        | true =>
          simp only [if_true, hgetc]
          cases hk : get? (w.heap.dict w.laser.cal) n with
          | none =>
            refine ⟨fun r h' hr => by simp at hr, fun e hr => ?_⟩
            simp only [Except.error.injEq] at hr
            subst hr; rfl
          | some k =>
            simp only [Option.map_some, p2.calOf]
            by_cases hc0 : w.heap.calOf k = 0
            · simp only [hc0, if_true]
              refine ⟨fun r h' hr => ?_, fun e hr => by simp at hr⟩
              simp only [Except.ok.injEq, Prod.mk.injEq] at hr
              obtain ⟨rfl, rfl⟩ := hr
              refine ⟨rfl, p2, ?_, ?_⟩
              · intro hrv
                have := p4 hrv.1
                subst this
                exact ⟨a, n, i, rfl, rfl, hi, rfl, rfl⟩
              · intro hnv
                have hs : w.laser.srr = true := by
                  by_contra hh
                  exact hnv ⟨by simpa using hh, n, rfl, Or.inr ⟨k, hk, hc0⟩⟩
                intro e he
                simp only [List.mem_singleton] at he
                subst he
                exact hifresh hs
            · simp only [hc0, if_false]
              refine ⟨fun r h' hr => ?_, fun e hr => by simp at hr⟩
              simp only [Except.ok.injEq, Prod.mk.injEq] at hr
              obtain ⟨rfl, rfl⟩ := hr
              refine ⟨rfl, p2.trans (grows_append _ _), ?_, ?_⟩
              · intro hrv
                obtain ⟨_, n', hn', hor⟩ := hrv
                simp only [Option.some.injEq] at hn'
                subst hn'
                rcases hor with h1 | ⟨k', hk', hk0⟩
                · simp at h1
                · rw [hk] at hk'
                  simp only [Option.some.injEq] at hk'
                  subst hk'
                  exact absurd hk0 hc0
              · intro _ e he
                simp only [List.mem_singleton] at he
                subst he
                exact p2.1
    | none =>
      have hcv := copyArr_view w.heap a
      have hcg := copyArr_grows w.heap a
      have hnv : ¬ returnsView w none c := fun hh => by
        obtain ⟨_, n, hn, _⟩ := hh
        simp at hn
      have hfields : mapV (w.heap.copyArr a).2.cell (w.heap.copyArr a).1.fields = (viewLayer w.heap a).fields := by
        have := congrArg Layer.fields hcv
        exact this
      cases c with
      | false =>
        simp only [Bool.false_eq_true, if_false, readLayerE]
        refine ⟨fun r h' hr => ?_, fun e hr => by simp at hr⟩
        simp only [Except.ok.injEq, Prod.mk.injEq] at hr
        obtain ⟨rfl, rfl⟩ := hr
        refine ⟨?_, hcg, fun hh => absurd hh hnv, fun _ => copyArr_fresh _ _⟩
        simp only [Except.ok.injEq]
        rw [← hfields]
        simp [mapV, List.map_map, Function.comp_def]
      | true =>
        simp only [if_true, readLayerE]
        obtain ⟨hok, herr⟩ := calibrateCells_spec (w.heap.dict w.laser.cal) (w.heap.copyArr a).1.fields
          (w.heap.copyArr a).2 (copyArr_ids_nodup _ _)
        have hvd : viewDict (w.heap.copyArr a).2 (w.heap.dict w.laser.cal) = (view w).cal := by
          rw [hcal]
          exact viewDict_congr (fun e _ => hcg.calOf e.2)
        rw [hvd, hfields] at hok herr
        cases hcc : calibrateCells (w.heap.dict w.laser.cal) (w.heap.copyArr a).1.fields (w.heap.copyArr a).2 with
        | error e =>
          refine ⟨fun r h' hr => by simp at hr, fun e' hr => ?_⟩
          simp only [Except.error.injEq] at hr
          subst hr
          exact herr e hcc
        | ok q =>
          obtain ⟨out, h2⟩ := q
          refine ⟨fun r h' hr => ?_, fun e hr => by simp at hr⟩
          simp only [Except.ok.injEq, Prod.mk.injEq] at hr
          obtain ⟨rfl, rfl⟩ := hr
          obtain ⟨i1, i2, i3, i4, i5, i6, i7⟩ := hok out h2 hcc
          refine ⟨i1, ?_, fun hh => absurd hh hnv, fun _ => copyArr_fresh _ _⟩
          refine ⟨by rw [i2]; exact hcg.1, ?_, i4.trans hcg.2.2.1, i5.trans hcg.2.2.2.1, i6.trans hcg.2.2.2.2.1,
            i7.trans hcg.2.2.2.2.2⟩
          intro i hi
          rw [i3 i, hcg.2.1 i hi]
          intro hmem
          obtain ⟨e, he, hei⟩ := List.mem_map.1 hmem
          have := copyArr_fresh w.heap a e he
          omega

/-! ## one call -/

theorem view_grows {w : World} (hv : Valid w) {h' : Heap} (hg : Grows w.heap h') :
    view ⟨h', w.laser⟩ = view w ∧ Valid ⟨h', w.laser⟩ := by
  refine ⟨?_, ?_⟩
  · apply State.ext'
    · rfl
    · exact hg.viewLayers hv.data_ok
    · show viewDict h' (h'.dict w.laser.cal) = _
      rw [hg.dict]
      exact viewDict_congr (fun e _ => hg.calOf e.2)
    · show (h'.cfgOf w.laser.cfg).scal = _
      rw [hg.cfgOf]; rfl
  · refine ⟨by show w.laser.cal < h'.dicts.length; rw [hg.2.2.2.2.2]; exact hv.dict_lt, ?_,
      by show w.laser.cfg < h'.cfgs.length; rw [hg.2.2.2.1]; exact hv.cfg_lt,
      fun a ha => (hv.data_ok a ha).mono hg⟩
    show ∀ e ∈ h'.dict w.laser.cal, e.2 < h'.cals.length
    rw [hg.dict, hg.2.2.1]
    exact hv.cal_lt

theorem hstep_view' (w : World) (hv : Valid w) (op : HOp) (ha : ArgsOK w.heap op) (hc : op.isCall = true) :
    (hstep w op).map view = stepE (view w) (absOp w.heap op) ∧ Valid (hstep w op).state := by
  cases op with
  | add n xs cal => exact hAdd_view w hv n xs cal ha.1 ha.2
  | remove ns => exact hRemove_view w hv ns
  | rename m => exact hRename_view w hv m
  | get layer t c =>
    obtain ⟨hok, herr⟩ := hGet_spec w hv layer t c
    simp only [hstep, stepE, absOp]
    cases hg : hGet w layer t c with
    | error e =>
      simp only [herr e hg, Res.map, Res.state]
      exact ⟨trivial, hv⟩
    | ok q =>
      obtain ⟨r, h'⟩ := q
      obtain ⟨h1, h2, _, _⟩ := hok r h' hg
      obtain ⟨v1, v2⟩ := view_grows hv h2
      simp only [h1, Res.map, Res.state]
      exact ⟨by rw [show ({ w with heap := h' } : World) = ⟨h', w.laser⟩ from rfl, v1], v2⟩
  | setCal k c => simp [HOp.isCall] at hc
  | setCfg k c => simp [HOp.isCall] at hc
  | setOffsets k c => simp [HOp.isCall] at hc
  | writeOffsets o c => simp [HOp.isCall] at hc
  | setDict k d => simp [HOp.isCall] at hc
  | writeCell i c => simp [HOp.isCall] at hc

/-! ## what a call keeps -/

/-- the `Calibration` a call was handed -/
def HOp.passed : HOp → Option Nat
  | .add _ _ cal => cal
  | _ => none

/-- old cells and old `Calibration` objects keep their content, nothing shrinks; the laser's dict is the old
one or a new one; every `Calibration` it references was referenced before, is new, or is the one handed in -/
def Keeps (pc : Option Nat) (w w' : World) : Prop :=
  w.heap.cells.length ≤ w'.heap.cells.length ∧ (∀ i, i < w.heap.cells.length → w'.heap.cell i = w.heap.cell i) ∧
  w.heap.cals.length ≤ w'.heap.cals.length ∧ (∀ k, k < w.heap.cals.length → w'.heap.calOf k = w.heap.calOf k) ∧
  w.heap.dicts.length ≤ w'.heap.dicts.length ∧ w.heap.cfgs.length ≤ w'.heap.cfgs.length ∧
  (w'.laser.cal = w.laser.cal ∨ w.heap.dicts.length ≤ w'.laser.cal) ∧
  (∀ e ∈ w'.heap.dict w'.laser.cal,
    (∃ e' ∈ w.heap.dict w.laser.cal, e'.2 = e.2) ∨ w.heap.cals.length ≤ e.2 ∨ pc = some e.2) ∧
  w'.laser.cfg = w.laser.cfg

theorem Keeps.of_grows {pc : Option Nat} {w : World} {h' : Heap} {l : List Arr} (hg : Grows w.heap h') :
    Keeps pc w ⟨h', { w.laser with data := l }⟩ := by
  refine ⟨hg.1, fun i hi => hg.cell hi, Nat.le_of_eq (by rw [hg.2.2.1]), fun k _ => hg.calOf k,
    Nat.le_of_eq (by rw [hg.2.2.2.2.2]), Nat.le_of_eq (by rw [hg.2.2.2.1]), Or.inl rfl, ?_, rfl⟩
  intro e he
  rw [show (⟨h', { w.laser with data := l }⟩ : World).heap.dict _ = h'.dict w.laser.cal from rfl, hg.dict] at he
  exact Or.inl ⟨e, he, rfl⟩

theorem rebuildDict_values (m : NameMap) (d : Dict) {e : Name × Nat} (he : e ∈ rebuildDict d m) :
    ∃ e' ∈ d, e'.2 = e.2 := by
  unfold rebuildDict at he
  have gen : ∀ (l acc : Dict), e ∈ l.foldl (fun acc e => dictSet acc (sub m e.1) e.2) acc →
      (∃ e' ∈ l, e'.2 = e.2) ∨ e ∈ acc := by
    intro l
    induction l with
    | nil => intro acc h; exact Or.inr h
    | cons x r ih =>
      intro acc h
      simp only [List.foldl_cons] at h
      rcases ih _ h with ⟨e', he', h1⟩ | h1
      · exact Or.inl ⟨e', by simp [he'], h1⟩
      · rcases mem_dictSet h1 with h2 | h2
        · exact Or.inr h2
        · exact Or.inl ⟨x, by simp, by rw [h2]⟩
  rcases gen _ _ he with h1 | h1
  · exact h1
  · simp at h1

theorem hstep_keeps (w : World) (hv : Valid w) (op : HOp) (ha : ArgsOK w.heap op) (hc : op.isCall = true) :
    Keeps op.passed w (hstep w op).state := by
  cases op with
  | add n xs cal =>
    simp only [hstep, HOp.passed]
    unfold hAdd
    split
    · exact Keeps.of_grows (l := w.laser.data) (Grows.refl _)
    · cases hE : hAddLayers n w.laser.data xs w.heap with
      | error q =>
        obtain ⟨e, ls, h⟩ := q
        obtain ⟨_, hg, _⟩ := hAddLayers_error n _ _ _ _ _ _ hv.data_ok ha.1 hE
        exact Keeps.of_grows hg
      | ok q =>
        obtain ⟨ls, h⟩ := q
        obtain ⟨_, hg, _, _⟩ := hAddLayers_ok n _ _ _ _ _ hv.data_ok ha.1 hE
        have hdl : w.laser.cal < h.dicts.length := by rw [hg.2.2.2.2.2]; exact hv.dict_lt
        have hd : ∀ e ∈ h.dict w.laser.cal, e.2 < h.cals.length := by
          rw [hg.dict, hg.2.2.1]; exact hv.cal_lt
        have hcal' : ∀ k, cal = some k → k < h.cals.length := by rw [hg.2.2.1]; exact ha.2
        obtain ⟨s1, s2, _, s4, s5, s6, _, _, s9, _⟩ := storeCal_spec h w.laser.cal n cal hdl hd hcal'
        simp only [Res.state]
        refine ⟨by show _ ≤ (h.storeCal w.laser.cal n cal).cells.length; rw [s1]; exact hg.1, ?_,
          by show _ ≤ (h.storeCal w.laser.cal n cal).cals.length; rw [← hg.2.2.1]; exact s5, ?_,
          Nat.le_of_eq (by show _ = (h.storeCal w.laser.cal n cal).dicts.length; rw [s4, hg.2.2.2.2.2]),
          Nat.le_of_eq (by show _ = (h.storeCal w.laser.cal n cal).cfgs.length; rw [s2, hg.2.2.2.1]), Or.inl rfl, ?_, rfl⟩
        · intro i hi
          show (h.storeCal w.laser.cal n cal).cell i = _
          unfold Heap.cell
          rw [s1]
          exact hg.cell hi
        · intro k hk
          show (h.storeCal w.laser.cal n cal).calOf k = _
          rw [s6 k (by rw [hg.2.2.1]; exact hk), hg.calOf]
        · intro e he
          rcases s9 e he with h1 | h1
          · rw [hg.dict] at h1
            exact Or.inl ⟨e, h1, rfl⟩
          · cases cal with
            | none =>
              right; left
              rw [h1]
              simp [hg.2.2.1]
            | some k =>
              right; right
              rw [h1]
              rfl
  | remove ns =>
    simp only [hstep, HOp.passed]
    have hspec := hDropLayers_spec ns w.laser.data w.heap hv.data_ok
    unfold hRemove
    rcases hD : hDropLayers ns w.laser.data w.heap with ⟨dl, dh⟩
    rw [hD] at hspec
    obtain ⟨_, hg, _, _⟩ := hspec
    simp only at hg ⊢
    have hdl : w.laser.cal < dh.dicts.length := by rw [hg.2.2.2.2.2]; exact hv.dict_lt
    have key : Keeps none w ⟨⟨dh.cells, dh.cals, dh.cfgs, dh.offs,
        dh.dicts.set w.laser.cal (popAllE (dh.dict w.laser.cal) ns).1⟩, ⟨w.laser.srr, dl, w.laser.cal, w.laser.cfg⟩⟩ := by
      refine ⟨hg.1, fun i hi => hg.cell hi, Nat.le_of_eq (by show _ = dh.cals.length; rw [hg.2.2.1]), fun k _ => hg.calOf k,
        Nat.le_of_eq (by show _ = (List.set _ _ _).length; rw [List.length_set, hg.2.2.2.2.2]),
        Nat.le_of_eq (by show _ = dh.cfgs.length; rw [hg.2.2.2.1]), Or.inl rfl, ?_, rfl⟩
      intro e he
      rw [dict_set_self _ hdl, hg.dict] at he
      exact Or.inl ⟨e, popAllE_subset ns _ e he, rfl⟩
    split <;> exact key
  | rename m =>
    simp only [hstep, HOp.passed]
    unfold hRename
    cases hE : renameLayersE m w.laser.data with
    | error p =>
      obtain ⟨e, ls⟩ := p
      exact Keeps.of_grows (Grows.refl _)
    | ok ls =>
      simp only [Res.state, Heap.allocDict]
      refine ⟨Nat.le_refl _, fun _ _ => rfl, Nat.le_refl _, fun _ _ => rfl,
        by show _ ≤ (w.heap.dicts ++ [_]).length; simp, Nat.le_refl _, Or.inr (Nat.le_refl _), ?_, rfl⟩
      intro e he
      have hdict : (⟨w.heap.cells, w.heap.cals, w.heap.cfgs, w.heap.offs,
          w.heap.dicts ++ [rebuildDict (w.heap.dict w.laser.cal) m]⟩ : Heap).dict w.heap.dicts.length
          = rebuildDict (w.heap.dict w.laser.cal) m := by
        unfold Heap.dict
        simp
      have he' : e ∈ rebuildDict (w.heap.dict w.laser.cal) m := by rw [← hdict]; exact he
      exact Or.inl (rebuildDict_values m _ he')
  | get layer t c =>
    simp only [hstep, HOp.passed]
    obtain ⟨hok, _⟩ := hGet_spec w hv layer t c
    cases hg : hGet w layer t c with
    | error e => exact Keeps.of_grows (l := w.laser.data) (Grows.refl _)
    | ok q =>
      obtain ⟨r, h'⟩ := q
      obtain ⟨_, h2, _, _⟩ := hok r h' hg
      exact Keeps.of_grows (l := w.laser.data) h2
  | setCal k c => simp [HOp.isCall] at hc
  | setCfg k c => simp [HOp.isCall] at hc
  | setOffsets k c => simp [HOp.isCall] at hc
  | writeOffsets o c => simp [HOp.isCall] at hc
  | setDict k d => simp [HOp.isCall] at hc
  | writeCell i c => simp [HOp.isCall] at hc

/-! ## separation and histories -/

theorem Sep.of_keeps {F : Foreign} {pc : Option Nat} {w w' : World} (hs : Sep F w) (hk : Keeps pc w w')
    (hpc : ∀ k, pc = some k → k ∉ F.cals) : Sep F w' := by
  obtain ⟨b1, b2, b3, s1, s2, s3⟩ := hs
  obtain ⟨_, _, k3, _, k5, k6, k7, k8, k9⟩ := hk
  refine ⟨fun k hk => Nat.lt_of_lt_of_le (b1 k hk) k3, fun k hk => Nat.lt_of_lt_of_le (b2 k hk) k5,
    fun k hk => Nat.lt_of_lt_of_le (b3 k hk) k6, ?_, ?_, by rw [k9]; exact s3⟩
  · rcases k7 with h | h
    · rw [h]; exact s1
    · intro hm
      have := b2 _ hm
      omega
  · intro e he hm
    rcases k8 e he with ⟨e', he', h1⟩ | h1 | h1
    · exact s2 e' he' (h1 ▸ hm)
    · have := b1 _ hm
      omega
    · exact hpc _ h1 hm

/-- memory the history started with: its cells, and its `Calibration` objects other than the foreign ones,
still hold what they held -/
def Stable (F : Foreign) (h0 h : Heap) : Prop :=
  h0.cells.length ≤ h.cells.length ∧ (∀ i, i < h0.cells.length → h.cell i = h0.cell i) ∧
  h0.cals.length ≤ h.cals.length ∧ (∀ k, k < h0.cals.length → k ∉ F.cals → h.calOf k = h0.calOf k)

theorem Stable.of_keeps {F : Foreign} {pc : Option Nat} {h0 : Heap} {w w' : World} (hs : Stable F h0 w.heap)
    (hk : Keeps pc w w') : Stable F h0 w'.heap := by
  obtain ⟨a1, a2, a3, a4⟩ := hs
  obtain ⟨k1, k2, k3, k4, _⟩ := hk
  exact ⟨Nat.le_trans a1 k1, fun i hi => (k2 i (Nat.lt_of_lt_of_le hi a1)).trans (a2 i hi), Nat.le_trans a3 k3,
    fun k hk hn => (k4 k (Nat.lt_of_lt_of_le hk a3)).trans (a4 k hk hn)⟩

theorem Allowed.argsOK {F : Foreign} {h0 h : Heap} {op : HOp} (hs : Stable F h0 h) (ha : Allowed F h0 op) :
    ArgsOK h op := by
  cases op with
  | add n xs cal =>
    exact ⟨fun x hx => Nat.lt_of_lt_of_le (ha.1 x hx) hs.1, fun k hk => Nat.lt_of_lt_of_le (ha.2 k hk).1 hs.2.2.1⟩
  | _ => trivial

theorem Allowed.absOp_eq {F : Foreign} {h0 h : Heap} {op : HOp} (hs : Stable F h0 h) (ha : Allowed F h0 op) :
    absOp h op = absOp h0 op := by
  cases op with
  | add n xs cal =>
    simp only [absOp]
    congr 1
    · apply List.map_congr_left
      intro x hx
      rw [hs.2.1 x.2 (ha.1 x hx)]
    · cases cal with
      | none => rfl
      | some k =>
        obtain ⟨h1, h2⟩ := ha.2 k rfl
        simp only [Option.map_some, Option.getD_some]
        exact hs.2.2.2 k h1 h2
  | _ => rfl

theorem Allowed.passed_not_foreign {F : Foreign} {h0 : Heap} {op : HOp} (ha : Allowed F h0 op) :
    ∀ k, op.passed = some k → k ∉ F.cals := by
  cases op with
  | add n xs cal => exact fun k hk => (ha.2 k hk).2
  | _ => intro k hk; simp [HOp.passed] at hk

/-- an edit of a foreign object by its holder: the laser does not see it -/
theorem foreign_edit {F : Foreign} {h0 : Heap} {w : World} (hv : Valid w) (hs : Sep F w) (hst : Stable F h0 w.heap)
    {op : HOp} (ha : Allowed F h0 op) (hc : op.isCall = false) :
    ∃ w', hstep w op = .ok w' ∧ view w' = view w ∧ w'.laser = w.laser ∧ Valid w' ∧ Sep F w' ∧ Stable F h0 w'.heap := by
  obtain ⟨b1, b2, b3, s1, s2, s3⟩ := hs
  obtain ⟨v1, v2, v3, v4⟩ := hv
  cases op with
  | add n xs cal => simp [HOp.isCall] at hc
  | remove ns => simp [HOp.isCall] at hc
  | rename m => simp [HOp.isCall] at hc
  | get layer t c => simp [HOp.isCall] at hc
  | setCal k c =>
    have hk : k ∈ F.cals := ha
    have hne : ∀ e ∈ w.heap.dict w.laser.cal, (w.heap.cals.set k c)[e.2]? = w.heap.cals[e.2]? :=
      fun e he => List.getElem?_set_ne (fun (hh : k = e.2) => s2 e he (hh ▸ hk))
    refine ⟨_, rfl, ?_, rfl, ⟨v1, ?_, v3, v4⟩, ⟨?_, b2, b3, s1, s2, s3⟩, ?_⟩
    · apply State.ext'
      · rfl
      · rfl
      · exact mapV_congr (fun e he => by
          show ((w.heap.cals.set k c)[e.2]?).getD 0 = (w.heap.cals[e.2]?).getD 0
          rw [hne e he])
      · rfl
    · intro e he
      show e.2 < (w.heap.cals.set k c).length
      rw [List.length_set]; exact v2 e he
    · intro j hj
      show j < (w.heap.cals.set k c).length
      rw [List.length_set]; exact b1 j hj
    · obtain ⟨a1, a2, a3, a4⟩ := hst
      refine ⟨a1, a2, by show _ ≤ (w.heap.cals.set k c).length; rw [List.length_set]; exact a3, ?_⟩
      intro j hj hn
      show ((w.heap.cals.set k c)[j]?).getD 0 = _
      rw [List.getElem?_set_ne (fun (hh : k = j) => hn (hh ▸ hk))]
      exact a4 j hj hn
  | setCfg k c =>
    have hk : k ∈ F.cfgs := ha
    have hne : k ≠ w.laser.cfg := fun hh => s3 (hh ▸ hk)
    refine ⟨_, rfl, ?_, rfl, ⟨v1, v2, by show _ < (List.set _ _ _).length; rw [List.length_set]; exact v3, v4⟩,
      ⟨b1, b2, fun j hj => by show j < (List.set _ _ _).length; rw [List.length_set]; exact b3 j hj, s1, s2, s3⟩, hst⟩
    apply State.ext'
    · rfl
    · rfl
    · rfl
    · show (Heap.cfgOf _ w.laser.cfg).scal = _
      unfold Heap.cfgOf
      simp only [List.getElem?_set_ne hne]
      rfl
  | setOffsets k c =>
    have hk : k ∈ F.cfgs := ha
    have hne : k ≠ w.laser.cfg := fun hh => s3 (hh ▸ hk)
    refine ⟨_, rfl, ?_, rfl, ⟨v1, v2, by show _ < (List.set _ _ _).length; rw [List.length_set]; exact v3, v4⟩,
      ⟨b1, b2, fun j hj => by show j < (List.set _ _ _).length; rw [List.length_set]; exact b3 j hj, s1, s2, s3⟩, hst⟩
    apply State.ext'
    · rfl
    · rfl
    · rfl
    · show (Heap.cfgOf _ w.laser.cfg).scal = _
      unfold Heap.cfgOf Heap.allocOffs
      simp only [List.getElem?_set_ne hne]
      rfl
  | writeOffsets o c =>
    exact ⟨_, rfl, rfl, rfl, ⟨v1, v2, v3, v4⟩, ⟨b1, b2, b3, s1, s2, s3⟩, hst⟩
  | setDict k d =>
    have hk : k ∈ F.dicts := ha
    have hne : k ≠ w.laser.cal := fun hh => s1 (hh ▸ hk)
    have hd : (⟨w.heap.cells, w.heap.cals, w.heap.cfgs, w.heap.offs, w.heap.dicts.set k d⟩ : Heap).dict w.laser.cal
        = w.heap.dict w.laser.cal := by
      unfold Heap.dict
      simp only [List.getElem?_set_ne hne]
    refine ⟨_, rfl, ?_, rfl, ⟨by show _ < (List.set _ _ _).length; rw [List.length_set]; exact v1, ?_, v3, v4⟩,
      ⟨b1, fun j hj => by show j < (List.set _ _ _).length; rw [List.length_set]; exact b2 j hj, b3, s1, ?_, s3⟩, hst⟩
    · apply State.ext'
      · rfl
      · rfl
      · show viewDict _ (Heap.dict _ w.laser.cal) = _
        rw [hd]; rfl
      · rfl
    · intro e he
      rw [hd] at he
      exact v2 e he
    · intro e he
      rw [hd] at he
      exact s2 e he
  | writeCell i c => exact absurd ha (by simp [Allowed])

theorem history_view' (F : Foreign) (h0 : Heap) : ∀ (ops : List HOp) (w w' : World), Valid w → Sep F w →
    Stable F h0 w.heap → (∀ op ∈ ops, Allowed F h0 op) → hrun w ops = some w' →
    run (view w) (ops.map (absOp h0)) = some (view w') ∧ Valid w' ∧ Sep F w' := by
  intro ops
  induction ops with
  | nil =>
    intro w w' hv hs _ _ hr
    simp only [hrun, Option.some.injEq] at hr
    subst hr
    exact ⟨rfl, hv, hs⟩
  | cons op r ih =>
    intro w w' hv hs hst hall hr
    have ha : Allowed F h0 op := hall op (by simp)
    have hall' : ∀ o ∈ r, Allowed F h0 o := fun o ho => hall o (by simp [ho])
    simp only [hrun] at hr
    simp only [List.map_cons, run]
    cases hc : op.isCall with
    | true =>
      have hargs := Allowed.argsOK hst ha
      obtain ⟨h1, h2⟩ := hstep_view' w hv op hargs hc
      have hk := hstep_keeps w hv op hargs hc
      rw [Allowed.absOp_eq hst ha] at h1
      cases hstp : hstep w op with
      | fail e w1 => rw [hstp] at hr; simp at hr
      | ok w1 =>
        rw [hstp] at hr h1 h2 hk
        simp only [Res.map, Res.state] at h1 h2 hk
        have hstep' : step (view w) (absOp h0 op) = some (view w1) := by
          rw [← stepE_toOption, ← h1]; rfl
        rw [hstep']
        exact ih w1 w' h2 (hs.of_keeps hk (Allowed.passed_not_foreign ha)) (hst.of_keeps hk) hall' hr
    | false =>
      obtain ⟨w1, e1, e2, _, e4, e5, e6⟩ := foreign_edit hv hs hst ha hc
      rw [e1] at hr
      have habs : absOp h0 op = .callerEdit := by
        cases op <;> simp_all [HOp.isCall, absOp]
      rw [habs]
      simp only [step]
      rw [← e2]
      exact ih w1 w' e4 e5 e6 hall' hr

/-! ## constructors -/

/-- only new `Calibration` objects appear -/
def GrowsC (h h' : Heap) : Prop :=
  h'.cells = h.cells ∧ h.cals.length ≤ h'.cals.length ∧ (∀ i, i < h.cals.length → h'.cals[i]? = h.cals[i]?) ∧
  h'.cfgs = h.cfgs ∧ h'.offs = h.offs ∧ h'.dicts = h.dicts

theorem GrowsC.refl (h : Heap) : GrowsC h h := ⟨rfl, Nat.le_refl _, fun _ _ => rfl, rfl, rfl, rfl⟩

theorem GrowsC.trans {a b c : Heap} (h1 : GrowsC a b) (h2 : GrowsC b c) : GrowsC a c :=
  ⟨h2.1.trans h1.1, Nat.le_trans h1.2.1 h2.2.1,
   fun i hi => (h2.2.2.1 i (Nat.lt_of_lt_of_le hi h1.2.1)).trans (h1.2.2.1 i hi),
   h2.2.2.2.1.trans h1.2.2.2.1, h2.2.2.2.2.1.trans h1.2.2.2.2.1, h2.2.2.2.2.2.trans h1.2.2.2.2.2⟩

theorem GrowsC.calOf {h h' : Heap} (g : GrowsC h h') {i : Nat} (hi : i < h.cals.length) : h'.calOf i = h.calOf i := by
  unfold Heap.calOf; rw [g.2.2.1 i hi]

theorem growsC_alloc (h : Heap) (c : Nat) : GrowsC h (h.allocCal c).2 :=
  ⟨rfl, by simp [Heap.allocCal], fun i hi => List.getElem?_append_left hi, rfl, rfl, rfl⟩

theorem GrowsC.viewDict {h h' : Heap} (g : GrowsC h h') {d : IdDict} (hd : ∀ e ∈ d, e.2 < h.cals.length) :
    viewDict h' d = viewDict h d := viewDict_congr (fun e he => g.calOf (hd e he))

theorem allocCal_calOf_new (h : Heap) (c : Nat) : (h.allocCal c).2.calOf h.cals.length = c := by
  unfold Heap.allocCal Heap.calOf
  simp

theorem allocDefaults_spec : ∀ (ns : List Name) (d : IdDict) (h : Heap), (∀ e ∈ d, e.2 < h.cals.length) →
    viewDict (allocDefaults ns d h).2 (allocDefaults ns d h).1 = ns.foldl (fun acc n => dictSet acc n 0) (viewDict h d) ∧
    GrowsC h (allocDefaults ns d h).2 ∧
    (∀ e ∈ (allocDefaults ns d h).1, e.2 < (allocDefaults ns d h).2.cals.length) ∧
    (∀ e ∈ (allocDefaults ns d h).1, e ∈ d ∨ h.cals.length ≤ e.2) := by
  intro ns
  induction ns with
  | nil => intro d h hd; exact ⟨rfl, GrowsC.refl _, hd, fun e he => Or.inl he⟩
  | cons n t ih =>
    intro d h hd
    simp only [allocDefaults, List.foldl_cons]
    have hg := growsC_alloc h 0
    have hd' : ∀ e ∈ dictSet d n h.cals.length, e.2 < (h.allocCal 0).2.cals.length := by
      intro e he
      show e.2 < (h.cals ++ [0]).length
      rcases mem_dictSet he with h1 | h1
      · have := hd e h1; simp; omega
      · subst h1; simp
    obtain ⟨i1, i2, i3, i4⟩ := ih (dictSet d n h.cals.length) (h.allocCal 0).2 hd'
    refine ⟨?_, hg.trans i2, i3, ?_⟩
    · rw [i1]
      congr 1
      unfold viewDict
      rw [mapV_dictSet, allocCal_calOf_new]
      congr 1
      exact hg.viewDict hd
    · intro e he
      rcases i4 e he with h1 | h1
      · rcases mem_dictSet h1 with h2 | h2
        · exact Or.inl h2
        · right; rw [h2]; exact Nat.le_refl _
      · right
        have : h.cals.length ≤ (h.allocCal 0).2.cals.length := hg.2.1
        omega

theorem lookup_mem {memo : List (Nat × Nat)} {k v : Nat} (h : memo.lookup k = some v) : (k, v) ∈ memo := by
  induction memo with
  | nil => simp at h
  | cons p r ih =>
    obtain ⟨a, b⟩ := p
    simp only [List.lookup_cons] at h
    by_cases hk : k = a
    · subst hk
      simp only [beq_self_eq_true, Option.some.injEq] at h
      subst h; simp
    · have : (k == a) = false := by simp [hk]
      rw [this] at h
      simp [ih h]

theorem deepcopyEntries_spec (h0 : Heap) : ∀ (g : IdDict) (memo : List (Nat × Nat)) (out : IdDict) (h : Heap),
    (∀ e ∈ g, e.2 < h0.cals.length) → GrowsC h0 h →
    (∀ p ∈ memo, p.1 < h0.cals.length ∧ h0.cals.length ≤ p.2 ∧ p.2 < h.cals.length ∧ h.calOf p.2 = h0.calOf p.1) →
    (∀ e ∈ out, h0.cals.length ≤ e.2 ∧ e.2 < h.cals.length) →
    viewDict (deepcopyEntries g memo out h).2 (deepcopyEntries g memo out h).1 = viewDict h out ++ viewDict h0 g ∧
    GrowsC h (deepcopyEntries g memo out h).2 ∧
    (∀ e ∈ (deepcopyEntries g memo out h).1, h0.cals.length ≤ e.2 ∧ e.2 < (deepcopyEntries g memo out h).2.cals.length) := by
  intro g
  induction g with
  | nil =>
    intro memo out h _ _ _ hout
    simp only [deepcopyEntries, viewDict, mapV_nil, List.append_nil]
    exact ⟨trivial, GrowsC.refl _, hout⟩
  | cons e r ih =>
    intro memo out h hg hgr hmemo hout
    have hgr' : ∀ x ∈ r, x.2 < h0.cals.length := fun x hx => hg x (by simp [hx])
    simp only [deepcopyEntries]
    cases hl : memo.lookup e.2 with
    | some id =>
      obtain ⟨m1, m2, m3, m4⟩ := hmemo _ (lookup_mem hl)
      have hout' : ∀ x ∈ out ++ [(e.1, id)], h0.cals.length ≤ x.2 ∧ x.2 < h.cals.length := by
        intro x hx
        rcases List.mem_append.1 hx with h1 | h1
        · exact hout x h1
        · simp only [List.mem_singleton] at h1; subst h1; exact ⟨m2, m3⟩
      obtain ⟨i1, i2, i3⟩ := ih memo (out ++ [(e.1, id)]) h hgr' hgr hmemo hout'
      refine ⟨?_, i2, i3⟩
      rw [i1]
      simp only [viewDict, mapV_append, mapV_cons, mapV_nil, List.append_assoc, List.singleton_append]
      rw [show h.calOf id = h0.calOf e.2 from m4]
    | none =>
      have he : e.2 < h0.cals.length := hg e (by simp)
      have hga := growsC_alloc h (h.calOf e.2)
      have hnew : (h.allocCal (h.calOf e.2)).2.calOf h.cals.length = h0.calOf e.2 := by
        rw [allocCal_calOf_new, hgr.calOf he]
      have hlen : (h.allocCal (h.calOf e.2)).2.cals.length = h.cals.length + 1 := by simp [Heap.allocCal]
      have hmemo' : ∀ p ∈ (e.2, h.cals.length) :: memo, p.1 < h0.cals.length ∧ h0.cals.length ≤ p.2 ∧
          p.2 < (h.allocCal (h.calOf e.2)).2.cals.length ∧ (h.allocCal (h.calOf e.2)).2.calOf p.2 = h0.calOf p.1 := by
        intro p hp
        rcases List.mem_cons.1 hp with h1 | h1
        · subst h1
          exact ⟨he, hgr.2.1, by rw [hlen]; omega, hnew⟩
        · obtain ⟨m1, m2, m3, m4⟩ := hmemo p h1
          exact ⟨m1, m2, by rw [hlen]; omega, by rw [hga.calOf m3]; exact m4⟩
      have hout' : ∀ x ∈ out ++ [(e.1, h.cals.length)], h0.cals.length ≤ x.2 ∧
          x.2 < (h.allocCal (h.calOf e.2)).2.cals.length := by
        intro x hx
        rcases List.mem_append.1 hx with h1 | h1
        · have := hout x h1; exact ⟨this.1, by rw [hlen]; omega⟩
        · simp only [List.mem_singleton] at h1; subst h1; exact ⟨hgr.2.1, by rw [hlen]; omega⟩
      obtain ⟨i1, i2, i3⟩ := ih ((e.2, h.cals.length) :: memo) (out ++ [(e.1, h.cals.length)])
        (h.allocCal (h.calOf e.2)).2 hgr' (hgr.trans hga) hmemo' hout'
      refine ⟨?_, hga.trans i2, i3⟩
      rw [i1]
      simp only [viewDict, mapV_append, mapV_cons, mapV_nil, List.append_assoc, List.singleton_append]
      rw [hnew]
      congr 1
      exact mapV_congr (fun x hx => hga.calOf (hout x hx).2)

theorem mem_foldl_dictSet {e : Name × Nat} : ∀ (l acc : Dict),
    e ∈ l.foldl (fun acc e => dictSet acc e.1 e.2) acc → e ∈ l ∨ e ∈ acc := by
  intro l
  induction l with
  | nil => intro acc h; exact Or.inr h
  | cons x r ih =>
    intro acc h
    simp only [List.foldl_cons] at h
    rcases ih _ h with h1 | h1
    · exact Or.inl (by simp [h1])
    · rcases mem_dictSet h1 with h2 | h2
      · exact Or.inr h2
      · exact Or.inl (by simp [h2])

theorem conCal_spec (h : Heap) (els : List Name) (given : Option Nat)
    (hg : ∀ g, given = some g → ∀ e ∈ h.dict g, e.2 < h.cals.length) :
    viewDict (conCal h els given).2 (conCal h els given).1 =
      initCal els (given.map (fun g => viewDict h (h.dict g))) ∧
    GrowsC h (conCal h els given).2 ∧
    (∀ e ∈ (conCal h els given).1, h.cals.length ≤ e.2 ∧ e.2 < (conCal h els given).2.cals.length) := by
  obtain ⟨d1, d2, d3, d4⟩ := allocDefaults_spec els [] h (by simp)
  have d4' : ∀ e ∈ (allocDefaults els [] h).1, h.cals.length ≤ e.2 := by
    intro e he
    rcases d4 e he with h1 | h1
    · simp at h1
    · exact h1
  cases given with
  | none =>
    simp only [conCal, initCal, Option.map_none]
    exact ⟨d1, d2, fun e he => ⟨d4' e he, d3 e he⟩⟩
  | some g =>
    simp only [conCal, initCal, Option.map_some]
    have hdg : (allocDefaults els [] h).2.dict g = h.dict g := by unfold Heap.dict; rw [d2.2.2.2.2.2]
    rw [hdg]
    obtain ⟨c1, c2, c3⟩ := deepcopyEntries_spec (allocDefaults els [] h).2 (h.dict g) [] [] (allocDefaults els [] h).2
      (fun e he => Nat.lt_of_lt_of_le (hg g rfl e he) d2.2.1) (GrowsC.refl _) (by simp) (by simp)
    refine ⟨?_, d2.trans c2, ?_⟩
    · unfold viewDict at c1 ⊢
      have := mapV_foldl_dictSet (deepcopyEntries (h.dict g) [] [] (allocDefaults els [] h).2).2.calOf id
        (deepcopyEntries (h.dict g) [] [] (allocDefaults els [] h).2).1 (allocDefaults els [] h).1
      simp only [id] at this
      rw [this, c1]
      simp only [mapV_nil, List.nil_append]
      have e1 : mapV (deepcopyEntries (h.dict g) [] [] (allocDefaults els [] h).2).2.calOf (allocDefaults els [] h).1
          = List.foldl (fun acc n => dictSet acc n 0) [] els := by
        have d1' : viewDict (allocDefaults els [] h).2 (allocDefaults els [] h).1 =
            List.foldl (fun acc n => dictSet acc n 0) [] els := d1
        rw [← d1']
        exact c2.viewDict d3
      have e2 : mapV (allocDefaults els [] h).2.calOf (h.dict g) = mapV h.calOf (h.dict g) :=
        d2.viewDict (hg g rfl)
      rw [e1, e2]
    · intro e he
      rcases mem_foldl_dictSet _ _ he with h1 | h1
      · have := c3 e h1
        exact ⟨Nat.le_trans d2.2.1 this.1, this.2⟩
      · exact ⟨d4' e h1, Nat.lt_of_lt_of_le (d3 e h1) c2.2.1⟩

theorem elementsOf_viewLayers (h : Heap) (data : List Arr) : elementsOf (data.map (viewLayer h)) = elementsOf data := by
  cases data with
  | nil => rfl
  | cons a t => simp [elementsOf, viewLayer]

theorem hConstruct_spec (h : Heap) (srr : Bool) (data : List Arr) (given config : Option Nat) (w : World)
    (hd : ∀ a ∈ data, ArrOK h a) (hg : ∀ g, given = some g → ∀ e ∈ h.dict g, e.2 < h.cals.length)
    (hw : hConstruct h srr data given config = some w) :
    view w = mkState srr (data.map (viewLayer h)) (given.map (fun g => viewDict h (h.dict g)))
        ((config.map (fun k => (h.cfgOf k).scal)).getD 0) ∧
    Valid w ∧ w.laser.data = data ∧ w.laser.srr = srr ∧
    h.dicts.length ≤ w.laser.cal ∧ (∀ e ∈ w.heap.dict w.laser.cal, h.cals.length ≤ e.2) ∧
    h.cfgs.length ≤ w.laser.cfg ∧
    (∀ k, config = some k → (w.heap.cfgOf w.laser.cfg).offs = (h.cfgOf k).offs) ∧
    w.heap.cells = h.cells ∧ h.cals.length ≤ w.heap.cals.length ∧ h.dicts.length ≤ w.heap.dicts.length ∧
    h.cfgs.length ≤ w.heap.cfgs.length := by
  unfold hConstruct at hw
  split at hw
  · simp at hw
  · simp only [Option.some.injEq] at hw
    obtain ⟨c1, c2, c3⟩ := conCal_spec h (elementsOf data) given hg
    -- name the pieces
    generalize hr1 : conCal h (elementsOf data) given = r1 at hw c1 c2 c3
    obtain ⟨d, h1⟩ := r1
    simp only at hw c1 c2 c3
    -- the configuration part never touches cells, calibrations or dicts
    have hcfg : ∀ (hh : Heap), (conCfg hh srr config).2.cells = hh.cells ∧ (conCfg hh srr config).2.cals = hh.cals ∧
        (conCfg hh srr config).2.dicts = hh.dicts ∧ (conCfg hh srr config).1 = hh.cfgs.length ∧
        (conCfg hh srr config).2.cfgs.length = hh.cfgs.length + 1 ∧
        ((conCfg hh srr config).2.cfgOf hh.cfgs.length).scal = (config.map (fun k => (hh.cfgOf k).scal)).getD 0 ∧
        (∀ k, config = some k → ((conCfg hh srr config).2.cfgOf hh.cfgs.length).offs = (hh.cfgOf k).offs) := by
      intro hh
      cases config with
      | some k =>
        refine ⟨rfl, rfl, rfl, rfl, ?_, ?_, ?_⟩
        · simp [conCfg, Heap.allocCfg]
        · simp [conCfg, Heap.allocCfg, Heap.cfgOf]
        · intro k' hk'
          simp only [Option.some.injEq] at hk'
          subst hk'
          simp [conCfg, Heap.allocCfg, Heap.cfgOf]
      | none =>
        cases srr with
        | true =>
          refine ⟨rfl, rfl, rfl, rfl, ?_, ?_, fun k hk => by simp at hk⟩
          · simp [conCfg, Heap.allocCfg, Heap.allocOffs]
          · simp [conCfg, Heap.allocCfg, Heap.allocOffs, Heap.cfgOf]
        | false =>
          refine ⟨rfl, rfl, rfl, rfl, ?_, ?_, fun k hk => by simp at hk⟩
          · simp [conCfg, Heap.allocCfg]
          · simp [conCfg, Heap.allocCfg, Heap.cfgOf]
    obtain ⟨f1, f2, f3, f4, f5, f6, f7⟩ := hcfg (h1.allocDict d).2
    subst hw
    have hdict : (conCfg (h1.allocDict d).2 srr config).2.dict h1.dicts.length = d := by
      unfold Heap.dict
      rw [f3]
      simp [Heap.allocDict]
    have hcals : (conCfg (h1.allocDict d).2 srr config).2.cals = h1.cals := by rw [f2]; rfl
    have hcfgs : (h1.allocDict d).2.cfgs = h.cfgs := c2.2.2.2.1
    refine ⟨?_, ⟨?_, ?_, ?_, ?_⟩, rfl, rfl, ?_, ?_, ?_, ?_, ?_, ?_, ?_, ?_⟩
    · apply State.ext'
      · rfl
      · show data.map (viewLayer _) = data.map (viewLayer h)
        apply List.map_congr_left
        intro a _
        have : (conCfg (h1.allocDict d).2 srr config).2.cells = h.cells := by rw [f1]; exact c2.1
        rw [viewLayer_congr this]
      · show viewDict _ (Heap.dict _ h1.dicts.length) = initCal (elementsOf (data.map (viewLayer h))) _
        rw [hdict, elementsOf_viewLayers, ← c1]
        exact viewDict_congr (fun e _ => by unfold Heap.calOf; rw [hcals])
      · show (Heap.cfgOf _ (conCfg (h1.allocDict d).2 srr config).1).scal = _
        rw [f4, f6]
        congr 2
        funext k
        rw [cfgOf_congr hcfgs]
    · show h1.dicts.length < (conCfg (h1.allocDict d).2 srr config).2.dicts.length
      rw [f3]; simp [Heap.allocDict]
    · show ∀ e ∈ Heap.dict _ h1.dicts.length, e.2 < (conCfg (h1.allocDict d).2 srr config).2.cals.length
      rw [hdict, hcals]
      exact fun e he => (c3 e he).2
    · show (conCfg (h1.allocDict d).2 srr config).1 < (conCfg (h1.allocDict d).2 srr config).2.cfgs.length
      rw [f4, f5]; omega
    · intro a ha e he
      show e.2 < (conCfg (h1.allocDict d).2 srr config).2.cells.length
      rw [f1]
      show e.2 < h1.cells.length
      rw [c2.1]
      exact hd a ha e he
    · show h.dicts.length ≤ h1.dicts.length
      rw [c2.2.2.2.2.2]; exact Nat.le_refl _
    · show ∀ e ∈ Heap.dict _ h1.dicts.length, h.cals.length ≤ e.2
      rw [hdict]
      exact fun e he => (c3 e he).1
    · show h.cfgs.length ≤ (conCfg (h1.allocDict d).2 srr config).1
      rw [f4, hcfgs]; exact Nat.le_refl _
    · intro k hk
      show (Heap.cfgOf _ (conCfg (h1.allocDict d).2 srr config).1).offs = _
      rw [f4, f7 k hk, cfgOf_congr hcfgs]
    · rw [f1]; exact c2.1
    · rw [hcals]; exact c2.2.1
    · rw [f3]
      show h.dicts.length ≤ (h1.dicts ++ [d]).length
      rw [c2.2.2.2.2.2]; simp
    · rw [f5, hcfgs]; omega

theorem hConstruct_sep {h : Heap} {srr : Bool} {data : List Arr} {given config : Option Nat} {w : World}
    (hd : ∀ a ∈ data, ArrOK h a) (hg : ∀ g, given = some g → ∀ e ∈ h.dict g, e.2 < h.cals.length)
    (hw : hConstruct h srr data given config = some w) (F : Foreign)
    (hF : (∀ k ∈ F.cals, k < h.cals.length) ∧ (∀ k ∈ F.dicts, k < h.dicts.length) ∧ (∀ k ∈ F.cfgs, k < h.cfgs.length)) :
    Sep F w := by
  obtain ⟨_, _, _, _, s1, s2, s3, _, _, s6, s7, s8⟩ := hConstruct_spec h srr data given config w hd hg hw
  refine ⟨fun k hk => Nat.lt_of_lt_of_le (hF.1 k hk) s6, fun k hk => Nat.lt_of_lt_of_le (hF.2.1 k hk) s7,
    fun k hk => Nat.lt_of_lt_of_le (hF.2.2 k hk) s8, ?_, ?_, ?_⟩
  · intro hm; have := hF.2.1 _ hm; omega
  · intro e he hm; have := hF.1 _ hm; have := s2 e he; omega
  · intro hm; have := hF.2.2 _ hm; omega

/-! ## what is NOT detached: writes into stored memory, the calibration handed to `add` -/

theorem get?_mem {l : List (Name × Nat)} {n : Name} {i : Nat} (h : get? l n = some i) : (n, i) ∈ l := by
  induction l with
  | nil => simp at h
  | cons x r ih =>
    rw [get?_cons] at h
    split at h
    · next hx => simp only [Option.some.injEq] at h; subst h; subst hx; simp
    · simp [ih h]

theorem stored_write_visible' (w : World) (hv : Valid w) (layer : Nat) (a : Arr) (n : Name) (i v : Nat)
    (ha : w.laser.data[layer]? = some a) (hi : get? a.fields n = some i) :
    readE (view (hstep w (.writeCell i v)).state) layer (some n) false = .ok [(n, v, none)] := by
  have hlt : i < w.heap.cells.length := hv.data_ok a (List.mem_of_getElem? ha) (n, i) (get?_mem hi)
  simp only [hstep, Res.state, readE]
  have hlay : (view ⟨⟨w.heap.cells.set i v, w.heap.cals, w.heap.cfgs, w.heap.offs, w.heap.dicts⟩, w.laser⟩).layers[layer]?
      = some (viewLayer ⟨w.heap.cells.set i v, w.heap.cals, w.heap.cfgs, w.heap.offs, w.heap.dicts⟩ a) := by
    simp [view, List.getElem?_map, ha]
  rw [show ({ w with heap := { w.heap with cells := w.heap.cells.set i v } } : World) =
    ⟨⟨w.heap.cells.set i v, w.heap.cals, w.heap.cfgs, w.heap.offs, w.heap.dicts⟩, w.laser⟩ from rfl, hlay]
  simp only [readLayerE, viewLayer, get?_mapV, hi, Option.map_some, Bool.false_eq_true, if_false]
  congr 3
  unfold Heap.cell
  simp [List.getElem?_set_self hlt]

theorem hAdd_ok_dict {w w' : World} (hv : Valid w) {n : Name} {xs : List ArrIn} {k : Nat}
    (ha : ArgsOK w.heap (.add n xs (some k))) (hs : hAdd w n xs (some k) = .ok w') :
    w'.laser.cal = w.laser.cal ∧ get? (w'.heap.dict w'.laser.cal) n = some k ∧ w'.heap.cals = w.heap.cals ∧
      w'.laser.cfg = w.laser.cfg ∧ w'.heap.cfgs = w.heap.cfgs := by
  unfold hAdd at hs
  split at hs
  · simp at hs
  · cases hE : hAddLayers n w.laser.data xs w.heap with
    | error q => rw [hE] at hs; obtain ⟨e, ls, h⟩ := q; simp at hs
    | ok q =>
      obtain ⟨ls, h⟩ := q
      rw [hE] at hs
      simp only [Res.ok.injEq] at hs
      subst hs
      obtain ⟨_, hg, _, _⟩ := hAddLayers_ok n _ _ _ _ _ hv.data_ok ha.1 hE
      have hdl : w.laser.cal < h.dicts.length := by rw [hg.2.2.2.2.2]; exact hv.dict_lt
      refine ⟨rfl, ?_, hg.2.2.1, rfl, hg.2.2.2.1⟩
      show get? ((h.storeCal w.laser.cal n (some k)).dict w.laser.cal) n = some k
      rw [storeCal_some]
      have : (⟨h.cells, h.cals, h.cfgs, h.offs, h.dicts.set w.laser.cal (dictSet (h.dict w.laser.cal) n k)⟩ : Heap).dict
          w.laser.cal = dictSet (h.dict w.laser.cal) n k := by
        unfold Heap.dict
        simp only [List.getElem?_set_self hdl, Option.getD_some]
      rw [this, get?_dictSet, if_pos rfl]

theorem hAdd_ok_fresh {w w' : World} (hv : Valid w) {n : Name} {xs : List ArrIn} {cal : Option Nat}
    (ha : ArgsOK w.heap (.add n xs cal)) (hs : hAdd w n xs cal = .ok w') :
    ∀ a ∈ w'.laser.data, ∀ e ∈ a.fields, w.heap.cells.length ≤ e.2 := by
  unfold hAdd at hs
  split at hs
  · simp at hs
  · cases hE : hAddLayers n w.laser.data xs w.heap with
    | error q => rw [hE] at hs; obtain ⟨e, ls, h⟩ := q; simp at hs
    | ok q =>
      obtain ⟨ls, h⟩ := q
      rw [hE] at hs
      simp only [Res.ok.injEq] at hs
      subst hs
      obtain ⟨_, _, _, hf⟩ := hAddLayers_ok n _ _ _ _ _ hv.data_ok ha.1 hE
      exact hf

theorem hRemove_fresh (w : World) (hv : Valid w) (ns : List Name) :
    ∀ a ∈ (hRemove w ns).state.laser.data, ∀ e ∈ a.fields, w.heap.cells.length ≤ e.2 := by
  obtain ⟨_, _, _, hf⟩ := hDropLayers_spec ns w.laser.data w.heap hv.data_ok
  unfold hRemove
  simp only
  split <;> exact hf

theorem renameLayersE_cells {m : NameMap} : ∀ {ls r : List Layer}, renameLayersE m ls = .ok r →
    r.map (fun a => a.fields.map (·.2)) = ls.map (fun a => a.fields.map (·.2)) := by
  intro ls
  induction ls with
  | nil => intro r h; simp only [renameLayersE, Except.ok.injEq] at h; subst h; rfl
  | cons l t ih =>
    intro r h
    simp only [renameLayersE] at h
    cases hl : l.rename m with
    | none => rw [hl] at h; simp at h
    | some l' =>
      rw [hl] at h
      dsimp only at h
      cases ht : renameLayersE m t with
      | error p => rw [ht] at h; obtain ⟨e, q⟩ := p; simp at h
      | ok q =>
        rw [ht] at h
        simp only [Except.ok.injEq] at h
        subst h
        simp only [List.map_cons, ih ht, List.cons.injEq, and_true]
        unfold Layer.rename at hl
        simp only at hl
        split at hl
        · simp only [Option.some.injEq] at hl
          subst hl
          simp [List.map_map, Function.comp_def]
        · simp at hl

/-! ## save / load at the object level -/

theorem copyArrs_spec : ∀ (as : List Arr) (h : Heap), (∀ a ∈ as, ArrOK h a) →
    (copyArrs as h).1.map (viewLayer (copyArrs as h).2) = as.map (viewLayer h) ∧
      Grows h (copyArrs as h).2 ∧ (∀ a ∈ (copyArrs as h).1, ArrOK (copyArrs as h).2 a) ∧
      (∀ a ∈ (copyArrs as h).1, ∀ e ∈ a.fields, h.cells.length ≤ e.2) := by
  intro as
  induction as with
  | nil => intro h _; exact ⟨rfl, Grows.refl _, by simp [copyArrs], by simp [copyArrs]⟩
  | cons a t ih =>
    intro h has
    have hg1 := copyArr_grows h a
    have hok1 := copyArr_ok h a
    have hast : ∀ b ∈ t, ArrOK h b := fun b hb => has b (by simp [hb])
    obtain ⟨hv2, hg2, hok2, hf2⟩ := ih (h.copyArr a).2 (fun b hb => (hast b hb).mono hg1)
    simp only [copyArrs, List.map_cons]
    refine ⟨?_, hg1.trans hg2, ?_, ?_⟩
    · rw [hv2, hg2.viewLayer hok1, copyArr_view, hg1.viewLayers hast]
    · intro b hb
      rcases List.mem_cons.1 hb with rfl | hb
      · exact hok1.mono hg2
      · exact hok2 b hb
    · intro b hb
      rcases List.mem_cons.1 hb with rfl | hb
      · exact copyArr_fresh h a
      · exact fun e he => Nat.le_trans hg1.1 (hf2 b hb e he)

theorem freshEntries_spec (h0 : Heap) : ∀ (g out : IdDict) (h : Heap),
    (∀ e ∈ g, e.2 < h0.cals.length) → GrowsC h0 h → (∀ e ∈ out, e.2 < h.cals.length) →
    viewDict (freshEntries g out h).2 (freshEntries g out h).1 = viewDict h out ++ viewDict h0 g ∧
    GrowsC h (freshEntries g out h).2 ∧
    (∀ e ∈ (freshEntries g out h).1, e.2 < (freshEntries g out h).2.cals.length) := by
  intro g
  induction g with
  | nil =>
    intro out h _ _ hout
    simp only [freshEntries, viewDict, mapV_nil, List.append_nil]
    exact ⟨trivial, GrowsC.refl _, hout⟩
  | cons e r ih =>
    intro out h hg hgr hout
    have he : e.2 < h0.cals.length := hg e (by simp)
    have hga := growsC_alloc h (h.calOf e.2)
    have hnew : (h.allocCal (h.calOf e.2)).2.calOf h.cals.length = h0.calOf e.2 := by
      rw [allocCal_calOf_new, hgr.calOf he]
    have hlen : (h.allocCal (h.calOf e.2)).2.cals.length = h.cals.length + 1 := by simp [Heap.allocCal]
    have hout' : ∀ x ∈ out ++ [(e.1, h.cals.length)], x.2 < (h.allocCal (h.calOf e.2)).2.cals.length := by
      intro x hx
      rcases List.mem_append.1 hx with h1 | h1
      · have := hout x h1; rw [hlen]; omega
      · simp only [List.mem_singleton] at h1; subst h1; rw [hlen]; exact Nat.lt_succ_self _
    obtain ⟨i1, i2, i3⟩ := ih (out ++ [(e.1, h.cals.length)]) (h.allocCal (h.calOf e.2)).2
      (fun x hx => hg x (by simp [hx])) (hgr.trans hga) hout'
    simp only [freshEntries]
    refine ⟨?_, hga.trans i2, i3⟩
    rw [i1]
    simp only [viewDict, mapV_append, mapV_cons, mapV_nil, List.append_assoc, List.singleton_append]
    rw [hnew]
    congr 1
    exact mapV_congr (fun x hx => hga.calOf (hout x hx))

theorem hRoundTrip_spec (w w' : World) (hv : Valid w) (hw : hRoundTrip w = some w') :
    view w' = mkState w.laser.srr (view w).layers (some (view w).cal) (view w).cfg ∧ Valid w' ∧
    (∀ a ∈ w'.laser.data, ∀ e ∈ a.fields, w.heap.cells.length ≤ e.2) ∧
    ∀ F : Foreign, (∀ k ∈ F.cals, k < w.heap.cals.length) → (∀ k ∈ F.dicts, k < w.heap.dicts.length) →
      (∀ k ∈ F.cfgs, k < w.heap.cfgs.length) → Sep F w' := by
  unfold hRoundTrip at hw
  obtain ⟨a1, a2, a3, a4⟩ := copyArrs_spec w.laser.data w.heap hv.data_ok
  generalize hd : copyArrs w.laser.data w.heap = d at hw a1 a2 a3 a4
  obtain ⟨dl, dh⟩ := d
  simp only at hw a1 a2 a3 a4
  have hdict : dh.dict w.laser.cal = w.heap.dict w.laser.cal := a2.dict _
  have hcl : ∀ e ∈ dh.dict w.laser.cal, e.2 < dh.cals.length := by
    rw [hdict, a2.2.2.1]; exact hv.cal_lt
  obtain ⟨b1, b2, b3⟩ := freshEntries_spec dh (dh.dict w.laser.cal) [] dh hcl (GrowsC.refl _) (by simp)
  generalize he : freshEntries (dh.dict w.laser.cal) [] dh = e at hw b1 b2 b3
  obtain ⟨ed, eh⟩ := e
  simp only at hw b1 b2 b3
  -- the loader's config
  generalize hk : loadCfg (eh.allocDict ed).2 (Heap.cfgOf (eh.allocDict ed).2 w.laser.cfg) = k at hw
  have hcfgeq : (eh.allocDict ed).2.cfgs = w.heap.cfgs := by
    show eh.cfgs = _
    rw [b2.2.2.2.1, a2.2.2.2.1]
  have hkP : k.2.cells = eh.cells ∧ k.2.cals = eh.cals ∧ k.2.dicts = eh.dicts ++ [ed] ∧ k.1 = w.heap.cfgs.length ∧
      k.2.cfgs.length = w.heap.cfgs.length + 1 ∧ (k.2.cfgOf k.1).scal = (w.heap.cfgOf w.laser.cfg).scal := by
    have hc0 : Heap.cfgOf (eh.allocDict ed).2 w.laser.cfg = w.heap.cfgOf w.laser.cfg := cfgOf_congr hcfgeq _
    subst hk
    rw [hc0]
    unfold loadCfg
    cases (w.heap.cfgOf w.laser.cfg).offs with
    | some o =>
      refine ⟨rfl, rfl, rfl, ?_, ?_, ?_⟩
      · show (eh.allocDict ed).2.cfgs.length = _
        rw [hcfgeq]
      · show ((eh.allocDict ed).2.cfgs ++ [_]).length = _
        rw [hcfgeq]; simp
      · show (Heap.cfgOf ⟨_, _, (eh.allocDict ed).2.cfgs ++ [_], _, _⟩ (eh.allocDict ed).2.cfgs.length).scal = _
        unfold Heap.cfgOf
        simp
    | none =>
      refine ⟨rfl, rfl, rfl, ?_, ?_, ?_⟩
      · show (eh.allocDict ed).2.cfgs.length = _
        rw [hcfgeq]
      · show ((eh.allocDict ed).2.cfgs ++ [_]).length = _
        rw [hcfgeq]; simp
      · show (Heap.cfgOf ⟨_, _, (eh.allocDict ed).2.cfgs ++ [_], _, _⟩ (eh.allocDict ed).2.cfgs.length).scal = _
        unfold Heap.cfgOf
        simp
  obtain ⟨k1, k2, k3, k4, k5, k6⟩ := hkP
  have hcells : k.2.cells = dh.cells := by rw [k1, b2.1]
  have hdk : k.2.dict eh.dicts.length = ed := by
    unfold Heap.dict; rw [k3]; simp
  have hdOK : ∀ a ∈ dl, ArrOK k.2 a := by
    intro a ha e he'
    show e.2 < k.2.cells.length
    rw [hcells]; exact a3 a ha e he'
  have hgOK : ∀ g, some (eh.allocDict ed).1 = some g → ∀ x ∈ k.2.dict g, x.2 < k.2.cals.length := by
    intro g hg x hx
    simp only [Option.some.injEq] at hg
    subst hg
    rw [show (eh.allocDict ed).1 = eh.dicts.length from rfl, hdk] at hx
    rw [k2]
    exact b3 x hx
  obtain ⟨s1, s2, s3, _, _, _, _, _, _, _, _, _⟩ :=
    hConstruct_spec k.2 w.laser.srr dl (some (eh.allocDict ed).1) (some k.1) w' hdOK hgOK hw
  refine ⟨?_, s2, ?_, ?_⟩
  · rw [s1]
    simp only [Option.map_some, Option.getD_some]
    congr 1
    · rw [viewLayer_congr hcells]
      exact a1
    · congr 1
      rw [show (eh.allocDict ed).1 = eh.dicts.length from rfl, hdk]
      have : viewDict k.2 ed = viewDict eh ed := viewDict_congr (fun x _ => by unfold Heap.calOf; rw [k2])
      rw [this, b1, hdict]
      simp only [viewDict, mapV_nil, List.nil_append]
      exact mapV_congr (fun x _ => a2.calOf x.2)
  · rw [s3]; exact a4
  · intro F f1 f2 f3
    apply hConstruct_sep hdOK hgOK hw F
    refine ⟨fun x hx => ?_, fun x hx => ?_, fun x hx => ?_⟩
    · rw [k2]
      have := b2.2.1
      rw [a2.2.2.1] at this
      exact Nat.lt_of_lt_of_le (f1 x hx) this
    · rw [k3]
      have : eh.dicts = w.heap.dicts := b2.2.2.2.2.2.trans a2.2.2.2.2.2
      rw [this]
      have := f2 x hx
      simp; omega
    · rw [k5]
      have := f3 x hx
      omega

end Pew.LaserEdit
