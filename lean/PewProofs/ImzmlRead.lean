import PewModel.Imzml
import Mathlib.Tactic.Linarith
import Mathlib.Data.List.Basic

/-! Helper lemmas for C05: the read of the external binary (`Spectrum.get_binary_data`). -/
namespace Pew.Imzml

theorem readBytes_length (ibd : List UInt8) (off len : Nat) :
    (readBytes ibd off len).length = min len (ibd.length - off) := by
  simp [readBytes]

theorem frombuffer_eq_none_iff (bo : ByteOrder) (w : Nat) (buf : List UInt8) :
    frombuffer bo w buf = none ↔ w = 0 ∨ buf.length % w ≠ 0 := by
  unfold frombuffer
  split <;> simp_all

/-- the bytes of element `i` of a buffer that was read at `off` are the bytes
`[off + i·w, off + (i+1)·w)` of the file, as long as the element ends inside the buffer -/
theorem readBytes_chunk (ibd : List UInt8) (off len i w : Nat)
    (h : (i + 1) * w ≤ (readBytes ibd off len).length) :
    ((readBytes ibd off len).drop (i * w)).take w = (ibd.drop (off + i * w)).take w := by
  have hlen := readBytes_length ibd off len
  have h1 : (i + 1) * w ≤ len := by rw [hlen] at h; omega
  unfold readBytes
  rw [List.drop_take, List.drop_drop, List.take_take]
  have h2 : (i + 1) * w = i * w + w := Nat.succ_mul i w
  have h3 : min w (len - i * w) = w := by omega
  rw [h3]

theorem frombuffer_some (bo : ByteOrder) (w : Nat) (buf : List UInt8) (arr : List Nat)
    (h : frombuffer bo w buf = some arr) :
    0 < w ∧ buf.length % w = 0 ∧ arr.length = buf.length / w ∧
    ∀ i (hi : i < arr.length), arr[i] = bitsOf bo ((buf.drop (i * w)).take w) := by
  unfold frombuffer at h
  split at h
  · simp at h
  · rename_i hc
    simp only [Option.some.injEq] at h
    subst h
    refine ⟨by omega, by omega, by simp, ?_⟩
    intro i hi
    simp

/-- a byte string of length `n` has a bit pattern below `256^n` -/
theorem leNat_lt (bs : List UInt8) : leNat bs < 256 ^ bs.length := by
  induction bs with
  | nil => simp [leNat]
  | cons b r ih =>
    have hb : b.toNat < 256 := b.toNat_lt
    simp only [leNat, List.length_cons, pow_succ]
    omega

/-- byte strings of the same length with the same bit pattern are equal: the decoding loses nothing -/
theorem leNat_injective (a b : List UInt8) (hl : a.length = b.length) (h : leNat a = leNat b) : a = b := by
  induction a generalizing b with
  | nil => cases b with
    | nil => rfl
    | cons _ _ => simp at hl
  | cons x xs ih =>
    cases b with
    | nil => simp at hl
    | cons y ys =>
      have hx : x.toNat < 256 := x.toNat_lt
      have hy : y.toNat < 256 := y.toNat_lt
      simp only [leNat] at h
      have h1 : x.toNat = y.toNat := by omega
      have h2 : leNat xs = leNat ys := by omega
      rw [UInt8.toNat_inj.mp h1, ih ys (by simpa using hl) h2]

end Pew.Imzml
