import PewProofs.Imzml
import Mathlib.Data.List.Find

/-! Helper lemmas for C05: NumPy subscripts, the position-keyed dict, the placement loop. -/
namespace Pew.Imzml

/-! ### `pyIndex` -/

theorem pyIndex_in_domain {n : Nat} {i : Int} (h1 : 1 ≤ i) (h2 : i ≤ n) :
    pyIndex n (i - 1) = some (i - 1).toNat := by
  unfold pyIndex
  rw [if_pos (by omega), if_pos (by omega)]

theorem pyIndex_eq_none_iff (n : Nat) (i : Int) : pyIndex n i = none ↔ i < -(n : Int) ∨ (n : Int) ≤ i := by
  unfold pyIndex
  split
  · split
    · simp; omega
    · simp; omega
  · split
    · simp; omega
    · simp; omega

theorem pyIndex_lt {n : Nat} {i : Int} {k : Nat} (h : pyIndex n i = some k) : k < n := by
  unfold pyIndex at h
  split at h
  · split at h
    · simp at h; omega
    · simp at h
  · split at h
    · simp at h; omega
    · simp at h

/-- the value of a subscript: itself when non-negative, counted from the end when negative -/
theorem pyIndex_eq_some_iff (n : Nat) (i : Int) (k : Nat) :
    pyIndex n i = some k ↔ ((0 ≤ i ∧ i < n ∧ (k : Int) = i) ∨ (i < 0 ∧ -(n : Int) ≤ i ∧ (k : Int) = i + n)) := by
  unfold pyIndex
  split
  · split
    · simp; omega
    · simp; omega
  · split
    · simp; omega
    · simp; omega

/-! ### the dict of spectra -/

theorem samePos_comm (s t : Spectrum) : samePos s t = samePos t s := by
  simp only [samePos, BEq.comm]

theorem samePos_iff (s t : Spectrum) : samePos s t = true ↔ s.x = t.x ∧ s.y = t.y := by
  simp [samePos]

theorem spectraDict_append_one (file : List Spectrum) (s : Spectrum) :
    spectraDict (file ++ [s]) = dictSet (spectraDict file) s := by
  simp [spectraDict, List.foldl_append]

theorem mem_dictSet {d : List Spectrum} {s t : Spectrum} (h : t ∈ dictSet d s) : t ∈ d ∨ t = s := by
  unfold dictSet at h
  split at h
  · obtain ⟨u, hu, rfl⟩ := List.mem_map.mp h
    split
    · right; rfl
    · left; exact hu
  · rcases List.mem_append.mp h with h | h
    · left; exact h
    · right; simpa using h

theorem mem_spectraDict {file : List Spectrum} {t : Spectrum} (h : t ∈ spectraDict file) : t ∈ file := by
  induction file using List.reverseRecOn with
  | nil => simp [spectraDict] at h
  | append_singleton file s ih =>
    rw [spectraDict_append_one] at h
    rcases mem_dictSet h with h | h
    · exact List.mem_append_left _ (ih h)
    · subst h; simp

theorem dictSet_ne_nil (d : List Spectrum) (s : Spectrum) : dictSet d s ≠ [] := by
  unfold dictSet
  split
  · rename_i h
    intro hc
    rw [List.map_eq_nil_iff] at hc
    subst hc
    simp at h
  · simp

theorem spectraDict_ne_nil {file : List Spectrum} (h : file ≠ []) : spectraDict file ≠ [] := by
  induction file using List.reverseRecOn with
  | nil => exact absurd rfl h
  | append_singleton file s _ =>
    rw [spectraDict_append_one]
    exact dictSet_ne_nil _ _

/-- looking a position up in the dict after `spectra[(s.x, s.y)] = s`; `p` tests for one position -/
theorem findLast_dictSet (p : Spectrum → Bool) (hp : ∀ s t, samePos s t = true → p s = p t)
    (hp2 : ∀ s t, p s = true → p t = true → samePos s t = true) (d : List Spectrum) (s : Spectrum) :
    (dictSet d s).reverse.find? p = if p s then some s else d.reverse.find? p := by
  unfold dictSet
  split
  · rename_i hany
    rw [← List.map_reverse, List.find?_map]
    have hcongr : ∀ t ∈ d.reverse, (p ∘ fun t => if samePos s t = true then s else t) t = p t := by
      intro t _
      simp only [Function.comp]
      split
      · rename_i h; exact hp s t h
      · rfl
    rw [List.find?_congr hcongr]
    by_cases hps : p s = true
    · rw [if_pos hps]
      obtain ⟨t, ht, hst⟩ := List.any_eq_true.mp hany
      have hpt : p t = true := by rw [← hp s t hst]; exact hps
      cases hf : d.reverse.find? p with
      | none =>
        have := List.find?_eq_none.mp hf t (by simpa using ht)
        exact absurd hpt this
      | some u =>
        have hpu : p u = true := List.find?_some hf
        simp [hp2 s u hps hpu]
    · rw [if_neg hps]
      cases hf : d.reverse.find? p with
      | none => rfl
      | some u =>
        have hpu : p u = true := List.find?_some hf
        have : ¬ samePos s u = true := by
          intro h; rw [hp s u h] at hps; exact hps hpu
        simp [this]
  · simp [List.find?_cons]
    cases p s <;> simp

theorem specAt_append_one (l : List Spectrum) (s : Spectrum) (r c : Nat) :
    specAt (l ++ [s]) r c = if (s.y == (r : Int) + 1 && s.x == (c : Int) + 1) then some s else specAt l r c := by
  simp only [specAt, List.reverse_append, List.reverse_cons, List.reverse_nil, List.nil_append,
    List.cons_append, List.find?_cons]
  cases (s.y == (r : Int) + 1 && s.x == (c : Int) + 1) <;> simp

/-- the dict holds, for every position, the last spectrum the file records there -/
theorem specAt_spectraDict (file : List Spectrum) (r c : Nat) :
    specAt (spectraDict file) r c = specAt file r c := by
  induction file using List.reverseRecOn with
  | nil => rfl
  | append_singleton file s ih =>
    rw [spectraDict_append_one, specAt_append_one, ← ih]
    unfold specAt
    apply findLast_dictSet
    · intro a b hab
      rw [samePos_iff] at hab
      rw [hab.1, hab.2]
    · intro a b ha hb
      simp only [Bool.and_eq_true, beq_iff_eq] at ha hb
      rw [samePos_iff]
      omega

theorem distinctB_iff (l : List Spectrum) :
    distinctB l = true ↔ l.Pairwise (fun a b => samePos a b = false) := by
  induction l with
  | nil => simp [distinctB]
  | cons s r ih =>
    simp only [distinctB, Bool.and_eq_true, Bool.not_eq_true', List.pairwise_cons, ih]
    constructor
    · intro ⟨h1, h2⟩
      refine ⟨fun t ht => ?_, h2⟩
      have := List.any_eq_false.mp h1 t ht
      simpa using this
    · intro ⟨h1, h2⟩
      refine ⟨List.any_eq_false.mpr (fun t ht => by simp [h1 t ht]), h2⟩

theorem foldl_dictSet_distinct (file acc : List Spectrum)
    (h : (acc ++ file).Pairwise (fun a b => samePos a b = false)) :
    file.foldl dictSet acc = acc ++ file := by
  induction file generalizing acc with
  | nil => simp
  | cons s r ih =>
    have hs : ¬ acc.any (samePos s) = true := by
      intro hc
      obtain ⟨t, ht, hst⟩ := List.any_eq_true.mp hc
      have := (List.pairwise_append.mp h).2.2 t ht s (by simp)
      rw [samePos_comm] at this
      rw [this] at hst
      exact Bool.false_ne_true hst
    rw [List.foldl_cons]
    have : dictSet acc s = acc ++ [s] := by unfold dictSet; rw [if_neg hs]
    rw [this, ih (acc ++ [s]) (by simpa using h)]
    simp

/-- a dict insertion keeps the positions pairwise distinct -/
theorem dictSet_distinct (d : List Spectrum) (s : Spectrum)
    (h : d.Pairwise (fun a b => samePos a b = false)) :
    (dictSet d s).Pairwise (fun a b => samePos a b = false) := by
  unfold dictSet
  split
  · rw [List.pairwise_map]
    refine h.imp ?_
    intro a b hab
    have key : ∀ u : Spectrum, (if samePos s u = true then s else u).x = u.x ∧ (if samePos s u = true then s else u).y = u.y := by
      intro u
      split
      · rename_i hu; rw [samePos_iff] at hu; exact ⟨hu.1, hu.2⟩
      · exact ⟨rfl, rfl⟩
    have e : ∀ u v : Spectrum, samePos u v = (u.x == v.x && u.y == v.y) := fun _ _ => rfl
    rw [e] at hab ⊢
    rw [(key a).1, (key a).2, (key b).1, (key b).2]
    exact hab
  · rename_i hany
    rw [List.pairwise_append]
    refine ⟨h, by simp, ?_⟩
    intro a ha b hb
    simp only [List.mem_singleton] at hb
    subst hb
    have := List.any_eq_false.mp (by simpa using hany) a ha
    rw [samePos_comm]
    simpa using this

/-! ### the placement loop -/

theorem place_append_one {β} (shape : Nat × Nat) (f : Spectrum → β) (d : List Spectrum) (s : Spectrum) :
    place shape f (d ++ [s]) = placeStep shape f (place shape f d) s := by
  simp [place, List.foldl_append]

theorem placeStep_eq_none_iff {β} (shape : Nat × Nat) (f : Spectrum → β) (o : Option (Canvas β)) (s : Spectrum) :
    placeStep shape f o s = none ↔
      o = none ∨ pyIndex shape.1 (s.y - 1) = none ∨ pyIndex shape.2 (s.x - 1) = none := by
  unfold placeStep
  cases o <;> cases pyIndex shape.1 (s.y - 1) <;> cases pyIndex shape.2 (s.x - 1) <;> simp

theorem placeStep_eq_some {β} {shape : Nat × Nat} {f : Spectrum → β} {o : Option (Canvas β)} {s : Spectrum}
    {img : Canvas β} (h : placeStep shape f o s = some img) :
    ∃ img0 r c, o = some img0 ∧ pyIndex shape.1 (s.y - 1) = some r ∧ pyIndex shape.2 (s.x - 1) = some c ∧
      img = img0.set r c (f s) := by
  unfold placeStep at h
  cases o with
  | none => simp at h
  | some img0 =>
    cases hr : pyIndex shape.1 (s.y - 1) with
    | none => simp [hr] at h
    | some r =>
      cases hc : pyIndex shape.2 (s.x - 1) with
      | none => simp [hr, hc] at h
      | some c =>
        simp only [hr, hc, Option.some.injEq] at h
        exact ⟨img0, r, c, rfl, rfl, rfl, h.symm⟩

theorem lastAt_append_one (shape : Nat × Nat) (d : List Spectrum) (s : Spectrum) (r c : Nat) :
    lastAt shape (d ++ [s]) r c =
      if (pyIndex shape.1 (s.y - 1) == some r && pyIndex shape.2 (s.x - 1) == some c) then some s
      else lastAt shape d r c := by
  simp only [lastAt, List.reverse_append, List.reverse_cons, List.reverse_nil, List.nil_append,
    List.cons_append, List.find?_cons]
  cases (pyIndex shape.1 (s.y - 1) == some r && pyIndex shape.2 (s.x - 1) == some c) <;> simp

theorem place_eq_none_iff {β} (shape : Nat × Nat) (f : Spectrum → β) (d : List Spectrum) :
    place shape f d = none ↔
      ∃ s ∈ d, pyIndex shape.1 (s.y - 1) = none ∨ pyIndex shape.2 (s.x - 1) = none := by
  induction d using List.reverseRecOn with
  | nil => simp [place]
  | append_singleton d s ih =>
    rw [place_append_one, placeStep_eq_none_iff, ih]
    constructor
    · rintro (⟨t, ht, h⟩ | h)
      · exact ⟨t, List.mem_append_left _ ht, h⟩
      · exact ⟨s, by simp, h⟩
    · rintro ⟨t, ht, h⟩
      rcases List.mem_append.mp ht with ht | ht
      · left; exact ⟨t, ht, h⟩
      · simp only [List.mem_singleton] at ht; subst ht; right; exact h

theorem place_some_pixel {β} (shape : Nat × Nat) (f : Spectrum → β) (d : List Spectrum) (img : Canvas β)
    (h : place shape f d = some img) (r c : Nat) : img r c = (lastAt shape d r c).map f := by
  induction d using List.reverseRecOn generalizing img with
  | nil =>
    simp only [place, List.foldl_nil, Option.some.injEq] at h
    subst h
    simp [lastAt, blank]
  | append_singleton d s ih =>
    rw [place_append_one] at h
    obtain ⟨img0, r0, c0, h0, hr, hc, rfl⟩ := placeStep_eq_some h
    rw [lastAt_append_one, hr, hc]
    simp only [Canvas.set]
    by_cases hrc : r = r0 ∧ c = c0
    · obtain ⟨rfl, rfl⟩ := hrc
      simp
    · have : ¬ ((some r0 == some r && some c0 == some c) = true) := by
        simp only [Bool.and_eq_true, beq_iff_eq, Option.some.injEq]
        intro ⟨h1, h2⟩; exact hrc ⟨h1.symm, h2.symm⟩
      rw [if_neg hrc, if_neg this]
      exact ih img0 h0

/-- for 1-based positions inside the canvas the subscripts are the positions minus one -/
theorem lastAt_eq_specAt (shape : Nat × Nat) (d : List Spectrum) (hd : InDomain shape d) (r c : Nat) :
    lastAt shape d r c = specAt d r c := by
  unfold lastAt specAt
  apply List.find?_congr
  intro s hs
  obtain ⟨hx1, hx2, hy1, hy2⟩ := hd s (by simpa using hs)
  rw [pyIndex_in_domain hy1 hy2, pyIndex_in_domain hx1 hx2]
  have e1 : ((some (s.y - 1).toNat == some r) = (s.y == (r : Int) + 1)) := by
    rw [Bool.eq_iff_iff]; simp only [beq_iff_eq, Option.some.injEq]; omega
  have e2 : ((some (s.x - 1).toNat == some c) = (s.x == (c : Int) + 1)) := by
    rw [Bool.eq_iff_iff]; simp only [beq_iff_eq, Option.some.injEq]; omega
  rw [e1, e2]

theorem inDomainB_iff (shape : Nat × Nat) (l : List Spectrum) : inDomainB shape l = true ↔ InDomain shape l := by
  simp only [inDomainB, InDomain, List.all_eq_true, Bool.and_eq_true, decide_eq_true_eq]
  constructor
  · intro h s hs; obtain ⟨⟨⟨a, b⟩, c⟩, d⟩ := h s hs; exact ⟨a, b, c, d⟩
  · intro h s hs; obtain ⟨a, b, c, d⟩ := h s hs; exact ⟨⟨⟨a, b⟩, c⟩, d⟩

theorem image_eq_some {β} {size : Option (Int × Int)} {f : Spectrum → β} {d : List Spectrum}
    {shape : Nat × Nat} {img : Canvas β} (hsz : (imageSize size d).bind shapeOf = some shape)
    (hp : place shape f d = some img) : image size f d = some (shape, img) := by
  unfold image
  rw [hsz]
  simp [hp]

end Pew.Imzml
