import PewProofs.ThermoCols

/-! # C03 — parameters (scan time), decimal commas -/
namespace Pew.Thermo

def dsub (a b : V) : V := match a, b with | some p, some q => some (q - p) | _, _ => none

theorem diffRow_range' (f : Nat → V) : ∀ (m s0 : Nat),
    diffRow ((List.range' s0 m).map f) = (List.range' s0 (m - 1)).map (fun s => dsub (f s) (f (s + 1)))
  | 0, _ => rfl
  | 1, _ => rfl
  | m + 2, s0 => by
    have ih := diffRow_range' f (m + 1) (s0 + 1)
    simp only [List.range'_succ, List.map_cons] at ih ⊢
    simp only [diffRow, Nat.add_one_sub_one] at ih ⊢
    rw [show m + 1 = m + 1 from rfl]
    simp only [List.range'_succ, List.map_cons]
    rw [ih]
    rfl

theorem diffRow_range (f : Nat → V) (m : Nat) :
    diffRow ((List.range m).map f) = (List.range (m - 1)).map (fun s => dsub (f s) (f (s + 1))) := by
  rw [List.range_eq_range', List.range_eq_range']
  exact diffRow_range' f m 0

/-- parameters of the specification image of the Time channel: the times of the first element and
the rounded mean interval -/
theorem paramsOf_spec (x : Ext V) (comma : Bool) (a : Acq) (ct : Nat) (hk : 0 < a.elements.length) :
    paramsOf (specImg x comma a ct)
      = some { times := (List.range a.samples.length).map fun i =>
                  (List.range a.nscans).map fun s => x.parse (fixDec comma (a.value i s 0 ct)),
               scantime := Pew.CsvDir.npRound 4 (specScantime x comma a ct) } := by
  unfold paramsOf specImg
  obtain ⟨k, hk'⟩ : ∃ k, a.elements.length = k + 1 := ⟨a.elements.length - 1, by omega⟩
  simp only [hk', List.range_succ_eq_map, List.map_cons]
  congr 3
  unfold specScantime
  rw [List.flatMap_map]
  congr 1
  have : ∀ i : Nat, diffRow ((List.range a.nscans).map fun s => x.parse (fixDec comma (a.value i s 0 ct)))
      = (List.range (a.nscans - 1)).map fun s =>
          match x.parse (fixDec comma (a.value i s 0 ct)), x.parse (fixDec comma (a.value i (s + 1) 0 ct)) with
          | some p, some q => some (q - p)
          | _, _ => none := by
    intro i
    rw [diffRow_range]
    rfl
  simp only [this]
  rfl

theorem List.flatMap_congr' {β γ : Type} {f g : β → List γ} : ∀ {l : List β}, (∀ x ∈ l, f x = g x) → l.flatMap f = l.flatMap g
  | [], _ => rfl
  | a :: t, h => by
    rw [List.flatMap_cons, List.flatMap_cons, h a List.mem_cons_self,
      List.flatMap_congr' (fun x hx => h x (List.mem_cons_of_mem _ hx))]

/-! ## decimal commas -/

theorem hasSubC_comma : ∀ (s : List Char), hasSubC [','] s = s.any (fun c => c == ',')
  | [] => rfl
  | c :: t => by
    simp only [hasSubC, List.isPrefixOf, List.any_cons, hasSubC_comma t]
    have : (',' == c) = (c == ',') := by
      by_cases hc : c = ','
      · subst hc; rfl
      · have h1 : (',' == c) = false := beq_false_of_ne (fun e => hc e.symm)
        have h2 : (c == ',') = false := beq_false_of_ne hc
        rw [h1, h2]
    rw [this]
    simp

/-- a field without a comma is not changed by the decimal-comma replacement -/
theorem fixDec_noComma (b : Bool) (s : String) (h : hasSub "," s = false) : fixDec b s = s := by
  cases b with
  | false => rfl
  | true =>
    simp only [fixDec, if_true]
    have hc : s.toList.any (fun c => c == ',') = false := by
      have : hasSub "," s = hasSubC [','] s.toList := rfl
      rw [this, hasSubC_comma] at h
      exact h
    have : s.toList.map (fun c => if c == ',' then '.' else c) = s.toList := by
      rw [List.any_eq_false] at hc
      conv => rhs; rw [← List.map_id s.toList]
      apply List.map_congr_left
      intro c hcm
      have := hc c hcm
      simp at this
      simp [this]
    rw [this, String.ofList_toList]

/-- when no exported token contains a comma, reading with or without the replacement is the same -/
theorem specImg_noComma {α : Type} (x : Ext α) (a : Acq) (c : Nat) (b₁ b₂ : Bool)
    (h : ∀ i, i < a.samples.length → ∀ s, s < a.nscans → ∀ e, e < a.elements.length → hasSub "," (a.value i s e c) = false) :
    specImg x b₁ a c = specImg x b₂ a c := by
  unfold specImg
  congr 1
  apply List.map_congr_left
  intro e he
  apply List.map_congr_left
  intro i hi
  apply List.map_congr_left
  intro s hs
  have := h i (List.mem_range.mp hi) s (List.mem_range.mp hs) e (List.mem_range.mp he)
  rw [fixDec_noComma b₁ _ this, fixDec_noComma b₂ _ this]

theorem params_renderRows_aux (x : Ext V) (sh : Nat → String) (comma : Bool) (a : Acq) (ct : Nat)
    (htime : a.chan ct = "Time") (h : RowsOK x sh a ct) :
    readParams x true comma (renderRows sh a) = some (specParams x comma a ct) := by
  unfold readParams
  simp only [if_true]
  rw [← htime, readRows_render_aux x sh comma a ct h]
  exact paramsOf_spec x comma a ct h.nelements

theorem params_renderCols_aux (x : Ext V) (sh : Nat → String) (comma : Bool) (a : Acq) (ct : Nat)
    (htime : a.chan ct = "Time") (h : ColsOK x sh comma a ct) :
    readParams x false comma (renderCols sh a) = some (specParams x comma a ct) := by
  unfold readParams
  simp only [Bool.false_eq_true, if_false]
  rw [← htime, readCols_render_aux x sh comma a ct h]
  exact paramsOf_spec x comma a ct h.nelements

theorem specParams_noComma (x : Ext V) (a : Acq) (c : Nat) (b₁ b₂ : Bool)
    (h : ∀ i, i < a.samples.length → ∀ s, s < a.nscans → ∀ e, e < a.elements.length → hasSub "," (a.value i s e c) = false)
    (hk : 0 < a.elements.length) :
    specParams x b₁ a c = specParams x b₂ a c := by
  have htimes : ((List.range a.samples.length).map fun i =>
        (List.range a.nscans).map fun s => x.parse (fixDec b₁ (a.value i s 0 c)))
      = ((List.range a.samples.length).map fun i =>
        (List.range a.nscans).map fun s => x.parse (fixDec b₂ (a.value i s 0 c))) := by
    apply List.map_congr_left
    intro i hi
    apply List.map_congr_left
    intro s hs
    have := h i (List.mem_range.mp hi) s (List.mem_range.mp hs) 0 hk
    rw [fixDec_noComma b₁ _ this, fixDec_noComma b₂ _ this]
  have hst : specScantime x b₁ a c = specScantime x b₂ a c := by
    unfold specScantime
    congr 1
    apply List.flatMap_congr'
    intro i hi
    apply List.map_congr_left
    intro s hs
    have hs' := List.mem_range.mp hs
    have h1 := h i (List.mem_range.mp hi) s (by omega) 0 hk
    have h2 := h i (List.mem_range.mp hi) (s + 1) (by omega) 0 hk
    rw [fixDec_noComma b₁ _ h1, fixDec_noComma b₂ _ h1, fixDec_noComma b₁ _ h2, fixDec_noComma b₂ _ h2]
  unfold specParams
  rw [htimes, hst]

end Pew.Thermo
