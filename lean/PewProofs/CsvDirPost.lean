import PewProofs.CsvDir

/-! # C04 — the post-processing of `load` (`stack`, NaN dropping, `drop_fields`: masks and `zip`)
computes the pointwise specification `specImage` (index lists and look-ups) -/
namespace Pew.CsvDir

variable {α : Type}

/-- image given by the lists of surviving sample positions and fields -/
def selectImage (pos cols : List Nat) (hdr : List String) (lines : List (Line α)) : Image α :=
  { names := cols.filterMap (fun c => hdr[c]?),
    lines := lines.map (fun l => pos.filterMap (fun j => (l.rows[j]?).map (fun row => cols.filterMap (fun c => row[c]?)))) }

theorem specImage_eq_select (isNan : α → Bool) (dropNan : Bool) (keep : String → Bool) (lines : List (Line α)) :
    specImage isNan dropNan keep lines
      = selectImage (specPos isNan dropNan lines) (specCols isNan dropNan keep (hdrOf lines) lines) (hdrOf lines) lines := rfl

/-! ## masks against index lists -/

/-- masking the sub-list picked by the indices `cs` with the mask picked by the same indices keeps
the sub-list picked by the indices whose mask entry is clear -/
theorem dropMasked_sub {β γ : Type} (f : γ → Bool) (ns : List γ) (l : List β) :
    ∀ cs : List Nat, (∀ c ∈ cs, c < ns.length ∧ c < l.length) →
      dropMasked ((cs.filterMap (fun c => ns[c]?)).map f) (cs.filterMap (fun c => l[c]?))
        = (cs.filter (fun c => (ns[c]?).any (fun n => !f n))).filterMap (fun c => l[c]?)
  | [], _ => by simp [dropMasked]
  | c :: cs, h => by
    have hc := h c List.mem_cons_self
    have ih := dropMasked_sub f ns l cs (fun x hx => h x (List.mem_cons_of_mem _ hx))
    have e1 : ns[c]? = some ns[c] := List.getElem?_eq_getElem hc.1
    have e2 : l[c]? = some l[c] := List.getElem?_eq_getElem hc.2
    unfold dropMasked at ih ⊢
    simp only [List.filterMap_cons, e1, e2, List.map_cons, List.filter_cons, Option.any_some,
      List.zip_cons_cons]
    cases hf : f ns[c] <;> simp [ih, e2]

theorem filterMap_range_self (n : Nat) : (List.range n).filterMap (fun c => (List.range n)[c]?) = List.range n := by
  have := filterMap_range_getElem? (List.range n)
  rwa [List.length_range] at this

theorem filterMap_range_of_length {β : Type} (l : List β) (n : Nat) (h : l.length = n) :
    (List.range n).filterMap (fun c => l[c]?) = l := by
  subst h; exact filterMap_range_getElem? l

/-- a mask given as a function of the position -/
theorem dropMasked_idx {β : Type} (m : Nat → Bool) (l : List β) (n : Nat) (h : l.length = n) :
    dropMasked ((List.range n).map m) l = ((List.range n).filter (fun c => !m c)).filterMap (fun c => l[c]?) := by
  have := dropMasked_sub m (List.range n) l (List.range n) (by
    intro c hc
    have : c < n := by simpa using hc
    simp [this, h])
  rw [filterMap_range_self, filterMap_range_of_length l n h] at this
  rw [this]
  congr 1
  apply List.filter_congr
  intro c hc
  have hc' : c < n := by simpa using hc
  simp [hc']

/-- a mask given by the names of the fields -/
theorem dropMasked_names {β γ : Type} (f : γ → Bool) (ns : List γ) (l : List β) (h : l.length = ns.length) :
    dropMasked (ns.map f) l
      = ((List.range ns.length).filter (fun c => (ns[c]?).any (fun n => !f n))).filterMap (fun c => l[c]?) := by
  have := dropMasked_sub f ns l (List.range ns.length) (by
    intro c hc
    have : c < ns.length := by simpa using hc
    simp [this, h])
  rw [filterMap_range_getElem?, filterMap_range_of_length l ns.length h] at this
  exact this

theorem range_filterMap_take {β : Type} (l : List β) (L : Nat) (h : L ≤ l.length) :
    (List.range L).filterMap (fun j => l[j]?) = l.take L := by
  have h1 : (l.take L).length = L := by simp [List.length_take]; omega
  have := filterMap_range_of_length (l.take L) L h1
  rw [← this]
  apply filterMap_congr'
  intro j hj
  have : j < L := by simpa using hj
  simp [this]

theorem getElem?_filterMap_of_isSome {β γ : Type} (f : β → Option γ) : ∀ (l : List β) (i : Nat),
    (∀ x ∈ l, (f x).isSome = true) → (l.filterMap f)[i]? = (l[i]?).bind f
  | [], i, _ => by simp
  | a :: t, i, h => by
    obtain ⟨b, hb⟩ := Option.isSome_iff_exists.mp (h a List.mem_cons_self)
    rw [List.filterMap_cons_some hb]
    cases i with
    | zero => simp [hb]
    | succ i =>
      simp only [List.getElem?_cons_succ]
      exact getElem?_filterMap_of_isSome f t i (fun x hx => h x (List.mem_cons_of_mem _ hx))

/-! ## the cut length -/

theorem cutLen_eq_minLen (lines : List (Line α)) : cutLen lines = minLen lines := by
  unfold cutLen minLen
  cases lines.map (·.rows.length) with
  | nil => rfl
  | cons a t => simp [List.min?]

theorem imgLength_stack (lines : List (Line α)) : imgLength (stack lines) = minLen lines := by
  cases lines with
  | nil => rfl
  | cons a t =>
    have := minLen_le (a :: t) a List.mem_cons_self
    simp only [imgLength, stack, List.map_cons, List.head?_cons, Option.map_some, Option.getD_some,
      List.length_take]
    omega

/-! ## selection with every field kept -/

theorem select_rows_full (W : Nat) (pos : List Nat) (l : Line α) (hl : ∀ row ∈ l.rows, row.length = W) :
    pos.filterMap (fun j => (l.rows[j]?).map (fun row => (List.range W).filterMap (fun c => row[c]?)))
      = pos.filterMap (fun j => l.rows[j]?) := by
  apply filterMap_congr'
  intro j _
  cases hj : l.rows[j]? with
  | none => rfl
  | some row =>
    have hm : row ∈ l.rows := List.mem_of_getElem? hj
    simp only [Option.map_some]
    rw [filterMap_range_of_length row W (hl row hm)]

/-- the stack is the selection of all positions below the common length and of all fields -/
theorem stack_eq_select (lines : List (Line α)) (hr : Rect lines) :
    stack lines = selectImage (List.range (minLen lines)) (List.range (hdrOf lines).length) (hdrOf lines) lines := by
  unfold stack selectImage
  congr 1
  · exact (filterMap_range_getElem? _).symm
  · apply List.map_congr_left
    intro l hl
    rw [select_rows_full _ _ l (hr l hl), range_filterMap_take _ _ (minLen_le lines l hl)]

theorem nanPos_stack (isNan : α → Bool) (lines : List (Line α)) (j : Nat) (hj : j < minLen lines) :
    nanPos isNan (stack lines) j = specNanPos isNan lines j := by
  unfold nanPos specNanPos stack
  simp only [List.all_map]
  rw [Bool.eq_iff_iff]
  simp only [List.all_eq_true, Function.comp]
  constructor
  · intro h l hl
    have hL := minLen_le lines l hl
    have := h l hl
    have hj' : j < l.rows.length := by omega
    simp [hj, hj'] at this
    simpa [hj'] using this
  · intro h l hl
    have hL := minLen_le lines l hl
    have := h l hl
    have hj' : j < l.rows.length := by omega
    simp [hj'] at this
    simpa [List.getElem?_take, hj, hj'] using this

/-- dropping the all-NaN sample positions of the stack -/
theorem dropNanRows_stack (isNan : α → Bool) (lines : List (Line α)) (hr : Rect lines) :
    dropNanRows isNan (stack lines)
      = selectImage ((List.range (minLen lines)).filter (fun j => !specNanPos isNan lines j))
          (List.range (hdrOf lines).length) (hdrOf lines) lines := by
  simp only [dropNanRows, selectImage, imgLength_stack]
  congr 1
  · exact (filterMap_range_getElem? _).symm
  · show (lines.map (fun l => l.rows.take (minLen lines))).map _ = _
    rw [List.map_map]
    apply List.map_congr_left
    intro l hl
    have hL := minLen_le lines l hl
    rw [select_rows_full _ _ l (hr l hl)]
    simp only [Function.comp]
    rw [dropMasked_idx _ _ (minLen lines) (by simp [List.length_take]; omega)]
    have hf : (List.range (minLen lines)).filter (fun c => !nanPos isNan (stack lines) c)
        = (List.range (minLen lines)).filter (fun j => !specNanPos isNan lines j) := by
      apply List.filter_congr
      intro j hj
      rw [nanPos_stack isNan lines j (by simpa using hj)]
    rw [hf]
    apply filterMap_congr'
    intro j hj
    have : j < minLen lines := by
      have := (List.mem_filter.mp hj).1
      simpa using this
    simp [this]

/-! ## dropping fields of a selection -/

theorem dropCols_select {γ : Type} (f : γ → Bool) (ns : List γ) (pos cs : List Nat) (hdr : List String)
    (lines : List (Line α)) (hb : ∀ c ∈ cs, c < ns.length ∧ c < hdr.length)
    (hr : ∀ l ∈ lines, ∀ row ∈ l.rows, row.length = hdr.length) :
    dropCols ((cs.filterMap (fun c => ns[c]?)).map f) (selectImage pos cs hdr lines)
      = selectImage pos (cs.filter (fun c => (ns[c]?).any (fun n => !f n))) hdr lines := by
  unfold dropCols selectImage
  congr 1
  · exact dropMasked_sub f ns hdr cs hb
  · simp only [List.map_map]
    apply List.map_congr_left
    intro l hl
    simp only [Function.comp]
    generalize hmask : (cs.filterMap (fun c => ns[c]?)).map f = mask
    rw [List.map_filterMap]
    apply filterMap_congr'
    intro j _
    cases hj : l.rows[j]? with
    | none => rfl
    | some row =>
      have hm : row ∈ l.rows := List.mem_of_getElem? hj
      simp only [Option.map_some]
      subst hmask
      rw [dropMasked_sub f ns row cs (fun c hc => ⟨(hb c hc).1, by rw [hr l hl row hm]; exact (hb c hc).2⟩)]

/-- all-NaN sample positions do not change which fields are all-NaN -/
theorem nanCol_select (isNan : α → Bool) (lines : List (Line α)) (hr : Rect lines) (c : Nat) :
    nanCol isNan (selectImage ((List.range (minLen lines)).filter (fun j => !specNanPos isNan lines j))
        (List.range (hdrOf lines).length) (hdrOf lines) lines) c
      = specNanCol isNan lines (minLen lines) c := by
  unfold nanCol specNanCol selectImage
  simp only [List.all_map]
  rw [Bool.eq_iff_iff]
  simp only [List.all_eq_true, Function.comp]
  constructor
  · intro h l hl j hj
    have h1 := h l hl
    rw [select_rows_full _ _ l (hr l hl)] at h1
    cases hrow : l.rows[j]? with
    | none => rfl
    | some row =>
      simp only [Option.all_some]
      by_cases hn : specNanPos isNan lines j = true
      · -- the position is NaN everywhere, in particular in field `c`
        have := (List.all_eq_true.mp hn) l hl
        rw [hrow] at this
        simp only [Option.all_some] at this
        cases hc : row[c]? with
        | none => rfl
        | some x =>
          simp only [Option.all_some]
          exact (List.all_eq_true.mp this) x (List.mem_of_getElem? hc)
      · have hmem : row ∈ (List.filter (fun j => !specNanPos isNan lines j) (List.range (minLen lines))).filterMap
            (fun j => l.rows[j]?) := by
          apply List.mem_filterMap.mpr
          refine ⟨j, List.mem_filter.mpr ⟨hj, ?_⟩, hrow⟩
          simpa using hn
        have := h1 row hmem
        cases hc : row[c]? with
        | none => rfl
        | some x => simpa [hc] using this
  · intro h l hl
    rw [select_rows_full _ _ l (hr l hl)]
    intro row hrow
    obtain ⟨j, hj, hjr⟩ := List.mem_filterMap.mp hrow
    have hjL := (List.mem_filter.mp hj).1
    have := h l hl j hjL
    rw [hjr] at this
    simp only [Option.all_some] at this
    cases hc : row[c]? with
    | none => rfl
    | some x => simpa [hc] using this

/-! ## the theorem -/

theorem specPos_false (isNan : α → Bool) (lines : List (Line α)) :
    specPos isNan false lines = List.range (minLen lines) := by
  unfold specPos
  rw [cutLen_eq_minLen]
  simp

theorem specPos_true (isNan : α → Bool) (lines : List (Line α)) :
    specPos isNan true lines = (List.range (minLen lines)).filter (fun j => !specNanPos isNan lines j) := by
  unfold specPos
  rw [cutLen_eq_minLen]
  simp

/-- **the mechanism's post-processing computes the pointwise specification** -/
theorem post_stack_eq_spec {P : Type} (isNan : α → Bool) (rp : Vendor → Image α → P) (v : Vendor)
    (lines : List (Line α)) (hr : Rect lines) :
    post isNan rp v (stack lines) = specPost isNan rp v lines := by
  have hb : ∀ c ∈ List.range (hdrOf lines).length, c < (hdrOf lines).length ∧ c < (hdrOf lines).length := by
    intro c hc
    have : c < (hdrOf lines).length := by simpa using hc
    exact ⟨this, this⟩
  have hbr : ∀ c ∈ List.range (hdrOf lines).length,
      c < (List.range (hdrOf lines).length).length ∧ c < (hdrOf lines).length := by
    intro c hc
    have : c < (hdrOf lines).length := by simpa using hc
    exact ⟨by simpa using this, this⟩
  unfold post specPost
  cases hv : dropsNan v with
  | false =>
    simp only [Bool.false_eq_true, if_false]
    have hstack := stack_eq_select lines hr
    -- the image the parameters are read from
    have hfull : specImage isNan false (fun _ => true) lines = stack lines := by
      rw [specImage_eq_select, specPos_false, hstack]
      congr 1
      unfold specCols
      apply List.filter_eq_self.mpr
      intro c hc
      have : c < (hdrOf lines).length := by simpa using hc
      simp [this]
    rw [hfull]
    congr 1
    -- the returned image
    rw [specImage_eq_select, specPos_false]
    unfold dropFields
    have hn : (stack lines).names = (List.range (hdrOf lines).length).filterMap (fun c => (hdrOf lines)[c]?) :=
      (filterMap_range_getElem? _).symm
    rw [hn]
    conv => lhs; rw [hstack]
    rw [dropCols_select _ (hdrOf lines) _ _ _ _ hb hr]
    congr 1
    unfold specCols
    apply List.filter_congr
    intro c hc
    have : c < (hdrOf lines).length := by simpa using hc
    simp [this]
  | true =>
    simp only [if_true]
    have hd0 := dropNanRows_stack isNan lines hr
    -- the all-NaN fields
    have hd1 : dropNanCols isNan (dropNanRows isNan (stack lines))
        = selectImage (specPos isNan true lines) (specCols isNan true (fun _ => true) (hdrOf lines) lines)
            (hdrOf lines) lines := by
      unfold dropNanCols
      have hnl : (dropNanRows isNan (stack lines)).names.length = (hdrOf lines).length := rfl
      rw [hnl]
      have hm : (List.range (hdrOf lines).length).map (nanCol isNan (dropNanRows isNan (stack lines)))
          = ((List.range (hdrOf lines).length).filterMap (fun c => (List.range (hdrOf lines).length)[c]?)).map
              (nanCol isNan (dropNanRows isNan (stack lines))) := by
        rw [filterMap_range_self]
      rw [hm]
      conv => lhs; arg 2; rw [hd0]
      rw [dropCols_select _ (List.range (hdrOf lines).length) _ _ _ _ hbr hr, specPos_true]
      congr 1
      unfold specCols
      apply List.filter_congr
      intro c hc
      have hc' : c < (hdrOf lines).length := by simpa using hc
      have e : (List.range (hdrOf lines).length)[c]? = some c := by simp [hc']
      rw [e]
      simp only [Option.any_some]
      rw [hd0, nanCol_select isNan lines hr c, cutLen_eq_minLen]
      simp [hc']
    rw [hd1]
    congr 1
    rw [specImage_eq_select]
    unfold dropFields
    have hn : (selectImage (specPos isNan true lines) (specCols isNan true (fun _ => true) (hdrOf lines) lines)
        (hdrOf lines) lines).names
        = (specCols isNan true (fun _ => true) (hdrOf lines) lines).filterMap (fun c => (hdrOf lines)[c]?) := rfl
    rw [hn]
    have hb' : ∀ c ∈ specCols isNan true (fun _ => true) (hdrOf lines) lines,
        c < (hdrOf lines).length ∧ c < (hdrOf lines).length := by
      intro c hc
      exact hb c (List.mem_filter.mp hc).1
    rw [dropCols_select _ (hdrOf lines) _ _ _ _ hb' hr]
    congr 1
    unfold specCols
    rw [List.filter_filter]
    apply List.filter_congr
    intro c hc
    have hc' : c < (hdrOf lines).length := by simpa using hc
    simp [hc']

end Pew.CsvDir
