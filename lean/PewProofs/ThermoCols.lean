import PewProofs.ThermoRows

/-! # C03 — the samples-in-columns reader on a rendered acquisition -/
namespace Pew.Thermo

/-- hypotheses for reading channel `ci` back from the samples-in-columns export -/
structure ColsOK {α : Type} (x : Ext α) (sh : Nat → String) (comma : Bool) (a : Acq) (ci : Nat) : Prop where
  nsamples : 0 < a.samples.length
  /-- sample names are not empty (the sample count is the number of non-empty fields of line 1) -/
  sampleNames : ∀ s ∈ a.samples, s ≠ ""
  nscans : 0 < a.nscans
  nelements : 0 < a.elements.length
  /-- at least two lines of the requested channel (two scans, as in the property's quantifier, or two
  elements): a single selected line makes `genfromtxt` return a 0-d record and the reader raises -/
  lines : 2 ≤ a.elements.length * a.nscans
  distinct : a.elements.Nodup
  /-- labels fit the 32-character name field and are not changed by the decimal-comma replacement -/
  labels : ∀ e ∈ a.elements, trunc 32 (fixDec comma e) = e
  chanIdx : ci < a.channels.length
  /-- lines are selected by `channel in line`: the requested channel name occurs in its own lines only -/
  chanSelf : ∀ c, c < a.channels.length → hasSub (a.chan ci) (a.chan c) = (c == ci)
  chanMain : hasSub (a.chan ci) "MainRuns" = false
  chanEol : hasSub (a.chan ci) "\n" = false
  chanScan : ∀ s, s < a.nscans → hasSub (a.chan ci) (sh s) = false
  chanLabel : ∀ e ∈ a.elements, hasSub (a.chan ci) e = false
  chanValue : ∀ i, i < a.samples.length → ∀ s, s < a.nscans → ∀ e, e < a.elements.length → ∀ c, c < a.channels.length →
    hasSub (a.chan ci) (a.value i s e c) = false
  /-- scan numbers survive `str` → `int` -/
  scans : ∀ s, s < a.nscans → x.readInt (fixDec comma (sh s)) = some (s : Int)

/-- the selected lines of the columns layout: every element, channel `ci`, every scan -/
def colsSel (m k ci : Nat) : List (Nat × Nat × Nat) :=
  (List.range k).flatMap fun e => (List.range m).map fun s => (s, e, ci)

theorem mem_colsSel {m k ci : Nat} {x : Nat × Nat × Nat} : x ∈ colsSel m k ci ↔ x.1 < m ∧ x.2.1 < k ∧ x.2.2 = ci := by
  unfold colsSel
  simp only [List.mem_flatMap, List.mem_range, List.mem_map]
  constructor
  · rintro ⟨e, he, s, hs, rfl⟩; exact ⟨hs, he, rfl⟩
  · rintro ⟨h1, h2, h3⟩; exact ⟨x.2.1, h2, x.1, h1, by rw [← h3]⟩

theorem mem_enumCols {m k C : Nat} {x : Nat × Nat × Nat} : x ∈ enumCols m k C ↔ x.1 < m ∧ x.2.1 < k ∧ x.2.2 < C := by
  unfold enumCols
  simp only [List.mem_flatMap, List.mem_range, List.mem_map]
  constructor
  · rintro ⟨e, he, c, hc, s, hs, rfl⟩; exact ⟨hs, he, hc⟩
  · rintro ⟨h1, h2, h3⟩; exact ⟨x.2.1, h2, x.2.2, h3, x.1, h1, rfl⟩

theorem enumCols_filter (m k C ci : Nat) (h : ci < C) (q : Nat → Bool) (hq : ∀ c, c < C → q c = (c == ci)) :
    (enumCols m k C).filter (fun x => q x.2.2) = colsSel m k ci := by
  unfold enumCols colsSel
  rw [List.filter_flatMap]
  congr 1
  funext e
  rw [filter_flatMap_outer (fun c => (List.range m).map fun s => (s, e, c)) (fun x => q x.2.2) q]
  · rw [filter_range_single C ci h q hq]
    simp
  · intro c _ y hy
    obtain ⟨s, _, rfl⟩ := List.mem_map.mp hy
    rfl

theorem colsSel_filter_elem (m k ci ei : Nat) (h : ei < k) (q : Nat → Bool) (hq : ∀ e, e < k → q e = (e == ei)) :
    (colsSel m k ci).filter (fun x => q x.2.1) = (List.range m).map (fun s => (s, ei, ci)) := by
  unfold colsSel
  rw [filter_flatMap_outer (fun e => (List.range m).map fun s => (s, e, ci)) (fun x => q x.2.1) q]
  · rw [filter_range_single k ei h q hq]
    simp
  · intro e _ y hy
    obtain ⟨s, _, rfl⟩ := List.mem_map.mp hy
    rfl

theorem length_colsSel (m k ci : Nat) : (colsSel m k ci).length = k * m := by
  unfold colsSel
  induction k with
  | zero => simp
  | succ k ih =>
    rw [List.range_succ, List.flatMap_append, List.length_append, ih]
    simp [Nat.succ_mul]

theorem flatMap_elems {β : Type} (a : Acq) (F : String → List β) :
    (List.range a.elements.length).flatMap (fun ei => F (a.elem ei)) = a.elements.flatMap F := by
  have h := map_getD_range a.elements
  conv => rhs; rw [← h]
  rw [List.flatMap_map]
  rfl


def recOf {α : Type} (x : Ext α) (comma : Bool) (a : Acq) (y : Nat × Nat × Nat) : ColRec α :=
  { scan := (y.1 : Int), name := a.elem y.2.1,
    data := (List.range a.samples.length).map (fun i => x.parse (fixDec comma (a.value i y.1 y.2.1 y.2.2))) }

/-- a selected line as `genfromtxt` sees it -/
def gfColLine (sh : Nat → String) (comma : Bool) (a : Acq) (y : Nat × Nat × Nat) : Row :=
  "MainRuns" :: fixDec comma (sh y.1) :: fixDec comma (a.elem y.2.1) :: fixDec comma (a.chan y.2.2) ::
    ((List.range a.samples.length).map (fun i => fixDec comma (a.value i y.1 y.2.1 y.2.2)) ++ [""])

theorem lineStarts_blank (r : Row) : lineStarts ("" :: r) = false := by
  simp only [lineStarts]; decide

theorem lineStarts_main (r : Row) : lineStarts ("MainRuns" :: r) = true := by
  simp only [lineStarts]; decide

theorem readCols_render_aux {α : Type} (x : Ext α) (sh : Nat → String) (comma : Bool) (a : Acq) (ci : Nat)
    (h : ColsOK x sh comma a ci) :
    readCols x comma (a.chan ci) (renderCols sh a) = some (specImg x comma a ci) := by
  obtain ⟨hn, hsn, hm, hk, hkm, hnd, hlab, hci, hself, hmain, heol, hcscan, hclab, hcval, hsc⟩ := h
  -- the sample count
  have hfirst : gfSplit (["", "", "", ""] ++ a.samples ++ ["\n"]) = "" :: ((["", "", ""] ++ a.samples) ++ [""]) := by
    have := gfSplit_line "" (["", "", ""] ++ a.samples)
    simpa [lstrip_empty] using this
  have hcount : (gfSplit (["", "", "", ""] ++ a.samples ++ ["\n"])).countP (fun f => f != "") = a.samples.length := by
    rw [hfirst]
    simp only [List.cons_append, List.nil_append, List.countP_append, List.countP_cons, List.countP_nil]
    have : a.samples.countP (fun f => f != "") = a.samples.length := by
      rw [List.countP_eq_length]
      intro s hs
      simpa using hsn s hs
    simp [this]
  -- line selection
  have hline : ∀ y ∈ enumCols a.nscans a.elements.length a.channels.length,
      (lineStarts (colLine sh a y) && lineHas (a.chan ci) (colLine sh a y)) = (y.2.2 == ci) := by
    intro y hy
    obtain ⟨h1, h2, h3⟩ := mem_enumCols.mp hy
    unfold colLine
    simp only [List.cons_append, List.nil_append, lineStarts_main, Bool.true_and, lineHas, List.any_cons, List.any_append,
      List.any_map, List.any_nil, Bool.or_false, hmain, hcscan y.1 h1, hclab _ (elem_mem a y.2.1 h2), hself y.2.2 h3,
      heol, Bool.false_or]
    have : (List.range a.samples.length).any ((hasSub (a.chan ci)) ∘ fun i => a.value i y.1 y.2.1 y.2.2) = false := by
      rw [List.any_eq_false]; intro i hi; simp [hcval i (List.mem_range.mp hi) y.1 h1 y.2.1 h2 y.2.2 h3]
    rw [this]; simp
  have hsel : ((["", "", "", ""] ++ a.samples.map (fun _ => "<Identifier>") ++ ["\n"]) ::
        (enumCols a.nscans a.elements.length a.channels.length).map (colLine sh a)).filter
          (fun r => lineStarts r && lineHas (a.chan ci) r)
      = (colsSel a.nscans a.elements.length ci).map (colLine sh a) := by
    rw [List.filter_cons]
    have : lineStarts (["", "", "", ""] ++ a.samples.map (fun _ => "<Identifier>") ++ ["\n"]) = false := lineStarts_blank _
    simp only [this, Bool.false_and, Bool.false_eq_true, if_false, List.filter_map]
    congr 1
    rw [← enumCols_filter a.nscans a.elements.length a.channels.length ci hci (fun c => c == ci) (fun _ _ => rfl)]
    apply List.filter_congr
    intro y hy
    exact hline y hy
  -- the selected lines as `genfromtxt` sees them
  have hlines : gfLinesWith gfSplit comma ((colsSel a.nscans a.elements.length ci).map (colLine sh a))
      = (colsSel a.nscans a.elements.length ci).map (gfColLine sh comma a) := by
    apply gfLines_map
    · intro y hy
      obtain ⟨hy1, hy2, hy3⟩ := mem_colsSel.mp hy
      unfold colLine gfColLine
      simp only [List.cons_append, List.nil_append, List.map_cons, List.map_append, List.map_map, List.map_nil, fixDec_main, fixDec_eol]
      have := gfSplit_line "MainRuns"
        (fixDec comma (sh y.1) :: fixDec comma (a.elem y.2.1) :: fixDec comma (a.chan y.2.2) ::
          (List.range a.samples.length).map (fun i => fixDec comma (a.value i y.1 y.2.1 y.2.2)))
      simpa [lstrip_main, Function.comp_def] using this
    · intro y _; rfl
  have hlen : ((colsSel a.nscans a.elements.length ci).map (gfColLine sh comma a)).length = a.elements.length * a.nscans := by
    rw [List.length_map, length_colsSel]
  have hne : (colsSel a.nscans a.elements.length ci).map (gfColLine sh comma a) ≠ [] := by
    intro he; rw [he] at hlen; simp at hlen; omega
  have hsame : sameLen ((colsSel a.nscans a.elements.length ci).map (gfColLine sh comma a)) = some (a.samples.length + 5) := by
    apply sameLen_of_all _ _ hne
    intro r hr
    obtain ⟨y, _, rfl⟩ := List.mem_map.mp hr
    simp [gfColLine]
  have hparse : ((colsSel a.nscans a.elements.length ci).map (gfColLine sh comma a)).map (parseColLine x a.samples.length)
      = (colsSel a.nscans a.elements.length ci).map (recOf x comma a) := by
    rw [List.map_map]
    apply List.map_congr_left
    intro y hy
    obtain ⟨hy1, hy2, hy3⟩ := mem_colsSel.mp hy
    simp only [Function.comp, gfColLine, parseColLine, recOf, List.getD_cons_succ, List.getD_cons_zero, List.drop_succ_cons, List.drop_zero,
      hsc y.1 hy1, hlab _ (elem_mem a y.2.1 hy2), Option.getD_some]
    congr 1
    rw [List.take_append_of_le_length (by simp)]
    rw [List.take_of_length_le (by simp), List.map_map]
    rfl
  have h2 : (((colsSel a.nscans a.elements.length ci).map (gfColLine sh comma a)).length == 1) = false := by
    rw [hlen]; simp; omega
  have h0 : (a.samples.length == 0) = false := by
    rw [beq_eq_false_iff_ne]; exact Nat.pos_iff_ne_zero.mp hn
  have h3 : ¬ (a.samples.length + 5 < 4 + a.samples.length) := by omega
  have hnames : firstApp ((colsSel a.nscans a.elements.length ci).map ((fun r : ColRec α => r.name) ∘ recOf x comma a)) = a.elements := by
    have : (colsSel a.nscans a.elements.length ci).map ((fun r : ColRec α => r.name) ∘ recOf x comma a)
        = a.elements.flatMap (fun e => (List.range a.nscans).map (fun _ => e)) := by
      rw [← flatMap_elems]
      unfold colsSel
      rw [List.map_flatMap]
      congr 1
      funext e
      rw [List.map_map]
      rfl
    rw [this]
    exact firstApp_runs a.elements [] a.nscans hm hnd (by simp)
  have hw : maxInt ((colsSel a.nscans a.elements.length ci).map ((fun r : ColRec α => r.scan) ∘ recOf x comma a)) + 1 = (a.nscans : Int) := by
    have : (colsSel a.nscans a.elements.length ci).map ((fun r : ColRec α => r.scan) ∘ recOf x comma a)
        = ((colsSel a.nscans a.elements.length ci).map (·.1)).map (fun (y : Nat) => (y : Int)) := by
      rw [List.map_map]; rfl
    rw [this]
    apply maxInt_eq _ _ hm
    · intro y hy
      obtain ⟨z, hz, rfl⟩ := List.mem_map.mp hy
      exact (mem_colsSel.mp hz).1
    · exact List.mem_map.mpr ⟨(a.nscans - 1, 0, ci), mem_colsSel.mpr ⟨by simp; omega, hk, rfl⟩, rfl⟩
  have h4 : ¬ ((a.nscans : Int) < 0) := by omega
  unfold renderCols readCols readColsWith
  simp only [hcount, hsel, hlines, h0, h2, hsame, h3, hparse, Bool.false_eq_true, if_false, List.map_map, hnames, hw, h4,
    Int.toNat_natCast]
  rw [map_elems]
  have hpl : allSome ((List.range a.elements.length).map (fun ei =>
      fitCols a.nscans (((colsSel a.nscans a.elements.length ci).map (recOf x comma a)).filter (fun r => r.name == a.elem ei)).length
      (transposeN a.samples.length
        ((((colsSel a.nscans a.elements.length ci).map (recOf x comma a)).filter (fun r => r.name == a.elem ei)).map (·.data)))))
      = some (specImg x comma a ci).planes := by
    unfold specImg
    apply allSome_map
    intro ei hei
    have hei' := List.mem_range.mp hei
    have hfilt : ((colsSel a.nscans a.elements.length ci).map (recOf x comma a)).filter (fun r => r.name == a.elem ei)
        = ((List.range a.nscans).map (fun s => (s, ei, ci))).map (recOf x comma a) := by
      rw [List.filter_map]
      have := colsSel_filter_elem a.nscans a.elements.length ci ei hei' (fun e => a.elem e == a.elem ei)
        (fun e he => elem_inj a hnd e ei he hei')
      have hf : (colsSel a.nscans a.elements.length ci).filter ((fun r : ColRec α => r.name == a.elem ei) ∘ recOf x comma a)
          = (colsSel a.nscans a.elements.length ci).filter (fun y => a.elem y.2.1 == a.elem ei) := rfl
      rw [hf, this]
    have hrows : (((List.range a.nscans).map (fun s => (s, ei, ci))).map (recOf x comma a)).map (·.data)
        = (List.range a.nscans).map (fun s => (List.range a.samples.length).map (fun i => x.parse (fixDec comma (a.value i s ei ci)))) := by
      rw [List.map_map, List.map_map]
      rfl
    rw [hfilt, hrows]
    have htr : transposeN a.samples.length
        ((List.range a.nscans).map (fun s => (List.range a.samples.length).map (fun i => x.parse (fixDec comma (a.value i s ei ci)))))
        = (List.range a.samples.length).map (fun i => (List.range a.nscans).map (fun s => x.parse (fixDec comma (a.value i s ei ci)))) := by
      unfold transposeN
      apply List.map_congr_left
      intro i hi
      have hi' := List.mem_range.mp hi
      rw [List.filterMap_map]
      have : ((fun r : List α => r[i]?) ∘ fun s => (List.range a.samples.length).map (fun i => x.parse (fixDec comma (a.value i s ei ci))))
          = fun s => some (x.parse (fixDec comma (a.value i s ei ci))) := by
        funext s
        simp [hi']
      rw [this, List.filterMap_eq_map']
    rw [htr]
    simp only [List.length_map, List.length_range]
    exact fitCols_ok _ _
  rw [hpl]
  rfl

end Pew.Thermo
