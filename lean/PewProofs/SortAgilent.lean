import Mathlib.Data.List.Sort
import Mathlib.Order.Basic
import Mathlib.Data.List.Pairwise

/-! Stable-sort lemmas used by C02 (moved from `design/spikes/SortInvariant.lean`, generalised from a
`Nat` key to any comparison that is transitive, total and antisymmetric on the elements sorted).
C04 keeps its own copy in its own file, hence the separate namespace. -/
namespace Pew.SortAgilent

variable {α : Type}

/-- two permutations of a list on which `le` is antisymmetric merge-sort to the same list -/
theorem mergeSort_perm_invariant (le : α → α → Bool)
    (ht : ∀ a b c : α, le a b = true → le b c = true → le a c = true)
    (htot : ∀ a b : α, (le a b || le b a) = true)
    (l₁ l₂ : List α) (hp : l₁.Perm l₂)
    (hanti : ∀ a ∈ l₁, ∀ b ∈ l₁, le a b = true → le b a = true → a = b) :
    l₁.mergeSort le = l₂.mergeSort le := by
  have s1 := List.pairwise_mergeSort (le := le) ht htot l₁
  have s2 := List.pairwise_mergeSort (le := le) ht htot l₂
  have p : (l₁.mergeSort le).Perm (l₂.mergeSort le) :=
    (List.mergeSort_perm _ _).trans (hp.trans (List.mergeSort_perm _ _).symm)
  apply List.Perm.eq_of_pairwise (le := fun a b => le a b = true) _ s1 s2 p
  intro a b ha hb h1 h2
  have ha' : a ∈ l₁ := (List.mergeSort_perm _ _).mem_iff.mp ha
  have hb' : b ∈ l₁ := hp.mem_iff.mpr ((List.mergeSort_perm _ _).mem_iff.mp hb)
  exact hanti a ha' b hb' h1 h2

/-- a permutation of an already sorted list (antisymmetric on its elements) sorts to that list -/
theorem mergeSort_eq_sorted_of_perm (le : α → α → Bool)
    (ht : ∀ a b c : α, le a b = true → le b c = true → le a c = true)
    (htot : ∀ a b : α, (le a b || le b a) = true)
    (l s : List α) (hp : l.Perm s) (hs : s.Pairwise (fun a b => le a b = true))
    (hanti : ∀ a ∈ s, ∀ b ∈ s, le a b = true → le b a = true → a = b) :
    l.mergeSort le = s := by
  rw [mergeSort_perm_invariant le ht htot l s hp
    (fun a ha b hb => hanti a (hp.mem_iff.mp ha) b (hp.mem_iff.mp hb))]
  exact List.mergeSort_of_pairwise hs

section keys
variable {κ : Type} [LinearOrder κ] (key : α → κ)

theorem keyLe_trans (a b c : α) :
    decide (key a ≤ key b) = true → decide (key b ≤ key c) = true → decide (key a ≤ key c) = true := by
  simp only [decide_eq_true_eq]; exact le_trans

theorem keyLe_total (a b : α) : (decide (key a ≤ key b) || decide (key b ≤ key a)) = true := by
  simp only [Bool.or_eq_true, decide_eq_true_eq]; exact le_total _ _

/-- sorting by a key: the result is a permutation, ascending in the key -/
theorem sortKey_perm (l : List α) : (l.mergeSort (fun a b => decide (key a ≤ key b))).Perm l :=
  List.mergeSort_perm _ _

theorem sortKey_sorted (l : List α) :
    (l.mergeSort (fun a b => decide (key a ≤ key b))).Pairwise (fun a b => key a ≤ key b) := by
  have := List.pairwise_mergeSort (le := fun a b => decide (key a ≤ key b)) (keyLe_trans key) (keyLe_total key) l
  simpa using this

/-- keys pairwise distinct ⇒ the sorted list does not depend on the input order -/
theorem sortKey_perm_invariant (l₁ l₂ : List α) (hp : l₁.Perm l₂)
    (hinj : ∀ a ∈ l₁, ∀ b ∈ l₁, key a = key b → a = b) :
    l₁.mergeSort (fun a b => decide (key a ≤ key b)) = l₂.mergeSort (fun a b => decide (key a ≤ key b)) := by
  apply mergeSort_perm_invariant _ (keyLe_trans key) (keyLe_total key) l₁ l₂ hp
  intro a ha b hb h1 h2
  simp only [decide_eq_true_eq] at h1 h2
  exact hinj a ha b hb (le_antisymm h1 h2)

/-- a permutation of a list that is strictly ascending in the key sorts to that list -/
theorem sortKey_of_perm_strict (l s : List α) (hp : l.Perm s)
    (hs : s.Pairwise (fun a b => key a < key b)) :
    l.mergeSort (fun a b => decide (key a ≤ key b)) = s := by
  apply mergeSort_eq_sorted_of_perm _ (keyLe_trans key) (keyLe_total key) l s hp
  · exact hs.imp (fun h => by simpa using le_of_lt h)
  · intro a ha b hb h1 h2
    simp only [decide_eq_true_eq] at h1 h2
    have hk : key a = key b := le_antisymm h1 h2
    by_contra hne
    -- two distinct elements of a strictly ascending list have distinct keys
    have : Std.Symm (fun x y : α => key x ≠ key y) := ⟨fun _ _ h => h.symm⟩
    exact (hs.imp (fun h => ne_of_lt h)).forall (R := fun x y : α => key x ≠ key y) ha hb hne hk
end keys

end Pew.SortAgilent

namespace Pew.SortAgilent
variable {α : Type}

/-- a permutation of a list that is strictly ascending for `le` (each later element is `le`-above
and not `le`-below each earlier one) sorts to that list -/
theorem mergeSort_eq_of_perm_strict (le : α → α → Bool)
    (ht : ∀ a b c : α, le a b = true → le b c = true → le a c = true)
    (htot : ∀ a b : α, (le a b || le b a) = true)
    (l s : List α) (hp : l.Perm s)
    (hs : s.Pairwise (fun a b => le a b = true ∧ le b a = false)) :
    l.mergeSort le = s := by
  apply mergeSort_eq_sorted_of_perm le ht htot l s hp (hs.imp (fun h => h.1))
  intro a ha b hb h1 h2
  by_contra hne
  have : Std.Symm (fun x y : α => (le x y = true ∧ le y x = false) ∨ (le y x = true ∧ le x y = false)) :=
    ⟨fun _ _ h => h.symm⟩
  have := (hs.imp (fun {x y} (h : le x y = true ∧ le y x = false) =>
    (Or.inl h : (le x y = true ∧ le y x = false) ∨ (le y x = true ∧ le x y = false)))).forall ha hb hne
  rcases this with h | h
  · rw [h2] at h; exact absurd h.2 (by simp)
  · rw [h1] at h; exact absurd h.2 (by simp)

end Pew.SortAgilent
