import PewModel.Colocal
import Mathlib.Tactic.Ring
import Mathlib.Tactic.Linarith
import Mathlib.Tactic.FieldSimp
import Mathlib.Algebra.Order.Field.Rat
import Mathlib.Analysis.Real.Sqrt
import Mathlib.Data.List.Perm.Subperm
import Mathlib.Data.List.Nodup

/-! helper lemmas for C14 -/
namespace Pew.Colocal

/-! ### sums -/

theorem mulL_comm (x y : List Rat) : mulL x y = mulL y x := by
  unfold mulL
  exact List.zipWith_comm_of_comm (fun a b => mul_comm a b)

theorem mulL_length (x y : List Rat) (h : x.length = y.length) : (mulL x y).length = x.length := by
  simp [mulL, h]

theorem sum_eq_length_mul_mean (x : List Rat) (hx : x ≠ []) : x.sum = (x.length : Rat) * mean x := by
  have : (x.length : Rat) ≠ 0 := by
    have : 0 < x.length := List.length_pos_iff.mpr hx
    exact_mod_cast this.ne'
  unfold mean
  field_simp

/-- `Σ (a-c)(b-d) = Σ ab - c Σ b - d Σ a + n c d` -/
theorem sum_centred (c d : Rat) (x y : List Rat) (h : x.length = y.length) :
    (List.zipWith (fun a b => (a - c) * (b - d)) x y).sum
      = (mulL x y).sum - c * y.sum - d * x.sum + (x.length : Rat) * c * d := by
  induction x generalizing y with
  | nil => cases y <;> simp [mulL] at *
  | cons a x ih =>
    cases y with
    | nil => simp at h
    | cons b y =>
      have h' : x.length = y.length := by simpa using h
      have := ih y h'
      simp only [List.zipWith_cons_cons, List.sum_cons, mulL, List.length_cons, Nat.cast_add, Nat.cast_one] at this ⊢
      rw [this]; ring

theorem cov_eq_centred (x y : List Rat) (h : x.length = y.length) (hx : x ≠ []) :
    cov x y = covCentred x y := by
  have hy : y ≠ [] := by intro e; rw [e] at h; exact hx (List.length_eq_zero_iff.mp h)
  have hn : (x.length : Rat) ≠ 0 := by
    have : 0 < x.length := List.length_pos_iff.mpr hx
    exact_mod_cast this.ne'
  have hl : (List.zipWith (fun a b => (a - mean x) * (b - mean y)) x y).length = x.length := by simp [h]
  have e1 : covCentred x y = ((mulL x y).sum - mean x * y.sum - mean y * x.sum
      + (x.length : Rat) * mean x * mean y) / (x.length : Rat) := by
    unfold covCentred
    rw [mean, hl, sum_centred (mean x) (mean y) x y h]
  have e2 : cov x y = (mulL x y).sum / (x.length : Rat) - mean x * mean y := by
    unfold cov
    rw [mean, mulL_length x y h]
  rw [e1, e2, sum_eq_length_mul_mean x hx, sum_eq_length_mul_mean y hy, ← h]
  field_simp
  ring

theorem var_eq_centred (x : List Rat) : var x = covCentred x x := by
  unfold var covCentred
  congr 1
  induction x with
  | nil => rfl
  | cons a x _ => simp [List.zipWith_self]

/-! ### Cauchy–Schwarz for lists -/

theorem sum_sq_nonneg (a : List Rat) : 0 ≤ (a.map (fun v => v * v)).sum := by
  apply List.sum_nonneg
  intro v hv
  rw [List.mem_map] at hv
  obtain ⟨w, _, rfl⟩ := hv
  exact mul_self_nonneg w

theorem cauchy_schwarz (a b : List Rat) :
    (List.zipWith (· * ·) a b).sum * (List.zipWith (· * ·) a b).sum
      ≤ (a.map (fun v => v * v)).sum * (b.map (fun v => v * v)).sum := by
  induction a generalizing b with
  | nil => simp
  | cons u a ih =>
    cases b with
    | nil =>
      simp only [List.zipWith_nil_right, List.sum_nil, List.map_nil, mul_zero, le_refl]
    | cons v b =>
      have h := ih b
      have hP := sum_sq_nonneg a
      have hQ := sum_sq_nonneg b
      simp only [List.zipWith_cons_cons, List.sum_cons, List.map_cons]
      set S := (List.zipWith (· * ·) a b).sum
      set P := (a.map (fun v => v * v)).sum
      set Q := (b.map (fun v => v * v)).sum
      -- 2uvS ≤ u²Q + v²P  because (u²Q + v²P)² - (2uvS)² = (u²Q - v²P)² + 4u²v²(PQ - S²) ≥ 0
      have key : 2 * (u * v) * S ≤ u * u * Q + v * v * P := by
        have hnn : 0 ≤ u * u * Q + v * v * P :=
          add_nonneg (mul_nonneg (mul_self_nonneg u) hQ) (mul_nonneg (mul_self_nonneg v) hP)
        have hsq : (2 * (u * v) * S) ^ 2 ≤ (u * u * Q + v * v * P) ^ 2 := by
          have : (u * u * Q + v * v * P) ^ 2 - (2 * (u * v) * S) ^ 2
              = (u * u * Q - v * v * P) ^ 2 + 4 * (u * v) ^ 2 * (P * Q - S * S) := by ring
          have h1 : 0 ≤ (u * u * Q - v * v * P) ^ 2 := sq_nonneg _
          have h2 : 0 ≤ 4 * (u * v) ^ 2 * (P * Q - S * S) := by
            apply mul_nonneg (by positivity); linarith
          linarith
        exact le_trans (le_abs_self _) (abs_le_of_sq_le_sq hsq hnn)
      nlinarith [key, h]

theorem centred_as_zip (x y : List Rat) (c d : Rat) :
    List.zipWith (fun a b => (a - c) * (b - d)) x y
      = List.zipWith (· * ·) (x.map (· - c)) (y.map (· - d)) := by
  rw [List.zipWith_map]

theorem length_pos_cast (x : List Rat) (hx : x ≠ []) : (0 : Rat) < (x.length : Rat) := by
  have : 0 < x.length := List.length_pos_iff.mpr hx
  exact_mod_cast this

theorem covCentred_eq (x y : List Rat) (h : x.length = y.length) :
    covCentred x y
      = (List.zipWith (· * ·) (x.map (· - mean x)) (y.map (· - mean y))).sum / (x.length : Rat) := by
  have l1 : (List.zipWith (fun a b => (a - mean x) * (b - mean y)) x y).length = x.length := by simp [h]
  rw [covCentred, mean, l1, centred_as_zip]

/-- `cov² ≤ var x · var y` -/
theorem cov_sq_le (x y : List Rat) (h : x.length = y.length) (hx : x ≠ []) :
    cov x y * cov x y ≤ var x * var y := by
  have hn := length_pos_cast x hx
  rw [cov_eq_centred x y h hx, var_eq_centred x, var_eq_centred y, covCentred_eq x y h,
    covCentred_eq x x rfl, covCentred_eq y y rfl, ← h]
  have cs := cauchy_schwarz (x.map (· - mean x)) (y.map (· - mean y))
  rw [List.zipWith_self, List.zipWith_self, div_mul_div_comm, div_mul_div_comm]
  rw [List.map_map, List.map_map] at cs
  rw [List.map_map, List.map_map]
  exact div_le_div_of_nonneg_right cs (le_of_lt (mul_pos hn hn))

theorem var_nonneg (x : List Rat) : 0 ≤ var x := by
  unfold var mean
  apply div_nonneg
  · apply List.sum_nonneg
    intro v hv
    rw [List.mem_map] at hv
    obtain ⟨w, _, rfl⟩ := hv
    exact mul_self_nonneg _
  · exact Nat.cast_nonneg _

/-! ### affine maps -/

theorem sum_affine (a b : Rat) (x : List Rat) :
    (x.map (fun v => a * v + b)).sum = a * x.sum + (x.length : Rat) * b := by
  induction x with
  | nil => simp
  | cons u x ih => simp only [List.map_cons, List.sum_cons, ih, List.length_cons, Nat.cast_add, Nat.cast_one]; ring

theorem mean_affine (a b : Rat) (x : List Rat) (hx : x ≠ []) :
    mean (x.map (fun v => a * v + b)) = a * mean x + b := by
  have hn := (length_pos_cast x hx).ne'
  unfold mean
  rw [sum_affine, List.length_map]
  field_simp

theorem sum_mulL_affine (a b : Rat) (x y : List Rat) (h : x.length = y.length) :
    (mulL (x.map (fun v => a * v + b)) y).sum = a * (mulL x y).sum + b * y.sum := by
  induction x generalizing y with
  | nil => cases y <;> simp [mulL] at *
  | cons u x ih =>
    cases y with
    | nil => simp at h
    | cons w y =>
      have := ih y (by simpa using h)
      simp only [mulL, List.map_cons, List.zipWith_cons_cons, List.sum_cons] at this ⊢
      rw [this]; ring

theorem cov_affine (a b : Rat) (x y : List Rat) (h : x.length = y.length) (hx : x ≠ []) :
    cov (x.map (fun v => a * v + b)) y = a * cov x y := by
  have hy : y ≠ [] := by intro e; rw [e] at h; exact hx (List.length_eq_zero_iff.mp h)
  have hn := (length_pos_cast x hx).ne'
  unfold cov
  rw [mean_affine a b x hx]
  unfold mean
  rw [mulL_length _ _ (by simpa using h), mulL_length _ _ h, sum_mulL_affine a b x y h, List.length_map, ← h]
  field_simp
  ring

theorem sum_sq_affine (a b m : Rat) (x : List Rat) :
    (x.map (fun v => ((a * v + b) - (a * m + b)) * ((a * v + b) - (a * m + b)))).sum
      = a * a * (x.map (fun v => (v - m) * (v - m))).sum := by
  induction x with
  | nil => simp
  | cons u x ih => simp only [List.map_cons, List.sum_cons, ih]; ring

theorem var_affine (a b : Rat) (x : List Rat) (hx : x ≠ []) :
    var (x.map (fun v => a * v + b)) = a * a * var x := by
  unfold var
  rw [mean_affine a b x hx, List.map_map]
  have : ((fun v => (v - (a * mean x + b)) * (v - (a * mean x + b))) ∘ fun v => a * v + b)
      = fun v => ((a * v + b) - (a * mean x + b)) * ((a * v + b) - (a * mean x + b)) := rfl
  rw [this]
  generalize mean x = m
  rw [mean, mean, sum_sq_affine, List.length_map, List.length_map]
  ring

/-! ### ICQ and Manders -/

theorem not_opposite_iff (a b : Rat) : decide (a * b ≥ 0) = !oppositeSigns a b := by
  unfold oppositeSigns
  rcases lt_trichotomy a 0 with ha | ha | ha <;> rcases lt_trichotomy b 0 with hb | hb | hb
  · have : a * b ≥ 0 := le_of_lt (mul_pos_of_neg_of_neg ha hb)
    simp [this, ha, hb, not_lt_of_gt ha, not_lt_of_gt hb]
  · simp [hb]
  · have : ¬ a * b ≥ 0 := not_le_of_gt (mul_neg_of_neg_of_pos ha hb)
    simp [this, ha, hb]
  · simp [ha]
  · simp [ha]
  · simp [ha]
  · have : ¬ a * b ≥ 0 := not_le_of_gt (mul_neg_of_pos_of_neg ha hb)
    simp [this, ha, hb]
  · simp [hb]
  · have : a * b ≥ 0 := le_of_lt (mul_pos ha hb)
    simp [this, ha, hb, not_lt_of_gt ha, not_lt_of_gt hb]

theorem sumWhere_bounds (x : List Rat) (c : List Bool) (hx : ∀ v ∈ x, 0 ≤ v) :
    0 ≤ sumWhere x c ∧ sumWhere x c ≤ x.sum := by
  unfold sumWhere
  induction x generalizing c with
  | nil => simp
  | cons u x ih =>
    have hu : 0 ≤ u := hx u (by simp)
    cases c with
    | nil =>
      simp only [List.zipWith_nil_right, List.sum_nil, le_refl, List.sum_cons, true_and]
      have : 0 ≤ x.sum := List.sum_nonneg (fun v hv => hx v (by simp [hv]))
      linarith
    | cons k c =>
      have := ih c (fun v hv => hx v (by simp [hv]))
      simp only [List.zipWith_cons_cons, List.sum_cons]
      cases k <;> simp <;> constructor <;> linarith [this.1, this.2]

theorem sumWhere_eq_filter (x y : List Rat) (t : Rat) :
    sumWhere x (y.map (fun b => decide (b > t)))
      = (((x.zip y).filter (fun p => decide (p.2 > t))).map (·.1)).sum := by
  unfold sumWhere
  induction x generalizing y with
  | nil => simp
  | cons u x ih =>
    cases y with
    | nil => simp
    | cons w y =>
      have := ih y
      simp only [List.map_cons, List.zipWith_cons_cons, List.sum_cons, List.zip_cons_cons, List.filter_cons]
      by_cases hw : w > t
      · simp [hw, this]
      · simp [hw, this]

/-! ### block shuffling: the source map on flat block indices -/

theorem selected_nodup (M : Nat → Nat → Bool) (b0 b1 nb0 nb1 : Nat) (part : Bool) :
    (selected M b0 b1 nb0 nb1 part).Nodup :=
  List.Nodup.filter _ List.nodup_range

theorem selected_lt (M : Nat → Nat → Bool) (b0 b1 nb0 nb1 : Nat) (part : Bool) (f : Nat)
    (hf : f ∈ selected M b0 b1 nb0 nb1 part) : f < nb0 * nb1 := by
  simp only [selected, List.mem_filter, List.mem_range] at hf
  exact hf.1

section src
variable (idx nidx : List Nat)

theorem src_of_not_mem (f : Nat) (hf : f ∉ idx) : src idx nidx f = f := by
  unfold src
  rw [if_neg]
  rw [List.idxOf_lt_length_iff]; exact hf

theorem src_of_mem (hp : nidx.Perm idx) (f : Nat) (hf : f ∈ idx) :
    ∃ (h : idx.idxOf f < nidx.length), src idx nidx f = nidx[idx.idxOf f] := by
  have h1 : idx.idxOf f < idx.length := List.idxOf_lt_length_iff.mpr hf
  have h2 : idx.idxOf f < nidx.length := by rw [hp.length_eq]; exact h1
  refine ⟨h2, ?_⟩
  unfold src
  rw [if_pos h1, List.getD_eq_getElem?_getD, List.getElem?_eq_getElem h2]
  rfl

theorem src_mem (hp : nidx.Perm idx) (f : Nat) (hf : f ∈ idx) : src idx nidx f ∈ idx := by
  obtain ⟨h, e⟩ := src_of_mem idx nidx hp f hf
  rw [e]
  exact hp.mem_iff.mp (List.getElem_mem h)

theorem src_mem_iff (hp : nidx.Perm idx) (f : Nat) : src idx nidx f ∈ idx ↔ f ∈ idx := by
  constructor
  · intro h
    by_contra hf
    rw [src_of_not_mem idx nidx f hf] at h
    exact hf h
  · exact src_mem idx nidx hp f

theorem src_inj (hp : nidx.Perm idx) (hnd : idx.Nodup) (f g : Nat)
    (h : src idx nidx f = src idx nidx g) : f = g := by
  by_cases hf : f ∈ idx
  · by_cases hg : g ∈ idx
    · obtain ⟨h1, e1⟩ := src_of_mem idx nidx hp f hf
      obtain ⟨h2, e2⟩ := src_of_mem idx nidx hp g hg
      rw [e1, e2] at h
      have hnd' : nidx.Nodup := hp.nodup_iff.mpr hnd
      have := (hnd'.getElem_inj_iff).mp h
      have a1 : idx.idxOf f < idx.length := List.idxOf_lt_length_iff.mpr hf
      have a2 : idx.idxOf g < idx.length := List.idxOf_lt_length_iff.mpr hg
      have b1 := List.getElem_idxOf a1
      have b2 := List.getElem_idxOf a2
      rw [← b1, ← b2]
      congr 1
    · have := src_mem idx nidx hp f hf
      rw [h, src_of_not_mem idx nidx g hg] at this
      exact absurd this hg
  · by_cases hg : g ∈ idx
    · have := src_mem idx nidx hp g hg
      rw [← h, src_of_not_mem idx nidx f hf] at this
      exact absurd this hf
    · rw [src_of_not_mem idx nidx f hf, src_of_not_mem idx nidx g hg] at h
      exact h

theorem src_lt (hp : nidx.Perm idx) (K : Nat) (hK : ∀ f ∈ idx, f < K) (f : Nat) (hf : f < K) :
    src idx nidx f < K := by
  by_cases h : f ∈ idx
  · exact hK _ (src_mem idx nidx hp f h)
  · rw [src_of_not_mem idx nidx f h]; exact hf

end src

/-! ### block arithmetic -/

theorem blk_lt (q n b r : Nat) (hq : q < n) (hr : r < b) : q * b + r < n * b := by
  have : (q + 1) * b ≤ n * b := Nat.mul_le_mul_right b hq
  rw [Nat.succ_mul] at this
  omega

theorem blk_div (q b r : Nat) (hr : r < b) : (q * b + r) / b = q := by
  have hb : 0 < b := by omega
  rw [Nat.mul_comm, Nat.mul_add_div hb, Nat.div_eq_of_lt hr, Nat.add_zero]

theorem blk_mod (q b r : Nat) (hr : r < b) : (q * b + r) % b = r := by
  rw [Nat.mul_comm, Nat.mul_add_mod, Nat.mod_eq_of_lt hr]

theorem blk_recompose (i b : Nat) : i / b * b + i % b = i := by
  rw [Nat.mul_comm]; exact Nat.div_add_mod i b

/-! ### the pixel map `phi` -/

/-- what the theorems need to know about the block grid and the permutation -/
structure Geo (b0 b1 nb0 nb1 N0 N1 : Nat) (idx nidx : List Nat) : Prop where
  hb0 : 0 < b0
  hb1 : 0 < b1
  hN0 : nb0 * b0 ≤ N0
  hN1 : nb1 * b1 ≤ N1
  hp : nidx.Perm idx
  hnd : idx.Nodup
  hlt : ∀ f ∈ idx, f < nb0 * nb1

section phi
variable {b0 b1 nb0 nb1 N0 N1 : Nat} {idx nidx : List Nat}

/-- the flat index of the block of a pixel inside the block grid, and its source -/
theorem flat_lt (i j : Nat) (h0 : i / b0 < nb0) (h1 : j / b1 < nb1) :
    i / b0 * nb1 + j / b1 < nb0 * nb1 := blk_lt _ _ _ _ h0 h1

theorem src_flat_lt (G : Geo b0 b1 nb0 nb1 N0 N1 idx nidx) (i j : Nat)
    (h0 : i / b0 < nb0) (h1 : j / b1 < nb1) :
    src idx nidx (i / b0 * nb1 + j / b1) / nb1 < nb0 ∧ src idx nidx (i / b0 * nb1 + j / b1) % nb1 < nb1 := by
  have hg := src_lt idx nidx G.hp _ G.hlt _ (flat_lt i j h0 h1)
  have hnb1 : 0 < nb1 := Nat.lt_of_le_of_lt (Nat.zero_le _) h1
  exact ⟨(Nat.div_lt_iff_lt_mul hnb1).mpr hg, Nat.mod_lt _ hnb1⟩

theorem phi_valid (i j : Nat) (h0 : i / b0 < nb0) (h1 : j / b1 < nb1) :
    phi b0 b1 nb0 nb1 idx nidx i j
      = (src idx nidx (i / b0 * nb1 + j / b1) / nb1 * b0 + i % b0,
         src idx nidx (i / b0 * nb1 + j / b1) % nb1 * b1 + j % b1) := by
  unfold phi
  rw [if_pos ⟨h0, h1⟩]

theorem phi_invalid (i j : Nat) (h : ¬ (i / b0 < nb0 ∧ j / b1 < nb1)) :
    phi b0 b1 nb0 nb1 idx nidx i j = (i, j) := by
  unfold phi
  rw [if_neg h]

/-- the source pixel lies in the working array -/
theorem phi_in_box (G : Geo b0 b1 nb0 nb1 N0 N1 idx nidx) (i j : Nat) (hi : i < N0) (hj : j < N1) :
    (phi b0 b1 nb0 nb1 idx nidx i j).1 < N0 ∧ (phi b0 b1 nb0 nb1 idx nidx i j).2 < N1 := by
  by_cases h : i / b0 < nb0 ∧ j / b1 < nb1
  · obtain ⟨g0, g1⟩ := src_flat_lt G i j h.1 h.2
    rw [phi_valid i j h.1 h.2]
    have a := blk_lt _ _ b0 (i % b0) g0 (Nat.mod_lt _ G.hb0)
    have b := blk_lt _ _ b1 (j % b1) g1 (Nat.mod_lt _ G.hb1)
    have := G.hN0; have := G.hN1
    exact ⟨by simp only; omega, by simp only; omega⟩
  · rw [phi_invalid i j h]; exact ⟨hi, hj⟩

/-- the offset inside the block is kept, and the block of the source is the permuted block -/
theorem phi_offset_block (G : Geo b0 b1 nb0 nb1 N0 N1 idx nidx) (i j : Nat)
    (h0 : i / b0 < nb0) (h1 : j / b1 < nb1) :
    (phi b0 b1 nb0 nb1 idx nidx i j).1 % b0 = i % b0 ∧
    (phi b0 b1 nb0 nb1 idx nidx i j).2 % b1 = j % b1 ∧
    (phi b0 b1 nb0 nb1 idx nidx i j).1 / b0 = src idx nidx (i / b0 * nb1 + j / b1) / nb1 ∧
    (phi b0 b1 nb0 nb1 idx nidx i j).2 / b1 = src idx nidx (i / b0 * nb1 + j / b1) % nb1 := by
  rw [phi_valid i j h0 h1]
  exact ⟨blk_mod _ _ _ (Nat.mod_lt _ G.hb0), blk_mod _ _ _ (Nat.mod_lt _ G.hb1),
    blk_div _ _ _ (Nat.mod_lt _ G.hb0), blk_div _ _ _ (Nat.mod_lt _ G.hb1)⟩

/-- pixels outside the block grid, and pixels of blocks that were not selected, are fixed -/
theorem phi_fix (i j : Nat)
    (h : ¬ (i / b0 < nb0 ∧ j / b1 < nb1) ∨ i / b0 * nb1 + j / b1 ∉ idx) :
    phi b0 b1 nb0 nb1 idx nidx i j = (i, j) := by
  by_cases hv : i / b0 < nb0 ∧ j / b1 < nb1
  · rcases h with h | h
    · exact absurd hv h
    · rw [phi_valid i j hv.1 hv.2, src_of_not_mem idx nidx _ h,
        blk_div _ _ _ hv.2, blk_mod _ _ _ hv.2, blk_recompose, blk_recompose]
  · exact phi_invalid i j hv

theorem phi_inj (G : Geo b0 b1 nb0 nb1 N0 N1 idx nidx) (i j i' j' : Nat)
    (h : phi b0 b1 nb0 nb1 idx nidx i j = phi b0 b1 nb0 nb1 idx nidx i' j') : (i, j) = (i', j') := by
  by_cases hv : i / b0 < nb0 ∧ j / b1 < nb1
  · by_cases hv' : i' / b0 < nb0 ∧ j' / b1 < nb1
    · obtain ⟨o0, o1, k0, k1⟩ := phi_offset_block G i j hv.1 hv.2
      obtain ⟨o0', o1', k0', k1'⟩ := phi_offset_block G i' j' hv'.1 hv'.2
      rw [h] at o0 o1 k0 k1
      have hnb1 : 0 < nb1 := Nat.lt_of_le_of_lt (Nat.zero_le _) hv.2
      have hs : src idx nidx (i / b0 * nb1 + j / b1) = src idx nidx (i' / b0 * nb1 + j' / b1) := by
        rw [← Nat.div_add_mod (src idx nidx (i / b0 * nb1 + j / b1)) nb1,
          ← Nat.div_add_mod (src idx nidx (i' / b0 * nb1 + j' / b1)) nb1,
          ← k0, ← k1, ← k0', ← k1']
      have hf := src_inj idx nidx G.hp G.hnd _ _ hs
      have hB0 : i / b0 = i' / b0 := by
        have := congrArg (· / nb1) hf
        simpa [blk_div _ _ _ hv.2, blk_div _ _ _ hv'.2] using this
      have hB1 : j / b1 = j' / b1 := by
        have := congrArg (· % nb1) hf
        simpa [blk_mod _ _ _ hv.2, blk_mod _ _ _ hv'.2] using this
      have hi : i = i' := by
        rw [← blk_recompose i b0, ← blk_recompose i' b0, hB0, ← o0, ← o0']
      have hj : j = j' := by
        rw [← blk_recompose j b1, ← blk_recompose j' b1, hB1, ← o1, ← o1']
      rw [hi, hj]
    · obtain ⟨_, _, k0, k1⟩ := phi_offset_block G i j hv.1 hv.2
      obtain ⟨g0, g1⟩ := src_flat_lt G i j hv.1 hv.2
      rw [h, phi_invalid i' j' hv'] at k0 k1
      simp only at k0 k1
      exact absurd ⟨by omega, by omega⟩ hv'
  · by_cases hv' : i' / b0 < nb0 ∧ j' / b1 < nb1
    · obtain ⟨_, _, k0, k1⟩ := phi_offset_block G i' j' hv'.1 hv'.2
      obtain ⟨g0, g1⟩ := src_flat_lt G i' j' hv'.1 hv'.2
      rw [← h, phi_invalid i j hv] at k0 k1
      simp only at k0 k1
      exact absurd ⟨by omega, by omega⟩ hv
    · rw [phi_invalid i j hv, phi_invalid i' j' hv'] at h
      exact h

end phi

/-! ### conservation: an injective self-map of a duplicate-free list permutes it -/

theorem map_perm_of_inj {α} (l : List α) (f : α → α) (hnd : l.Nodup)
    (hmap : ∀ a ∈ l, f a ∈ l) (hinj : ∀ a ∈ l, ∀ b ∈ l, f a = f b → a = b) : (l.map f).Perm l := by
  have h1 : (l.map f).Nodup := hnd.map_on hinj
  have h2 : l.map f ⊆ l := by
    intro a ha
    rw [List.mem_map] at ha
    obtain ⟨b, hb, rfl⟩ := ha
    exact hmap b hb
  exact (List.subperm_of_subset h1 h2).perm_of_length_le (by simp)

theorem mem_pixels (n0 n1 : Nat) (q : Nat × Nat) : q ∈ pixels n0 n1 ↔ q.1 < n0 ∧ q.2 < n1 := by
  unfold pixels
  simp only [List.mem_flatMap, List.mem_range, List.mem_map]
  constructor
  · rintro ⟨i, hi, j, hj, rfl⟩; exact ⟨hi, hj⟩
  · rintro ⟨h1, h2⟩; exact ⟨q.1, h1, q.2, h2, rfl⟩

theorem pixels_nodup (n0 n1 : Nat) : (pixels n0 n1).Nodup := by
  unfold pixels
  rw [List.nodup_flatMap]
  constructor
  · intro i _
    exact List.Nodup.map (fun a b h => by injection h) List.nodup_range
  · apply List.Pairwise.imp _ (List.nodup_range (n := n0))
    intro a b hab
    simp only [Function.onFun, List.disjoint_left, List.mem_map, List.mem_range]
    rintro q ⟨j, _, rfl⟩ ⟨j', _, h⟩
    injection h with h1 _
    exact hab h1.symm

/-- the multiset of the values of the working array is not changed by reading it through `phi` -/
theorem conserved_working {α} (X : Nat → Nat → α) {b0 b1 nb0 nb1 N0 N1 : Nat} {idx nidx : List Nat}
    (G : Geo b0 b1 nb0 nb1 N0 N1 idx nidx) :
    ((pixels N0 N1).map (fun q =>
        X (phi b0 b1 nb0 nb1 idx nidx q.1 q.2).1 (phi b0 b1 nb0 nb1 idx nidx q.1 q.2).2)).Perm
      ((pixels N0 N1).map (fun q => X q.1 q.2)) := by
  have hperm := map_perm_of_inj (pixels N0 N1) (fun q => phi b0 b1 nb0 nb1 idx nidx q.1 q.2)
    (pixels_nodup N0 N1)
    (by
      intro q hq
      rw [mem_pixels] at hq ⊢
      exact phi_in_box G q.1 q.2 hq.1 hq.2)
    (by
      intro q _ q' _ h
      have := phi_inj G q.1 q.2 q'.1 q'.2 h
      exact this)
  have := hperm.map (fun q : Nat × Nat => X q.1 q.2)
  rwa [List.map_map] at this

/-! ### the geometry of an actual call -/

theorem padExt_multiple (s b : Nat) (hb : 0 < b) : padExt s b % b = 0 := by
  unfold padExt
  by_cases h : s % b = 0
  · rw [h, Nat.sub_zero, Nat.mod_self, Nat.add_zero, h]
  · have hlt : s % b < b := Nat.mod_lt _ hb
    rw [Nat.mod_eq_of_lt (by omega : b - s % b < b)]
    have : s + (b - s % b) = (s / b + 1) * b := by
      have := Nat.div_add_mod s b
      rw [Nat.succ_mul, Nat.mul_comm (s / b) b]
      omega
    rw [this, Nat.mul_mod_left]

theorem padExt_of_multiple (s b : Nat) (h : s % b = 0) : padExt s b = s := by
  unfold padExt
  rw [h, Nat.sub_zero, Nat.mod_self, Nat.add_zero]

theorem le_padExt (s b : Nat) : s ≤ padExt s b := by unfold padExt; omega

theorem geo_of_call {α} (x : Img α) (mask : Nat → Nat → Bool) (b0 b1 : Nat) (padMode part : Bool)
    (nidx : List Nat) (hb0 : 0 < b0) (hb1 : 0 < b1)
    (hp : nidx.Perm (shuffleIdx x mask b0 b1 padMode part)) :
    Geo b0 b1 (nBlocks (prepare x mask b0 b1 padMode).N0 b0) (nBlocks (prepare x mask b0 b1 padMode).N1 b1)
      (prepare x mask b0 b1 padMode).N0 (prepare x mask b0 b1 padMode).N1
      (shuffleIdx x mask b0 b1 padMode part) nidx :=
  { hb0 := hb0, hb1 := hb1,
    hN0 := Nat.div_mul_le_self _ _, hN1 := Nat.div_mul_le_self _ _,
    hp := hp, hnd := selected_nodup _ _ _ _ _ _,
    hlt := fun f hf => selected_lt _ _ _ _ _ _ f hf }

theorem inSelected_false_iff (b0 b1 nb0 nb1 : Nat) (idx : List Nat) (i j : Nat) :
    inSelected b0 b1 nb0 nb1 idx i j = false ↔
      (¬ (i / b0 < nb0 ∧ j / b1 < nb1) ∨ i / b0 * nb1 + j / b1 ∉ idx) := by
  unfold inSelected
  by_cases h0 : i / b0 < nb0 <;> by_cases h1 : j / b1 < nb1 <;>
    by_cases hm : i / b0 * nb1 + j / b1 ∈ idx <;> simp [h0, h1, hm]

theorem sortR_eq_of_perm (a b : List Rat) (h : a.Perm b) : sortR a = sortR b := by
  unfold sortR
  have tr : ∀ (a b c : Rat), decide (a ≤ b) = true → decide (b ≤ c) = true → decide (a ≤ c) = true := by
    intro a b c h1 h2
    simp only [decide_eq_true_eq] at *
    exact le_trans h1 h2
  have tot : ∀ (a b : Rat), (decide (a ≤ b) || decide (b ≤ a)) = true := by
    intro a b
    simp only [Bool.or_eq_true, decide_eq_true_eq]
    exact le_total a b
  apply List.Perm.eq_of_pairwise (le := fun a b => decide (a ≤ b) = true)
  · intro u v _ _ h1 h2
    simp only [decide_eq_true_eq] at h1 h2
    exact le_antisymm h1 h2
  · exact List.pairwise_mergeSort tr tot a
  · exact List.pairwise_mergeSort tr tot b
  · exact ((List.mergeSort_perm a _).trans h).trans (List.mergeSort_perm b _).symm

/-- the list handed to the permutation depends on the image only through its shape -/
theorem shuffleIdx_shape {α β} (x : Img α) (y : Img β) (mask : Nat → Nat → Bool) (b0 b1 : Nat)
    (padMode part : Bool) (h0 : x.n0 = y.n0) (h1 : x.n1 = y.n1) :
    shuffleIdx x mask b0 b1 padMode part = shuffleIdx y mask b0 b1 padMode part := by
  unfold shuffleIdx prepare
  cases padMode <;> simp [h0, h1]

/-! ### memory: the writes of the in-place branch go where the name points -/

theorem foldl_write_copy {μ} (cuts : List (μ → μ)) (mem : Mem μ) :
    (cuts.foldl (fun m cut => m.write .copy (cut (m.read .copy))) mem).caller = mem.caller ∧
    (cuts.foldl (fun m cut => m.write .copy (cut (m.read .copy))) mem).read .copy
      = cuts.foldl (fun M cut => cut M) (mem.read .copy) := by
  induction cuts generalizing mem with
  | nil => exact ⟨rfl, rfl⟩
  | cons c cs ih =>
    simp only [List.foldl_cons]
    obtain ⟨h1, h2⟩ := ih (mem.write .copy (c (mem.read .copy)))
    exact ⟨h1, h2⟩

theorem foldl_write_caller {μ} (cuts : List (μ → μ)) (mem : Mem μ) :
    (cuts.foldl (fun m cut => m.write .caller (cut (m.read .caller))) mem).caller
      = cuts.foldl (fun M cut => cut M) mem.caller := by
  induction cuts generalizing mem with
  | nil => rfl
  | cons c cs ih =>
    simp only [List.foldl_cons]
    exact ih (mem.write .caller (c (mem.read .caller)))

/-- whichever way, the routine goes on with the trimmed mask -/
theorem inplaceMask_read {μ} (copies : Bool) (cuts : List (μ → μ)) (m : μ) :
    (inplaceMask copies cuts { caller := m }).2.read (inplaceMask copies cuts { caller := m }).1
      = cuts.foldl (fun M cut => cut M) m := by
  cases copies with
  | true => exact (foldl_write_copy cuts _).2
  | false => exact foldl_write_caller cuts _

/-- **frame**: with the copy statement the caller's array is not written -/
theorem inplaceMask_frame {μ} (cuts : List (μ → μ)) (m : μ) :
    (inplaceMask true cuts { caller := m }).2.caller = m :=
  (foldl_write_copy cuts _).1

/-- without it, the trim writes land in the caller's array (the code before fb1e9b9) -/
theorem inplaceMask_defect {μ} (cuts : List (μ → μ)) (m : μ) :
    (inplaceMask false cuts { caller := m }).2.caller = cuts.foldl (fun M cut => cut M) m :=
  foldl_write_caller cuts _

theorem trimCuts_fold {α} (x : Img α) (mask : Nat → Nat → Bool) (b0 b1 : Nat) :
    (trimCuts x.n0 x.n1 b0 b1).foldl (fun M cut => cut M) mask = (prepare x mask b0 b1 false).M := rfl

theorem shuffleFromPrep_eq {α} (x : Img α) (mask : Nat → Nat → Bool) (b0 b1 : Nat) (padMode part aliases : Bool)
    (nidx : List Nat) :
    shuffleFromPrep (prepare x mask b0 b1 padMode) x.n0 x.n1 b0 b1 part aliases nidx
      = shuffleBlocksLayout aliases x mask b0 b1 padMode part nidx := rfl

/-- the array handed back does not depend on whether the mask was copied: it is the pure model's result -/
theorem shuffleCall_ret {α} (copies aliases : Bool) (x : Img α) (mask : Nat → Nat → Bool) (b0 b1 : Nat)
    (padMode part : Bool) (nidx : List Nat) :
    (shuffleCall copies aliases x mask b0 b1 padMode part nidx).ret
      = shuffleBlocksLayout aliases x mask b0 b1 padMode part nidx := by
  cases padMode with
  | true => rfl
  | false =>
    have h := inplaceMask_read copies (trimCuts x.n0 x.n1 b0 b1) mask
    rw [trimCuts_fold] at h
    simp only [shuffleCall, Bool.false_eq_true, if_false, h]
    have e : (⟨x.n0, x.n1, x.get, (prepare x mask b0 b1 false).M⟩ : Prep α) = prepare x mask b0 b1 false := rfl
    rw [e, shuffleFromPrep_eq]

theorem shuffleCall_xAfter {α} (copies aliases : Bool) (x : Img α) (mask : Nat → Nat → Bool) (b0 b1 : Nat)
    (padMode part : Bool) (nidx : List Nat) :
    (shuffleCall copies aliases x mask b0 b1 padMode part nidx).xAfter
      = if padMode then x else shuffleBlocksLayout aliases x mask b0 b1 false part nidx := by
  cases padMode with
  | true => rfl
  | false =>
    have := shuffleCall_ret copies aliases x mask b0 b1 false part nidx
    simpa [shuffleCall] using this

theorem shuffleCall_maskAfter_copies {α} (aliases : Bool) (x : Img α) (mask : Nat → Nat → Bool) (b0 b1 : Nat)
    (padMode part : Bool) (nidx : List Nat) :
    (shuffleCall true aliases x mask b0 b1 padMode part nidx).maskAfter = mask := by
  cases padMode with
  | true => rfl
  | false => exact inplaceMask_frame _ mask

theorem shuffleCall_maskAfter_nocopy {α} (aliases : Bool) (x : Img α) (mask : Nat → Nat → Bool) (b0 b1 : Nat)
    (part : Bool) (nidx : List Nat) :
    (shuffleCall false aliases x mask b0 b1 false part nidx).maskAfter = (prepare x mask b0 b1 false).M := by
  have := inplaceMask_defect (trimCuts x.n0 x.n1 b0 b1) mask
  rw [trimCuts_fold] at this
  exact this

/-! ### the loop of `pearsonr_probablity` -/

theorem shuffleSeq_length (y : Img Rat) (mask : Nat → Nat → Bool) (b : Nat) (part : Bool) (sg : List (List Nat)) :
    (shuffleSeq y mask b part sg).length = sg.length := by
  induction sg generalizing y with
  | nil => rfl
  | cons s ss ih => simp [shuffleSeq, ih]

/-- The loop as the code runs it (mask copied inside every call, `shuffled` bound to the C-contiguous `y.copy()`):
the rounds read the pure iteration `shuffleSeq` of the copy under the unchanged mask; the mask array and the
caller's `y` are as before. -/
theorem loopRun_spec (b : Nat) (part : Bool) (st : LoopState) (a : Img Rat)
    (hs : st.sref = .copy) (hc : st.sC = true) (ha : st.yMem.copy = some a) (sigmas : List (List Nat)) :
    (loopRun true b part st sigmas).1
        = (shuffleSeq a st.mask b part sigmas).map (fun yi => { mask := st.mask, shuffled := yi }) ∧
    (loopRun true b part st sigmas).2.mask = st.mask ∧
    (loopRun true b part st sigmas).2.yMem.caller = st.yMem.caller ∧
    (loopRun true b part st sigmas).2.sref = .copy := by
  induction sigmas generalizing st a with
  | nil => exact ⟨rfl, rfl, rfl, hs⟩
  | cons s ss ih =>
    have hread : st.yMem.read st.sref = a := by rw [hs]; simp [Mem.read, ha]
    have hmask : (loopStep true b part st s).1.mask = st.mask := by
      simp only [loopStep]
      exact shuffleCall_maskAfter_copies _ _ _ _ _ _ _ _
    have hx : (shuffleCall true (layoutAliases false st.sC st.sF) (st.yMem.read st.sref) st.mask b b false part s).xAfter
        = shuffleBlocksLayout true a st.mask b b false part s := by
      rw [shuffleCall_xAfter, hread, hc]
      simp [layoutAliases]
    have hcopy : (loopStep true b part st s).1.yMem.copy = some (shuffleBlocksLayout true a st.mask b b false part s) := by
      simp only [loopStep, hx]
      rw [hs]
      rfl
    have hcaller : (loopStep true b part st s).1.yMem.caller = st.yMem.caller := by
      simp only [loopStep]
      rw [hs]
      rfl
    have hsref : (loopStep true b part st s).1.sref = .copy := hs
    have hsC : (loopStep true b part st s).1.sC = true := hc
    have hround : (loopStep true b part st s).2
        = { mask := st.mask, shuffled := shuffleBlocksLayout true a st.mask b b false part s } := by
      have h2 : (loopStep true b part st s).2
          = { mask := (loopStep true b part st s).1.mask,
              shuffled := (loopStep true b part st s).1.yMem.read (loopStep true b part st s).1.sref } := rfl
      rw [h2, hmask, hsref]
      simp [Mem.read, hcopy]
    obtain ⟨i1, i2, i3, i4⟩ := ih (loopStep true b part st s).1 _ hsref hsC hcopy
    simp only [loopRun, shuffleSeq, List.map_cons]
    rw [hmask] at i1 i2
    refine ⟨?_, i2, by rw [i3, hcaller], i4⟩
    rw [i1, hround]

end Pew.Colocal
