import PewProofs.RegisterPeak
/-! # C12 — an empty background: the cross-correlation of `a` with its own window is a self-correlation

`lin_window_shift`: if `b` is the window of zero-extended `a` at `t` and `a` vanishes outside that window, then
`Σ_{n ∈ box b} Z[n + l]·b[n] = Σ_{m ∈ box a} Z[m + (l − t)]·a[m]` for every read function `Z`, every dimension
(re-indexing `m = n + t` per axis, the terms outside the common range vanish on both sides). -/
namespace Pew.Register
open Finset

theorem lin_zero_right_box (bs : List Nat) (Z : List Int → Rat) (B : List Nat → Rat) (ls : List Int)
    (h : ∀ r, inBox r bs = true → B r = 0) : lin bs Z B ls = 0 := by
  induction bs generalizing Z B ls with
  | nil => simp [lin, h [] rfl]
  | cons b bs ih =>
    cases ls with
    | nil => rfl
    | cons l ls =>
      simp only [lin]
      apply sumRange_zero
      intro n hn
      apply ih
      intro r hr
      apply h
      simp [inBox, hn, hr]

/-- `b` is the window of zero-extended `a` at `t` and `a` vanishes outside that window: the cross-correlation of
`a` and `b` at lag `l` is the self-correlation of `a` at lag `l − t` (for any read function `Z`) -/
theorem lin_window_shift (sa sb : List Nat) (Z : List Int → Rat) (A B : List Nat → Rat) (t l : List Int)
    (h1 : sa.length = sb.length) (h2 : t.length = sb.length) (h3 : l.length = sb.length)
    (H1 : ∀ n, inBox n sb = true → B n = zext sa A (List.zipWith (· + ·) (n.map Int.ofNat) t))
    (H2 : ∀ m, inBox m sa = true → inBoxI (List.zipWith (· - ·) (m.map Int.ofNat) t) sb = false → A m = 0) :
    lin sb Z B l = lin sa Z A (List.zipWith (· - ·) l t) := by
  induction sa generalizing sb Z A B t l with
  | nil =>
    cases sb with
    | cons _ _ => simp at h1
    | nil =>
      cases t with
      | cons _ _ => simp at h2
      | nil =>
        cases l with
        | cons _ _ => simp at h3
        | nil =>
          have := H1 [] rfl
          simp only [List.map_nil, List.zipWith_nil_right, zext, inBoxI, if_true] at this
          simp [lin, this]
  | cons a as ih =>
    cases sb with
    | nil => simp at h1
    | cons b bs =>
      cases t with
      | nil => simp at h2
      | cons t0 ts =>
        cases l with
        | nil => simp at h3
        | cons l0 ls =>
          have h1' : as.length = bs.length := by simpa using h1
          have h2' : ts.length = bs.length := by simpa using h2
          have h3' : ls.length = bs.length := by simpa using h3
          simp only [lin, List.zipWith_cons_cons]
          -- the summand of the right-hand side, as a function of the index into `a`
          let G : Nat → Rat := fun m =>
            lin as (fun r => Z (((m : Int) + (l0 - t0)) :: r)) (fun r => A (m :: r)) (List.zipWith (· - ·) ls ts)
          have hL : ∀ n, n < b →
              lin bs (fun r => Z (((n : Int) + l0) :: r)) (fun r => B (n :: r)) ls
                = if 0 ≤ (n : Int) + t0 ∧ (n : Int) + t0 < a then G ((n : Int) + t0).toNat else 0 := by
            intro n hn
            split
            · rename_i hR
              have hm : ((((n : Int) + t0).toNat : Nat) : Int) = (n : Int) + t0 := Int.toNat_of_nonneg hR.1
              have := ih bs (fun r => Z (((n : Int) + l0) :: r)) (fun r => A (((n : Int) + t0).toNat :: r))
                (fun r => B (n :: r)) ts ls h1' h2' h3'
                (by
                  intro r hr
                  have := H1 (n :: r) (by simp [inBox, hn, hr])
                  simp only [List.map_cons, List.zipWith_cons_cons] at this
                  rw [this]
                  exact congrFun (zext_cons_in a as A _ hR.1 hR.2) _)
                (by
                  intro r hr hout
                  apply H2 ((((n : Int) + t0).toNat) :: r)
                  · simp only [inBox, Bool.and_eq_true, decide_eq_true_eq]
                    exact ⟨by omega, hr⟩
                  · simp only [List.map_cons, List.zipWith_cons_cons, inBoxI, hout, Bool.and_false])
              rw [this]
              simp only [G]
              congr 1
              funext r
              congr 2
              omega
            · rename_i hR
              apply lin_zero_right_box
              intro r hr
              have := H1 (n :: r) (by simp [inBox, hn, hr])
              simp only [List.map_cons, List.zipWith_cons_cons] at this
              rw [this]
              exact zext_cons_out a as A _ hR _
          have hR : ∀ m, m < a → G m = if 0 ≤ (m : Int) + -t0 ∧ (m : Int) + -t0 < b then G m else 0 := by
            intro m hm
            split
            · rfl
            · rename_i hout
              apply lin_zero_right_box
              intro r hr
              apply H2 (m :: r) (by simp [inBox, hm, hr])
              simp only [List.map_cons, List.zipWith_cons_cons, inBoxI]
              have hd : (decide (0 ≤ (m : Int) - t0) && decide ((m : Int) - t0 < b)) = false := by
                simp only [Bool.and_eq_false_iff, decide_eq_false_iff_not]
                omega
              simp only [Int.ofNat_eq_natCast, hd, Bool.false_and]
          rw [sumRange_congr b _ _ hL, reindex a b t0 (fun m _ => G m)]
          exact (sumRange_congr a _ _ hR).symm

theorem zipWith_sub_self (t : List Int) : List.zipWith (· - ·) t t = List.replicate t.length 0 := by
  induction t with
  | nil => rfl
  | cons x xs _ => simp [List.replicate_succ]

theorem zipWith_sub_eq_zeros (l t : List Int) (h : l.length = t.length)
    (hz : List.zipWith (· - ·) l t = List.replicate t.length 0) : l = t := by
  induction l generalizing t with
  | nil => cases t with
    | nil => rfl
    | cons _ _ => simp at h
  | cons x xs ih =>
    cases t with
    | nil => simp at h
    | cons y ys =>
      simp only [List.zipWith_cons_cons, List.length_cons, List.replicate_succ, List.cons.injEq] at hz
      rw [ih ys (by simpa using h) hz.2]
      congr 1
      omega

/-- under `zeroBgHyp` the cross-correlation of `a` and `b` at lag `l` is the self-correlation of `a` at `l − t` -/
theorem xcorr_zero_background (a b : Img) (t l : List Int) (h : zeroBgHyp a b t = true)
    (hl : l.length = b.shape.length) :
    xcorr a b l = xcorr a a (List.zipWith (· - ·) l t) := by
  simp only [zeroBgHyp, Bool.and_eq_true] at h
  obtain ⟨⟨⟨hbox, hwin⟩, hsup⟩, -⟩ := h
  have hlen := inLagBox_length _ _ _ hbox
  have htl := inLagBox_len _ _ _ hbox
  unfold xcorr
  apply lin_window_shift a.shape b.shape _ a.get b.get t l hlen htl hl
  · intro n hn
    have := (List.all_eq_true.mp hwin) n ((mem_allIdx _ _).mpr hn)
    simpa [shiftRead] using this
  · intro m hm hout
    have := (List.all_eq_true.mp hsup) m ((mem_allIdx _ _).mpr hm)
    simpa [hout] using this

end Pew.Register
