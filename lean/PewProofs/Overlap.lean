import PewModel.Overlap
import Mathlib.Tactic.Ring
import Mathlib.Tactic.Linarith
import Mathlib.Algebra.Order.Field.Rat
import Mathlib.Algebra.BigOperators.Group.List.Basic

namespace Pew.Overlap

/-- one pixel of `step` -/
def stepCell (m : Mode) (c : Cell) : Option V → Cell
  | none => c
  | some v =>
    let visits := c.visits + (if v.isSome then 1 else 0)
    match m with
    | .replace => { acc := if v.isSome then v else c.acc, visits := visits }
    | _ => { acc := nansum2 c.acc v, visits := visits }

theorem step_point (m : Mode) (c : Idx → Cell) (a : Arr) (p : Idx) :
    step m c a p = stepCell m (c p) (a.at p) := by
  unfold step stepCell
  cases a.at p <;> rfl

theorem foldl_point (m : Mode) (l : List Arr) (c : Idx → Cell) (p : Idx) :
    (l.foldl (step m) c) p = l.foldl (fun cell a => stepCell m cell (a.at p)) (c p) := by
  induction l generalizing c with
  | nil => rfl
  | cons a l ih => simp only [List.foldl_cons]; rw [ih, step_point]

theorem contribs_cons (a : Arr) (l : List Arr) (p : Idx) :
    contribs (a :: l) p = (match (a.at p).join with | some x => [x] | none => []) ++ contribs l p := by
  unfold contribs
  simp only [List.filterMap_cons]
  cases (a.at p).join <;> simp

/-- accumulate modes: the cell after folding `l` -/
theorem fold_accum (m : Mode) (hm : m ≠ .replace) (l : List Arr) (p : Idx) (x : Rat) (n : Nat) :
    l.foldl (fun cell a => stepCell m cell (a.at p)) { acc := some x, visits := n }
      = { acc := some (x + (contribs l p).sum), visits := n + (contribs l p).length } := by
  induction l generalizing x n with
  | nil => simp [contribs]
  | cons a l ih =>
    simp only [List.foldl_cons]
    rw [contribs_cons]
    cases h : a.at p with
    | none =>
      have : stepCell m { acc := some x, visits := n } none = { acc := some x, visits := n } := rfl
      rw [this, ih]; simp
    | some v =>
      cases v with
      | none =>
        have : stepCell m { acc := some x, visits := n } (some none) = { acc := some x, visits := n } := by
          cases m <;> simp_all [stepCell, nansum2]
        rw [this, ih]; simp
      | some y =>
        have : stepCell m { acc := some x, visits := n } (some (some y)) = { acc := some (x + y), visits := n + 1 } := by
          cases m <;> simp_all [stepCell, nansum2]
        rw [this, ih]; simp [add_assoc, Nat.add_comm 1]

theorem fold_replace (l : List Arr) (p : Idx) (c : Cell) :
    (l.foldl (fun cell a => stepCell .replace cell (a.at p)) c).acc
      = match (contribs l p).getLast? with | some x => some x | none => c.acc := by
  induction l generalizing c with
  | nil => simp [contribs]
  | cons a l ih =>
    simp only [List.foldl_cons]
    rw [ih, contribs_cons]
    cases h : a.at p with
    | none => simp [stepCell]
    | some v =>
      cases v with
      | none => simp [stepCell]
      | some y =>
        simp only [Option.join_some, stepCell, Option.isSome_some, if_true]
        cases h2 : (contribs l p).getLast? with
        | none =>
          have : contribs l p = [] := by simpa using h2
          simp [this]
        | some z =>
          have : (y :: contribs l p).getLast? = some z := by
            have := List.getLast?_append (l := [y]) (l' := contribs l p)
            rw [h2] at this; simpa using this
          simp [this]

end Pew.Overlap

namespace Pew.Overlap

/-! ### minimum / maximum of a list -/

theorem foldl_min_le (xs : List Int) (x : Int) : xs.foldl min x ≤ x ∧ ∀ y ∈ xs, xs.foldl min x ≤ y := by
  induction xs generalizing x with
  | nil => simp
  | cons z zs ih =>
    simp only [List.foldl_cons, List.mem_cons, forall_eq_or_imp]
    have := ih (min x z)
    refine ⟨by omega, by omega, this.2⟩

theorem foldl_min_mem (xs : List Int) (x : Int) : xs.foldl min x = x ∨ xs.foldl min x ∈ xs := by
  induction xs generalizing x with
  | nil => simp
  | cons z zs ih =>
    simp only [List.foldl_cons, List.mem_cons]
    rcases ih (min x z) with h | h
    · rcases Int.le_total x z with hxz | hxz
      · left; rw [h]; omega
      · right; left; rw [h]; omega
    · right; right; exact h

theorem foldl_max_ge (xs : List Int) (x : Int) : x ≤ xs.foldl max x ∧ ∀ y ∈ xs, y ≤ xs.foldl max x := by
  induction xs generalizing x with
  | nil => simp
  | cons z zs ih =>
    simp only [List.foldl_cons, List.mem_cons, forall_eq_or_imp]
    have := ih (max x z)
    refine ⟨by omega, by omega, this.2⟩

theorem foldl_max_mem (xs : List Int) (x : Int) : xs.foldl max x = x ∨ xs.foldl max x ∈ xs := by
  induction xs generalizing x with
  | nil => simp
  | cons z zs ih =>
    simp only [List.foldl_cons, List.mem_cons]
    rcases ih (max x z) with h | h
    · rcases Int.le_total x z with hxz | hxz
      · right; left; rw [h]; omega
      · left; rw [h]; omega
    · right; right; exact h

theorem minList_le (l : List Int) (y : Int) (hy : y ∈ l) : minList l ≤ y := by
  cases l with
  | nil => simp at hy
  | cons x xs =>
    simp only [minList]
    rcases List.mem_cons.mp hy with h | h
    · subst h; exact (foldl_min_le xs y).1
    · exact (foldl_min_le xs x).2 y h

theorem minList_mem (l : List Int) (hl : l ≠ []) : minList l ∈ l := by
  cases l with
  | nil => exact absurd rfl hl
  | cons x xs =>
    simp only [minList, List.mem_cons]
    exact (foldl_min_mem xs x)

theorem le_maxList (l : List Int) (y : Int) (hy : y ∈ l) : y ≤ maxList l := by
  cases l with
  | nil => simp at hy
  | cons x xs =>
    simp only [maxList]
    rcases List.mem_cons.mp hy with h | h
    · subst h; exact (foldl_max_ge xs y).1
    · exact (foldl_max_ge xs x).2 y h

theorem maxList_mem (l : List Int) (hl : l ≠ []) : maxList l ∈ l := by
  cases l with
  | nil => exact absurd rfl hl
  | cons x xs =>
    simp only [maxList, List.mem_cons]
    exact (foldl_max_mem xs x)

theorem foldl_min_add (xs : List Int) (x c : Int) :
    (xs.map (· + c)).foldl min (x + c) = xs.foldl min x + c := by
  induction xs generalizing x with
  | nil => simp
  | cons z zs ih =>
    simp only [List.map_cons, List.foldl_cons]
    have : min (x + c) (z + c) = min x z + c := by omega
    rw [this, ih]

theorem minList_add (l : List Int) (c : Int) (hl : l ≠ []) : minList (l.map (· + c)) = minList l + c := by
  cases l with
  | nil => exact absurd rfl hl
  | cons x xs => simp only [List.map_cons, minList]; exact foldl_min_add xs x c

end Pew.Overlap

namespace Pew.Overlap

theorem foldl_max_add (xs : List Int) (x c : Int) :
    (xs.map (· + c)).foldl max (x + c) = xs.foldl max x + c := by
  induction xs generalizing x with
  | nil => simp
  | cons z zs ih =>
    simp only [List.map_cons, List.foldl_cons]
    have : max (x + c) (z + c) = max x z + c := by omega
    rw [this, ih]

theorem maxList_add (l : List Int) (c : Int) (hl : l ≠ []) : maxList (l.map (· + c)) = maxList l + c := by
  cases l with
  | nil => exact absurd rfl hl
  | cons x xs => simp only [List.map_cons, maxList]; exact foldl_max_add xs x c

theorem axis_sub (p q : List Int) (k : Nat) (hp : k < p.length) (hq : k < q.length) :
    axis k (sub p q) = axis k p - axis k q := by
  unfold axis sub
  simp [List.getD, List.getElem?_zipWith, List.getElem?_eq_getElem hp, List.getElem?_eq_getElem hq]

theorem minOffset_length (ndim : Nat) (arrs : List Arr) : (minOffset ndim arrs).length = ndim := by
  simp [minOffset]

theorem axis_minOffset (ndim : Nat) (arrs : List Arr) (k : Nat) (hk : k < ndim) :
    axis k (minOffset ndim arrs) = minList (arrs.map (fun a => axis k a.off)) := by
  simp [axis, minOffset, List.getD, List.getElem?_map, List.getElem?_range hk]

theorem axis_newShape (ndim : Nat) (arrs : List Arr) (k : Nat) (hk : k < ndim) :
    axis k (newShape ndim arrs)
      = maxList (arrs.map (fun a => axis k a.off + ((a.shape.getD k 0 : Nat) : Int))) := by
  simp [axis, newShape, List.getD, List.getElem?_map, List.getElem?_range hk]

/-- normalised offset of one array along one axis -/
theorem axis_normalised (ndim : Nat) (arrs : List Arr) (a : Arr) (k : Nat) (hk : k < ndim)
    (ha : a.off.length = ndim) :
    axis k (sub a.off (minOffset ndim arrs)) = axis k a.off - minList (arrs.map (fun a => axis k a.off)) := by
  rw [axis_sub _ _ _ (by omega) (by rw [minOffset_length]; exact hk), axis_minOffset _ _ _ hk]

end Pew.Overlap
