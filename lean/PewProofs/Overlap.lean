import PewModel.Overlap
import Mathlib.Tactic.Ring
import Mathlib.Tactic.Linarith
import Mathlib.Algebra.Order.Field.Rat
import Mathlib.Algebra.BigOperators.Group.List.Basic
import Mathlib.Data.List.Nodup

namespace Pew.Overlap

/-- one pixel of `step` -/
def stepCell (m : Mode) (c : Cell) : Option V → Cell
  | none => c
  | some v =>
    let visits := c.visits + (if v.isSome then 1 else 0)
    match m with
    | .replace => { acc := if v.isSome then v else c.acc, visits := visits }
    | _ => { acc := nansum2 c.acc v, visits := visits }

theorem step_point (m : Mode) (c : Idx → Cell) (a : Arr) (p : Idx) :
    step m c a p = stepCell m (c p) (a.at p) := by
  unfold step stepCell
  cases a.at p <;> rfl

theorem foldl_point (m : Mode) (l : List Arr) (c : Idx → Cell) (p : Idx) :
    (l.foldl (step m) c) p = l.foldl (fun cell a => stepCell m cell (a.at p)) (c p) := by
  induction l generalizing c with
  | nil => rfl
  | cons a l ih => simp only [List.foldl_cons]; rw [ih, step_point]

theorem contribs_cons (a : Arr) (l : List Arr) (p : Idx) :
    contribs (a :: l) p = (match (a.at p).join with | some x => [x] | none => []) ++ contribs l p := by
  unfold contribs
  simp only [List.filterMap_cons]
  cases (a.at p).join <;> simp

/-- accumulate modes: the cell after folding `l` -/
theorem fold_accum (m : Mode) (hm : m ≠ .replace) (l : List Arr) (p : Idx) (x : Rat) (n : Nat) :
    l.foldl (fun cell a => stepCell m cell (a.at p)) { acc := some x, visits := n }
      = { acc := some (x + (contribs l p).sum), visits := n + (contribs l p).length } := by
  induction l generalizing x n with
  | nil => simp [contribs]
  | cons a l ih =>
    simp only [List.foldl_cons]
    rw [contribs_cons]
    cases h : a.at p with
    | none =>
      have : stepCell m { acc := some x, visits := n } none = { acc := some x, visits := n } := rfl
      rw [this, ih]; simp
    | some v =>
      cases v with
      | none =>
        have : stepCell m { acc := some x, visits := n } (some none) = { acc := some x, visits := n } := by
          cases m <;> simp_all [stepCell, nansum2]
        rw [this, ih]; simp
      | some y =>
        have : stepCell m { acc := some x, visits := n } (some (some y)) = { acc := some (x + y), visits := n + 1 } := by
          cases m <;> simp_all [stepCell, nansum2]
        rw [this, ih]; simp [add_assoc, Nat.add_comm 1]

theorem fold_replace (l : List Arr) (p : Idx) (c : Cell) :
    (l.foldl (fun cell a => stepCell .replace cell (a.at p)) c).acc
      = match (contribs l p).getLast? with | some x => some x | none => c.acc := by
  induction l generalizing c with
  | nil => simp [contribs]
  | cons a l ih =>
    simp only [List.foldl_cons]
    rw [ih, contribs_cons]
    cases h : a.at p with
    | none => simp [stepCell]
    | some v =>
      cases v with
      | none => simp [stepCell]
      | some y =>
        simp only [Option.join_some, stepCell, Option.isSome_some, if_true]
        cases h2 : (contribs l p).getLast? with
        | none =>
          have : contribs l p = [] := by simpa using h2
          simp [this]
        | some z =>
          have : (y :: contribs l p).getLast? = some z := by
            have := List.getLast?_append (l := [y]) (l' := contribs l p)
            rw [h2] at this; simpa using this
          simp [this]

end Pew.Overlap

namespace Pew.Overlap

/-! ### minimum / maximum of a list -/

theorem foldl_min_le (xs : List Int) (x : Int) : xs.foldl min x ≤ x ∧ ∀ y ∈ xs, xs.foldl min x ≤ y := by
  induction xs generalizing x with
  | nil => simp
  | cons z zs ih =>
    simp only [List.foldl_cons, List.mem_cons, forall_eq_or_imp]
    have := ih (min x z)
    refine ⟨by omega, by omega, this.2⟩

theorem foldl_min_mem (xs : List Int) (x : Int) : xs.foldl min x = x ∨ xs.foldl min x ∈ xs := by
  induction xs generalizing x with
  | nil => simp
  | cons z zs ih =>
    simp only [List.foldl_cons, List.mem_cons]
    rcases ih (min x z) with h | h
    · rcases Int.le_total x z with hxz | hxz
      · left; rw [h]; omega
      · right; left; rw [h]; omega
    · right; right; exact h

theorem foldl_max_ge (xs : List Int) (x : Int) : x ≤ xs.foldl max x ∧ ∀ y ∈ xs, y ≤ xs.foldl max x := by
  induction xs generalizing x with
  | nil => simp
  | cons z zs ih =>
    simp only [List.foldl_cons, List.mem_cons, forall_eq_or_imp]
    have := ih (max x z)
    refine ⟨by omega, by omega, this.2⟩

theorem foldl_max_mem (xs : List Int) (x : Int) : xs.foldl max x = x ∨ xs.foldl max x ∈ xs := by
  induction xs generalizing x with
  | nil => simp
  | cons z zs ih =>
    simp only [List.foldl_cons, List.mem_cons]
    rcases ih (max x z) with h | h
    · rcases Int.le_total x z with hxz | hxz
      · right; left; rw [h]; omega
      · left; rw [h]; omega
    · right; right; exact h

theorem minList_le (l : List Int) (y : Int) (hy : y ∈ l) : minList l ≤ y := by
  cases l with
  | nil => simp at hy
  | cons x xs =>
    simp only [minList]
    rcases List.mem_cons.mp hy with h | h
    · subst h; exact (foldl_min_le xs y).1
    · exact (foldl_min_le xs x).2 y h

theorem minList_mem (l : List Int) (hl : l ≠ []) : minList l ∈ l := by
  cases l with
  | nil => exact absurd rfl hl
  | cons x xs =>
    simp only [minList, List.mem_cons]
    exact (foldl_min_mem xs x)

theorem le_maxList (l : List Int) (y : Int) (hy : y ∈ l) : y ≤ maxList l := by
  cases l with
  | nil => simp at hy
  | cons x xs =>
    simp only [maxList]
    rcases List.mem_cons.mp hy with h | h
    · subst h; exact (foldl_max_ge xs y).1
    · exact (foldl_max_ge xs x).2 y h

theorem maxList_mem (l : List Int) (hl : l ≠ []) : maxList l ∈ l := by
  cases l with
  | nil => exact absurd rfl hl
  | cons x xs =>
    simp only [maxList, List.mem_cons]
    exact (foldl_max_mem xs x)

theorem foldl_min_add (xs : List Int) (x c : Int) :
    (xs.map (· + c)).foldl min (x + c) = xs.foldl min x + c := by
  induction xs generalizing x with
  | nil => simp
  | cons z zs ih =>
    simp only [List.map_cons, List.foldl_cons]
    have : min (x + c) (z + c) = min x z + c := by omega
    rw [this, ih]

theorem minList_add (l : List Int) (c : Int) (hl : l ≠ []) : minList (l.map (· + c)) = minList l + c := by
  cases l with
  | nil => exact absurd rfl hl
  | cons x xs => simp only [List.map_cons, minList]; exact foldl_min_add xs x c

end Pew.Overlap

namespace Pew.Overlap

theorem foldl_max_add (xs : List Int) (x c : Int) :
    (xs.map (· + c)).foldl max (x + c) = xs.foldl max x + c := by
  induction xs generalizing x with
  | nil => simp
  | cons z zs ih =>
    simp only [List.map_cons, List.foldl_cons]
    have : max (x + c) (z + c) = max x z + c := by omega
    rw [this, ih]

theorem maxList_add (l : List Int) (c : Int) (hl : l ≠ []) : maxList (l.map (· + c)) = maxList l + c := by
  cases l with
  | nil => exact absurd rfl hl
  | cons x xs => simp only [List.map_cons, maxList]; exact foldl_max_add xs x c

theorem axis_sub (p q : List Int) (k : Nat) (hp : k < p.length) (hq : k < q.length) :
    axis k (sub p q) = axis k p - axis k q := by
  unfold axis sub
  simp [List.getD, List.getElem?_zipWith, List.getElem?_eq_getElem hp, List.getElem?_eq_getElem hq]

theorem minOffset_length (ndim : Nat) (arrs : List Arr) : (minOffset ndim arrs).length = ndim := by
  simp [minOffset]

theorem axis_minOffset (ndim : Nat) (arrs : List Arr) (k : Nat) (hk : k < ndim) :
    axis k (minOffset ndim arrs) = minList (arrs.map (fun a => axis k a.off)) := by
  simp [axis, minOffset, List.getD, List.getElem?_map, List.getElem?_range hk]

theorem axis_newShape (ndim : Nat) (arrs : List Arr) (k : Nat) (hk : k < ndim) :
    axis k (newShape ndim arrs)
      = maxList (arrs.map (fun a => axis k a.off + ((a.shape.getD k 0 : Nat) : Int))) := by
  simp [axis, newShape, List.getD, List.getElem?_map, List.getElem?_range hk]

/-- normalised offset of one array along one axis -/
theorem axis_normalised (ndim : Nat) (arrs : List Arr) (a : Arr) (k : Nat) (hk : k < ndim)
    (ha : a.off.length = ndim) :
    axis k (sub a.off (minOffset ndim arrs)) = axis k a.off - minList (arrs.map (fun a => axis k a.off)) := by
  rw [axis_sub _ _ _ (by omega) (by rw [minOffset_length]; exact hk), axis_minOffset _ _ _ hk]

end Pew.Overlap

namespace Pew.Overlap

/-! ### the geometry (offset normalisation, bounding box) does not look at the pixel values -/

/-- the array with its values forgotten -/
def bare (a : Arr) : Arr := { off := a.off, shape := a.shape, get := fun _ => none }

theorem minOffset_bare (ndim : Nat) (l : List Arr) : minOffset ndim (l.map bare) = minOffset ndim l := by
  simp [minOffset, bare, List.map_map, Function.comp_def]

theorem newShape_bare (ndim : Nat) (l : List Arr) : newShape ndim (l.map bare) = newShape ndim l := by
  simp [newShape, bare, List.map_map, Function.comp_def]

theorem normalise_bare (ndim : Nat) (l : List Arr) : normalise ndim (l.map bare) = (normalise ndim l).map bare := by
  simp [normalise, minOffset_bare, List.map_map, Function.comp_def, bare]

theorem bare_field (a : SArr) (n : String) :
    bare (a.field n) = { off := a.off, shape := a.shape, get := fun _ => none } := by
  unfold SArr.field bare
  cases a.fields.lookup n <;> rfl

theorem field_reoff (a : SArr) (n : String) (o : List Int) :
    { a.field n with off := o } = ({ a with off := o } : SArr).field n := by
  unfold SArr.field
  cases a.fields.lookup n <;> rfl

theorem field_normalised (a : SArr) (n : String) (mo : List Int) :
    ((fun (b : Arr) => ({ b with off := sub b.off mo } : Arr)) ∘ fun (x : SArr) => x.field n) a
      = ((fun (x : SArr) => x.field n) ∘ fun (b : SArr) => ({ b with off := sub b.off mo } : SArr)) a := by
  simp only [Function.comp, SArr.field]
  cases a.fields.lookup n <;> rfl

theorem field_off (a : SArr) (n : String) : (a.field n).off = a.off := by
  unfold SArr.field
  cases a.fields.lookup n <;> rfl

/-! ### minimum and maximum of a permuted list -/

theorem minList_perm (l₁ l₂ : List Int) (h : l₁.Perm l₂) : minList l₁ = minList l₂ := by
  by_cases h1 : l₁ = []
  · subst h1; rw [h.nil_eq]
  · have h2 : l₂ ≠ [] := fun e => h1 (by subst e; exact h.eq_nil)
    have a := minList_le l₁ _ (h.mem_iff.mpr (minList_mem l₂ h2))
    have b := minList_le l₂ _ (h.mem_iff.mp (minList_mem l₁ h1))
    omega

theorem maxList_perm (l₁ l₂ : List Int) (h : l₁.Perm l₂) : maxList l₁ = maxList l₂ := by
  by_cases h1 : l₁ = []
  · subst h1; rw [h.nil_eq]
  · have h2 : l₂ ≠ [] := fun e => h1 (by subst e; exact h.eq_nil)
    have a := le_maxList l₁ _ (h.mem_iff.mpr (maxList_mem l₂ h2))
    have b := le_maxList l₂ _ (h.mem_iff.mp (maxList_mem l₁ h1))
    omega

theorem minOffset_perm (ndim : Nat) (a₁ a₂ : List Arr) (h : a₁.Perm a₂) : minOffset ndim a₁ = minOffset ndim a₂ := by
  unfold minOffset
  apply List.map_congr_left
  intro k _
  exact minList_perm _ _ (h.map _)

theorem normalise_perm (ndim : Nat) (a₁ a₂ : List Arr) (h : a₁.Perm a₂) :
    (normalise ndim a₁).Perm (normalise ndim a₂) := by
  unfold normalise
  rw [minOffset_perm ndim a₁ a₂ h]
  exact h.map _

theorem newShape_perm (ndim : Nat) (a₁ a₂ : List Arr) (h : a₁.Perm a₂) : newShape ndim a₁ = newShape ndim a₂ := by
  unfold newShape
  apply List.map_congr_left
  intro k _
  exact maxList_perm _ _ (h.map _)

end Pew.Overlap

namespace Pew.Overlap

/-! ### merged field lists (names, and (name, dtype) pairs) -/

theorem hasDup_eq_false_iff (l : List String) : hasDup l = false ↔ l.Nodup := by
  induction l with
  | nil => simp [hasDup]
  | cons x xs ih => simp [hasDup, ih]

/-- one step of the merge loops: append what is not yet present -/
def mergeStep {α : Type} [BEq α] (acc new : List α) : List α := acc ++ new.filter (fun d => !acc.contains d)

theorem mergeStep_nodup {α : Type} [BEq α] [LawfulBEq α] (acc new : List α) (ha : acc.Nodup) (hn : new.Nodup) :
    (mergeStep acc new).Nodup := by
  unfold mergeStep
  rw [List.nodup_append]
  refine ⟨ha, hn.filter _, ?_⟩
  intro x hx y hy
  simp only [List.mem_filter, Bool.not_eq_eq_eq_not, Bool.not_true, List.contains_eq_mem,
    decide_eq_false_iff_not] at hy
  intro e
  subst e
  exact hy.2 hx

theorem mergeStep_mem {α : Type} [BEq α] [LawfulBEq α] (acc new : List α) (x : α) :
    x ∈ mergeStep acc new ↔ x ∈ acc ∨ x ∈ new := by
  unfold mergeStep
  simp only [List.mem_append, List.mem_filter, Bool.not_eq_eq_eq_not, Bool.not_true, List.contains_eq_mem,
    decide_eq_false_iff_not]
  constructor
  · rintro (h | h)
    · exact Or.inl h
    · exact Or.inr h.1
  · rintro (h | h)
    · exact Or.inl h
    · by_cases hc : x ∈ acc
      · exact Or.inl hc
      · exact Or.inr ⟨h, hc⟩

theorem foldl_mergeStep_nodup {α β : Type} [BEq α] [LawfulBEq α] (f : β → List α) (l : List β) (acc : List α)
    (ha : acc.Nodup) (hn : ∀ b ∈ l, (f b).Nodup) : (l.foldl (fun acc b => mergeStep acc (f b)) acc).Nodup := by
  induction l generalizing acc with
  | nil => exact ha
  | cons b l ih =>
    simp only [List.foldl_cons]
    exact ih _ (mergeStep_nodup acc (f b) ha (hn b (by simp))) (fun b' hb' => hn b' (by simp [hb']))

theorem foldl_mergeStep_mem {α β : Type} [BEq α] [LawfulBEq α] (f : β → List α) (l : List β) (acc : List α) (x : α) :
    x ∈ l.foldl (fun acc b => mergeStep acc (f b)) acc ↔ x ∈ acc ∨ ∃ b ∈ l, x ∈ f b := by
  induction l generalizing acc with
  | nil => simp
  | cons b l ih =>
    simp only [List.foldl_cons]
    rw [ih, mergeStep_mem]
    simp only [List.mem_cons, exists_eq_or_imp]
    tauto

theorem mergedNames_eq (arrs : List SArr) :
    mergedNames arrs = arrs.foldl (fun acc a => mergeStep acc (a.fields.map (·.1))) [] := rfl

theorem mergedDescr_eq (arrs : List DArr) :
    mergedDescr arrs = arrs.foldl (fun acc a => mergeStep acc a.descr) [] := rfl

theorem mergedNames_nodup (arrs : List SArr) (h : ∀ a ∈ arrs, (a.fields.map (·.1)).Nodup) :
    (mergedNames arrs).Nodup := by
  rw [mergedNames_eq]
  exact foldl_mergeStep_nodup _ _ _ List.nodup_nil h

theorem descr_nodup (a : DArr) (h : (a.fields.map (·.1)).Nodup) : a.descr.Nodup := by
  have : a.descr.map (·.1) = a.fields.map (·.1) := by simp [DArr.descr, List.map_map, Function.comp_def]
  rw [← this] at h
  exact List.Nodup.of_map _ h

theorem mergedDescr_nodup (arrs : List DArr) (h : ∀ a ∈ arrs, (a.fields.map (·.1)).Nodup) :
    (mergedDescr arrs).Nodup := by
  rw [mergedDescr_eq]
  exact foldl_mergeStep_nodup _ _ _ List.nodup_nil (fun a ha => descr_nodup a (h a ha))

theorem mergedDescr_mem (arrs : List DArr) (d : String × DT) :
    d ∈ mergedDescr arrs ↔ ∃ a ∈ arrs, d ∈ a.descr := by
  rw [mergedDescr_eq, foldl_mergeStep_mem]
  simp

/-- with one dtype everywhere the (name, dtype) merge is the name merge -/
theorem mergeStep_map_inj {α β : Type} [BEq α] [LawfulBEq α] [BEq β] [LawfulBEq β] (g : α → β)
    (hg : Function.Injective g) (acc new : List α) :
    mergeStep (acc.map g) (new.map g) = (mergeStep acc new).map g := by
  unfold mergeStep
  rw [List.map_append, List.filter_map]
  congr 2
  apply List.filter_congr
  intro x _
  simp only [Function.comp, List.contains_eq_mem, List.mem_map_of_injective hg]

theorem mergedDescr_allF8 (arrs : List DArr) (h : ∀ a ∈ arrs, ∀ f ∈ a.fields, f.2.1 = DT.f8) :
    mergedDescr arrs = (mergedNames (arrs.map DArr.toS)).map (fun n => (n, DT.f8)) := by
  rw [mergedDescr_eq, mergedNames_eq]
  have hg : Function.Injective (fun n : String => (n, DT.f8)) := fun x y e => by simpa using e
  have key : ∀ (acc : List String),
      arrs.foldl (fun acc a => mergeStep acc a.descr) (acc.map (fun n => (n, DT.f8)))
        = ((arrs.map DArr.toS).foldl (fun acc a => mergeStep acc (a.fields.map (·.1))) acc).map (fun n => (n, DT.f8)) := by
    induction arrs with
    | nil => intro acc; rfl
    | cons a l ih =>
      intro acc
      simp only [List.map_cons, List.foldl_cons]
      have hd : a.descr = (a.toS.fields.map (·.1)).map (fun n => (n, DT.f8)) := by
        simp only [DArr.descr, DArr.toS, List.map_map]
        apply List.map_congr_left
        intro f hf
        simp only [Function.comp]
        rw [← h a (by simp) f hf]
      rw [hd, mergeStep_map_inj _ hg]
      exact ih (fun a' ha' => h a' (by simp [ha'])) _
  exact key []

theorem lookup_mem {α : Type} (l : List (String × α)) (n : String) (v : α) (h : l.lookup n = some v) : (n, v) ∈ l := by
  induction l with
  | nil => simp at h
  | cons x xs ih =>
    obtain ⟨k, w⟩ := x
    by_cases e : n = k
    · subst e
      simp only [List.lookup_cons_self, Option.some.injEq] at h
      subst h
      simp
    · have : (n == k) = false := by simpa using e
      rw [List.lookup_cons, this] at h
      exact List.mem_cons_of_mem _ (ih h)

theorem canvasDT_allF8 (arrs : List DArr) (h : ∀ a ∈ arrs, ∀ f ∈ a.fields, f.2.1 = DT.f8) (name : String) :
    canvasDT arrs name = DT.f8 := by
  cases arrs with
  | nil => rfl
  | cons a l =>
    simp only [canvasDT]
    cases hl : a.fields.lookup name with
    | none => rfl
    | some f => exact h a (by simp) (name, f) (lookup_mem _ _ _ hl)

theorem mapM_ok_of_forall {α β ε : Type} (f : α → Except ε β) (g : α → β) (l : List α)
    (h : ∀ d ∈ l, f d = .ok (g d)) : l.mapM f = .ok (l.map g) := by
  induction l with
  | nil => rfl
  | cons x xs ih =>
    rw [List.mapM_cons, h x (by simp), ih (fun d hd => h d (by simp [hd]))]
    rfl

end Pew.Overlap
