import PewModel.CsvDir

/-!
# C04 — sorting lemmas (copy of the sort-invariance spike, generalised to the lexicographic keys of
`Pew.CsvDir`; kept in this namespace so it cannot clash with another property's copy)
-/
namespace Pew.CsvDir

theorem keyLe_refl : ∀ a : List Int, keyLe a a = true
  | [] => rfl
  | x :: xs => by simp [keyLe, keyLe_refl xs]

theorem keyLe_total : ∀ a b : List Int, (keyLe a b || keyLe b a) = true
  | [], _ => by simp [keyLe]
  | _ :: _, [] => by simp [keyLe]
  | x :: xs, y :: ys => by
    have ih := keyLe_total xs ys
    simp only [keyLe]
    by_cases h1 : x < y
    · simp [h1]
    · by_cases h2 : x = y
      · subst h2; simpa using ih
      · have : y < x := by omega
        simp [h1, h2, this]

theorem keyLe_trans : ∀ a b c : List Int, keyLe a b = true → keyLe b c = true → keyLe a c = true
  | [], _, _ => by simp [keyLe]
  | _ :: _, [], _ => by simp [keyLe]
  | _ :: _, _ :: _, [] => by simp [keyLe]
  | x :: xs, y :: ys, z :: zs => by
    have ih := keyLe_trans xs ys zs
    simp only [keyLe]
    intro h1 h2
    by_cases hxy : x < y
    · by_cases hyz : y < z
      · have : x < z := by omega
        simp [this]
      · by_cases hyz' : y = z
        · subst hyz'; simp [hxy]
        · simp [hyz, hyz'] at h2
    · by_cases hxy' : x = y
      · subst hxy'
        by_cases hyz : x < z
        · simp [hyz]
        · by_cases hyz' : x = z
          · subst hyz'
            simp only [Int.lt_irrefl, if_false, if_true] at h1 h2 ⊢
            exact ih h1 h2
          · simp [hyz, hyz'] at h2
      · simp [hxy, hxy'] at h1

theorem keyLe_antisymm : ∀ a b : List Int, keyLe a b = true → keyLe b a = true → a = b
  | [], [] => by simp
  | [], _ :: _ => by simp [keyLe]
  | _ :: _, [] => by simp [keyLe]
  | x :: xs, y :: ys => by
    have ih := keyLe_antisymm xs ys
    simp only [keyLe]
    intro h1 h2
    by_cases hxy : x < y
    · have h3 : ¬ y < x := by omega
      have h4 : ¬ y = x := by omega
      simp [h3, h4] at h2
    · by_cases hxy' : x = y
      · subst hxy'
        simp only [Int.lt_irrefl, if_false, if_true] at h1 h2
        rw [ih h1 h2]
      · simp [hxy, hxy'] at h1

theorem keyLt_irrefl (a : List Int) : keyLt a a = false := by simp [keyLt, keyLe_refl]

theorem keyLe_of_keyLt {a b : List Int} (h : keyLt a b = true) : keyLe a b = true := by
  have := keyLe_total a b
  simp [keyLt] at h
  simpa [h] using this

/-- two listings of the same files whose keys are pairwise distinct sort to the same list -/
theorem sortBy_perm_invariant {β : Type} (key : β → List Int) (l₁ l₂ : List β)
    (hp : l₁.Perm l₂) (hinj : ∀ a ∈ l₁, ∀ b ∈ l₁, key a = key b → a = b) :
    sortBy key l₁ = sortBy key l₂ := by
  unfold sortBy
  have ht : ∀ a b c : β, keyLe (key a) (key b) = true → keyLe (key b) (key c) = true → keyLe (key a) (key c) = true :=
    fun a b c => keyLe_trans _ _ _
  have htot : ∀ a b : β, (keyLe (key a) (key b) || keyLe (key b) (key a)) = true := fun a b => keyLe_total _ _
  have s1 := List.pairwise_mergeSort (le := fun a b => keyLe (key a) (key b)) ht htot l₁
  have s2 := List.pairwise_mergeSort (le := fun a b => keyLe (key a) (key b)) ht htot l₂
  have p : (l₁.mergeSort fun a b => keyLe (key a) (key b)).Perm (l₂.mergeSort fun a b => keyLe (key a) (key b)) :=
    (List.mergeSort_perm _ _).trans (hp.trans (List.mergeSort_perm _ _).symm)
  apply List.Perm.eq_of_pairwise (le := fun a b => keyLe (key a) (key b) = true) _ s1 s2 p
  intro a b ha hb h1 h2
  have ha' : a ∈ l₁ := (List.mergeSort_perm _ _).mem_iff.mp ha
  have hb' : b ∈ l₁ := hp.mem_iff.mpr ((List.mergeSort_perm _ _).mem_iff.mp hb)
  exact hinj a ha' b hb' (keyLe_antisymm _ _ h1 h2)

/-- two comparison keys that order the members of `l` alike sort `l` alike (also with ties) -/
theorem sortBy_congr {β : Type} (k₁ k₂ : β → List Int) (l : List β)
    (h : ∀ a ∈ l, ∀ b ∈ l, keyLe (k₁ a) (k₁ b) = keyLe (k₂ a) (k₂ b)) :
    sortBy k₁ l = sortBy k₂ l := by
  unfold sortBy
  have := List.map_mergeSort (r := fun a b => keyLe (k₁ a) (k₁ b)) (s := fun a b => keyLe (k₂ a) (k₂ b))
    (f := id) (l := l) (by intro a ha b hb; exact h a ha b hb)
  simpa using this

theorem sortBy_perm {β : Type} (key : β → List Int) (l : List β) : (sortBy key l).Perm l :=
  List.mergeSort_perm _ _

theorem sortBy_pairwise {β : Type} (key : β → List Int) (l : List β) :
    (sortBy key l).Pairwise (fun a b => keyLe (key a) (key b) = true) :=
  List.pairwise_mergeSort (le := fun a b => keyLe (key a) (key b))
    (fun _ _ _ => keyLe_trans _ _ _) (fun _ _ => keyLe_total _ _) l

/-- in a strictly sorted list the element at position `k` has exactly `k` smaller elements -/
theorem countP_lt_of_sorted {β : Type} (key : β → List Int) :
    ∀ (s : List β), s.Pairwise (fun a b => keyLt (key a) (key b) = true) →
      ∀ (k : Nat) (hk : k < s.length), s.countP (fun x => keyLt (key x) (key s[k])) = k
  | [], _, k, hk => by simp at hk
  | a :: t, hs, k, hk => by
    rw [List.pairwise_cons] at hs
    cases k with
    | zero =>
      simp only [List.getElem_cons_zero]
      rw [List.countP_cons, keyLt_irrefl]
      simp only [Bool.false_eq_true, if_false, Nat.add_zero]
      rw [List.countP_eq_zero]
      intro y hy
      have h1 := hs.1 y hy
      have h2 := keyLe_of_keyLt h1
      simp [keyLt, h2]
    | succ k =>
      simp only [List.getElem_cons_succ]
      have hk' : k < t.length := by simpa using hk
      rw [List.countP_cons, countP_lt_of_sorted key t hs.2 k hk']
      have := hs.1 t[k] (List.getElem_mem hk')
      simp [this]

theorem find?_unique {β : Type} (p : β → Bool) : ∀ (l : List β) (x : β), x ∈ l → p x = true →
    (∀ y ∈ l, p y = true → y = x) → l.find? p = some x
  | [], _, hx, _, _ => by simp at hx
  | a :: t, x, hx, hp, hu => by
    by_cases ha : p a = true
    · have := hu a (List.mem_cons_self) ha
      subst this
      simp [ha]
    · have hx' : x ∈ t := by
        rcases List.mem_cons.mp hx with h | h
        · subst h; exact absurd hp ha
        · exact h
      have ha' : p a = false := by simpa using ha
      rw [List.find?_cons, ha']
      exact find?_unique p t x hx' hp (fun y hy => hu y (List.mem_cons_of_mem _ hy))

theorem filterMap_congr' {β γ : Type} {f g : β → Option γ} : ∀ {l : List β}, (∀ x ∈ l, f x = g x) →
    l.filterMap f = l.filterMap g
  | [], _ => rfl
  | a :: t, h => by
    rw [List.filterMap_cons, List.filterMap_cons, h a List.mem_cons_self,
      filterMap_congr' (fun x hx => h x (List.mem_cons_of_mem _ hx))]

theorem filterMap_range_getElem? {β : Type} : ∀ (s : List β), (List.range s.length).filterMap (fun k => s[k]?) = s
  | [] => by simp
  | a :: t => by
    have ih := filterMap_range_getElem? t
    simp only [List.length_cons, List.range_succ_eq_map, List.filterMap_cons, List.getElem?_cons_zero,
      List.filterMap_map]
    congr 1

/-- stable sort by key = "position `k` holds the element with `k` smaller ones", for distinct keys -/
theorem sortBy_eq_byRank {β : Type} (key : β → List Int) (l : List β)
    (hd : l.Pairwise (fun a b => key a ≠ key b)) : sortBy key l = byRank key l := by
  have hperm := sortBy_perm key l
  -- distinct keys survive the permutation
  have hd' : (sortBy key l).Pairwise (fun a b => key a ≠ key b) :=
    hperm.symm.pairwise hd (fun {a b} h => fun e => h e.symm)
  have hs : (sortBy key l).Pairwise (fun a b => keyLt (key a) (key b) = true) := by
    have := (sortBy_pairwise key l).and hd'
    refine this.imp ?_
    intro a b ⟨h1, h2⟩
    simp only [keyLt, Bool.not_eq_eq_eq_not, Bool.not_true]
    cases h3 : keyLe (key b) (key a) with
    | false => rfl
    | true => exact absurd (keyLe_antisymm _ _ h1 h3) h2
  have hlen : (sortBy key l).length = l.length := hperm.length_eq
  have hrank : ∀ (k : Nat) (hk : k < (sortBy key l).length), rank key l (sortBy key l)[k] = k := by
    intro k hk
    unfold rank
    rw [← hperm.countP_eq]
    exact countP_lt_of_sorted key _ hs k hk
  unfold byRank
  have hfind : ∀ j (hj : j < (sortBy key l).length),
      l.find? (fun e => rank key l e == j) = some (sortBy key l)[j] := by
    intro j hj
    apply find?_unique
    · exact hperm.mem_iff.mp (List.getElem_mem hj)
    · simp [hrank j hj]
    · intro y hy hy2
      obtain ⟨i, hi, rfl⟩ := List.getElem_of_mem (hperm.mem_iff.mpr hy)
      have : i = j := by
        have := hrank i hi
        simp at hy2
        omega
      subst this; rfl
  have hall : (List.range l.length).filterMap (fun k => l.find? (fun e => rank key l e == k))
      = (List.range l.length).filterMap (fun k => (sortBy key l)[k]?) := by
    apply filterMap_congr'
    intro j hj
    have hj' : j < (sortBy key l).length := by simpa [hlen] using hj
    rw [hfind j hj', List.getElem?_eq_getElem hj']
  rw [hall, ← hlen, filterMap_range_getElem?]

/-- with distinct keys `byRank` is a permutation of the list … -/
theorem byRank_perm {β : Type} (key : β → List Int) (l : List β)
    (hd : l.Pairwise (fun a b => key a ≠ key b)) : (byRank key l).Perm l := by
  rw [← sortBy_eq_byRank key l hd]
  exact sortBy_perm key l

/-- … that holds every element at the position given by its rank -/
theorem byRank_getElem?_rank {β : Type} (key : β → List Int) (l : List β)
    (hd : l.Pairwise (fun a b => key a ≠ key b)) (e : β) (he : e ∈ l) :
    (byRank key l)[rank key l e]? = some e := by
  rw [← sortBy_eq_byRank key l hd]
  have hperm := sortBy_perm key l
  obtain ⟨i, hi, hie⟩ := List.getElem_of_mem (hperm.mem_iff.mpr he)
  have hd' : (sortBy key l).Pairwise (fun a b => key a ≠ key b) :=
    hperm.symm.pairwise hd (fun {a b} h => fun e => h e.symm)
  have hs : (sortBy key l).Pairwise (fun a b => keyLt (key a) (key b) = true) := by
    refine ((sortBy_pairwise key l).and hd').imp ?_
    intro a b ⟨h1, h2⟩
    simp only [keyLt, Bool.not_eq_eq_eq_not, Bool.not_true]
    cases h3 : keyLe (key b) (key a) with
    | false => rfl
    | true => exact absurd (keyLe_antisymm _ _ h1 h3) h2
  have hrank : rank key l e = i := by
    unfold rank
    rw [← hperm.countP_eq, ← hie]
    exact countP_lt_of_sorted key _ hs i hi
  rw [hrank, List.getElem?_eq_getElem hi, hie]

end Pew.CsvDir
