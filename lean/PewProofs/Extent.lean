import PewModel.Extent
import PewProofs.Srr

/-! helper lemmas for C10 -/
namespace Pew
namespace Extent
open Pew.Srr (normIdx_natCast)

theorem trunc_intCast (n : Int) : trunc (n : Rat) = n := by
  unfold trunc
  split
  · exact Rat.floor_intCast n
  · rw [Rat.ceil_eq_neg_floor_neg]
    have : (-(n : Rat)) = ((-n : Int) : Rat) := by push_cast; rfl
    rw [this, Rat.floor_intCast]; omega

theorem round6_near (q : Rat) (j : Int) (h1 : (j : Rat) - 5 / 10000000 < q) (h2 : q < (j : Rat) + 5 / 10000000) :
    round6 q = (j : Rat) := by
  unfold round6
  have : roundHalfEven (q * 1000000) = j * 1000000 :=
    roundHalfEven_near _ _ (by push_cast; linarith) (by push_cast; linarith)
  rw [this]; push_cast; field_simp

theorem toIndex_near (q : Rat) (j : Int) (h1 : (j : Rat) - 5 / 10000000 < q) (h2 : q < (j : Rat) + 5 / 10000000) :
    toIndex q = j := by
  unfold toIndex
  rw [round6_near q j h1 h2, trunc_intCast]

/-! ### Python slicing of in-range bounds -/

theorem slice_aligned {α : Type} (data : Arr2 α) (r0 r1 c0 c1 : Nat)
    (hr1 : r1 ≤ data.rows) (hr : r0 ≤ r1) (hc1 : c1 ≤ data.cols) (hc : c0 ≤ c1) :
    data.slice (some (r0 : Int)) (some (r1 : Int)) (some (c0 : Int)) (some (c1 : Int))
      = rectSpec data r0 r1 c0 c1 := by
  unfold Arr2.slice rectSpec sliceBounds
  simp only [normIdx_natCast data.rows r0 (by omega), normIdx_natCast data.rows r1 hr1,
    normIdx_natCast data.cols c0 (by omega), normIdx_natCast data.cols c1 hc1]

end Extent
end Pew
